/-
  Top level of the parser: `Parser::parse` and the clause parsers (fields, roots, root options,
  where, group by, order by, limit, into).  Mirrors src/parser.rs:41-428,818-951.
-/
import Fsel.Model.Parser

namespace Fsel

/-- `is_root_option_keyword` and the keyword chain of `parse_root_options`. -/
inductive RootOptKw where
  | minDepth | depth | arc | sym | git | hg | dock | nogit | nohg | nodock | bfs | dfs | regex
  deriving DecidableEq, Repr

def rootOptKw (s : Str) : Option RootOptKw :=
  let s := lowerStr s
  if s == ofS "mindepth" then some .minDepth
  else if s == ofS "maxdepth" || s == ofS "depth" then some .depth
  else if startsWith s (ofS "arc") then some .arc
  else if startsWith s (ofS "sym") then some .sym
  else if startsWith s (ofS "git") then some .git
  else if startsWith s (ofS "hg") then some .hg
  else if startsWith s (ofS "dock") then some .dock
  else if startsWith s (ofS "nogit") then some .nogit
  else if startsWith s (ofS "nohg") then some .nohg
  else if startsWith s (ofS "nodock") then some .nodock
  else if s == ofS "bfs" then some .bfs
  else if s == ofS "dfs" then some .dfs
  else if startsWith s (ofS "regex") then some .regex
  else none

def isRootOptionKeyword (s : Str) : Bool := (rootOptKw s).isSome

inductive ROMode where
  | unknown | options | minDepth | depth
  deriving DecidableEq

/-- Result of `parse_root_options` started in `mode`: options (or `none` when no option keyword was
    recognised), remaining tokens, and the progress facts used by `parse_roots`. -/
structure RORes (mode : ROMode) (ts : List Lexem) where
  opts : Option RootOptions
  rest : List Lexem
  le : rest.length ≤ ts.length
  progress : opts.isSome = true → mode = .unknown → rest.length < ts.length

/-- the root option `regexp`/`rx`, which reaches the parser as an operator token (D63 fix: any letter case) -/
def isRegexpRootWord (s : Str) : Bool := lowerStr s == ofS "rx" || lowerStr s == ofS "regexp"

def roFin (mode : ROMode) (o : RootOptions) (ts : List Lexem) : RORes mode ts :=
  if h : mode = .unknown then ⟨none, ts, Nat.le_refl _, fun a => by simp at a⟩
  else ⟨some o, ts, Nat.le_refl _, fun _ b => absurd b h⟩

def roGo (mode : ROMode) (o : RootOptions) : (ts : List Lexem) → RORes mode ts
  | [] => roFin mode o []
  | .op s :: r =>
    if isRegexpRootWord s then
      match roGo .options { o with regexp := true } r with
      | ⟨x, r', h, _⟩ => ⟨x, r', by lenomega, fun _ _ => by lenomega⟩
    else roFin mode o _
  | .str s :: r | .raw s :: r =>
    let continue_ (mode' : ROMode) (o' : RootOptions) : RORes mode (_ :: r) :=
      match roGo mode' o' r with
      | ⟨x, r', h, _⟩ => ⟨x, r', by lenomega, fun _ _ => by lenomega⟩
    if mode = .minDepth then
      match parseU32? s with
      | some d => continue_ .options { o with minDepth := d }
      | none => roFin _ o _
    else if mode = .depth then
      match parseU32? s with
      | some d => continue_ .options { o with maxDepth := d }
      | none => roFin _ o _
    else
      match rootOptKw s with
      | some .minDepth => continue_ .minDepth o
      | some .depth => continue_ .depth o
      | some .arc => continue_ .options { o with archives := true }
      | some .sym => continue_ .options { o with symlinks := true }
      | some .git => continue_ .options { o with gitignore := some true }
      | some .hg => continue_ .options { o with hgignore := some true }
      | some .dock => continue_ .options { o with dockerignore := some true }
      | some .nogit => continue_ .options { o with gitignore := some false }
      | some .nohg => continue_ .options { o with hgignore := some false }
      | some .nodock => continue_ .options { o with dockerignore := some false }
      | some .bfs => continue_ .options { o with traversal := .bfs }
      | some .dfs => continue_ .options { o with traversal := .dfs }
      | some .regex => continue_ .options { o with regexp := true }
      | none => roFin _ o _
  | _ :: _ => roFin mode o _

/-- `parse_root_options`: returns `none` when no option keyword was recognised. -/
def parseRootOptions (ts : List Lexem) : RORes .unknown ts := roGo .unknown {} ts

/-- One iteration of a token loop: either strict progress with a new loop state, or the final result. -/
inductive Step (σ α : Type) (ts : List Lexem) where
  | more (s : σ) (r : List Lexem) (h : r.length < ts.length)
  | done (res : Except PErr α) (r : Rest ts)

/-- Token loops of the parser: iterate a step function that must make strict progress.  A Rust loop
    whose iteration can leave the position unchanged has no such step function; its model step
    returns `done (hang …)` at exactly those inputs. -/
def iterate {σ α : Type} (step : σ → (ts : List Lexem) → Step σ α ts) (s : σ) (ts : List Lexem) :
    Except PErr α × Rest ts :=
  match step s ts with
  | .done res r => (res, r)
  | .more s' r h =>
    let (x, r') := iterate step s' r
    (x, r'.lift (Nat.le_of_lt h))
termination_by ts.length

inductive RPMode where
  | from_ | root | comma
  deriving DecidableEq

structure RootsSt where
  mode : RPMode
  path : Str
  o : RootOptions
  roots : List Root

def RootsSt.push (st : RootsSt) : List Root :=
  if st.path.isEmpty then st.roots else st.roots ++ [⟨st.path, st.o⟩]

def rootsStep (st : RootsSt) : (ts : List Lexem) → Step RootsSt (List Root) ts
  | [] => .done (.ok st.push) (Rest.refl _)
  | .comma :: r =>
    if !st.path.isEmpty then .more { mode := .comma, path := [], o := {}, roots := st.roots ++ [⟨st.path, st.o⟩] } r (by simp)
    else .done (.ok st.roots) (Rest.refl _)
  | .str s :: r | .raw s :: r =>
    match st.mode with
    | .from_ | .comma =>
      if startsWith s ['~'] then .done (.error (.unsupported "tilde expansion in root")) (Rest.refl _)
      else .more { st with mode := .root, path := s } r (by simp)
    | .root =>
      -- `group by` ends the root list (both tokens are left for parse_group_by)
      let isGroup := lowerStr s == ofS "group"
      let followedByBy := match r with | .by_ :: _ => true | _ => false
      if isGroup && followedByBy then .done (.ok st.push) (Rest.refl _)
      else if isGroup then
        -- `group` without `by` is silently skipped; options start after it
        match parseRootOptions r with
        | ⟨some o', r2, h2, _⟩ => .more { st with o := o' } r2 (by lenomega)
        | ⟨none, r2, h2, _⟩ => .done (.ok (st.roots ++ [⟨st.path, {}⟩])) ⟨r2, by lenomega⟩
      else
        match parseRootOptions (.raw s :: r) with
        | ⟨some o', r2, h2, hp⟩ => .more { st with o := o' } r2 (by have := hp rfl rfl; lenomega)
        | ⟨none, r2, h2, _⟩ => .done (.ok (st.roots ++ [⟨st.path, {}⟩])) ⟨r2, by lenomega⟩
  | .op s :: r =>
    -- D83 fix: `rx` / `regexp` (operator tokens) directly after the path start the options
    if st.mode = .root && isRegexpRootWord s then
      match parseRootOptions (.op s :: r) with
      | ⟨some o', r2, h2, hp⟩ => .more { st with o := o' } r2 (by have := hp rfl rfl; lenomega)
      | ⟨none, r2, h2, _⟩ => .done (.ok (st.roots ++ [⟨st.path, {}⟩])) ⟨r2, by lenomega⟩
    else .done (.ok st.push) (Rest.refl _)
  | _ :: _ => .done (.ok st.push) (Rest.refl _)

/-- `parse_roots`. `unsupported` for `~` expansion (depends on the user database). -/
def parseRoots (ts : List Lexem) : Except PErr (List Root) × Rest ts :=
  match ts with
  | .from_ :: r =>
    let (x, r') := iterate rootsStep { mode := .from_, path := [], o := {}, roots := [] } r
    (x, r'.lift (by simp))
  | ts => (.ok [], Rest.refl ts)

def starFields : List Expr :=
  [.field false .Mode, .field false .User, .field false .Group, .field false .Size,
   .field false .Modified, .field false .Path]

/-- expression in the select list: errors are swallowed (`if let Ok(Some(field)) = self.parse_expr()`) -/
def fieldsExprStep (acc : List Expr) (ts : List Lexem) (hne : ts ≠ []) : Step (List Expr) (List Expr) ts :=
  match parseExpr false ts with
  | ⟨.ok e, r2, _, hp⟩ => .more (acc ++ [e]) r2 (hp rfl hne)
  | ⟨.error (.msg _), r2, _, hp⟩ => .more acc r2 (hp rfl hne)
  | ⟨.error e, r2, h2, _⟩ => .done (.error e) ⟨r2, h2⟩

def fieldsWord (acc : List Expr) (s : Str) (t : Lexem) (r : List Lexem) : Step (List Expr) (List Expr) (t :: r) :=
  if lowerStr s == ofS "select" then .more acc r (by simp)
  else if s == ['*'] then .more (acc ++ starFields) r (by simp)
  else
    let isGroupBy := lowerStr s == ofS "group" && (match r with | .by_ :: _ => true | _ => false)
    if isGroupBy then .done (.ok acc) (Rest.refl _)
    else if isRootOptionKeyword s then .done (.ok acc) (Rest.refl _)
    else fieldsExprStep acc (t :: r) (by simp)

def fieldsStep (acc : List Expr) : (ts : List Lexem) → Step (List Expr) (List Expr) ts
  | [] => .done (.ok acc) (Rest.refl _)
  | .comma :: r => .more acc r (by simp)
  | .open_ :: r => fieldsExprStep acc (.open_ :: r) (by simp)
  | .copen :: r => fieldsExprStep acc (.copen :: r) (by simp)
  | .str s :: r => fieldsWord acc s (.str s) r
  | .raw s :: r => fieldsWord acc s (.raw s) r
  | .arith s :: r => fieldsWord acc s (.arith s) r
  | _ :: _ => .done (.ok acc) (Rest.refl _)

/-- `parse_fields`.  Every iteration makes strict progress (by the types of `fieldsStep`), which is
    what the D25 fix established: before it `fselect /` looped forever here. -/
def parseFields (ts : List Lexem) : Except PErr (List Expr) × Rest ts :=
  match iterate fieldsStep [] ts with
  | (.ok [], r) => (.error (.msg "Error parsing fields, no selector found"), r)
  | x => x

/-- `parse_where` -/
def parseWhere (ts : List Lexem) : Except PErr (Option Expr) × Rest ts :=
  match ts with
  | .where_ :: r =>
    match parseExpr true r with
    | ⟨.ok e, r2, h2, _⟩ => (.ok (some e), ⟨r2, by lenomega⟩)
    | ⟨.error e, r2, h2, _⟩ => (.error e, ⟨r2, by lenomega⟩)
  | ts => (.ok none, Rest.refl ts)

def groupStep (acc : List Expr) : (ts : List Lexem) → Step (List Expr) (List Expr) ts
  | .comma :: r => .more acc r (by simp)
  | .raw s :: r =>
    match parseExpr false (.raw s :: r) with
    | ⟨.ok e, r2, _, hp⟩ => .more (acc ++ [e]) r2 (hp rfl (by simp))
    | ⟨.error e, r2, h2, _⟩ => .done (.error e) ⟨r2, h2⟩
  | ts => .done (.ok acc) (Rest.refl ts)

/-- `parse_group_by` -/
def parseGroupBy (ts : List Lexem) : Except PErr (List Expr) × Rest ts :=
  match ts with
  | .raw s :: r =>
    if lowerStr s == ofS "group" then
      match r with
      | .by_ :: r2 =>
        let (x, r') := iterate groupStep [] r2
        (x, r'.lift (by simp; omega))
      | r0 => (.ok [], ⟨r0, by simp⟩)          -- `group` without `by` is consumed
    else (.ok [], Rest.refl _)
  | ts => (.ok [], Rest.refl ts)

def setLastFalse : List Bool → List Bool
  | [] => []
  | [_] => [false]
  | b :: bs => b :: setLastFalse bs

def orderStep (fields : List Expr) (st : List Expr × List Bool) :
    (ts : List Lexem) → Step (List Expr × List Bool) (List Expr × List Bool) ts
  | .comma :: r => .more st r (by simp)
  | .desc :: r =>
    if st.2.isEmpty then .done (.error (.msg "Error parsing ORDER BY, DESC without a field")) ⟨r, by simp⟩
    else .more (st.1, setLastFalse st.2) r (by simp)
  | .raw s :: r =>
    match parseUsize? s with
    | some idx =>
      if idx == 0 then .done (.error (.msg "Error parsing ORDER BY, position is out of range")) ⟨r, by simp⟩
      else match fields[idx - 1]? with
        | none => .done (.error (.msg "Error parsing ORDER BY, position is out of range")) ⟨r, by simp⟩
        | some f => .more (st.1 ++ [f], st.2 ++ [true]) r (by simp)
    | none =>
      match parseExpr false (.raw s :: r) with
      | ⟨.ok e, r2, _, hp⟩ => .more (st.1 ++ [e], st.2 ++ [true]) r2 (hp rfl (by simp))
      | ⟨.error e, r2, h2, _⟩ => .done (.error e) ⟨r2, h2⟩
  | ts => .done (.ok st) (Rest.refl ts)

/-- `parse_order_by` -/
def parseOrderBy (fields : List Expr) (ts : List Lexem) : Except PErr (List Expr × List Bool) × Rest ts :=
  match ts with
  | .order :: r =>
    match r with
    | .by_ :: r2 =>
      let (x, r') := iterate (orderStep fields) ([], []) r2
      (x, r'.lift (by simp; omega))
    | r0 => (.ok ([], []), ⟨r0, by simp⟩)      -- `order` without `by` is consumed
  | ts => (.ok ([], []), Rest.refl ts)

/-- `parse_limit` -/
def parseLimit (ts : List Lexem) : Except PErr Nat × Rest ts :=
  match ts with
  | .limit :: r =>
    match r with
    | .raw s :: r2 | .str s :: r2 =>
      match parseU32? s with
      | some n => (.ok n, ⟨r2, by simp; omega⟩)
      | none => (.error (.msg "Error parsing limit"), ⟨r2, by simp; omega⟩)
    | r0 => (.error (.msg "Error parsing limit, limit value not found"), ⟨r0, by simp⟩)
  | ts => (.ok 0, Rest.refl ts)

/-- `parse_output_format` -/
def parseOutputFormat (ts : List Lexem) : Except PErr OutputFormat × Rest ts :=
  match ts with
  | .into :: r =>
    match r with
    | .raw s :: r2 | .str s :: r2 =>
      match OutputFormat.ofStr? s with
      | some f => (.ok f, ⟨r2, by simp; omega⟩)
      | none => (.error (.msg "Unknown output format"), ⟨r2, by simp; omega⟩)
    | r0 => (.error (.msg "Error parsing output format"), ⟨r0, by simp⟩)
  | ts => (.ok .Tabs, Rest.refl ts)

/-- `Parser::parse` on a token list. -/
def parseTokens (ts : List Lexem) : Except PErr Query :=
  match parseFields ts with
  | (.error e, _) => .error e
  | (.ok fields, ⟨t1, _⟩) =>
  match parseRoots t1 with
  | (.error e, _) => .error e
  | (.ok roots1, ⟨t2, _⟩) =>
  match parseRootOptions t2 with
  | ⟨rootOpts, t3, _, _⟩ =>
  match parseWhere t3 with
  | (.error e, _) => .error e
  | (.ok expr, ⟨t4, _⟩) =>
  match parseGroupBy t4 with
  | (.error e, _) => .error e
  | (.ok grouping, ⟨t5, _⟩) =>
  match parseOrderBy fields t5 with
  | (.error e, _) => .error e
  | (.ok (ordering, asc), ⟨t6, _⟩) =>
  match parseLimit t6 with
  | (.error e, _) => .error e
  | (.ok limit, ⟨t7, _⟩) =>
  match parseOutputFormat t7 with
  | (.error e, _) => .error e
  | (.ok fmt, ⟨t8, _⟩) =>
  match (if roots1.isEmpty then parseRoots t8 else (.ok roots1, Rest.refl t8)) with
  | (.error e, _) => .error e
  | (.ok roots2, ⟨t9, _⟩) =>
    let roots := if roots2.isEmpty then [⟨['.'], rootOpts.getD {}⟩] else roots2
    if !t9.isEmpty then .error (.msg "Could not parse tokens at the end of the query")
    else
      let limit' := if limit == 0 && fields.all (fun e => e.requiredFields.isEmpty) then 1 else limit
      .ok { fields := fields, roots := roots, expr := expr, grouping := grouping,
            ordering := ordering, orderingAsc := asc, limit := limit', format := fmt }

def parseQuery (parts : List Str) : Except PErr Query := parseTokens (lexAll parts)

end Fsel
