/-
  `Variant` (function.rs:36-222) and its coercions.
-/
import Fsel.Model.Size
import Fsel.Model.Date

namespace Fsel

inductive VType where
  | string | int | float | bool | datetime
  deriving DecidableEq, Repr, BEq

structure Variant where
  ty : VType
  text : Str
  int? : Option Int := none
  float? : Option Num := none
  bool? : Option Bool := none
  dt? : Option Int := none            -- local naive seconds (dt_from = dt_to)
  exact : Bool := true                -- false when `text` renders an inexact float
  deriving Repr

def Variant.empty (ty : VType) : Variant := { ty := ty, text := [] }
def Variant.ofInt (i : Int) : Variant :=
  { ty := .int, text := showInt i, int? := some i, float? := some (Num.ofInt i) }
def Variant.ofFloat (v : Num) : Variant :=
  let (t, ex) := v.show
  { ty := .float, text := t, int? := some v.toI64, float? := some v, exact := ex }
def Variant.ofString (s : Str) : Variant := { ty := .string, text := s }
def Variant.ofSignedString (s : Str) (minus : Bool) : Variant :=
  { ty := .string, text := if minus then '-' :: s else s }
def Variant.ofBool (b : Bool) : Variant :=
  { ty := .bool, text := if b then ofS "true" else ofS "false", int? := some (if b then 1 else 0), bool? := some b }
def Variant.ofDatetime (t : Int) : Variant :=
  { ty := .datetime, text := formatDatetime t, int? := some 0, dt? := some t }

def strToBool (s : Str) : Option Bool := lookup (lowerStr s) boolWords

/-- `to_int` (after the D04 fix): i64, usize, parse_filesize, f64, else 0 -/
def Variant.toInt (v : Variant) : Int :=
  match v.int? with
  | some i => i
  | none =>
    match v.float? with
    | some f => f.toI64
    | none =>
      match parseI64? v.text with
      | some i => i
      | none =>
        match parseUsize? v.text with
        | some n => if n > 9223372036854775807 then 9223372036854775807 else Int.ofNat n   -- saturates at i64::MAX (D79 fix)
        | none =>
          match parseFilesize v.text with
          | some n => if n > 9223372036854775807 then 9223372036854775807 else Int.ofNat n
          | none =>
            match parseF64? v.text with
            | some f => f.toI64
            | none => 0

/-- `to_float`: float, int, parse::<f64>, parse_filesize, 0.0 -/
def Variant.toFloat (v : Variant) : Num :=
  match v.float? with
  | some f => f
  | none =>
    match v.int? with
    | some i => Num.ofInt i
    | none =>
      match parseF64? v.text with
      | some f => f
      | none =>
        match parseFilesize v.text with
        | some n => Num.mk n true
        | none => Num.mk 0 true

/-- `to_bool`; `none` = `error_exit("Can't parse boolean value")` (status 2, D03 fix) -/
def Variant.toBool? (v : Variant) : Option Bool :=
  match v.bool? with
  | some b => some b
  | none =>
    if !v.text.isEmpty then strToBool v.text
    else match v.int? with
      | some i => some (i == 1)
      | none => match v.float? with
        | some f => some (f == Num.mk 1 true)
        | none => some false

end Fsel
