/-
  Canonical JSON rendering of model values for the line protocol (same shape as serde's JSON of the
  Rust `Expr`, so the harness can compare structurally).
-/
import Fsel.Model.ParserTop

namespace Fsel

def hex4 (n : Nat) : Str :=
  [hexDigit (n / 4096 % 16), hexDigit (n / 256 % 16), hexDigit (n / 16 % 16), hexDigit (n % 16)]

/-- JSON string: everything outside [A-Za-z0-9 _.-] is \u-escaped (surrogate pairs above the BMP). -/
def jsonStr (s : Str) : Str :=
  ['"'] ++ s.flatMap (fun c =>
    if isAsciiAlnum c || c == ' ' || c == '_' || c == '.' || c == '-' then [c]
    else
      let n := c.toNat
      if n < 0x10000 then ['\\', 'u'] ++ hex4 n
      else
        let v := n - 0x10000
        ['\\', 'u'] ++ hex4 (0xD800 + v / 1024) ++ ['\\', 'u'] ++ hex4 (0xDC00 + v % 1024)) ++ ['"']

def jnull : Str := ofS "null"
def jbool (b : Bool) : Str := if b then ofS "true" else ofS "false"

def ArithOp.name : ArithOp → Str
  | .Add => ofS "Add" | .Subtract => ofS "Subtract" | .Divide => ofS "Divide"
  | .Multiply => ofS "Multiply" | .Modulo => ofS "Modulo"

def LogicalOp.name : LogicalOp → Str
  | .And => ofS "And" | .Or => ofS "Or"

def Op.name (o : Op) : Str := (reprStr o).toList.reverse.takeWhile (· != '.') |>.reverse

def exprObj (left aop lop op right minus field fn args val : Str) : Str :=
  ofS "{\"left\":" ++ left ++ ofS ",\"arithmetic_op\":" ++ aop ++ ofS ",\"logical_op\":" ++ lop ++
  ofS ",\"op\":" ++ op ++ ofS ",\"right\":" ++ right ++ ofS ",\"minus\":" ++ minus ++
  ofS ",\"field\":" ++ field ++ ofS ",\"function\":" ++ fn ++ ofS ",\"args\":" ++ args ++
  ofS ",\"val\":" ++ val ++ ofS "}"

mutual
def Expr.toJson : Expr → Str
  | .field m f => exprObj jnull jnull jnull jnull jnull (jbool m) (jsonStr f.display) jnull jnull jnull
  | .val m v => exprObj jnull jnull jnull jnull jnull (jbool m) jnull jnull jnull (jsonStr v)
  | .func0 m f => exprObj jnull jnull jnull jnull jnull (jbool m) jnull (jsonStr f.display) (ofS "[]") jnull
  | .func m f l args =>
    exprObj l.toJson jnull jnull jnull jnull (jbool m) jnull (jsonStr f.display)
      (['['] ++ Expr.listJson args ++ [']']) jnull
  | .arith l op r => exprObj l.toJson (jsonStr op.name) jnull jnull r.toJson (jbool false) jnull jnull jnull jnull
  | .cmp l op r => exprObj l.toJson jnull jnull (jsonStr op.name) r.toJson (jbool false) jnull jnull jnull jnull
  | .logic l op r => exprObj l.toJson jnull (jsonStr op.name) jnull r.toJson (jbool false) jnull jnull jnull jnull
def Expr.listJson : List Expr → Str
  | [] => []
  | [e] => e.toJson
  | e :: es => e.toJson ++ [','] ++ Expr.listJson es
end

def jsonList (xs : List Str) : Str := ['['] ++ joinWith [','] xs ++ [']']

def optBoolJson : Option Bool → Str
  | none => jnull
  | some b => jbool b

def Root.toJson (r : Root) : Str :=
  ofS "{\"path\":" ++ jsonStr r.path ++
  ofS ",\"min_depth\":" ++ showNat r.options.minDepth ++
  ofS ",\"max_depth\":" ++ showNat r.options.maxDepth ++
  ofS ",\"archives\":" ++ jbool r.options.archives ++
  ofS ",\"symlinks\":" ++ jbool r.options.symlinks ++
  ofS ",\"gitignore\":" ++ optBoolJson r.options.gitignore ++
  ofS ",\"hgignore\":" ++ optBoolJson r.options.hgignore ++
  ofS ",\"dockerignore\":" ++ optBoolJson r.options.dockerignore ++
  ofS ",\"traversal\":" ++ jsonStr (if r.options.traversal == .bfs then ofS "Bfs" else ofS "Dfs") ++
  ofS ",\"regexp\":" ++ jbool r.options.regexp ++ ofS "}"

def OutputFormat.name (f : OutputFormat) : Str := (reprStr f).toList.reverse.takeWhile (· != '.') |>.reverse

def Query.toJson (q : Query) : Str :=
  ofS "{\"fields\":" ++ jsonList (q.fields.map Expr.toJson) ++
  ofS ",\"roots\":" ++ jsonList (q.roots.map Root.toJson) ++
  ofS ",\"expr\":" ++ (match q.expr with | none => jnull | some e => e.toJson) ++
  ofS ",\"grouping_fields\":" ++ jsonList (q.grouping.map Expr.toJson) ++
  ofS ",\"ordering_fields\":" ++ jsonList (q.ordering.map Expr.toJson) ++
  ofS ",\"ordering_asc\":" ++ jsonList (q.orderingAsc.map jbool) ++
  ofS ",\"limit\":" ++ showNat q.limit ++
  ofS ",\"output_format\":" ++ jsonStr q.format.name ++ ofS "}"

def Lexem.toText : Lexem → Str
  | .raw s => ofS "RawString:" ++ jsonStr s
  | .comma => ofS "Comma"
  | .from_ => ofS "From"
  | .where_ => ofS "Where"
  | .op s => ofS "Operator:" ++ jsonStr s
  | .str s => ofS "String:" ++ jsonStr s
  | .open_ => ofS "Open"
  | .close => ofS "Close"
  | .copen => ofS "CurlyOpen"
  | .cclose => ofS "CurlyClose"
  | .arith s => ofS "ArithmeticOperator:" ++ jsonStr s
  | .and_ => ofS "And"
  | .or_ => ofS "Or"
  | .not_ => ofS "Not"
  | .order => ofS "Order"
  | .by_ => ofS "By"
  | .desc => ofS "DescendingOrder"
  | .limit => ofS "Limit"
  | .into => ofS "Into"

end Fsel
