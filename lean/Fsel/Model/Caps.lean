/-
  `util::capabilities::parse_capabilities`: raw `security.capability` xattr (vfs_cap_data) → text.
  The capability names and bit positions come from the generated `capTable`.
-/
import Fsel.Gen.Tables
import Fsel.Model.Text

namespace Fsel

/-- little-endian u32 from four bytes starting at `off` -/
def le32 (bs : List Nat) (off : Nat) : Nat :=
  bs.getD off 0 + 256 * bs.getD (off + 1) 0 + 65536 * bs.getD (off + 2) 0 + 16777216 * bs.getD (off + 3) 0

/-- `check_capability`: flags text for one bit -/
def capFlags (perm inh bit : Nat) : Option Str :=
  let p := perm.testBit bit
  let i := inh.testBit bit
  if i && p then some ['i', 'p'] else if p then some ['p'] else if i then some ['i'] else none

/-- the entries produced for one 32-bit word -/
def capWord (word : Nat) (eff : Str) (perm inh : Nat) : List Str :=
  capTable.filterMap fun (name, w, bit) =>
    if w == word then (capFlags perm inh bit).map (fun f => name ++ ['='] ++ eff ++ f) else none

def parseCaps (bs : List Nat) : Str :=
  if bs.length < 12 then [] else
  let eff : Str := if bs.getD 0 0 == 1 then ['e'] else []
  let w0 := capWord 0 eff (le32 bs 4) (le32 bs 8)
  let w1 := if bs.length ≥ 20 then capWord 1 eff (le32 bs 12) (le32 bs 16) else []
  joinWith [' '] (w0 ++ w1)

end Fsel
