/-
  Model of the `f64` values fselect computes with.  Arithmetic is done in ℚ; a value is `exact` when
  it is a dyadic rational with a numerator below 2^53 reached through exact operations — there the
  ℚ result *is* the IEEE result.  Anything else is tagged inexact and is compared with a tolerance by
  the harness (never textually), and never used to decide an equality.
-/
import Fsel.Model.Text

namespace Fsel

inductive Num where
  | fin (q : Rat) (exact : Bool)
  | inf
  | ninf
  | nan
  deriving Repr, BEq

def pow2? (n : Nat) : Bool := n != 0 && (n &&& (n - 1)) == 0

def two53 : Nat := 9007199254740992

/-- representable exactly in an `f64` (ignoring the exponent range, which sizes never reach) -/
def dyadicSmall (q : Rat) : Bool := pow2? q.den && q.num.natAbs < two53 && q.den ≤ two53

def Num.mk (q : Rat) (ex : Bool) : Num := .fin q (ex && dyadicSmall q)

def Num.ofInt (i : Int) : Num := Num.mk i true
def Num.ofNat (n : Nat) : Num := Num.mk n true

def Num.isExact : Num → Bool
  | .fin _ e => e
  | _ => true

def Num.neg : Num → Num
  | .fin q e => .fin (-q) e
  | .inf => .ninf
  | .ninf => .inf
  | .nan => .nan

def Num.add : Num → Num → Num
  | .fin a ea, .fin b eb => Num.mk (a + b) (ea && eb)
  | .nan, _ | _, .nan => .nan
  | .inf, .ninf | .ninf, .inf => .nan
  | .inf, _ | _, .inf => .inf
  | .ninf, _ | _, .ninf => .ninf

def Num.sub (a b : Num) : Num := a.add b.neg

def Num.sign : Num → Int
  | .fin q _ => if q > 0 then 1 else if q < 0 then -1 else 0
  | .inf => 1
  | .ninf => -1
  | .nan => 0

def Num.mul : Num → Num → Num
  | .fin a ea, .fin b eb => Num.mk (a * b) (ea && eb)
  | .nan, _ | _, .nan => .nan
  | a, b =>
    let s := a.sign * b.sign
    if s == 0 then .nan else if s > 0 then .inf else .ninf

def Num.div : Num → Num → Num
  | .fin a ea, .fin b eb =>
    if b == 0 then (if a == 0 then .nan else if a > 0 then .inf else .ninf)   -- sign of zero ignored (+0.0 only)
    else Num.mk (a / b) (ea && eb)
  | .nan, _ | _, .nan => .nan
  | .fin _ _, _ => Num.mk 0 true
  | a, .fin b _ => if b ≥ 0 then a else a.neg
  | _, _ => .nan

def ratTrunc (q : Rat) : Int := q.num.tdiv q.den

/-- Rust `%` on `f64`: remainder of truncated division -/
def Num.mod : Num → Num → Num
  | .fin a ea, .fin b eb =>
    if b == 0 then .nan else Num.mk (a - (ratTrunc (a / b) : Int) * b) (ea && eb)
  | .nan, _ | _, .nan => .nan
  | .fin a e, _ => .fin a e
  | _, _ => .nan

/-- `f64 as i64`: truncation toward zero, saturating, NaN ↦ 0 -/
def Num.toI64 : Num → Int
  | .fin q _ =>
    let t := ratTrunc q
    if t > i64Max then i64Max else if t < i64Min then i64Min else t
  | .inf => i64Max
  | .ninf => i64Min
  | .nan => 0

/-- `f64 as u64`: truncation, saturating at 0 and u64::MAX, NaN ↦ 0 -/
def Num.toU64 : Num → Nat
  | .fin q _ =>
    let t := ratTrunc q
    if t < 0 then 0 else if t.toNat > u64Max then u64Max else t.toNat
  | .inf => u64Max
  | .ninf => 0
  | .nan => 0

def Num.fractNonZero : Num → Bool
  | .fin q _ => q.den != 1
  | .nan => true          -- NaN.fract() = NaN ≠ 0.0
  | _ => true             -- inf.fract() is NaN
-- note: `inf.fract()` in Rust is NaN, and `NaN != 0.0` is true

/-- partial comparison of `f64`s: `none` when a NaN is involved -/
def Num.cmp? : Num → Num → Option Ordering
  | .nan, _ | _, .nan => none
  | .fin a _, .fin b _ => some (if a < b then .lt else if a == b then .eq else .gt)
  | .inf, .inf | .ninf, .ninf => some .eq
  | .inf, _ | _, .ninf => some .gt
  | .ninf, _ | _, .inf => some .lt

/-- decimal expansion of a non-negative rational with a power-of-two…power-of-ten denominator;
    `none` if it does not terminate within `fuel` digits -/
def fracDigits (num den : Nat) : Nat → Option Str
  | 0 => if num == 0 then some [] else none
  | fuel + 1 =>
    if num == 0 then some []
    else
      let n10 := num * 10
      match fracDigits (n10 % den) den fuel with
      | some rest => some (digitChar (n10 / den) :: rest)
      | none => none

/-- Rust `{}` on an `f64` that is exactly the rational `q` with a short decimal expansion. -/
def showRatExact? (q : Rat) : Option Str :=
  let neg := q < 0
  let a : Rat := if neg then -q else q
  let ip := a.num.natAbs / a.den
  let fp := a.num.natAbs % a.den
  let sign : Str := if neg then ['-'] else []
  if fp == 0 then some (sign ++ showNat ip)
  else match fracDigits fp a.den 17 with
    | some ds =>
      let sig := (if ip == 0 then 0 else (showNat ip).length) + ds.length
      if sig ≤ 15 then some (sign ++ showNat ip ++ ['.'] ++ ds) else none
    | none => none

/-- zeros between the decimal point and the first significant digit of `num/den < 1` (at most `fuel`) -/
def leadZeros (num den : Nat) : Nat → Nat
  | 0 => 0
  | fuel + 1 => if num == 0 || num * 10 ≥ den then 0 else 1 + leadZeros (num * 10) den fuel

/-- approximate rendering (at least 17 significant digits, not rounded): only ever compared numerically,
    or re-read as a number when a cached value is reused — so small magnitudes keep their precision -/
def showRatApprox (q : Rat) : Str :=
  let neg := q < 0
  let a : Rat := if neg then -q else q
  let ip := a.num.natAbs / a.den
  let fp := a.num.natAbs % a.den
  let places := 17 + (if ip == 0 then leadZeros fp a.den 400 else 0)
  let scaled := fp * 10 ^ places / a.den
  let fs := showNat scaled
  let pad := List.replicate (places - fs.length) '0'
  (if neg then ['-'] else []) ++ showNat ip ++ ['.'] ++ pad ++ fs

/-- text of `format!("{}", f64)`; second component: is the text exact? -/
def Num.show : Num → Str × Bool
  | .inf => (ofS "inf", true)
  | .ninf => (ofS "-inf", true)
  | .nan => (ofS "NaN", true)
  | .fin q e =>
    if e then
      match showRatExact? q with
      | some s => (s, true)
      | none => (showRatApprox q, false)
    else
      if q.den == 1 && q.num.natAbs < two53 then (showInt q.num, false) else (showRatApprox q, false)

/-- 10^k as a rational, k may be negative -/
def pow10 (k : Int) : Rat :=
  match k with
  | .ofNat n => (10 ^ n : Nat)
  | .negSucc n => 1 / ((10 ^ (n + 1) : Nat) : Rat)

/-- exponent suffix of a decimal literal: `none` = malformed, `some 0` when absent -/
def parseExponent (r : Str) : Option Int :=
  match r with
  | [] => some 0
  | e :: t =>
    if e == 'e' || e == 'E' then
      let sd : Bool × Str := match t with
        | '-' :: u => (true, u)
        | '+' :: u => (false, u)
        | u => (false, u)
      if sd.2.isEmpty || !sd.2.all isDigit then none
      else some (if sd.1 then - (Int.ofNat (digitsVal sd.2)) else Int.ofNat (digitsVal sd.2))
    else none

/-- the optional fraction of a decimal literal: (fraction digits, what follows) -/
def fracPart (r1 : Str) : Str × Str :=
  match r1 with
  | '.' :: t => (t.takeWhile isDigit, t.dropWhile isDigit)
  | t => ([], t)

/-- unsigned decimal literal `digits [. digits] [e±digits]` → (mantissa as an integer, number of fraction
    digits, exponent); `none` if malformed -/
def parseUnsignedDecimal (body : Str) : Option (Nat × Nat × Int) :=
  let ip := body.takeWhile isDigit
  let r1 := body.dropWhile isDigit
  let fr : Str × Str := fracPart r1
  if ip.isEmpty && fr.1.isEmpty then none
  else match parseExponent fr.2 with
    | none => none
    | some e => some (digitsVal (ip ++ fr.1), fr.1.length, e)

/-- value of a parsed decimal, with overflow to ±inf and underflow to 0 as `f64` parsing does -/
def decimalToNum (neg : Bool) (mant fracLen : Nat) (e : Int) : Num :=
  if e > 400 then (if mant == 0 then Num.mk 0 true else if neg then .ninf else .inf)
  else if e < -400 then Num.mk 0 (mant == 0)
  else
    let q : Rat := (mant : Rat) * pow10 (e - fracLen)
    let q := if neg then -q else q
    if q ≥ ((2 ^ 1024 : Nat) : Rat) then .inf
    else if q ≤ -((2 ^ 1024 : Nat) : Rat) then .ninf
    else Num.mk q true

/-- sign of a numeric literal -/
def splitSign (s : Str) : Bool × Str :=
  match s with
  | '-' :: r => (true, r)
  | '+' :: r => (false, r)
  | r => (false, r)

/-- Rust `str::parse::<f64>()`: decimal literals with optional sign, fraction, exponent; `inf`,
    `infinity`, `nan` in any case.  Result exact iff the decimal value is a small dyadic rational. -/
def parseF64? (s : Str) : Option Num :=
  let sb := splitSign s
  let lb := lowerStr sb.2
  if lb == ofS "inf" || lb == ofS "infinity" then some (if sb.1 then .ninf else .inf)
  else if lb == ofS "nan" then some .nan
  else match parseUnsignedDecimal sb.2 with
    | none => none
    | some (mant, fl, e) => some (decimalToNum sb.1 mant fl e)

end Fsel
