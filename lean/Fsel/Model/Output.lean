/-
  Output formatters (output/*.rs) and the header / row / separator / footer protocol.
-/
import Fsel.Model.Ast

namespace Fsel

/-- serde_json string escaping -/
def jsonEscape (s : Str) : Str :=
  ['"'] ++ s.flatMap (fun c =>
    if c == '"' then ['\\', '"']
    else if c == '\\' then ['\\', '\\']
    else if c == '\n' then ['\\', 'n']
    else if c == '\r' then ['\\', 'r']
    else if c == '\t' then ['\\', 't']
    else if c.toNat == 8 then ['\\', 'b']
    else if c.toNat == 12 then ['\\', 'f']
    else if c.toNat < 0x20 then ['\\', 'u', '0', '0', hexDigit (c.toNat / 16), hexDigit (c.toNat % 16)]
    else [c]) ++ ['"']

/-- BTreeMap<String,String> insertion: last value wins, keys in byte (= code point) order -/
def btreeInsert (m : List (Str × Str)) (k v : Str) : List (Str × Str) :=
  match m with
  | [] => [(k, v)]
  | (k', v') :: rest =>
    if k == k' then (k, v) :: rest
    else if strLt k k' then (k, v) :: (k', v') :: rest
    else (k', v') :: btreeInsert rest k v

def jsonRow (items : List (Str × Str)) : Str :=
  let m := items.foldl (fun acc (k, v) => btreeInsert acc k v) []
  ['{'] ++ joinWith [','] (m.map fun (k, v) => jsonEscape k ++ [':'] ++ jsonEscape v) ++ ['}']

/-- csv crate, default writer: a field is quoted when it contains `"`, `,`, CR or LF, or when the
    record consists of one empty field -/
def csvField (single : Bool) (s : Str) : Str :=
  if s.any (fun c => c == '"' || c == ',' || c == '\n' || c == '\r') || (single && s.isEmpty) then
    ['"'] ++ s.flatMap (fun c => if c == '"' then ['"', '"'] else [c]) ++ ['"']
  else s

def csvRow (vals : List Str) : Str :=
  joinWith [','] (vals.map (csvField (vals.length == 1))) ++ ['\n']

def htmlEscape (s : Str) : Str :=
  s.flatMap fun c =>
    if c == '&' then ofS "&amp;" else if c == '<' then ofS "&lt;" else if c == '>' then ofS "&gt;"
    else if c == '"' then ofS "&quot;" else if c == '\'' then ofS "&#39;" else [c]

def flatRow (sep : Char) (term : Char) (vals : List Str) : Str :=
  joinWith [sep] vals ++ [term]

def fmtHeader : OutputFormat → Str
  | .Json => ['[']
  | .Html => ofS "<html><body><table>"
  | _ => []

def fmtFooter : OutputFormat → Str
  | .Json => [']']
  | .Html => ofS "</table></body></html>"
  | _ => []

def fmtSeparator : OutputFormat → Str
  | .Json => [',']
  | _ => []

/-- `ResultsWriter::write_row` for `(column name, value)` pairs -/
def fmtRow (fmt : OutputFormat) (items : List (Str × Str)) : Str :=
  let vals := items.map (·.2)
  match fmt with
  | .Tabs => flatRow '\t' '\n' vals
  | .Lines => flatRow '\n' '\n' vals
  | .List => flatRow (Char.ofNat 0) (Char.ofNat 0) vals
  | .Csv => csvRow vals
  | .Json => jsonRow items
  | .Html => ofS "<tr>" ++ vals.flatMap (fun v => ofS "<td>" ++ htmlEscape v ++ ofS "</td>") ++ ofS "</tr>"

end Fsel
