/-
  `TopN` (util/top_n.rs) and `Criteria` (util/mod.rs:47-157).

  Faithful layer `Ech`: the `BTreeMap<K, Vec<V>>` is an association list kept in strictly increasing
  key order ("echelons"); `insert` pushes to the end of the key's echelon and, past the limit, pops the
  last value of the greatest echelon.  Abstract layer: one list with stable insertion (`ins`) and
  `dropLast`.  `Lemmas/TopN.lean` relates the two and proves the sorting/limit theorems.
-/
import Fsel.Model.Value
import Fsel.Model.Ast

namespace Fsel

section TopN
variable {K V : Type}

/-- echelons in increasing key order.  Each stored value carries (as a ghost) the key it was inserted
    with; the BTreeMap keeps the key of the echelon's first insertion.  The ghost keys never influence
    the behaviour — they only make the abstraction function an equality. -/
abbrev Ech (K V : Type) := List (K × List (K × V))

/-- `echelons.entry(k).or_default().push(v)` under the order `le` (a total preorder; `le a b ∧ le b a`
    is what `Ord::cmp` reports as `Equal`) -/
def Ech.push (le : K → K → Bool) (k : K) (v : V) : Ech K V → Ech K V
  | [] => [(k, [(k, v)])]
  | (k', vs) :: rest =>
    if le k k' && le k' k then (k', vs ++ [(k, v)]) :: rest
    else if le k k' then (k, [(k, v)]) :: (k', vs) :: rest
    else (k', vs) :: Ech.push le k v rest

/-- pop the last value of the greatest echelon, dropping the echelon when it becomes empty -/
def Ech.popLast : Ech K V → Ech K V
  | [] => []
  | [(k, vs)] => if vs.length ≤ 1 then [] else [(k, vs.dropLast)]
  | e :: rest => e :: Ech.popLast rest

def Ech.flatten (e : Ech K V) : List (K × V) := e.flatMap (·.2)

structure TopNState (K V : Type) where
  limit : Option Nat
  count : Nat
  ech : Ech K V

def TopNState.new (limit : Nat) : TopNState K V :=
  { limit := if limit == 0 then none else some limit, count := 0, ech := [] }

/-- `TopN::insert` -/
def TopNState.insert (le : K → K → Bool) (t : TopNState K V) (k : K) (v : V) : TopNState K V :=
  let e := Ech.push le k v t.ech
  let c := t.count + 1
  match t.limit with
  | some l => if l < c then { t with count := c - 1, ech := e.popLast } else { t with count := c, ech := e }
  | none => { t with count := c, ech := e }

/-- `TopN::values` -/
def TopNState.values (t : TopNState K V) : List V := t.ech.flatten.map (·.2)

/-- abstract layer: stable insertion — after every element that is ≤ the new one -/
def ins (le : K → K → Bool) (x : K × V) : List (K × V) → List (K × V)
  | [] => [x]
  | y :: ys => if le y.1 x.1 then y :: ins le x ys else x :: y :: ys

/-- abstract bounded insertion -/
def insN (le : K → K → Bool) (n : Nat) (l : List (K × V)) (x : K × V) : List (K × V) :=
  let l' := ins le x l
  if n < l'.length then l'.dropLast else l'

end TopN

/-- sort key of a buffered row: the values of the ORDER BY expressions as text -/
structure Criteria where
  values : List Str
  deriving Repr, BEq

inductive KeyKind where
  | numeric | datetime | text
  deriving DecidableEq, Repr

def keyKind (e : Expr) : KeyKind :=
  if e.containsNumeric then .numeric else if e.containsDatetime then .datetime else .text

def ordOfBool (lt eq : Bool) : Ordering := if lt then .lt else if eq then .eq else .gt

def ordRev : Ordering → Ordering
  | .lt => .gt | .gt => .lt | .eq => .eq

/-- numeric sort rank (`cmp_at_numbers` after the D12 fix): sizes and parsable reals on one scale,
    `-inf` below and `+inf`, `NaN` above everything finite (`f64::total_cmp`), unparsable text = 0.
    Two sizes are compared as integers, which is the same order. -/
def numRank (s : Str) : Int × Rat :=
  match parseFilesize s with
  | some x => (0, (x : Rat))
  | none =>
    match parseF64? s with
    | some (.fin q _) => (0, q)
    | some .ninf => (-1, 0)
    | some .inf => (1, 0)
    | some .nan => (2, 0)
    | none => (0, 0)

def rankLe (a b : Int × Rat) : Bool := decide (a.1 < b.1) || (decide (a.1 = b.1) && decide (a.2 ≤ b.2))

/-- `cmp_at_datetimes`: unparsable text counts as 1970-01-01 00:00:00 -/
def dtRank (today : Int) (s : Str) : Int := match parseDatetime today s with | .ok x _ => x | _ => 0

def cmpText (a b : Str) : Ordering := ordOfBool (strLt a b) (a == b)

/-- `≤` of one sort key according to its kind -/
def keyLe (today : Int) (k : KeyKind) (a b : Str) : Bool :=
  match k with
  | .numeric => rankLe (numRank a) (numRank b)
  | .datetime => decide (dtRank today a ≤ dtRank today b)
  | .text => strLe a b

/-- `Criteria::cmp ≠ Greater`: lexicographic over the keys with per-key kind and direction; a shorter
    key list that is a prefix sorts first (`values.len().cmp`) -/
def criteriaLeL (today : Int) : List KeyKind → List Bool → List Str → List Str → Bool
  | ks, ds, a :: as, b :: bs =>
    let k := ks.headD .text
    let d := ds.headD true
    let x := if d then a else b
    let y := if d then b else a
    if keyLe today k x y then
      if keyLe today k y x then criteriaLeL today ks.tail ds.tail as bs else true
    else false
  | _, _, [], _ => true
  | _, _, _ :: _, [] => false

def criteriaLe (today : Int) (kinds : List KeyKind) (asc : List Bool) (a b : Criteria) : Bool :=
  criteriaLeL today kinds asc a.values b.values

end Fsel
