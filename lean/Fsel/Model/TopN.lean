/-
  `TopN` (util/top_n.rs) and `Criteria` (util/mod.rs:47-157).

  Faithful layer `Ech`: the `BTreeMap<K, Vec<V>>` is an association list kept in strictly increasing
  key order ("echelons"); `insert` pushes to the end of the key's echelon and, past the limit, pops the
  last value of the greatest echelon.  Abstract layer: one list with stable insertion (`ins`) and
  `dropLast`.  `Lemmas/TopN.lean` relates the two and proves the sorting/limit theorems.
-/
import Fsel.Model.Value
import Fsel.Model.Ast

namespace Fsel

section TopN
variable {K V : Type}

/-- echelons in increasing key order -/
abbrev Ech (K V : Type) := List (K × List V)

/-- `echelons.entry(k).or_default().push(v)` under the order `le` (total preorder; `le a b ∧ le b a`
    means "equal keys" for the BTreeMap) -/
def Ech.push (le : K → K → Bool) (k : K) (v : V) : Ech K V → Ech K V
  | [] => [(k, [v])]
  | (k', vs) :: rest =>
    if le k k' && le k' k then (k', vs ++ [v]) :: rest
    else if le k k' then (k, [v]) :: (k', vs) :: rest
    else (k', vs) :: Ech.push le k v rest

/-- pop the last value of the greatest echelon, dropping the echelon when it becomes empty -/
def Ech.popLast : Ech K V → Ech K V
  | [] => []
  | [(k, vs)] => if vs.length ≤ 1 then [] else [(k, vs.dropLast)]
  | e :: rest => e :: Ech.popLast rest

structure TopNState (K V : Type) where
  limit : Option Nat
  count : Nat
  ech : Ech K V

def TopNState.new (limit : Nat) : TopNState K V :=
  { limit := if limit == 0 then none else some limit, count := 0, ech := [] }

/-- `TopN::insert` -/
def TopNState.insert (le : K → K → Bool) (t : TopNState K V) (k : K) (v : V) : TopNState K V :=
  let e := Ech.push le k v t.ech
  let c := t.count + 1
  match t.limit with
  | some l => if l < c then { t with count := c - 1, ech := e.popLast } else { t with count := c, ech := e }
  | none => { t with count := c, ech := e }

/-- `TopN::values` -/
def TopNState.values (t : TopNState K V) : List V := t.ech.flatMap (·.2)

/-- abstract layer: stable insertion — after every element that is ≤ the new one -/
def ins (le : K → K → Bool) (x : K × V) : List (K × V) → List (K × V)
  | [] => [x]
  | y :: ys => if le y.1 x.1 then y :: ins le x ys else x :: y :: ys

/-- abstract bounded insertion -/
def insN (le : K → K → Bool) (n : Nat) (l : List (K × V)) (x : K × V) : List (K × V) :=
  let l' := ins le x l
  if n < l'.length then l'.dropLast else l'

end TopN

/-- sort key of a buffered row: the values of the ORDER BY expressions as text -/
structure Criteria where
  values : List Str
  deriving Repr, BEq

inductive KeyKind where
  | numeric | datetime | text
  deriving DecidableEq, Repr

def keyKind (e : Expr) : KeyKind :=
  if e.containsNumeric then .numeric else if e.containsDatetime then .datetime else .text

def ordOfBool (lt eq : Bool) : Ordering := if lt then .lt else if eq then .eq else .gt

/-- `cmp_at_numbers` (after the D12 fix): both sizes → integer order; otherwise real-number order
    (`f64::total_cmp`), unparsable text counts as 0 -/
def cmpNumbers (a b : Str) : Ordering :=
  match parseFilesize a, parseFilesize b with
  | some x, some y => ordOfBool (x < y) (x == y)
  | sa, sb =>
    let fa : Num := match sa with | some x => Num.mk x true | none => (parseF64? a).getD (Num.mk 0 true)
    let fb : Num := match sb with | some x => Num.mk x true | none => (parseF64? b).getD (Num.mk 0 true)
    -- total_cmp: -NaN < -inf < finite < +inf < +NaN (only +NaN can be parsed)
    let rank (n : Num) : Int × Rat := match n with
      | .ninf => (-1, 0) | .fin q _ => (0, q) | .inf => (1, 0) | .nan => (2, 0)
    let (ra, qa) := rank fa
    let (rb, qb) := rank fb
    if ra < rb then .lt else if ra > rb then .gt else ordOfBool (qa < qb) (qa == qb)

/-- `cmp_at_datetimes`: unparsable text counts as 1970-01-01 00:00:00 -/
def cmpDatetimes (today : Int) (a b : Str) : Ordering :=
  let f (s : Str) : Int := match parseDatetime today s with | .ok x _ => x | _ => 0
  ordOfBool (f a < f b) (f a == f b)

def cmpText (a b : Str) : Ordering := ordOfBool (strLt a b) (a == b)

def ordRev : Ordering → Ordering
  | .lt => .gt | .gt => .lt | .eq => .eq

/-- `Criteria::cmp`: lexicographic over the keys with per-key kind and direction -/
def criteriaCmp (today : Int) (kinds : List KeyKind) (asc : List Bool) : List Str → List Str → Ordering
  | a :: as, b :: bs =>
    let k := kinds.headD .text
    let d := asc.headD true
    let o := match k with
      | .numeric => cmpNumbers a b
      | .datetime => cmpDatetimes today a b
      | .text => cmpText a b
    let o := if d then o else ordRev o
    if o != .eq then o else criteriaCmp today kinds.tail asc.tail as bs
  | [], [] => .eq
  | [], _ :: _ => .lt
  | _ :: _, [] => .gt

def criteriaLe (today : Int) (kinds : List KeyKind) (asc : List Bool) (a b : Criteria) : Bool :=
  criteriaCmp today kinds asc a.values b.values != .gt

end Fsel
