/-
  Aggregates (`get_aggregate_value`, function.rs) over the buffered rows, and GROUP BY partitioning
  (`partition_output_buffer`, searcher.rs).  Mean and variance are computed in ℚ; the result text is
  exact when the ℚ value is a small dyadic rational (then the f64 computation gives the same value).
-/
import Fsel.Model.Eval

namespace Fsel

/-- values of column `key` over the rows that have it -/
def colValues (rows : List Memo) (key : Str) : List Str := rows.filterMap (fun r => r.get? key)

def bufferSum (rows : List Memo) (key : Str) : Nat :=
  ((colValues rows key).filterMap parseUsize?).sum

def listMin : List Int → Option Int
  | [] => none
  | x :: xs => some (xs.foldl (fun a b => if b < a then b else a) x)

def listMax : List Int → Option Int
  | [] => none
  | x :: xs => some (xs.foldl (fun a b => if b > a then b else a) x)

/-- mean as the code computes it after the D14 fix: (usize sum) / (row count) as real numbers -/
def meanQ (rows : List Memo) (key : Str) : Rat := (bufferSum rows key : Rat) / (rows.length : Rat)

/-- Σ (mean − x)² / n over the values that parse as f64 -/
def varianceQ (rows : List Memo) (key : Str) (n : Nat) : Rat × Bool :=
  let avg := meanQ rows key
  let vals := (colValues rows key).filterMap parseF64?
  vals.foldl (fun (acc : Rat × Bool) v =>
    match v with
    | .fin q ex => (acc.1 + (avg - q) * (avg - q) / (n : Rat), acc.2 && ex)
    | _ => (acc.1, false)) (0, true)

def showNumQ (q : Rat) (ex : Bool) : Str × Bool := (Num.mk q ex).show

/-- `get_aggregate_value`; the Bool tells whether the text is certainly what the f64 code prints -/
def aggregate (f : Function) (rows : List Memo) (key : Str) : Str × Bool :=
  match f with
  | .Min => (showInt ((listMin ((colValues rows key).filterMap parseI64?)).getD 0), true)
  | .Max => (showInt ((listMax ((colValues rows key).filterMap parseI64?)).getD 0), true)
  | .Sum => (showNat (bufferSum rows key), true)
  | .Count => (showNat rows.length, true)
  | .Avg => if rows.isEmpty then (['0'], true) else showNumQ (meanQ rows key) (bufferSum rows key < two53)
  | .VarPop =>
    if rows.isEmpty then ([], true) else
    let (v, ex) := varianceQ rows key rows.length
    let r := showNumQ v ex
    -- every term is divided by n in f64: exact only when n is a power of two
    (r.1, r.2 && dyadicSmall (meanQ rows key) && pow2? rows.length)
  | .VarSamp =>
    if rows.isEmpty then ([], true) else
    let n := if rows.length == 1 then 1 else rows.length - 1
    let (v, ex) := varianceQ rows key n
    let r := showNumQ v ex
    (r.1, r.2 && dyadicSmall (meanQ rows key) && pow2? n)
  | .StdDevPop | .StdDevSamp =>
    if rows.isEmpty then ([], true) else
    let n := if f == .StdDevPop then rows.length else (if rows.length == 1 then 1 else rows.length - 1)
    let (v, ex) := varianceQ rows key n
    -- exact only for perfect squares of small integers
    if ex && dyadicSmall (meanQ rows key) && pow2? n && v.den == 1 && v.num ≥ 0 then
      match natSqrt? v.num.toNat with
      | some r => (showNat r, true)
      | none => (['?'], false)
    else (['?'], false)
  | _ => ([], true)

/-- grouping key of a buffered row: the values of the grouping columns (missing ⇒ empty text) -/
def keyOf (keys : List Str) (r : Memo) : List Str := keys.map fun f => (r.get? f).getD []

/-- add one row to the partition (groups in first-occurrence order) -/
def addRow (keys : List Str) (acc : List (List Str × List Memo)) (r : Memo) : List (List Str × List Memo) :=
  if acc.any (·.1 == keyOf keys r) then
    acc.map (fun g => if g.1 == keyOf keys r then (g.1, g.2 ++ [r]) else g)
  else acc ++ [(keyOf keys r, [r])]

/-- GROUP BY (`partition_output_buffer`).  The Rust uses a HashMap: the order of groups is unspecified
    (compared as a multiset by the harness); the model keeps first-occurrence order. -/
def partitionRows (keys : List Str) (rows : List Memo) : List (List Str × List Memo) :=
  rows.foldl (addRow keys) []

end Fsel
