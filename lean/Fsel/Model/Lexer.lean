/-
  Lexer model: mirrors src/lexer.rs `Lexer::next_lexem`, `looks_like_expression`, `looks_like_date`.
  Input is the list of shell words.  Crossing a word boundary injects one synthetic space and clears
  `possible_search_root` (exactly as the Rust: `char_index = -1`).
  Termination: every loop step strictly decreases `LexSt.measure` — the definition is accepted by
  well-founded recursion, which *is* the proof that `next_lexem` cannot loop.
-/
import Fsel.Model.Ast

namespace Fsel

inductive LMode where
  | undefined | raw | comma | op | arith | sq | dq | bq | open_ | close
  deriving DecidableEq, Repr

structure LexSt where
  parts : List Str            -- head = rest of the current word
  synth : Bool                -- `char_index == -1`: a synthetic space is pending
  multi : Bool                -- `input.len() > 1`
  beforeFrom : Bool := true
  psr : Bool := false         -- possible_search_root
  afterOpen : Bool := false
  afterWhere : Bool := false
  afterBy : Bool := false
  afterOperator : Bool := false
  deriving Repr

def LexSt.init (parts : List Str) : LexSt :=
  { parts := parts, synth := false, multi := parts.length > 1 }

def LexSt.measure (st : LexSt) : Nat :=
  (st.parts.map (fun p => p.length + 2)).sum + (if st.synth then 1 else 0)

def LexSt.isOpChar (st : LexSt) (c : Char) : Bool :=
  if !st.beforeFrom && !st.afterWhere && !st.afterBy then false else opChars.contains c

def LexSt.isArithChar (st : LexSt) (c : Char) : Bool :=
  if arithCharsAlways.contains c then st.beforeFrom || st.afterWhere || st.afterBy
  else if arithCharsGuarded.contains c then
    (st.beforeFrom || st.afterWhere || st.afterBy) && !st.afterOpen && !st.afterOperator
  else false

def isParenChar (c : Char) : Bool := c == '(' || c == ')' || c == '{' || c == '}'

/-- a character of a name: ASCII letter, digit or `_` (D82 fix: `mp3_bitrate` is one name) -/
def isNameChar (c : Char) : Bool := isAsciiAlnum c || c == '_'

/-- `looks_like_expression`: every maximal run of name characters (including empty ones) is a field
    name, a function name or an `i64`. -/
def looksLikeExpression (s : Str) : Bool :=
  (splitBy (fun c => !isNameChar c) s).all fun p =>
    (Field.ofStr? p).isSome || (Function.ofStr? p).isSome || (parseI64? p).isSome

/-- DATE_ALIKE_REGEX `(\d{4})-?(\d{2})?`, leftmost match; returns (year digits, optional month digits).
    `\d` is taken as ASCII digit (generators emit no other Unicode digits; see trusted base). -/
def dateAlike : Str → Option (Str × Option Str)
  | [] => none
  | c :: r =>
    match c :: r with
    | a :: b :: c' :: d :: rest =>
      if isDigit a && isDigit b && isDigit c' && isDigit d then
        let rest' := match rest with
          | '-' :: t => t
          | t => t
        -- `-?` is greedy but backtracks: if two digits do not follow the dash the dash is still taken
        -- and group 2 is absent; without a dash the digits directly after the year are tried.
        match rest' with
        | m1 :: m2 :: _ => if isDigit m1 && isDigit m2 then some ([a, b, c', d], some [m1, m2])
                           else some ([a, b, c', d], none)
        | _ => some ([a, b, c', d], none)
      else dateAlike r
    | _ => none

def looksLikeDate (s : Str) : Bool :=
  match dateAlike s with
  | none => false
  | some (y, m) =>
    let year := digitsVal y
    if 1970 ≤ year && year < 3000 then
      match m with
      | some mm => let v := digitsVal mm; 1 ≤ v && v ≤ 12
      | none => true
    else false

/-- Current character: `none` at end of input, else (char, state after consuming it, state in which
    it is examined).  Crossing a word boundary yields a synthetic space examined with `psr` cleared. -/
def peek (st : LexSt) : Option (Char × LexSt × LexSt) :=
  match st.parts with
  | [] => none
  | p :: ps =>
    if st.synth then some (' ', { st with synth := false }, st)
    else match p with
      | c :: r => some (c, { st with parts := r :: ps }, st)
      | [] =>
        match ps with
        | [] => none
        | _ :: _ =>
          let st0 := { st with parts := ps, synth := true, psr := false }
          some (' ', { st0 with synth := false }, st0)

theorem peek_measure {st : LexSt} {c : Char} {st' st0 : LexSt}
    (h : peek st = some (c, st', st0)) : st'.measure < st.measure := by
  unfold peek at h
  split at h
  · simp at h
  · rename_i p ps hp
    split at h
    · rename_i hs
      simp at h; obtain ⟨_, h2, _⟩ := h; subst h2
      simp [LexSt.measure, hs]
    · rename_i hs
      split at h
      · rename_i c' r
        simp at h; obtain ⟨_, h2, _⟩ := h; subst h2
        simp [LexSt.measure, hp, hs]
      · split at h
        · simp at h
        · simp at h; obtain ⟨_, h2, _⟩ := h; subst h2
          simp [LexSt.measure, hp, hs]

/-- Character scanning loop of `next_lexem`.  Returns final mode, token text and state. -/
def scan (mode : LMode) (acc : Str) (st : LexSt) : LMode × Str × LexSt :=
  match h : peek st with
  | none => (mode, acc, st)
  | some (c, st', st0) =>
    have _hm : st'.measure < st.measure := peek_measure h
    match mode with
    | .comma | .open_ | .close => (mode, acc, st0)
    | .sq => if c == '\'' then (mode, acc, st') else scan mode (acc ++ [c]) st'
    | .dq => if c == '"' then (mode, acc, st') else scan mode (acc ++ [c]) st'
    | .bq => if c == '`' then (mode, acc, st') else scan mode (acc ++ [c]) st'
    | .op => if !st0.isOpChar c then (mode, acc, st0) else scan mode (acc ++ [c]) st'
    | .arith => (mode, acc, st0)
    | .raw =>
      let isDate := c == '-' && looksLikeDate acc
      if !isDate && st0.isArithChar c && looksLikeExpression acc then (mode, acc, st0)
      else if !isDate && !st0.isArithChar c && (!st0.multi || !st0.psr)
              && (c == ' ' || c == ',' || isParenChar c || st0.isOpChar c) then (mode, acc, st0)
      else scan mode (acc ++ [c]) st'
    | .undefined =>
      let r : LMode × Str :=
        if c == ' ' then (.undefined, acc)
        else if c == '\'' then (.sq, acc)
        else if c == '"' then (.dq, acc)
        else if c == '`' then (.bq, acc)
        else if c == ',' then (.comma, acc)
        else if c == '(' || c == '{' then (.open_, acc ++ [c])
        else if c == ')' || c == '}' then (.close, acc ++ [c])
        else if st0.isOpChar c then (.op, acc ++ [c])
        else if st0.isArithChar c then (.arith, acc ++ [c])
        else (.raw, acc ++ [c])
      have _hm2 : ({ st' with afterOpen := r.1 == .open_ } : LexSt).measure < st.measure := by
        simpa [LexSt.measure] using _hm
      scan r.1 r.2 { st' with afterOpen := r.1 == .open_ }
termination_by st.measure

/-- Result of classifying a finished raw token against the generated keyword table. -/
def keywordOf (s : Str) : Option KwKind := lookup (lowerStr s) lexerKeywords


/-- `next_lexem`: one token.  The guard `st2.measure < st.measure` on the `asc` recursion is always
    true (see `Lemmas/Lexer.lean`); it only makes the definition structurally total. -/
def nextLexem (st : LexSt) : Option Lexem × LexSt :=
  let r := scan .undefined [] st
  let mode := r.1
  let s := r.2.1
  let st1 := r.2.2
  let fin (l : Lexem) (st2 : LexSt) : Option Lexem × LexSt :=
    let isFrom := l == .from_
    let isComma := l == .comma
    let isOp := match l with | .op _ => true | _ => false
    (some l, { st2 with psr := isFrom || (isComma && !st2.beforeFrom && !st2.afterWhere && !st2.afterBy),   -- D81 fix: no root after a comma of ORDER BY / GROUP BY
                        afterOperator := isOp })
  match mode with
  | .sq | .dq | .bq => fin (.str s) st1
  | .op => fin (.op s) st1
  | .arith => fin (.arith s) st1
  | .comma => fin .comma st1
  | .open_ => if s == ['('] then fin .open_ st1 else if s == ['{'] then fin .copen st1
              else (none, { st1 with psr := false, afterOperator := false })
  | .close => if s == [')'] then fin .close st1 else if s == ['}'] then fin .cclose st1
              else (none, { st1 with psr := false, afterOperator := false })
  | .undefined => (none, { st1 with psr := false, afterOperator := false })
  | .raw =>
    match keywordOf s with
    | some .kwFrom => fin .from_ { st1 with beforeFrom := false, afterWhere := false, afterBy := false }
    | some .kwWhere => fin .where_ { st1 with afterWhere := true }
    | some .kwOr => fin .or_ st1
    | some .kwAnd => fin .and_ st1
    | some .kwNot_afterWhere => if st1.afterWhere then fin .not_ st1 else fin (.raw s) st1
    | some .kwOrder => fin .order st1
    | some .kwBy => fin .by_ { st1 with afterBy := true }
    | some .kwskip => if st1.measure < st.measure then nextLexem st1
                      else (none, st1)
    | some .kwDescendingOrder => fin .desc st1
    | some .kwLimit => fin .limit st1
    | some .kwInto => fin .into st1
    | some .kwOperator => fin (.op s) st1
    | some .kwArithmeticOperator => fin (.arith s) st1
    | none => fin (.raw s) st1
termination_by st.measure

/-- `while let Some(lexem) = lexer.next_lexem()`: all tokens (before the parser drops empty strings). -/
def lexLoop (st : LexSt) : List Lexem :=
  match h : nextLexem st with
  | (none, _) => []
  | (some l, st') => if st'.measure < st.measure then l :: lexLoop st' else [l]
termination_by st.measure

def lexAll (parts : List Str) : List Lexem := lexLoop (LexSt.init parts)

end Fsel
