/-
  Text helpers of the fselect model.  Text is `List Char` wherever a theorem looks at it.
  Import-free (core only) so that the driver links as a `lean_exe`.
-/
namespace Fsel

abbrev Str := List Char

def ofS (x : String) : Str := x.toList

/-- ASCII lower-casing (`to_ascii_lowercase`). -/
def lowerAscii (c : Char) : Char :=
  if 'A' ≤ c ∧ c ≤ 'Z' then Char.ofNat (c.toNat + 32) else c

def upperAscii (c : Char) : Char :=
  if 'a' ≤ c ∧ c ≤ 'z' then Char.ofNat (c.toNat - 32) else c

def lowerStr (s : Str) : Str := s.map lowerAscii
def upperStr (s : Str) : Str := s.map upperAscii

def isDigit (c : Char) : Bool := '0' ≤ c && c ≤ '9'
def isAsciiAlpha (c : Char) : Bool := ('a' ≤ c && c ≤ 'z') || ('A' ≤ c && c ≤ 'Z')
def isAsciiAlnum (c : Char) : Bool := isDigit c || isAsciiAlpha c

def digitVal (c : Char) : Nat := c.toNat - 48
def digitChar (d : Nat) : Char := Char.ofNat (48 + d)

/-- Decimal rendering of a natural number (Rust `{}` on unsigned integers). -/
def showNat (n : Nat) : Str :=
  if _h : n < 10 then [digitChar n] else showNat (n / 10) ++ [digitChar (n % 10)]
decreasing_by omega

def showInt (i : Int) : Str :=
  match i with
  | .ofNat n => showNat n
  | .negSucc n => '-' :: showNat (n + 1)

/-- Value of a digit string, most significant first (no validation). -/
def digitsVal (s : Str) : Nat := s.foldl (fun acc c => acc * 10 + digitVal c) 0

/-- `str::parse::<uN>()` without the range check: optional leading `+`, at least one digit, digits only. -/
def parseNat? (s : Str) : Option Nat :=
  let body := match s with
    | '+' :: r => r
    | _ => s
  if body.isEmpty then none
  else if body.all isDigit then some (digitsVal body) else none

/-- `str::parse::<iN>()` without the range check. -/
def parseInt? (s : Str) : Option Int :=
  match s with
  | '-' :: r => if r.isEmpty then none else if r.all isDigit then some (- (Int.ofNat (digitsVal r))) else none
  | _ => (parseNat? s).map Int.ofNat

def u32Max : Nat := 4294967295
def u64Max : Nat := 18446744073709551615
def i64Max : Int := 9223372036854775807
def i64Min : Int := -9223372036854775808
def i32Max : Int := 2147483647
def i32Min : Int := -2147483648

def parseU32? (s : Str) : Option Nat := (parseNat? s).bind fun n => if n ≤ u32Max then some n else none
def parseU64? (s : Str) : Option Nat := (parseNat? s).bind fun n => if n ≤ u64Max then some n else none
def parseUsize? (s : Str) : Option Nat := parseU64? s
def parseI64? (s : Str) : Option Int := (parseInt? s).bind fun n => if i64Min ≤ n ∧ n ≤ i64Max then some n else none
def parseI32? (s : Str) : Option Int := (parseInt? s).bind fun n => if i32Min ≤ n ∧ n ≤ i32Max then some n else none

def startsWith (s p : Str) : Bool := p.isPrefixOf s
def endsWith (s p : Str) : Bool := p.isSuffixOf s

/-- First index at which `p` occurs in `s`, scanning left to right. -/
def findSub (s p : Str) : Option Nat :=
  go s 0
where
  go : Str → Nat → Option Nat
    | [], i => if p.isEmpty then some i else none
    | c :: r, i => if p.isPrefixOf (c :: r) then some i else go r (i + 1)

def containsSub (s p : Str) : Bool := (findSub s p).isSome

/-- Rust `str::replace` for a non-empty needle (non-overlapping, left to right). -/
def replaceAll (s pat rep : Str) : Str :=
  if pat.isEmpty then s else go s s.length
where
  go : Str → Nat → Str
    | [], _ => []
    | _, 0 => []
    | c :: r, fuel + 1 =>
      if pat.isPrefixOf (c :: r) then rep ++ go ((c :: r).drop pat.length) fuel
      else c :: go r fuel

/-- Rust `str::replace` with an empty needle: `rep` between all chars and at both ends. -/
def replaceEmpty (s rep : Str) : Str :=
  rep ++ s.flatMap (fun c => c :: rep)

def strReplace (s pat rep : Str) : Str :=
  if pat.isEmpty then replaceEmpty s rep else replaceAll s pat rep

/-- Split on a single separator character (Rust `split(c)`): always at least one piece. -/
def splitChar (sep : Char) (s : Str) : List Str :=
  go s []
where
  go : Str → Str → List Str
    | [], acc => [acc.reverse]
    | c :: r, acc => if c == sep then acc.reverse :: go r [] else go r (c :: acc)

/-- Split by a predicate, keeping empty pieces (Rust `split(|c| p c)`). -/
def splitBy (p : Char → Bool) (s : Str) : List Str :=
  go s []
where
  go : Str → Str → List Str
    | [], acc => [acc.reverse]
    | c :: r, acc => if p c then acc.reverse :: go r [] else go r (c :: acc)

def joinWith (sep : Str) : List Str → Str
  | [] => []
  | [x] => x
  | x :: xs => x ++ sep ++ joinWith sep xs

def count (c : Char) (s : Str) : Nat := (s.filter (· == c)).length

/-- Lexicographic comparison by code point = Rust `String::cmp` on valid UTF-8. -/
def strLe : Str → Str → Bool
  | [], _ => true
  | _ :: _, [] => false
  | a :: as, b :: bs => if a.toNat < b.toNat then true else if b.toNat < a.toNat then false else strLe as bs

def strLt (a b : Str) : Bool := strLe a b && a != b

def lookup {β : Type} (k : Str) : List (Str × β) → Option β
  | [] => none
  | (a, b) :: r => if a == k then some b else lookup k r

/-- Rust `char::is_whitespace` (White_Space property). -/
def isWhitespace (c : Char) : Bool :=
  let n := c.toNat
  (9 ≤ n && n ≤ 13) || n == 32 || n == 0x85 || n == 0xA0 || n == 0x1680 ||
  (0x2000 ≤ n && n ≤ 0x200A) || n == 0x2028 || n == 0x2029 || n == 0x202F || n == 0x205F || n == 0x3000

def trimStart (s : Str) : Str := s.dropWhile isWhitespace
def trimEnd (s : Str) : Str := (s.reverse.dropWhile isWhitespace).reverse
def trim (s : Str) : Str := trimEnd (trimStart s)

def hexDigit (n : Nat) : Char := if n < 10 then Char.ofNat (48 + n) else Char.ofNat (87 + n)

end Fsel
