/-
  AST of the query language: mirrors src/expr.rs, src/query.rs, src/lexer.rs (Lexem).
  `Expr` has exactly the shapes the Rust constructors (`Expr::op`, `logical_op`, `arithmetic_op`,
  `field`, `function`, `function_left`, `value`) can produce.
-/
import Fsel.Model.Text
import Fsel.Gen.Tables

namespace Fsel

inductive Lexem where
  | raw (s : Str)
  | comma
  | from_
  | where_
  | op (s : Str)
  | str (s : Str)
  | open_
  | close
  | copen
  | cclose
  | arith (s : Str)
  | and_
  | or_
  | not_
  | order
  | by_
  | desc
  | limit
  | into
  deriving DecidableEq, Repr, BEq

inductive Expr where
  | field (minus : Bool) (f : Field)
  | val (minus : Bool) (v : Str)
  /-- function call; `left = none` only when no first argument could be parsed (then `args = []`). -/
  | func0 (minus : Bool) (f : Function)
  | func (minus : Bool) (f : Function) (left : Expr) (args : List Expr)
  | arith (l : Expr) (op : ArithOp) (r : Expr)
  | cmp (l : Expr) (op : Op) (r : Expr)
  | logic (l : Expr) (op : LogicalOp) (r : Expr)
  deriving Repr, BEq

instance : Inhabited Expr := ⟨.val false []⟩

def Field.ofStr? (s : Str) : Option Field := lookup (lowerStr s) fieldTable
def Function.ofStr? (s : Str) : Option Function := lookup (lowerStr s) functionTable

def Field.isNumeric (f : Field) : Bool := field_is_numeric_field.contains f
def Field.isDatetime (f : Field) : Bool := field_is_datetime_field.contains f
def Field.isBoolean (f : Field) : Bool := field_is_boolean_field.contains f
def Field.availableInArchive (f : Field) : Bool := field_is_available_for_archived_files.contains f
def Function.isAggregate (f : Function) : Bool := function_is_aggregate.contains f
def Function.isNumeric (f : Function) : Bool := f.isAggregate || function_is_numeric_extra.contains f
def Function.isBoolean (f : Function) : Bool := function_is_boolean.contains f

def ArithOp.symbol : ArithOp → Str
  | .Add => ['+'] | .Subtract => ['-'] | .Multiply => ['*'] | .Divide => ['/'] | .Modulo => ['%']

def LogicalOp.upper : LogicalOp → Str
  | .And => ofS "AND" | .Or => ofS "OR"

def Op.debugName (o : Op) : Str := (reprStr o).toList.reverse.takeWhile (· != '.') |>.reverse

mutual
/-- `impl Display for Expr` (after the D40 fix): memo key, JSON key, group key, order key.
    Operators, brackets and every function argument are shown. -/
def Expr.display : Expr → Str
  | .field m f => (if m then ['-'] else []) ++ f.display
  | .val m v => (if m then ['-'] else []) ++ v
  | .func0 m f => (if m then ['-'] else []) ++ f.display ++ ['(', ')']
  | .func m f l args => (if m then ['-'] else []) ++ f.display ++ ['('] ++ l.display ++ Expr.displayArgs args ++ [')']
  | .arith l op r => ['('] ++ l.display ++ [' '] ++ op.symbol ++ [' '] ++ r.display ++ [')']
  | .cmp l op r => ['('] ++ l.display ++ [' '] ++ op.debugName ++ [' '] ++ r.display ++ [')']
  | .logic l op r => ['('] ++ l.display ++ [' '] ++ op.upper ++ [' '] ++ r.display ++ [')']
def Expr.displayArgs : List Expr → Str
  | [] => []
  | a :: as => [',', ' '] ++ a.display ++ Expr.displayArgs as
end

mutual
def Expr.hasAggregate : Expr → Bool
  | .field _ _ => false
  | .val _ _ => false
  | .func0 _ f => f.isAggregate
  | .func _ f l args => l.hasAggregate || f.isAggregate || Expr.anyAggregate args
  | .arith l _ r => l.hasAggregate || r.hasAggregate
  | .cmp l _ r => l.hasAggregate || r.hasAggregate
  | .logic l _ r => l.hasAggregate || r.hasAggregate
def Expr.anyAggregate : List Expr → Bool
  | [] => false
  | e :: es => e.hasAggregate || Expr.anyAggregate es
end

mutual
/-- `get_required_fields` as a list (the Rust HashSet's order is never observed). -/
def Expr.requiredFields : Expr → List Field
  | .field _ f => [f]
  | .val _ _ => []
  | .func0 _ _ => []
  | .func _ _ l args => l.requiredFields ++ Expr.requiredFieldsList args
  | .arith l _ r => l.requiredFields ++ r.requiredFields
  | .cmp l _ r => l.requiredFields ++ r.requiredFields
  | .logic l _ r => l.requiredFields ++ r.requiredFields
def Expr.requiredFieldsList : List Expr → List Field
  | [] => []
  | e :: es => e.requiredFields ++ Expr.requiredFieldsList es
end

/-- `contains_numeric`: follows `left` only. -/
def Expr.containsNumeric : Expr → Bool
  | .field _ f => f.isNumeric
  | .val _ _ => false
  | .func0 _ f => f.isNumeric
  | .func _ f l _ => f.isNumeric || l.containsNumeric
  | .arith _ _ _ => true      -- the result of an arithmetic operation is a number (D76 fix)
  | .cmp l _ _ => l.containsNumeric
  | .logic l _ _ => l.containsNumeric

def Expr.containsDatetime : Expr → Bool
  | .field _ f => f.isDatetime
  | .val _ _ => false
  | .func0 _ _ => false
  | .func _ _ l _ => l.containsDatetime
  | .arith l _ _ => l.containsDatetime
  | .cmp l _ _ => l.containsDatetime
  | .logic l _ _ => l.containsDatetime

inductive Traversal where
  | bfs | dfs
  deriving DecidableEq, Repr, BEq

structure RootOptions where
  minDepth : Nat := 0
  maxDepth : Nat := 0
  archives : Bool := false
  symlinks : Bool := false
  gitignore : Option Bool := none
  hgignore : Option Bool := none
  dockerignore : Option Bool := none
  traversal : Traversal := .bfs
  regexp : Bool := false
  deriving Repr, BEq

structure Root where
  path : Str
  options : RootOptions
  deriving Repr, BEq

structure Query where
  fields : List Expr
  roots : List Root
  expr : Option Expr
  grouping : List Expr
  ordering : List Expr
  orderingAsc : List Bool
  limit : Nat
  format : OutputFormat
  deriving Repr

def Query.isOrdered (q : Query) : Bool := !q.ordering.isEmpty
def Query.hasAggregateColumn (q : Query) : Bool := q.fields.any Expr.hasAggregate
def Query.isBuffered (q : Query) : Bool := q.isOrdered || q.hasAggregateColumn
def Query.allFields (q : Query) : List Field := q.fields.flatMap Expr.requiredFields

end Fsel
