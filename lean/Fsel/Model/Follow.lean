/-
  `visit_dir` for roots searched with `symlinks` (searcher.rs:585-800 after the fixes of D27/D43/D44/D46):
  a symbolic link that resolves to a directory is entered under the path `dir.join(read_link(link))`;
  `visited_inodes` (here: its complement `fresh`) guards every entry, `visited_dirs` (canonical paths)
  guards every directory.

  TERMINATION IS BY CONSTRUCTION: there is no fuel.  Every recursive descent (DFS) and every queue push
  (BFS) consumes one element of the finite list `fresh`; the functions return, together with the new
  state, the proof that `fresh.length + queue.length` did not grow, and Lean's termination checker
  accepts the definitions on the measure (fresh.length + queue.length, remaining entries).  Link cycles,
  mutual links and self links therefore cannot make the search diverge — for every tree.
-/
import Fsel.Model.Walk

namespace Fsel

def pathComps (p : Str) : List Str := (splitChar '/' p).filter (!·.isEmpty)

/-- lexical normalisation of `.` and `..` (valid when no component is a symlink) -/
def normComps : List Str → List Str → List Str
  | acc, [] => acc
  | acc, c :: cs =>
    if c == ['.'] then normComps acc cs
    else if c == ['.', '.'] then normComps acc.dropLast cs
    else normComps (acc ++ [c]) cs

def findKid (name : Str) : List Node → Option Node
  | [] => none
  | n :: ns => if n.entry.name == name then some n else findKid name ns

/-- descend from a node along components; `some none` = does not exist; `none` = a symlink on the way
    (outside the fragment handled here) -/
def descend : List Str → Node → Option (Option Node)
  | [], n => some (some n)
  | c :: cs, .dir _ _ kids =>
    match findKid c kids with
    | none => some none
    | some k => if k.entry.kind == 'l' then none else descend cs k
  | _ :: _, .leaf _ _ => some none

def isPrefixComps : List Str → List Str → Option (List Str)
  | [], r => some r
  | _ :: _, [] => none
  | a :: as, b :: bs => if a == b then isPrefixComps as bs else none

def joinComps (cs : List Str) : Str := if cs.isEmpty then ['/'] else cs.flatMap (fun c => '/' :: c)


/-- the snapshot as a lookup structure for canonical paths -/
structure FCtx where
  top : Node
  topCanon : Str

/-- the node at a canonical absolute path (no symlink components by definition of canonical) -/
def FCtx.nodeAt (cx : FCtx) (canon : Str) : Option Node :=
  match isPrefixComps (pathComps cx.topCanon) (pathComps canon) with
  | none => none
  | some rel =>
    match descend rel cx.top with
    | some (some n) => some n
    | _ => none

/-- where a symbolic link leads, when that is a directory: (path as spelled by `dir.join(target)`,
    canonical path, listable, entries) -/
def linkTargetDir (cx : FCtx) (dirPath : Str) (le : Entry) : Option (Str × Str × Bool × List Node) :=
  match le.linkTarget, le.absPath with
  | some t, some real =>
    match cx.nodeAt real with
    | some (.dir _ l kids) => some (if startsWith t ['/'] then t else joinPath dirPath t, real, l, kids)
    | _ => none
  | _, _ => none

/-- the termination measure: inode numbers not yet seen + directories waiting in the queue -/
def WalkSt.meas (w : WalkSt) : Nat := w.fresh.length + w.queue.length

/-- what every step of the follow-mode walk guarantees about the state it returns, relative to a traversal
    state `w` it started from: the measure did not grow, `visited_dirs` was only extended, and it stays free
    of duplicates -/
structure Within (w : WalkSt) where
  s : WSt
  le : s.walk.meas ≤ w.meas
  pre : w.visitedDirs <+: s.walk.visitedDirs
  nodup : w.visitedDirs.Nodup → s.walk.visitedDirs.Nodup

def Within.refl (st : WSt) : Within st.walk := ⟨st, Nat.le_refl _, List.prefix_refl _, id⟩

/-- continue from a state `a` (reached from `w`) to `b` -/
def Within.trans {w : WalkSt} (a : Within w) (b : Within a.s.walk) : Within w :=
  ⟨b.s, Nat.le_trans b.le a.le, List.IsPrefix.trans a.pre b.pre, fun h => b.nodup (a.nodup h)⟩

/-- a state with the same traversal part -/
def Within.cast {w w' : WalkSt} (a : Within w) (hm : w.meas ≤ w'.meas) (hd : w'.visitedDirs <+: w.visitedDirs)
    (hn : w'.visitedDirs.Nodup → w.visitedDirs.Nodup) : Within w' :=
  ⟨a.s, Nat.le_trans a.le hm, List.IsPrefix.trans hd a.pre, fun h => a.nodup (hn h)⟩

/-- `ok_to_visit_dir` with `symlinks`: true exactly when the entry's inode number has not been seen; seeing
    it removes it from `fresh` -/
def takeFresh (w : WalkSt) (ino : Nat) :
    Option { w' : WalkSt // w'.fresh.length < w.fresh.length ∧ w'.queue = w.queue ∧ w'.visitedDirs = w.visitedDirs } :=
  if h : w.fresh.contains ino then
    some ⟨{ w with fresh := w.fresh.erase ino }, by
      have hm : ino ∈ w.fresh := List.contains_iff_mem.mp h
      have := List.length_erase_of_mem hm
      have hpos : 0 < w.fresh.length := List.length_pos_of_mem hm
      simp only
      omega, rfl, rfl⟩
  else none

/-- what an entry leads to when the walk may descend: a directory, or a link to one -/
def descentTarget (cx : FCtx) (dirPath dirCanon : Str) (n : Node) (e : Entry) : Option (Str × Str × Bool × List Node) :=
  match n with
  | .dir de l kids => some (e.path, childCanon dirCanon de.name, l, kids)
  | .leaf le _ => if le.kind == 'l' then linkTargetDir cx dirPath le else none

/-- `visited_dirs.insert(canon)` -/
def markDir (st : WSt) (canon : Str) (h : st.walk.visitedDirs.contains canon = false) : Within st.walk :=
  ⟨{ st with walk := { st.walk with visitedDirs := st.walk.visitedDirs ++ [canon] } }, Nat.le_refl _,
   List.prefix_append _ _, fun hn => by
     show (st.walk.visitedDirs ++ [canon]).Nodup
     rw [List.nodup_append]
     refine ⟨hn, by simp, ?_⟩
     intro a ha b hb
     have : b = canon := by simpa using hb
     subst this
     intro hab; subst hab
     have : st.walk.visitedDirs.contains a = true := List.contains_iff_mem.mpr ha
     rw [h] at this; cases this⟩

/-- the same state with the result side replaced -/
def withRes (st : WSt) (r : ResSt) : Within st.walk := ⟨{ st with res := r }, Nat.le_refl _, List.prefix_refl _, id⟩

/-- one error recorded -/
def withErr (st : WSt) (path : Str) : Within st.walk :=
  ⟨{ st with walk := { st.walk with errCount := st.walk.errCount + 1, errPaths := st.walk.errPaths ++ [path] } },
   Nat.le_refl _, List.prefix_refl _, id⟩

mutual
/-- entries of one directory, depth-first, following links -/
def fKidsD (cx : FCtx) (p : Plan) (rp : RootParams) (dirPath dirCanon : Str) (depth : Nat) (st : WSt) :
    (ns : List Node) → Except Abort (Within st.walk)
  | [] => .ok (Within.refl st)
  | n :: rest =>
    if limitReached p st.res then .ok (Within.refl st) else
    let e := fillEntry n.entry dirPath dirCanon n.entry.absPath
    match reportEntry p rp depth n e st.res with
    | .error a => .error a
    | .ok r1 =>
      let w1 := withRes st r1
      have h1 : w1.s.walk.meas = st.walk.meas := rfl
      if rp.maxDepth == 0 || depth < rp.maxDepth then
        match descentTarget cx dirPath dirCanon n e with
        | none =>
          match fKidsD cx p rp dirPath dirCanon depth w1.s rest with
          | .error a => .error a
          | .ok w2 => .ok (w1.trans w2)
        | some (path, canon, l, kids) =>
          match takeFresh w1.s.walk n.entry.ino with
          | none =>
            match fKidsD cx p rp dirPath dirCanon depth w1.s rest with
            | .error a => .error a
            | .ok w2 => .ok (w1.trans w2)
          | some ⟨wk, hw, hq, hd⟩ =>
            let s2 : WSt := { w1.s with walk := wk }
            have hlt : s2.walk.meas < st.walk.meas := by
              show wk.fresh.length + wk.queue.length < st.walk.fresh.length + st.walk.queue.length
              rw [hq]; exact Nat.add_lt_add_right hw _
            let w2 : Within st.walk := ⟨s2, Nat.le_of_lt hlt, by rw [show s2.walk.visitedDirs = st.walk.visitedDirs from hd]; exact List.prefix_refl _,
              fun h => by rw [show s2.walk.visitedDirs = st.walk.visitedDirs from hd]; exact h⟩
            match fVisitD cx p rp path canon l kids s2 with
            | .error a => .error a
            | .ok w3 =>
              have : w3.s.walk.meas < st.walk.meas := Nat.lt_of_le_of_lt w3.le hlt
              match fKidsD cx p rp dirPath dirCanon depth w3.s rest with
              | .error a => .error a
              | .ok w4 => .ok ((w2.trans w3).trans w4)
      else
        match fKidsD cx p rp dirPath dirCanon depth w1.s rest with
        | .error a => .error a
        | .ok w2 => .ok (w1.trans w2)
termination_by ns => (st.walk.meas, ns.length)
decreasing_by
  all_goals simp_wf
  all_goals first
    | (apply Prod.Lex.right' <;> first | exact Nat.le_of_eq h1 | omega | simp)
    | (apply Prod.Lex.left; omega)

/-- `visit_dir` of a directory reached under `path` whose canonical path is `canon` -/
def fVisitD (cx : FCtx) (p : Plan) (rp : RootParams) (path canon : Str) (listable : Bool) (kids : List Node) (st : WSt) :
    Except Abort (Within st.walk) :=
  if hv : st.walk.visitedDirs.contains canon then .ok (Within.refl st)
  else
    let w1 := markDir st canon (by simpa using hv)
    have h1 : w1.s.walk.meas = st.walk.meas := rfl
    let depth := calcDepth canon - rp.base + 1
    if !listable then .ok (w1.trans (withErr w1.s path))
    else
      match fKidsD cx p rp path canon depth w1.s kids with
      | .error a => .error a
      | .ok w2 => .ok (w1.trans w2)
termination_by (st.walk.meas, kids.length + 1)
decreasing_by
  all_goals simp_wf
  all_goals first
    | (apply Prod.Lex.right' <;> first | exact Nat.le_of_eq h1 | omega)
    | (apply Prod.Lex.left; omega)
end

/-- entries of one directory, breadth-first, following links: what can be descended into is queued -/
def fKidsB (cx : FCtx) (p : Plan) (rp : RootParams) (dirPath dirCanon : Str) (depth : Nat) (st : WSt) :
    (ns : List Node) → Except Abort (Within st.walk)
  | [] => .ok (Within.refl st)
  | n :: rest =>
    if limitReached p st.res then .ok (Within.refl st) else
    let e := fillEntry n.entry dirPath dirCanon n.entry.absPath
    match reportEntry p rp depth n e st.res with
    | .error a => .error a
    | .ok r1 =>
      let w1 := withRes st r1
      let next (w : Within st.walk) : Except Abort (Within st.walk) :=
        match fKidsB cx p rp dirPath dirCanon depth w.s rest with
        | .error a => .error a
        | .ok w2 => .ok (w.trans w2)
      if rp.maxDepth == 0 || depth < rp.maxDepth then
        match descentTarget cx dirPath dirCanon n e with
        | none => next w1
        | some (path, canon, l, kids) =>
          match takeFresh w1.s.walk n.entry.ino with
          | none => next w1
          | some ⟨wk, hw, hq, hd⟩ =>
            let w3 : WalkSt := { wk with queue := wk.queue ++ [⟨kids, l, path, canon⟩] }
            next ⟨{ w1.s with walk := w3 }, by
                show wk.fresh.length + (wk.queue ++ [_]).length ≤ st.walk.fresh.length + st.walk.queue.length
                have e1 : w1.s.walk.queue = st.walk.queue := rfl
                have e2 : w1.s.walk.fresh = st.walk.fresh := rfl
                rw [hq, List.length_append, e1]
                have : wk.fresh.length < st.walk.fresh.length := by rw [← e2]; exact hw
                simp only [List.length_cons, List.length_nil]
                omega,
              by show st.walk.visitedDirs <+: wk.visitedDirs; rw [hd]; exact List.prefix_refl _,
              fun h => by show wk.visitedDirs.Nodup; rw [hd]; exact h⟩
      else next w1

/-- `visit_dir` of a queued directory -/
def fVisitB (cx : FCtx) (p : Plan) (rp : RootParams) (it : QItem) (st : WSt) : Except Abort (Within st.walk) :=
  if hv : st.walk.visitedDirs.contains it.canon then .ok (Within.refl st)
  else
    let w1 := markDir st it.canon (by simpa using hv)
    let depth := calcDepth it.canon - rp.base + 1
    if !it.listable then .ok (w1.trans (withErr w1.s it.path))
    else
      match fKidsB cx p rp it.path it.canon depth w1.s it.kids with
      | .error a => .error a
      | .ok w2 => .ok (w1.trans w2)

/-- the state a queue-draining loop returns: `visited_dirs` only extended, still free of duplicates -/
structure Drained (w : WalkSt) where
  s : WSt
  pre : w.visitedDirs <+: s.walk.visitedDirs
  nodup : w.visitedDirs.Nodup → s.walk.visitedDirs.Nodup

/-- `while !self.dir_queue.is_empty()`: terminates because every iteration lowers the measure -/
def fDrain (cx : FCtx) (p : Plan) (rp : RootParams) (st : WSt) : Except Abort (Drained st.walk) :=
  match hq : st.walk.queue with
  | [] => .ok ⟨st, List.prefix_refl _, id⟩
  | it :: q =>
    let s1 : WSt := { st with walk := { st.walk with queue := q } }
    have h1 : s1.walk.meas < st.walk.meas := by
      show st.walk.fresh.length + q.length < st.walk.fresh.length + st.walk.queue.length
      rw [hq]; simp
    match fVisitB cx p rp it s1 with
    | .error a => .error a
    | .ok w2 =>
      have : w2.s.walk.meas < st.walk.meas := Nat.lt_of_le_of_lt w2.le h1
      match fDrain cx p rp w2.s with
      | .error a => .error a
      | .ok d => .ok ⟨d.s, List.IsPrefix.trans w2.pre d.pre, fun h => d.nodup (w2.nodup h)⟩
termination_by st.walk.meas

mutual
def Node.inodes : Node → List Nat
  | .leaf e _ => [e.ino]
  | .dir e _ kids => e.ino :: Node.inodesList kids
def Node.inodesList : List Node → List Nat
  | [] => []
  | n :: ns => n.inodes ++ Node.inodesList ns
end

/-- one root searched with `symlinks` -/
def searchRootFollow (cx : FCtx) (p : Plan) (root : Root) (res : RootRes) (st : WSt) : Except Abort WSt :=
  let st : WSt := { st with walk := { st.walk with queue := [] } }
  match res with
  | .missing => .ok { st with walk := { st.walk with errCount := st.walk.errCount + 1, errPaths := st.walk.errPaths ++ [root.path] } }
  | .notDir _ _ =>
    .ok { st with walk := { st.walk with errCount := st.walk.errCount + 1, errPaths := st.walk.errPaths ++ [root.path] } }
  | .dir _ listable kids canon =>
    let rp := rootParams root canon
    if rp.bfs then
      match fVisitB cx p rp ⟨kids, listable, root.path, canon⟩ st with
      | .error a => .error a
      | .ok w =>
        match fDrain cx p rp w.s with
        | .error a => .error a
        | .ok d => .ok d.s
    else
      match fVisitD cx p rp root.path canon listable kids st with
      | .error a => .error a
      | .ok w => .ok w.s

end Fsel
