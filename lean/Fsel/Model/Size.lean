/-
  `parse_filesize` (util/mod.rs): the suffix ladder comes from the generated table `sizeLadder`
  (suffix, length bound, chars cut, float?, multiplier) in source order; fallback `parse::<u64>()`.
-/
import Fsel.Model.Num
import Fsel.Gen.Tables

namespace Fsel

/-- UTF-8 length in bytes (Rust `String::len`) -/
def utf8Len (s : Str) : Nat := (s.map Char.utf8Size).sum

def u128Max : Nat := 2 ^ 128 - 1

/-- `strip_prefix('+').unwrap_or(..)` -/
def stripPlus : Str → Str
  | '+' :: t => t
  | s => s

/-- `[+]digits[.digits]` with at least one digit (what `scale_size` calls a plain decimal number):
    the digits read as one number and the number of digits after the point -/
def plainDecimal? (number : Str) : Option (Nat × Nat) :=
  let int0 := number.takeWhile (· != '.')
  let frac := (number.dropWhile (· != '.')).drop 1          -- `split_once('.')`
  let int := stripPlus int0
  if !(int.isEmpty && frac.isEmpty) && (int ++ frac).all isDigit then some (digitsVal (int ++ frac), frac.length)
  else none

/-- `scale_size` (D67 fix): a plain decimal number is scaled in `u128` integers (exact, rounded down,
    saturating at `u64::MAX`); anything else (exponents, `inf`, numbers too long for `u128`) by one `f64`
    multiplication.  The second component says whether the model's value is the implementation's. -/
def scaleSize (number : Str) (v : Num) (mult : Nat) : Nat × Bool :=
  let viaFloat : Nat × Bool := let p := v.mul (Num.ofNat mult); (p.toU64, p.isExact)
  if sizeScaledInIntegers then
    match plainDecimal? number with
    | some (digits, fracLen) =>
      if digits ≤ u128Max && fracLen ≤ 38 && digits * mult ≤ u128Max then
        (min (digits * mult / 10 ^ fracLen) u64Max, true)
      else viaFloat
    | none => viaFloat
  else viaFloat

def sizeRung (string : Str) : List (Str × Nat × Nat × Bool × Nat) → Option (Option Nat)
  | [] => none
  | (sfx, minLen, cut, isFloat, mult) :: rest =>
    if utf8Len string > minLen && endsWith string sfx then
      let body := string.take (string.length - cut)
      if isFloat then
        match parseF64? body with
        | some v => some (some (scaleSize body v mult).1)
        | none => some none
      else
        match parseU64? body with
        | some n => some (some (n * mult))
        | none => some none
    else sizeRung string rest

def parseFilesize (s : Str) : Option Nat :=
  let string := (lowerStr s).filter (· != ' ')
  match sizeRung string sizeLadder with
  | some r => r
  | none => parseU64? string

/-- is the ℚ computation of `parse_filesize s` guaranteed to equal the `f64` computation? -/
def parseFilesizeExact (s : Str) : Bool :=
  let string := (lowerStr s).filter (· != ' ')
  let go := sizeLadder.find? (fun r => utf8Len string > r.2.1 && endsWith string r.1)
  match go with
  | some (_, _, cut, true, mult) =>
    match parseF64? (string.take (string.length - cut)) with
    | some v => (scaleSize (string.take (string.length - cut)) v mult).2
    | none => true
  | _ => true

end Fsel

namespace Fsel

/-- `\w` of the regex crate restricted to ASCII (+ any non-ASCII letter is treated as a word char) -/
def isWordChar (c : Char) : Bool := isAsciiAlnum c || c == '_' || c.toNat ≥ 0x80

/-- FILE_SIZE_FORMAT_REGEX `(%\.(?P<zeroes>\d+))?(?P<space>\s)?(?P<units>\w+)?` at position 0 -/
def sizeSpec (m : Str) : Option Str × Option Char × Str :=
  let (zeroes, r1) : Option Str × Str := match m with
    | '%' :: '.' :: t =>
      let ds := t.takeWhile isDigit
      if ds.isEmpty then (none, m) else (some ds, t.dropWhile isDigit)
    | _ => (none, m)
  let (sp, r2) : Option Char × Str := match r1 with
    | c :: t => if isWhitespace c then (some c, t) else (none, r1)
    | [] => (none, [])
  (zeroes, sp, r2.takeWhile isWordChar)

def scaleNames (b : SizeBase) : List Str :=
  match b with
  | .BINARY => ["B", "KiB", "MiB", "GiB", "TiB", "PiB", "EiB", "ZiB", "YiB"].map String.toList
  | _ => ["B", "kB", "MB", "GB", "TB", "PB", "EB", "ZB", "YB"].map String.toList

def FixedAt.idx : FixedAt → Option Nat
  | .None => none | .Base => some 0 | .Kilo => some 1 | .Mega => some 2 | .Giga => some 3
  | .Tera => some 4 | .Peta => some 5 | .Exa => some 6

def ratAbs (q : Rat) : Rat := if q < 0 then -q else q

/-- humansize's auto-scaling loop -/
def autoScale (divider : Rat) : Nat → Rat → Nat → Rat × Nat
  | 0, q, i => (q, i)
  | f + 1, q, i => if ratAbs q ≥ divider then autoScale divider f (q / divider) (i + 1) else (q, i)

/-- `format!("{:.*}", places, q)` for q ≥ 0: round half to even at `places` digits; also reports
    whether `q` sat exactly on a rounding tie (then the f64 result may differ for non-dyadic q) -/
def fmtFixed (q : Rat) (places : Nat) : Str × Bool :=
  let scale : Nat := 10 ^ places
  let x : Rat := q * scale
  let fl := x.floor
  let frac : Rat := x - fl
  let half : Rat := 1 / 2
  let tie := frac == half
  let r : Int := if frac < half then fl else if frac > half then fl + 1 else (if fl % 2 == 0 then fl else fl + 1)
  let n := r.toNat
  let ip := n / scale
  let fp := n % scale
  if places == 0 then (showNat ip, tie)
  else
    let fs := showNat fp
    (showNat ip ++ ['.'] ++ List.replicate (places - fs.length) '0' ++ fs, tie)

/-- `format_filesize`.  `.error` = `error_exit("Unknown file size modifier")`.  The Bool says whether
    the text is certainly what the f64 computation prints. -/
def formatFilesize (size : Nat) (modifier : Str) : Except String (Str × Bool) :=
  let m := lowerStr modifier
  let (zs, sp, units0) := sizeSpec m
  let zeroes? : Except String (Option Nat) := match zs with
    | none => .ok none
    | some ds => if ds.length ≤ 9 && digitsVal ds ≤ 20 then .ok (some (digitsVal ds)) else .error "Unknown file size modifier"
  match zeroes? with
  | .error e => .error e
  | .ok zeroes =>
    let space := sp == some ' '
    let conventional := units0.contains 'c'
    let u1 := units0.filter (· != 'c')
    let decimal := u1.contains 'd'
    let u2 := u1.filter (· != 'd')
    let short := u2.contains 's'
    let u3 := u2.filter (· != 's')
    match lookup u3 (sizeUnitTable.map fun (a, b, c, d) => (a, (b, c, d))) with
    | none => .error "Unknown file size modifier"
    | some (fixed, base0, zeroDefault) =>
      let places : Nat := match zeroes with
        | some z => z
        | none => if zeroDefault then 0 else 2
      let base : SizeBase := if decimal then .DECIMAL else if conventional then .WINDOWS else base0
      let divider : Rat := if base == .DECIMAL then 1000 else 1024
      let (q, idx) : Rat × Nat := match fixed.idx with
        | some k => ((size : Rat) / (ratPow divider k), k)
        | none => autoScale divider 12 (size : Rat) 0
      let name := (scaleNames base)[idx]?.getD []
      let isInt := q.den == 1
      let (num, tie) := fmtFixed q (if isInt then 0 else places)
      let exact := size < two53 && (base != .DECIMAL || !tie) && (pow2? q.den || !tie)
      let text := num ++ (if space then [' '] else []) ++ name
      let text := replaceAll text (ofS "kB") (ofS "KB")
      let text := if short then
          [("iB", ""), ("KB", "K"), ("MB", "M"), ("GB", "G"), ("TB", "T"), ("PB", "P"), ("EB", "E")].foldl
            (fun t (a, b) => replaceAll t a.toList b.toList) text
        else text
      .ok (text, exact)
where
  ratPow (q : Rat) : Nat → Rat
    | 0 => 1
    | n + 1 => q * ratPow q n

end Fsel
