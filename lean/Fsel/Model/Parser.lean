/-
  Parser model: mirrors src/parser.rs.  The Rust parser walks a token vector with
  `next_lexem` / `drop_lexem`; every `drop` directly follows a `next` (peek), except two
  double-drops that restore known tokens, so the model works on the remaining token list.
  Error results carry the exact remaining position, because `parse_fields` and `parse_function`
  swallow errors and continue from wherever the failing sub-parser stopped.

  Every Rust `unwrap`/index/`-1` that user input can reach is an explicit `PErr.panic site`.
  A Rust loop that can fail to consume (parse_fields on an arithmetic-operator token, D25) cannot be
  defined by well-founded recursion; the model detects "no progress" and returns `PErr.hang`.
-/
import Fsel.Model.Lexer

namespace Fsel

/-- Parser failure.  There is deliberately no `panic` and no `hang` constructor: after the `fix:`
    commits for D20–D25 every failure of the Rust parser is an `Err(String)`, and the model's types
    carry that fact (a parser result is a value of `Except PErr _`, nothing else). -/
inductive PErr where
  | msg (m : String)
  | unsupported (why : String)
  deriving Repr, BEq, DecidableEq

/-- length bookkeeping for the remaining-token subtypes -/
macro "lenomega" : tactic =>
  `(tactic| ((try subst_vars); first | omega | (simp only [List.length_cons, List.length_nil] at * <;> omega)))

abbrev Rest (ts : List Lexem) := { r : List Lexem // r.length ≤ ts.length }

def Rest.lift {ts us : List Lexem} (r : Rest ts) (h : ts.length ≤ us.length) : Rest us :=
  ⟨r.1, Nat.le_trans r.2 h⟩

def Rest.refl (ts : List Lexem) : Rest ts := ⟨ts, Nat.le_refl _⟩

/-- Result of a sub-parser started at `ts`: outcome, remaining tokens, and the facts the loops need:
    the remaining list is no longer than the input, and (for `strict = true`) strictly shorter whenever
    the input was non-empty — on success *and* on failure (this is what the D25 fix established). -/
structure PR (strict : Bool) (α : Type) (ts : List Lexem) where
  res : Except PErr α
  rest : List Lexem
  le : rest.length ≤ ts.length
  progress : strict = true → ts ≠ [] → rest.length < ts.length

def PR.lift {b : Bool} {α : Type} {ts us : List Lexem} (r : PR b α ts) (h : ts.length < us.length) : PR true α us :=
  ⟨r.res, r.rest, by have := r.le; omega, fun _ _ => by have := r.le; omega⟩

def PR.weak {α : Type} {ts us : List Lexem} (r : PR false α ts) (h : ts.length ≤ us.length) : PR false α us :=
  ⟨r.res, r.rest, by have := r.le; omega, fun h => by simp at h⟩

def Op.ofStr? (s : Str) : Option Op := lookup (lowerStr s) opTable
def ArithOp.ofStr? (s : Str) : Option ArithOp := lookup (lowerStr s) arithTable
def OutputFormat.ofStr? (s : Str) : Option OutputFormat := lookup (lowerStr s) formatTable

def Op.fromWithNot (s : Str) (not : Bool) : Option Op :=
  match Op.ofStr? s with
  | some op => if not then some op.negate else some op
  | none => none

def LogicalOp.dual : LogicalOp → LogicalOp
  | .And => .Or
  | .Or => .And

/-- `Parser::negate_expr_op` (after the D07 fix): De Morgan over connectives, operator negation at
    comparisons; operands of a comparison are values and are left alone. -/
def Expr.negate : Expr → Expr
  | .logic l op r => .logic l.negate op.dual r.negate
  | .cmp l op r => .cmp l op.negate r
  | e => e

def skipNots : (ts : List Lexem) → Bool × Rest ts
  | .not_ :: r => let (b, r') := skipNots r; (!b, r'.lift (by simp))
  | ts => (false, Rest.refl ts)

/-- optional infix NOT after the left operand of a condition -/
def infixNot : (ts : List Lexem) → Bool × Rest ts
  | .not_ :: r => (true, ⟨r, by simp⟩)
  | ts => (false, Rest.refl ts)

def Expr.setMinus (e : Expr) (m : Bool) : Expr :=
  match e with
  | .field _ f => .field m f
  | .val _ v => .val m v
  | .func0 _ f => .func0 m f
  | .func _ f l a => .func m f l a
  | e => e

/-- boolean shorthand of `parse_cond` (`is_dir` ⇒ `is_dir = true`), active only while parsing WHERE. -/
def boolShorthand (bs : Bool) (e : Expr) : Expr :=
  if !bs then e else
  match e with
  | .field _ f => if f.isBoolean then .cmp (.field false f) .Eq (.val false (ofS "true")) else e
  | .func0 _ f => if f.isBoolean then .cmp (.func0 false f) .Eq (.val false (ofS "true")) else e
  | .func _ f l args =>
    if args.isEmpty && f.isBoolean then .cmp (.func false f l []) .Eq (.val false (ofS "true")) else e
  | e => e

/-- functions whose brackets are optional (parser.rs `takes_no_arguments`) -/
def Function.takesNoArguments (f : Function) : Bool := function_takes_no_arguments.contains f

inductive FnHdr (ts : List Lexem) where
  | args (curly : Bool) (r : Rest ts)
  | ret (res : Except PErr Expr) (r : Rest ts)

/-- opening bracket of a function call (the check is skipped at end of input) -/
def fnHeader (fn : Function) : (ts : List Lexem) → FnHdr ts
  | [] => .args false (Rest.refl _)
  | .open_ :: r => .args false ⟨r, by simp⟩
  | .copen :: r => .args true ⟨r, by simp⟩
  | t :: r => if fn.isBoolean then .ret (.ok (.func0 false fn)) ⟨t :: r, Nat.le_refl _⟩   -- D84 fix: the lexem is put back
              else if fn.takesNoArguments then .ret (.ok (.func0 false fn)) ⟨t :: r, Nat.le_refl _⟩   -- D31 fix: the lexem is put back
              else .ret (.error (.msg "Error in function expression")) ⟨r, by simp⟩

mutual

def parseExpr (bs : Bool) (ts : List Lexem) : PR true Expr ts :=
  match parseAnd bs ts with
  | ⟨.error e, r, hr, hp⟩ => ⟨.error e, r, hr, hp⟩
  | ⟨.ok left, r, hr, hp⟩ =>
    match exprLoop bs none r with
    | ⟨.error e, r2, h2, _⟩ => ⟨.error e, r2, by omega, fun a b => by have := hp a b; omega⟩
    | ⟨.ok none, r2, h2, _⟩ => ⟨.ok left, r2, by omega, fun a b => by have := hp a b; omega⟩
    | ⟨.ok (some right), r2, h2, _⟩ => ⟨.ok (.logic left .Or right), r2, by omega, fun a b => by have := hp a b; omega⟩
termination_by 16 * ts.length + 12

def exprLoop (bs : Bool) (right : Option Expr) (ts : List Lexem) : PR false (Option Expr) ts :=
  match ts with
  | .or_ :: r =>
    match parseAnd bs r with
    | ⟨.error e, r2, h2, _⟩ => ⟨.error e, r2, by lenomega, fun h => by simp at h⟩
    | ⟨.ok e, r2, h2, _⟩ =>
      let right' := match right with
        | some rr => some (Expr.logic rr .Or e)
        | none => some e
      match exprLoop bs right' r2 with
      | ⟨res, r3, h3, _⟩ => ⟨res, r3, by lenomega, fun h => by simp at h⟩
  | ts => ⟨.ok right, ts, Nat.le_refl _, fun h => by simp at h⟩
termination_by 16 * ts.length + 11

def parseAnd (bs : Bool) (ts : List Lexem) : PR true Expr ts :=
  match parseCond bs ts with
  | ⟨.error e, r, hr, hp⟩ => ⟨.error e, r, hr, hp⟩
  | ⟨.ok left, r, hr, hp⟩ =>
    match andLoop bs none r with
    | ⟨.error e, r2, h2, _⟩ => ⟨.error e, r2, by omega, fun a b => by have := hp a b; omega⟩
    | ⟨.ok none, r2, h2, _⟩ => ⟨.ok left, r2, by omega, fun a b => by have := hp a b; omega⟩
    | ⟨.ok (some right), r2, h2, _⟩ => ⟨.ok (.logic left .And right), r2, by omega, fun a b => by have := hp a b; omega⟩
termination_by 16 * ts.length + 10

def andLoop (bs : Bool) (right : Option Expr) (ts : List Lexem) : PR false (Option Expr) ts :=
  match ts with
  | .and_ :: r =>
    match parseCond bs r with
    | ⟨.error e, r2, h2, _⟩ => ⟨.error e, r2, by lenomega, fun h => by simp at h⟩
    | ⟨.ok e, r2, h2, _⟩ =>
      let right' := match right with
        | some rr => some (Expr.logic rr .And e)
        | none => some e
      match andLoop bs right' r2 with
      | ⟨res, r3, h3, _⟩ => ⟨res, r3, by lenomega, fun h => by simp at h⟩
  | ts => ⟨.ok right, ts, Nat.le_refl _, fun h => by simp at h⟩
termination_by 16 * ts.length + 9

def parseCond (bs : Bool) (ts : List Lexem) : PR true Expr ts :=
  match skipNots ts with
  | (negate, ⟨t1, h1⟩) =>
  match parseAddSub bs t1 with
  | ⟨.error e, r, hr, hp⟩ =>
    ⟨.error e, r, by omega, fun a b => by
      by_cases h : t1 = []
      · subst h; simp at hr; cases ts with
        | nil => exact absurd rfl b
        | cons x xs => subst hr; simp
      · have := hp a h; omega⟩
  | ⟨.ok left, t2, h2, hp2⟩ =>
    -- a successful operand parse consumed at least one token of `t1`
    have hlt : t2.length < ts.length ∨ ts = [] := by
      by_cases h : t1 = []
      · subst h
        cases ts with
        | nil => exact Or.inr rfl
        | cons x xs => left; simp at h2; subst h2; simp
      · left; have := hp2 rfl h; omega
    match infixNot t2 with
    | (not, ⟨t3, h3⟩) =>
    let fin (e : Expr) (r : List Lexem) (hr : r.length ≤ t3.length) : PR true Expr ts :=
      let e' := boolShorthand bs e
      ⟨.ok (if negate then e'.negate else e'), r, by omega, fun _ b => by
        cases hlt with
        | inl h => omega
        | inr h => exact absurd h b⟩
    let bad (e : PErr) (r : List Lexem) (hr : r.length ≤ t3.length) : PR true Expr ts :=
      ⟨.error e, r, by omega, fun _ b => by
        cases hlt with
        | inl h => omega
        | inr h => exact absurd h b⟩
    match ht3 : t3 with
    | .op s :: t4 =>
      have h4 : t4.length + 1 = t3.length := by lenomega
      if lowerStr s == ofS "between" then
        match parseAddSub bs t4 with
        | ⟨.error e, r, hr, _⟩ => bad e r (by lenomega)
        | ⟨.ok lb, t5, h5, _⟩ =>
          match ht5 : t5 with
          | .and_ :: t6 =>
            have h6 : t6.length + 1 = t5.length := by lenomega
            match parseAddSub bs t6 with
            | ⟨.error e, r, hr, _⟩ => bad e r (by lenomega)
            | ⟨.ok rb, t7, h7, _⟩ =>
              let le := Expr.cmp left (if not then .Lt else .Gte) lb
              let re := Expr.cmp left (if not then .Gt else .Lte) rb
              fin (.logic le (if not then .Or else .And) re) t7 (by lenomega)
          | [] => bad (.msg "Error parsing BETWEEN operator") [] (by simp)
          | _ :: t6 =>
            have h6 : t6.length + 1 = t5.length := by lenomega
            bad (.msg "Error parsing BETWEEN operator") t6 (by lenomega)
      else
        match parseAddSub bs t4 with
        | ⟨.error e, r, hr, _⟩ => bad e r (by lenomega)
        | ⟨.ok right, t5, h5, _⟩ =>
          match Op.fromWithNot s not with
          | none => bad (.msg "Unknown operator") t5 (by lenomega)
          | some op => fin (.cmp left op right) t5 (by lenomega)
    | _ => fin left t3 (Nat.le_refl _)
termination_by 16 * ts.length + 8

def parseAddSub (bs : Bool) (ts : List Lexem) : PR true Expr ts :=
  match parseMulDiv bs ts with
  | ⟨.error e, r, hr, hp⟩ => ⟨.error e, r, hr, hp⟩
  | ⟨.ok left, r, hr, hp⟩ =>
    match addLoop bs left r with
    | ⟨res, r2, h2, _⟩ => ⟨res, r2, by omega, fun a b => by have := hp a b; omega⟩
termination_by 16 * ts.length + 7

def addLoop (bs : Bool) (left : Expr) (ts : List Lexem) : PR false Expr ts :=
  match ts with
  | .arith s :: r =>
    match ArithOp.ofStr? s with
    | some .Add | some .Subtract =>
      match parseMulDiv bs r with
      | ⟨.error e, r2, h2, _⟩ => ⟨.error e, r2, by lenomega, fun h => by simp at h⟩
      | ⟨.ok e, r2, h2, _⟩ =>
        let op := if ArithOp.ofStr? s == some .Add then ArithOp.Add else ArithOp.Subtract
        match addLoop bs (.arith left op e) r2 with
        | ⟨res, r3, h3, _⟩ => ⟨res, r3, by lenomega, fun h => by simp at h⟩
    | _ => ⟨.ok left, _, Nat.le_refl _, fun h => by simp at h⟩
  | ts => ⟨.ok left, ts, Nat.le_refl _, fun h => by simp at h⟩
termination_by 16 * ts.length + 6

def parseMulDiv (bs : Bool) (ts : List Lexem) : PR true Expr ts :=
  match parseParen bs ts with
  | ⟨.error e, r, hr, hp⟩ => ⟨.error e, r, hr, hp⟩
  | ⟨.ok left, r, hr, hp⟩ =>
    match mulLoop bs left r with
    | ⟨res, r2, h2, _⟩ => ⟨res, r2, by omega, fun a b => by have := hp a b; omega⟩
termination_by 16 * ts.length + 5

def mulLoop (bs : Bool) (left : Expr) (ts : List Lexem) : PR false Expr ts :=
  match ts with
  | .arith s :: r =>
    match ArithOp.ofStr? s with
    | some .Multiply | some .Divide | some .Modulo =>
      match parseParen bs r with
      | ⟨.error e, r2, h2, _⟩ => ⟨.error e, r2, by lenomega, fun h => by simp at h⟩
      | ⟨.ok e, r2, h2, _⟩ =>
        let op := match ArithOp.ofStr? s with
          | some .Multiply => ArithOp.Multiply
          | some .Divide => ArithOp.Divide
          | _ => ArithOp.Modulo
        match mulLoop bs (.arith left op e) r2 with
        | ⟨res, r3, h3, _⟩ => ⟨res, r3, by lenomega, fun h => by simp at h⟩
    | _ => ⟨.ok left, _, Nat.le_refl _, fun h => by simp at h⟩
  | ts => ⟨.ok left, ts, Nat.le_refl _, fun h => by simp at h⟩
termination_by 16 * ts.length + 4

def parseParen (bs : Bool) (ts : List Lexem) : PR true Expr ts :=
  match ts with
  | .open_ :: r =>
    match parseExpr bs r with
    | ⟨res, r2, h2, _⟩ =>
      match r2, h2 with
      | .close :: r3, h2 => ⟨res, r3, by lenomega, fun _ _ => by lenomega⟩
      | [], _ => ⟨.error (.msg "Unmatched parenthesis"), [], by simp, fun _ _ => by simp⟩
      | _ :: r3, h2 => ⟨.error (.msg "Unmatched parenthesis"), r3, by lenomega, fun _ _ => by lenomega⟩
  | .copen :: r =>
    match parseExpr bs r with
    | ⟨res, r2, h2, _⟩ =>
      match r2, h2 with
      | .cclose :: r3, h2 => ⟨res, r3, by lenomega, fun _ _ => by lenomega⟩
      | [], _ => ⟨.error (.msg "Unmatched parenthesis"), [], by simp, fun _ _ => by simp⟩
      | _ :: r3, h2 => ⟨.error (.msg "Unmatched parenthesis"), r3, by lenomega, fun _ _ => by lenomega⟩
  | ts => parseFuncScalar bs ts
termination_by 16 * ts.length + 3

def parseFuncScalar (bs : Bool) (ts : List Lexem) : PR true Expr ts :=
  let errS : PErr := .msg "Error parsing expression, expecting string"
  match ts with
  | .arith s :: r =>
    if s == ['-'] then (leafP bs true r).lift (by simp)
    else
      -- `+` and (since the D25 fix) every other operator is consumed; the operator itself is then
      -- matched against String/RawString and rejected
      ⟨.error errS, r, by simp, fun _ _ => by simp⟩
  | ts' => leafP bs false ts'
termination_by 16 * ts.length + 2

/-- leaf after an optional sign: column, function call or literal -/
def leafP (bs : Bool) (minus : Bool) (ts : List Lexem) : PR true Expr ts :=
  let errS : PErr := .msg "Error parsing expression, expecting string"
  match ts with
  | [] => ⟨.error errS, [], by simp, fun _ h => absurd rfl h⟩
  | .str s :: r => ⟨.ok (.val minus s), r, by simp, fun _ _ => by simp⟩   -- a quoted literal is always text (D02 fix)
  | .raw s :: r =>
    match Field.ofStr? s with
    | some f => ⟨.ok (.field minus f), r, by simp, fun _ _ => by simp⟩
    | none =>
      match Function.ofStr? s with
      | some fn =>
        match parseFunction bs fn r with
        | ⟨.error e, r2, h2, _⟩ => ⟨.error e, r2, by lenomega, fun _ _ => by lenomega⟩
        | ⟨.ok e, r2, h2, _⟩ => ⟨.ok (e.setMinus minus), r2, by lenomega, fun _ _ => by lenomega⟩
      | none => ⟨.ok (.val minus s), r, by simp, fun _ _ => by simp⟩
  | _ :: r => ⟨.error errS, r, by simp, fun _ _ => by simp⟩
termination_by 16 * ts.length + 1

def parseFunction (bs : Bool) (fn : Function) (ts : List Lexem) : PR false Expr ts :=
  match fnHeader fn ts with
  | .ret res r => ⟨res, r.1, r.2, fun h => by simp at h⟩
  | .args curly ⟨t1, h1⟩ =>
    match parseExpr bs t1 with
    | ⟨.error (.msg _), r, hr, _⟩ => ⟨.ok (.func0 false fn), r, by omega, fun h => by simp at h⟩   -- `if let Ok(Some(..)) … else return Ok(function_expr)`
    | ⟨.error e, r, hr, _⟩ => ⟨.error e, r, by omega, fun h => by simp at h⟩
    | ⟨.ok arg, t2, h2, _⟩ =>
      match argsLoop bs curly [] t2 with
      | ⟨.error e, r, hr, _⟩ => ⟨.error e, r, by omega, fun h => by simp at h⟩
      | ⟨.ok args, r, hr, _⟩ => ⟨.ok (.func false fn arg args), r, by omega, fun h => by simp at h⟩
termination_by 16 * ts.length + 13

def argsLoop (bs : Bool) (curly : Bool) (acc : List Expr) (ts : List Lexem) : PR false (List Expr) ts :=
  let errF : PErr := .msg "Error in function expression"
  match ts with
  | .comma :: r =>
    match parseExpr bs r with
    | ⟨.error (.msg _), r2, h2, _⟩ => ⟨.error errF, r2, by lenomega, fun h => by simp at h⟩
    | ⟨.error e, r2, h2, _⟩ => ⟨.error e, r2, by lenomega, fun h => by simp at h⟩
    | ⟨.ok e, r2, h2, _⟩ =>
      match argsLoop bs curly (acc ++ [e]) r2 with
      | ⟨res, r3, h3, _⟩ => ⟨res, r3, by lenomega, fun h => by simp at h⟩
  | .close :: r => if !curly then ⟨.ok acc, r, by simp, fun h => by simp at h⟩ else ⟨.error errF, r, by simp, fun h => by simp at h⟩
  | .cclose :: r => if curly then ⟨.ok acc, r, by simp, fun h => by simp at h⟩ else ⟨.error errF, r, by simp, fun h => by simp at h⟩
  | [] => ⟨.error errF, [], by simp, fun h => by simp at h⟩
  | _ :: r => ⟨.error errF, r, by simp, fun h => by simp at h⟩
termination_by 16 * ts.length + 0

end

end Fsel
