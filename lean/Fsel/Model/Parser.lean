/-
  Parser model: mirrors src/parser.rs.  The Rust parser walks a token vector with
  `next_lexem` / `drop_lexem`; every `drop` directly follows a `next` (peek), except two
  double-drops that restore known tokens, so the model works on the remaining token list.
  Error results carry the exact remaining position, because `parse_fields` and `parse_function`
  swallow errors and continue from wherever the failing sub-parser stopped.

  Every Rust `unwrap`/index/`-1` that user input can reach is an explicit `PErr.panic site`.
  A Rust loop that can fail to consume (parse_fields on an arithmetic-operator token, D25) cannot be
  defined by well-founded recursion; the model detects "no progress" and returns `PErr.hang`.
-/
import Fsel.Model.Lexer

namespace Fsel

inductive PErr where
  | msg (m : String)
  | panic (site : String)
  | hang (site : String)
  | unsupported (why : String)
  deriving Repr, BEq, DecidableEq

/-- length bookkeeping for the remaining-token subtypes -/
macro "lenomega" : tactic =>
  `(tactic| ((try subst_vars); first | omega | (simp only [List.length_cons, List.length_nil] at * <;> omega)))

abbrev Rest (ts : List Lexem) := { r : List Lexem // r.length ≤ ts.length }

def Rest.lift {ts us : List Lexem} (r : Rest ts) (h : ts.length ≤ us.length) : Rest us :=
  ⟨r.1, Nat.le_trans r.2 h⟩

def Rest.refl (ts : List Lexem) : Rest ts := ⟨ts, Nat.le_refl _⟩

abbrev PR (α : Type) (ts : List Lexem) := Except PErr α × Rest ts

def Op.ofStr? (s : Str) : Option Op := lookup (lowerStr s) opTable
def ArithOp.ofStr? (s : Str) : Option ArithOp := lookup (lowerStr s) arithTable
def OutputFormat.ofStr? (s : Str) : Option OutputFormat := lookup (lowerStr s) formatTable

def Op.fromWithNot (s : Str) (not : Bool) : Option Op :=
  match Op.ofStr? s with
  | some op => if not then some op.negate else some op
  | none => none

/-- `Parser::negate_expr_op`. -/
def Expr.negate : Expr → Expr
  | .field m f => .field m f
  | .val m v => .val m v
  | .func0 m f => .func0 m f
  | .func m f l args => .func m f l.negate args
  | .arith l op r => .arith l.negate op r.negate
  | .cmp l op r => .cmp l.negate op.negate r.negate
  | .logic l op r => .logic l.negate op r.negate

def skipNots : (ts : List Lexem) → Bool × Rest ts
  | .not_ :: r => let (b, r') := skipNots r; (!b, r'.lift (by simp))
  | ts => (false, Rest.refl ts)

/-- optional infix NOT after the left operand of a condition -/
def infixNot : (ts : List Lexem) → Bool × Rest ts
  | .not_ :: r => (true, ⟨r, by simp⟩)
  | ts => (false, Rest.refl ts)

def Expr.setMinus (e : Expr) (m : Bool) : Expr :=
  match e with
  | .field _ f => .field m f
  | .val _ v => .val m v
  | .func0 _ f => .func0 m f
  | .func _ f l a => .func m f l a
  | e => e

/-- boolean shorthand of `parse_cond` (`is_dir` ⇒ `is_dir = true`), active only while parsing WHERE. -/
def boolShorthand (bs : Bool) (e : Expr) : Expr :=
  if !bs then e else
  match e with
  | .field _ f => if f.isBoolean then .cmp (.field false f) .Eq (.val false (ofS "true")) else e
  | .func0 _ f => if f.isBoolean then .cmp (.func0 false f) .Eq (.val false (ofS "true")) else e
  | .func _ f l args =>
    if args.isEmpty && f.isBoolean then .cmp (.func false f l []) .Eq (.val false (ofS "true")) else e
  | e => e

inductive FnHdr (ts : List Lexem) where
  | args (curly : Bool) (r : Rest ts)
  | ret (res : Except PErr Expr) (r : Rest ts)

/-- opening bracket of a function call (the check is skipped at end of input) -/
def fnHeader (fn : Function) : (ts : List Lexem) → FnHdr ts
  | [] => .args false (Rest.refl _)
  | .open_ :: r => .args false ⟨r, by simp⟩
  | .copen :: r => .args true ⟨r, by simp⟩
  | _ :: r => if fn.isBoolean then .ret (.ok (.func0 false fn)) ⟨r, by simp⟩
              else .ret (.error (.msg "Error in function expression")) ⟨r, by simp⟩

mutual

def parseExpr (bs : Bool) (ts : List Lexem) : PR Expr ts :=
  match parseAnd bs ts with
  | (.error e, r) => (.error e, r)
  | (.ok left, ⟨r, hr⟩) =>
    match exprLoop bs none r with
    | (.error e, r2) => (.error e, r2.lift hr)
    | (.ok none, r2) => (.ok left, r2.lift hr)
    | (.ok (some right), r2) => (.ok (.logic left .Or right), r2.lift hr)
termination_by 16 * ts.length + 12

def exprLoop (bs : Bool) (right : Option Expr) (ts : List Lexem) : PR (Option Expr) ts :=
  match ts with
  | .or_ :: r =>
    match parseAnd bs r with
    | (.error e, r2) => (.error e, r2.lift (by simp))
    | (.ok e, ⟨r2, h2⟩) =>
      let right' := match right with
        | some rr => some (Expr.logic rr .Or e)
        | none => some e
      let (res, r3) := exprLoop bs right' r2
      (res, r3.lift (by simp; omega))
  | ts => (.ok right, Rest.refl ts)
termination_by 16 * ts.length + 11

def parseAnd (bs : Bool) (ts : List Lexem) : PR Expr ts :=
  match parseCond bs ts with
  | (.error e, r) => (.error e, r)
  | (.ok left, ⟨r, hr⟩) =>
    match andLoop bs none r with
    | (.error e, r2) => (.error e, r2.lift hr)
    | (.ok none, r2) => (.ok left, r2.lift hr)
    | (.ok (some right), r2) => (.ok (.logic left .And right), r2.lift hr)
termination_by 16 * ts.length + 10

def andLoop (bs : Bool) (right : Option Expr) (ts : List Lexem) : PR (Option Expr) ts :=
  match ts with
  | .and_ :: r =>
    match parseCond bs r with
    | (.error e, r2) => (.error e, r2.lift (by simp))
    | (.ok e, ⟨r2, h2⟩) =>
      let right' := match right with
        | some rr => some (Expr.logic rr .And e)
        | none => some e
      let (res, r3) := andLoop bs right' r2
      (res, r3.lift (by simp; omega))
  | ts => (.ok right, Rest.refl ts)
termination_by 16 * ts.length + 9

def parseCond (bs : Bool) (ts : List Lexem) : PR Expr ts :=
  match hn : skipNots ts with
  | (negate, ⟨t1, h1⟩) =>
  match parseAddSub bs t1 with
  | (.error e, r) => (.error e, r.lift h1)
  | (.ok left, ⟨t2, h2⟩) =>
    -- optional infix NOT
    match infixNot t2 with
    | (not, ⟨t3, h3⟩) =>
    let fin (e : Expr) (r : List Lexem) (hr : r.length ≤ t3.length) : PR Expr ts :=
      let e' := boolShorthand bs e
      (.ok (if negate then e'.negate else e'), ⟨r, by lenomega⟩)
    match ht3 : t3 with
    | .op s :: t4 =>
      have h4 : t4.length + 1 = t3.length := by lenomega
      if s == ofS "between" then
        match parseAddSub bs t4 with
        | (.error e, r) => (.error e, r.lift (by lenomega))
        | (.ok lb, ⟨t5, h5⟩) =>
          match ht5 : t5 with
          | .and_ :: t6 =>
            have h6 : t6.length + 1 = t5.length := by lenomega
            match parseAddSub bs t6 with
            | (.error e, r) => (.error e, r.lift (by lenomega))
            | (.ok rb, ⟨t7, h7⟩) =>
              let le := Expr.cmp left (if not then .Lte else .Gte) lb
              let re := Expr.cmp left (if not then .Gte else .Lte) rb
              fin (.logic le (if not then .Or else .And) re) t7 (by lenomega)
          | [] => (.error (.msg "Error parsing BETWEEN operator"), ⟨[], by simp⟩)
          | _ :: t6 =>
            have h6 : t6.length + 1 = t5.length := by lenomega
            (.error (.msg "Error parsing BETWEEN operator"), ⟨t6, by lenomega⟩)
      else
        match parseAddSub bs t4 with
        | (.error e, r) => (.error e, r.lift (by lenomega))
        | (.ok right, ⟨t5, h5⟩) =>
          match Op.fromWithNot s not with
          | none => (.error (.panic "parser.rs: Op::from_with_not(..).unwrap()"), ⟨t5, by lenomega⟩)
          | some op => fin (.cmp left op right) t5 (by lenomega)
    | _ => fin left t3 (Nat.le_refl _)
termination_by 16 * ts.length + 8

def parseAddSub (bs : Bool) (ts : List Lexem) : PR Expr ts :=
  match parseMulDiv bs ts with
  | (.error e, r) => (.error e, r)
  | (.ok left, ⟨r, hr⟩) =>
    let (res, r2) := addLoop bs left r
    (res, r2.lift hr)
termination_by 16 * ts.length + 7

def addLoop (bs : Bool) (left : Expr) (ts : List Lexem) : PR Expr ts :=
  match ts with
  | .arith s :: r =>
    match ArithOp.ofStr? s with
    | some .Add | some .Subtract =>
      match parseMulDiv bs r with
      | (.error e, r2) => (.error e, r2.lift (by simp))
      | (.ok e, ⟨r2, h2⟩) =>
        let op := if ArithOp.ofStr? s == some .Add then ArithOp.Add else ArithOp.Subtract
        let (res, r3) := addLoop bs (.arith left op e) r2
        (res, r3.lift (by simp; omega))
    | _ => (.ok left, Rest.refl _)
  | ts => (.ok left, Rest.refl ts)
termination_by 16 * ts.length + 6

def parseMulDiv (bs : Bool) (ts : List Lexem) : PR Expr ts :=
  match parseParen bs ts with
  | (.error e, r) => (.error e, r)
  | (.ok left, ⟨r, hr⟩) =>
    let (res, r2) := mulLoop bs left r
    (res, r2.lift hr)
termination_by 16 * ts.length + 5

def mulLoop (bs : Bool) (left : Expr) (ts : List Lexem) : PR Expr ts :=
  match ts with
  | .arith s :: r =>
    match ArithOp.ofStr? s with
    | some .Multiply | some .Divide | some .Modulo =>
      match parseParen bs r with
      | (.error e, r2) => (.error e, r2.lift (by simp))
      | (.ok e, ⟨r2, h2⟩) =>
        let op := match ArithOp.ofStr? s with
          | some .Multiply => ArithOp.Multiply
          | some .Divide => ArithOp.Divide
          | _ => ArithOp.Modulo
        let (res, r3) := mulLoop bs (.arith left op e) r2
        (res, r3.lift (by simp; omega))
    | _ => (.ok left, Rest.refl _)
  | ts => (.ok left, Rest.refl ts)
termination_by 16 * ts.length + 4

def parseParen (bs : Bool) (ts : List Lexem) : PR Expr ts :=
  match ts with
  | .open_ :: r =>
    match parseExpr bs r with
    | (res, ⟨r2, h2⟩) =>
      match r2 with
      | .close :: r3 => (res, ⟨r3, by simp at h2 ⊢; omega⟩)
      | [] => (.error (.msg "Unmatched parenthesis"), ⟨[], by simp⟩)
      | _ :: r3 => (.error (.msg "Unmatched parenthesis"), ⟨r3, by simp at h2 ⊢; omega⟩)
  | .copen :: r =>
    match parseExpr bs r with
    | (res, ⟨r2, h2⟩) =>
      match r2 with
      | .cclose :: r3 => (res, ⟨r3, by simp at h2 ⊢; omega⟩)
      | [] => (.error (.msg "Unmatched parenthesis"), ⟨[], by simp⟩)
      | _ :: r3 => (.error (.msg "Unmatched parenthesis"), ⟨r3, by simp at h2 ⊢; omega⟩)
  | ts => parseFuncScalar bs ts
termination_by 16 * ts.length + 3

def parseFuncScalar (bs : Bool) (ts : List Lexem) : PR Expr ts :=
  let errS : PErr := .msg "Error parsing expression, expecting string"
  match ts with
  | .arith s :: r =>
    if s == ['-'] then
      let (res, r2) := leafP bs true r
      (res, r2.lift (by simp))
    else if s == ['+'] then (.error errS, ⟨r, by simp⟩)     -- `+` is consumed, then the operator itself is matched
    else (.error errS, Rest.refl _)                          -- other operators are un-read (`drop_lexem`)
  | ts' => leafP bs false ts'
termination_by 16 * ts.length + 2

/-- leaf after an optional sign: column, function call or literal -/
def leafP (bs : Bool) (minus : Bool) (ts : List Lexem) : PR Expr ts :=
  let errS : PErr := .msg "Error parsing expression, expecting string"
  match ts with
  | [] => (.error errS, ⟨[], by simp⟩)
  | .str s :: r | .raw s :: r =>
    match Field.ofStr? s with
    | some f => (.ok (.field minus f), ⟨r, by simp⟩)
    | none =>
      match Function.ofStr? s with
      | some fn =>
        match parseFunction bs fn r with
        | (.error e, r2) => (.error e, r2.lift (by simp))
        | (.ok e, r2) => (.ok (e.setMinus minus), r2.lift (by simp))
      | none => (.ok (.val minus s), ⟨r, by simp⟩)
  | _ :: r => (.error errS, ⟨r, by simp⟩)
termination_by 16 * ts.length + 1

def parseFunction (bs : Bool) (fn : Function) (ts : List Lexem) : PR Expr ts :=
  match fnHeader fn ts with
  | .ret res r => (res, r)
  | .args curly ⟨t1, h1⟩ =>
    match parseExpr bs t1 with
    | (.error (.msg _), r) => (.ok (.func0 false fn), r.lift h1)     -- `if let Ok(Some(..)) … else return Ok(function_expr)`
    | (.error e, r) => (.error e, r.lift h1)
    | (.ok arg, ⟨t2, h2⟩) =>
      match argsLoop bs curly [] t2 with
      | (.error e, r) => (.error e, r.lift (by omega))
      | (.ok args, r) => (.ok (.func false fn arg args), r.lift (by omega))
termination_by 16 * ts.length + 13

def argsLoop (bs : Bool) (curly : Bool) (acc : List Expr) (ts : List Lexem) : PR (List Expr) ts :=
  let errF : PErr := .msg "Error in function expression"
  match ts with
  | .comma :: r =>
    match parseExpr bs r with
    | (.error (.msg _), r2) => (.error errF, r2.lift (by simp))
    | (.error e, r2) => (.error e, r2.lift (by simp))
    | (.ok e, ⟨r2, h2⟩) =>
      let (res, r3) := argsLoop bs curly (acc ++ [e]) r2
      (res, r3.lift (by simp; omega))
  | .close :: r => if !curly then (.ok acc, ⟨r, by simp⟩) else (.error errF, ⟨r, by simp⟩)
  | .cclose :: r => if curly then (.ok acc, ⟨r, by simp⟩) else (.error errF, ⟨r, by simp⟩)
  | [] => (.error errF, ⟨[], by simp⟩)
  | _ :: r => (.error errF, ⟨r, by simp⟩)
termination_by 16 * ts.length + 0

end

end Fsel
