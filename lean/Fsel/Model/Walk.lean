/-
  File-system snapshot (`Node`) and the searcher: `visit_dir`, `check_file`, `list_search_results`
  (searcher.rs:236-822,1781-1859) for roots searched without following symlinks.
  State becomes value: `WSt` is the `Searcher` record threaded through every step.
-/
import Fsel.Model.Agg
import Fsel.Model.TopN
import Fsel.Model.Output
import Fsel.Model.ParserTop

namespace Fsel

/-- A directory tree as the OS reports it.  `Entry.name/path/absPath/absDir` of the stored records are
    filled in by the walker (they depend on how the root was spelled). -/
inductive Node where
  | leaf (e : Entry) (zip : Option (List ArcInfo))        -- anything that is not a directory
  | dir (e : Entry) (listable : Bool) (kids : List Node)  -- kids in `readdir` order
  deriving Repr

def Node.entry : Node → Entry
  | .leaf e _ => e
  | .dir e _ _ => e

def calcDepth (s : Str) : Nat := if s == ['/'] then 1 else count '/' s + 1   -- D58 fix: `/` is one level above `/usr`

def joinPath (d n : Str) : Str := if endsWith d ['/'] then d ++ n else d ++ ['/'] ++ n

def childCanon (c n : Str) : Str := if c == ['/'] then c ++ n else c ++ ['/'] ++ n

structure RootParams where
  minDepth : Nat
  maxDepth : Nat
  archives : Bool
  bfs : Bool
  base : Nat               -- `base_depth`: slash count of the root's canonical path

/-- queued directory of the BFS (`dir_queue` holds paths; the model keeps what the path denotes) -/
structure QItem where
  kids : List Node
  listable : Bool
  path : Str
  canon : Str

/-- what `check_file` reads and writes: result-side state of the `Searcher` -/
structure ResSt where
  found : Nat := 0
  outRev : List Str := []                          -- chunks written to stdout so far, latest first
  buffer : List (Criteria × Str) := []             -- insertion history of `output_buffer` (arrival order)
  raw : List Memo := []                            -- raw_output_buffer
  cache : RxCache := []
  inexact : Bool := false                          -- some printed cell renders an inexact float

/-- bytes written to stdout so far -/
def ResSt.out (st : ResSt) : Str := st.outRev.reverse.flatten

/-- what only the traversal reads and writes -/
structure WalkSt where
  visited : List Nat := []                         -- visited_inodes
  errPaths : List Str := []                        -- sources named on stderr
  errCount : Nat := 0
  queue : List QItem := []
  fresh : List Nat := []                           -- (follow mode) inode numbers not yet in visited_inodes
  visitedDirs : List Str := []                     -- (follow mode) visited_dirs, canonical paths

/-- the `Searcher` record, split by who touches what (so that "check_file does not disturb the
    traversal" is a fact of the types, not a lemma) -/
structure WSt where
  res : ResSt := {}
  walk : WalkSt := {}

inductive Abort where
  | exit2 (msg : String) (out : Str)      -- `error_exit`: stdout written so far is flushed, status 2
  | unsupported (why : String)
  deriving Repr

def liftE {α : Type} (out : Unit → Str) : EM α → Except Abort α
  | .ok a => .ok a
  | .error (.exit2 m) => .error (.exit2 m (out ()))
  | .error (.unsupported w) => .error (.unsupported w)

structure Plan where
  q : Query
  cfg : Config
  kinds : List KeyKind
  le : Criteria → Criteria → Bool

def Plan.of (q : Query) (cfg : Config) : Plan :=
  let kinds := q.ordering.map keyKind
  { q := q, cfg := cfg, kinds := kinds, le := criteriaLe cfg.today kinds q.orderingAsc }

def Plan.cx (p : Plan) (rows : List Memo) : EvalCtx := { cfg := p.cfg, agg := aggregate, buffer := rows }

/-- evaluate a list of column expressions left to right, threading the memo -/
def evalColumns (cx : EvalCtx) (e? : Option Entry) : Memo → List Expr → EM (List (Str × Str × Bool) × Memo)
  | memo, [] => .ok ([], memo)
  | memo, x :: xs =>
    match columnValue cx e? memo x with
    | .error er => .error er
    | .ok (v, m1) =>
      match evalColumns cx e? m1 xs with
      | .error er => .error er
      | .ok (rest, m2) => .ok ((x.display, v.text, v.exact) :: rest, m2)

/-- `check_file` -/
def checkFile (p : Plan) (st : ResSt) (e : Entry) : Except Abort ResSt :=
  let cx := p.cx st.raw
  -- WHERE
  let pass : Except Abort (Bool × RxCache) :=
    match p.q.expr with
    | none => .ok (true, st.cache)
    | some x =>
      match liftE (fun _ => st.out) (conforms cx e st.cache x) with
      | .error a => .error a
      | .ok (.val b, c) => .ok (b, c)
      | .ok (.uncertain, _) => .error (.unsupported "comparison depends on an inexact float")
  match pass with
  | .error a => .error a
  | .ok (false, c) => .ok { st with cache := c }
  | .ok (true, c) =>
    let found := st.found + 1
    -- memo pre-filled with every column the select list needs
    let pre : Except Abort Memo := p.q.allFields.foldl (fun acc f =>
      match acc with
      | .error a => .error a
      | .ok m => match liftE (fun _ => st.out) (fieldValue p.cfg e f) with
        | .ok v => .ok (m.insert f.display v.text)
        | .error a => .error a) (.ok [])
    match pre with
    | .error a => .error a
    | .ok memo0 =>
      match liftE (fun _ => st.out) (evalColumns cx (some e) memo0 p.q.fields) with
      | .error a => .error a
      | .ok (cols, m1) =>
        -- grouping expressions are evaluated for the memo
        match liftE (fun _ => st.out) (evalColumns cx (some e) m1 (p.q.grouping.filter fun g => (m1.get? g.display).isNone)) with
        | .error a => .error a
        | .ok (_, m2) =>
          -- ordering keys
          let keys : Except Abort (List Str × Memo) := p.q.ordering.foldl (fun acc o =>
            match acc with
            | .error a => .error a
            | .ok (ks, m) =>
              match m.get? o.display with
              | some v => .ok (ks ++ [v], m)
              | none => match liftE (fun _ => st.out) (columnValue cx (some e) m o) with
                | .ok (v, m') => .ok (ks ++ [v.text], m')
                | .error a => .error a) (.ok ([], m2))
          match keys with
          | .error a => .error a
          | .ok (ks, m3) =>
            let st := { st with inexact := st.inexact || cols.any (fun c => !c.2.2) }
            let row := fmtRow p.q.format (cols.map fun c => (c.1, c.2.1))
            if p.q.isBuffered then
              let crit : Criteria := ⟨ks⟩
              .ok { st with cache := c, found := found,
                            buffer := st.buffer ++ [(crit, row)],
                            raw := if p.q.hasAggregateColumn then st.raw ++ [m3] else st.raw }
            else
              let sep := if found > 1 then fmtSeparator p.q.format else []
              .ok { st with cache := c, found := found, outRev := (sep ++ row) :: st.outRev }

def limitReached (p : Plan) (st : ResSt) : Bool :=
  !p.q.isBuffered && p.q.limit > 0 && p.q.limit ≤ st.found

/-- archive member loop of `visit_dir` -/
def checkMembers (p : Plan) (st : ResSt) (e : Entry) : List ArcInfo → Except Abort ResSt
  | [] => .ok st
  | a :: as =>
    if limitReached p st then .ok st
    else match checkFile p st { e with arc := some a } with
      | .error x => .error x
      | .ok st' => checkMembers p st' e as

def fillEntry (e : Entry) (dirPath dirCanon : Str) (linkCanon : Option Str) : Entry :=
  { e with path := joinPath dirPath e.name,
           absPath := if e.kind == 'l' then linkCanon else some (childCanon dirCanon e.name),
           absDir := some dirCanon }

/-- `ok_to_visit_dir` for a root searched without `symlinks`: the inode of every directory *and every
    symlink* met below the depth limit is recorded; only real directories not seen before are entered. -/
def okToVisit (w : WalkSt) (e : Entry) : Bool × WalkSt :=
  if w.visited.contains e.ino then (false, w)
  else (e.kind != 'l', { w with visited := w.visited ++ [e.ino] })

/-- report step of `visit_dir` for one entry: `check_file`, then the archive member loop -/
def reportEntry (p : Plan) (rp : RootParams) (depth : Nat) (n : Node) (e : Entry) (rs : ResSt) : Except Abort ResSt :=
  if rp.minDepth == 0 || depth ≥ rp.minDepth then
    match checkFile p rs e with
    | .error a => .error a
    | .ok s =>
      match n with
      | .leaf _ (some members) =>
        if rp.archives && hasExtension e.path p.cfg.zipExts then checkMembers p s e members else .ok s
      | _ => .ok s
  else .ok rs

mutual
/-- entries of one directory, depth-first: `visit_dir` with `traversal = Dfs` -/
def visitKidsD (p : Plan) (rp : RootParams) (dirPath dirCanon : Str) (depth : Nat) (st : WSt) :
    List Node → Except Abort WSt
  | [] => .ok st
  | n :: rest =>
    if limitReached p st.res then .ok st else
    let e := fillEntry n.entry dirPath dirCanon n.entry.absPath
    match reportEntry p rp depth n e st.res with
    | .error a => .error a
    | .ok r1 =>
      let s1 : WSt := { st with res := r1 }
      -- descend
      if rp.maxDepth == 0 || depth < rp.maxDepth then
        match n with
        | .dir de listable kids =>
          let (ok, w2) := okToVisit s1.walk de
          let s2 : WSt := { s1 with walk := w2 }
          if ok then
            match visitDirD p rp e.path (childCanon dirCanon de.name) listable kids s2 with
            | .error a => .error a
            | .ok s3 => visitKidsD p rp dirPath dirCanon depth s3 rest
          else visitKidsD p rp dirPath dirCanon depth s2 rest
        | .leaf le _ =>
          if le.kind == 'l' then visitKidsD p rp dirPath dirCanon depth { s1 with walk := (okToVisit s1.walk le).2 } rest
          else visitKidsD p rp dirPath dirCanon depth s1 rest
      else visitKidsD p rp dirPath dirCanon depth s1 rest

/-- `visit_dir` (DFS) for a directory whose canonical path is `canon` -/
def visitDirD (p : Plan) (rp : RootParams) (path canon : Str) (listable : Bool) (kids : List Node) (st : WSt) :
    Except Abort WSt :=
  let depth := calcDepth canon - rp.base + 1
  if !listable then
    .ok { st with walk := { st.walk with errCount := st.walk.errCount + 1, errPaths := st.walk.errPaths ++ [path] } }
  else visitKidsD p rp path canon depth st kids
end

/-- entries of one directory, breadth-first: sub-directories are queued -/
def visitKidsB (p : Plan) (rp : RootParams) (dirPath dirCanon : Str) (depth : Nat) (st : WSt) :
    List Node → Except Abort WSt
  | [] => .ok st
  | n :: rest =>
    if limitReached p st.res then .ok st else
    let e := fillEntry n.entry dirPath dirCanon n.entry.absPath
    match reportEntry p rp depth n e st.res with
    | .error a => .error a
    | .ok r1 =>
      let s1 : WSt := { st with res := r1 }
      if rp.maxDepth == 0 || depth < rp.maxDepth then
        match n with
        | .dir de listable kids =>
          let (ok, w2) := okToVisit s1.walk de
          let w3 := if ok then { w2 with queue := w2.queue ++ [⟨kids, listable, e.path, childCanon dirCanon de.name⟩] } else w2
          visitKidsB p rp dirPath dirCanon depth { s1 with walk := w3 } rest
        | .leaf le _ =>
          if le.kind == 'l' then visitKidsB p rp dirPath dirCanon depth { s1 with walk := (okToVisit s1.walk le).2 } rest
          else visitKidsB p rp dirPath dirCanon depth s1 rest
      else visitKidsB p rp dirPath dirCanon depth s1 rest

def visitDirB (p : Plan) (rp : RootParams) (it : QItem) (st : WSt) : Except Abort WSt :=
  let depth := calcDepth it.canon - rp.base + 1
  if !it.listable then
    .ok { st with walk := { st.walk with errCount := st.walk.errCount + 1, errPaths := st.walk.errPaths ++ [it.path] } }
  else visitKidsB p rp it.path it.canon depth st it.kids

/-- `while !self.dir_queue.is_empty()`; `fuel` bounds the number of directories (proved sufficient
    when it exceeds the number of directories of the tree) -/
def drainQueue (p : Plan) (rp : RootParams) : Nat → WSt → Except Abort WSt
  | 0, st => .ok st
  | fuel + 1, st =>
    match st.walk.queue with
    | [] => .ok st
    | it :: q =>
      match visitDirB p rp it { st with walk := { st.walk with queue := q } } with
      | .error a => .error a
      | .ok st' => drainQueue p rp fuel st'

mutual
def Node.countDirs : Node → Nat
  | .leaf _ _ => 0
  | .dir _ _ kids => 1 + Node.countDirsList kids
def Node.countDirsList : List Node → Nat
  | [] => 0
  | n :: ns => n.countDirs + Node.countDirsList ns
end

/-- how a root path of the query resolves in the snapshot -/
inductive RootRes where
  | dir (e : Entry) (listable : Bool) (kids : List Node) (canon : Str)
  | notDir (e : Entry) (canon : Str)         -- exists but is no directory: `read_dir` fails
  | missing                                   -- canonicalize fails
  deriving Repr

def markVisited (w : WalkSt) (ino : Nat) : WalkSt :=
  if w.visited.contains ino then w else { w with visited := w.visited ++ [ino] }

def rootParams (root : Root) (canon : Str) : RootParams :=
  { minDepth := root.options.minDepth, maxDepth := root.options.maxDepth, archives := root.options.archives,
    bfs := root.options.traversal == .bfs, base := calcDepth canon }

/-- one root of `list_search_results` (symlinks = false, no ignore files) -/
def searchRoot (p : Plan) (root : Root) (res : RootRes) (st : WSt) : Except Abort WSt :=
  let st : WSt := { st with walk := { st.walk with queue := [] } }
  match res with
  | .missing => .ok { st with walk := { st.walk with errCount := st.walk.errCount + 1, errPaths := st.walk.errPaths ++ [root.path] } }
  | .notDir e _ =>
    let w := markVisited st.walk e.ino
    .ok { st with walk := { w with errCount := w.errCount + 1, errPaths := w.errPaths ++ [root.path] } }
  | .dir e listable kids canon =>
    let st : WSt := { st with walk := markVisited st.walk e.ino }
    let rp := rootParams root canon
    if rp.bfs then
      match visitDirB p rp ⟨kids, listable, root.path, canon⟩ st with
      | .error a => .error a
      | .ok st' => drainQueue p rp (Node.countDirsList kids + 1) st'
    else visitDirD p rp root.path canon listable kids st

/-- result rows of a grouped aggregate query -/
def groupedRows (p : Plan) (rows : List Memo) : EM (List (List (Str × Str) × Bool)) :=
  let keys := p.q.grouping.map Expr.display
  let parts := partitionRows keys rows
  parts.mapM fun (kvals, grp) =>
    let memo0 : Memo := (keys.zip kvals).foldl (fun m (k, v) => m.insert k v) []
    match evalColumns (p.cx grp) none memo0 p.q.fields with
    | .error e => .error e
    | .ok (cols, _) =>
      .ok (cols.map (fun c => (lowerRustStr c.1, c.2.1)), cols.any (fun c => !c.2.2))
where
  lowerRustStr (s : Str) : Str := toLowerRust s

/-- stable merge sort by an explicit comparison (`slice::sort_by` is stable) -/
def insertSorted {α : Type} (le : α → α → Bool) (x : α) : List α → List α
  | [] => [x]
  | y :: ys => if le y x then y :: insertSorted le x ys else x :: y :: ys

def stableSort {α : Type} (le : α → α → Bool) (l : List α) : List α := l.foldl (fun acc x => insertSorted le x acc) []

/-- `f64::total_cmp` on parsed cells: -inf < finite < +inf < NaN (the cells never carry a sign bit on NaN) -/
def numTotalCmp : Num → Num → Ordering
  | .nan, .nan => .eq
  | .nan, _ => .gt
  | _, .nan => .lt
  | .fin a _, .fin b _ => if a < b then .lt else if a == b then .eq else .gt
  | .inf, .inf | .ninf, .ninf => .eq
  | .inf, _ | _, .ninf => .gt
  | .ninf, _ | _, .inf => .lt

/-- integers exactly; an integer spelling before a non-integer spelling of the same value -/
def intKeyCmp (x y : Str) : Ordering :=
  match parseI64? x, parseI64? y with
  | some m, some n => ordOfBool (m < n) (m == n)
  | some _, none => .lt
  | none, some _ => .gt
  | none, none => .eq

/-- comparison of two cells of grouped rows (D80 fix: a total order): numbers by value and before everything
    that is no number; cells of equal value: integers exactly, an integer before a non-integer spelling, then as text -/
def cellCmp (x y : Str) : Ordering :=
  match parseF64? x, parseF64? y with
  | some u, some v =>
    let o := numTotalCmp u v
    if o != .eq then o else
    let o2 := intKeyCmp x y
    if o2 != .eq then o2 else cmpText x y
  | some _, none => .lt
  | none, some _ => .gt
  | none, none => cmpText x y

/-- `sort_by` of grouped rows: per key `cellCmp`, reversed for `desc` -/
def groupedCmp (idxs : List Nat) (asc : List Bool) (a b : List (Str × Str)) : Ordering :=
  match idxs, asc with
  | i :: is, d :: ds =>
    let x := (a[i]?.map (·.2)).getD []
    let y := (b[i]?.map (·.2)).getD []
    let o := cellCmp x y
    let o := if d then o else ordRev o
    if o != .eq then o else groupedCmp is ds a b
  | _, _ => .eq

/-- `TopN` as a function of its insertion history (echelon layer, util/top_n.rs) -/
def insertAll {K V : Type} (le : K → K → Bool) (limit : Nat) (xs : List (K × V)) : TopNState K V :=
  xs.foldl (fun t x => t.insert le x.1 x.2) (TopNState.new limit)

/-- the ordered result: what `output_buffer.values()` yields after all rows were inserted -/
def orderedPieces (p : Plan) (st : ResSt) : List Str := (insertAll p.le p.q.limit st.buffer).values

/-- sizes of the maximal runs of adjacent rows that compare equal (their relative order is the
    HashMap's and therefore unspecified) -/
def tieRuns {α : Type} (eqv : α → α → Bool) : List α → List Nat
  | [] => []
  | x :: xs => go x 1 xs
where
  go (prev : α) (n : Nat) : List α → List Nat
    | [] => [n]
    | y :: ys => if eqv prev y then go y (n + 1) ys else n :: go y 1 ys

/-- LIMIT over grouped rows (D85 fix: it used to be ignored there), on the tie runs of the sorted rows: the runs that are
    shown, the last one kept whole, and how many rows of that last run are shown (0 = all of it).  Which rows of a run
    that straddles the cut are shown depends on the hash order of the groups, which the model does not know. -/
def cutRuns : Nat → List Nat → List Nat × Nat
  | _, [] => ([], 0)
  | lim, r :: rs =>
    if lim < r then ([r], lim)
    else if lim == r then ([r], 0)
    else let (k, c) := cutRuns (lim - r) rs; (r :: k, c)

/-- number of rows a grouped query prints -/
def groupedShown (lim n : Nat) : Nat := if lim == 0 then n else min lim n

/-- everything after the roots have been searched: buffered rows, aggregates, footer -/
def finish (p : Plan) (st : ResSt) : Except Abort (Str × Bool × List Nat) :=
  let fmt := p.q.format
  if p.q.hasAggregateColumn then
    if !p.q.grouping.isEmpty then
      match liftE (fun _ => st.out) (groupedRows p st.raw) with
      | .error a => .error a
      | .ok rowsX =>
        let inex := rowsX.any (·.2)
        let rows := rowsX.map (·.1)
        let names := p.q.fields.map fun f => toLowerRust f.display
        let idxs := p.q.ordering.map fun o => (names.findIdx? (· == toLowerRust o.display)).getD 0
        let rows :=
          if p.q.ordering.isEmpty then rows
          else stableSort (fun a b => groupedCmp idxs p.q.orderingAsc a b != .gt) rows
        let ties := if p.q.ordering.isEmpty then [rows.length]
                    else tieRuns (fun a b => groupedCmp idxs p.q.orderingAsc a b == .eq) rows
        let (ties, cut) := if p.q.limit == 0 then (ties, 0) else cutRuns p.q.limit ties
        let rows := rows.take ties.sum
        let body := (rows.zipIdx.map fun (r, i) => (if i > 0 then fmtSeparator fmt else []) ++ fmtRow fmt r).flatten
        .ok (st.out ++ body ++ fmtFooter fmt, st.inexact || inex, if cut == 0 then ties else ties ++ [0, cut])
    else
      match liftE (fun _ => st.out) (evalColumns (p.cx st.raw) none [] p.q.fields) with
      | .error a => .error a
      | .ok (cols, _) =>
        .ok (st.out ++ fmtRow fmt (cols.map fun c => (toLowerRust c.1, c.2.1)) ++ fmtFooter fmt,
             st.inexact || cols.any (fun c => !c.2.2), [])
  else if p.q.isBuffered then
    let pieces := orderedPieces p st
    .ok (st.out ++ joinWith (fmtSeparator fmt) pieces ++ fmtFooter fmt, st.inexact, [])
  else .ok (st.out ++ fmtFooter fmt, st.inexact, [])

end Fsel
