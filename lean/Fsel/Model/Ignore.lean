/-
  Ignore files: `.hgignore` (ignore/hg.rs), `.dockerignore` (ignore/docker.rs) and the verdict of libgit2
  for `.gitignore` (external: a snapshot fact per entry), as `visit_dir` applies them — after the fixes of
  D48–D54, D64, D65.  An ignored entry is skipped whole: not reported, not descended into, its inode number
  not recorded.  Walking with ignore rules is therefore walking the tree from which the ignored nodes have
  been removed (`prune`), and the model is defined that way: everything proved about the walker (C01, C17)
  applies to the pruned tree unchanged.
-/
import Fsel.Model.Follow

namespace Fsel

/-- the glob-to-regex replacement shared by hg and docker: `**/`, `**`, `?`, `.`, `*` -/
def globConv (q : Str) : Str → Str
  | [] => []
  | '*' :: '*' :: '/' :: r => ofS "(.*/)?" ++ globConv q r
  | '*' :: '*' :: r => ofS ".*" ++ globConv q r
  | '?' :: r => q ++ globConv q r
  | '.' :: r => ['\\', '.'] ++ globConv q r
  | '*' :: r => ofS "[^/]*" ++ globConv q r
  | c :: r => c :: globConv q r

def escapePath (p : Str) : Str := p.flatMap regexEscape

inductive HgSyntax where
  | regexp | glob
  deriving DecidableEq, Repr

/-- `convert_hgignore_glob` / `convert_hgignore_regexp`: the regex text for one pattern line -/
def hgPatternText (repo : Str) (syn : HgSyntax) (line : Str) : Str :=
  match syn with
  | .glob => escapePath repo ++ ofS "/([^/]+/)*" ++ globConv (ofS "[^/]") line ++ ofS "(/|$)"
  | .regexp =>
    if startsWith line ['^'] then escapePath repo ++ ['/'] ++ line.dropWhile (· == '^')
    else escapePath repo ++ ofS "/([^/]+/)*" ++ ofS ".*" ++ line

/-- lines of an ignore file as `BufRead::lines` yields them, minus blank lines and comments -/
def ignoreLines (content : Str) : List Str :=
  ((splitChar '\n' content).map fun l => if endsWith l ['\r'] then l.dropLast else l).filter
    fun l => !(trim l).isEmpty && !startsWith l ['#']

inductive IgnParse (α : Type) where
  | ok (v : α)
  | unsupported (why : String)

/-- `parse_hgignore`: the compiled patterns in file order -/
def parseHgignore (repo : Str) (content : Str) : IgnParse (List Re) :=
  go (ignoreLines content) .regexp []
where
  go : List Str → HgSyntax → List Re → IgnParse (List Re)
    | [], _, acc => .ok acc
    | l :: ls, syn, acc =>
      if startsWith l (ofS "syntax:") then
        let d := trim (replaceAll l (ofS "syntax:") [])
        if d == ofS "regexp" then go ls .regexp acc
        else if d == ofS "glob" then go ls .glob acc
        else .unsupported "hgignore: bad syntax directive (message on stderr)"
      else if startsWith l (ofS "subinclude:") then .unsupported "hgignore: subinclude"
      else
        match rxParse (hgPatternText repo syn l) with
        | .ok re => go ls syn (acc ++ [re])
        | .invalid => .unsupported "hgignore: pattern does not compile (message on stderr)"
        | .unsupported => .unsupported "hgignore: regex outside the modelled fragment"

/-- `matches_hgignore_filter`: any pattern matches -/
def hgVerdict (filters : List Re) (path : Str) : Bool := filters.any fun r => r.isMatch path

/-- `convert_dockerignore_pattern`: (regex text, negated) -/
def dockerPatternText (root : Str) (line : Str) : Str × Bool :=
  let neg := startsWith line ['!']
  let p0 := if neg then line.filter (· != '!') else line
  -- leading separators are dropped from the glob before it is converted (D72 fix)
  let p1 := globConv (ofS "[^/]") (p0.dropWhile (fun c => c == '/' || c == '\\'))
  let p2 := (p1.reverse.dropWhile (· == '/')).reverse
  (['^'] ++ escapePath root ++ ['/'] ++ p2 ++ ofS "(/|$)", neg)

def parseDockerignore (root : Str) (content : Str) : IgnParse (List (Re × Bool)) :=
  go (ignoreLines content) []
where
  go : List Str → List (Re × Bool) → IgnParse (List (Re × Bool))
    | [], acc => .ok acc
    | l :: ls, acc =>
      let (txt, neg) := dockerPatternText root l
      match rxParse txt with
      | .ok re => go ls (acc ++ [(re, neg)])
      | .invalid => .unsupported "dockerignore: pattern does not compile (message on stderr)"
      | .unsupported => .unsupported "dockerignore: regex outside the modelled fragment"

/-- `matches_dockerignore_filter` (after the D53 fix): every matching pattern overwrites the verdict -/
def dockerVerdict (filters : List (Re × Bool)) (path : Str) : Bool :=
  let p := replaceAll (path.map fun c => if c == '\\' then '/' else c) ['/', '/'] ['/']
  filters.foldl (fun acc (f : Re × Bool) => if f.1.isMatch p then !f.2 else acc) false

/-- the rules in force for one root -/
structure IgnoreSet where
  git : Bool := false                       -- a repository was discovered and `gitignore` applies
  hg : Option (List Re) := none             -- `hgignore` applies (the patterns found upstream, possibly none)
  docker : Option (List (Re × Bool)) := none

/-- `pass_ignores` negated.  The path examined is the entry's own location: the canonical path of its
    directory plus its name (D78 fix: a symbolic link is not judged by its target, a dangling link not by
    its spelling); git's verdict is an input. -/
def IgnoreSet.ignored (ig : IgnoreSet) (e : Entry) : Bool :=
  let canon := match e.absDir with
    | some d => childCanon d e.name
    | none => e.path
  (ig.git && e.gitIgnored) ||
  (match ig.hg with | some fs => hgVerdict fs canon | none => false) ||
  (match ig.docker with | some fs => dockerVerdict fs canon | none => false)

-- the tree without the ignored entries (and everything below an ignored directory)
mutual
def pruneN (ig : IgnoreSet) (dirPath dirCanon : Str) : Node → Option Node
  | .leaf le z => if ig.ignored (fillEntry le dirPath dirCanon le.absPath) then none else some (.leaf le z)
  | .dir de l kids =>
    if ig.ignored (fillEntry de dirPath dirCanon de.absPath) then none
    else some (.dir de l (pruneL ig (joinPath dirPath de.name) (childCanon dirCanon de.name) kids))
def pruneL (ig : IgnoreSet) (dirPath dirCanon : Str) : List Node → List Node
  | [] => []
  | n :: ns =>
    match pruneN ig dirPath dirCanon n with
    | some n' => n' :: pruneL ig dirPath dirCanon ns
    | none => pruneL ig dirPath dirCanon ns
end

/-- option, configuration default and `no…` override: `root.options.x.unwrap_or(config.x.unwrap_or(false))` -/
def ignoreApplies (opt cfg : Option Bool) : Bool := opt.getD (cfg.getD false)

/-- ancestors of a canonical path, nearest first, starting with the path itself -/
def ancestorsOf (canon : Str) : List Str :=
  let cs := pathComps canon
  (List.range (cs.length + 1)).map fun k => joinComps (cs.take (cs.length - k))

def fileText (cx : FCtx) (canon : Str) : Option (Option Str) :=
  -- some (some text): a regular file whose text is in the snapshot; some none: a regular file without text
  match cx.nodeAt canon with
  | some (.leaf e _) => if e.kind == 'f' then some e.text else none
  | _ => none

def isDirAt (cx : FCtx) (canon : Str) : Bool :=
  match cx.nodeAt canon with
  | some (.dir _ _ _) => true
  | _ => false

/-- `search_upstream_hgignore`: the nearest ancestor with both `.hgignore` (a file) and `.hg` (a directory) -/
def findHg (cx : FCtx) (rootCanon : Str) : IgnParse (List Re) :=
  go (ancestorsOf rootCanon)
where
  go : List Str → IgnParse (List Re)
    | [] => .ok []
    | d :: ds =>
      match fileText cx (childCanon d (ofS ".hgignore")) with
      | some t =>
        if isDirAt cx (childCanon d (ofS ".hg")) then
          match t with
          | some txt => parseHgignore d txt
          | none => .unsupported "hgignore: content not in the snapshot"
        else go ds
      | none => go ds

/-- `search_upstream_dockerignore`: the nearest ancestor with a `.dockerignore` file -/
def findDocker (cx : FCtx) (rootCanon : Str) : IgnParse (List (Re × Bool)) :=
  go (ancestorsOf rootCanon)
where
  go : List Str → IgnParse (List (Re × Bool))
    | [] => .ok []
    | d :: ds =>
      match fileText cx (childCanon d (ofS ".dockerignore")) with
      | some (some txt) => parseDockerignore d txt
      | some none => .unsupported "dockerignore: content not in the snapshot"
      | none => go ds

end Fsel
