/-
  `main` / `exec_search` (main.rs) on a file-system snapshot: argv → outcome.
-/
import Fsel.Model.Walk

namespace Fsel

structure FSnap where
  rootCanon : Str      -- canonical absolute path of the snapshot's top directory
  top : Node           -- must be a `Node.dir`
  cwd : Str            -- canonical absolute path of the working directory (inside the snapshot)
  deriving Repr

inductive Outcome where
  | exit (code : Nat) (out : Str) (errPaths : List Str) (inexact : Bool) (ties : List Nat)
  | unsupported (why : String)
  deriving Repr

def pathComps (p : Str) : List Str := (splitChar '/' p).filter (!·.isEmpty)

/-- lexical normalisation of `.` and `..` (valid when no component is a symlink) -/
def normComps : List Str → List Str → List Str
  | acc, [] => acc
  | acc, c :: cs =>
    if c == ['.'] then normComps acc cs
    else if c == ['.', '.'] then normComps acc.dropLast cs
    else normComps (acc ++ [c]) cs

def findKid (name : Str) : List Node → Option Node
  | [] => none
  | n :: ns => if n.entry.name == name then some n else findKid name ns

/-- descend from a node along components; `some none` = does not exist; `none` = a symlink on the way
    (outside the fragment handled here) -/
def descend : List Str → Node → Option (Option Node)
  | [], n => some (some n)
  | c :: cs, .dir _ _ kids =>
    match findKid c kids with
    | none => some none
    | some k => if k.entry.kind == 'l' then none else descend cs k
  | _ :: _, .leaf _ _ => some none

def isPrefixComps : List Str → List Str → Option (List Str)
  | [], r => some r
  | _ :: _, [] => none
  | a :: as, b :: bs => if a == b then isPrefixComps as bs else none

def joinComps (cs : List Str) : Str := if cs.isEmpty then ['/'] else cs.flatMap (fun c => '/' :: c)

/-- resolve a root path of the query against the snapshot -/
def resolveRoot (fs : FSnap) (path : Str) : Except String RootRes :=
  let abs := if startsWith path ['/'] then pathComps path else pathComps fs.cwd ++ pathComps path
  let norm := normComps [] abs
  match isPrefixComps (pathComps fs.rootCanon) norm with
  | none => .error "root outside the snapshot"
  | some rel =>
    match descend rel fs.top with
    | none => .error "symlink in root path"
    | some none => .ok .missing
    | some (some (.dir e l kids)) => .ok (.dir e l kids (joinComps norm))
    | some (some (.leaf e _)) => .ok (.notDir e (joinComps norm))

def searchRoots (p : Plan) (fs : FSnap) : List Root → WSt → Except Abort WSt
  | [], st => .ok st
  | r :: rs, st =>
    if r.options.regexp then .error (.unsupported "regexp root")
    else if r.options.symlinks then .error (.unsupported "symlinks root option (see Follow.lean)")
    else if r.options.gitignore.getD (p.cfg.gitignore.getD false) || r.options.hgignore.getD (p.cfg.hgignore.getD false)
            || r.options.dockerignore.getD (p.cfg.dockerignore.getD false) then .error (.unsupported "ignore files (see Ignore.lean)")
    else
      match resolveRoot fs r.path with
      | .error w => .error (.unsupported w)
      | .ok res =>
        match searchRoot p r res st with
        | .error a => .error a
        | .ok st' => searchRoots p fs rs st'

/-- `exec_search` -/
def execSearch (fs : FSnap) (cfg : Config) (args : List Str) : Outcome :=
  match parseQuery args with
  | .error (.msg _) => .exit 2 [] [ofS "query"] false []
  | .error (.unsupported w) => .unsupported w
  | .ok q =>
    let p := Plan.of q cfg
    let st0 : WSt := { res := { outRev := [fmtHeader q.format] } }
    match searchRoots p fs q.roots st0 with
    | .error (.exit2 _ out) => .exit 2 out [] false []
    | .error (.unsupported w) => .unsupported w
    | .ok st =>
      match finish p st.res with
      | .error (.exit2 _ out) => .exit 2 out st.walk.errPaths false []
      | .error (.unsupported w) => .unsupported w
      | .ok (out, inex, ties) => .exit (if st.walk.errCount > 0 then 1 else 0) out st.walk.errPaths inex ties

/-- `main`: only plain queries are modelled (no `help`/`version`/`-i`/`-c`/`nocolor` pre-processing) -/
def runMain (fs : FSnap) (cfg : Config) (argv : List Str) : Outcome :=
  match argv with
  | [] => .unsupported "usage"
  | a :: _ =>
    let f := lowerStr a
    if containsSub f (ofS "version") || startsWith f ['-'] || containsSub f (ofS "help") || startsWith f (ofS "/?")
       || startsWith f (ofS "/h") || containsSub f (ofS "nocolor") || containsSub f (ofS "no-color")
       || startsWith f (ofS "/i") || startsWith f (ofS "/c") then .unsupported "command-line option"
    else execSearch fs cfg argv

end Fsel
