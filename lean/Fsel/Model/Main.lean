/-
  `main` / `exec_search` (main.rs) on a file-system snapshot: argv → outcome.
-/
import Fsel.Model.Ignore

namespace Fsel

structure FSnap where
  rootCanon : Str      -- canonical absolute path of the snapshot's top directory
  top : Node           -- must be a `Node.dir`
  cwd : Str            -- canonical absolute path of the working directory (inside the snapshot)
  deriving Repr

inductive Outcome where
  | exit (code : Nat) (out : Str) (errPaths : List Str) (inexact : Bool) (ties : List Nat)
  | unsupported (why : String)
  deriving Repr

/-- resolve a root path of the query against the snapshot -/
def resolveRoot (fs : FSnap) (path : Str) : Except String RootRes :=
  let abs := if startsWith path ['/'] then pathComps path else pathComps fs.cwd ++ pathComps path
  let norm := normComps [] abs
  match isPrefixComps (pathComps fs.rootCanon) norm with
  | none => .error "root outside the snapshot"
  | some rel =>
    match descend rel fs.top with
    | none => .error "symlink in root path"
    | some none => .ok .missing
    | some (some (.dir e l kids)) => .ok (.dir e l kids (joinComps norm))
    | some (some (.leaf e _)) => .ok (.notDir e (joinComps norm))

/-- with `symlinks` the metadata of an entry is read through the link; the model covers the columns that do
    not depend on it -/
def followColumnsOK (q : Query) : Bool :=
  let ok (f : Field) : Bool := f == .Name || f == .Path || f == .Extension || f == .Directory || f == .AbsPath || f == .AbsDir
  (q.fields ++ q.grouping ++ q.ordering ++ (match q.expr with | some e => [e] | none => [])).all
    fun e => e.requiredFields.all ok

def searchRoots (p : Plan) (fs : FSnap) (multi : Bool) : List Root → WSt → Except Abort WSt
  | [], st => .ok st
  | r :: rs, st =>
    if r.options.regexp then .error (.unsupported "regexp root")
    else
      match resolveRoot fs r.path with
      | .error w => .error (.unsupported w)
      | .ok res =>
        let useGit := ignoreApplies r.options.gitignore p.cfg.gitignore
        let useHg := ignoreApplies r.options.hgignore p.cfg.hgignore
        let useDocker := ignoreApplies r.options.dockerignore p.cfg.dockerignore
        let run : Except Abort WSt :=
          if useGit || useHg || useDocker then
            if r.options.symlinks then .error (.unsupported "ignore files together with symlinks")
            else if multi then .error (.unsupported "ignore files with several roots (filters accumulate)")
            else
              match res with
              | .dir e l kids canon =>
                let cx : FCtx := ⟨fs.top, fs.rootCanon⟩
                let hg? : IgnParse (Option (List Re)) := if useHg then (match findHg cx canon with | .ok v => .ok (some v) | .unsupported w => .unsupported w) else .ok none
                let dk? : IgnParse (Option (List (Re × Bool))) := if useDocker then (match findDocker cx canon with | .ok v => .ok (some v) | .unsupported w => .unsupported w) else .ok none
                match hg?, dk? with
                | .unsupported w, _ | _, .unsupported w => .error (.unsupported w)
                | .ok hg, .ok dk =>
                  let ig : IgnoreSet := { git := useGit, hg := hg, docker := dk }
                  -- a root below a directory that Mercurial ignores is ignored as a whole (D71 fix): `visit_dir`
                  -- returns before listing it
                  let rootHgIgnored := match hg with
                    | some fs => (ancestorsOf canon).any (hgVerdict fs)
                    | none => false
                  if rootHgIgnored then searchRoot p r (.dir e true [] canon) st
                  else searchRoot p r (.dir e l (pruneL ig r.path canon kids) canon) st
              | other => searchRoot p r other st
          else if r.options.symlinks then
            if !followColumnsOK p.q then .error (.unsupported "symlinks: columns read through the link (metadata follows links)")
            else
              let st1 : WSt := match res with
                | .dir e _ _ _ => { st with walk := { st.walk with fresh := st.walk.fresh.erase e.ino } }
                | _ => st
              searchRootFollow ⟨fs.top, fs.rootCanon⟩ p r res st1
          else searchRoot p r res st
        match run with
        | .error a => .error a
        | .ok st' => searchRoots p fs multi rs st'

/-- `exec_search` -/
def execSearch (fs : FSnap) (cfg : Config) (args : List Str) : Outcome :=
  match parseQuery args with
  | .error (.msg _) => .exit 2 [] [ofS "query"] false []
  | .error (.unsupported w) => .unsupported w
  | .ok q =>
    let p := Plan.of q cfg
    let st0 : WSt := { res := { outRev := [fmtHeader q.format] }, walk := { fresh := fs.top.inodes.eraseDups } }
    match searchRoots p fs (q.roots.length > 1) q.roots st0 with
    | .error (.exit2 _ out) => .exit 2 out [] false []
    | .error (.unsupported w) => .unsupported w
    | .ok st =>
      match finish p st.res with
      | .error (.exit2 _ out) => .exit 2 out st.walk.errPaths false []
      | .error (.unsupported w) => .unsupported w
      | .ok (out, inex, ties) => .exit (if st.walk.errCount > 0 then 1 else 0) out st.walk.errPaths inex ties

/-- `main`: only plain queries are modelled (no `help`/`version`/`-i`/`-c`/`nocolor` pre-processing) -/
def runMain (fs : FSnap) (cfg : Config) (argv : List Str) : Outcome :=
  match argv with
  | [] => .unsupported "usage"
  | a :: _ =>
    let f := lowerStr a
    if containsSub f (ofS "version") || startsWith f ['-'] || containsSub f (ofS "help") || startsWith f (ofS "/?")
       || startsWith f (ofS "/h") || containsSub f (ofS "nocolor") || containsSub f (ofS "no-color")
       || startsWith f (ofS "/i") || startsWith f (ofS "/c") then .unsupported "command-line option"
    else execSearch fs cfg argv

end Fsel
