/-
  Evaluation: `get_field_value`, `get_column_expr_value` (with the per-row memo `file_map`),
  `get_function_value`, `conforms` (with the shared `regex_cache`).  searcher.rs:824-936,962-2147.
-/
import Fsel.Model.Funcs
import Fsel.Model.Rx
import Fsel.Model.Parser

namespace Fsel

/-- member of a zip archive (`FileInfo`) -/
structure ArcInfo where
  name : Str
  size : Nat
  mode : Option Nat
  modified : Option Int        -- local naive seconds, as `to_local_datetime` computes them
  deriving Repr

/-- what the OS and the file content say about one directory entry (supplied by the snapshot) -/
structure Entry where
  name : Str
  path : Str                       -- `entry.path()` as text
  absPath : Option Str             -- `canonicalize(entry.path())`
  absDir : Option Str              -- `canonicalize(parent)`
  kind : Char                      -- f d l p s c b
  size : Nat
  mode : Nat
  uid : Nat
  gid : Nat
  nlink : Nat
  ino : Nat
  dev : Nat
  blocks : Nat
  mtime : Int                      -- local naive seconds
  user : Option Str := none
  group : Option Str := none
  lineCount : Option Nat := none   -- newline bytes (reader follows links; none = cannot be read)
  shebang : Bool := false
  sha1 : Str := []
  sha256 : Str := []
  sha512 : Str := []
  sha3 : Str := []
  text : Option Str := none        -- content if UTF-8 (for CONTAINS)
  dirEmpty : Option Bool := none
  hasXattrs : Option Bool := none
  caps : Str := []
  xattrs : List (Str × Option Str) := []
  hasCapsXattr : Option Bool := none
  arc : Option ArcInfo := none
  unreadable : Bool := false       -- the content cannot be opened (permission denied, dangling link)
  linkTarget : Option Str := none  -- `read_link` of a symbolic link (raw text)
  gitIgnored : Bool := false       -- libgit2's `is_path_ignored` for the entry (external: snapshot fact)
  deriving Repr

structure Config where
  zipExts : List Str := default_is_zip_archive
  archive : List Str := default_is_archive
  audio : List Str := default_is_audio
  book : List Str := default_is_book
  doc : List Str := default_is_doc
  font : List Str := default_is_font
  image : List Str := default_is_image
  source : List Str := default_is_source
  video : List Str := default_is_video
  sizeFormat : Str := []
  gitignore : Option Bool := some false
  hgignore : Option Bool := some false
  dockerignore : Option Bool := some false
  today : Int := 0
  deriving Repr

/-- `has_extension`: lower-cased (ASCII) name ends with one of the listed extensions -/
def hasExtension (name : Str) (exts : List Str) : Bool :=
  exts.any fun e => endsWith (lowerStr name) e

/-- `Path::extension` of a bare file name -/
def getExtension (name : Str) : Str :=
  if name == ['.', '.'] then [] else
  let rev := name.reverse
  let after := (rev.takeWhile (· != '.')).reverse
  let rest := rev.dropWhile (· != '.')
  match rest with
  | [] => []                                   -- no dot
  | _ :: before => if before.isEmpty then [] else after

/-- `Path::file_name` of a path given as text: the last component, trailing slashes ignored -/
def pathFileName (p : Str) : Str :=
  let body := (p.reverse.dropWhile (· == '/')).reverse
  (body.reverse.takeWhile (· != '/')).reverse

/-- `Path::parent` rendered as text (a slice of the original path) -/
def parentOf (p : Str) : Option Str :=
  let stripSlashes (s : Str) : Str := (s.reverse.dropWhile (· == '/')).reverse
  let body := stripSlashes p
  if body.isEmpty then none             -- "/" or "" has no parent
  else
    let withoutLast := (body.reverse.dropWhile (· != '/')).reverse
    if withoutLast.isEmpty then some []
    else
      let par := stripSlashes withoutLast
      some (if par.isEmpty then ['/'] else par)

def Entry.isDir (e : Entry) : Bool := e.kind == 'd'

/-- `mode::format_mode` (unix): ten characters in `ls -l` notation -/
def formatMode (m : Nat) : Str :=
  let t := if mode_is_link m then 'l' else if mode_is_block_device m then 'b' else if mode_is_char_device m then 'c'
    else if mode_is_socket m then 's' else if mode_is_pipe m then 'p' else if mode_is_directory m then 'd' else '-'
  let rw (r w : Bool) : Str := [if r then 'r' else '-', if w then 'w' else '-']
  let x (e s : Bool) (lo up : Char) : Char := if e then (if s then lo else 'x') else (if s then up else '-')
  [t] ++ rw (mode_user_read m) (mode_user_write m) ++ [x (mode_user_exec m) (mode_suid m) 's' 'S'] ++
    rw (mode_group_read m) (mode_group_write m) ++ [x (mode_group_exec m) (mode_sgid m) 's' 'S'] ++
    rw (mode_other_read m) (mode_other_write m) ++ [x (mode_other_exec m) (mode_sticky m) 't' 'T']

def modeBoolField (f : Field) : Option (Nat → Bool) :=
  match f with
  | .IsPipe => some mode_is_pipe
  | .IsCharacterDevice => some mode_is_char_device
  | .IsBlockDevice => some mode_is_block_device
  | .IsSocket => some mode_is_socket
  | .UserRead => some mode_user_read
  | .UserWrite => some mode_user_write
  | .UserExec => some mode_user_exec
  | .UserAll => some mode_user_all
  | .GroupRead => some mode_group_read
  | .GroupWrite => some mode_group_write
  | .GroupExec => some mode_group_exec
  | .GroupAll => some mode_group_all
  | .OtherRead => some mode_other_read
  | .OtherWrite => some mode_other_write
  | .OtherExec => some mode_other_exec
  | .OtherAll => some mode_other_all
  | .Suid => some mode_suid
  | .Sgid => some mode_sgid
  | _ => none

def extClass (cfg : Config) (f : Field) : Option (List Str) :=
  match f with
  | .IsArchive => some cfg.archive
  | .IsAudio => some cfg.audio
  | .IsBook => some cfg.book
  | .IsDoc => some cfg.doc
  | .IsFont => some cfg.font
  | .IsImage => some cfg.image
  | .IsSource => some cfg.source
  | .IsVideo => some cfg.video
  | _ => none

def fsizeVariant (cfg : Config) (n : Nat) : EM Variant :=
  match formatFilesize n cfg.sizeFormat with
  | .ok (t, ex) => .ok { Variant.ofString t with exact := ex }
  | .error m => .error (.exit2 m)

def archiveHidden (name : Str) : Bool :=
  if name.contains '\\' then false
  else
    -- parse_unix_filename: from the last '/' (inclusive) to the end
    let tail := if name.contains '/' then '/' :: (name.reverse.takeWhile (· != '/')).reverse else name
    startsWith tail ['.']

/-- `get_field_value` -/
def fieldValue (cfg : Config) (e : Entry) (f : Field) : EM Variant :=
  let bracket (outer inner : Str) : Str := ['['] ++ outer ++ [']', ' '] ++ inner
  match e.arc with
  | some a =>
    if !f.availableInArchive then .ok (.empty .string) else
    match f with
    | .Name => .ok (.ofString (bracket e.name a.name))
    | .Extension => .ok (.ofString (bracket e.name (getExtension (pathFileName a.name))))
    | .Path | .AbsPath => .ok (.ofString (bracket e.path a.name))
    | .Directory | .AbsDir => .ok (match parentOf a.name with | some p => .ofString p | none => .empty .string)
    | .Size => .ok (.ofInt a.size)
    | .FormattedSize => fsizeVariant cfg a.size
    | .IsDir => .ok (.ofBool (endsWith a.name ['/'] || endsWith a.name ['\\']))
    | .IsFile => .ok (.ofBool (!endsWith a.name ['/']))
    | .IsSymlink => .ok (.ofBool false)
    | .Mode => .ok (match a.mode with | some m => .ofString (formatMode m) | none => .empty .string)
    | .IsHidden => .ok (.ofBool (archiveHidden a.name))
    | .IsEmpty => .ok (.ofBool (a.size == 0))
    | .Modified => .ok (match a.modified with | some t => .ofDatetime t | none => .empty .string)
    | f =>
      match modeBoolField f, extClass cfg f with
      | some p, _ => .ok (.ofBool (match a.mode with | some m => p m | none => false))
      | _, some exts => .ok (.ofBool (hasExtension a.name exts))
      | _, _ => .ok (.empty .string)
  | none =>
    match f with
    | .Name => .ok (.ofString e.name)
    | .Extension => .ok (.ofString (getExtension e.name))
    | .Path => .ok (.ofString e.path)
    | .AbsPath => .ok (match e.absPath with | some p => .ofString p | none => .empty .string)
    | .Directory => .ok (match parentOf e.path with | some p => .ofString p | none => .empty .string)
    | .AbsDir => .ok (match e.absDir with | some p => .ofString p | none => .empty .string)
    | .Size => .ok (.ofInt e.size)
    | .FormattedSize => fsizeVariant cfg e.size
    | .IsDir => .ok (.ofBool (e.kind == 'd'))
    | .IsFile => .ok (.ofBool (e.kind == 'f'))
    | .IsSymlink => .ok (.ofBool (e.kind == 'l'))
    | .Device => .ok (.ofInt e.dev)
    | .Inode => .ok (.ofInt e.ino)
    | .Blocks => .ok (.ofInt e.blocks)
    | .Hardlinks => .ok (.ofInt e.nlink)
    | .Mode => .ok (.ofString (formatMode e.mode))
    | .IsHidden => .ok (.ofBool (startsWith e.name ['.']))
    | .Uid => .ok (.ofInt e.uid)
    | .Gid => .ok (.ofInt e.gid)
    | .User => .ok (match e.user with | some u => .ofString u | none => .empty .string)
    | .Group => .ok (match e.group with | some g => .ofString g | none => .empty .string)
    | .Modified => .ok (.ofDatetime e.mtime)
    | .HasXattrs => .ok (match e.hasXattrs with | some b => .ofBool b | none => .empty .string)
    | .Capabilities => .ok (if e.caps.isEmpty then .empty .string else .ofString e.caps)
    | .IsShebang => .ok (.ofBool e.shebang)
    | .IsEmpty =>
      if e.kind == 'd' then .ok (match e.dirEmpty with | some b => .ofBool b | none => .empty .bool)
      else .ok (.ofBool (e.size == 0))
    | .LineCount => .ok (match e.lineCount with | some n => .ofInt n | none => .empty .string)
    | .Sha1 => .ok (.ofString e.sha1)
    | .Sha256 => .ok (.ofString e.sha256)
    | .Sha512 => .ok (.ofString e.sha512)
    | .Sha3 => .ok (.ofString e.sha3)
    | f =>
      match modeBoolField f, extClass cfg f with
      | some p, _ => .ok (.ofBool (p e.mode))
      | _, some exts => .ok (.ofBool (hasExtension e.name exts))
      | _, _ => .error (.unsupported "column outside the modelled set (media, EXIF, MIME, created/accessed)")

/-- per-row memo `file_map`: display text ↦ value text -/
abbrev Memo := List (Str × Str)

def Memo.get? (m : Memo) (k : Str) : Option Str := lookup k m
def Memo.insert (m : Memo) (k v : Str) : Memo := if (lookup k m).isSome then m.map (fun (a, b) => if a == k then (a, v) else (a, b)) else m ++ [(k, v)]

/-- aggregate functions over buffered rows (`get_aggregate_value`); defined in Agg.lean, passed in -/
abbrev AggFn := Function → List Memo → Str → Str × Bool

def ArithOp.calc (op : ArithOp) (l r : Variant) : Variant :=
  let a := l.toFloat
  let b := r.toFloat
  .ofFloat (match op with
    | .Add => a.add b
    | .Subtract => a.sub b
    | .Multiply => a.mul b
    | .Divide => a.div b
    | .Modulo => a.mod b)

/-- entry-dependent functions of `get_value` -/
def fileFn (e? : Option Entry) (f : Function) (arg : Str) : Option (EM Variant) :=
  match f with
  | .Contains =>
    some (match e? with
      | some e => if e.arc.isSome then .ok (.empty .bool) else
        match e.text with
        | some t => .ok (.ofBool (containsSub t arg))
        | none => if e.unreadable then .ok (.empty .bool) else
          if e.kind == 'f' || e.kind == 'l' then .error (.unsupported "contains: content not in snapshot") else .ok (.empty .bool)
      | none => .ok (.empty .bool))
  | .HasXattr =>
    some (match e? with
      | some e => (match e.hasXattrs with
        | some _ => .ok (.ofBool ((lookup arg e.xattrs).isSome))
        | none => .ok (.empty .bool))
      | none => .ok (.empty .bool))
  | .Xattr =>
    some (match e? with
      | some e => (match lookup arg e.xattrs with
        | some (some v) => .ok (.ofString v)
        | _ => .ok (.empty .string))
      | none => .ok (.empty .string))
  | .HasCapabilities =>
    some (match e? with
      | some e => (match e.hasCapsXattr with | some b => .ok (.ofBool b) | none => .ok (.empty .bool))
      | none => .ok (.empty .bool))
  | .HasCapability =>
    some (match e? with
      | some e => (match e.hasCapsXattr with
        | some true => .ok (.ofBool (containsSub e.caps arg))
        | _ => .ok (.empty .bool))
      | none => .ok (.empty .bool))
  | _ => none

structure EvalCtx where
  cfg : Config
  agg : AggFn
  buffer : List Memo := []          -- raw_output_buffer / the group's rows

/-- `function::get_value` applied to already evaluated arguments; result cached under `key` -/
def fnValue (cx : EvalCtx) (e? : Option Entry) (f : Function) (av : Variant) (avs : List Str) : EM Variant :=
  match fileFn e? f av.text with
  | some r => r
  | none =>
    if f == .FormatSize then
      if av.text.isEmpty then .ok (.empty .string)
      else match parseU64? av.text with
        | some n => (match formatFilesize n (avs.headD []) with
            | .ok (t, ex) => .ok { Variant.ofString t with exact := ex }
            | .error m => .error (.exit2 m))
        | none => .ok (.empty .string)
    else scalarFn cx.cfg.today f av.text avs

def applyFn (cx : EvalCtx) (e? : Option Entry) (f : Function) (key : Str) (av : Variant)
    (avs : List Str) (exs : Bool) (memo : Memo) : EM (Variant × Memo) :=
  match fnValue cx e? f av avs with
  | .error er => .error er
  | .ok v =>
    let v := { v with exact := v.exact && av.exact && exs }
    .ok (v, memo.insert key v.text)

/-- aggregate call: the argument is evaluated for its memo side effect only -/
def aggValue (cx : EvalCtx) (f : Function) (argKey : Str) (memo : Memo) : Variant × Memo :=
  let (txt, ex) := cx.agg f cx.buffer argKey
  ({ Variant.ofString txt with exact := ex }, memo)

def Expr.isVal : Expr → Bool
  | .val _ _ => true
  | _ => false

/-- a leading minus on a column or a function call: `0.0 - value` (D39 fix) -/
def negateIf (minus : Bool) (v : Variant) : Variant :=
  if minus then
    let r := ArithOp.Subtract.calc (.ofInt 0) v
    { r with exact := r.exact && v.exact }
  else v

/-- the per-row cache: a hit returns the cached text as a string value -/
def withMemo (memo : Memo) (key : Str) (compute : Unit → EM (Variant × Memo)) : EM (Variant × Memo) :=
  match memo.get? key with
  | some v => .ok (.ofString v, memo)
  | none => compute ()

mutual
/-- `get_column_expr_value` (+ `get_function_value`): returns the value and the updated memo -/
def columnValue (cx : EvalCtx) (e? : Option Entry) (memo : Memo) : Expr → EM (Variant × Memo)
  | .val m v => .ok (.ofSignedString v m, memo)   -- a literal is itself, whatever the memo holds (D61 fix)
  | .func0 mn f =>
    withMemo memo (Expr.func0 mn f).display fun _ =>
      -- no first argument: the Rust evaluates a dummy empty literal
      let r : EM (Variant × Memo) := if f.isAggregate then .ok (aggValue cx f [] memo)
               else applyFn cx e? f (Expr.func0 mn f).display (.ofSignedString [] false) [] true memo
      match r with
      | .error er => .error er
      | .ok (v, m) => let v' := negateIf mn v; .ok (v', m.insert (Expr.func0 mn f).display v'.text)
  | .func mn f l args =>
    withMemo memo (Expr.func mn f l args).display fun _ =>
      match columnValue cx e? memo l with
      | .error er => .error er
      | .ok (av, m1) =>
        let r : EM (Variant × Memo) := if f.isAggregate then .ok (aggValue cx f l.display m1)
                 else
                   match argValues cx e? m1 args with
                   | .error er => .error er
                   | .ok (avs, m2, exs) => applyFn cx e? f (Expr.func mn f l args).display av avs exs m2
        match r with
        | .error er => .error er
        | .ok (v, m) => let v' := negateIf mn v; .ok (v', m.insert (Expr.func mn f l args).display v'.text)
  | .field mn f =>
    withMemo memo (Expr.field mn f).display fun _ =>
      match e? with
      | some e =>
        match fieldValue cx.cfg e f with
        | .ok v => let v' := negateIf mn v; .ok (v', memo.insert (Expr.field mn f).display v'.text)
        | .error er => .error er
      | none =>
        match memo.get? f.display with
        | some v => .ok (.ofString v, memo)
        | none => .ok (.empty .string, memo)
  | .arith l op r =>
    withMemo memo (Expr.arith l op r).display fun _ =>
      match columnValue cx e? memo l with
      | .error er => .error er
      | .ok (lv, m1) =>
        match columnValue cx e? m1 r with
        | .error er => .error er
        | .ok (rv, m2) =>
          let res := op.calc lv rv
          let res := { res with exact := res.exact && lv.exact && rv.exact }
          .ok (res, m2.insert (Expr.arith l op r).display res.text)
  | .cmp l o r => withMemo memo (Expr.cmp l o r).display fun _ => columnValue cx e? memo l
  | .logic l o r => withMemo memo (Expr.logic l o r).display fun _ => columnValue cx e? memo l

def argValues (cx : EvalCtx) (e? : Option Entry) (memo : Memo) : List Expr → EM (List Str × Memo × Bool)
  | [] => .ok ([], memo, true)
  | a :: as =>
    match columnValue cx e? memo a with
    | .error er => .error er
    | .ok (v, m1) =>
      match argValues cx e? m1 as with
      | .error er => .error er
      | .ok (vs, m2, ex) => .ok (v.text :: vs, m2, ex && v.exact)
end

/-- regex cache: key (operator family + pattern text) ↦ compiled pattern text -/
abbrev RxCache := List (Str × Str)

inductive CmpRes where
  | val (b : Bool)
  | uncertain          -- depends on an inexact float: the harness does not compare this row
  deriving Repr, BEq

/-- glob → regex text (`convert_glob_to_pattern`, after the D32 fix) -/
def globToPattern (s : Str) : Str :=
  ofS "^(?is)" ++ s.flatMap (fun c => if c == '*' then ['.', '*'] else if c == '?' then ['.'] else regexEscape c) ++ ['$']

/-- LIKE → regex text (`convert_like_to_pattern`, after the D33 fix) -/
def likeToPattern (s : Str) : Str :=
  ofS "^(?is)" ++ s.flatMap (fun c => if c == '%' then ['.', '*'] else if c == '_' then ['.'] else regexEscape c) ++ ['$']

def isGlob (s : Str) : Bool := s.contains '*' || s.contains '?'

/-- match `subject` against regex text `pat`; the cache maps a key to the pattern text compiled for it -/
def rxTest (cache : RxCache) (key pat subject : Str) (onInvalid : EM Bool) : EM (Bool × RxCache) :=
  let usePat := (lookup key cache).getD pat
  match rxParse usePat with
  | .ok re => .ok (re.isMatch subject, if (lookup key cache).isSome then cache else cache ++ [(key, pat)])
  | .invalid => (match onInvalid with | .ok b => .ok (b, cache) | .error e => .error e)
  | .unsupported => .error (.unsupported "regex outside the modelled fragment")

def numCmp (op : Op) (o : Option Ordering) : Option Bool :=
  -- comparisons with NaN are all false except `!=`
  match op, o with
  | .Eq, some .eq | .Eeq, some .eq => some true
  | .Eq, _ | .Eeq, _ => some false
  | .Ne, some .eq | .Ene, some .eq => some false
  | .Ne, _ | .Ene, _ => some true
  | .Gt, some .gt => some true
  | .Gt, _ => some false
  | .Gte, some .gt | .Gte, some .eq => some true
  | .Gte, _ => some false
  | .Lt, some .lt => some true
  | .Lt, _ => some false
  | .Lte, some .lt | .Lte, some .eq => some true
  | .Lte, _ => some false
  | _, _ => none

def intOrd (a b : Int) : Ordering := if a < b then .lt else if a == b then .eq else .gt

/-- one comparison `left op right` of `conforms` -/
def compareValues (today : Int) (cache : RxCache) (fv : Variant) (op : Op) (v : Variant) : EM (CmpRes × RxCache) :=
  match fv.ty with
  | .string =>
    let val := v.text
    let subj := fv.text
    let rx (key pat : Str) (neg : Bool) (onInvalid : EM Bool) : EM (CmpRes × RxCache) :=
      match rxTest cache key pat subj onInvalid with
      | .ok (b, c) => .ok (.val (b != neg), c)
      | .error e => .error e
    match op with
    | .Eq => if isGlob val then rx (ofS "glob:" ++ val) (globToPattern val) false (.ok (val == subj))
             else .ok (.val (val == subj), cache)
    | .Ne => if isGlob val then rx (ofS "glob:" ++ val) (globToPattern val) true (.ok (val == subj))
             else .ok (.val (val != subj), cache)
    | .Rx => rx (ofS "rx:" ++ val) val false (.error (.exit2 "Incorrect regex expression"))
    | .NotRx => rx (ofS "rx:" ++ val) val true (.error (.exit2 "Incorrect regex expression"))
    | .Like => rx (ofS "like:" ++ val) (likeToPattern val) false (.error (.exit2 "Incorrect LIKE expression"))
    | .NotLike => rx (ofS "like:" ++ val) (likeToPattern val) true (.error (.exit2 "Incorrect LIKE expression"))
    | .Eeq => .ok (.val (val == subj), cache)
    | .Ene => .ok (.val (val != subj), cache)
    -- text is ordered lexicographically (code points = UTF-8 bytes); D73 fix
    | .Gt => .ok (.val (strLt val subj), cache)
    | .Gte => .ok (.val (strLe val subj), cache)
    | .Lt => .ok (.val (strLt subj val), cache)
    | .Lte => .ok (.val (strLe subj val), cache)
    | _ => .ok (.val false, cache)
  | .int =>
    let lit := v.toFloat
    if lit.fractNonZero then
      if !v.exact || !lit.isExact then .ok (.uncertain, cache) else
      match numCmp op ((Num.ofInt fv.toInt).cmp? lit) with
      | some b => .ok (.val b, cache)
      | none => .ok (.val false, cache)
    else
      if !v.exact || !fv.exact then .ok (.uncertain, cache) else
      match numCmp op (some (intOrd fv.toInt v.toInt)) with
      | some b => .ok (.val b, cache)
      | none => .ok (.val false, cache)
  | .float =>
    let a := fv.toFloat
    let b := v.toFloat
    if !fv.exact || !v.exact || !a.isExact || !b.isExact then .ok (.uncertain, cache) else
    match numCmp op (a.cmp? b) with
    | some r => .ok (.val r, cache)
    | none => .ok (.val false, cache)
  | .bool =>
    match v.toBool?, fv.toBool? with
    | some vb, some fb =>
      let o := intOrd (if fb then 1 else 0) (if vb then 1 else 0)
      (match numCmp op (some o) with
       | some r => .ok (.val r, cache)
       | none => .ok (.val false, cache))
    | _, _ => .error (.exit2 "Can't parse boolean value")
  | .datetime =>
    let lit : EM (Int × Int) := match v.dt? with
      | some t => .ok (t, t)
      | none => match parseDatetime today v.text with
        | .ok a b => .ok (a, b)
        | .err => .error (.exit2 "Can't parse datetime")
        | .unsupported => .error (.unsupported "chrono-english date")
    match lit, fv.dt? with
    | .error e, _ => .error e
    | .ok (start, finish), some dt =>
      let r := match op with
        | .Eeq => dt == start
        | .Ene => dt != start
        | .Eq => dt ≥ start && dt ≤ finish
        | .Ne => dt < start || dt > finish
        | .Gt => dt > finish
        | .Gte => dt ≥ start
        | .Lt => dt < start
        | .Lte => dt ≤ finish
        | _ => false
      .ok (.val r, cache)
    | .ok _, none => .error (.unsupported "datetime variant without a value")

/-- LIKE / regex operators -/
def patternOp : Op → Bool
  | .Like | .NotLike | .Rx | .NotRx => true
  | _ => false

/-- one atom of `conforms`: pattern operators match the *text* of the left value whatever its type
    (D74 fix); every other operator compares under the left value's type -/
def compareAtom (today : Int) (cache : RxCache) (fv : Variant) (op : Op) (v : Variant) : EM (CmpRes × RxCache) :=
  if patternOp op && fv.ty != .string then
    -- (the text of an inexact float is not certainly what the implementation prints)
    if !fv.exact then .ok (.uncertain, cache) else compareValues today cache { fv with ty := .string } op v
  else compareValues today cache fv op v

def CmpRes.and : CmpRes → CmpRes → CmpRes
  | .val false, _ => .val false
  | .val true, r => r
  | .uncertain, .val false => .val false
  | .uncertain, _ => .uncertain

def CmpRes.or : CmpRes → CmpRes → CmpRes
  | .val true, _ => .val true
  | .val false, r => r
  | .uncertain, .val true => .val true
  | .uncertain, _ => .uncertain

/-- `conforms`: short-circuit evaluation, fresh memo per operand, shared regex cache -/
def conforms (cx : EvalCtx) (e : Entry) (cache : RxCache) : Expr → EM (CmpRes × RxCache)
  | .logic l op r =>
    match conforms cx e cache l with
    | .error er => .error er
    | .ok (lv, c1) =>
      match op, lv with
      | .And, .val false => .ok (.val false, c1)
      | .Or, .val true => .ok (.val true, c1)
      | _, _ =>
        match conforms cx e c1 r with
        | .error er => .error er
        | .ok (rv, c2) => .ok (if op == .And then lv.and rv else lv.or rv, c2)
  | .cmp l op r =>
    match columnValue cx (some e) [] l with
    | .error er => .error er
    | .ok (fv, _) =>
      match columnValue cx (some e) [] r with
      | .error er => .error er
      | .ok (v, _) => compareAtom cx.cfg.today cache fv op v
  | _ => .ok (.val false, cache)

end Fsel
