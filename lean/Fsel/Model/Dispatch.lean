/-
  Request dispatch of the model driver (pure part: `handleLine`).
-/
import Fsel.Model.Json

namespace Fsel

def hexVal (c : Char) : Option Nat :=
  if '0' ≤ c ∧ c ≤ '9' then some (c.toNat - 48)
  else if 'a' ≤ c ∧ c ≤ 'f' then some (c.toNat - 87)
  else if 'A' ≤ c ∧ c ≤ 'F' then some (c.toNat - 55)
  else none

def unhexBytes : List Char → Option (List UInt8)
  | [] => some []
  | [_] => none
  | a :: b :: r =>
    match hexVal a, hexVal b, unhexBytes r with
    | some x, some y, some rest => some (UInt8.ofNat (x * 16 + y) :: rest)
    | _, _, _ => none

/-- hex → bytes → UTF-8 → `List Char`; `-` stands for the empty string. -/
def unhex (s : String) : Option Str :=
  if s == "-" then some [] else
  match unhexBytes s.toList with
  | none => none
  | some bs => (String.fromUTF8? (ByteArray.mk bs.toArray)).map String.toList

def hexOfStr (s : Str) : String :=
  let bytes := (String.ofList s).toUTF8
  if bytes.size == 0 then "-" else
  String.ofList (bytes.toList.flatMap fun b => [hexDigit (b.toNat / 16), hexDigit (b.toNat % 16)])

def unhexAll (xs : List String) : Option (List Str) := xs.mapM unhex

structure DriverState where
  dummy : Nat := 0

def DriverState.init : DriverState := {}

def PErr.toText : PErr → String
  | .msg m => "msg:" ++ m
  | .unsupported w => "unsupported:" ++ w

def handleLine (st : DriverState) (line : String) : DriverState × String :=
  match line.splitOn "\t" with
  | "lex" :: args =>
    match unhexAll args with
    | none => (st, "bad-op")
    | some parts => (st, String.ofList (joinWith [' '] ((lexAll parts).map Lexem.toText)))
  | "parse" :: args =>
    match unhexAll args with
    | none => (st, "bad-op")
    | some parts =>
      match parseQuery parts with
      | .ok q => (st, "ok " ++ String.ofList q.toJson)
      | .error e => (st, "err " ++ e.toText)
  | _ => (st, "bad-op")

end Fsel
