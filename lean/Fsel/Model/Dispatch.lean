/-
  Request dispatch of the model driver (pure part: `handleLine`).
-/
import Fsel.Model.Json
import Fsel.Model.Main
import Fsel.Model.Caps
import Fsel.Lemmas.Glob

namespace Fsel

def hexVal (c : Char) : Option Nat :=
  if '0' ≤ c ∧ c ≤ '9' then some (c.toNat - 48)
  else if 'a' ≤ c ∧ c ≤ 'f' then some (c.toNat - 87)
  else if 'A' ≤ c ∧ c ≤ 'F' then some (c.toNat - 55)
  else none

def unhexBytes : List Char → Option (List UInt8)
  | [] => some []
  | [_] => none
  | a :: b :: r =>
    match hexVal a, hexVal b, unhexBytes r with
    | some x, some y, some rest => some (UInt8.ofNat (x * 16 + y) :: rest)
    | _, _, _ => none

/-- hex → bytes → UTF-8 → `List Char`; `-` stands for the empty string. -/
def unhex (s : String) : Option Str :=
  if s == "-" then some [] else
  match unhexBytes s.toList with
  | none => none
  | some bs => (String.fromUTF8? (ByteArray.mk bs.toArray)).map String.toList

def hexOfStr (s : Str) : String :=
  let bytes := (String.ofList s).toUTF8
  if bytes.size == 0 then "-" else
  String.ofList (bytes.toList.flatMap fun b => [hexDigit (b.toNat / 16), hexDigit (b.toNat % 16)])

def unhexAll (xs : List String) : Option (List Str) := xs.mapM unhex

/-- one `node` line of the snapshot protocol -/
structure NodeLine where
  depth : Nat
  e : Entry
  unlistable : Bool
  zip : Option (List ArcInfo)

structure DriverState where
  nodes : List NodeLine := []        -- reversed
  rootCanon : Str := []
  cwd : Str := []
  fs : Option FSnap := none
  cfg : Config := {}

def DriverState.init : DriverState := {}

def PErr.toText : PErr → String
  | .msg m => "msg:" ++ m
  | .unsupported w => "unsupported:" ++ w

def natOf (s : String) : Nat := s.toNat?.getD 0
def intOf (s : String) : Int := s.toInt?.getD 0

def parseMember (s : String) : Option ArcInfo :=
  match s.splitOn ":" with
  | [n, sz, md, mt] =>
    match unhex n with
    | some name => some { name := name, size := natOf sz, mode := if md == "-" then none else some (natOf md),
                          modified := if mt == "-" then none else some (intOf mt) }
    | none => none
  | _ => none

def applyFact (nl : NodeLine) (kv : String) : NodeLine :=
  match kv.splitOn "=" with
  | [k, v] =>
    let e := nl.e
    if k == "nl" then { nl with e := { e with lineCount := some (natOf v) } }
    else if k == "sb" then { nl with e := { e with shebang := v == "1" } }
    else if k == "sha1" then { nl with e := { e with sha1 := v.toList } }
    else if k == "sha256" then { nl with e := { e with sha256 := v.toList } }
    else if k == "sha512" then { nl with e := { e with sha512 := v.toList } }
    else if k == "sha3" then { nl with e := { e with sha3 := v.toList } }
    else if k == "text" then { nl with e := { e with text := unhex v } }
    else if k == "empty" then { nl with e := { e with dirEmpty := some (v == "1") } }
    else if k == "xa" then { nl with e := { e with hasXattrs := some (v == "1") } }
    else if k == "caps" then { nl with e := { e with caps := (unhex v).getD [], hasCapsXattr := some true } }
    else if k == "capsraw" then
      match unhexBytes v.toList with
      | some bs => { nl with e := { e with caps := parseCaps (bs.map UInt8.toNat), hasCapsXattr := some true } }
      | none => nl
    else if k == "nocaps" then { nl with e := { e with hasCapsXattr := some false } }
    else if k == "xattr" then
      match v.splitOn ":" with
      | [a, b] => { nl with e := { e with xattrs := e.xattrs ++ [((unhex a).getD [], if b == "!" then none else unhex b)] } }
      | _ => nl
    else if k == "real" then { nl with e := { e with absPath := unhex v } }
    else if k == "gitign" then { nl with e := { e with gitIgnored := v == "1" } }
    else if k == "target" then { nl with e := { e with linkTarget := unhex v } }
    else if k == "unlistable" then { nl with unlistable := v == "1" }
    else if k == "unreadable" then { nl with e := { e with unreadable := v == "1" } }
    else if k == "zip" then
      if v == "corrupt" then { nl with zip := none }
      else if v == "empty" then { nl with zip := some [] }
      else { nl with zip := (v.splitOn ";").mapM parseMember }
    else nl
  | _ => nl

def parseNodeLine (fields : List String) : Option NodeLine :=
  match fields with
  | depth :: name :: kind :: size :: mode :: uid :: gid :: nlink :: ino :: dev :: blocks :: mtime :: user :: group :: facts =>
    match unhex name with
    | none => none
    | some nm =>
      let e : Entry := { name := nm, path := [], absPath := none, absDir := none,
                         kind := (kind.toList.headD '?'), size := natOf size, mode := natOf mode, uid := natOf uid,
                         gid := natOf gid, nlink := natOf nlink, ino := natOf ino, dev := natOf dev,
                         blocks := natOf blocks, mtime := intOf mtime,
                         user := if user == "!" then none else unhex user,
                         group := if group == "!" then none else unhex group }
      some (facts.foldl applyFact { depth := natOf depth, e := e, unlistable := false, zip := none })
  | _ => none

/-- rebuild the tree from the pre-order node list -/
def buildNodes : Nat → Nat → List NodeLine → List Node × List NodeLine
  | 0, _, ls => ([], ls)
  | _ + 1, _, [] => ([], [])
  | fuel + 1, depth, l :: ls =>
    if l.depth < depth then ([], l :: ls)
    else if l.depth > depth then ([], l :: ls)   -- malformed: caller stops
    else if l.e.kind == 'd' then
      let (kids, rest) := buildNodes fuel (depth + 1) ls
      let (sibs, rest2) := buildNodes fuel depth rest
      (Node.dir l.e (!l.unlistable) kids :: sibs, rest2)
    else
      let (sibs, rest) := buildNodes fuel depth ls
      (Node.leaf l.e l.zip :: sibs, rest)

def cfgApply (c : Config) (kv : String) : Config :=
  match kv.splitOn "=" with
  | [k, v] =>
    let lst : List Str := if v == "" then [] else (v.splitOn ",").filterMap unhex
    if k == "today" then { c with today := intOf v }
    else if k == "size_format" then { c with sizeFormat := (unhex v).getD [] }
    else if k == "is_zip_archive" then { c with zipExts := lst }
    else if k == "is_archive" then { c with archive := lst }
    else if k == "is_audio" then { c with audio := lst }
    else if k == "is_book" then { c with book := lst }
    else if k == "is_doc" then { c with doc := lst }
    else if k == "is_font" then { c with font := lst }
    else if k == "is_image" then { c with image := lst }
    else if k == "is_source" then { c with source := lst }
    else if k == "is_video" then { c with video := lst }
    else if k == "gitignore" then { c with gitignore := some (v == "1") }
    else if k == "hgignore" then { c with hgignore := some (v == "1") }
    else if k == "dockerignore" then { c with dockerignore := some (v == "1") }
    else c
  | _ => c

def outcomeText : Outcome → String
  | .exit code out errs inex ties =>
    s!"exit {code} {hexOfStr out} {if inex then 1 else 0}:" ++ String.intercalate "," (ties.map toString) ++ " " ++
      String.intercalate "," (errs.map hexOfStr)
  | .unsupported w => "unsupported " ++ w

def handleLine (st : DriverState) (line : String) : DriverState × String :=
  match line.splitOn "\t" with
  | "lex" :: args =>
    match unhexAll args with
    | none => (st, "bad-op")
    | some parts => (st, String.ofList (joinWith [' '] ((lexAll parts).map Lexem.toText)))
  | "parse" :: args =>
    match unhexAll args with
    | none => (st, "bad-op")
    | some parts =>
      match parseQuery parts with
      | .ok q => (st, "ok " ++ String.ofList q.toJson)
      | .error e => (st, "err " ++ e.toText)
  | "fs-begin" :: rc :: cwd :: _ =>
    match unhex rc, unhex cwd with
    | some r, some c => ({ st with nodes := [], rootCanon := r, cwd := c, fs := none }, "ok")
    | _, _ => (st, "bad-op")
  | "node" :: fields =>
    match parseNodeLine fields with
    | some nl => ({ st with nodes := nl :: st.nodes }, "ok")
    | none => (st, "bad-op")
  | "fs-end" :: topFields =>
    match parseNodeLine topFields with
    | none => (st, "bad-op")
    | some top =>
      let ls := st.nodes.reverse
      let (kids, rest) := buildNodes (2 * ls.length + 2) 1 ls
      if !rest.isEmpty then (st, "bad-op")
      else
        let fs : FSnap := { rootCanon := st.rootCanon, top := .dir top.e (!top.unlistable) kids, cwd := st.cwd }
        ({ st with fs := some fs, nodes := [] }, "ok")
  | "cfg" :: kvs => ({ st with cfg := kvs.foldl cfgApply {} }, "ok")
  | "run" :: args =>
    match st.fs, unhexAll args with
    | some fs, some argv => (st, outcomeText (runMain fs st.cfg argv))
    | _, _ => (st, "bad-op")
  | "fn" :: name :: args =>
    match unhexAll args with
    | none => (st, "bad-op")
    | some as =>
      if name == "parse_filesize" then
        match as with
        | [x] => (st, match parseFilesize x with
            | some n => (if parseFilesizeExact x then "some " else "some~ ") ++ toString n
            | none => "none")
        | _ => (st, "bad-op")
      else if name == "format_filesize" then
        match as with
        | [n, m] => (st, match parseU64? n with
            | some k => (match formatFilesize k m with
                | .ok (t, ex) => (if ex then "ok " else "ok~ ") ++ hexOfStr t
                | .error _ => "exit2")
            | none => "bad-op")
        | _ => (st, "bad-op")
      else if name == "glob" then
        match as with
        | [x] => (st, hexOfStr (globToPattern x))
        | _ => (st, "bad-op")
      else if name == "like" then
        match as with
        | [x] => (st, hexOfStr (likeToPattern x))
        | _ => (st, "bad-op")
      else if name == "globshape" then
        -- model-internal test: does the regex parser turn the escaped pattern text into the atom chain
        -- that the theorems of C12 talk about?
        match as with
        | [kind, x] =>
          let atoms : List GlobL.Atom :=
            if kind == ofS "glob" then x.map fun c => if c == '*' then .many else if c == '?' then .one else .lit c
            else x.map fun c => if c == '%' then .many else if c == '_' then .one else .lit c
          let pat := if kind == ofS "glob" then globToPattern x else likeToPattern x
          (st, match rxParse pat with
            | .ok re => if re == GlobL.anchored atoms then "same" else "different"
            | _ => "noparse")
        | _ => (st, "bad-op")
      else if name == "rxmatch" then
        match as with
        | [p, subj] => (st, match rxParse p with
            | .ok re => if re.isMatch subj then "true" else "false"
            | .invalid => "rxerr"
            | .unsupported => "unsupported")
        | _ => (st, "bad-op")
      else if name == "format_mode" then
        match as with
        | [m] => (st, match parseU64? m with
            | some k => String.ofList (formatMode k) ++ " " ++ String.ofList
                ([mode_user_read k, mode_user_write k, mode_user_exec k, mode_user_all k, mode_group_read k,
                  mode_group_write k, mode_group_exec k, mode_group_all k, mode_other_read k, mode_other_write k,
                  mode_other_exec k, mode_other_all k, mode_suid k, mode_sgid k, mode_is_pipe k,
                  mode_is_char_device k, mode_is_block_device k, mode_is_socket k].map fun b => if b then '1' else '0')
            | none => "bad-op")
        | _ => (st, "bad-op")
      else if name == "caps" then
        match as with
        | [h] => (st, match unhexBytes (String.ofList h).toList with
            | some bs => hexOfStr (parseCaps (bs.map UInt8.toNat))
            | none => "bad-op")
        | _ => (st, "bad-op")
      else if name == "get_value" then
        match as with
        | f :: a :: rest =>
          (st, match Function.ofStr? f with
            | none => "bad-op"
            | some fn =>
              match scalarFn st.cfg.today fn a rest with
              | .ok v => (if v.exact then "ok " else "ok~ ") ++ (reprStr v.ty) ++ " " ++ hexOfStr v.text
              | .error (.exit2 _) => "exit2"
              | .error (.unsupported _) => "unsupported")
        | _ => (st, "bad-op")
      else if name == "aggregate" then
        match as with
        | f :: vals =>
          (st, match Function.ofStr? f with
            | none => "bad-op"
            | some fn =>
              let rows : List Memo := vals.map fun v => [(['k'], v)]
              let (t, ex) := aggregate fn rows ['k']
              (if ex then "ok " else "ok~ ") ++ hexOfStr t)
        | _ => (st, "bad-op")
      else if name == "topn" then
        match as with
        | lim :: keys =>
          (st, match parseU64? lim, keys.mapM parseU64? with
            | some l, some ks =>
              let t := insertAll (fun (a b : Nat) => decide (a ≤ b)) l (ks.zipIdx.map fun (k, i) => (k, i))
              String.intercalate "," (t.values.map toString)
            | _, _ => "bad-op")
        | _ => (st, "bad-op")
      else (st, "bad-op")
  | _ => (st, "bad-op")

end Fsel
