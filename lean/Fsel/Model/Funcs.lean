/-
  Scalar functions: `function::get_value` (function.rs), the entry-independent ones.
  File functions (CONTAINS, xattr, capabilities) live in Eval.lean because they read the entry.
-/
import Fsel.Model.Value
import Fsel.Model.Ast

namespace Fsel

inductive EvalErr where
  | exit2 (msg : String)         -- `error_exit`: diagnostic on stderr, status 2
  | unsupported (why : String)   -- outside the modelled fragment
  deriving Repr, BEq

abbrev EM := Except EvalErr

/-- Rust `char::to_lowercase` on the supported alphabets (ASCII, Latin-1, Cyrillic, Kelvin/Angstrom) -/
def lowerRust (c : Char) : Str :=
  let n := c.toNat
  if 'A' ≤ c ∧ c ≤ 'Z' then [Char.ofNat (n + 32)]
  else if (0xC0 ≤ n ∧ n ≤ 0xDE ∧ n ≠ 0xD7) then [Char.ofNat (n + 32)]
  else if (0x410 ≤ n ∧ n ≤ 0x42F) then [Char.ofNat (n + 32)]
  else if (0x400 ≤ n ∧ n ≤ 0x40F) then [Char.ofNat (n + 80)]
  else if n == 0x212A then ['k']
  else if n == 0x212B then [Char.ofNat 0xE5]
  else [c]

/-- Rust `char::to_uppercase` on the supported alphabets -/
def upperRust (c : Char) : Str :=
  let n := c.toNat
  if 'a' ≤ c ∧ c ≤ 'z' then [Char.ofNat (n - 32)]
  else if n == 0xDF then ['S', 'S']
  else if n == 0xFF then [Char.ofNat 0x178]
  else if n == 0xB5 then [Char.ofNat 0x39C]
  else if (0xE0 ≤ n ∧ n ≤ 0xFE ∧ n ≠ 0xF7) then [Char.ofNat (n - 32)]
  else if (0x430 ≤ n ∧ n ≤ 0x44F) then [Char.ofNat (n - 32)]
  else if (0x450 ≤ n ∧ n ≤ 0x45F) then [Char.ofNat (n - 80)]
  else if n == 0x17F then ['S']
  else [c]

def toLowerRust (s : Str) : Str := s.flatMap lowerRust
def toUpperRust (s : Str) : Str := s.flatMap upperRust

/-- characters whose Rust case mapping the model knows -/
def caseSupported (c : Char) : Bool :=
  let n := c.toNat
  n < 0x180 || (0x400 ≤ n && n ≤ 0x45F) || n == 0x212A || n == 0x212B || n ≥ 0x2E80 ||
  (0x2000 ≤ n && n < 0x2100)

def splitWhitespace (s : Str) : List Str := (splitBy isWhitespace s).filter (!·.isEmpty)

def capitalize (s : Str) : Str :=
  match s with
  | [] => []
  | c :: r => upperRust c ++ r

def b64chars : List Char :=
  "ABCDEFGHIJKLMNOPQRSTUVWXYZabcdefghijklmnopqrstuvwxyz0123456789+/".toList

def b64enc : List Nat → Str
  | [] => []
  | [a] => [b64chars[a / 4]!, b64chars[(a % 4) * 16]!, '=', '=']
  | [a, b] => [b64chars[a / 4]!, b64chars[(a % 4) * 16 + b / 16]!, b64chars[(b % 16) * 4]!, '=']
  | a :: b :: c :: r =>
    [b64chars[a / 4]!, b64chars[(a % 4) * 16 + b / 16]!, b64chars[(b % 16) * 4 + c / 64]!, b64chars[c % 64]!] ++ b64enc r

def utf8Bytes (s : Str) : List Nat := (String.ofList s).toUTF8.toList.map UInt8.toNat

def toBase64 (s : Str) : Str := b64enc (utf8Bytes s)

def b64val (c : Char) : Option Nat := b64chars.findIdx? (· == c)

/-- canonical padded base64 → bytes; `none` for anything else (the harness generates only canonical
    encodings or strings with characters outside the alphabet) -/
def b64dec : Str → Option (List Nat)
  | [] => some []
  | [a, b, '=', '='] =>
    match b64val a, b64val b with
    | some x, some y => if y % 16 == 0 then some [x * 4 + y / 16] else none
    | _, _ => none
  | [a, b, c, '='] =>
    match b64val a, b64val b, b64val c with
    | some x, some y, some z => if z % 4 == 0 then some [x * 4 + y / 16, (y % 16) * 16 + z / 4] else none
    | _, _, _ => none
  | a :: b :: c :: d :: r =>
    match b64val a, b64val b, b64val c, b64val d, b64dec r with
    | some x, some y, some z, some w, some rest =>
      some ([x * 4 + y / 16, (y % 16) * 16 + z / 4, (z % 4) * 64 + w] ++ rest)
    | _, _, _, _, _ => none
  | _ => none

def bytesToStr? (bs : List Nat) : Option Str :=
  (String.fromUTF8? (ByteArray.mk (bs.map UInt8.ofNat).toArray)).map String.toList

/-- digits of `n` in base `b` (2, 8, 16), lowercase -/
def showBase (b : Nat) (n : Nat) : Str :=
  if hb : b < 2 then [] else
  if h : n < b then [hexDigit n] else showBase b (n / b) ++ [hexDigit (n % b)]
termination_by n
decreasing_by exact Nat.div_lt_self (by omega) (by omega)

def twoPow64 : Nat := 18446744073709551616

/-- `{:b}`/`{:o}`/`{:x}` of an `i64`: two's complement for negatives -/
def showBaseI64 (b : Nat) (i : Int) : Str :=
  if b < 2 then [] else
  if i ≥ 0 then showBase b i.toNat else showBase b (twoPow64 - i.natAbs)

/-- `SUBSTRING` (after the D26 fix) on code points: `pos` 1-based, negative from the end, `len = 0` = rest -/
def substring (s : Str) (posArg : Option Int) (lenArg : Nat) : Str :=
  let pos0 : Int := match posArg with
    | none => 0
    | some p => p - 1
  let pos : Int := if pos0 < 0 then Int.ofNat s.length - pos0.natAbs + 1 else pos0
  -- `pos as usize` of a negative i64 is huge: everything is skipped
  let skipped := if pos < 0 then [] else s.drop pos.toNat
  if lenArg > 0 then skipped.take lenArg else skipped

/-- human-time's `to_human_time_string` for whole seconds -/
def formatTime (secs : Nat) : Str :=
  let d := secs / 86400
  let h := secs % 86400 / 3600
  let m := secs % 3600 / 60
  let s := secs % 60
  let parts := ([(d, ofS "d"), (h, ofS "h"), (m, ofS "m"), (s, ofS "s")].filter (·.1 > 0)).map
    fun (n, u) => showNat n ++ u
  if parts.isEmpty then ofS "0μs" else joinWith [','] parts

def isHiragana (c : Char) : Bool := 0x3041 ≤ c.toNat && c.toNat ≤ 0x3096
def isKatakana (c : Char) : Bool := 0x30A1 ≤ c.toNat && c.toNat ≤ 0x30FC
def isKanji (c : Char) : Bool := (0x4E00 ≤ c.toNat && c.toNat ≤ 0x9FAF) || (0x3400 ≤ c.toNat && c.toNat ≤ 0x4DBF)

/-- f64 `min`/`max` ignore a NaN operand -/
def numMin (a b : Num) : Num := match a.cmp? b with | some .gt => b | some _ => a | none => if a == .nan then b else a
def numMax (a b : Num) : Num := match a.cmp? b with | some .lt => b | some _ => a | none => if a == .nan then b else a

def natSqrt? (n : Nat) : Option Nat :=
  let r := Nat.sqrt n
  if r * r == n then some r else none

/-- placeholder for a float result the model cannot compute exactly: never compared textually -/
def inexactVariant : Variant := { ty := .float, text := ['?'], exact := false }

def ratPowNat (q : Rat) : Nat → Rat
  | 0 => 1
  | n + 1 => q * ratPowNat q n

/-- entry-independent part of `get_value`.  `today` = current local day number. -/
def scalarFn (today : Int) (f : Function) (arg : Str) (args : List Str) : EM Variant :=
  match f with
  | .Lower => .ok (.ofString (toLowerRust arg))
  | .Upper => .ok (.ofString (toUpperRust arg))
  | .InitCap => .ok (.ofString (joinWith [' '] ((splitWhitespace arg).map fun w => capitalize (toLowerRust w))))
  | .Length => .ok (.ofInt arg.length)
  | .ToBase64 => .ok (.ofString (toBase64 arg))
  | .FromBase64 =>
    match b64dec arg with
    | some bs => match bytesToStr? bs with
      | some s => .ok (.ofString s)
      | none => .error (.unsupported "from_base64: non-UTF-8 payload")
    | none => .error (.unsupported "from_base64: non-canonical input (rbase64 is lenient in ways not modelled)")
  | .Concat => .ok (.ofString (arg ++ args.flatten))
  | .ConcatWs => .ok (.ofString (joinWith arg args))
  | .Substring =>
    let pos? : EM (Option Int) := match args with
      | [] => .ok none
      | p :: _ => match parseI32? p with
        | some v => .ok (some v)
        | none => .error (.exit2 "Could not parse position argument of SUBSTRING function")
    match pos? with
    | .error e => .error e
    | .ok pos =>
      match args with
      | _ :: l :: _ =>
        match parseUsize? l with
        | some n => .ok (.ofString (substring arg pos n))
        | none => .error (.exit2 "Could not parse length argument of SUBSTRING function")
      | _ => .ok (.ofString (substring arg pos 0))
  | .Replace =>
    match args with
    | from_ :: to :: _ => .ok (.ofString (strReplace arg from_ to))
    | _ => .error (.exit2 "REPLACE function requires three arguments")
  | .Trim => .ok (.ofString (trim arg))
  | .LTrim => .ok (.ofString (trimStart arg))
  | .RTrim => .ok (.ofString (trimEnd arg))
  | .Bin => .ok (match parseI64? arg with | some v => .ofString (showBaseI64 2 v) | none => .empty .string)
  | .Hex => .ok (match parseI64? arg with | some v => .ofString (showBaseI64 16 v) | none => .empty .string)
  | .Oct => .ok (match parseI64? arg with | some v => .ofString (showBaseI64 8 v) | none => .empty .string)
  | .Abs => .ok (match parseF64? arg with
      | some v => .ofFloat (if v.sign < 0 then v.neg else v)
      | none => .empty .string)
  | .Power =>
    match parseF64? arg with
    | none => .ok (.empty .string)
    | some v =>
      let p? : Option Num := match args with
        | [] => some (Num.mk 0 true)
        | p :: _ => parseF64? p
      match p? with
      | none => .ok (.empty .string)
      | some (.fin p true) =>
        match v with
        | .fin q true =>
          if p.den == 1 && p.num ≥ 0 && p.num < 64 then .ok (.ofFloat (Num.mk (ratPowNat q p.num.toNat) true))
          else .ok inexactVariant
        | _ => .ok inexactVariant
      | some _ => .ok inexactVariant
  | .Sqrt =>
    match parseF64? arg with
    | none => .ok (.empty .string)
    | some (.fin q true) =>
      if q.den == 1 && q.num ≥ 0 then
        match natSqrt? q.num.toNat with
        | some r => .ok (.ofFloat (Num.ofNat r))
        | none => .ok inexactVariant
      else if q < 0 then .ok (.ofFloat .nan) else .ok inexactVariant
    | some .inf => .ok (.ofFloat .inf)
    | some .nan | some .ninf => .ok (.ofFloat .nan)
    | some _ => .ok inexactVariant
  | .Log | .Ln | .Exp =>
    match parseF64? arg with
    | none => .ok (.empty .string)
    | some _ =>
      match f, args with
      | .Log, b :: _ => if (parseF64? b).isNone then .ok (.empty .string) else .ok inexactVariant
      | _, _ => .ok inexactVariant
  | .Least =>
    match parseF64? arg with
    | none => .ok (.empty .string)
    | some v => .ok (.ofFloat (args.foldl (fun acc a => match parseF64? a with | some x => numMin acc x | none => acc) v))
  | .Greatest =>
    match parseF64? arg with
    | none => .ok (.empty .string)
    | some v => .ok (.ofFloat (args.foldl (fun acc a => match parseF64? a with | some x => numMax acc x | none => acc) v))
  | .ContainsHiragana => .ok (.ofBool (arg.any isHiragana))
  | .ContainsKatakana => .ok (.ofBool (arg.any isKatakana))
  | .ContainsKana => .ok (.ofBool (arg.any fun c => isHiragana c || isKatakana c))
  | .ContainsKanji => .ok (.ofBool (arg.any isKanji))
  | .ContainsJapanese =>
    if arg.all (fun c => c.toNat < 0x2E80) then .ok (.ofBool false)
    else if arg.any (fun c => isHiragana c || isKatakana c || isKanji c) then .ok (.ofBool true)
    else .error (.unsupported "contains_japanese: punctuation ranges")
  | .FormatTime =>
    if arg.isEmpty then .ok (.empty .string)
    else match parseU64? arg with
      | some n => .ok (.ofString (formatTime n))
      | none => .ok (.empty .string)
  | .CurrentDate => .ok (.ofString (formatDate today))
  | .Year | .Month | .Day | .DayOfWeek =>
    match parseDatetime today arg with
    | .ok a _ =>
      let days := a / 86400
      let (y, m, d) := civilFromDays days
      match f with
      | .Year => .ok (.ofInt y)
      | .Month => .ok (.ofInt m)
      | .Day => .ok (.ofInt d)
      | _ => .ok (.ofInt ((days + 4) % 7 + 1))      -- 1970-01-01 was a Thursday; Sunday = 1
    | .err => .ok (.empty .int)
    | .unsupported => .error (.unsupported "chrono-english date")
  | .Coalesce =>
    if !arg.isEmpty then .ok (.ofString arg)
    else match args.find? (!·.isEmpty) with
      | some a => .ok (.ofString a)
      | none => .ok (.empty .string)
  | .Random =>
    if arg.isEmpty then .error (.unsupported "random")
    else match parseI64? arg with
      | none => .error (.exit2 "Could not parse an argument of RANDOM function")
      | some v =>
        match args with
        | [] => if v ≤ 0 then .error (.exit2 "Upper bound of RANDOM function must be positive") else .error (.unsupported "random")
        | l :: _ =>
          match parseI64? l with
          | none => .error (.exit2 "Could not parse limit argument of RANDOM function")
          | some lim => if v ≥ lim then .error (.exit2 "Upper bound of RANDOM function must exceed the lower bound")
                        else .error (.unsupported "random")
  | _ => .error (.unsupported "function needs an entry or is not modelled")

end Fsel
