/-
  Regular expressions: the fragment of the `regex` crate that fselect's own patterns (glob, LIKE)
  and the generated user patterns use.  Parser + list-of-successes matcher (total: Kleene star only
  iterates on strictly shorter remainders).  Anything outside the fragment parses to `none`
  (`unsupported`), never to a guess.
  Assumed (trusted base): for this fragment the crate's `is_match` is leftmost search with the
  textbook semantics implemented here; `(?i)` = simple case folding on the supported alphabets.
-/
import Fsel.Model.Text

namespace Fsel

/-- simple case folding restricted to the alphabets the generators use -/
def foldChar (c : Char) : Char :=
  let n := c.toNat
  if 'A' ≤ c ∧ c ≤ 'Z' then Char.ofNat (n + 32)
  else if n == 0x212A then 'k'                       -- KELVIN SIGN
  else if n == 0x17F then 's'                        -- LATIN SMALL LETTER LONG S
  else if (0xC0 ≤ n ∧ n ≤ 0xDE ∧ n ≠ 0xD7) then Char.ofNat (n + 32)
  else if (0x410 ≤ n ∧ n ≤ 0x42F) then Char.ofNat (n + 32)
  else if (0x400 ≤ n ∧ n ≤ 0x40F) then Char.ofNat (n + 80)
  else c

inductive CharSet where
  | any (dotAll : Bool)                      -- `.`
  | lit (c : Char)
  | cls (neg : Bool) (items : List (Char × Char))   -- ranges (single char = (c,c))
  deriving Repr, BEq

def CharSet.test (ci : Bool) (cs : CharSet) (c : Char) : Bool :=
  match cs with
  | .any dotAll => dotAll || c != '\n'
  | .lit l => if ci then foldChar l == foldChar c else l == c
  | .cls neg items =>
    let hit := items.any fun (lo, hi) =>
      (lo.toNat ≤ c.toNat && c.toNat ≤ hi.toNat) ||
      (ci && ((lo.toNat ≤ (foldChar c).toNat && (foldChar c).toNat ≤ hi.toNat) ||
              (lo.toNat ≤ (upperAscii c).toNat && (upperAscii c).toNat ≤ hi.toNat)))
    hit != neg

inductive Re where
  | eps
  | chr (ci : Bool) (cs : CharSet)
  | seq (a b : Re)
  | alt (a b : Re)
  | star (a : Re)
  | rep (a : Re) (min : Nat) (max : Option Nat)
  | bol
  | eol
  deriving Repr, BEq

/-- Kleene iteration: remainders reachable by zero or more `step`s that each consume something. -/
def mStar (step : Str → List Str) : Nat → Str → List Str
  | 0, s => [s]
  | f + 1, s => s :: ((step s).filter (fun t => t.length < s.length)).flatMap (mStar step f)

/-- bounded repetition `{min,max}` -/
def mRep (step : Str → List Str) : Nat → Nat → Str → List Str
  | 0, more, s => (List.range (more + 1)).foldl (fun acc _ => acc ++ (acc.flatMap step)) [s] |>.eraseDups
  | k + 1, more, s => (step s).flatMap (mRep step k more)

/-- all remainders of `s` after `r` has matched a prefix; `n` = length of the whole subject -/
def Re.m (r : Re) (n : Nat) (s : Str) : List Str :=
  match r with
  | .eps => [s]
  | .chr ci cs => match s with
    | c :: t => if cs.test ci c then [t] else []
    | [] => []
  | .seq a b => (a.m n s).flatMap (b.m n)
  | .alt a b => a.m n s ++ b.m n s
  | .star a => mStar (a.m n) s.length s
  | .rep a mn mx =>
    match mx with
    | some mxv => if mxv < mn then [] else mRep (a.m n) mn (mxv - mn) s
    | none => (mRep (a.m n) mn 0 s).flatMap (mStar (a.m n) s.length)
  | .bol => if s.length == n then [s] else []
  | .eol => if s.isEmpty then [s] else []

def suffixes : Str → List Str
  | [] => [[]]
  | c :: r => (c :: r) :: suffixes r

/-- `Regex::is_match`: the pattern matches somewhere in the subject -/
def Re.isMatch (r : Re) (subj : Str) : Bool :=
  (suffixes subj).any fun s => !(r.m subj.length s).isEmpty

-- ------------------------------------------------------------------ parser

structure RxFlags where
  ci : Bool := false
  dotAll : Bool := false

def regexMeta : List Char := ['\\', '.', '+', '*', '?', '(', ')', '|', '[', ']', '{', '}', '^', '$', '#', '&', '-', '~']

/-- `regex::escape` of one character -/
def regexEscape (c : Char) : Str := if regexMeta.contains c then ['\\', c] else [c]

def classEscape (c : Char) : Option (List (Char × Char)) :=
  if c == 'd' then some [('0', '9')]
  else if c == 'w' then some [('a', 'z'), ('A', 'Z'), ('0', '9'), ('_', '_')]
  else if c == 's' then some [(' ', ' '), ('\t', '\t'), ('\n', '\n'), ('\r', '\r'), (Char.ofNat 11, Char.ofNat 12)]
  else none

/-- body of a bracket class after `[` / `[^`; returns items and the rest after `]` -/
def parseClassItems : Nat → Str → List (Char × Char) → Option (List (Char × Char) × Str)
  | 0, _, _ => none
  | _ + 1, [], _ => none
  | f + 1, ']' :: r, acc => if acc.isEmpty then parseClassItems f r [(']', ']')] else some (acc, r)
  | f + 1, '\\' :: c :: r, acc =>
    match classEscape c with
    | some items => parseClassItems f r (acc ++ items)
    | none => if isAsciiAlnum c then none else parseClassItems f r (acc ++ [(c, c)])
  | _ + 1, '[' :: _, _ => none        -- nested classes / posix classes: outside the fragment
  | f + 1, a :: '-' :: b :: r, acc =>
    if b == ']' then parseClassItems f ('-' :: b :: r) (acc ++ [(a, a)])
    else if b == '\\' || b == '[' then none
    else if a.toNat ≤ b.toNat then parseClassItems f r (acc ++ [(a, b)]) else none
  | f + 1, a :: r, acc =>
    if a == '&' || a == '~' then none   -- set operations: outside the fragment
    else parseClassItems f r (acc ++ [(a, a)])

def parseNatPrefix (s : Str) : Option (Nat × Str) :=
  let ds := s.takeWhile isDigit
  if ds.isEmpty then none else some (digitsVal ds, s.dropWhile isDigit)

/-- postfix operators after an atom -/
def parsePostfix (a : Re) : Nat → Str → Option (Re × Str)
  | 0, s => some (a, s)
  | f + 1, s =>
    let lazy (r : Str) : Str := match r with | '?' :: t => t | t => t
    match s with
    | '*' :: r => parsePostfix (.star a) f (lazy r)
    | '+' :: r => parsePostfix (.seq a (.star a)) f (lazy r)
    | '?' :: r => parsePostfix (.alt a .eps) f (lazy r)
    | '{' :: r =>
      match parseNatPrefix r with
      | none => none
      | some (mn, r2) =>
        match r2 with
        | '}' :: r3 => parsePostfix (.rep a mn (some mn)) f (lazy r3)
        | ',' :: '}' :: r3 => parsePostfix (.rep a mn none) f (lazy r3)
        | ',' :: r3 =>
          match parseNatPrefix r3 with
          | some (mx, '}' :: r4) => parsePostfix (.rep a mn (some mx)) f (lazy r4)
          | _ => none
        | _ => none
    | _ => some (a, s)

mutual
/-- alternation level; stops at `)` or end -/
def parseAlt (fl : RxFlags) : Nat → Str → Option (Re × Str)
  | 0, _ => none
  | f + 1, s =>
    match parseSeq fl f s .eps with
    | none => none
    | some (a, '|' :: r) =>
      match parseAlt fl f r with
      | some (b, r2) => some (.alt a b, r2)
      | none => none
    | some (a, r) => some (a, r)

def parseSeq (fl : RxFlags) : Nat → Str → Re → Option (Re × Str)
  | 0, _, _ => none
  | f + 1, s, acc =>
    match s with
    | [] => some (acc, [])
    | ')' :: _ => some (acc, s)
    | '|' :: _ => some (acc, s)
    | '(' :: '?' :: r =>
      -- flag groups `(?i)`, `(?s)`, `(?is)`, non-capturing `(?:`
      match r with
      | ':' :: r2 =>
        match parseAlt fl f r2 with
        | some (g, ')' :: r3) =>
          match parsePostfix g f r3 with
          | some (g', r4) => parseSeq fl f r4 (.seq acc g')
          | none => none
        | _ => none
      | _ =>
        let fs := r.takeWhile (fun c => c == 'i' || c == 's')
        match r.dropWhile (fun c => c == 'i' || c == 's') with
        | ')' :: r2 =>
          if fs.isEmpty then none
          else parseSeq { ci := fl.ci || fs.contains 'i', dotAll := fl.dotAll || fs.contains 's' } f r2 acc
        | _ => none
    | '(' :: r =>
      match parseAlt fl f r with
      | some (g, ')' :: r3) =>
        match parsePostfix g f r3 with
        | some (g', r4) => parseSeq fl f r4 (.seq acc g')
        | none => none
      | _ => none
    | '^' :: r => parseSeq fl f r (.seq acc .bol)
    | '$' :: r => parseSeq fl f r (.seq acc .eol)
    | '.' :: r =>
      match parsePostfix (.chr fl.ci (.any fl.dotAll)) f r with
      | some (a, r2) => parseSeq fl f r2 (.seq acc a)
      | none => none
    | '[' :: r =>
      let (neg, r1) := match r with | '^' :: t => (true, t) | t => (false, t)
      match parseClassItems (r1.length + 1) r1 [] with
      | some (items, r2) =>
        match parsePostfix (.chr fl.ci (.cls neg items)) f r2 with
        | some (a, r3) => parseSeq fl f r3 (.seq acc a)
        | none => none
      | none => none
    | '\\' :: c :: r =>
      let atom? : Option Re :=
        match classEscape c with
        | some items => some (.chr fl.ci (.cls false items))
        | none =>
          if c == 'D' || c == 'W' || c == 'S' || c == 'b' || c == 'B' || c == 'A' || c == 'z' || c == 'p' || c == 'P'
             || c == 'x' || c == 'u' || c == 'U' || isDigit c then none
          else if c == 'n' then some (.chr fl.ci (.lit '\n'))
          else if c == 't' then some (.chr fl.ci (.lit '\t'))
          else if c == 'r' then some (.chr fl.ci (.lit '\r'))
          else if isAsciiAlpha c then none
          else some (.chr fl.ci (.lit c))
      match atom? with
      | none => none
      | some a =>
        match parsePostfix a f r with
        | some (a', r2) => parseSeq fl f r2 (.seq acc a')
        | none => none
    | ['\\'] => none
    | '*' :: _ | '+' :: _ | '?' :: _ => none      -- repetition operator missing expression
    | '{' :: _ => none                            -- the crate rejects an unescaped `{` that is no counter; `}` too in new versions
    | c :: r =>
      match parsePostfix (.chr fl.ci (.lit c)) f r with
      | some (a, r2) => parseSeq fl f r2 (.seq acc a)
      | none => none
end

inductive RxParse where
  | ok (r : Re)
  | invalid            -- the crate rejects the pattern (`Regex::new` = Err)
  | unsupported        -- valid or not, outside the modelled fragment
  deriving Repr

/-- `Regex::new` on the modelled fragment.  Patterns that use anything else are `unsupported`;
    only a few unmistakable syntax errors are reported as `invalid`. -/
def rxParse (p : Str) : RxParse :=
  let fuel := 4 * p.length + 8
  -- clearly invalid: unbalanced brackets / dangling repetition at the very start
  let opens := count '(' p
  let closes := count ')' p
  match parseAlt {} fuel p with
  | some (r, []) => .ok r
  | _ =>
    if !p.contains '\\' && !p.contains '[' && opens != closes then .invalid
    else if p == ['*'] || p == ['+'] || p == ['?'] then .invalid
    else if (startsWith p ['*'] || startsWith p ['+'] || startsWith p ['?']) && !p.contains '\\' && !p.contains '[' && !p.contains '(' && !p.contains '{' then .invalid
    else .unsupported

end Fsel
