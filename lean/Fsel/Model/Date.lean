/-
  Dates: util/datetime.rs `parse_datetime`, `format_datetime`, and the civil calendar arithmetic that
  chrono performs (proleptic Gregorian).  Times are *local naive seconds* (seconds since
  1970-01-01 00:00:00 local time): under a fixed-offset zone local = UTC + const, which the harness
  applies when it builds the snapshot.
-/
import Fsel.Model.Text

namespace Fsel

def isLeap (y : Int) : Bool := (y % 4 == 0 && y % 100 != 0) || y % 400 == 0

def daysInMonth (y : Int) (m : Nat) : Nat :=
  match m with
  | 1 | 3 | 5 | 7 | 8 | 10 | 12 => 31
  | 4 | 6 | 9 | 11 => 30
  | 2 => if isLeap y then 29 else 28
  | _ => 0

/-- day of the 400-year era from year of era and day of year (years start on 1 March) -/
def doeOf (yoe doy : Int) : Int := yoe * 365 + yoe / 4 - yoe / 100 + doy

/-- days from 1970-01-01 to y-m-d (Hinnant's `days_from_civil`; `/` on `Int` rounds down, which is what
    the algorithm's sign adjustments compute with truncating division) -/
def daysFromCivil (y : Int) (m d : Nat) : Int :=
  let y' : Int := if m ≤ 2 then y - 1 else y
  let era : Int := y' / 400
  let yoe : Int := y' - era * 400
  let mp : Int := (Int.ofNat m + 9) % 12
  let doy : Int := (153 * mp + 2) / 5 + Int.ofNat d - 1
  era * 146097 + doeOf yoe doy - 719468

/-- year, month, day from era and day of era -/
def civilOfEra (era doe : Int) : Int × Nat × Nat :=
  let yoe : Int := (doe - doe / 1460 + doe / 36524 - doe / 146096) / 365
  let y : Int := yoe + era * 400
  let doy : Int := doe - (365 * yoe + yoe / 4 - yoe / 100)
  let mp : Int := (5 * doy + 2) / 153
  let d : Int := doy - (153 * mp + 2) / 5 + 1
  let m : Int := if mp < 10 then mp + 3 else mp - 9
  (if m ≤ 2 then y + 1 else y, m.toNat, d.toNat)

/-- inverse (Hinnant's `civil_from_days`) -/
def civilFromDays (z0 : Int) : Int × Nat × Nat :=
  let z := z0 + 719468
  let era : Int := z / 146097
  civilOfEra era (z - era * 146097)

def validCivil (y : Int) (m d : Nat) : Bool := 1 ≤ m && m ≤ 12 && 1 ≤ d && d ≤ daysInMonth y m

def secsOf (y : Int) (mo d h mi s : Nat) : Int :=
  daysFromCivil y mo d * 86400 + Int.ofNat (h * 3600 + mi * 60 + s)

def pad2 (n : Nat) : Str := if n < 10 then '0' :: showNat n else showNat n
def pad4 (n : Nat) : Str := List.replicate (4 - (showNat n).length) '0' ++ showNat n

/-- `format_datetime` ("%Y-%m-%d %H:%M:%S") for years 0..9999 -/
def formatDatetime (t : Int) : Str :=
  let days := t / 86400        -- floor division (Int./ is floor for positive divisor)
  let sod := (t % 86400).toNat
  let (y, m, d) := civilFromDays days
  pad4 y.toNat ++ ['-'] ++ pad2 m ++ ['-'] ++ pad2 d ++ [' '] ++ pad2 (sod / 3600) ++ [':'] ++
    pad2 (sod / 60 % 60) ++ [':'] ++ pad2 (sod % 60)

def formatDate (days : Int) : Str :=
  let (y, m, d) := civilFromDays days
  pad4 y.toNat ++ ['-'] ++ pad2 m ++ ['-'] ++ pad2 d

/-- take 1 or 2 digits greedily -/
def digits12 (s : Str) : Option (Str × Str) :=
  match s with
  | a :: b :: r => if isDigit a && isDigit b then some ([a, b], r) else if isDigit a then some ([a], b :: r) else none
  | [a] => if isDigit a then some ([a], []) else none
  | [] => none

def isDateSep (c : Char) : Bool := c == '-' || c == ':'

/-- DATE_REGEX anchored at the start of `s`:
    `(\d{4})(-|:)(\d{1,2})(-|:)(\d{1,2}) ?(\d{1,2})?:?(\d{1,2})?:?(\d{1,2})?` -/
def dateRegexAt (s : Str) : Option (Nat × Nat × Nat × Option Nat × Option Nat × Option Nat) :=
  match s with
  | y1 :: y2 :: y3 :: y4 :: sep1 :: r =>
    if isDigit y1 && isDigit y2 && isDigit y3 && isDigit y4 && isDateSep sep1 then
      match digits12 r with
      | none => none
      | some (mo, r2) =>
        match r2 with
        | sep2 :: r3 =>
          if isDateSep sep2 then
            match digits12 r3 with
            | none => none
            | some (d, r4) =>
              let r5 := match r4 with | ' ' :: t => t | t => t
              let (h, r6) := match digits12 r5 with | some (x, t) => (some (digitsVal x), t) | none => (none, r5)
              let r7 := match r6 with | ':' :: t => t | t => t
              let (mi, r8) := match digits12 r7 with | some (x, t) => (some (digitsVal x), t) | none => (none, r7)
              let r9 := match r8 with | ':' :: t => t | t => t
              let se := match digits12 r9 with | some (x, _) => some (digitsVal x) | none => none
              some (digitsVal [y1, y2, y3, y4], digitsVal mo, digitsVal d, h, mi, se)
          else none
        | [] => none
    else none
  | _ => none

/-- leftmost match of the (unanchored) DATE_REGEX -/
def dateRegexFind : Str → Option (Nat × Nat × Nat × Option Nat × Option Nat × Option Nat)
  | [] => none
  | c :: r =>
    match dateRegexAt (c :: r) with
    | some x => some x
    | none => dateRegexFind r

inductive DateRes where
  | ok (a b : Int)
  | err
  | unsupported        -- chrono-english free-form dates
  deriving Repr, BEq

/-- the interval a matched literal denotes: missing clock fields span their whole range -/
def intervalOfParts (y mo d : Nat) (h mi se : Option Nat) : DateRes :=
  if !validCivil y mo d then .err
  else
    let (h0, h1) := match h with | some v => (v, v) | none => (0, 23)
    let (m0, m1) := match mi with | some v => (v, v) | none => (0, 59)
    let (s0, s1) := match se with | some v => (v, v) | none => (0, 59)
    if h0 ≥ 24 || m0 ≥ 60 || s0 ≥ 60 then .err
    else .ok (secsOf y mo d h0 m0 s0) (secsOf y mo d h1 m1 s1)

/-- `parse_datetime`; `today` = day number of the current local date. -/
def parseDatetime (today : Int) (s : Str) : DateRes :=
  if s == ofS "today" then .ok (today * 86400) (today * 86400 + 86399)
  else if s == ofS "yesterday" then .ok ((today - 1) * 86400) ((today - 1) * 86400 + 86399)
  else
    match dateRegexFind s with
    | some (y, mo, d, h, mi, se) => intervalOfParts y mo d h mi se
    | none =>
      if utf8LenD s ≥ 5 then .unsupported
      else if utf8LenD s ≥ 2 && (startsWith s ['+'] || startsWith s ['-']) then
        match parseI64? s with
        | some n => .ok ((today + n) * 86400) ((today + n) * 86400 + 86399)
        | none => .err
      else .err
where
  utf8LenD (s : Str) : Nat := (s.map Char.utf8Size).sum

end Fsel
