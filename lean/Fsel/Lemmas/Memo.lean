/-
  Locality of `get_column_expr_value`: the value of an expression depends on the per-row memo only
  through the keys the expression itself can touch (the display texts of its sub-expressions).
-/
import Fsel.Model.Eval

namespace Fsel
namespace MemoL

theorem lookup_map_replace (k v : Str) (k' : Str) : ∀ (m : Memo),
    lookup k' (m.map (fun (a, b) => if a == k then (a, v) else (a, b))) =
      if k' = k then (if (lookup k m).isSome then some v else none) else lookup k' m
  | [] => by simp [lookup]
  | (a, b) :: r => by
    have ih := lookup_map_replace k v k' r
    simp only [List.map_cons, lookup]
    by_cases hak : a = k
    · subst hak
      by_cases hk : k' = a
      · subst hk; simp [lookup]
      · have : (a == k') = false := by simpa using (fun h => hk h.symm)
        simp only [beq_self_eq_true, if_true, lookup, this, Bool.false_eq_true, if_false, hk]
        rw [ih]; simp [hk]
    · have hak' : (a == k) = false := by simpa using hak
      simp only [hak', Bool.false_eq_true, if_false, lookup]
      by_cases hk : k' = k
      · subst hk
        have : (a == k') = false := hak'
        simp only [this, Bool.false_eq_true, if_false, if_true]
        rw [ih]; simp
      · by_cases hak2 : a = k'
        · subst hak2; simp [hk]
        · have : (a == k') = false := by simpa using hak2
          simp only [this, Bool.false_eq_true, if_false, hk]
          rw [ih]; simp [hk]

theorem lookup_append_single (k v k' : Str) : ∀ (m : Memo),
    lookup k' (m ++ [(k, v)]) = match lookup k' m with | some x => some x | none => if k = k' then some v else none
  | [] => by simp [lookup]
  | (a, b) :: r => by
    simp only [List.cons_append, lookup]
    split
    · rfl
    · exact lookup_append_single k v k' r

/-- the memo behaves like a finite map -/
theorem get_insert (m : Memo) (k v k' : Str) :
    (m.insert k v).get? k' = if k' = k then some v else m.get? k' := by
  unfold Memo.insert Memo.get?
  split
  · rename_i h
    rw [lookup_map_replace]
    by_cases hk : k' = k
    · simp [hk, h]
    · simp [hk]
  · rename_i h
    rw [lookup_append_single]
    by_cases hk : k' = k
    · subst hk
      have : lookup k' m = none := by
        cases hl : lookup k' m with
        | none => rfl
        | some x => rw [hl] at h; simp at h
      simp [this]
    · have : ¬ k = k' := fun h => hk h.symm
      cases hl : lookup k' m <;> simp [hk, this]

-- the memo keys an expression can read or write
mutual
def keysOf : Expr → List Str
  | .field m f => [(Expr.field m f).display, f.display]
  | .val _ _ => []
  | .func0 m f => [(Expr.func0 m f).display]
  | .func m f l args => (Expr.func m f l args).display :: (keysOf l ++ keysOfList args)
  | .arith l op r => (Expr.arith l op r).display :: (keysOf l ++ keysOf r)
  | .cmp l o r => (Expr.cmp l o r).display :: keysOf l
  | .logic l o r => (Expr.logic l o r).display :: keysOf l
def keysOfList : List Expr → List Str
  | [] => []
  | a :: as => keysOf a ++ keysOfList as
end

/-- two memos agree on a set of keys -/
def Agree (S : Str → Prop) (m m' : Memo) : Prop := ∀ k, S k → m.get? k = m'.get? k

theorem agree_insert (S : Str → Prop) (m m' : Memo) (k v : Str) (h : Agree S m m') :
    Agree S (m.insert k v) (m'.insert k v) := by
  intro k' hk'
  rw [get_insert, get_insert]
  split
  · rfl
  · exact h k' hk'

/-- outcomes related: same error, or same value and memos that still agree -/
def Rel (S : Str → Prop) : EM (Variant × Memo) → EM (Variant × Memo) → Prop
  | .ok (v, m), .ok (v', m') => v = v' ∧ Agree S m m'
  | .error a, .error b => a = b
  | _, _ => False

def RelL (S : Str → Prop) : EM (List Str × Memo × Bool) → EM (List Str × Memo × Bool) → Prop
  | .ok (v, m, b), .ok (v', m', b') => v = v' ∧ b = b' ∧ Agree S m m'
  | .error a, .error b => a = b
  | _, _ => False

theorem applyFn_local (S : Str → Prop) (cx : EvalCtx) (e? : Option Entry) (f : Function) (key : Str) (av : Variant)
    (avs : List Str) (exs : Bool) (m m' : Memo) (h : Agree S m m') :
    Rel S (applyFn cx e? f key av avs exs m) (applyFn cx e? f key av avs exs m') := by
  unfold applyFn
  cases fnValue cx e? f av avs with
  | error er => simp [Rel]
  | ok v => exact ⟨rfl, agree_insert S m m' key _ h⟩

/-- two related outcomes, post-processed the same way, stay related -/
theorem rel_bind (S : Str → Prop) (a b : EM (Variant × Memo)) (k : Variant → Memo → EM (Variant × Memo)) :
    Rel S a b → (∀ v m m', Agree S m m' → Rel S (k v m) (k v m')) →
    Rel S (match a with | .error er => .error er | .ok (v, m) => k v m)
          (match b with | .error er => .error er | .ok (v, m) => k v m) := by
  intro hab hk
  cases a with
  | error ea =>
    cases b with
    | error eb => simpa [Rel] using hab
    | ok q => simp [Rel] at hab
  | ok p =>
    cases b with
    | error eb => simp [Rel] at hab
    | ok q =>
      obtain ⟨v, m⟩ := p
      obtain ⟨v', m'⟩ := q
      obtain ⟨hv, hag⟩ := hab
      subst hv
      exact hk v m m' hag

theorem relL_bind (S : Str → Prop) (a b : EM (List Str × Memo × Bool)) (k : List Str → Memo → Bool → EM (Variant × Memo)) :
    RelL S a b → (∀ v x m m', Agree S m m' → Rel S (k v m x) (k v m' x)) →
    Rel S (match a with | .error er => .error er | .ok (v, m, x) => k v m x)
          (match b with | .error er => .error er | .ok (v, m, x) => k v m x) := by
  intro hab hk
  cases a with
  | error ea =>
    cases b with
    | error eb => simpa [RelL, Rel] using hab
    | ok q => simp [RelL] at hab
  | ok p =>
    cases b with
    | error eb => simp [RelL] at hab
    | ok q =>
      obtain ⟨v, m, x⟩ := p
      obtain ⟨v', m', x'⟩ := q
      obtain ⟨hv, hx, hag⟩ := hab
      subst hv; subst hx
      exact hk v x m m' hag

theorem withMemo_local (S : Str → Prop) (m m' : Memo) (key : Str) (c c' : Unit → EM (Variant × Memo))
    (hkey : S key) (h : Agree S m m') (hc : Rel S (c ()) (c' ())) :
    Rel S (withMemo m key c) (withMemo m' key c') := by
  unfold withMemo
  rw [← h key hkey]
  cases m.get? key with
  | some v => exact ⟨rfl, h⟩
  | none => exact hc

theorem finish_local (S : Str → Prop) (mn : Bool) (key : Str) (v : Variant) (m m' : Memo) (h : Agree S m m') :
    Rel S (.ok (negateIf mn v, m.insert key (negateIf mn v).text)) (.ok (negateIf mn v, m'.insert key (negateIf mn v).text)) :=
  ⟨rfl, agree_insert S m m' key _ h⟩

mutual
/-- **locality**: memos that agree on the keys of `x` give the same value (and keep agreeing) -/
theorem columnValue_local (S : Str → Prop) (cx : EvalCtx) (e? : Option Entry) :
    ∀ (x : Expr) (m m' : Memo), (∀ k ∈ keysOf x, S k) → Agree S m m' →
      Rel S (columnValue cx e? m x) (columnValue cx e? m' x)
  | .val mn v, m, m', _, h => by
    unfold columnValue
    exact ⟨rfl, h⟩
  | .field mn f, m, m', hk, h => by
    unfold columnValue
    apply withMemo_local S m m' _ _ _ (hk _ (by simp [keysOf])) h
    cases e? with
    | some e =>
      simp only
      cases fieldValue cx.cfg e f with
      | ok v => exact ⟨rfl, agree_insert S m m' _ _ h⟩
      | error er => simp [Rel]
    | none =>
      simp only
      rw [← h _ (hk f.display (by simp [keysOf]))]
      cases m.get? f.display with
      | some v => exact ⟨rfl, h⟩
      | none => exact ⟨rfl, h⟩
  | .func0 mn f, m, m', hk, h => by
    unfold columnValue
    apply withMemo_local S m m' _ _ _ (hk _ (by simp [keysOf])) h
    simp only
    apply rel_bind S _ _ (fun v m => .ok (negateIf mn v, m.insert (Expr.func0 mn f).display (negateIf mn v).text))
    · by_cases hagg : f.isAggregate = true
      · simp only [hagg, if_true, aggValue]
        exact ⟨rfl, h⟩
      · simp only [hagg, Bool.false_eq_true, if_false]
        exact applyFn_local S cx e? f _ _ _ _ m m' h
    · intro v a a' ha
      exact finish_local S mn _ v a a' ha
  | .func mn f l args, m, m', hk, h => by
    unfold columnValue
    apply withMemo_local S m m' _ _ _ (hk _ (by simp [keysOf])) h
    simp only
    apply rel_bind S _ _ (fun av m1 =>
      match (if f.isAggregate then (.ok (aggValue cx f l.display m1) : EM (Variant × Memo))
             else match argValues cx e? m1 args with
               | .error er => .error er
               | .ok (avs, m2, exs) => applyFn cx e? f (Expr.func mn f l args).display av avs exs m2) with
      | .error er => .error er
      | .ok (v, m) => .ok (negateIf mn v, m.insert (Expr.func mn f l args).display (negateIf mn v).text))
    · exact columnValue_local S cx e? l m m' (fun k hk' => hk k (by simp [keysOf, hk'])) h
    · intro av m1 m1' hag1
      apply rel_bind S _ _ (fun v m => .ok (negateIf mn v, m.insert (Expr.func mn f l args).display (negateIf mn v).text))
      · by_cases hagg : f.isAggregate = true
        · simp only [hagg, if_true, aggValue]
          exact ⟨rfl, hag1⟩
        · simp only [hagg, Bool.false_eq_true, if_false]
          apply relL_bind S _ _ (fun avs m2 exs => applyFn cx e? f (Expr.func mn f l args).display av avs exs m2)
          · exact argValues_local S cx e? args m1 m1' (fun k hk' => hk k (by simp [keysOf, hk'])) hag1
          · intro avs exs m2 m2' hag2
            exact applyFn_local S cx e? f _ av avs exs m2 m2' hag2
      · intro v a a' ha
        exact finish_local S mn _ v a a' ha
  | .arith l op r, m, m', hk, h => by
    unfold columnValue
    apply withMemo_local S m m' _ _ _ (hk _ (by simp [keysOf])) h
    simp only
    apply rel_bind S _ _ (fun lv m1 =>
      match columnValue cx e? m1 r with
      | .error er => .error er
      | .ok (rv, m2) =>
        .ok ({ op.calc lv rv with exact := (op.calc lv rv).exact && lv.exact && rv.exact },
             m2.insert (Expr.arith l op r).display ({ op.calc lv rv with exact := (op.calc lv rv).exact && lv.exact && rv.exact } : Variant).text))
    · exact columnValue_local S cx e? l m m' (fun k hk' => hk k (by simp [keysOf, hk'])) h
    · intro lv m1 m1' hag1
      apply rel_bind S _ _ (fun rv m2 =>
        .ok ({ op.calc lv rv with exact := (op.calc lv rv).exact && lv.exact && rv.exact },
             m2.insert (Expr.arith l op r).display ({ op.calc lv rv with exact := (op.calc lv rv).exact && lv.exact && rv.exact } : Variant).text))
      · exact columnValue_local S cx e? r m1 m1' (fun k hk' => hk k (by simp [keysOf, hk'])) hag1
      · intro rv m2 m2' hag2
        exact ⟨rfl, agree_insert S m2 m2' _ _ hag2⟩
  | .cmp l o r, m, m', hk, h => by
    unfold columnValue
    apply withMemo_local S m m' _ _ _ (hk _ (by simp [keysOf])) h
    exact columnValue_local S cx e? l m m' (fun k hk' => hk k (by simp [keysOf, hk'])) h
  | .logic l o r, m, m', hk, h => by
    unfold columnValue
    apply withMemo_local S m m' _ _ _ (hk _ (by simp [keysOf])) h
    exact columnValue_local S cx e? l m m' (fun k hk' => hk k (by simp [keysOf, hk'])) h

theorem argValues_local (S : Str → Prop) (cx : EvalCtx) (e? : Option Entry) :
    ∀ (xs : List Expr) (m m' : Memo), (∀ k ∈ keysOfList xs, S k) → Agree S m m' →
      RelL S (argValues cx e? m xs) (argValues cx e? m' xs)
  | [], m, m', _, h => by
    rw [argValues, argValues]
    exact ⟨rfl, rfl, h⟩
  | a :: as, m, m', hk, h => by
    rw [argValues, argValues]
    have ha := columnValue_local S cx e? a m m' (fun k hk' => hk k (by simp [keysOfList, hk'])) h
    cases e1 : columnValue cx e? m a with
    | error er =>
      cases e2 : columnValue cx e? m' a with
      | error er' => rw [e1, e2] at ha; simpa [Rel, RelL] using ha
      | ok p => rw [e1, e2] at ha; simp [Rel] at ha
    | ok p =>
      cases e2 : columnValue cx e? m' a with
      | error er' => rw [e1, e2] at ha; simp [Rel] at ha
      | ok p' =>
        rw [e1, e2] at ha
        obtain ⟨v, m1⟩ := p
        obtain ⟨v', m1'⟩ := p'
        obtain ⟨hv, hag⟩ := ha
        subst hv
        simp only
        have hr := argValues_local S cx e? as m1 m1' (fun k hk' => hk k (by simp [keysOfList, hk'])) hag
        cases r1 : argValues cx e? m1 as with
        | error er =>
          cases r2 : argValues cx e? m1' as with
          | error er' => rw [r1, r2] at hr; simpa [RelL] using hr
          | ok q => rw [r1, r2] at hr; simp [RelL] at hr
        | ok q =>
          cases r2 : argValues cx e? m1' as with
          | error er' => rw [r1, r2] at hr; simp [RelL] at hr
          | ok q' =>
            rw [r1, r2] at hr
            obtain ⟨vs, m2, ex⟩ := q
            obtain ⟨vs', m2', ex'⟩ := q'
            obtain ⟨h1', h2', hag2⟩ := hr
            subst h1'; subst h2'
            exact ⟨rfl, rfl, hag2⟩
end

/-! ### frame: an evaluation writes only the keys of the expression evaluated -/

def Frame (K : Str → Prop) (m : Memo) (r : EM (Variant × Memo)) : Prop :=
  ∀ v m1, r = .ok (v, m1) → ∀ k, ¬ K k → m1.get? k = m.get? k

def FrameL (K : Str → Prop) (m : Memo) (r : EM (List Str × Memo × Bool)) : Prop :=
  ∀ v m1 b, r = .ok (v, m1, b) → ∀ k, ¬ K k → m1.get? k = m.get? k

theorem frame_bind (K : Str → Prop) (m : Memo) (a : EM (Variant × Memo)) (k : Variant → Memo → EM (Variant × Memo)) :
    Frame K m a → (∀ v m1, Frame K m1 (k v m1)) →
    Frame K m (match a with | .error er => .error er | .ok (v, m1) => k v m1) := by
  intro ha hk v' m' h
  cases a with
  | error er => simp at h
  | ok p =>
    obtain ⟨v, m1⟩ := p
    intro k' hk'
    rw [hk v m1 v' m' h k' hk', ha v m1 rfl k' hk']

theorem frameL_bind (K : Str → Prop) (m : Memo) (a : EM (List Str × Memo × Bool)) (k : List Str → Memo → Bool → EM (Variant × Memo)) :
    FrameL K m a → (∀ v m1 b, Frame K m1 (k v m1 b)) →
    Frame K m (match a with | .error er => .error er | .ok (v, m1, b) => k v m1 b) := by
  intro ha hk v' m' h
  cases a with
  | error er => simp at h
  | ok p =>
    obtain ⟨v, m1, b⟩ := p
    intro k' hk'
    rw [hk v m1 b v' m' h k' hk', ha v m1 b rfl k' hk']

theorem frame_ok_insert (K : Str → Prop) (m : Memo) (key : Str) (hkey : K key) (v : Variant) (t : Str) :
    Frame K m (.ok (v, m.insert key t)) := by
  intro v' m' h k hk
  simp only [Except.ok.injEq, Prod.mk.injEq] at h
  rw [← h.2, get_insert]
  have : k ≠ key := fun e => hk (e ▸ hkey)
  simp [this]

theorem frame_ok_same (K : Str → Prop) (m : Memo) (v : Variant) : Frame K m (.ok (v, m)) := by
  intro v' m' h k _
  simp only [Except.ok.injEq, Prod.mk.injEq] at h
  rw [← h.2]

theorem frame_error (K : Str → Prop) (m : Memo) (er : EvalErr) : Frame K m (.error er) := by
  intro v' m' h; simp at h

theorem frame_withMemo (K : Str → Prop) (m : Memo) (key : Str) (c : Unit → EM (Variant × Memo)) (hc : Frame K m (c ())) :
    Frame K m (withMemo m key c) := by
  unfold withMemo
  cases m.get? key with
  | some v => exact frame_ok_same K m _
  | none => exact hc

theorem frame_applyFn (K : Str → Prop) (cx : EvalCtx) (e? : Option Entry) (f : Function) (key : Str) (hkey : K key)
    (av : Variant) (avs : List Str) (exs : Bool) (m : Memo) : Frame K m (applyFn cx e? f key av avs exs m) := by
  unfold applyFn
  cases fnValue cx e? f av avs with
  | error er => exact frame_error K m er
  | ok v => exact frame_ok_insert K m key hkey _ _

theorem frame_mono (K K' : Str → Prop) (m : Memo) (r : EM (Variant × Memo)) (h : ∀ k, K k → K' k) : Frame K m r → Frame K' m r := by
  intro hf v m1 hr k hk
  exact hf v m1 hr k (fun hk' => hk (h k hk'))

mutual
theorem columnValue_frame (K : Str → Prop) (cx : EvalCtx) (e? : Option Entry) :
    ∀ (x : Expr) (m : Memo), (∀ k ∈ keysOf x, K k) → Frame K m (columnValue cx e? m x)
  | .val mn v, m, _ => by
    unfold columnValue
    exact frame_ok_same K m _
  | .field mn f, m, hk => by
    unfold columnValue
    apply frame_withMemo
    cases e? with
    | some e =>
      simp only
      cases fieldValue cx.cfg e f with
      | ok v => exact frame_ok_insert K m _ (hk _ (by simp [keysOf])) _ _
      | error er => exact frame_error K m er
    | none =>
      simp only
      cases m.get? f.display with
      | some v => exact frame_ok_same K m _
      | none => exact frame_ok_same K m _
  | .func0 mn f, m, hk => by
    unfold columnValue
    apply frame_withMemo
    simp only
    apply frame_bind K m _ (fun v m1 => .ok (negateIf mn v, m1.insert (Expr.func0 mn f).display (negateIf mn v).text))
    · by_cases hagg : f.isAggregate = true
      · simp only [hagg, if_true, aggValue]
        exact frame_ok_same K m _
      · simp only [hagg, Bool.false_eq_true, if_false]
        exact frame_applyFn K cx e? f _ (hk _ (by simp [keysOf])) _ _ _ m
    · intro v m1
      exact frame_ok_insert K m1 _ (hk _ (by simp [keysOf])) _ _
  | .func mn f l args, m, hk => by
    unfold columnValue
    apply frame_withMemo
    simp only
    apply frame_bind K m _ (fun av m1 =>
      match (if f.isAggregate then (.ok (aggValue cx f l.display m1) : EM (Variant × Memo))
             else match argValues cx e? m1 args with
               | .error er => .error er
               | .ok (avs, m2, exs) => applyFn cx e? f (Expr.func mn f l args).display av avs exs m2) with
      | .error er => .error er
      | .ok (v, m) => .ok (negateIf mn v, m.insert (Expr.func mn f l args).display (negateIf mn v).text))
    · exact columnValue_frame K cx e? l m (fun k hk' => hk k (by simp [keysOf, hk']))
    · intro av m1
      apply frame_bind K m1 _ (fun v m => .ok (negateIf mn v, m.insert (Expr.func mn f l args).display (negateIf mn v).text))
      · by_cases hagg : f.isAggregate = true
        · simp only [hagg, if_true, aggValue]
          exact frame_ok_same K m1 _
        · simp only [hagg, Bool.false_eq_true, if_false]
          apply frameL_bind K m1 _ (fun avs m2 exs => applyFn cx e? f (Expr.func mn f l args).display av avs exs m2)
          · exact argValues_frame K cx e? args m1 (fun k hk' => hk k (by simp [keysOf, hk']))
          · intro avs m2 exs
            exact frame_applyFn K cx e? f _ (hk _ (by simp [keysOf])) _ _ _ m2
      · intro v m2
        exact frame_ok_insert K m2 _ (hk _ (by simp [keysOf])) _ _
  | .arith l op r, m, hk => by
    unfold columnValue
    apply frame_withMemo
    simp only
    apply frame_bind K m _ (fun lv m1 =>
      match columnValue cx e? m1 r with
      | .error er => .error er
      | .ok (rv, m2) =>
        .ok ({ op.calc lv rv with exact := (op.calc lv rv).exact && lv.exact && rv.exact },
             m2.insert (Expr.arith l op r).display ({ op.calc lv rv with exact := (op.calc lv rv).exact && lv.exact && rv.exact } : Variant).text))
    · exact columnValue_frame K cx e? l m (fun k hk' => hk k (by simp [keysOf, hk']))
    · intro lv m1
      apply frame_bind K m1 _ (fun rv m2 =>
        .ok ({ op.calc lv rv with exact := (op.calc lv rv).exact && lv.exact && rv.exact },
             m2.insert (Expr.arith l op r).display ({ op.calc lv rv with exact := (op.calc lv rv).exact && lv.exact && rv.exact } : Variant).text))
      · exact columnValue_frame K cx e? r m1 (fun k hk' => hk k (by simp [keysOf, hk']))
      · intro rv m2
        exact frame_ok_insert K m2 _ (hk _ (by simp [keysOf])) _ _
  | .cmp l o r, m, hk => by
    unfold columnValue
    apply frame_withMemo
    exact columnValue_frame K cx e? l m (fun k hk' => hk k (by simp [keysOf, hk']))
  | .logic l o r, m, hk => by
    unfold columnValue
    apply frame_withMemo
    exact columnValue_frame K cx e? l m (fun k hk' => hk k (by simp [keysOf, hk']))

theorem argValues_frame (K : Str → Prop) (cx : EvalCtx) (e? : Option Entry) :
    ∀ (xs : List Expr) (m : Memo), (∀ k ∈ keysOfList xs, K k) → FrameL K m (argValues cx e? m xs)
  | [], m, _ => by
    unfold argValues
    intro v m1 b h k _
    simp only [Except.ok.injEq, Prod.mk.injEq] at h
    rw [← h.2.1]
  | a :: as, m, hk => by
    unfold argValues
    have ha := columnValue_frame K cx e? a m (fun k hk' => hk k (by simp [keysOfList, hk']))
    intro vs m2 b h k hkk
    cases e1 : columnValue cx e? m a with
    | error er => rw [e1] at h; simp at h
    | ok p =>
      obtain ⟨v, m1⟩ := p
      rw [e1] at h
      simp only at h
      have hr := argValues_frame K cx e? as m1 (fun k hk' => hk k (by simp [keysOfList, hk']))
      cases e2 : argValues cx e? m1 as with
      | error er => rw [e2] at h; simp at h
      | ok q =>
        obtain ⟨vs', m2', b'⟩ := q
        rw [e2] at h
        simp only [Except.ok.injEq, Prod.mk.injEq] at h
        rw [← h.2.1, hr vs' m2' b' e2 k hkk, ha v m1 e1 k hkk]
end

end MemoL
end Fsel
