/-
  The comparison of grouped-row cells (`cellCmp`, D80 fix) is consistent under swapping its arguments and
  reflexive: `cellCmp y x` is always the mirror image of `cellCmp x y`.  (Transitivity is validated by the
  correspondence and the sortedness oracle, not proved.)
-/
import Fsel.Model.Walk
import Fsel.Lemmas.Criteria

namespace Fsel
namespace CellL
open CriteriaL

def oswap : Ordering → Ordering
  | .lt => .gt | .gt => .lt | .eq => .eq

theorem numTotalCmp_swap (u v : Num) : numTotalCmp v u = oswap (numTotalCmp u v) := by
  cases u <;> cases v <;> simp only [numTotalCmp, oswap]
  rename_i a _ b _
  by_cases h1 : a < b
  · have h2 : ¬ b < a := Rat.not_lt.mpr (Rat.le_of_lt h1)
    have h3 : (b == a) = false := by
      simp only [beq_eq_false_iff_ne, ne_eq]; intro h; subst h; exact absurd h1 (Rat.lt_irrefl)
    simp [h1, h2, h3, oswap]
  · by_cases h2 : a = b
    · subst h2; simp [Rat.lt_irrefl, oswap]
    · have h3 : b < a := Rat.lt_of_le_of_ne (Rat.not_lt.mp h1) (Ne.symm h2)
      have h4 : (a == b) = false := by simp [h2]
      simp [h1, h3, h4, oswap]

theorem intCmp_swap (m n : Int) : ordOfBool (n < m) (n == m) = oswap (ordOfBool (m < n) (m == n)) := by
  unfold ordOfBool
  by_cases h1 : m < n
  · have : ¬ n < m := by omega
    have h3 : (n == m) = false := by simp; omega
    simp [h1, this, h3, oswap]
  · by_cases h2 : m = n
    · subst h2; simp [oswap]
    · have h3 : n < m := by omega
      have h4 : (m == n) = false := by simp [h2]
      simp [h1, h3, h4, oswap]

theorem cmpText_swap (x y : Str) : cmpText y x = oswap (cmpText x y) := by
  unfold cmpText ordOfBool
  by_cases hxy : x = y
  · subst hxy
    have : strLt x x = false := by simp [strLt]
    simp [this, oswap]
  · have hne : (x == y) = false := by simp [hxy]
    have hne' : (y == x) = false := by simp [Ne.symm hxy]
    -- exactly one of the strict comparisons holds
    have h1 := strLe_eq_not_strLt x y
    have h2 := strLe_eq_not_strLt y x
    unfold strLt at h1 h2 ⊢
    have hb1 : (x != y) = true := by simp [hxy]
    have hb2 : (y != x) = true := by simp [Ne.symm hxy]
    simp only [hb1, hb2, Bool.and_true] at h1 h2 ⊢
    cases ha : strLe x y <;> cases hb : strLe y x
    · rw [ha, hb] at h1; simp at h1
    · simp [hne, hne', oswap]
    · simp [hne, hne', oswap]
    · exact absurd (strLe_antisymm x y ha hb) hxy

theorem intKeyCmp_swap (x y : Str) : intKeyCmp y x = oswap (intKeyCmp x y) := by
  unfold intKeyCmp
  cases parseI64? x <;> cases parseI64? y <;> simp only [oswap]
  exact intCmp_swap _ _

/-- **`cellCmp` is mirror-symmetric**: whatever two cells hold (numbers, text, a mix), comparing them the
    other way round gives the opposite answer — in particular the comparison is total, and `x < y` excludes `y < x` -/
theorem cellCmp_swap (x y : Str) : cellCmp y x = oswap (cellCmp x y) := by
  unfold cellCmp
  cases hx : parseF64? x <;> cases hy : parseF64? y
  · exact cmpText_swap x y
  · rfl
  · rfl
  · rename_i u v
    simp only
    rw [numTotalCmp_swap u v]
    cases hn : numTotalCmp u v
    · simp [oswap]
    · simp only [oswap, bne_self_eq_false, Bool.false_eq_true, if_false]
      rw [intKeyCmp_swap x y]
      cases hi : intKeyCmp x y
      · simp [oswap]
      · simp only [oswap, bne_self_eq_false, Bool.false_eq_true, if_false]
        exact cmpText_swap x y
      · simp [oswap]
    · simp [oswap]

theorem cellCmp_refl (x : Str) : cellCmp x x = .eq := by
  have h := cellCmp_swap x x
  cases hc : cellCmp x x <;> rw [hc] at h <;> simp [oswap] at h

end CellL
end Fsel
