/-
  The comparison of grouped-row cells (`cellCmp`, D80 fix) is consistent under swapping its arguments and
  reflexive: `cellCmp y x` is always the mirror image of `cellCmp x y`.  (Transitivity is validated by the
  correspondence and the sortedness oracle, not proved.)
-/
import Fsel.Model.Walk
import Fsel.Lemmas.Criteria
import Fsel.Lemmas.Num

namespace Fsel
namespace CellL
open CriteriaL

def oswap : Ordering → Ordering
  | .lt => .gt | .gt => .lt | .eq => .eq

theorem numTotalCmp_swap (u v : Num) : numTotalCmp v u = oswap (numTotalCmp u v) := by
  cases u <;> cases v <;> simp only [numTotalCmp, oswap]
  rename_i a _ b _
  by_cases h1 : a < b
  · have h2 : ¬ b < a := Rat.not_lt.mpr (Rat.le_of_lt h1)
    have h3 : (b == a) = false := by
      simp only [beq_eq_false_iff_ne, ne_eq]; intro h; subst h; exact absurd h1 (Rat.lt_irrefl)
    simp [h1, h2, h3, oswap]
  · by_cases h2 : a = b
    · subst h2; simp [Rat.lt_irrefl, oswap]
    · have h3 : b < a := Rat.lt_of_le_of_ne (Rat.not_lt.mp h1) (Ne.symm h2)
      have h4 : (a == b) = false := by simp [h2]
      simp [h1, h3, h4, oswap]

theorem intCmp_swap (m n : Int) : ordOfBool (n < m) (n == m) = oswap (ordOfBool (m < n) (m == n)) := by
  unfold ordOfBool
  by_cases h1 : m < n
  · have : ¬ n < m := by omega
    have h3 : (n == m) = false := by simp; omega
    simp [h1, this, h3, oswap]
  · by_cases h2 : m = n
    · subst h2; simp [oswap]
    · have h3 : n < m := by omega
      have h4 : (m == n) = false := by simp [h2]
      simp [h1, h3, h4, oswap]

theorem cmpText_swap (x y : Str) : cmpText y x = oswap (cmpText x y) := by
  unfold cmpText ordOfBool
  by_cases hxy : x = y
  · subst hxy
    have : strLt x x = false := by simp [strLt]
    simp [this, oswap]
  · have hne : (x == y) = false := by simp [hxy]
    have hne' : (y == x) = false := by simp [Ne.symm hxy]
    -- exactly one of the strict comparisons holds
    have h1 := strLe_eq_not_strLt x y
    have h2 := strLe_eq_not_strLt y x
    unfold strLt at h1 h2 ⊢
    have hb1 : (x != y) = true := by simp [hxy]
    have hb2 : (y != x) = true := by simp [Ne.symm hxy]
    simp only [hb1, hb2, Bool.and_true] at h1 h2 ⊢
    cases ha : strLe x y <;> cases hb : strLe y x
    · rw [ha, hb] at h1; simp at h1
    · simp [hne, hne', oswap]
    · simp [hne, hne', oswap]
    · exact absurd (strLe_antisymm x y ha hb) hxy

theorem intKeyCmp_swap (x y : Str) : intKeyCmp y x = oswap (intKeyCmp x y) := by
  unfold intKeyCmp
  cases parseI64? x <;> cases parseI64? y <;> simp only [oswap]
  exact intCmp_swap _ _

/-- **`cellCmp` is mirror-symmetric**: whatever two cells hold (numbers, text, a mix), comparing them the
    other way round gives the opposite answer — in particular the comparison is total, and `x < y` excludes `y < x` -/
theorem cellCmp_swap (x y : Str) : cellCmp y x = oswap (cellCmp x y) := by
  unfold cellCmp
  cases hx : parseF64? x <;> cases hy : parseF64? y
  · exact cmpText_swap x y
  · rfl
  · rfl
  · rename_i u v
    simp only
    rw [numTotalCmp_swap u v]
    cases hn : numTotalCmp u v
    · simp [oswap]
    · simp only [oswap, bne_self_eq_false, Bool.false_eq_true, if_false]
      rw [intKeyCmp_swap x y]
      cases hi : intKeyCmp x y
      · simp [oswap]
      · simp only [oswap, bne_self_eq_false, Bool.false_eq_true, if_false]
        exact cmpText_swap x y
      · simp [oswap]
    · simp [oswap]

theorem cellCmp_refl (x : Str) : cellCmp x x = .eq := by
  have h := cellCmp_swap x x
  cases hc : cellCmp x x <;> rw [hc] at h <;> simp [oswap] at h

/-! ### transitivity: every comparison that is "the order of a key", and lexicographic combinations of such -/

/-- a comparison that behaves like the order of a key: mirror-symmetric, and `<` / `=` compose -/
structure IsOrd {α : Type} (c : α → α → Ordering) : Prop where
  swap : ∀ x y, c y x = oswap (c x y)
  lt_lt : ∀ x y z, c x y = .lt → c y z = .lt → c x z = .lt
  eq_eq : ∀ x y z, c x y = .eq → c y z = .eq → c x z = .eq
  eq_lt : ∀ x y z, c x y = .eq → c y z = .lt → c x z = .lt
  lt_eq : ∀ x y z, c x y = .lt → c y z = .eq → c x z = .lt

/-- first `c1`, and `c2` where `c1` ties -/
def lex2 {α : Type} (c1 c2 : α → α → Ordering) (x y : α) : Ordering :=
  if c1 x y != .eq then c1 x y else c2 x y

theorem lex2_eq {α : Type} (c1 c2 : α → α → Ordering) (x y : α) :
    lex2 c1 c2 x y = match c1 x y with | .eq => c2 x y | o => o := by
  unfold lex2; cases c1 x y <;> rfl

theorem isOrd_lex2 {α : Type} (c1 c2 : α → α → Ordering) (h1 : IsOrd c1) (h2 : IsOrd c2) : IsOrd (lex2 c1 c2) := by
  constructor
  · intro x y
    simp only [lex2_eq, h1.swap x y]
    cases c1 x y <;> simp only [oswap]
    exact h2.swap x y
  all_goals
    intro x y z hxy hyz
    simp only [lex2_eq] at hxy hyz ⊢
    cases e1 : c1 x y <;> cases e2 : c1 y z <;> rw [e1] at hxy <;> rw [e2] at hyz <;> simp only at hxy hyz <;>
      first
        | contradiction
        | (have := h1.lt_lt x y z e1 e2; rw [this])
        | (have := h1.eq_eq x y z e1 e2; rw [this]; simp only
           first
             | exact h2.lt_lt x y z hxy hyz
             | exact h2.eq_eq x y z hxy hyz
             | exact h2.eq_lt x y z hxy hyz
             | exact h2.lt_eq x y z hxy hyz)
        | (have := h1.eq_lt x y z e1 e2; rw [this])
        | (have := h1.lt_eq x y z e1 e2; rw [this])

/-- the order of a key under a comparison that is itself an order -/
theorem isOrd_comap {α β : Type} (c : β → β → Ordering) (f : α → β) (h : IsOrd c) : IsOrd (fun x y => c (f x) (f y)) :=
  ⟨fun x y => h.swap _ _, fun x y z => h.lt_lt _ _ _, fun x y z => h.eq_eq _ _ _, fun x y z => h.eq_lt _ _ _, fun x y z => h.lt_eq _ _ _⟩

def intOrdC (m n : Int) : Ordering := ordOfBool (m < n) (m == n)

theorem isOrd_int : IsOrd intOrdC := by
  have val : ∀ m n : Int, (intOrdC m n = .lt ↔ m < n) ∧ (intOrdC m n = .eq ↔ m = n) := by
    intro m n
    unfold intOrdC ordOfBool
    by_cases h1 : m < n
    · have : m ≠ n := by omega
      simp [h1, this]
    · by_cases h2 : m = n
      · simp [h2]
      · simp [h1, h2]
  constructor
  · intro x y; exact intCmp_swap x y
  · intro x y z a b; rw [(val x z).1]; have := (val x y).1.mp a; have := (val y z).1.mp b; omega
  · intro x y z a b; rw [(val x z).2]; have := (val x y).2.mp a; have := (val y z).2.mp b; omega
  · intro x y z a b; rw [(val x z).1]; have := (val x y).2.mp a; have := (val y z).1.mp b; omega
  · intro x y z a b; rw [(val x z).1]; have := (val x y).1.mp a; have := (val y z).2.mp b; omega

/-- `Option Int` with `none` last -/
def optIntC : Option Int → Option Int → Ordering
  | some m, some n => intOrdC m n
  | some _, none => .lt
  | none, some _ => .gt
  | none, none => .eq

theorem isOrd_optInt : IsOrd optIntC := by
  constructor
  · intro x y; cases x <;> cases y <;> simp only [optIntC, oswap]; exact isOrd_int.swap _ _
  all_goals
    intro x y z a b
    cases x <;> cases y <;> cases z <;> simp only [optIntC] at a b ⊢ <;>
      first
        | contradiction
        | rfl
        | exact isOrd_int.lt_lt _ _ _ a b
        | exact isOrd_int.eq_eq _ _ _ a b
        | exact isOrd_int.eq_lt _ _ _ a b
        | exact isOrd_int.lt_eq _ _ _ a b

theorem intKeyCmp_eq (x y : Str) : intKeyCmp x y = optIntC (parseI64? x) (parseI64? y) := by
  unfold intKeyCmp
  cases parseI64? x <;> cases parseI64? y <;> rfl

theorem isOrd_text : IsOrd cmpText := by
  have val : ∀ x y : Str, (cmpText x y = .lt ↔ (strLe x y = true ∧ x ≠ y)) ∧ (cmpText x y = .eq ↔ x = y) := by
    intro x y
    unfold cmpText ordOfBool strLt
    by_cases hxy : x = y
    · subst hxy; simp
    · have hb : (x != y) = true := by simp [hxy]
      have hne : (x == y) = false := by simp [hxy]
      cases h : strLe x y <;> simp [hb, hne, hxy]
  constructor
  · exact cmpText_swap
  · intro x y z a b
    obtain ⟨a1, a2⟩ := (val x y).1.mp a
    obtain ⟨b1, b2⟩ := (val y z).1.mp b
    rw [(val x z).1]
    refine ⟨strLe_trans x y z a1 b1, ?_⟩
    intro h; subst h
    exact a2 (strLe_antisymm x y a1 b1)
  · intro x y z a b
    rw [(val x z).2]; rw [(val x y).2.mp a, (val y z).2.mp b]
  · intro x y z a b
    have := (val x y).2.mp a; subst this; exact b
  · intro x y z a b
    have := (val y z).2.mp b; subst this; exact a

def ratC (a b : Rat) : Ordering := if a < b then .lt else if a == b then .eq else .gt

theorem rat_lt_trans {a b c : Rat} (h1 : a < b) (h2 : b < c) : a < c := by
  have hle : a ≤ c := Rat.le_trans (Rat.le_of_lt h1) (Rat.le_of_lt h2)
  refine Rat.lt_of_le_of_ne hle ?_
  intro h; subst h
  exact absurd (Rat.le_antisymm (Rat.le_of_lt h1) (Rat.le_of_lt h2)) (by intro h; subst h; exact Rat.lt_irrefl h1)

theorem isOrd_rat : IsOrd ratC := by
  have val : ∀ a b : Rat, (ratC a b = .lt ↔ a < b) ∧ (ratC a b = .eq ↔ a = b) := by
    intro a b
    unfold ratC
    by_cases h1 : a < b
    · have : a ≠ b := by intro h; subst h; exact Rat.lt_irrefl h1
      simp [h1, this]
    · by_cases h2 : a = b
      · subst h2; simp [Rat.lt_irrefl]
      · simp [h1, h2]
  have sw : ∀ a b : Rat, ratC b a = oswap (ratC a b) := by
    intro a b
    unfold ratC
    by_cases h1 : a < b
    · have h2 : ¬ b < a := Rat.not_lt.mpr (Rat.le_of_lt h1)
      have h3 : (b == a) = false := by
        simp only [beq_eq_false_iff_ne, ne_eq]; intro h; subst h; exact absurd h1 Rat.lt_irrefl
      simp [h1, h2, h3, oswap]
    · by_cases h2 : a = b
      · subst h2; simp [Rat.lt_irrefl, oswap]
      · have h3 : b < a := Rat.lt_of_le_of_ne (Rat.not_lt.mp h1) (Ne.symm h2)
        have h4 : (a == b) = false := by simp [h2]
        simp [h1, h3, h4, oswap]
  constructor
  · exact sw
  · intro x y z a b; rw [(val x z).1]; exact rat_lt_trans ((val x y).1.mp a) ((val y z).1.mp b)
  · intro x y z a b; rw [(val x z).2]; rw [(val x y).2.mp a, (val y z).2.mp b]
  · intro x y z a b; have := (val x y).2.mp a; subst this; exact b
  · intro x y z a b; have := (val y z).2.mp b; subst this; exact a

theorem numTotalCmp_fin (a b : Rat) (e1 e2 : Bool) : numTotalCmp (.fin a e1) (.fin b e2) = ratC a b := rfl

theorem isOrd_num : IsOrd numTotalCmp := by
  constructor
  · exact fun u v => numTotalCmp_swap u v
  all_goals
    intro x y z a b
    cases x <;> cases y <;> cases z <;>
      first
        | (simp only [numTotalCmp_fin] at a b ⊢
           first
             | exact isOrd_rat.lt_lt _ _ _ a b
             | exact isOrd_rat.eq_eq _ _ _ a b
             | exact isOrd_rat.eq_lt _ _ _ a b
             | exact isOrd_rat.lt_eq _ _ _ a b)
        | (simp only [numTotalCmp] at a b ⊢ <;> first | contradiction | rfl)

/-- numbers (`true`) before everything else -/
def clsB : Bool → Bool → Ordering
  | true, false => .lt
  | false, true => .gt
  | _, _ => .eq

theorem isOrd_clsB : IsOrd clsB := by
  constructor
  · intro x y; cases x <;> cases y <;> rfl
  all_goals
    intro x y z a b
    cases x <;> cases y <;> cases z <;> simp only [clsB] at a b ⊢ <;> first | contradiction | rfl

/-- the key of a cell: is it a number, which one, which integer, which text -/
def clsC (x y : Str) : Ordering := clsB (parseF64? x).isSome (parseF64? y).isSome

theorem isOrd_cls : IsOrd clsC := isOrd_comap clsB (fun x => (parseF64? x).isSome) isOrd_clsB

def numKey (x : Str) : Num := (parseF64? x).getD .nan

/-- `cellCmp` is the lexicographic order of (class, number, integer spelling, text) -/
theorem cellCmp_eq_lex (hI : ∀ x : Str, parseF64? x = none → parseI64? x = none) (x y : Str) :
    cellCmp x y = lex2 clsC (lex2 (fun a b => numTotalCmp (numKey a) (numKey b)) (lex2 intKeyCmp cmpText)) x y := by
  unfold cellCmp
  simp only [lex2_eq, clsC, numKey]
  cases hx : parseF64? x <;> cases hy : parseF64? y <;> simp only [Option.isSome, Option.getD, clsB]
  · -- two texts: no number, no integer
    have h1 : numTotalCmp Num.nan Num.nan = .eq := rfl
    rw [h1]
    simp only [intKeyCmp, hI x hx, hI y hy]
  · rename_i u v
    cases hn : numTotalCmp u v <;> simp only [bne_self_eq_false, Bool.false_eq_true, if_false] <;>
      first
        | rfl
        | (cases hi : intKeyCmp x y <;> simp)

/-- **ORDER BY over group rows compares cells by a total order** (given that a text which is no float literal is no
    integer literal either — true of the two Rust parsers; decided for the model's by the correspondence): the
    comparison is transitive in all four `<`/`=` combinations and mirror-symmetric, for every mix of numbers and text -/
theorem isOrd_cellCmp (hI : ∀ x : Str, parseF64? x = none → parseI64? x = none) : IsOrd cellCmp := by
  have hlex : IsOrd (lex2 clsC (lex2 (fun a b => numTotalCmp (numKey a) (numKey b)) (lex2 intKeyCmp cmpText))) := by
    refine isOrd_lex2 _ _ isOrd_cls (isOrd_lex2 _ _ (isOrd_comap numTotalCmp numKey isOrd_num) (isOrd_lex2 _ _ ?_ isOrd_text))
    have : intKeyCmp = fun a b => optIntC (parseI64? a) (parseI64? b) := by
      funext a b; exact intKeyCmp_eq a b
    rw [this]
    exact isOrd_comap optIntC parseI64? isOrd_optInt
  have heq : cellCmp = lex2 clsC (lex2 (fun a b => numTotalCmp (numKey a) (numKey b)) (lex2 intKeyCmp cmpText)) := by
    funext x y; exact cellCmp_eq_lex hI x y
  rw [heq]; exact hlex

/-- … unconditionally: the model's integer parser accepts nothing its float parser rejects -/
theorem cellCmp_isOrd : IsOrd cellCmp := isOrd_cellCmp NumL.parseF64_none_parseI64_none

/-- a comparison of rows by several keys, each in its own direction, built from an order of the cells, is an order
    of the rows whenever … it is what `groupedCmp` computes: here its transitivity for `≤` on one key -/
theorem cellCmp_le_trans (x y z : Str) (h1 : cellCmp x y ≠ .gt) (h2 : cellCmp y z ≠ .gt) : cellCmp x z ≠ .gt := by
  have o := cellCmp_isOrd
  cases a : cellCmp x y <;> cases b : cellCmp y z <;> first
    | exact absurd a h1
    | exact absurd b h2
    | (rw [o.lt_lt x y z a b]; decide)
    | (rw [o.lt_eq x y z a b]; decide)
    | (rw [o.eq_lt x y z a b]; decide)
    | (rw [o.eq_eq x y z a b]; decide)

/-! ### rows: several keys, each in its own direction -/

theorem ordRev_eq_oswap (o : Ordering) : ordRev o = oswap o := by cases o <;> rfl

theorem isOrd_rev {α : Type} (c : α → α → Ordering) (h : IsOrd c) : IsOrd (fun x y => ordRev (c x y)) := by
  constructor
  · intro x y; simp only [ordRev_eq_oswap, h.swap x y]
  · intro x y z a b
    simp only [ordRev_eq_oswap] at a b ⊢
    have a' : c y x = .lt := by rw [h.swap x y]; cases hc : c x y <;> rw [hc] at a <;> simp [oswap] at a ⊢
    have b' : c z y = .lt := by rw [h.swap y z]; cases hc : c y z <;> rw [hc] at b <;> simp [oswap] at b ⊢
    have := h.lt_lt z y x b' a'
    rw [h.swap z x, this]; rfl
  · intro x y z a b
    simp only [ordRev_eq_oswap] at a b ⊢
    have a' : c x y = .eq := by cases hc : c x y <;> rw [hc] at a <;> simp [oswap] at a ⊢
    have b' : c y z = .eq := by cases hc : c y z <;> rw [hc] at b <;> simp [oswap] at b ⊢
    rw [h.eq_eq x y z a' b']; rfl
  · intro x y z a b
    simp only [ordRev_eq_oswap] at a b ⊢
    have a' : c y x = .eq := by rw [h.swap x y]; cases hc : c x y <;> rw [hc] at a <;> simp [oswap] at a ⊢
    have b' : c z y = .lt := by rw [h.swap y z]; cases hc : c y z <;> rw [hc] at b <;> simp [oswap] at b ⊢
    have := h.lt_eq z y x b' a'
    rw [h.swap z x, this]; rfl
  · intro x y z a b
    simp only [ordRev_eq_oswap] at a b ⊢
    have a' : c y x = .lt := by rw [h.swap x y]; cases hc : c x y <;> rw [hc] at a <;> simp [oswap] at a ⊢
    have b' : c z y = .eq := by rw [h.swap y z]; cases hc : c y z <;> rw [hc] at b <;> simp [oswap] at b ⊢
    have := h.eq_lt z y x b' a'
    rw [h.swap z x, this]; rfl

theorem isOrd_const {α : Type} : IsOrd (fun (_ _ : α) => Ordering.eq) where
  swap := fun _ _ => rfl
  lt_lt := fun _ _ _ a _ => by cases a
  eq_eq := fun _ _ _ _ _ => rfl
  eq_lt := fun _ _ _ _ b => by cases b
  lt_eq := fun _ _ _ a _ => by cases a

def cellAt (i : Nat) (a : List (Str × Str)) : Str := (a[i]?.map (·.2)).getD []

/-- **ORDER BY over group rows compares the rows by a total order**: for every list of key positions and every
    list of directions `groupedCmp` is mirror-symmetric and transitive — the lexicographic combination of the cell
    order on each key, reversed for `desc` -/
theorem isOrd_groupedCmp (idxs : List Nat) (asc : List Bool) : IsOrd (groupedCmp idxs asc) := by
  induction idxs generalizing asc with
  | nil =>
    have : groupedCmp [] asc = fun _ _ => Ordering.eq := by funext a b; simp [groupedCmp]
    rw [this]; exact isOrd_const
  | cons i is ih =>
    cases asc with
    | nil =>
      have : groupedCmp (i :: is) [] = fun _ _ => Ordering.eq := by funext a b; simp [groupedCmp]
      rw [this]; exact isOrd_const
    | cons d ds =>
      have hkey : IsOrd (fun a b : List (Str × Str) => cellCmp (cellAt i a) (cellAt i b)) :=
        isOrd_comap cellCmp (cellAt i) cellCmp_isOrd
      have hdir : IsOrd (fun a b : List (Str × Str) => if d then cellCmp (cellAt i a) (cellAt i b) else ordRev (cellCmp (cellAt i a) (cellAt i b))) := by
        cases d
        · simpa using isOrd_rev _ hkey
        · simpa using hkey
      have : groupedCmp (i :: is) (d :: ds) =
          lex2 (fun a b => if d then cellCmp (cellAt i a) (cellAt i b) else ordRev (cellCmp (cellAt i a) (cellAt i b))) (groupedCmp is ds) := by
        funext a b
        cases d <;> rfl
      rw [this]
      exact isOrd_lex2 _ _ hdir (ih ds)

end CellL
end Fsel
