/-
  The civil-calendar arithmetic (`daysFromCivil` / `civilFromDays`, Hinnant's algorithms as chrono performs
  them) are inverse to each other on valid dates — for every year, also negative ones.
-/
import Fsel.Model.Date

namespace Fsel
namespace CivilL

/-- the year of era is recovered from the day of era -/
theorem yoe_recover (yoe doy : Int) (h0 : 0 ≤ yoe) (h1 : yoe ≤ 399) (hd0 : 0 ≤ doy) (hd1 : doy ≤ 365)
    (hleap : doy = 365 → ((yoe + 1) % 4 = 0 ∧ ((yoe + 1) % 100 ≠ 0 ∨ yoe = 399))) :
    (doeOf yoe doy - doeOf yoe doy / 1460 + doeOf yoe doy / 36524 - doeOf yoe doy / 146096) / 365 = yoe ∧
    0 ≤ doeOf yoe doy ∧ doeOf yoe doy ≤ 146096 := by
  unfold doeOf
  -- yoe = 100 c + 4 s + t
  obtain ⟨c, s, t, hc0, hc3, hs0, hs24, ht0, ht3, hyoe⟩ :
      ∃ c s t : Int, 0 ≤ c ∧ c ≤ 3 ∧ 0 ≤ s ∧ s ≤ 24 ∧ 0 ≤ t ∧ t ≤ 3 ∧ yoe = 100 * c + 4 * s + t :=
    ⟨yoe / 100, yoe % 100 / 4, yoe % 100 % 4, by omega, by omega, by omega, by omega, by omega, by omega, by omega⟩
  have hq : yoe / 4 = 25 * c + s := by omega
  have hcc : yoe / 100 = c := by omega
  rw [hq, hcc]
  generalize hNdef : yoe * 365 + (25 * c + s) - c + doy = N
  have hN : N = 36524 * c + 1461 * s + 365 * t + doy := by omega
  refine ⟨?_, by omega, by omega⟩
  by_cases hedge : c = 3 ∧ s = 24 ∧ t = 3 ∧ doy = 365
  · obtain ⟨rfl, rfl, rfl, rfl⟩ := hedge
    subst hN; subst hyoe
    decide
  · have hM : 1461 * s + 365 * t + doy ≤ 36523 := by
      by_cases h365 : doy = 365
      · have := hleap h365
        omega
      · omega
    have e1 : N / 36524 = c := by omega
    have e2 : N / 146096 = 0 := by omega
    rw [e1, e2]
    by_cases hδ : 24 * c + s + 365 * t + doy ≥ 1460
    · have e3 : N / 1460 = 25 * c + s + 1 := by omega
      rw [e3]
      have : N - (25 * c + s + 1) + c - 0 = 365 * yoe + (doy - 1) := by omega
      rw [this]
      omega
    · have e3 : N / 1460 = 25 * c + s := by omega
      rw [e3]
      have : N - (25 * c + s) + c - 0 = 365 * yoe + doy := by omega
      rw [this]
      have : doy ≤ 364 := by
        by_cases h365 : doy = 365
        · have := hleap h365
          omega
        · omega
      omega

/-- month and day are recovered from the day of year (years starting on 1 March) -/
theorem month_day_recover (mp d : Int) (hmp0 : 0 ≤ mp) (hmp : mp ≤ 11) (hd1 : 1 ≤ d)
    (hd : d ≤ (153 * (mp + 1) + 2) / 5 - (153 * mp + 2) / 5) :
    (5 * ((153 * mp + 2) / 5 + d - 1) + 2) / 153 = mp := by
  have h : mp = 0 ∨ mp = 1 ∨ mp = 2 ∨ mp = 3 ∨ mp = 4 ∨ mp = 5 ∨ mp = 6 ∨ mp = 7 ∨ mp = 8 ∨ mp = 9 ∨ mp = 10 ∨ mp = 11 := by
    omega
  rcases h with rfl | rfl | rfl | rfl | rfl | rfl | rfl | rfl | rfl | rfl | rfl | rfl <;> omega

theorem isLeap_iff (y : Int) : isLeap y = true ↔ (y % 4 = 0 ∧ (y % 100 ≠ 0 ∨ y % 400 = 0)) := by
  simp only [isLeap, Bool.or_eq_true, Bool.and_eq_true, beq_iff_eq, bne_iff_ne, ne_eq]
  constructor <;> intro h <;> omega

/-- **`civil_from_days ∘ days_from_civil` is the identity on valid dates** (proleptic Gregorian, any year) -/
theorem civil_roundtrip (y : Int) (m d : Nat) (hv : validCivil y m d = true) :
    civilFromDays (daysFromCivil y m d) = (y, m, d) := by
  simp only [validCivil, Bool.and_eq_true, decide_eq_true_eq] at hv
  obtain ⟨⟨⟨hm1, hm12⟩, hd1⟩, hdm⟩ := hv
  -- names for the intermediate quantities
  generalize hy' : (if m ≤ 2 then y - 1 else y : Int) = y'
  generalize hera : y' / 400 = era
  generalize hyoe : y' - era * 400 = yoe
  generalize hmp : (Int.ofNat m + 9) % 12 = mp
  generalize hdoy : (153 * mp + 2) / 5 + Int.ofNat d - 1 = doy
  have hdfc : daysFromCivil y m d = era * 146097 + doeOf yoe doy - 719468 := by
    unfold daysFromCivil
    simp only [hy', hera, hyoe, hmp, hdoy]
  have hyoe0 : 0 ≤ yoe ∧ yoe ≤ 399 := by omega
  have hmpr : 0 ≤ mp ∧ mp ≤ 11 := by omega
  -- the month as a number, the day bound per month
  have hmcases : m = 1 ∨ m = 2 ∨ m = 3 ∨ m = 4 ∨ m = 5 ∨ m = 6 ∨ m = 7 ∨ m = 8 ∨ m = 9 ∨ m = 10 ∨ m = 11 ∨ m = 12 := by omega
  have hleapy : isLeap y = true ↔ (y % 4 = 0 ∧ (y % 100 ≠ 0 ∨ y % 400 = 0)) := isLeap_iff y
  have hdbound : (Int.ofNat d) ≤ (153 * (mp + 1) + 2) / 5 - (153 * mp + 2) / 5 ∧
      (doy = 365 → ((yoe + 1) % 4 = 0 ∧ ((yoe + 1) % 100 ≠ 0 ∨ yoe = 399))) ∧ 0 ≤ doy ∧ doy ≤ 365 := by
    by_cases hL : isLeap y = true
    · have hLa := hleapy.mp hL
      rcases hmcases with rfl | rfl | rfl | rfl | rfl | rfl | rfl | rfl | rfl | rfl | rfl | rfl <;>
        simp only [daysInMonth, hL, if_true] at hdm <;> simp only [Int.ofNat_eq_natCast] at * <;> omega
    · have hLa : ¬ (y % 4 = 0 ∧ (y % 100 ≠ 0 ∨ y % 400 = 0)) := fun h => hL (hleapy.mpr h)
      rcases hmcases with rfl | rfl | rfl | rfl | rfl | rfl | rfl | rfl | rfl | rfl | rfl | rfl <;>
        simp only [daysInMonth, hL, Bool.false_eq_true, if_false] at hdm <;> simp only [Int.ofNat_eq_natCast] at * <;> omega
  obtain ⟨hdle, hlp, hdoy0, hdoy365⟩ := hdbound
  obtain ⟨hrec, hdoe0, hdoe1⟩ := yoe_recover yoe doy hyoe0.1 hyoe0.2 hdoy0 hdoy365 hlp
  have hmd := month_day_recover mp (Int.ofNat d) hmpr.1 hmpr.2 (by simp only [Int.ofNat_eq_natCast]; omega) hdle
  -- the inverse
  unfold civilFromDays
  simp only [hdfc]
  have hz : era * 146097 + doeOf yoe doy - 719468 + 719468 = era * 146097 + doeOf yoe doy := by omega
  have hera2 : (era * 146097 + doeOf yoe doy) / 146097 = era := by omega
  have hdoe2 : era * 146097 + doeOf yoe doy - era * 146097 = doeOf yoe doy := by omega
  rw [hz, hera2, hdoe2]
  unfold civilOfEra
  simp only [hrec]
  have hdoy2 : doeOf yoe doy - (365 * yoe + yoe / 4 - yoe / 100) = doy := by unfold doeOf; omega
  rw [hdoy2]
  have hmp2 : (5 * doy + 2) / 153 = mp := by rw [← hdoy]; exact hmd
  rw [hmp2]
  have hd2 : doy - (153 * mp + 2) / 5 + 1 = Int.ofNat d := by omega
  rw [hd2]
  refine Prod.ext ?_ (Prod.ext ?_ ?_)
  · simp only
    rcases hmcases with rfl | rfl | rfl | rfl | rfl | rfl | rfl | rfl | rfl | rfl | rfl | rfl <;>
      simp only [Int.ofNat_eq_natCast] at * <;> split <;> split <;> omega
  · simp only
    rcases hmcases with rfl | rfl | rfl | rfl | rfl | rfl | rfl | rfl | rfl | rfl | rfl | rfl <;>
      simp only [Int.ofNat_eq_natCast] at * <;> split <;> omega
  · simp

/-- every day of an era is the day of a valid (year of era, day of year) pair -/
theorem doe_decompose (doe : Int) (h0 : 0 ≤ doe) (h1 : doe ≤ 146096) :
    ∃ yoe doy : Int, 0 ≤ yoe ∧ yoe ≤ 399 ∧ 0 ≤ doy ∧ doy ≤ 365 ∧
      (doy = 365 → ((yoe + 1) % 4 = 0 ∧ ((yoe + 1) % 100 ≠ 0 ∨ yoe = 399))) ∧ doe = doeOf yoe doy := by
  -- century, 4-year cycle, year in cycle, day
  obtain ⟨c, r, hc0, hc3, hr0, hr1, hrc, hdoe⟩ :
      ∃ c r : Int, 0 ≤ c ∧ c ≤ 3 ∧ 0 ≤ r ∧ r ≤ 36524 ∧ (r = 36524 → c = 3) ∧ doe = 36524 * c + r := by
    by_cases hlast : doe = 146096
    · exact ⟨3, 36524, by omega, by omega, by omega, by omega, by omega, by omega⟩
    · exact ⟨doe / 36524, doe % 36524, by omega, by omega, by omega, by omega, by omega, by omega⟩
  obtain ⟨s, u, hs0, hs24, hu0, hu1, hr⟩ :
      ∃ s u : Int, 0 ≤ s ∧ s ≤ 24 ∧ 0 ≤ u ∧ u ≤ 1460 ∧ r = 1461 * s + u :=
    ⟨r / 1461, r % 1461, by omega, by omega, by omega, by omega, by omega⟩
  obtain ⟨t, b, ht0, ht3, hb0, hb1, hbt, hu⟩ :
      ∃ t b : Int, 0 ≤ t ∧ t ≤ 3 ∧ 0 ≤ b ∧ b ≤ 365 ∧ (b = 365 → t = 3) ∧ u = 365 * t + b := by
    by_cases hlast : u = 1460
    · exact ⟨3, 365, by omega, by omega, by omega, by omega, by omega, by omega⟩
    · exact ⟨u / 365, u % 365, by omega, by omega, by omega, by omega, by omega, by omega⟩
  refine ⟨100 * c + 4 * s + t, b, by omega, by omega, hb0, hb1, ?_, ?_⟩
  · intro hb
    have := hbt hb
    refine ⟨by omega, ?_⟩
    by_cases hs : s = 24
    · right
      have : r = 36524 := by omega
      have := hrc this
      omega
    · left; omega
  · unfold doeOf
    have hq : (100 * c + 4 * s + t) / 4 = 25 * c + s := by omega
    have hcc : (100 * c + 4 * s + t) / 100 = c := by omega
    rw [hq, hcc]
    omega

/-- the month index (March = 0) and the day of month from the day of year -/
theorem month_day_of_doy (doy : Int) (h0 : 0 ≤ doy) (h1 : doy ≤ 365) :
    0 ≤ (5 * doy + 2) / 153 ∧ (5 * doy + 2) / 153 ≤ 11 ∧
    1 ≤ doy - (153 * ((5 * doy + 2) / 153) + 2) / 5 + 1 ∧
    doy - (153 * ((5 * doy + 2) / 153) + 2) / 5 + 1 ≤
      (153 * ((5 * doy + 2) / 153 + 1) + 2) / 5 - (153 * ((5 * doy + 2) / 153) + 2) / 5 := by
  have h : (5 * doy + 2) / 153 = 0 ∨ (5 * doy + 2) / 153 = 1 ∨ (5 * doy + 2) / 153 = 2 ∨ (5 * doy + 2) / 153 = 3 ∨
      (5 * doy + 2) / 153 = 4 ∨ (5 * doy + 2) / 153 = 5 ∨ (5 * doy + 2) / 153 = 6 ∨ (5 * doy + 2) / 153 = 7 ∨
      (5 * doy + 2) / 153 = 8 ∨ (5 * doy + 2) / 153 = 9 ∨ (5 * doy + 2) / 153 = 10 ∨ (5 * doy + 2) / 153 = 11 := by omega
  rcases h with h | h | h | h | h | h | h | h | h | h | h | h <;> rw [h] <;> omega

/-- `days_from_civil` from the parts `civil_from_days` works with: March..December -/
theorem dfc_late (y0 era yoe mp doy : Int) (m d : Nat) (hm3 : ¬ m ≤ 2) (hy : y0 = yoe + era * 400) (h0 : 0 ≤ yoe) (h1 : yoe ≤ 399)
    (hm : (Int.ofNat m + 9) % 12 = mp) (hd : (153 * mp + 2) / 5 + Int.ofNat d - 1 = doy) :
    daysFromCivil y0 m d = era * 146097 + doeOf yoe doy - 719468 := by
  unfold daysFromCivil
  simp only [hm3, if_false, hm, hd]
  have he : y0 / 400 = era := by omega
  rw [he]
  have hyo : y0 - era * 400 = yoe := by omega
  rw [hyo]

/-- January, February: they belong to the year that began the March before -/
theorem dfc_early (y0 era yoe mp doy : Int) (m d : Nat) (hm2 : m ≤ 2) (hy : y0 = yoe + era * 400) (h0 : 0 ≤ yoe) (h1 : yoe ≤ 399)
    (hm : (Int.ofNat m + 9) % 12 = mp) (hd : (153 * mp + 2) / 5 + Int.ofNat d - 1 = doy) :
    daysFromCivil (y0 + 1) m d = era * 146097 + doeOf yoe doy - 719468 := by
  unfold daysFromCivil
  simp only [hm2, if_true, hm, hd]
  have he : (y0 + 1 - 1) / 400 = era := by omega
  rw [he]
  have hyo : y0 + 1 - 1 - era * 400 = yoe := by omega
  rw [hyo]

theorem dim_table (y : Int) :
    daysInMonth y 1 = 31 ∧ daysInMonth y 2 = (if isLeap y then 29 else 28) ∧ daysInMonth y 3 = 31 ∧ daysInMonth y 4 = 30 ∧
    daysInMonth y 5 = 31 ∧ daysInMonth y 6 = 30 ∧ daysInMonth y 7 = 31 ∧ daysInMonth y 8 = 31 ∧ daysInMonth y 9 = 30 ∧
    daysInMonth y 10 = 31 ∧ daysInMonth y 11 = 30 ∧ daysInMonth y 12 = 31 :=
  ⟨rfl, rfl, rfl, rfl, rfl, rfl, rfl, rfl, rfl, rfl, rfl, rfl⟩

/-- month index and day of month in range make a valid civil date -/
theorem valid_of_parts (y mp dd : Int) (hmp0 : 0 ≤ mp) (hmp : mp ≤ 11) (hd1 : 1 ≤ dd)
    (hdle : dd ≤ (153 * (mp + 1) + 2) / 5 - (153 * mp + 2) / 5)
    (hfeb : mp = 11 → dd ≤ 29 ∧ (dd = 29 → isLeap y = true)) :
    validCivil y (if mp < 10 then mp + 3 else mp - 9).toNat dd.toNat = true := by
  obtain ⟨d1, d2, d3, d4, d5, d6, d7, d8, d9, d10, d11, d12⟩ := dim_table y
  have hmcases : mp = 0 ∨ mp = 1 ∨ mp = 2 ∨ mp = 3 ∨ mp = 4 ∨ mp = 5 ∨ mp = 6 ∨ mp = 7 ∨ mp = 8 ∨ mp = 9 ∨ mp = 10 ∨ mp = 11 := by omega
  rcases hmcases with rfl | rfl | rfl | rfl | rfl | rfl | rfl | rfl | rfl | rfl | rfl | rfl
  case inr.inr.inr.inr.inr.inr.inr.inr.inr.inr.inr =>
    obtain ⟨hf1, hf2⟩ := hfeb rfl
    simp only [Int.reduceAdd, Int.reduceSub, Int.reduceLT, Int.reduceToNat, ↓reduceIte]
    simp only [validCivil, Bool.and_eq_true, decide_eq_true_eq, d2]
    by_cases hL : isLeap y = true
    · simp only [hL, if_true]; omega
    · simp only [hL, Bool.false_eq_true, if_false]
      have : dd ≠ 29 := fun h => hL (hf2 h)
      omega
  all_goals
    simp only [Int.reduceAdd, Int.reduceSub, Int.reduceLT, Int.reduceToNat, ↓reduceIte]
    simp only [validCivil, Bool.and_eq_true, decide_eq_true_eq, d1, d3, d4, d5, d6, d7, d8, d9, d10, d11, d12]
    omega

/-- `days_from_civil` of the date built from month index and day of month -/
theorem dfc_of_mp (y0 era yoe mp doy dd : Int) (hy : y0 = yoe + era * 400) (h0 : 0 ≤ yoe) (h1 : yoe ≤ 399)
    (hmp0 : 0 ≤ mp) (hmp : mp ≤ 11) (hd1 : 1 ≤ dd) (hd : (153 * mp + 2) / 5 + dd - 1 = doy) :
    daysFromCivil (if (if mp < 10 then mp + 3 else mp - 9) ≤ 2 then y0 + 1 else y0)
      (if mp < 10 then mp + 3 else mp - 9).toNat dd.toNat = era * 146097 + doeOf yoe doy - 719468 := by
  have hddn : Int.ofNat dd.toNat = dd := by simp only [Int.ofNat_eq_natCast]; omega
  have hmcases : mp = 0 ∨ mp = 1 ∨ mp = 2 ∨ mp = 3 ∨ mp = 4 ∨ mp = 5 ∨ mp = 6 ∨ mp = 7 ∨ mp = 8 ∨ mp = 9 ∨ mp = 10 ∨ mp = 11 := by omega
  rcases hmcases with rfl | rfl | rfl | rfl | rfl | rfl | rfl | rfl | rfl | rfl | rfl | rfl
  all_goals
    simp only [Int.reduceAdd, Int.reduceSub, Int.reduceLT, Int.reduceLE, Int.reduceToNat, ↓reduceIte]
  · exact dfc_late _ era yoe 0 doy 3 dd.toNat (by decide) hy h0 h1 (by decide) (by rw [hddn]; omega)
  · exact dfc_late _ era yoe 1 doy 4 dd.toNat (by decide) hy h0 h1 (by decide) (by rw [hddn]; omega)
  · exact dfc_late _ era yoe 2 doy 5 dd.toNat (by decide) hy h0 h1 (by decide) (by rw [hddn]; omega)
  · exact dfc_late _ era yoe 3 doy 6 dd.toNat (by decide) hy h0 h1 (by decide) (by rw [hddn]; omega)
  · exact dfc_late _ era yoe 4 doy 7 dd.toNat (by decide) hy h0 h1 (by decide) (by rw [hddn]; omega)
  · exact dfc_late _ era yoe 5 doy 8 dd.toNat (by decide) hy h0 h1 (by decide) (by rw [hddn]; omega)
  · exact dfc_late _ era yoe 6 doy 9 dd.toNat (by decide) hy h0 h1 (by decide) (by rw [hddn]; omega)
  · exact dfc_late _ era yoe 7 doy 10 dd.toNat (by decide) hy h0 h1 (by decide) (by rw [hddn]; omega)
  · exact dfc_late _ era yoe 8 doy 11 dd.toNat (by decide) hy h0 h1 (by decide) (by rw [hddn]; omega)
  · exact dfc_late _ era yoe 9 doy 12 dd.toNat (by decide) hy h0 h1 (by decide) (by rw [hddn]; omega)
  · exact dfc_early _ era yoe 10 doy 1 dd.toNat (by decide) hy h0 h1 (by decide) (by rw [hddn]; omega)
  · exact dfc_early _ era yoe 11 doy 2 dd.toNat (by decide) hy h0 h1 (by decide) (by rw [hddn]; omega)

/-- year, month, day from a day of era: a valid date, and `days_from_civil` leads back -/
theorem civilOfEra_spec (era doe : Int) (h0 : 0 ≤ doe) (h1 : doe ≤ 146096) :
    validCivil (civilOfEra era doe).1 (civilOfEra era doe).2.1 (civilOfEra era doe).2.2 = true ∧
    daysFromCivil (civilOfEra era doe).1 (civilOfEra era doe).2.1 (civilOfEra era doe).2.2 = era * 146097 + doe - 719468 := by
  obtain ⟨yoe, doy, hy0, hy1, hdy0, hdy1, hlp, hdec⟩ := doe_decompose doe h0 h1
  obtain ⟨hrec, _, _⟩ := yoe_recover yoe doy hy0 hy1 hdy0 hdy1 hlp
  obtain ⟨hm0, hm11, hday1, hdayle⟩ := month_day_of_doy doy hdy0 hdy1
  subst hdec
  have hdoy2 : doeOf yoe doy - (365 * yoe + yoe / 4 - yoe / 100) = doy := by unfold doeOf; omega
  have hshape : civilOfEra era (doeOf yoe doy) =
      (if (if (5 * doy + 2) / 153 < 10 then (5 * doy + 2) / 153 + 3 else (5 * doy + 2) / 153 - 9) ≤ 2
        then yoe + era * 400 + 1 else yoe + era * 400,
       (if (5 * doy + 2) / 153 < 10 then (5 * doy + 2) / 153 + 3 else (5 * doy + 2) / 153 - 9).toNat,
       (doy - (153 * ((5 * doy + 2) / 153) + 2) / 5 + 1).toNat) := by
    unfold civilOfEra
    simp only [hrec, hdoy2]
  rw [hshape]
  generalize hmp : (5 * doy + 2) / 153 = mp at *
  generalize hdd : doy - (153 * mp + 2) / 5 + 1 = dd at *
  simp only
  constructor
  · -- the year of the date: yoe + era*400 (+1 for January, February)
    have hv : ∀ y : Int, (mp = 11 → dd = 29 → isLeap y = true) → 
        validCivil y (if mp < 10 then mp + 3 else mp - 9).toNat dd.toNat = true := fun y hy =>
      valid_of_parts y mp dd hm0 hm11 hday1 hdayle (fun h11 => ⟨by subst h11; omega, hy h11⟩)
    apply hv
    intro h11 h29
    subst h11
    have h365 : doy = 365 := by omega
    obtain ⟨l1, l2⟩ := hlp h365
    simp only [Int.reduceLT, Int.reduceSub, Int.reduceLE, ↓reduceIte]
    exact (isLeap_iff _).mpr (by omega)
  · exact dfc_of_mp (yoe + era * 400) era yoe mp doy dd rfl hy0 hy1 hm0 hm11 hday1 (by omega)

/-- **`civil_from_days` yields a valid date whose day number is the argument** (every integer day number) -/
theorem civil_of_days (z : Int) :
    validCivil (civilFromDays z).1 (civilFromDays z).2.1 (civilFromDays z).2.2 = true ∧
    daysFromCivil (civilFromDays z).1 (civilFromDays z).2.1 (civilFromDays z).2.2 = z := by
  have h := civilOfEra_spec ((z + 719468) / 146097) (z + 719468 - (z + 719468) / 146097 * 146097) (by omega) (by omega)
  unfold civilFromDays
  simp only
  refine ⟨h.1, ?_⟩
  rw [h.2]
  omega

end CivilL
end Fsel
