/-
  The civil-calendar arithmetic (`daysFromCivil` / `civilFromDays`, Hinnant's algorithms as chrono performs
  them) are inverse to each other on valid dates — for every year, also negative ones.
-/
import Fsel.Model.Date

namespace Fsel
namespace CivilL

/-- the year of era is recovered from the day of era -/
theorem yoe_recover (yoe doy : Int) (h0 : 0 ≤ yoe) (h1 : yoe ≤ 399) (hd0 : 0 ≤ doy) (hd1 : doy ≤ 365)
    (hleap : doy = 365 → ((yoe + 1) % 4 = 0 ∧ ((yoe + 1) % 100 ≠ 0 ∨ yoe = 399))) :
    (doeOf yoe doy - doeOf yoe doy / 1460 + doeOf yoe doy / 36524 - doeOf yoe doy / 146096) / 365 = yoe ∧
    0 ≤ doeOf yoe doy ∧ doeOf yoe doy ≤ 146096 := by
  unfold doeOf
  -- yoe = 100 c + 4 s + t
  obtain ⟨c, s, t, hc0, hc3, hs0, hs24, ht0, ht3, hyoe⟩ :
      ∃ c s t : Int, 0 ≤ c ∧ c ≤ 3 ∧ 0 ≤ s ∧ s ≤ 24 ∧ 0 ≤ t ∧ t ≤ 3 ∧ yoe = 100 * c + 4 * s + t :=
    ⟨yoe / 100, yoe % 100 / 4, yoe % 100 % 4, by omega, by omega, by omega, by omega, by omega, by omega, by omega⟩
  have hq : yoe / 4 = 25 * c + s := by omega
  have hcc : yoe / 100 = c := by omega
  rw [hq, hcc]
  generalize hNdef : yoe * 365 + (25 * c + s) - c + doy = N
  have hN : N = 36524 * c + 1461 * s + 365 * t + doy := by omega
  refine ⟨?_, by omega, by omega⟩
  by_cases hedge : c = 3 ∧ s = 24 ∧ t = 3 ∧ doy = 365
  · obtain ⟨rfl, rfl, rfl, rfl⟩ := hedge
    subst hN; subst hyoe
    decide
  · have hM : 1461 * s + 365 * t + doy ≤ 36523 := by
      by_cases h365 : doy = 365
      · have := hleap h365
        omega
      · omega
    have e1 : N / 36524 = c := by omega
    have e2 : N / 146096 = 0 := by omega
    rw [e1, e2]
    by_cases hδ : 24 * c + s + 365 * t + doy ≥ 1460
    · have e3 : N / 1460 = 25 * c + s + 1 := by omega
      rw [e3]
      have : N - (25 * c + s + 1) + c - 0 = 365 * yoe + (doy - 1) := by omega
      rw [this]
      omega
    · have e3 : N / 1460 = 25 * c + s := by omega
      rw [e3]
      have : N - (25 * c + s) + c - 0 = 365 * yoe + doy := by omega
      rw [this]
      have : doy ≤ 364 := by
        by_cases h365 : doy = 365
        · have := hleap h365
          omega
        · omega
      omega

/-- month and day are recovered from the day of year (years starting on 1 March) -/
theorem month_day_recover (mp d : Int) (hmp0 : 0 ≤ mp) (hmp : mp ≤ 11) (hd1 : 1 ≤ d)
    (hd : d ≤ (153 * (mp + 1) + 2) / 5 - (153 * mp + 2) / 5) :
    (5 * ((153 * mp + 2) / 5 + d - 1) + 2) / 153 = mp := by
  have h : mp = 0 ∨ mp = 1 ∨ mp = 2 ∨ mp = 3 ∨ mp = 4 ∨ mp = 5 ∨ mp = 6 ∨ mp = 7 ∨ mp = 8 ∨ mp = 9 ∨ mp = 10 ∨ mp = 11 := by
    omega
  rcases h with rfl | rfl | rfl | rfl | rfl | rfl | rfl | rfl | rfl | rfl | rfl | rfl <;> omega

theorem isLeap_iff (y : Int) : isLeap y = true ↔ (y % 4 = 0 ∧ (y % 100 ≠ 0 ∨ y % 400 = 0)) := by
  simp only [isLeap, Bool.or_eq_true, Bool.and_eq_true, beq_iff_eq, bne_iff_ne, ne_eq]
  constructor <;> intro h <;> omega

/-- **`civil_from_days ∘ days_from_civil` is the identity on valid dates** (proleptic Gregorian, any year) -/
theorem civil_roundtrip (y : Int) (m d : Nat) (hv : validCivil y m d = true) :
    civilFromDays (daysFromCivil y m d) = (y, m, d) := by
  simp only [validCivil, Bool.and_eq_true, decide_eq_true_eq] at hv
  obtain ⟨⟨⟨hm1, hm12⟩, hd1⟩, hdm⟩ := hv
  -- names for the intermediate quantities
  generalize hy' : (if m ≤ 2 then y - 1 else y : Int) = y'
  generalize hera : y' / 400 = era
  generalize hyoe : y' - era * 400 = yoe
  generalize hmp : (Int.ofNat m + 9) % 12 = mp
  generalize hdoy : (153 * mp + 2) / 5 + Int.ofNat d - 1 = doy
  have hdfc : daysFromCivil y m d = era * 146097 + doeOf yoe doy - 719468 := by
    unfold daysFromCivil
    simp only [hy', hera, hyoe, hmp, hdoy]
  have hyoe0 : 0 ≤ yoe ∧ yoe ≤ 399 := by omega
  have hmpr : 0 ≤ mp ∧ mp ≤ 11 := by omega
  -- the month as a number, the day bound per month
  have hmcases : m = 1 ∨ m = 2 ∨ m = 3 ∨ m = 4 ∨ m = 5 ∨ m = 6 ∨ m = 7 ∨ m = 8 ∨ m = 9 ∨ m = 10 ∨ m = 11 ∨ m = 12 := by omega
  have hleapy : isLeap y = true ↔ (y % 4 = 0 ∧ (y % 100 ≠ 0 ∨ y % 400 = 0)) := isLeap_iff y
  have hdbound : (Int.ofNat d) ≤ (153 * (mp + 1) + 2) / 5 - (153 * mp + 2) / 5 ∧
      (doy = 365 → ((yoe + 1) % 4 = 0 ∧ ((yoe + 1) % 100 ≠ 0 ∨ yoe = 399))) ∧ 0 ≤ doy ∧ doy ≤ 365 := by
    by_cases hL : isLeap y = true
    · have hLa := hleapy.mp hL
      rcases hmcases with rfl | rfl | rfl | rfl | rfl | rfl | rfl | rfl | rfl | rfl | rfl | rfl <;>
        simp only [daysInMonth, hL, if_true] at hdm <;> simp only [Int.ofNat_eq_natCast] at * <;> omega
    · have hLa : ¬ (y % 4 = 0 ∧ (y % 100 ≠ 0 ∨ y % 400 = 0)) := fun h => hL (hleapy.mpr h)
      rcases hmcases with rfl | rfl | rfl | rfl | rfl | rfl | rfl | rfl | rfl | rfl | rfl | rfl <;>
        simp only [daysInMonth, hL, Bool.false_eq_true, if_false] at hdm <;> simp only [Int.ofNat_eq_natCast] at * <;> omega
  obtain ⟨hdle, hlp, hdoy0, hdoy365⟩ := hdbound
  obtain ⟨hrec, hdoe0, hdoe1⟩ := yoe_recover yoe doy hyoe0.1 hyoe0.2 hdoy0 hdoy365 hlp
  have hmd := month_day_recover mp (Int.ofNat d) hmpr.1 hmpr.2 (by simp only [Int.ofNat_eq_natCast]; omega) hdle
  -- the inverse
  unfold civilFromDays
  simp only [hdfc]
  have hz : era * 146097 + doeOf yoe doy - 719468 + 719468 = era * 146097 + doeOf yoe doy := by omega
  have hera2 : (era * 146097 + doeOf yoe doy) / 146097 = era := by omega
  have hdoe2 : era * 146097 + doeOf yoe doy - era * 146097 = doeOf yoe doy := by omega
  rw [hz, hera2, hdoe2]
  unfold civilOfEra
  simp only [hrec]
  have hdoy2 : doeOf yoe doy - (365 * yoe + yoe / 4 - yoe / 100) = doy := by unfold doeOf; omega
  rw [hdoy2]
  have hmp2 : (5 * doy + 2) / 153 = mp := by rw [← hdoy]; exact hmd
  rw [hmp2]
  have hd2 : doy - (153 * mp + 2) / 5 + 1 = Int.ofNat d := by omega
  rw [hd2]
  refine Prod.ext ?_ (Prod.ext ?_ ?_)
  · simp only
    rcases hmcases with rfl | rfl | rfl | rfl | rfl | rfl | rfl | rfl | rfl | rfl | rfl | rfl <;>
      simp only [Int.ofNat_eq_natCast] at * <;> split <;> split <;> omega
  · simp only
    rcases hmcases with rfl | rfl | rfl | rfl | rfl | rfl | rfl | rfl | rfl | rfl | rfl | rfl <;>
      simp only [Int.ofNat_eq_natCast] at * <;> split <;> omega
  · simp

end CivilL
end Fsel
