/-
  The breadth-first walker (`visit_dir` with the directory queue) reports exactly the level-order
  traversal: `drainQueue` = `check_file` folded over `bfsEvents`.
-/
import Fsel.Lemmas.Walk

namespace Fsel
namespace WalkB
open WalkL

/-- the entries of one directory, in `readdir` order -/
def kidsEvents (dirPath dirCanon : Str) (lvl : Nat) (ns : List Node) : List (Node × Entry × Nat) :=
  ns.map fun n => (n, fillEntry n.entry dirPath dirCanon n.entry.absPath, lvl)

/-- the sub-directories of one directory that get queued (in order), when the depth limit allows descending -/
def kidsItems (rp : RootParams) (dirPath dirCanon : Str) (lvl : Nat) : List Node → List QItem
  | [] => []
  | .dir de l kids :: ns =>
    (if rp.maxDepth == 0 || lvl < rp.maxDepth then
      [⟨kids, l, (fillEntry de dirPath dirCanon de.absPath).path, childCanon dirCanon de.name⟩] else []) ++
      kidsItems rp dirPath dirCanon lvl ns
  | .leaf _ _ :: ns => kidsItems rp dirPath dirCanon lvl ns

/-- inode numbers recorded while one directory is listed: its sub-directories and links -/
def topInos (rp : RootParams) (lvl : Nat) : List Node → List Nat
  | [] => []
  | n :: ns =>
    (if rp.maxDepth == 0 || lvl < rp.maxDepth then
      (match n with
       | .dir de _ _ => [de.ino]
       | .leaf le _ => if le.kind == 'l' then [le.ino] else []) else []) ++ topInos rp lvl ns

def itemDepth (rp : RootParams) (it : QItem) : Nat := calcDepth it.canon - rp.base + 1

/-- level-order traversal driven by the queue; `fuel` = number of queue items processed at most -/
def bfsEvents (rp : RootParams) : Nat → List QItem → List (Node × Entry × Nat)
  | 0, _ => []
  | _ + 1, [] => []
  | f + 1, it :: q =>
    if it.listable then
      kidsEvents it.path it.canon (itemDepth rp it) it.kids ++
        bfsEvents rp f (q ++ kidsItems rp it.path it.canon (itemDepth rp it) it.kids)
    else bfsEvents rp f q

/-- the directories whose listing fails, in queue order -/
def bfsFaults (rp : RootParams) : Nat → List QItem → List Str
  | 0, _ => []
  | _ + 1, [] => []
  | f + 1, it :: q =>
    if it.listable then bfsFaults rp f (q ++ kidsItems rp it.path it.canon (itemDepth rp it) it.kids)
    else it.path :: bfsFaults rp f q

/-- the traversal state after one directory has been listed breadth-first -/
def afterKids (rp : RootParams) (dp dc : Str) (lvl : Nat) (w : WalkSt) (ns : List Node) : WalkSt :=
  { w with visited := w.visited ++ topInos rp lvl ns, queue := w.queue ++ kidsItems rp dp dc lvl ns }

theorem kidsEvents_cons (dp dc : Str) (lvl : Nat) (n : Node) (ns : List Node) :
    kidsEvents dp dc lvl (n :: ns) = (n, fillEntry n.entry dp dc n.entry.absPath, lvl) :: kidsEvents dp dc lvl ns := rfl

theorem okToVisit_fresh' (w : WalkSt) (e : Entry) (h : e.ino ∉ w.visited) :
    okToVisit w e = (e.kind != 'l', { w with visited := w.visited ++ [e.ino] }) := okToVisit_fresh w e h

/-- **one directory, breadth-first**: report every entry, record the inode numbers of sub-directories and
    links, queue the sub-directories -/
theorem kidsB_exact (p : Plan) (rp : RootParams) (hl : NoLimit p) (dp dc : Str) (lvl : Nat) :
    ∀ (ns : List Node) (st : WSt), goodL ns → (topInos rp lvl ns).Nodup → (∀ i ∈ topInos rp lvl ns, i ∉ st.walk.visited) →
      match foldReport p rp st.res (kidsEvents dp dc lvl ns) with
      | .error a => visitKidsB p rp dp dc lvl st ns = .error a
      | .ok rs' => visitKidsB p rp dp dc lvl st ns = .ok { res := rs', walk := afterKids rp dp dc lvl st.walk ns }
  | [], st, _, _, _ => by
    simp [kidsEvents, foldReport, visitKidsB, afterKids, topInos, kidsItems]
  | n :: ns, st, hg, hnd, hfr => by
    simp only [goodL] at hg
    rw [kidsEvents_cons]
    simp only [foldReport]
    rw [visitKidsB]
    simp only [noLimit_false p hl st.res, Bool.false_eq_true, if_false]
    cases hr : reportEntry p rp lvl n (fillEntry n.entry dp dc n.entry.absPath) st.res with
    | error a => rfl
    | ok r1 =>
      simp only
      by_cases hmax : (rp.maxDepth == 0 || decide (lvl < rp.maxDepth)) = true
      · simp only [hmax, if_true]
        cases n with
        | dir de l kids =>
          simp only [goodN] at hg
          have hkind : (de.kind != 'l') = true := by rw [hg.1.2.1]; decide
          have htop : topInos rp lvl (.dir de l kids :: ns) = de.ino :: topInos rp lvl ns := by
            simp [topInos, hmax]
          rw [htop] at hnd hfr
          have hfresh : de.ino ∉ st.walk.visited := hfr de.ino (by simp)
          simp only [show (Node.dir de l kids).entry = de from rfl]
          rw [okToVisit_fresh st.walk de hfresh]
          simp only [hkind, if_true]
          have ih := kidsB_exact p rp hl dp dc lvl ns
            { res := r1, walk := { st.walk with visited := st.walk.visited ++ [de.ino],
                                                 queue := st.walk.queue ++ [⟨kids, l, (fillEntry de dp dc de.absPath).path, childCanon dc de.name⟩] } }
            hg.2 (List.nodup_cons.mp hnd).2
            (by intro i hi hv
                simp only [List.mem_append, List.mem_singleton] at hv
                rcases hv with h | h
                · exact hfr i (by simp [hi]) h
                · subst h; exact (List.nodup_cons.mp hnd).1 hi)
          simp only at ih
          cases hf : foldReport p rp r1 (kidsEvents dp dc lvl ns) with
          | error a => rw [hf] at ih; exact ih
          | ok rs' =>
            rw [hf] at ih
            simp only at ih ⊢
            rw [ih]
            simp [afterKids, htop, kidsItems, hmax, List.append_assoc]
        | leaf le z =>
          simp only [show (Node.leaf le z).entry = le from rfl]
          by_cases hk : (le.kind == 'l') = true
          · simp only [hk, if_true]
            have htop : topInos rp lvl (.leaf le z :: ns) = le.ino :: topInos rp lvl ns := by
              simp [topInos, hmax, hk]
            rw [htop] at hnd hfr
            have hfresh : le.ino ∉ st.walk.visited := hfr le.ino (by simp)
            rw [okToVisit_fresh st.walk le hfresh]
            simp only
            have ih := kidsB_exact p rp hl dp dc lvl ns
              { res := r1, walk := { st.walk with visited := st.walk.visited ++ [le.ino] } }
              hg.2 (List.nodup_cons.mp hnd).2
              (by intro i hi hv
                  simp only [List.mem_append, List.mem_singleton] at hv
                  rcases hv with h | h
                  · exact hfr i (by simp [hi]) h
                  · subst h; exact (List.nodup_cons.mp hnd).1 hi)
            simp only at ih
            cases hf : foldReport p rp r1 (kidsEvents dp dc lvl ns) with
            | error a => rw [hf] at ih; exact ih
            | ok rs' =>
              rw [hf] at ih
              simp only at ih ⊢
              rw [ih]
              simp [afterKids, htop, kidsItems, List.append_assoc]
          · simp only [hk, Bool.false_eq_true, if_false]
            have htop : topInos rp lvl (.leaf le z :: ns) = topInos rp lvl ns := by
              simp [topInos, hmax, hk]
            rw [htop] at hnd hfr
            have ih := kidsB_exact p rp hl dp dc lvl ns { res := r1, walk := st.walk } hg.2 hnd hfr
            simp only at ih
            cases hf : foldReport p rp r1 (kidsEvents dp dc lvl ns) with
            | error a => rw [hf] at ih; exact ih
            | ok rs' =>
              rw [hf] at ih
              simp only at ih ⊢
              rw [ih]
              simp [afterKids, htop, kidsItems]
      · simp only [hmax, Bool.false_eq_true, if_false]
        have htop : topInos rp lvl (n :: ns) = topInos rp lvl ns := by simp [topInos, hmax]
        have hitems : kidsItems rp dp dc lvl (n :: ns) = kidsItems rp dp dc lvl ns := by
          cases n <;> simp [kidsItems, hmax]
        rw [htop] at hnd hfr
        have ih := kidsB_exact p rp hl dp dc lvl ns { res := r1, walk := st.walk } hg.2 hnd hfr
        simp only at ih
        cases hf : foldReport p rp r1 (kidsEvents dp dc lvl ns) with
        | error a => rw [hf] at ih; exact ih
        | ok rs' =>
          rw [hf] at ih
          simp only at ih ⊢
          rw [ih]
          simp [afterKids, htop, hitems]

/-! ### inode bookkeeping of the queue -/

/-- inode numbers of the sub-directories and links directly inside a directory -/
def topAll : List Node → List Nat
  | [] => []
  | .dir de _ _ :: ns => de.ino :: topAll ns
  | .leaf le _ :: ns => (if le.kind == 'l' then [le.ino] else []) ++ topAll ns

/-- inode numbers strictly deeper: inside the sub-directories -/
def deepAll : List Node → List Nat
  | [] => []
  | .dir _ _ kids :: ns => inodesL kids ++ deepAll ns
  | .leaf _ _ :: ns => deepAll ns

/-- all inode numbers the queued directories can still record -/
def qInos (q : List QItem) : List Nat := q.flatMap fun it => inodesL it.kids

def QGood (q : List QItem) : Prop := ∀ it ∈ q, goodL it.kids

theorem inodes_split : ∀ ns : List Node, (inodesL ns).Perm (topAll ns ++ deepAll ns)
  | [] => by simp [inodesL, topAll, deepAll]
  | .dir de l kids :: ns => by
    have ih := inodes_split ns
    simp only [inodesL, inodesN, topAll, deepAll, List.cons_append]
    refine List.Perm.cons _ ?_
    have h1 : (inodesL kids ++ inodesL ns).Perm (inodesL kids ++ (topAll ns ++ deepAll ns)) :=
      List.Perm.append_left _ ih
    refine h1.trans ?_
    rw [← List.append_assoc, ← List.append_assoc]
    exact List.Perm.append_right _ List.perm_append_comm
  | .leaf le z :: ns => by
    have ih := inodes_split ns
    simp only [inodesL, inodesN, topAll, deepAll]
    by_cases hk : (le.kind == 'l') = true
    · simp only [hk, if_true, List.cons_append, List.nil_append]
      exact List.Perm.cons _ ih
    · simp only [hk, Bool.false_eq_true, if_false, List.nil_append]
      exact ih

theorem topInos_eq (rp : RootParams) (lvl : Nat) : ∀ ns : List Node,
    topInos rp lvl ns = if (rp.maxDepth == 0 || decide (lvl < rp.maxDepth)) = true then topAll ns else []
  | [] => by simp [topInos, topAll]
  | n :: ns => by
    have ih := topInos_eq rp lvl ns
    by_cases hmax : (rp.maxDepth == 0 || decide (lvl < rp.maxDepth)) = true
    · simp only [hmax, if_true] at ih ⊢
      cases n <;> simp [topInos, topAll, hmax, ih]
    · simp only [hmax, Bool.false_eq_true, if_false] at ih ⊢
      simp [topInos, hmax, ih]

theorem qInos_items (rp : RootParams) (dp dc : Str) (lvl : Nat) : ∀ ns : List Node,
    qInos (kidsItems rp dp dc lvl ns) = if (rp.maxDepth == 0 || decide (lvl < rp.maxDepth)) = true then deepAll ns else []
  | [] => by simp [qInos, kidsItems, deepAll]
  | n :: ns => by
    have ih := qInos_items rp dp dc lvl ns
    by_cases hmax : (rp.maxDepth == 0 || decide (lvl < rp.maxDepth)) = true
    · simp only [hmax, if_true] at ih ⊢
      cases n with
      | dir de l kids => simp only [qInos, kidsItems, hmax, if_true, List.flatMap_append, List.flatMap_cons, List.flatMap_nil, List.append_nil, deepAll] at ih ⊢; rw [ih]
      | leaf le z => simpa [qInos, kidsItems, deepAll] using ih
    · simp only [hmax, Bool.false_eq_true, if_false] at ih ⊢
      cases n with
      | dir de l kids => simpa [qInos, kidsItems, hmax] using ih
      | leaf le z => simpa [qInos, kidsItems] using ih

theorem items_good (rp : RootParams) (dp dc : Str) (lvl : Nat) : ∀ ns : List Node, goodL ns →
    QGood (kidsItems rp dp dc lvl ns)
  | [], _ => by simp [QGood, kidsItems]
  | .dir de l kids :: ns, hg => by
    simp only [goodL, goodN] at hg
    intro it hit
    simp only [kidsItems, List.mem_append] at hit
    rcases hit with h | h
    · split at h
      · simp only [List.mem_singleton] at h; subst h; exact hg.1.2.2
      · simp at h
    · exact items_good rp dp dc lvl ns hg.2 it h
  | .leaf le z :: ns, hg => by
    simp only [goodL] at hg
    intro it hit
    simp only [kidsItems] at hit
    exact items_good rp dp dc lvl ns hg.2 it hit

/-- the freshness invariant of the queue is preserved by listing one directory -/
theorem inv_step (rp : RootParams) (dp dc : Str) (lvl : Nat) (ns : List Node) (q : List QItem) (vis : List Nat)
    (hnd : (inodesL ns ++ qInos q).Nodup) (hfr : ∀ i ∈ inodesL ns ++ qInos q, i ∉ vis) :
    (topInos rp lvl ns).Nodup ∧ (∀ i ∈ topInos rp lvl ns, i ∉ vis) ∧
    (qInos (q ++ kidsItems rp dp dc lvl ns)).Nodup ∧
    (∀ i ∈ qInos (q ++ kidsItems rp dp dc lvl ns), i ∉ vis ++ topInos rp lvl ns) := by
  have hsplit := inodes_split ns
  obtain ⟨hndD, hndQ, hdisj⟩ := List.nodup_append.mp hnd
  have hndTD : (topAll ns ++ deepAll ns).Nodup := (hsplit.nodup_iff).mp hndD
  obtain ⟨hndT, hndDp, hdisjTD⟩ := List.nodup_append.mp hndTD
  have memT : ∀ i, i ∈ topAll ns → i ∈ inodesL ns := fun i hi => hsplit.mem_iff.mpr (List.mem_append.mpr (Or.inl hi))
  have memD : ∀ i, i ∈ deepAll ns → i ∈ inodesL ns := fun i hi => hsplit.mem_iff.mpr (List.mem_append.mpr (Or.inr hi))
  have hqa : qInos (q ++ kidsItems rp dp dc lvl ns) = qInos q ++ qInos (kidsItems rp dp dc lvl ns) := by
    simp [qInos, List.flatMap_append]
  rw [hqa, topInos_eq, qInos_items]
  by_cases hmax : (rp.maxDepth == 0 || decide (lvl < rp.maxDepth)) = true
  · simp only [hmax, if_true]
    refine ⟨hndT, fun i hi => hfr i (List.mem_append.mpr (Or.inl (memT i hi))), ?_, ?_⟩
    · refine List.nodup_append.mpr ⟨hndQ, hndDp, ?_⟩
      intro a ha b hb hab
      subst hab
      exact hdisj a (memD a hb) a ha rfl
    · intro i hi hv
      rcases List.mem_append.mp hi with h | h
      · rcases List.mem_append.mp hv with h' | h'
        · exact hfr i (List.mem_append.mpr (Or.inr h)) h'
        · exact hdisj i (memT i h') i h rfl
      · rcases List.mem_append.mp hv with h' | h'
        · exact hfr i (List.mem_append.mpr (Or.inl (memD i h))) h'
        · exact hdisjTD i h' i h rfl
  · simp only [hmax, Bool.false_eq_true, if_false, List.append_nil]
    refine ⟨List.nodup_nil, by simp, hndQ, ?_⟩
    intro i hi hv
    exact hfr i (List.mem_append.mpr (Or.inr hi)) hv

/-- **the breadth-first walker is the level-order traversal**: draining the queue reports exactly
    `bfsEvents`, in that order, and records exactly the unlistable directories as faults -/
theorem drain_exact (p : Plan) (rp : RootParams) (hl : NoLimit p) :
    ∀ (fuel : Nat) (st : WSt), QGood st.walk.queue → (qInos st.walk.queue).Nodup →
      (∀ i ∈ qInos st.walk.queue, i ∉ st.walk.visited) →
      match foldReport p rp st.res (bfsEvents rp fuel st.walk.queue) with
      | .error a => drainQueue p rp fuel st = .error a
      | .ok rs' => ∃ w', drainQueue p rp fuel st = .ok { res := rs', walk := w' } ∧
          w'.errPaths = st.walk.errPaths ++ bfsFaults rp fuel st.walk.queue ∧
          w'.errCount = st.walk.errCount + (bfsFaults rp fuel st.walk.queue).length ∧
          (∀ i, i ∈ w'.visited → i ∈ st.walk.visited ∨ i ∈ qInos st.walk.queue)
  | 0, st, _, _, _ => by
    simp only [bfsEvents, foldReport, drainQueue, bfsFaults]
    exact ⟨st.walk, rfl, by simp, by simp, fun i h => Or.inl h⟩
  | fuel + 1, st, hg, hnd, hfr => by
    cases hq : st.walk.queue with
    | nil =>
      simp only [bfsEvents, foldReport, drainQueue, hq, bfsFaults]
      exact ⟨st.walk, rfl, by simp, by simp, fun i h => Or.inl h⟩
    | cons it q =>
      rw [hq] at hg hnd hfr
      simp only [bfsEvents, bfsFaults]
      rw [drainQueue]
      simp only [hq]
      unfold visitDirB
      by_cases hlist : it.listable = true
      · simp only [hlist, Bool.not_true, Bool.false_eq_true, if_false, if_true]
        have hgi : goodL it.kids := hg it (by simp)
        have hqi : qInos (it :: q) = inodesL it.kids ++ qInos q := by simp [qInos]
        rw [hqi] at hnd hfr
        obtain ⟨i1, i2, i3, i4⟩ := inv_step rp it.path it.canon (itemDepth rp it) it.kids q st.walk.visited hnd hfr
        have hk := kidsB_exact p rp hl it.path it.canon (itemDepth rp it) it.kids
          { st with walk := { st.walk with queue := q } } hgi i1 i2
        rw [foldReport_append]
        simp only [itemDepth] at hk ⊢
        cases hf : foldReport p rp st.res (kidsEvents it.path it.canon (calcDepth it.canon - rp.base + 1) it.kids) with
        | error a => rw [hf] at hk; simp only at hk ⊢; rw [hk]
        | ok r1 =>
          rw [hf] at hk
          simp only at hk ⊢
          rw [hk]
          simp only
          have hgq : QGood (q ++ kidsItems rp it.path it.canon (calcDepth it.canon - rp.base + 1) it.kids) := by
            intro x hx
            rcases List.mem_append.mp hx with h | h
            · exact hg x (by simp [h])
            · exact items_good rp _ _ _ it.kids hgi x h
          have ih := drain_exact p rp hl fuel
            { res := r1, walk := afterKids rp it.path it.canon (calcDepth it.canon - rp.base + 1) { st.walk with queue := q } it.kids }
            hgq i3 i4
          simp only [afterKids] at ih ⊢
          cases hf2 : foldReport p rp r1 (bfsEvents rp fuel (q ++ kidsItems rp it.path it.canon (calcDepth it.canon - rp.base + 1) it.kids)) with
          | error a => rw [hf2] at ih; exact ih
          | ok rs' =>
            rw [hf2] at ih
            obtain ⟨w', h1, h2, h3, h4⟩ := ih
            refine ⟨w', h1, h2, h3, ?_⟩
            intro i hi
            have hsplit := inodes_split it.kids
            rcases h4 i hi with h | h
            · rcases List.mem_append.mp h with h' | h'
              · exact Or.inl h'
              · right
                rw [topInos_eq] at h'
                split at h'
                · exact List.mem_append.mpr (Or.inl (hsplit.mem_iff.mpr (List.mem_append.mpr (Or.inl h'))))
                · simp at h'
            · right
              have hqa : qInos (q ++ kidsItems rp it.path it.canon (calcDepth it.canon - rp.base + 1) it.kids) =
                  qInos q ++ qInos (kidsItems rp it.path it.canon (calcDepth it.canon - rp.base + 1) it.kids) := by
                simp [qInos, List.flatMap_append]
              rw [hqa, qInos_items] at h
              rcases List.mem_append.mp h with h' | h'
              · exact List.mem_append.mpr (Or.inr h')
              · split at h'
                · exact List.mem_append.mpr (Or.inl (hsplit.mem_iff.mpr (List.mem_append.mpr (Or.inr h'))))
                · simp at h'
      · have hlf : it.listable = false := by cases h : it.listable <;> simp_all
        simp only [hlf, Bool.not_false, if_true, Bool.false_eq_true, if_false]
        have hgq : QGood q := fun x hx => hg x (by simp [hx])
        have hqi : qInos (it :: q) = inodesL it.kids ++ qInos q := by simp [qInos]
        rw [hqi] at hnd hfr
        have ih := drain_exact p rp hl fuel
          { st with walk := { st.walk with queue := q, errCount := st.walk.errCount + 1, errPaths := st.walk.errPaths ++ [it.path] } }
          hgq (List.nodup_append.mp hnd).2.1 (fun i hi => hfr i (List.mem_append.mpr (Or.inr hi)))
        simp only at ih
        cases hf : foldReport p rp st.res (bfsEvents rp fuel q) with
        | error a => rw [hf] at ih; simpa using ih
        | ok rs' =>
          rw [hf] at ih
          obtain ⟨w', h1, h2, h3, h4⟩ := ih
          refine ⟨w', h1, ?_, ?_, ?_⟩
          · rw [h2]; simp [List.append_assoc]
          · rw [h3]; simp; omega
          · intro i hi
            rcases h4 i hi with h | h
            · exact Or.inl h
            · exact Or.inr (List.mem_append.mpr (Or.inr h))

/-! ### the level-order specification without fuel -/

/-- number of directory listings a queue can still cause -/
def qSize (q : List QItem) : Nat := (q.map fun it => 1 + Node.countDirsList it.kids).sum

theorem qSize_append (a b : List QItem) : qSize (a ++ b) = qSize a + qSize b := by
  simp [qSize, List.sum_append]

theorem qSize_nil : qSize [] = 0 := rfl

theorem qSize_cons (it : QItem) (q : List QItem) : qSize (it :: q) = 1 + Node.countDirsList it.kids + qSize q := by
  simp [qSize]

theorem items_size (rp : RootParams) (dp dc : Str) (lvl : Nat) : ∀ ns : List Node,
    qSize (kidsItems rp dp dc lvl ns) ≤ Node.countDirsList ns
  | [] => by simp [kidsItems, qSize, Node.countDirsList]
  | .dir de l kids :: ns => by
    have ih := items_size rp dp dc lvl ns
    simp only [kidsItems, qSize_append, Node.countDirsList, Node.countDirs]
    split
    · rw [qSize_cons, qSize_nil]; simp only; omega
    · rw [qSize_nil]; omega
  | .leaf le z :: ns => by
    have ih := items_size rp dp dc lvl ns
    simp only [kidsItems, Node.countDirsList, Node.countDirs]
    omega

/-- **level order**: list a directory, then everything queued before its sub-directories, then them -/
def levelOrder (rp : RootParams) : List QItem → List (Node × Entry × Nat)
  | [] => []
  | it :: q =>
    if it.listable then
      kidsEvents it.path it.canon (itemDepth rp it) it.kids ++
        levelOrder rp (q ++ kidsItems rp it.path it.canon (itemDepth rp it) it.kids)
    else levelOrder rp q
termination_by q => qSize q
decreasing_by
  · rw [qSize_append, qSize_cons]
    have := items_size rp it.path it.canon (itemDepth rp it) it.kids
    omega
  · rw [qSize_cons]; omega

/-- the unlistable directories, in the order they are met -/
def levelFaults (rp : RootParams) : List QItem → List Str
  | [] => []
  | it :: q =>
    if it.listable then levelFaults rp (q ++ kidsItems rp it.path it.canon (itemDepth rp it) it.kids)
    else it.path :: levelFaults rp q
termination_by q => qSize q
decreasing_by
  · rw [qSize_append, qSize_cons]
    have := items_size rp it.path it.canon (itemDepth rp it) it.kids
    omega
  · rw [qSize_cons]; omega

/-- with fuel for every directory the fuelled traversal is the level order -/
theorem bfsEvents_enough (rp : RootParams) : ∀ (f : Nat) (q : List QItem), qSize q ≤ f →
    bfsEvents rp f q = levelOrder rp q ∧ bfsFaults rp f q = levelFaults rp q
  | 0, q, h => by
    cases q with
    | nil => simp [bfsEvents, bfsFaults, levelOrder, levelFaults]
    | cons it q => rw [qSize_cons] at h; omega
  | f + 1, [], _ => by simp [bfsEvents, bfsFaults, levelOrder, levelFaults]
  | f + 1, it :: q, h => by
    rw [qSize_cons] at h
    unfold bfsEvents bfsFaults
    rw [levelOrder, levelFaults]
    by_cases hl : it.listable = true
    · simp only [hl, if_true]
      have hs : qSize (q ++ kidsItems rp it.path it.canon (itemDepth rp it) it.kids) ≤ f := by
        rw [qSize_append]
        have := items_size rp it.path it.canon (itemDepth rp it) it.kids
        omega
      obtain ⟨a, b⟩ := bfsEvents_enough rp f _ hs
      rw [a, b]; exact ⟨rfl, rfl⟩
    · simp only [hl, Bool.false_eq_true, if_false]
      obtain ⟨a, b⟩ := bfsEvents_enough rp f q (by omega)
      rw [a, b]; exact ⟨rfl, rfl⟩

/-! ### breadth-first and depth-first report the same entries -/

def ItemWf (rp : RootParams) (it : QItem) : Prop :=
  goodL it.kids ∧ 1 < it.canon.length ∧ rp.base ≤ calcDepth it.canon

def QWf (rp : RootParams) (q : List QItem) : Prop := ∀ it ∈ q, ItemWf rp it

/-- what the depth-first walker reports below one queued directory -/
def subtree (rp : RootParams) (it : QItem) : List (Node × Entry × Nat) :=
  if it.listable then eventsL rp it.path it.canon (itemDepth rp it) it.kids else []

theorem items_wf (rp : RootParams) (dp dc : Str) (lvl : Nat) (hc : 1 < dc.length) (hb : rp.base ≤ calcDepth dc) :
    ∀ ns : List Node, goodL ns → ∀ x ∈ kidsItems rp dp dc lvl ns,
      ItemWf rp x ∧ itemDepth rp x = (calcDepth dc - rp.base + 1) + 1
  | [], _, x, hx => by simp [kidsItems] at hx
  | .dir de l kids :: ns, hg, x, hx => by
    simp only [goodL, goodN] at hg
    simp only [kidsItems, List.mem_append] at hx
    rcases hx with h | h
    · split at h
      · simp only [List.mem_singleton] at h
        subst h
        exact ⟨⟨hg.1.2.2, childCanon_long dc de.name hc, base_le_child dc de.name rp.base hg.1.1 hc hb⟩,
          depth_child dc de.name rp.base hg.1.1 hc hb⟩
      · simp at h
    · exact items_wf rp dp dc lvl hc hb ns hg.2 x h
  | .leaf le z :: ns, hg, x, hx => by
    simp only [goodL] at hg
    simp only [kidsItems] at hx
    exact items_wf rp dp dc lvl hc hb ns hg.2 x hx

/-- one directory, depth-first = its own entries plus the sub-directories' subtrees (as a multiset) -/
theorem dfs_split (rp : RootParams) (dp dc : Str) (hc : 1 < dc.length) (hb : rp.base ≤ calcDepth dc) :
    ∀ ns : List Node, goodL ns →
      (eventsL rp dp dc (calcDepth dc - rp.base + 1) ns).Perm
        (kidsEvents dp dc (calcDepth dc - rp.base + 1) ns ++
          (kidsItems rp dp dc (calcDepth dc - rp.base + 1) ns).flatMap (subtree rp))
  | [], _ => by simp [eventsL, kidsEvents, kidsItems]
  | .leaf le z :: ns, hg => by
    simp only [goodL] at hg
    have ih := dfs_split rp dp dc hc hb ns hg.2
    simp only [eventsL, eventsN, kidsEvents_cons, kidsItems, List.cons_append, List.nil_append, Node.entry]
    exact List.Perm.cons _ ih
  | .dir de l kids :: ns, hg => by
    simp only [goodL, goodN] at hg
    have ih := dfs_split rp dp dc hc hb ns hg.2
    have hd := depth_child dc de.name rp.base hg.1.1 hc hb
    simp only [eventsL, eventsN, kidsEvents_cons, kidsItems, List.cons_append, Node.entry, List.flatMap_append]
    refine List.Perm.cons _ ?_
    -- the sub-directory's contribution, written both ways
    have hX : (if ((rp.maxDepth == 0 || decide (calcDepth dc - rp.base + 1 < rp.maxDepth)) && l) = true then
          eventsL rp (fillEntry de dp dc de.absPath).path (childCanon dc de.name) (calcDepth dc - rp.base + 1 + 1) kids else []) =
        (if (rp.maxDepth == 0 || decide (calcDepth dc - rp.base + 1 < rp.maxDepth)) = true then
          [(⟨kids, l, (fillEntry de dp dc de.absPath).path, childCanon dc de.name⟩ : QItem)] else []).flatMap (subtree rp) := by
      by_cases hm : (rp.maxDepth == 0 || decide (calcDepth dc - rp.base + 1 < rp.maxDepth)) = true
      · simp only [hm, Bool.true_and, if_true, List.flatMap_cons, List.flatMap_nil, List.append_nil, subtree, itemDepth, hd]
      · simp only [hm, Bool.false_and, Bool.false_eq_true, if_false, List.flatMap_nil]
    rw [hX]
    generalize (List.flatMap (subtree rp) (if (rp.maxDepth == 0 || decide (calcDepth dc - rp.base + 1 < rp.maxDepth)) = true then
          [(⟨kids, l, (fillEntry de dp dc de.absPath).path, childCanon dc de.name⟩ : QItem)] else [])) = X
    -- X ++ A ~ K ++ (X ++ F) from A ~ K ++ F
    have h1 : (X ++ eventsL rp dp dc (calcDepth dc - rp.base + 1) ns).Perm
        (X ++ (kidsEvents dp dc (calcDepth dc - rp.base + 1) ns ++
          (kidsItems rp dp dc (calcDepth dc - rp.base + 1) ns).flatMap (subtree rp))) := List.Perm.append_left _ ih
    refine h1.trans ?_
    rw [← List.append_assoc, ← List.append_assoc]
    exact List.Perm.append_right _ List.perm_append_comm

/-- **bfs and dfs return the same entries**: the level order of a queue is a permutation of the
    depth-first reports of its directories -/
theorem levelOrder_perm (rp : RootParams) (q : List QItem) (hw : QWf rp q) :
    (levelOrder rp q).Perm (q.flatMap (subtree rp)) := by
  fun_induction levelOrder rp q with
  | case1 => simp
  | case2 it q hl ih =>
    have hit : ItemWf rp it := hw it (by simp)
    have hq : QWf rp q := fun x hx => hw x (by simp [hx])
    have hnew : QWf rp (q ++ kidsItems rp it.path it.canon (itemDepth rp it) it.kids) := by
      intro x hx
      rcases List.mem_append.mp hx with h | h
      · exact hq x h
      · exact (items_wf rp it.path it.canon _ hit.2.1 hit.2.2 it.kids hit.1 x h).1
    have ih' := ih hnew
    have hs := dfs_split rp it.path it.canon hit.2.1 hit.2.2 it.kids hit.1
    simp only [List.flatMap_cons, List.flatMap_append, subtree, hl, if_true] at ih' ⊢
    simp only [itemDepth] at ih' hs ⊢
    -- K ++ L ~ K ++ (Q ++ I) ~ (K ++ I) ++ Q ~ E ++ Q
    refine (List.Perm.append_left _ ih').trans ?_
    refine List.Perm.trans ?_ (List.Perm.append_right _ hs.symm)
    rw [List.append_assoc]
    exact List.Perm.append_left _ List.perm_append_comm
  | case3 it q hl ih =>
    have hq : QWf rp q := fun x hx => hw x (by simp [hx])
    have ih' := ih hq
    simpa [subtree, hl] using ih'

/-! ### breadth-first and depth-first record the same failing directories -/

/-- what the depth-first walker records below one queued directory -/
def subFaults (rp : RootParams) (it : QItem) : List Str :=
  if it.listable then faultsL rp it.path it.canon (itemDepth rp it) it.kids else [it.path]

theorem faults_split (rp : RootParams) (dp dc : Str) (hc : 1 < dc.length) (hb : rp.base ≤ calcDepth dc) :
    ∀ ns : List Node, goodL ns →
      faultsL rp dp dc (calcDepth dc - rp.base + 1) ns =
        (kidsItems rp dp dc (calcDepth dc - rp.base + 1) ns).flatMap (subFaults rp)
  | [], _ => by simp [faultsL, kidsItems]
  | .leaf le z :: ns, hg => by
    simp only [goodL] at hg
    simp only [faultsL, faultsN, kidsItems, List.nil_append]
    exact faults_split rp dp dc hc hb ns hg.2
  | .dir de l kids :: ns, hg => by
    simp only [goodL, goodN] at hg
    have ih := faults_split rp dp dc hc hb ns hg.2
    have hd := depth_child dc de.name rp.base hg.1.1 hc hb
    simp only [faultsL, faultsN, kidsItems, List.flatMap_append, ih]
    congr 1
    by_cases hm : (rp.maxDepth == 0 || decide (calcDepth dc - rp.base + 1 < rp.maxDepth)) = true
    · simp only [hm, if_true, List.flatMap_cons, List.flatMap_nil, List.append_nil, subFaults, itemDepth, hd]
    · simp only [hm, Bool.false_eq_true, if_false, List.flatMap_nil]

/-- the failing directories recorded in level order are those recorded in pre-order (as a multiset) -/
theorem levelFaults_perm (rp : RootParams) (q : List QItem) (hw : QWf rp q) :
    (levelFaults rp q).Perm (q.flatMap (subFaults rp)) := by
  fun_induction levelFaults rp q with
  | case1 => simp
  | case2 it q hl ih =>
    have hit : ItemWf rp it := hw it (by simp)
    have hq : QWf rp q := fun x hx => hw x (by simp [hx])
    have hnew : QWf rp (q ++ kidsItems rp it.path it.canon (itemDepth rp it) it.kids) := by
      intro x hx
      rcases List.mem_append.mp hx with h | h
      · exact hq x h
      · exact (items_wf rp it.path it.canon _ hit.2.1 hit.2.2 it.kids hit.1 x h).1
    have ih' := ih hnew
    have hs := faults_split rp it.path it.canon hit.2.1 hit.2.2 it.kids hit.1
    simp only [List.flatMap_cons, List.flatMap_append, subFaults, hl, if_true] at ih' ⊢
    simp only [itemDepth] at ih' hs ⊢
    rw [hs]
    exact ih'.trans List.perm_append_comm
  | case3 it q hl ih =>
    have hq : QWf rp q := fun x hx => hw x (by simp [hx])
    have ih' := ih hq
    simp only [List.flatMap_cons, subFaults, hl, Bool.false_eq_true, if_false, List.singleton_append]
    exact List.Perm.cons _ ih'

/-! ### bfs: no entry precedes an entry of smaller depth -/

/-- queue discipline: depths never decrease along the queue and any two differ by at most one -/
def QLevels (rp : RootParams) (q : List QItem) : Prop :=
  q.Pairwise (fun a b => itemDepth rp a ≤ itemDepth rp b) ∧
  ∀ x ∈ q, ∀ y ∈ q, itemDepth rp y ≤ itemDepth rp x + 1

theorem kidsEvents_level (dp dc : Str) (lvl : Nat) (ns : List Node) : ∀ ev ∈ kidsEvents dp dc lvl ns, ev.2.2 = lvl := by
  intro ev hev
  simp only [kidsEvents, List.mem_map] at hev
  obtain ⟨n, _, rfl⟩ := hev
  rfl

/-- every reported level is at least the smallest depth in the queue -/
theorem levelOrder_ge (rp : RootParams) (q : List QItem) (hw : QWf rp q) (d : Nat)
    (hd : ∀ it ∈ q, d ≤ itemDepth rp it) : ∀ ev ∈ levelOrder rp q, d ≤ ev.2.2 := by
  fun_induction levelOrder rp q with
  | case1 => intro ev hev; simp at hev
  | case2 it q hl ih =>
    have hit : ItemWf rp it := hw it (by simp)
    have hq : QWf rp q := fun x hx => hw x (by simp [hx])
    have hiw := items_wf rp it.path it.canon (itemDepth rp it) hit.2.1 hit.2.2 it.kids hit.1
    have hnew : QWf rp (q ++ kidsItems rp it.path it.canon (itemDepth rp it) it.kids) := by
      intro x hx
      rcases List.mem_append.mp hx with h | h
      · exact hq x h
      · exact (hiw x h).1
    have hd' : ∀ x ∈ q ++ kidsItems rp it.path it.canon (itemDepth rp it) it.kids, d ≤ itemDepth rp x := by
      intro x hx
      rcases List.mem_append.mp hx with h | h
      · exact hd x (by simp [h])
      · have h1 := (hiw x h).2
        have h2 := hd it (by simp)
        simp only [itemDepth] at h1 h2 ⊢
        omega
    intro ev hev
    rcases List.mem_append.mp hev with h | h
    · rw [kidsEvents_level _ _ _ _ ev h]; exact hd it (by simp)
    · exact ih hnew hd' ev h
  | case3 it q hl ih =>
    have hq : QWf rp q := fun x hx => hw x (by simp [hx])
    exact ih hq (fun x hx => hd x (by simp [hx]))

/-- **bfs order**: the reported levels never decrease -/
theorem levelOrder_sorted (rp : RootParams) (q : List QItem) (hw : QWf rp q) (hlv : QLevels rp q) :
    (levelOrder rp q).Pairwise (fun a b => a.2.2 ≤ b.2.2) := by
  fun_induction levelOrder rp q with
  | case1 => exact List.Pairwise.nil
  | case2 it q hl ih =>
    have hit : ItemWf rp it := hw it (by simp)
    have hq : QWf rp q := fun x hx => hw x (by simp [hx])
    have hiw := items_wf rp it.path it.canon (itemDepth rp it) hit.2.1 hit.2.2 it.kids hit.1
    have hnew : QWf rp (q ++ kidsItems rp it.path it.canon (itemDepth rp it) it.kids) := by
      intro x hx
      rcases List.mem_append.mp hx with h | h
      · exact hq x h
      · exact (hiw x h).1
    obtain ⟨hp, hb⟩ := hlv
    have hp' := List.pairwise_cons.mp hp
    have hkid : ∀ x ∈ kidsItems rp it.path it.canon (itemDepth rp it) it.kids, itemDepth rp x = itemDepth rp it + 1 := by
      intro x hx
      have := (hiw x hx).2
      simpa [itemDepth] using this
    have hlv' : QLevels rp (q ++ kidsItems rp it.path it.canon (itemDepth rp it) it.kids) := by
      constructor
      · refine List.pairwise_append.mpr ⟨hp'.2, ?_, ?_⟩
        · refine List.pairwise_iff_forall_sublist.mpr ?_
          intro a b hab
          have ha : a ∈ kidsItems rp it.path it.canon (itemDepth rp it) it.kids := hab.subset (by simp)
          have hb' : b ∈ kidsItems rp it.path it.canon (itemDepth rp it) it.kids := hab.subset (by simp)
          rw [hkid a ha, hkid b hb']
          exact Nat.le_refl _
        · intro a ha b hb'
          rw [hkid b hb']
          exact hb it (by simp) a (by simp [ha])
      · intro x hx y hy
        rcases List.mem_append.mp hx with h | h <;> rcases List.mem_append.mp hy with h' | h'
        · exact hb x (by simp [h]) y (by simp [h'])
        · rw [hkid y h']
          have := hp'.1 x h
          omega
        · rw [hkid x h]
          have := hb it (by simp) y (by simp [h'])
          omega
        · rw [hkid x h, hkid y h']; omega
    refine List.pairwise_append.mpr ⟨?_, ih hnew hlv', ?_⟩
    · refine List.pairwise_iff_forall_sublist.mpr ?_
      intro a b hab
      have ha : a ∈ kidsEvents it.path it.canon (itemDepth rp it) it.kids := hab.subset (by simp)
      have hb' : b ∈ kidsEvents it.path it.canon (itemDepth rp it) it.kids := hab.subset (by simp)
      rw [kidsEvents_level _ _ _ _ a ha, kidsEvents_level _ _ _ _ b hb']
      exact Nat.le_refl _
    · intro a ha b hb'
      rw [kidsEvents_level _ _ _ _ a ha]
      refine levelOrder_ge rp _ hnew (itemDepth rp it) ?_ b hb'
      intro x hx
      rcases List.mem_append.mp hx with h | h
      · exact hp'.1 x h
      · rw [hkid x h]; omega
  | case3 it q hl ih =>
    have hq : QWf rp q := fun x hx => hw x (by simp [hx])
    obtain ⟨hp, hb⟩ := hlv
    exact ih hq ⟨(List.pairwise_cons.mp hp).2, fun x hx y hy => hb x (by simp [hx]) y (by simp [hy])⟩

end WalkB
end Fsel
