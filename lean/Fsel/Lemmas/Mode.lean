/-
  Bit-level facts about the generated `mode_*` predicates (mode.rs): each permission predicate is one
  bit of the mode, each file-type predicate a value of the type nibble (bits 12..15).
-/
import Fsel.Model.Eval

namespace Fsel
namespace ModeL

theorem and_two_pow (m k : Nat) : m &&& 2^k = if m.testBit k then 2^k else 0 := by
  apply Nat.eq_of_testBit_eq
  intro i
  rw [Nat.testBit_and, Nat.testBit_two_pow]
  by_cases h : k = i
  · subst h
    cases hb : m.testBit k <;> simp
  · cases hb : m.testBit k <;> simp [h]

theorem and_two_pow_beq (m k : Nat) : (m &&& 2^k == 2^k) = m.testBit k := by
  rw [and_two_pow]
  cases m.testBit k
  · have : 2^k ≠ 0 := Nat.ne_of_gt (Nat.two_pow_pos k)
    simp; omega
  · simp

theorem testBit_61440 (i : Nat) : (61440 : Nat).testBit i = (decide (12 ≤ i) && decide (i < 16)) := by
  by_cases h : i < 16
  · have : i = 0 ∨ i = 1 ∨ i = 2 ∨ i = 3 ∨ i = 4 ∨ i = 5 ∨ i = 6 ∨ i = 7 ∨ i = 8 ∨ i = 9 ∨ i = 10 ∨ i = 11 ∨
        i = 12 ∨ i = 13 ∨ i = 14 ∨ i = 15 := by omega
    rcases this with h|h|h|h|h|h|h|h|h|h|h|h|h|h|h|h <;> subst h <;> decide
  · have h16 : (61440 : Nat) < 2 ^ i := by
      have : 2 ^ 16 ≤ 2 ^ i := Nat.pow_le_pow_right (by decide) (by omega)
      omega
    rw [Nat.testBit_lt_two_pow h16]
    simp [h]

/-- masking with `S_IFMT` keeps exactly the type nibble -/
theorem and_ifmt (m : Nat) : m &&& 61440 = (m / 4096 % 16) * 4096 := by
  apply Nat.eq_of_testBit_eq
  intro i
  have e1 : (4096 : Nat) = 2 ^ 12 := by decide
  have e2 : (16 : Nat) = 2 ^ 4 := by decide
  rw [Nat.testBit_and, testBit_61440, e1, e2, Nat.testBit_mul_two_pow, Nat.testBit_mod_two_pow, Nat.testBit_div_two_pow]
  by_cases h12 : 12 ≤ i
  · have : i - 12 + 12 = i := by omega
    rw [this]
    by_cases h16 : i < 16
    · have : i - 12 < 4 := by omega
      simp [h12, h16, this]
    · have : ¬ i - 12 < 4 := by omega
      simp [h12, h16, this]
  · simp [h12]

/-- the file-type nibble of a mode -/
def nibble (m : Nat) : Nat := m / 4096 % 16

theorem nibble_lt (m : Nat) : nibble m < 16 := by unfold nibble; omega

theorem mul_beq (t c : Nat) : (t * 4096 == c * 4096) = (t == c) := by
  by_cases h : t = c
  · subst h; simp
  · have : t * 4096 ≠ c * 4096 := by omega
    rw [beq_eq_false_iff_ne.mpr h, beq_eq_false_iff_ne.mpr this]

theorem type_eq (m c : Nat) : (m &&& S_IFMT == c * 4096) = (nibble m == c) := by
  show (m &&& 61440 == c * 4096) = _
  rw [and_ifmt, mul_beq]; rfl

theorem is_pipe_nibble (m : Nat) : mode_is_pipe m = (nibble m == 1) := type_eq m 1
theorem is_char_nibble (m : Nat) : mode_is_char_device m = (nibble m == 2) := type_eq m 2
theorem is_dir_nibble (m : Nat) : mode_is_directory m = (nibble m == 4) := type_eq m 4
theorem is_block_nibble (m : Nat) : mode_is_block_device m = (nibble m == 6) := type_eq m 6
theorem is_link_nibble (m : Nat) : mode_is_link m = (nibble m == 10) := type_eq m 10
theorem is_socket_nibble (m : Nat) : mode_is_socket m = (nibble m == 12) := type_eq m 12

theorem user_read_bit (m : Nat) : mode_user_read m = m.testBit 8 := and_two_pow_beq m 8
theorem user_write_bit (m : Nat) : mode_user_write m = m.testBit 7 := and_two_pow_beq m 7
theorem user_exec_bit (m : Nat) : mode_user_exec m = m.testBit 6 := and_two_pow_beq m 6
theorem group_read_bit (m : Nat) : mode_group_read m = m.testBit 5 := and_two_pow_beq m 5
theorem group_write_bit (m : Nat) : mode_group_write m = m.testBit 4 := and_two_pow_beq m 4
theorem group_exec_bit (m : Nat) : mode_group_exec m = m.testBit 3 := and_two_pow_beq m 3
theorem other_read_bit (m : Nat) : mode_other_read m = m.testBit 2 := and_two_pow_beq m 2
theorem other_write_bit (m : Nat) : mode_other_write m = m.testBit 1 := and_two_pow_beq m 1
theorem other_exec_bit (m : Nat) : mode_other_exec m = m.testBit 0 := and_two_pow_beq m 0
theorem suid_bit (m : Nat) : mode_suid m = m.testBit 11 := and_two_pow_beq m 11
theorem sgid_bit (m : Nat) : mode_sgid m = m.testBit 10 := and_two_pow_beq m 10
theorem sticky_bit (m : Nat) : mode_sticky m = m.testBit 9 := and_two_pow_beq m 9

end ModeL
end Fsel
