/-
  Streamed LIMIT (a query that is neither ordered nor aggregated): the walker stops reporting as soon as
  `found` reaches the limit.  This file proves, for the depth-first walker on every tree,
  * `dfs_list_lim` — the result part of the walker's state is `foldLim` (check_file applied to the
    entries and archive members in pre-order, *stopping at the limit*) — no `NoLimit` hypothesis;
  * `lim_is_prefix` — the limited fold is a prefix of the unlimited one: same chunks, in the same
    order, min(N, M) of them.
-/
import Fsel.Lemmas.Walk

namespace Fsel
namespace WalkLim
open WalkL

/-- the `check_file` calls one event gives rise to: the entry itself (when inside the mindepth window),
    then — for a zip archive searched with `archives` — its members in table order -/
def checksOf (p : Plan) (rp : RootParams) (ev : Node × Entry × Nat) : List Entry :=
  if rp.minDepth == 0 || ev.2.2 ≥ rp.minDepth then
    ev.2.1 :: (match ev.1 with
      | .leaf _ (some ms) =>
        if rp.archives && hasExtension ev.2.1.path p.cfg.zipExts then ms.map (fun a => { ev.2.1 with arc := some a }) else []
      | _ => [])
  else []

def checksL (p : Plan) (rp : RootParams) (evs : List (Node × Entry × Nat)) : List Entry :=
  evs.flatMap (checksOf p rp)

theorem checksL_nil (p : Plan) (rp : RootParams) : checksL p rp [] = [] := rfl
theorem checksL_cons (p : Plan) (rp : RootParams) (ev : Node × Entry × Nat) (evs : List (Node × Entry × Nat)) :
    checksL p rp (ev :: evs) = checksOf p rp ev ++ checksL p rp evs := by simp [checksL]
theorem checksL_append (p : Plan) (rp : RootParams) (a b : List (Node × Entry × Nat)) :
    checksL p rp (a ++ b) = checksL p rp a ++ checksL p rp b := by simp [checksL]

/-- `check_file` over a list of entries, stopping as soon as the streamed limit is reached -/
def foldLim (p : Plan) : ResSt → List Entry → Except Abort ResSt
  | rs, [] => .ok rs
  | rs, e :: es =>
    if limitReached p rs then .ok rs
    else match checkFile p rs e with
      | .error a => .error a
      | .ok rs' => foldLim p rs' es

theorem foldLim_reached (p : Plan) (rs : ResSt) (h : limitReached p rs = true) (es : List Entry) :
    foldLim p rs es = .ok rs := by
  cases es with
  | nil => rfl
  | cons e es => simp [foldLim, h]

theorem foldLim_append (p : Plan) (rs : ResSt) (a b : List Entry) :
    foldLim p rs (a ++ b) =
      match foldLim p rs a with
      | .error x => .error x
      | .ok rs' => foldLim p rs' b := by
  induction a generalizing rs with
  | nil => rfl
  | cons e a ih =>
    simp only [List.cons_append, foldLim]
    by_cases hl : limitReached p rs = true
    · simp only [hl, if_true]
      exact (foldLim_reached p rs hl b).symm
    · simp only [hl, Bool.false_eq_true, if_false]
      cases checkFile p rs e with
      | error x => rfl
      | ok rs' => exact ih rs'

/-- the member loop is `foldLim` over the members -/
theorem checkMembers_eq (p : Plan) (e : Entry) (ms : List ArcInfo) (rs : ResSt) :
    checkMembers p rs e ms = foldLim p rs (ms.map fun a => { e with arc := some a }) := by
  induction ms generalizing rs with
  | nil => rfl
  | cons a as ih =>
    simp only [checkMembers, List.map_cons, foldLim]
    split
    · rfl
    · cases checkFile p rs { e with arc := some a } with
      | error x => rfl
      | ok rs' => exact ih rs'

/-- reporting one event (entered only while the limit is not reached) -/
theorem reportEntry_eq (p : Plan) (rp : RootParams) (lvl : Nat) (n : Node) (e : Entry) (rs : ResSt)
    (h : limitReached p rs = false) :
    reportEntry p rp lvl n e rs = foldLim p rs (checksOf p rp (n, e, lvl)) := by
  unfold reportEntry checksOf
  by_cases hm : (rp.minDepth == 0 || decide (lvl ≥ rp.minDepth)) = true
  · simp only [hm, if_true, foldLim, h, Bool.false_eq_true, if_false]
    cases checkFile p rs e with
    | error a => rfl
    | ok s =>
      simp only
      cases n with
      | dir de l kids => simp [foldLim]
      | leaf le z =>
        cases z with
        | none => simp [foldLim]
        | some ms =>
          simp only
          split
          · exact checkMembers_eq p e ms s
          · simp [foldLim]
  · simp only [hm, Bool.false_eq_true, if_false, foldLim]

/-! ### `check_file` of an unbuffered query: at most one chunk, and `found` counts the chunks -/

theorem checkFile_step (p : Plan) (hb : p.q.isBuffered = false) (rs rs' : ResSt) (e : Entry)
    (h : checkFile p rs e = .ok rs') :
    (rs'.found = rs.found ∧ rs'.outRev = rs.outRev) ∨ (rs'.found = rs.found + 1 ∧ ∃ c, rs'.outRev = c :: rs.outRev) := by
  unfold checkFile at h
  simp only [hb, Bool.false_eq_true, if_false] at h
  repeat' split at h
  all_goals first
    | contradiction
    | (injection h with h; subst h; exact Or.inl ⟨rfl, rfl⟩)
    | (injection h with h; subst h; exact Or.inr ⟨rfl, _, rfl⟩)

/-- the same plan without its LIMIT -/
def unlimited (p : Plan) : Plan := { p with q := { p.q with limit := 0 } }

theorem unlimited_noLimit (p : Plan) : NoLimit (unlimited p) := Or.inr rfl

/-- `check_file` never looks at the limit -/
theorem checkFile_unlimited (p : Plan) (rs : ResSt) (e : Entry) : checkFile (unlimited p) rs e = checkFile p rs e := rfl

theorem checksL_unlimited (p : Plan) (rp : RootParams) (evs : List (Node × Entry × Nat)) :
    checksL (unlimited p) rp evs = checksL p rp evs := rfl

/-- the unlimited fold only ever prepends chunks, one per row found -/
theorem foldLim_unlimited_extends (p : Plan) (hb : p.q.isBuffered = false) (es : List Entry) (rs rsU : ResSt)
    (h : foldLim (unlimited p) rs es = .ok rsU) :
    ∃ cs, rsU.outRev = cs ++ rs.outRev ∧ rsU.found = rs.found + cs.length := by
  induction es generalizing rs with
  | nil =>
    simp only [foldLim] at h
    injection h with h; subst h
    exact ⟨[], rfl, rfl⟩
  | cons e es ih =>
    simp only [foldLim, noLimit_false _ (unlimited_noLimit p), Bool.false_eq_true, if_false, checkFile_unlimited] at h
    cases hc : checkFile p rs e with
    | error a => rw [hc] at h; contradiction
    | ok rs1 =>
      rw [hc] at h
      obtain ⟨cs, h1, h2⟩ := ih rs1 h
      rcases checkFile_step p hb rs rs1 e hc with ⟨hf, ho⟩ | ⟨hf, c, ho⟩
      · exact ⟨cs, by rw [h1, ho], by rw [h2, hf]⟩
      · exact ⟨cs ++ [c], by rw [h1, ho]; simp, by rw [h2, hf]; simp; omega⟩

/-- **Streamed LIMIT is a prefix of the unlimited run.**  For a query that is neither ordered nor
    aggregated with `limit n`, n ≥ 1: whenever the unlimited fold over a list of entries succeeds with
    `rsU`, the limited fold succeeds with some `rsL` whose output chunks are the *oldest*
    `min n M` chunks of the unlimited run (`M = rsU.found`), in the same order: the unlimited run wrote
    exactly those chunks first and then `cs`. -/
theorem lim_is_prefix (p : Plan) (hb : p.q.isBuffered = false) (hn : 0 < p.q.limit) (es : List Entry) (rs rsU : ResSt)
    (h0 : rs.found ≤ p.q.limit) (h : foldLim (unlimited p) rs es = .ok rsU) :
    ∃ rsL cs, foldLim p rs es = .ok rsL ∧ rsU.outRev = cs ++ rsL.outRev ∧ rsU.found = rsL.found + cs.length ∧
      rsL.found = min p.q.limit rsU.found := by
  induction es generalizing rs with
  | nil =>
    simp only [foldLim] at h
    injection h with h; subst h
    exact ⟨rs, [], rfl, rfl, rfl, by omega⟩
  | cons e es ih =>
    by_cases hl : limitReached p rs = true
    · -- the limit is reached: the limited run stops here, the unlimited one goes on prepending
      obtain ⟨cs, h1, h2⟩ := foldLim_unlimited_extends p hb (e :: es) rs rsU h
      refine ⟨rs, cs, foldLim_reached p rs hl _, h1, h2, ?_⟩
      have : p.q.limit ≤ rs.found := by
        unfold limitReached at hl
        simp only [hb, Bool.not_false, Bool.true_and, Bool.and_eq_true, decide_eq_true_eq] at hl
        exact hl.2
      omega
    · have hl' : limitReached p rs = false := by simpa using hl
      have hlt : rs.found < p.q.limit := by
        unfold limitReached at hl'
        simp only [hb, Bool.not_false, Bool.true_and, Bool.and_eq_false_iff, decide_eq_false_iff_not] at hl'
        rcases hl' with h1 | h1 <;> omega
      simp only [foldLim, noLimit_false _ (unlimited_noLimit p), Bool.false_eq_true, if_false, checkFile_unlimited] at h
      simp only [foldLim, hl', Bool.false_eq_true, if_false]
      cases hc : checkFile p rs e with
      | error a => rw [hc] at h; contradiction
      | ok rs1 =>
        rw [hc] at h
        simp only
        have h1 : rs1.found ≤ p.q.limit := by
          rcases checkFile_step p hb rs rs1 e hc with ⟨hf, _⟩ | ⟨hf, _⟩ <;> omega
        exact ih rs1 h1 h

/-- … in terms of the bytes on stdout: the limited output is a prefix of the unlimited output -/
theorem lim_out_prefix (p : Plan) (hb : p.q.isBuffered = false) (hn : 0 < p.q.limit) (es : List Entry) (rs rsU : ResSt)
    (h0 : rs.found ≤ p.q.limit) (h : foldLim (unlimited p) rs es = .ok rsU) :
    ∃ rsL rest, foldLim p rs es = .ok rsL ∧ rsU.out = rsL.out ++ rest ∧ rsL.found = min p.q.limit rsU.found := by
  obtain ⟨rsL, cs, h1, h2, _, h4⟩ := lim_is_prefix p hb hn es rs rsU h0 h
  refine ⟨rsL, cs.reverse.flatten, h1, ?_, h4⟩
  simp [ResSt.out, h2]

/-! ### The depth-first walker under any plan (limited or not) -/

/-- the traversal only ever records inode numbers of the tree it walks -/
def WalkSub (w w' : WalkSt) (ins : List Nat) : Prop := ∀ i, i ∈ w'.visited → i ∈ w.visited ∨ i ∈ ins

theorem walkSub_refl (w : WalkSt) (ins : List Nat) : WalkSub w w ins := fun _ h => Or.inl h

theorem visitKidsD_reached (p : Plan) (rp : RootParams) (dp dc : Str) (lvl : Nat) (st : WSt)
    (h : limitReached p st.res = true) (ns : List Node) : visitKidsD p rp dp dc lvl st ns = .ok st := by
  cases ns with
  | nil => rw [visitKidsD]
  | cons n ns => rw [visitKidsD]; simp [h]

mutual
/-- one node: reporting it and descending into it = `foldLim` over the checks of its events -/
theorem dfs_node_lim (p : Plan) (rp : RootParams) (dirPath dirCanon : Str) (lvl : Nat)
    (hc : 1 < dirCanon.length) (hb : rp.base ≤ calcDepth dirCanon) (hlvl : calcDepth dirCanon - rp.base + 1 = lvl) :
    ∀ (n : Node) (rest : List Node) (st : WSt),
      goodN n → (inodesN n).Nodup → (∀ i ∈ inodesN n, i ∉ st.walk.visited) →
      (match foldLim p st.res (checksL p rp (eventsN rp dirPath dirCanon lvl n)) with
       | .error a => visitKidsD p rp dirPath dirCanon lvl st (n :: rest) = .error a
       | .ok rs' => ∃ w', WalkSub st.walk w' (inodesN n) ∧
           visitKidsD p rp dirPath dirCanon lvl st (n :: rest) =
             visitKidsD p rp dirPath dirCanon lvl { res := rs', walk := w' } rest)
  | .leaf le z, rest, st, hg, _hnd, _hfresh => by
    by_cases hl : limitReached p st.res = true
    · rw [foldLim_reached p st.res hl]
      exact ⟨st.walk, walkSub_refl _ _, by rw [visitKidsD_reached p rp _ _ _ st hl, visitKidsD_reached p rp _ _ _ _ hl]⟩
    · have hl' : limitReached p st.res = false := by simpa using hl
      simp only [eventsN, checksL_cons, checksL_nil, List.append_nil]
      rw [← reportEntry_eq p rp lvl (.leaf le z) _ st.res hl']
      rw [visitKidsD]
      simp only [hl', Bool.false_eq_true, if_false, Node.entry]
      cases hr : reportEntry p rp lvl (.leaf le z) (fillEntry le dirPath dirCanon le.absPath) st.res with
      | error a => rfl
      | ok r1 =>
        simp only
        by_cases hmax : (rp.maxDepth == 0 || decide (lvl < rp.maxDepth)) = true
        · simp only [hmax, if_true]
          by_cases hk : (le.kind == 'l') = true
          · simp only [hk, if_true]
            refine ⟨(okToVisit st.walk le).2, ?_, rfl⟩
            unfold okToVisit
            split
            · exact walkSub_refl _ _
            · intro i hi
              simp only [List.mem_append, List.mem_singleton] at hi
              rcases hi with h | h
              · exact Or.inl h
              · right; simp [inodesN, hk, h]
          · simp only [hk]
            exact ⟨st.walk, walkSub_refl _ _, rfl⟩
        · simp only [hmax]
          exact ⟨st.walk, walkSub_refl _ _, rfl⟩
  | .dir de listable kids, rest, st, hg, hnd, hfresh => by
    by_cases hl : limitReached p st.res = true
    · rw [foldLim_reached p st.res hl]
      exact ⟨st.walk, walkSub_refl _ _, by rw [visitKidsD_reached p rp _ _ _ st hl, visitKidsD_reached p rp _ _ _ _ hl]⟩
    · have hl' : limitReached p st.res = false := by simpa using hl
      simp only [goodN] at hg
      obtain ⟨hname, hkd, hgk⟩ := hg
      simp only [eventsN, checksL_cons]
      rw [foldLim_append, ← reportEntry_eq p rp lvl (.dir de listable kids) _ st.res hl']
      rw [visitKidsD]
      simp only [hl', Bool.false_eq_true, if_false, Node.entry]
      cases hr : reportEntry p rp lvl (.dir de listable kids) (fillEntry de dirPath dirCanon de.absPath) st.res with
      | error a => rfl
      | ok r1 =>
        simp only
        by_cases hmax : (rp.maxDepth == 0 || decide (lvl < rp.maxDepth)) = true
        · simp only [hmax, if_true, Bool.true_and]
          have hfr : de.ino ∉ st.walk.visited := hfresh de.ino (by simp [inodesN])
          rw [okToVisit_fresh st.walk de hfr]
          simp only
          have hkind : (de.kind != 'l') = true := by rw [hkd]; decide
          simp only [hkind, if_true]
          rw [visitDirD]
          cases listable with
          | false =>
            simp only [Bool.not_false, if_true, Bool.false_eq_true, if_false, checksL_nil, foldLim]
            refine ⟨_, ?_, rfl⟩
            intro i hi
            simp only [List.mem_append, List.mem_singleton] at hi
            rcases hi with h | h
            · exact Or.inl h
            · right; simp [inodesN, h]
          | true =>
            simp only [Bool.not_true, Bool.false_eq_true, if_false, if_true]
            have hnd' : (inodesL kids).Nodup := (List.nodup_cons.mp (by simpa [inodesN] using hnd)).2
            have hnotin : de.ino ∉ inodesL kids := (List.nodup_cons.mp (by simpa [inodesN] using hnd)).1
            have hfresh' : ∀ i ∈ inodesL kids, i ∉ ({ st.walk with visited := st.walk.visited ++ [de.ino] } : WalkSt).visited := by
              intro i hi hv
              simp only [List.mem_append, List.mem_singleton] at hv
              rcases hv with h | h
              · exact hfresh i (by simp [inodesN, hi]) h
              · subst h; exact hnotin hi
            have hd := depth_child dirCanon de.name rp.base hname hc hb
            rw [hd, hlvl]
            have ih := dfs_list_lim p rp (fillEntry de dirPath dirCanon de.absPath).path (childCanon dirCanon de.name) (lvl + 1)
              (childCanon_long dirCanon de.name hc) (base_le_child dirCanon de.name rp.base hname hc hb) (by rw [hd, hlvl])
              kids { res := r1, walk := { st.walk with visited := st.walk.visited ++ [de.ino] } } hgk hnd' hfresh'
            simp only at ih
            cases hf : foldLim p r1 (checksL p rp (eventsL rp (fillEntry de dirPath dirCanon de.absPath).path (childCanon dirCanon de.name) (lvl + 1) kids)) with
            | error a =>
              rw [hf] at ih
              simp only [ih]
            | ok rs' =>
              rw [hf] at ih
              obtain ⟨w', hw, heq⟩ := ih
              simp only [heq]
              refine ⟨w', ?_, rfl⟩
              intro i hi
              rcases hw i hi with h | h
              · simp only [List.mem_append, List.mem_singleton] at h
                rcases h with h | h
                · exact Or.inl h
                · right; simp [inodesN, h]
              · right; simp [inodesN, h]
        · simp only [hmax, Bool.false_and, Bool.false_eq_true, if_false, checksL_nil, foldLim]
          exact ⟨st.walk, walkSub_refl _ _, rfl⟩

/-- **DFS under a streamed LIMIT (forest)**: the result state is `foldLim` over the checks in pre-order -/
theorem dfs_list_lim (p : Plan) (rp : RootParams) (dirPath dirCanon : Str) (lvl : Nat)
    (hc : 1 < dirCanon.length) (hb : rp.base ≤ calcDepth dirCanon) (hlvl : calcDepth dirCanon - rp.base + 1 = lvl) :
    ∀ (ns : List Node) (st : WSt),
      goodL ns → (inodesL ns).Nodup → (∀ i ∈ inodesL ns, i ∉ st.walk.visited) →
      (match foldLim p st.res (checksL p rp (eventsL rp dirPath dirCanon lvl ns)) with
       | .error a => visitKidsD p rp dirPath dirCanon lvl st ns = .error a
       | .ok rs' => ∃ w', WalkSub st.walk w' (inodesL ns) ∧
           visitKidsD p rp dirPath dirCanon lvl st ns = .ok { res := rs', walk := w' })
  | [], st, _, _, _ => by
    simp only [eventsL, checksL_nil, foldLim]
    exact ⟨st.walk, walkSub_refl _ _, by rw [visitKidsD]⟩
  | n :: ns, st, hg, hnd, hfresh => by
    simp only [goodL] at hg
    obtain ⟨hgn, hgs⟩ := hg
    simp only [inodesL] at hnd hfresh
    have hndn : (inodesN n).Nodup := (List.nodup_append.mp hnd).1
    have hnds : (inodesL ns).Nodup := (List.nodup_append.mp hnd).2.1
    have hdisj := (List.nodup_append.mp hnd).2.2
    have hn := dfs_node_lim p rp dirPath dirCanon lvl hc hb hlvl n ns st hgn hndn
      (fun i hi => hfresh i (by simp [hi]))
    simp only [eventsL, checksL_append]
    rw [foldLim_append]
    cases hf : foldLim p st.res (checksL p rp (eventsN rp dirPath dirCanon lvl n)) with
    | error a =>
      rw [hf] at hn
      simpa using hn
    | ok rs1 =>
      rw [hf] at hn
      obtain ⟨w1, hw1, heq1⟩ := hn
      simp only
      have hfresh2 : ∀ i ∈ inodesL ns, i ∉ w1.visited := by
        intro i hi hv
        rcases hw1 i hv with h | h
        · exact hfresh i (by simp [hi]) h
        · exact hdisj i h i hi rfl
      have ih := dfs_list_lim p rp dirPath dirCanon lvl hc hb hlvl ns { res := rs1, walk := w1 } hgs hnds hfresh2
      simp only at ih
      cases hf2 : foldLim p rs1 (checksL p rp (eventsL rp dirPath dirCanon lvl ns)) with
      | error a =>
        rw [hf2] at ih
        rw [heq1, ih]
      | ok rs2 =>
        rw [hf2] at ih
        obtain ⟨w2, hw2, heq2⟩ := ih
        refine ⟨w2, ?_, by rw [heq1, heq2]⟩
        intro i hi
        rcases hw2 i hi with h | h
        · rcases hw1 i h with h' | h'
          · exact Or.inl h'
          · right; exact List.mem_append.mpr (Or.inl h')
        · right; exact List.mem_append.mpr (Or.inr h)
end

end WalkLim
end Fsel
