/-
  `parse_order_by` reads the key list as written: every key (positional or an expression), its direction,
  in order — nothing dropped, merged or re-attached.
-/
import Fsel.Lemmas.ParseCond
import Fsel.Model.ParserTop

namespace Fsel
namespace ParseO
open ParseL ParseC

/-- one ORDER BY key as written -/
inductive OKey where
  /-- a position in the select list: `.raw "<idx>"` -/
  | pos (s : Str) (idx : Nat) (f : Expr)
  /-- an expression of the Boolean/arithmetic grammar whose first token is a word that is no number -/
  | expr (s : Str) (tl : List Lexem) (x : X)

structure OItem where
  comma : Bool          -- written after a comma (commas are optional)
  key : OKey
  desc : Bool           -- followed by `desc` (`asc` is dropped by the lexer)

def OKey.toks : OKey → List Lexem
  | .pos s _ _ => [.raw s]
  | .expr s tl _ => .raw s :: tl

def OKey.tree : OKey → Expr
  | .pos _ _ f => f
  | .expr _ _ x => x.tree

def OKey.WF (fields : List Expr) : OKey → Prop
  | .pos s idx f => parseUsize? s = some idx ∧ idx ≠ 0 ∧ fields[idx - 1]? = some f
  | .expr s tl x => parseUsize? s = none ∧ x.toks = .raw s :: tl ∧ x.WF false

def OItem.toks (it : OItem) : List Lexem :=
  (if it.comma then [.comma] else []) ++ it.key.toks ++ (if it.desc then [.desc] else [])

/-- what may follow the key list: anything but a comma, `desc` or a word -/
def OrderStop : List Lexem → Prop
  | [] => True
  | .comma :: _ | .desc :: _ | .raw _ :: _ => False
  | _ => True

theorem setLastFalse_append (ds : List Bool) (d : Bool) : setLastFalse (ds ++ [d]) = ds ++ [false] := by
  induction ds with
  | nil => rfl
  | cons b bs ih =>
    cases hbs : bs with
    | nil => simp [setLastFalse]
    | cons c cs =>
      have : (c :: cs) ++ [d] = c :: (cs ++ [d]) := rfl
      simp only [List.cons_append, setLastFalse]
      rw [hbs] at ih
      simpa using ih

theorem iterate_comma (fields : List Expr) (st : List Expr × List Bool) (r : List Lexem) :
    (iterate (orderStep fields) st (.comma :: r)).1 = (iterate (orderStep fields) st r).1 ∧
    (iterate (orderStep fields) st (.comma :: r)).2.1 = (iterate (orderStep fields) st r).2.1 := by
  rw [iterate]
  simp only [orderStep]
  cases iterate (orderStep fields) st r with
  | mk x r' => simp [Rest.lift]

theorem iterate_desc (fields : List Expr) (es : List Expr) (ds : List Bool) (d : Bool) (r : List Lexem) :
    (iterate (orderStep fields) (es, ds ++ [d]) (.desc :: r)).1 = (iterate (orderStep fields) (es, ds ++ [false]) r).1 ∧
    (iterate (orderStep fields) (es, ds ++ [d]) (.desc :: r)).2.1 = (iterate (orderStep fields) (es, ds ++ [false]) r).2.1 := by
  rw [iterate]
  have hne : (ds ++ [d]).isEmpty = false := by cases ds <;> rfl
  simp only [orderStep, hne, Bool.false_eq_true, if_false, setLastFalse_append]
  cases iterate (orderStep fields) (es, ds ++ [false]) r with
  | mk x r' => simp [Rest.lift]

theorem iterate_pos (fields : List Expr) (st : List Expr × List Bool) (s : Str) (idx : Nat) (f : Expr) (r : List Lexem)
    (h1 : parseUsize? s = some idx) (h2 : idx ≠ 0) (h3 : fields[idx - 1]? = some f) :
    (iterate (orderStep fields) st (.raw s :: r)).1 = (iterate (orderStep fields) (st.1 ++ [f], st.2 ++ [true]) r).1 ∧
    (iterate (orderStep fields) st (.raw s :: r)).2.1 = (iterate (orderStep fields) (st.1 ++ [f], st.2 ++ [true]) r).2.1 := by
  rw [iterate]
  have hz : (idx == 0) = false := by simp [h2]
  simp only [orderStep, h1, hz, Bool.false_eq_true, if_false, h3]
  cases iterate (orderStep fields) (st.1 ++ [f], st.2 ++ [true]) r with
  | mk x r' => simp [Rest.lift]

theorem iterate_expr (fields : List Expr) (st : List Expr × List Bool) (s : Str) (tl : List Lexem) (x : X) (r : List Lexem)
    (h1 : parseUsize? s = none) (h2 : x.toks = .raw s :: tl) (hw : x.WF false) (hr : StopOr r) :
    (iterate (orderStep fields) st (.raw s :: (tl ++ r))).1 = (iterate (orderStep fields) (st.1 ++ [x.tree], st.2 ++ [true]) r).1 ∧
    (iterate (orderStep fields) st (.raw s :: (tl ++ r))).2.1 = (iterate (orderStep fields) (st.1 ++ [x.tree], st.2 ++ [true]) r).2.1 := by
  have hp := parse_X false x hw r (x.toks ++ r) hr rfl
  rw [h2] at hp
  simp only [List.cons_append] at hp
  rw [iterate]
  simp only [orderStep, h1]
  generalize parseExpr false (.raw s :: (tl ++ r)) = q at hp ⊢
  obtain ⟨res, rst, le, pr⟩ := q
  obtain ⟨g1, g2⟩ := hp
  simp only at g1 g2
  subst g1; subst g2
  simp only
  cases iterate (orderStep fields) (st.1 ++ [x.tree], st.2 ++ [true]) rst with
  | mk y r' => simp [Rest.lift]

theorem iterate_stop (fields : List Expr) (st : List Expr × List Bool) (r : List Lexem) (h : OrderStop r) :
    (iterate (orderStep fields) st r).1 = .ok st ∧ (iterate (orderStep fields) st r).2.1 = r := by
  rw [iterate]
  cases r with
  | nil => simp [orderStep, Rest.refl]
  | cons t rs =>
    cases t <;> first | exact ⟨rfl, rfl⟩ | (simp only [OrderStop] at h)

theorem stopOr_comma (r : List Lexem) : StopOr (.comma :: r) := by simp [StopOr, StopCond]
theorem stopOr_desc (r : List Lexem) : StopOr (.desc :: r) := by simp [StopOr, StopCond]

/-- **the ORDER BY loop reads the key list as written** — every key in order with its own direction.
    Expression keys must be followed by a comma, `desc` or the end of the clause (`hsep`); positional keys
    need no separator. -/
theorem order_items (fields : List Expr) : ∀ (items : List OItem) (es : List Expr) (ds : List Bool) (rest : List Lexem),
    (∀ it ∈ items, it.key.WF fields) → StopOr rest → OrderStop rest →
    -- an expression key that is not followed by `desc` is followed by a comma (or ends the list)
    (∀ (a b : OItem) (l1 l2 : List OItem), items = l1 ++ a :: b :: l2 → (∃ s tl x, a.key = .expr s tl x) → a.desc = false → b.comma = true) →
    (iterate (orderStep fields) (es, ds) (items.flatMap OItem.toks ++ rest)).1 =
      .ok (es ++ items.map (·.key.tree), ds ++ items.map (fun it => !it.desc)) ∧
    (iterate (orderStep fields) (es, ds) (items.flatMap OItem.toks ++ rest)).2.1 = rest
  | [], es, ds, rest, _, _, hos, _ => by
    have h := iterate_stop fields (es, ds) rest hos
    refine ⟨?_, h.2⟩
    rw [show ([] : List OItem).flatMap OItem.toks ++ rest = rest from rfl, h.1]
    simp
  | it :: items, es, ds, rest, hwf, hsr, hos, hsep => by
    have hw := hwf it (by simp)
    have hsep' : ∀ (a b : OItem) (l1 l2 : List OItem), items = l1 ++ a :: b :: l2 → (∃ s tl x, a.key = .expr s tl x) → a.desc = false → b.comma = true := by
      intro a b l1 l2 h
      exact hsep a b (it :: l1) l2 (by simp [h])
    have ih := fun es' ds' => order_items fields items es' ds' rest (fun x hx => hwf x (by simp [hx])) hsr hos hsep'
    -- what follows this key's own tokens
    have hnext : ∀ (pre : List Lexem), pre = (if it.desc then [Lexem.desc] else []) →
        StopOr (pre ++ (items.flatMap OItem.toks ++ rest)) ∨ (∃ s idx f, it.key = .pos s idx f) := by
      intro pre hpre
      cases hk : it.key with
      | pos s idx f => exact Or.inr ⟨s, idx, f, rfl⟩
      | expr s tl x =>
        left
        subst hpre
        cases hd : it.desc with
        | true => simp only [if_true, List.cons_append, List.nil_append]; exact stopOr_desc _
        | false =>
          simp only [Bool.false_eq_true, if_false, List.nil_append]
          cases items with
          | nil => simpa using hsr
          | cons b l2 =>
            have hb := hsep it b [] l2 rfl ⟨s, tl, x, hk⟩ hd
            simp only [List.flatMap_cons, OItem.toks, hb, if_true, List.cons_append, List.nil_append, List.append_assoc]
            exact stopOr_comma _
    -- strip the optional comma
    have hcomma : ∀ (tl : List Lexem),
        (iterate (orderStep fields) (es, ds) ((if it.comma then [Lexem.comma] else []) ++ tl)).1 = (iterate (orderStep fields) (es, ds) tl).1 ∧
        (iterate (orderStep fields) (es, ds) ((if it.comma then [Lexem.comma] else []) ++ tl)).2.1 = (iterate (orderStep fields) (es, ds) tl).2.1 := by
      intro tl
      cases it.comma with
      | true => simpa using iterate_comma fields (es, ds) tl
      | false => simp
    -- strip the optional desc
    have hdesc : ∀ (e : Expr) (tl : List Lexem),
        (iterate (orderStep fields) (es ++ [e], ds ++ [true]) ((if it.desc then [Lexem.desc] else []) ++ tl)).1 =
          (iterate (orderStep fields) (es ++ [e], ds ++ [!it.desc]) tl).1 ∧
        (iterate (orderStep fields) (es ++ [e], ds ++ [true]) ((if it.desc then [Lexem.desc] else []) ++ tl)).2.1 =
          (iterate (orderStep fields) (es ++ [e], ds ++ [!it.desc]) tl).2.1 := by
      intro e tl
      cases it.desc with
      | true => simpa using iterate_desc fields (es ++ [e]) ds true tl
      | false => simp
    have hflat : (it :: items).flatMap OItem.toks ++ rest =
        (if it.comma then [Lexem.comma] else []) ++ (it.key.toks ++ ((if it.desc then [Lexem.desc] else []) ++ (items.flatMap OItem.toks ++ rest))) := by
      simp [OItem.toks, List.append_assoc]
    rw [hflat]
    obtain ⟨c1, c2⟩ := hcomma (it.key.toks ++ ((if it.desc then [Lexem.desc] else []) ++ (items.flatMap OItem.toks ++ rest)))
    rw [c1, c2]
    have hfin := ih (es ++ [it.key.tree]) (ds ++ [!it.desc])
    cases hk : it.key with
    | pos s idx f =>
      rw [hk] at hw
      simp only [OKey.WF] at hw
      obtain ⟨p1, p2⟩ := iterate_pos fields (es, ds) s idx f ((if it.desc then [Lexem.desc] else []) ++ (items.flatMap OItem.toks ++ rest)) hw.1 hw.2.1 hw.2.2
      simp only [OKey.toks, List.singleton_append]
      rw [p1, p2]
      obtain ⟨d1, d2⟩ := hdesc f (items.flatMap OItem.toks ++ rest)
      rw [d1, d2]
      have e1 : es ++ (it :: items).map (·.key.tree) = (es ++ [f]) ++ items.map (·.key.tree) := by
        simp [hk, OKey.tree]
      have e2 : ds ++ (it :: items).map (fun it => !it.desc) = (ds ++ [!it.desc]) ++ items.map (fun it => !it.desc) := by simp
      rw [e1, e2]
      simpa [hk, OKey.tree] using hfin
    | expr s tl x =>
      rw [hk] at hw
      simp only [OKey.WF] at hw
      have hst : StopOr ((if it.desc then [Lexem.desc] else []) ++ (items.flatMap OItem.toks ++ rest)) := by
        rcases hnext _ rfl with h | ⟨s', idx', f', h⟩
        · exact h
        · rw [hk] at h; cases h
      obtain ⟨p1, p2⟩ := iterate_expr fields (es, ds) s tl x _ hw.1 hw.2.1 hw.2.2 hst
      simp only [OKey.toks, List.cons_append]
      rw [p1, p2]
      obtain ⟨d1, d2⟩ := hdesc x.tree (items.flatMap OItem.toks ++ rest)
      rw [d1, d2]
      have e1 : es ++ (it :: items).map (·.key.tree) = (es ++ [x.tree]) ++ items.map (·.key.tree) := by
        simp [hk, OKey.tree]
      have e2 : ds ++ (it :: items).map (fun it => !it.desc) = (ds ++ [!it.desc]) ++ items.map (fun it => !it.desc) := by simp
      rw [e1, e2]
      simpa [hk, OKey.tree] using hfin

end ParseO
end Fsel
