/-
  The sort order of buffered rows (`Criteria`) is a total preorder — the BTreeMap model of TopN is only
  meaningful under this, so it is proved, not assumed.
-/
import Fsel.Lemmas.TopN

namespace Fsel
namespace CriteriaL
open TopNL

theorem strLe_refl : ∀ a : Str, strLe a a = true
  | [] => rfl
  | c :: cs => by simp [strLe, strLe_refl cs]

theorem strLe_total : ∀ a b : Str, strLe a b = true ∨ strLe b a = true
  | [], _ => Or.inl (by simp [strLe])
  | _ :: _, [] => Or.inr (by simp [strLe])
  | a :: as, b :: bs => by
    simp only [strLe]
    by_cases h1 : a.toNat < b.toNat
    · simp [h1]
    · by_cases h2 : b.toNat < a.toNat
      · simp [h2]
      · simp only [h1, h2, if_false]
        exact strLe_total as bs

theorem strLe_antisymm : ∀ a b : Str, strLe a b = true → strLe b a = true → a = b
  | [], [], _, _ => rfl
  | [], _ :: _, _, h => by simp [strLe] at h
  | _ :: _, [], h, _ => by simp [strLe] at h
  | a :: as, b :: bs, h1, h2 => by
    simp only [strLe] at h1 h2
    by_cases hab : a.toNat < b.toNat
    · have : ¬ b.toNat < a.toNat := by omega
      simp [hab, this] at h2
    · by_cases hba : b.toNat < a.toNat
      · simp [hab, hba] at h1
      · simp only [hab, hba, if_false] at h1 h2
        have hn : a.toNat = b.toNat := by omega
        have hc : a = b := Char.toNat_inj.mp hn
        rw [hc, strLe_antisymm as bs h1 h2]

/-- `≤` is the complement of the converse `<` -/
theorem strLe_eq_not_strLt (a b : Str) : strLe a b = !strLt b a := by
  unfold strLt
  cases h1 : strLe a b <;> cases h2 : strLe b a
  · rcases strLe_total a b with h | h <;> simp_all
  · simp only [Bool.true_and, Bool.not_not, Bool.false_eq]
    -- b ≤ a and not a ≤ b: then b ≠ a
    simp only [bne_iff_ne, ne_eq, Bool.not_eq_eq_eq_not, Bool.not_false]
    by_cases hba : b = a
    · subst hba; rw [strLe_refl] at h1; contradiction
    · simp [hba]
  · simp
  · have := strLe_antisymm a b h1 h2
    subst this
    simp

theorem strLe_trans : ∀ a b c : Str, strLe a b = true → strLe b c = true → strLe a c = true
  | [], _, _, _, _ => by simp [strLe]
  | _ :: _, [], _, h, _ => by simp [strLe] at h
  | _ :: _, _ :: _, [], _, h => by simp [strLe] at h
  | a :: as, b :: bs, c :: cs, h1, h2 => by
    simp only [strLe] at h1 h2 ⊢
    by_cases ab : a.toNat < b.toNat
    · by_cases bc : b.toNat < c.toNat
      · have : a.toNat < c.toNat := by omega
        simp [this]
      · by_cases cb : c.toNat < b.toNat
        · simp [bc, cb] at h2
        · have : a.toNat < c.toNat := by omega
          simp [this]
    · by_cases ba : b.toNat < a.toNat
      · simp [ab, ba] at h1
      · simp only [ab, ba, if_false] at h1
        by_cases bc : b.toNat < c.toNat
        · have : a.toNat < c.toNat := by omega
          simp [this]
        · by_cases cb : c.toNat < b.toNat
          · simp [bc, cb] at h2
          · simp only [bc, cb, if_false] at h2
            have e1 : ¬ a.toNat < c.toNat := by omega
            have e2 : ¬ c.toNat < a.toNat := by omega
            simp only [e1, e2, if_false]
            exact strLe_trans as bs cs h1 h2

theorem rankLe_refl (a : Int × Rat) : rankLe a a = true := by
  simp [rankLe]

theorem rankLe_total (a b : Int × Rat) : rankLe a b = true ∨ rankLe b a = true := by
  simp only [rankLe, Bool.or_eq_true, Bool.and_eq_true, decide_eq_true_eq]
  rcases Int.lt_trichotomy a.1 b.1 with h | h | h
  · exact Or.inl (Or.inl h)
  · rcases @Rat.le_total a.2 b.2 with h2 | h2
    · exact Or.inl (Or.inr ⟨h, h2⟩)
    · exact Or.inr (Or.inr ⟨h.symm, h2⟩)
  · exact Or.inr (Or.inl h)

theorem rankLe_trans (a b c : Int × Rat) (h1 : rankLe a b = true) (h2 : rankLe b c = true) : rankLe a c = true := by
  simp only [rankLe, Bool.or_eq_true, Bool.and_eq_true, decide_eq_true_eq] at *
  rcases h1 with h1 | ⟨e1, l1⟩
  · rcases h2 with h2 | ⟨e2, _⟩
    · exact Or.inl (by omega)
    · exact Or.inl (by omega)
  · rcases h2 with h2 | ⟨e2, l2⟩
    · exact Or.inl (by omega)
    · exact Or.inr ⟨by omega, Rat.le_trans l1 l2⟩

theorem keyLe_preorder (today : Int) (k : KeyKind) : TotalPreorder (keyLe today k) := by
  cases k with
  | numeric =>
    exact ⟨fun a => rankLe_refl _, fun a b c => rankLe_trans _ _ _, fun a b => rankLe_total _ _⟩
  | datetime =>
    refine ⟨fun a => by simp [keyLe], fun a b c h1 h2 => ?_, fun a b => ?_⟩
    · simp only [keyLe, decide_eq_true_eq] at *; omega
    · simp only [keyLe, decide_eq_true_eq]; omega
  | text => exact ⟨strLe_refl, strLe_trans, strLe_total⟩

theorem criteriaLeL_refl (today : Int) : ∀ (ks : List KeyKind) (ds : List Bool) (a : List Str),
    criteriaLeL today ks ds a a = true
  | _, _, [] => by simp [criteriaLeL]
  | ks, ds, a :: as => by
    have := (keyLe_preorder today (ks.headD .text)).refl a
    have ih := criteriaLeL_refl today ks.tail ds.tail as
    simp only [criteriaLeL]
    generalize ks.headD KeyKind.text = k at *
    cases hd : ds.headD true <;> simp only [if_true, if_false, Bool.false_eq_true, this, ih]

theorem criteriaLeL_total (today : Int) : ∀ (ks : List KeyKind) (ds : List Bool) (a b : List Str),
    criteriaLeL today ks ds a b = true ∨ criteriaLeL today ks ds b a = true
  | _, _, [], _ => Or.inl (by simp [criteriaLeL])
  | _, _, _ :: _, [] => Or.inr (by simp [criteriaLeL])
  | ks, ds, a :: as, b :: bs => by
    have P := keyLe_preorder today (ks.headD .text)
    have ih := criteriaLeL_total today ks.tail ds.tail as bs
    simp only [criteriaLeL]
    generalize ks.headD KeyKind.text = k at *
    cases hd : ds.headD true <;> simp only [if_true, if_false, Bool.false_eq_true]
    all_goals
      cases hab : keyLe today k a b <;> cases hba : keyLe today k b a <;>
        simp only [if_true, if_false, Bool.false_eq_true] <;>
        first
          | exact ih
          | exact ih.symm
          | (exact Or.inl rfl)
          | (exact Or.inr rfl)
          | (rcases P.total a b with h | h <;> simp_all)

theorem criteriaLeL_trans (today : Int) : ∀ (ks : List KeyKind) (ds : List Bool) (a b c : List Str),
    criteriaLeL today ks ds a b = true → criteriaLeL today ks ds b c = true → criteriaLeL today ks ds a c = true
  | _, _, [], _, _, _, _ => by simp [criteriaLeL]
  | _, _, _ :: _, [], _, h, _ => by simp [criteriaLeL] at h
  | _, _, _ :: _, _ :: _, [], _, h => by simp [criteriaLeL] at h
  | ks, ds, a :: as, b :: bs, c :: cs, h1, h2 => by
    have P := keyLe_preorder today (ks.headD .text)
    have ih := criteriaLeL_trans today ks.tail ds.tail as bs cs
    simp only [criteriaLeL] at h1 h2 ⊢
    generalize ks.headD KeyKind.text = k at *
    -- work with the (possibly swapped) operands uniformly
    cases hd : ds.headD true
    · -- descending: operands swapped
      simp only [hd, Bool.false_eq_true, if_false] at h1 h2 ⊢
      cases hba : keyLe today k b a
      · rw [hba] at h1; simp at h1
      · cases hcb : keyLe today k c b
        · rw [hcb] at h2; simp at h2
        · have hca := P.trans c b a hcb hba
          simp only [hba, hcb, hca, if_true] at h1 h2 ⊢
          cases hab : keyLe today k a b
          · -- strict b > a: then a c strict too
            cases hac : keyLe today k a c
            · simp
            · have := P.trans a c b hac hcb
              rw [hab] at this; exact absurd this (by simp)
          · cases hbc : keyLe today k b c
            · cases hac : keyLe today k a c
              · simp
              · have := P.trans b a c hba hac
                rw [hbc] at this; exact absurd this (by simp)
            · simp only [hab, hbc, if_true] at h1 h2
              have hac := P.trans a b c hab hbc
              simp only [hac, if_true]
              exact ih h1 h2
    · simp only [hd, if_true] at h1 h2 ⊢
      cases hab : keyLe today k a b
      · rw [hab] at h1; simp at h1
      · cases hbc : keyLe today k b c
        · rw [hbc] at h2; simp at h2
        · have hac := P.trans a b c hab hbc
          simp only [hab, hbc, hac, if_true] at h1 h2 ⊢
          cases hba : keyLe today k b a
          · cases hca : keyLe today k c a
            · simp
            · have := P.trans b c a hbc hca
              rw [hba] at this; exact absurd this (by simp)
          · cases hcb : keyLe today k c b
            · cases hca : keyLe today k c a
              · simp
              · have := P.trans c a b hca hab
                rw [hcb] at this; exact absurd this (by simp)
            · simp only [hba, hcb, if_true] at h1 h2
              have hca := P.trans c b a hcb hba
              simp only [hca, if_true]
              exact ih h1 h2

/-- the order used by the result buffer is a total preorder, for every key list and direction vector -/
theorem criteria_total_preorder (today : Int) (kinds : List KeyKind) (asc : List Bool) :
    TotalPreorder (criteriaLe today kinds asc) :=
  ⟨fun a => criteriaLeL_refl today kinds asc a.values,
   fun a b c => criteriaLeL_trans today kinds asc a.values b.values c.values,
   fun a b => criteriaLeL_total today kinds asc a.values b.values⟩

end CriteriaL
end Fsel
