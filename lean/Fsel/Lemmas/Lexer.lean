/-
  Lexer lemmas: a quoted literal is one string token, whatever it contains.
-/
import Fsel.Model.Lexer

namespace Fsel
namespace LexL

theorem peek_cons (st : LexSt) (c : Char) (r : Str) (ps : List Str) (hp : st.parts = (c :: r) :: ps) (hs : st.synth = false) :
    peek st = some (c, { st with parts := r :: ps }, st) := by
  unfold peek
  simp [hp, hs]

/-- inside single quotes every character up to the closing quote is taken literally -/
theorem scan_sq (s : Str) (hq : ∀ c ∈ s, c ≠ '\'') :
    ∀ (acc r : Str) (ps : List Str) (st : LexSt), st.parts = (s ++ '\'' :: r) :: ps → st.synth = false →
      scan .sq acc st = (.sq, acc ++ s, { st with parts := r :: ps }) := by
  induction s with
  | nil =>
    intro acc r ps st hp hs
    rw [scan]
    have hpk := peek_cons st '\'' r ps (by simpa using hp) hs
    split
    · rename_i h; rw [hpk] at h; cases h
    · rename_i c st' st0 h
      rw [hpk] at h
      injection h with h; injection h with h1 h2; injection h2 with h2 h3
      subst h1; subst h2; subst h3
      simp
  | cons d s ih =>
    intro acc r ps st hp hs
    have hd : d ≠ '\'' := hq d (by simp)
    rw [scan]
    have hpk := peek_cons st d (s ++ '\'' :: r) ps (by simpa using hp) hs
    split
    · rename_i h; rw [hpk] at h; cases h
    · rename_i c st' st0 h
      rw [hpk] at h
      injection h with h; injection h with h1 h2; injection h2 with h2 h3
      subst h1; subst h2; subst h3
      have hdq : (d == '\'') = false := by simp [hd]
      simp only [hdq, Bool.false_eq_true, if_false]
      rw [ih (fun c hc => hq c (by simp [hc])) (acc ++ [d]) r ps { st with parts := (s ++ '\'' :: r) :: ps } rfl hs]
      simp

/-- the same inside double quotes -/
theorem scan_dq (s : Str) (hq : ∀ c ∈ s, c ≠ '"') :
    ∀ (acc r : Str) (ps : List Str) (st : LexSt), st.parts = (s ++ '"' :: r) :: ps → st.synth = false →
      scan .dq acc st = (.dq, acc ++ s, { st with parts := r :: ps }) := by
  induction s with
  | nil =>
    intro acc r ps st hp hs
    rw [scan]
    have hpk := peek_cons st '"' r ps (by simpa using hp) hs
    split
    · rename_i h; rw [hpk] at h; cases h
    · rename_i c st' st0 h
      rw [hpk] at h
      injection h with h; injection h with h1 h2; injection h2 with h2 h3
      subst h1; subst h2; subst h3
      simp
  | cons d s ih =>
    intro acc r ps st hp hs
    have hd : d ≠ '"' := hq d (by simp)
    rw [scan]
    have hpk := peek_cons st d (s ++ '"' :: r) ps (by simpa using hp) hs
    split
    · rename_i h; rw [hpk] at h; cases h
    · rename_i c st' st0 h
      rw [hpk] at h
      injection h with h; injection h with h1 h2; injection h2 with h2 h3
      subst h1; subst h2; subst h3
      have hdq : (d == '"') = false := by simp [hd]
      simp only [hdq, Bool.false_eq_true, if_false]
      rw [ih (fun c hc => hq c (by simp [hc])) (acc ++ [d]) r ps { st with parts := (s ++ '"' :: r) :: ps } rfl hs]
      simp

/-- an opening quote switches to the quoted mode -/
theorem scan_open_sq (acc rest : Str) (ps : List Str) (st : LexSt) (hp : st.parts = ('\'' :: rest) :: ps) (hs : st.synth = false) :
    scan .undefined acc st = scan .sq acc { st with parts := rest :: ps, afterOpen := false } := by
  rw [scan]
  have hpk := peek_cons st '\'' rest ps hp hs
  split
  · rename_i h; rw [hpk] at h; cases h
  · rename_i c st' st0 h
    rw [hpk] at h
    injection h with h; injection h with h1 h2; injection h2 with h2 h3
    subst h1; subst h2; subst h3
    have hm : (LMode.sq == LMode.open_) = false := by decide
    simp [hm]

theorem scan_open_dq (acc rest : Str) (ps : List Str) (st : LexSt) (hp : st.parts = ('"' :: rest) :: ps) (hs : st.synth = false) :
    scan .undefined acc st = scan .dq acc { st with parts := rest :: ps, afterOpen := false } := by
  rw [scan]
  have hpk := peek_cons st '"' rest ps hp hs
  split
  · rename_i h; rw [hpk] at h; cases h
  · rename_i c st' st0 h
    rw [hpk] at h
    injection h with h; injection h with h1 h2; injection h2 with h2 h3
    subst h1; subst h2; subst h3
    have hm : (LMode.dq == LMode.open_) = false := by decide
    simp [hm]

/-- **a quoted literal is one string token**: whatever stands between the quotes — blanks, commas, brackets,
    operators, keywords, column names, the other kind of quote — becomes the text of one `String` lexem, and
    lexing continues right after the closing quote; no context flag of the lexer plays a part -/
theorem next_lexem_single_quoted (s r : Str) (ps : List Str) (st : LexSt) (hq : ∀ c ∈ s, c ≠ '\'')
    (hp : st.parts = ('\'' :: (s ++ '\'' :: r)) :: ps) (hs : st.synth = false) :
    nextLexem st = (some (.str s), { st with parts := r :: ps, afterOpen := false, psr := false, afterOperator := false }) := by
  rw [nextLexem]
  rw [scan_open_sq [] (s ++ '\'' :: r) ps st hp hs]
  rw [scan_sq s hq [] r ps { st with parts := (s ++ '\'' :: r) :: ps, afterOpen := false } rfl hs]
  have h1 : (Lexem.str s == Lexem.from_) = false := rfl
  have h2 : (Lexem.str s == Lexem.comma) = false := rfl
  simp [h1, h2]

theorem next_lexem_double_quoted (s r : Str) (ps : List Str) (st : LexSt) (hq : ∀ c ∈ s, c ≠ '"')
    (hp : st.parts = ('"' :: (s ++ '"' :: r)) :: ps) (hs : st.synth = false) :
    nextLexem st = (some (.str s), { st with parts := r :: ps, afterOpen := false, psr := false, afterOperator := false }) := by
  rw [nextLexem]
  rw [scan_open_dq [] (s ++ '"' :: r) ps st hp hs]
  rw [scan_dq s hq [] r ps { st with parts := (s ++ '"' :: r) :: ps, afterOpen := false } rfl hs]
  have h1 : (Lexem.str s == Lexem.from_) = false := rfl
  have h2 : (Lexem.str s == Lexem.comma) = false := rfl
  simp [h1, h2]

/-- blanks before a token are skipped -/
theorem scan_skip_blank (rest : Str) (ps : List Str) (st : LexSt) (hp : st.parts = (' ' :: rest) :: ps) (hs : st.synth = false) :
    scan .undefined [] st = scan .undefined [] { st with parts := rest :: ps, afterOpen := false } := by
  rw [scan]
  have hpk := peek_cons st ' ' rest ps hp hs
  split
  · rename_i h; rw [hpk] at h; cases h
  · rename_i c st' st0 h
    rw [hpk] at h
    injection h with h; injection h with h1 h2; injection h2 with h2 h3
    subst h1; subst h2; subst h3
    have hm : (LMode.undefined == LMode.open_) = false := by decide
    simp [hm]


/-! ### `looks_like_expression` does not depend on letter case -/

theorem lowerAscii_alnum (c : Char) : isAsciiAlnum (lowerAscii c) = isAsciiAlnum c := by
  by_cases h : 'A' ≤ c ∧ c ≤ 'Z'
  · have h1 : 65 ≤ c.toNat := h.1
    have h2 : c.toNat ≤ 90 := h.2
    have hc : c = Char.ofNat c.toNat := (Char.ofNat_toNat c).symm
    generalize c.toNat = n at h1 h2 hc
    subst hc
    have : n = 65 ∨ n = 66 ∨ n = 67 ∨ n = 68 ∨ n = 69 ∨ n = 70 ∨ n = 71 ∨ n = 72 ∨ n = 73 ∨ n = 74 ∨ n = 75 ∨ n = 76 ∨
        n = 77 ∨ n = 78 ∨ n = 79 ∨ n = 80 ∨ n = 81 ∨ n = 82 ∨ n = 83 ∨ n = 84 ∨ n = 85 ∨ n = 86 ∨ n = 87 ∨ n = 88 ∨
        n = 89 ∨ n = 90 := by omega
    rcases this with h|h|h|h|h|h|h|h|h|h|h|h|h|h|h|h|h|h|h|h|h|h|h|h|h|h <;> subst h <;> decide
  · unfold lowerAscii
    simp [h]

theorem lowerAscii_nameChar (c : Char) : isNameChar (lowerAscii c) = isNameChar c := by
  unfold isNameChar
  rw [lowerAscii_alnum]
  by_cases h : 'A' ≤ c ∧ c ≤ 'Z'
  · have hc : isAsciiAlnum c = true := by
      unfold isAsciiAlnum isAsciiAlpha
      have h1 := h.1
      have h2 := h.2
      simp [h1, h2]
    simp [hc]
  · unfold lowerAscii
    simp [h]

theorem splitBy_go_lower (s acc : Str) :
    splitBy.go (fun c => !isNameChar c) (lowerStr s) (lowerStr acc) =
      (splitBy.go (fun c => !isNameChar c) s acc).map lowerStr := by
  induction s generalizing acc with
  | nil => simp [splitBy.go, lowerStr, List.map_reverse]
  | cons c r ih =>
    simp only [lowerStr, List.map_cons, splitBy.go, lowerAscii_nameChar]
    split
    · simp only [List.map_cons]
      have := ih []
      simp only [lowerStr, List.map_nil] at this
      rw [this]
      simp [lowerStr, List.map_reverse]
    · have := ih (c :: acc)
      simp only [lowerStr, List.map_cons] at this
      exact this

/-- lower-casing leaves a character alone or maps a letter (no digit, no sign) to a letter (no digit, no sign) -/
theorem lowerAscii_cases (c : Char) :
    lowerAscii c = c ∨ (isDigit c = false ∧ isDigit (lowerAscii c) = false ∧ lowerAscii c ≠ '-' ∧ lowerAscii c ≠ '+' ∧ c ≠ '-' ∧ c ≠ '+') := by
  by_cases h : 'A' ≤ c ∧ c ≤ 'Z'
  · right
    have h1 : 65 ≤ c.toNat := h.1
    have h2 : c.toNat ≤ 90 := h.2
    have hc : c = Char.ofNat c.toNat := (Char.ofNat_toNat c).symm
    generalize c.toNat = n at h1 h2 hc
    subst hc
    have : n = 65 ∨ n = 66 ∨ n = 67 ∨ n = 68 ∨ n = 69 ∨ n = 70 ∨ n = 71 ∨ n = 72 ∨ n = 73 ∨ n = 74 ∨ n = 75 ∨ n = 76 ∨
        n = 77 ∨ n = 78 ∨ n = 79 ∨ n = 80 ∨ n = 81 ∨ n = 82 ∨ n = 83 ∨ n = 84 ∨ n = 85 ∨ n = 86 ∨ n = 87 ∨ n = 88 ∨
        n = 89 ∨ n = 90 := by omega
    rcases this with h|h|h|h|h|h|h|h|h|h|h|h|h|h|h|h|h|h|h|h|h|h|h|h|h|h <;> subst h <;> decide
  · left; unfold lowerAscii; simp [h]

theorem lower_all_digits (s : Str) : (lowerStr s).all isDigit = s.all isDigit := by
  induction s with
  | nil => rfl
  | cons c r ih =>
    simp only [lowerStr, List.map_cons, List.all_cons] at ih ⊢
    rcases lowerAscii_cases c with h | ⟨h1, h2, _⟩
    · rw [h, ih]
    · rw [h1, h2]; simp

theorem lower_digits_id (s : Str) (h : s.all isDigit = true) : lowerStr s = s := by
  induction s with
  | nil => rfl
  | cons c r ih =>
    simp only [List.all_cons, Bool.and_eq_true] at h
    simp only [lowerStr, List.map_cons]
    rcases lowerAscii_cases c with hc | ⟨h1, _⟩
    · rw [hc]; congr 1; exact ih h.2
    · rw [h.1] at h1; contradiction

theorem lower_isEmpty (s : Str) : (lowerStr s).isEmpty = s.isEmpty := by cases s <;> rfl

theorem parseNat_lower (s : Str) : parseNat? (lowerStr s) = parseNat? s := by
  cases s with
  | nil => rfl
  | cons c r =>
    rcases lowerAscii_cases c with hc | ⟨h1, h2, _, hp, _, hp'⟩
    · by_cases hplus : c = '+'
      · subst hplus
        have : lowerStr ('+' :: r) = '+' :: lowerStr r := rfl
        rw [this]
        simp only [parseNat?, lower_isEmpty, lower_all_digits]
        by_cases hd : r.all isDigit = true
        · rw [lower_digits_id r hd]
        · simp [hd]
      · have hl : lowerStr (c :: r) = c :: lowerStr r := by simp [lowerStr, hc]
        rw [hl]
        unfold parseNat?
        split
        · rename_i t heq; simp at heq; exact absurd heq.1 hplus
        · split
          · rename_i t heq; simp at heq; exact absurd heq.1 hplus
          · have e1 : (c :: lowerStr r).isEmpty = (c :: r).isEmpty := rfl
            have e2 : (c :: lowerStr r).all isDigit = (c :: r).all isDigit := by
              simp only [List.all_cons, lower_all_digits]
            simp only [e1, e2]
            by_cases hd : (c :: r).all isDigit = true
            · have : c :: lowerStr r = c :: r := by
                simp only [List.all_cons, Bool.and_eq_true] at hd
                rw [lower_digits_id r hd.2]
              rw [this]
            · simp [hd]
    · -- a letter in front: no number either way
      have hl : lowerStr (c :: r) = lowerAscii c :: lowerStr r := rfl
      rw [hl]
      have n1 : parseNat? (lowerAscii c :: lowerStr r) = none := by
        unfold parseNat?
        split
        · rename_i t heq; simp at heq; exact absurd heq.1 hp
        · simp [h2]
      have n2 : parseNat? (c :: r) = none := by
        unfold parseNat?
        split
        · rename_i t heq; simp at heq; exact absurd heq.1 hp'
        · simp [h1]
      rw [n1, n2]

theorem parseI64_lower (s : Str) : parseI64? (lowerStr s) = parseI64? s := by
  unfold parseI64?
  have : parseInt? (lowerStr s) = parseInt? s := by
    cases s with
    | nil => rfl
    | cons c r =>
      by_cases hm : c = '-'
      · subst hm
        have : lowerStr ('-' :: r) = '-' :: lowerStr r := rfl
        rw [this]
        simp only [parseInt?, lower_isEmpty, lower_all_digits]
        by_cases hd : r.all isDigit = true
        · rw [lower_digits_id r hd]
        · simp [hd]
      · have hlm : lowerAscii c ≠ '-' := by
          rcases lowerAscii_cases c with hc | ⟨_, _, h3, _⟩
          · rw [hc]; exact hm
          · exact h3
        have hl : lowerStr (c :: r) = lowerAscii c :: lowerStr r := rfl
        have e1 : parseInt? (lowerAscii c :: lowerStr r) = (parseNat? (lowerAscii c :: lowerStr r)).map Int.ofNat := by
          unfold parseInt?
          split
          · rename_i t heq; simp at heq; exact absurd heq.1 hlm
          · rfl
        have e2 : parseInt? (c :: r) = (parseNat? (c :: r)).map Int.ofNat := by
          unfold parseInt?
          split
          · rename_i t heq; simp at heq; exact absurd heq.1 hm
          · rfl
        rw [hl, e1, e2, ← hl, parseNat_lower]
  rw [this]

/-- **whether a pending token is an arithmetic expression does not depend on letter case**: `SIZE*2`, `Size+1` and
    `size*2` are judged alike (every maximal alphanumeric run is looked up case-insensitively) -/
theorem looksLikeExpression_lower (s : Str) : looksLikeExpression (lowerStr s) = looksLikeExpression s := by
  unfold looksLikeExpression splitBy
  have h := splitBy_go_lower s []
  simp only [lowerStr, List.map_nil] at h
  simp only [lowerStr] at h ⊢
  rw [h, List.all_map]
  congr 1
  funext p
  have hf : Field.ofStr? (lowerStr p) = Field.ofStr? p := by
    unfold Field.ofStr?
    have : lowerStr (lowerStr p) = lowerStr p := by
      simp only [lowerStr, List.map_map]
      congr 1
      funext c
      rcases lowerAscii_cases c with hc | _
      · simp [hc]
      · simp only [Function.comp]
        -- lower-casing twice is lower-casing once
        by_cases h : 'A' ≤ lowerAscii c ∧ lowerAscii c ≤ 'Z'
        · exfalso
          have := lowerAscii_alnum c
          revert h
          unfold lowerAscii
          by_cases hu : 'A' ≤ c ∧ c ≤ 'Z'
          · have h1 : 65 ≤ c.toNat := hu.1
            have h2 : c.toNat ≤ 90 := hu.2
            have hc : c = Char.ofNat c.toNat := (Char.ofNat_toNat c).symm
            generalize c.toNat = n at h1 h2 hc
            subst hc
            have : n = 65 ∨ n = 66 ∨ n = 67 ∨ n = 68 ∨ n = 69 ∨ n = 70 ∨ n = 71 ∨ n = 72 ∨ n = 73 ∨ n = 74 ∨ n = 75 ∨ n = 76 ∨
                n = 77 ∨ n = 78 ∨ n = 79 ∨ n = 80 ∨ n = 81 ∨ n = 82 ∨ n = 83 ∨ n = 84 ∨ n = 85 ∨ n = 86 ∨ n = 87 ∨ n = 88 ∨
                n = 89 ∨ n = 90 := by omega
            rcases this with h|h|h|h|h|h|h|h|h|h|h|h|h|h|h|h|h|h|h|h|h|h|h|h|h|h <;> subst h <;> decide
          · simp [hu]
        · unfold lowerAscii at h ⊢
          simp only [h, if_false]
    rw [this]
  have hfn : Function.ofStr? (lowerStr p) = Function.ofStr? p := by
    unfold Function.ofStr?
    have : lowerStr (lowerStr p) = lowerStr p := by
      have := congrArg (fun t => t) (rfl : lowerStr (lowerStr p) = lowerStr (lowerStr p))
      -- reuse: Field lookup above proved the same fact; restate
      simp only [lowerStr, List.map_map]
      congr 1
      funext c
      simp only [Function.comp]
      by_cases hu : 'A' ≤ c ∧ c ≤ 'Z'
      · have h1 : 65 ≤ c.toNat := hu.1
        have h2 : c.toNat ≤ 90 := hu.2
        have hc : c = Char.ofNat c.toNat := (Char.ofNat_toNat c).symm
        generalize c.toNat = n at h1 h2 hc
        subst hc
        have : n = 65 ∨ n = 66 ∨ n = 67 ∨ n = 68 ∨ n = 69 ∨ n = 70 ∨ n = 71 ∨ n = 72 ∨ n = 73 ∨ n = 74 ∨ n = 75 ∨ n = 76 ∨
            n = 77 ∨ n = 78 ∨ n = 79 ∨ n = 80 ∨ n = 81 ∨ n = 82 ∨ n = 83 ∨ n = 84 ∨ n = 85 ∨ n = 86 ∨ n = 87 ∨ n = 88 ∨
            n = 89 ∨ n = 90 := by omega
        rcases this with h|h|h|h|h|h|h|h|h|h|h|h|h|h|h|h|h|h|h|h|h|h|h|h|h|h <;> subst h <;> decide
      · have : lowerAscii c = c := by unfold lowerAscii; simp [hu]
        rw [this, this]
    rw [this]
  simp only [Function.comp, hf, hfn]
  rw [parseI64_lower p]

end LexL
end Fsel
