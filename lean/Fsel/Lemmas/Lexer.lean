/-
  Lexer lemmas: a quoted literal is one string token, whatever it contains.
-/
import Fsel.Model.Lexer

namespace Fsel
namespace LexL

theorem peek_cons (st : LexSt) (c : Char) (r : Str) (ps : List Str) (hp : st.parts = (c :: r) :: ps) (hs : st.synth = false) :
    peek st = some (c, { st with parts := r :: ps }, st) := by
  unfold peek
  simp [hp, hs]

/-- inside single quotes every character up to the closing quote is taken literally -/
theorem scan_sq (s : Str) (hq : ∀ c ∈ s, c ≠ '\'') :
    ∀ (acc r : Str) (ps : List Str) (st : LexSt), st.parts = (s ++ '\'' :: r) :: ps → st.synth = false →
      scan .sq acc st = (.sq, acc ++ s, { st with parts := r :: ps }) := by
  induction s with
  | nil =>
    intro acc r ps st hp hs
    rw [scan]
    have hpk := peek_cons st '\'' r ps (by simpa using hp) hs
    split
    · rename_i h; rw [hpk] at h; cases h
    · rename_i c st' st0 h
      rw [hpk] at h
      injection h with h; injection h with h1 h2; injection h2 with h2 h3
      subst h1; subst h2; subst h3
      simp
  | cons d s ih =>
    intro acc r ps st hp hs
    have hd : d ≠ '\'' := hq d (by simp)
    rw [scan]
    have hpk := peek_cons st d (s ++ '\'' :: r) ps (by simpa using hp) hs
    split
    · rename_i h; rw [hpk] at h; cases h
    · rename_i c st' st0 h
      rw [hpk] at h
      injection h with h; injection h with h1 h2; injection h2 with h2 h3
      subst h1; subst h2; subst h3
      have hdq : (d == '\'') = false := by simp [hd]
      simp only [hdq, Bool.false_eq_true, if_false]
      rw [ih (fun c hc => hq c (by simp [hc])) (acc ++ [d]) r ps { st with parts := (s ++ '\'' :: r) :: ps } rfl hs]
      simp

/-- the same inside double quotes -/
theorem scan_dq (s : Str) (hq : ∀ c ∈ s, c ≠ '"') :
    ∀ (acc r : Str) (ps : List Str) (st : LexSt), st.parts = (s ++ '"' :: r) :: ps → st.synth = false →
      scan .dq acc st = (.dq, acc ++ s, { st with parts := r :: ps }) := by
  induction s with
  | nil =>
    intro acc r ps st hp hs
    rw [scan]
    have hpk := peek_cons st '"' r ps (by simpa using hp) hs
    split
    · rename_i h; rw [hpk] at h; cases h
    · rename_i c st' st0 h
      rw [hpk] at h
      injection h with h; injection h with h1 h2; injection h2 with h2 h3
      subst h1; subst h2; subst h3
      simp
  | cons d s ih =>
    intro acc r ps st hp hs
    have hd : d ≠ '"' := hq d (by simp)
    rw [scan]
    have hpk := peek_cons st d (s ++ '"' :: r) ps (by simpa using hp) hs
    split
    · rename_i h; rw [hpk] at h; cases h
    · rename_i c st' st0 h
      rw [hpk] at h
      injection h with h; injection h with h1 h2; injection h2 with h2 h3
      subst h1; subst h2; subst h3
      have hdq : (d == '"') = false := by simp [hd]
      simp only [hdq, Bool.false_eq_true, if_false]
      rw [ih (fun c hc => hq c (by simp [hc])) (acc ++ [d]) r ps { st with parts := (s ++ '"' :: r) :: ps } rfl hs]
      simp

/-- an opening quote switches to the quoted mode -/
theorem scan_open_sq (acc rest : Str) (ps : List Str) (st : LexSt) (hp : st.parts = ('\'' :: rest) :: ps) (hs : st.synth = false) :
    scan .undefined acc st = scan .sq acc { st with parts := rest :: ps, afterOpen := false } := by
  rw [scan]
  have hpk := peek_cons st '\'' rest ps hp hs
  split
  · rename_i h; rw [hpk] at h; cases h
  · rename_i c st' st0 h
    rw [hpk] at h
    injection h with h; injection h with h1 h2; injection h2 with h2 h3
    subst h1; subst h2; subst h3
    have hm : (LMode.sq == LMode.open_) = false := by decide
    simp [hm]

theorem scan_open_dq (acc rest : Str) (ps : List Str) (st : LexSt) (hp : st.parts = ('"' :: rest) :: ps) (hs : st.synth = false) :
    scan .undefined acc st = scan .dq acc { st with parts := rest :: ps, afterOpen := false } := by
  rw [scan]
  have hpk := peek_cons st '"' rest ps hp hs
  split
  · rename_i h; rw [hpk] at h; cases h
  · rename_i c st' st0 h
    rw [hpk] at h
    injection h with h; injection h with h1 h2; injection h2 with h2 h3
    subst h1; subst h2; subst h3
    have hm : (LMode.dq == LMode.open_) = false := by decide
    simp [hm]

/-- **a quoted literal is one string token**: whatever stands between the quotes — blanks, commas, brackets,
    operators, keywords, column names, the other kind of quote — becomes the text of one `String` lexem, and
    lexing continues right after the closing quote; no context flag of the lexer plays a part -/
theorem next_lexem_single_quoted (s r : Str) (ps : List Str) (st : LexSt) (hq : ∀ c ∈ s, c ≠ '\'')
    (hp : st.parts = ('\'' :: (s ++ '\'' :: r)) :: ps) (hs : st.synth = false) :
    nextLexem st = (some (.str s), { st with parts := r :: ps, afterOpen := false, psr := false, afterOperator := false }) := by
  rw [nextLexem]
  rw [scan_open_sq [] (s ++ '\'' :: r) ps st hp hs]
  rw [scan_sq s hq [] r ps { st with parts := (s ++ '\'' :: r) :: ps, afterOpen := false } rfl hs]
  have h1 : (Lexem.str s == Lexem.from_) = false := rfl
  have h2 : (Lexem.str s == Lexem.comma) = false := rfl
  simp [h1, h2]

theorem next_lexem_double_quoted (s r : Str) (ps : List Str) (st : LexSt) (hq : ∀ c ∈ s, c ≠ '"')
    (hp : st.parts = ('"' :: (s ++ '"' :: r)) :: ps) (hs : st.synth = false) :
    nextLexem st = (some (.str s), { st with parts := r :: ps, afterOpen := false, psr := false, afterOperator := false }) := by
  rw [nextLexem]
  rw [scan_open_dq [] (s ++ '"' :: r) ps st hp hs]
  rw [scan_dq s hq [] r ps { st with parts := (s ++ '"' :: r) :: ps, afterOpen := false } rfl hs]
  have h1 : (Lexem.str s == Lexem.from_) = false := rfl
  have h2 : (Lexem.str s == Lexem.comma) = false := rfl
  simp [h1, h2]

/-- blanks before a token are skipped -/
theorem scan_skip_blank (rest : Str) (ps : List Str) (st : LexSt) (hp : st.parts = (' ' :: rest) :: ps) (hs : st.synth = false) :
    scan .undefined [] st = scan .undefined [] { st with parts := rest :: ps, afterOpen := false } := by
  rw [scan]
  have hpk := peek_cons st ' ' rest ps hp hs
  split
  · rename_i h; rw [hpk] at h; cases h
  · rename_i c st' st0 h
    rw [hpk] at h
    injection h with h; injection h with h1 h2; injection h2 with h2 h3
    subst h1; subst h2; subst h3
    have hm : (LMode.undefined == LMode.open_) = false := by decide
    simp [hm]


end LexL
end Fsel
