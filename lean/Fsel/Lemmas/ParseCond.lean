/-
  The condition parser implements
      X ::= Y (or Y)*      Y ::= Z (and Z)*      Z ::= not* ( atom | "(" X ")" )
  AND binds tighter than OR, brackets override, a run of prefix NOTs negates by parity: for every
  derivation, parsing its token sequence gives the tree the derivation denotes (`X.tree`, nested the way
  `parse_expr`/`parse_and` nest their accumulators) and leaves exactly the tokens that follow.
-/
import Fsel.Lemmas.ParseArith

namespace Fsel
namespace ParseC
open ParseL

/-- what may follow a condition -/
def StopCond : List Lexem → Prop
  | [] => True
  | .and_ :: _ | .or_ :: _ | .close :: _ | .cclose :: _ | .order :: _ | .limit :: _ | .into :: _ | .comma :: _ | .desc :: _ => True
  | _ => False

/-- the prefix NOTs of a condition -/
def nots : Nat → List Lexem
  | 0 => []
  | k + 1 => .not_ :: nots k

def parity : Nat → Bool
  | 0 => false
  | k + 1 => !parity k

/-- an atomic condition: tokens (not starting with NOT) that `parse_cond` consumes exactly, after any number
    of prefix NOTs, yielding `x` (negated by parity) -/
def AtomCond (bs : Bool) (a : List Lexem) (x : Expr) : Prop :=
  ∀ (k : Nat) (r : List Lexem), StopCond r →
    (parseCond bs (nots k ++ (a ++ r))).res = .ok (if parity k then x.negate else x) ∧
    (parseCond bs (nots k ++ (a ++ r))).rest = r

theorem skipNots_nots (k : Nat) (ts : List Lexem) (h : ts.head? ≠ some .not_) :
    (skipNots (nots k ++ ts)).1 = parity k ∧ (skipNots (nots k ++ ts)).2.1 = ts := by
  induction k with
  | zero =>
    simp only [nots, List.nil_append, parity]
    rw [skipNots_id ts h]; exact ⟨rfl, rfl⟩
  | succ k ih =>
    simp only [nots, List.cons_append, skipNots, parity]
    cases hs : skipNots (nots k ++ ts) with
    | mk b r' =>
      rw [hs] at ih
      simp only [Rest.lift]
      exact ⟨by rw [← ih.1], ih.2⟩

/-- a condition that is an arithmetic-level operand (in particular a bracketed condition) followed by a
    token that ends the condition -/
theorem parseCond_operand (bs : Bool) (k : Nat) (ts : List Lexem) (x : Expr) (r : List Lexem)
    (h1 : (parseAddSub bs ts).res = .ok x) (h2 : (parseAddSub bs ts).rest = r)
    (hn : ts.head? ≠ some .not_) (hr : StopCond r) :
    (parseCond bs (nots k ++ ts)).res = .ok (if parity k then (boolShorthand bs x).negate else boolShorthand bs x) ∧
    (parseCond bs (nots k ++ ts)).rest = r := by
  unfold parseCond
  have hs := skipNots_nots k ts hn
  cases hsk : skipNots (nots k ++ ts) with
  | mk b t1 =>
    rw [hsk] at hs
    obtain ⟨t1v, t1p⟩ := t1
    simp only at hs
    obtain ⟨hb, ht⟩ := hs
    subst hb; subst ht
    simp only
    cases hp : parseAddSub bs t1v with
    | mk res rst le pr =>
      rw [hp] at h1 h2
      simp only at h1 h2
      subst h1; subst h2
      cases rst with
      | nil => simp [infixNot, Rest.refl]
      | cons t rs =>
        cases t <;> simp only [StopCond] at hr <;> simp [infixNot, Rest.refl]

theorem stopCond_not_arith {r : List Lexem} (h : StopCond r) : StopAdd r := by
  cases r with
  | nil => trivial
  | cons t rs => cases t <;> simp only [StopCond] at h <;> trivial

-- derivations
mutual
inductive Z where
  | atom (k : Nat) (a : List Lexem) (x : Expr)
  | paren (k : Nat) (f : X)
  | cparen (k : Nat) (f : X)
inductive YTail where
  | nil
  | cons (z : Z) (rest : YTail)
inductive Y where
  | mk (hd : Z) (tl : YTail)
inductive XTail where
  | nil
  | cons (y : Y) (rest : XTail)
inductive X where
  | mk (hd : Y) (tl : XTail)
end

mutual
def Z.toks : Z → List Lexem
  | .atom k a _ => nots k ++ a
  | .paren k f => nots k ++ (.open_ :: (f.toks ++ [.close]))
  | .cparen k f => nots k ++ (.copen :: (f.toks ++ [.cclose]))
def YTail.toks : YTail → List Lexem
  | .nil => []
  | .cons z rest => .and_ :: (z.toks ++ rest.toks)
def Y.toks : Y → List Lexem
  | .mk hd tl => hd.toks ++ tl.toks
def XTail.toks : XTail → List Lexem
  | .nil => []
  | .cons y rest => .or_ :: (y.toks ++ rest.toks)
def X.toks : X → List Lexem
  | .mk hd tl => hd.toks ++ tl.toks
end

-- the trees, nested as `parse_and` / `parse_expr` nest them: head, then the accumulated rest
mutual
def Z.tree : Z → Expr
  | .atom k _ x => if parity k then x.negate else x
  | .paren k f => if parity k then f.tree.negate else f.tree
  | .cparen k f => if parity k then f.tree.negate else f.tree
def YTail.accum : YTail → Option Expr → Option Expr
  | .nil, acc => acc
  | .cons z rest, acc => rest.accum (some (match acc with | some rr => .logic rr .And z.tree | none => z.tree))
def Y.tree : Y → Expr
  | .mk hd tl => match tl.accum none with | none => hd.tree | some r => .logic hd.tree .And r
def XTail.accum : XTail → Option Expr → Option Expr
  | .nil, acc => acc
  | .cons y rest, acc => rest.accum (some (match acc with | some rr => .logic rr .Or y.tree | none => y.tree))
def X.tree : X → Expr
  | .mk hd tl => match tl.accum none with | none => hd.tree | some r => .logic hd.tree .Or r
end

mutual
def Z.WF (bs : Bool) : Z → Prop
  | .atom _ a x => AtomCond bs a x
  | .paren _ f => f.WF bs ∧ boolShorthand bs f.tree = f.tree
  | .cparen _ f => f.WF bs ∧ boolShorthand bs f.tree = f.tree
def YTail.WF (bs : Bool) : YTail → Prop
  | .nil => True
  | .cons z rest => z.WF bs ∧ rest.WF bs
def Y.WF (bs : Bool) : Y → Prop
  | .mk hd tl => hd.WF bs ∧ tl.WF bs
def XTail.WF (bs : Bool) : XTail → Prop
  | .nil => True
  | .cons y rest => y.WF bs ∧ rest.WF bs
def X.WF (bs : Bool) : X → Prop
  | .mk hd tl => hd.WF bs ∧ tl.WF bs
end

/-- what may follow a conjunction inside a disjunction: not AND -/
def StopAnd : List Lexem → Prop
  | .and_ :: _ => False
  | r => StopCond r

def StopOr : List Lexem → Prop
  | .and_ :: _ | .or_ :: _ => False
  | r => StopCond r

theorem stopCond_of_stopAnd {r : List Lexem} (h : StopAnd r) : StopCond r := by
  cases r with
  | nil => trivial
  | cons t rs => cases t <;> first | exact h | trivial
theorem stopAnd_of_stopOr {r : List Lexem} (h : StopOr r) : StopAnd r := by
  cases r with
  | nil => trivial
  | cons t rs => cases t <;> first | exact h | (simp only [StopOr] at h)

theorem andLoop_stop (bs : Bool) (acc : Option Expr) (ts : List Lexem) (h : StopAnd ts) :
    (andLoop bs acc ts).res = .ok acc ∧ (andLoop bs acc ts).rest = ts := by
  unfold andLoop
  split
  · simp only [StopAnd] at h
  · exact ⟨rfl, rfl⟩

theorem exprLoop_stop (bs : Bool) (acc : Option Expr) (ts : List Lexem) (h : StopOr ts) :
    (exprLoop bs acc ts).res = .ok acc ∧ (exprLoop bs acc ts).rest = ts := by
  unfold exprLoop
  split
  · simp only [StopOr] at h
  · exact ⟨rfl, rfl⟩

theorem stopCond_ytail (tl : YTail) (r : List Lexem) (hr : StopAnd r) : StopCond (tl.toks ++ r) := by
  cases tl with
  | nil => simpa [YTail.toks] using stopCond_of_stopAnd hr
  | cons z rest => simp [YTail.toks, StopCond]

theorem stopAnd_xtail (tl : XTail) (r : List Lexem) (hr : StopOr r) : StopAnd (tl.toks ++ r) := by
  cases tl with
  | nil => simpa [XTail.toks] using stopAnd_of_stopOr hr
  | cons y rest => simp [XTail.toks, StopAnd, StopCond]

theorem stopOr_close (r : List Lexem) : StopOr (.close :: r) := by simp [StopOr, StopCond]
theorem stopOr_cclose (r : List Lexem) : StopOr (.cclose :: r) := by simp [StopOr, StopCond]

theorem nots_head (k : Nat) (ts : List Lexem) : (nots k ++ (Lexem.open_ :: ts)).head? = some .open_ ∨ (nots k ++ (Lexem.open_ :: ts)).head? = some .not_ := by
  cases k <;> simp [nots]

mutual
/-- a (possibly negated) atom or bracketed condition -/
theorem parse_Z (bs : Bool) : ∀ (z : Z), z.WF bs → ∀ (r ts : List Lexem), StopCond r → ts = z.toks ++ r →
    (parseCond bs ts).res = .ok z.tree ∧ (parseCond bs ts).rest = r
  | .atom k a x, h, r, ts, hr, hts => by
    simp only [Z.toks, List.append_assoc] at hts
    subst hts
    exact h k r hr
  | .paren k f, h, r, ts, hr, hts => by
    simp only [Z.WF] at h
    obtain ⟨hf, hbool⟩ := h
    simp only [Z.toks, List.append_assoc, List.cons_append, List.nil_append] at hts
    subst hts
    -- the bracketed condition is an atom of the arithmetic grammar
    have hX := parse_X bs f hf (.close :: r) (f.toks ++ .close :: r) (stopOr_close r) rfl
    have hatom : AtomOK bs (.open_ :: (f.toks ++ [.close])) f.tree := by
      intro r'
      have hX' := parse_X bs f hf (.close :: r') (f.toks ++ .close :: r') (stopOr_close r') rfl
      rw [show (Lexem.open_ :: (f.toks ++ [Lexem.close])) ++ r' = Lexem.open_ :: (f.toks ++ Lexem.close :: r') by simp]
      exact parseParen_open bs (f.toks ++ .close :: r') f.tree r' hX'.1 hX'.2
    have hE := parse_E bs (.mk (.mk (.atom (.open_ :: (f.toks ++ [.close])) f.tree) .nil) .nil)
      (by simp only [E.WF, T.WF, F.WF, TTail.WF, ETail.WF]; exact ⟨⟨hatom, trivial⟩, trivial⟩)
      r (.open_ :: (f.toks ++ .close :: r)) (stopCond_not_arith hr)
      (by simp [E.toks, T.toks, F.toks, TTail.toks, ETail.toks])
    simp only [E.tree, T.tree, F.tree, TTail.fold, ETail.fold] at hE
    have := parseCond_operand bs k (.open_ :: (f.toks ++ .close :: r)) f.tree r hE.1 hE.2 (by simp) hr
    rw [hbool] at this
    simpa [Z.tree] using this

  | .cparen k f, h, r, ts, hr, hts => by
    simp only [Z.WF] at h
    obtain ⟨hf, hbool⟩ := h
    simp only [Z.toks, List.append_assoc, List.cons_append, List.nil_append] at hts
    subst hts
    -- the bracketed condition is an atom of the arithmetic grammar
    have hX := parse_X bs f hf (.cclose :: r) (f.toks ++ .cclose :: r) (stopOr_cclose r) rfl
    have hatom : AtomOK bs (.copen :: (f.toks ++ [.cclose])) f.tree := by
      intro r'
      have hX' := parse_X bs f hf (.cclose :: r') (f.toks ++ .cclose :: r') (stopOr_cclose r') rfl
      rw [show (Lexem.copen :: (f.toks ++ [Lexem.cclose])) ++ r' = Lexem.copen :: (f.toks ++ Lexem.cclose :: r') by simp]
      exact parseParen_copen bs (f.toks ++ .cclose :: r') f.tree r' hX'.1 hX'.2
    have hE := parse_E bs (.mk (.mk (.atom (.copen :: (f.toks ++ [.cclose])) f.tree) .nil) .nil)
      (by simp only [E.WF, T.WF, F.WF, TTail.WF, ETail.WF]; exact ⟨⟨hatom, trivial⟩, trivial⟩)
      r (.copen :: (f.toks ++ .cclose :: r)) (stopCond_not_arith hr)
      (by simp [E.toks, T.toks, F.toks, TTail.toks, ETail.toks])
    simp only [E.tree, T.tree, F.tree, TTail.fold, ETail.fold] at hE
    have := parseCond_operand bs k (.copen :: (f.toks ++ .cclose :: r)) f.tree r hE.1 hE.2 (by simp) hr
    rw [hbool] at this
    simpa [Z.tree] using this

/-- the AND loop over a tail -/
theorem parse_YTail (bs : Bool) : ∀ (tl : YTail), tl.WF bs → ∀ (acc : Option Expr) (r ts : List Lexem), StopAnd r → ts = tl.toks ++ r →
    (andLoop bs acc ts).res = .ok (tl.accum acc) ∧ (andLoop bs acc ts).rest = r
  | .nil, _, acc, r, ts, hr, hts => by
    simp only [YTail.toks, List.nil_append] at hts
    subst hts
    simpa [YTail.accum] using andLoop_stop bs acc _ hr
  | .cons z rest, h, acc, r, ts, hr, hts => by
    simp only [YTail.WF] at h
    simp only [YTail.toks, List.cons_append, List.append_assoc] at hts
    subst hts
    have hz := parse_Z bs z h.1 (rest.toks ++ r) _ (stopCond_ytail rest r hr) rfl
    unfold andLoop
    simp only [YTail.accum]
    cases hp : parseCond bs (z.toks ++ (rest.toks ++ r)) with
    | mk res rst le pr =>
      rw [hp] at hz
      obtain ⟨h1, h2⟩ := hz
      simp only at h1 h2
      subst h1; subst h2
      simp only
      cases acc <;> exact parse_YTail bs rest h.2 _ r (rest.toks ++ r) hr rfl

/-- a conjunction -/
theorem parse_Y (bs : Bool) : ∀ (y : Y), y.WF bs → ∀ (r ts : List Lexem), StopAnd r → ts = y.toks ++ r →
    (parseAnd bs ts).res = .ok y.tree ∧ (parseAnd bs ts).rest = r
  | .mk hd tl, h, r, ts, hr, hts => by
    simp only [Y.WF] at h
    simp only [Y.toks, List.append_assoc] at hts
    subst hts
    have hz := parse_Z bs hd h.1 (tl.toks ++ r) _ (stopCond_ytail tl r hr) rfl
    have hl := parse_YTail bs tl h.2 none r (tl.toks ++ r) hr rfl
    unfold parseAnd
    cases hp : parseCond bs (hd.toks ++ (tl.toks ++ r)) with
    | mk res rst le pr =>
      rw [hp] at hz
      obtain ⟨h1, h2⟩ := hz
      simp only at h1 h2
      subst h1; subst h2
      simp only
      cases hq : andLoop bs none (tl.toks ++ r) with
      | mk res2 rst2 le2 pr2 =>
        rw [hq] at hl
        obtain ⟨g1, g2⟩ := hl
        simp only at g1 g2
        subst g1; subst g2
        simp only [Y.tree]
        cases tl.accum none <;> exact ⟨rfl, rfl⟩

/-- the OR loop over a tail -/
theorem parse_XTail (bs : Bool) : ∀ (tl : XTail), tl.WF bs → ∀ (acc : Option Expr) (r ts : List Lexem), StopOr r → ts = tl.toks ++ r →
    (exprLoop bs acc ts).res = .ok (tl.accum acc) ∧ (exprLoop bs acc ts).rest = r
  | .nil, _, acc, r, ts, hr, hts => by
    simp only [XTail.toks, List.nil_append] at hts
    subst hts
    simpa [XTail.accum] using exprLoop_stop bs acc _ hr
  | .cons y rest, h, acc, r, ts, hr, hts => by
    simp only [XTail.WF] at h
    simp only [XTail.toks, List.cons_append, List.append_assoc] at hts
    subst hts
    have hy := parse_Y bs y h.1 (rest.toks ++ r) _ (stopAnd_xtail rest r hr) rfl
    unfold exprLoop
    simp only [XTail.accum]
    cases hp : parseAnd bs (y.toks ++ (rest.toks ++ r)) with
    | mk res rst le pr =>
      rw [hp] at hy
      obtain ⟨h1, h2⟩ := hy
      simp only at h1 h2
      subst h1; subst h2
      simp only
      cases acc <;> exact parse_XTail bs rest h.2 _ r (rest.toks ++ r) hr rfl

/-- a disjunction: AND binds tighter than OR -/
theorem parse_X (bs : Bool) : ∀ (x : X), x.WF bs → ∀ (r ts : List Lexem), StopOr r → ts = x.toks ++ r →
    (parseExpr bs ts).res = .ok x.tree ∧ (parseExpr bs ts).rest = r
  | .mk hd tl, h, r, ts, hr, hts => by
    simp only [X.WF] at h
    simp only [X.toks, List.append_assoc] at hts
    subst hts
    have hy := parse_Y bs hd h.1 (tl.toks ++ r) _ (stopAnd_xtail tl r hr) rfl
    have hl := parse_XTail bs tl h.2 none r (tl.toks ++ r) hr rfl
    unfold parseExpr
    cases hp : parseAnd bs (hd.toks ++ (tl.toks ++ r)) with
    | mk res rst le pr =>
      rw [hp] at hy
      obtain ⟨h1, h2⟩ := hy
      simp only at h1 h2
      subst h1; subst h2
      simp only
      cases hq : exprLoop bs none (tl.toks ++ r) with
      | mk res2 rst2 le2 pr2 =>
        rw [hq] at hl
        obtain ⟨g1, g2⟩ := hl
        simp only at g1 g2
        subst g1; subst g2
        simp only [X.tree]
        cases tl.accum none <;> exact ⟨rfl, rfl⟩
end

end ParseC
end Fsel
