/-
  Streamed LIMIT in the breadth-first walker: under ANY plan the result part of the state after the
  queue loop is `foldLim` (check_file, stopping at the limit) over the checks of the level order.
  After the limit is reached the queue is still drained (every queued directory is opened and left at
  once), but nothing is examined or written any more.
-/
import Fsel.Lemmas.WalkB
import Fsel.Lemmas.WalkLim

namespace Fsel
namespace WalkLimB
open WalkL WalkB WalkLim

theorem visitKidsB_reached (p : Plan) (rp : RootParams) (dp dc : Str) (lvl : Nat) (st : WSt)
    (h : limitReached p st.res = true) (ns : List Node) : visitKidsB p rp dp dc lvl st ns = .ok st := by
  cases ns with
  | nil => rw [visitKidsB]
  | cons n ns => rw [visitKidsB]; simp [h]

/-- once the limit is reached, draining the queue changes nothing in the result part -/
theorem drain_reached (p : Plan) (rp : RootParams) :
    ∀ (fuel : Nat) (st : WSt), limitReached p st.res = true →
      ∃ w', drainQueue p rp fuel st = .ok { res := st.res, walk := w' }
  | 0, st, _ => ⟨st.walk, by rw [drainQueue]⟩
  | fuel + 1, st, h => by
    rw [drainQueue]
    cases hq : st.walk.queue with
    | nil => exact ⟨st.walk, rfl⟩
    | cons it q =>
      simp only
      unfold visitDirB
      by_cases hl : it.listable = true
      · simp only [hl, Bool.not_true, Bool.false_eq_true, if_false]
        rw [visitKidsB_reached p rp _ _ _ _ (by simpa using h)]
        exact drain_reached p rp fuel _ (by simpa using h)
      · have hlf : it.listable = false := by cases h' : it.listable <;> simp_all
        simp only [hlf, Bool.not_false, if_true]
        exact drain_reached p rp fuel _ (by simpa using h)

/-- **one directory, breadth-first, under any plan**: the entries are checked until the limit is reached;
    when it is not reached the traversal state is the one of the unlimited listing -/
theorem kidsB_lim (p : Plan) (rp : RootParams) (dp dc : Str) (lvl : Nat) :
    ∀ (ns : List Node) (st : WSt), goodL ns → (topInos rp lvl ns).Nodup → (∀ i ∈ topInos rp lvl ns, i ∉ st.walk.visited) →
      match foldLim p st.res (checksL p rp (kidsEvents dp dc lvl ns)) with
      | .error a => visitKidsB p rp dp dc lvl st ns = .error a
      | .ok rs' => ∃ w', visitKidsB p rp dp dc lvl st ns = .ok { res := rs', walk := w' } ∧
          (limitReached p rs' = false → w' = afterKids rp dp dc lvl st.walk ns)
  | [], st, _, _, _ => by
    simp only [kidsEvents, List.map_nil, checksL_nil, foldLim]
    exact ⟨st.walk, by rw [visitKidsB], fun _ => by simp [afterKids, topInos, kidsItems]⟩
  | n :: ns, st, hg, hnd, hfr => by
    by_cases hl : limitReached p st.res = true
    · rw [foldLim_reached p st.res hl]
      exact ⟨st.walk, visitKidsB_reached p rp _ _ _ st hl _, fun h => by rw [hl] at h; contradiction⟩
    · have hl' : limitReached p st.res = false := by simpa using hl
      simp only [goodL] at hg
      rw [kidsEvents_cons, checksL_cons, foldLim_append,
        ← reportEntry_eq p rp lvl n (fillEntry n.entry dp dc n.entry.absPath) st.res hl']
      rw [visitKidsB]
      simp only [hl', Bool.false_eq_true, if_false]
      cases hr : reportEntry p rp lvl n (fillEntry n.entry dp dc n.entry.absPath) st.res with
      | error a => rfl
      | ok r1 =>
        simp only
        by_cases hmax : (rp.maxDepth == 0 || decide (lvl < rp.maxDepth)) = true
        · simp only [hmax, if_true]
          cases n with
          | dir de l kids =>
            simp only [goodN] at hg
            have hkind : (de.kind != 'l') = true := by rw [hg.1.2.1]; decide
            have htop : topInos rp lvl (.dir de l kids :: ns) = de.ino :: topInos rp lvl ns := by
              simp [topInos, hmax]
            rw [htop] at hnd hfr
            have hfresh : de.ino ∉ st.walk.visited := hfr de.ino (by simp)
            simp only [show (Node.dir de l kids).entry = de from rfl]
            rw [okToVisit_fresh st.walk de hfresh]
            simp only [hkind, if_true]
            have ih := kidsB_lim p rp dp dc lvl ns
              { res := r1, walk := { st.walk with visited := st.walk.visited ++ [de.ino],
                                                   queue := st.walk.queue ++ [⟨kids, l, (fillEntry de dp dc de.absPath).path, childCanon dc de.name⟩] } }
              hg.2 (List.nodup_cons.mp hnd).2
              (by intro i hi hv
                  simp only [List.mem_append, List.mem_singleton] at hv
                  rcases hv with h | h
                  · exact hfr i (by simp [hi]) h
                  · subst h; exact (List.nodup_cons.mp hnd).1 hi)
            simp only at ih
            cases hf : foldLim p r1 (checksL p rp (kidsEvents dp dc lvl ns)) with
            | error a => rw [hf] at ih; exact ih
            | ok rs' =>
              rw [hf] at ih
              obtain ⟨w', h1, h2⟩ := ih
              refine ⟨w', h1, fun hnr => ?_⟩
              rw [h2 hnr]
              simp [afterKids, htop, kidsItems, hmax, List.append_assoc]
          | leaf le z =>
            simp only [show (Node.leaf le z).entry = le from rfl]
            by_cases hk : (le.kind == 'l') = true
            · simp only [hk, if_true]
              have htop : topInos rp lvl (.leaf le z :: ns) = le.ino :: topInos rp lvl ns := by
                simp [topInos, hmax, hk]
              rw [htop] at hnd hfr
              have hfresh : le.ino ∉ st.walk.visited := hfr le.ino (by simp)
              rw [okToVisit_fresh st.walk le hfresh]
              simp only
              have ih := kidsB_lim p rp dp dc lvl ns
                { res := r1, walk := { st.walk with visited := st.walk.visited ++ [le.ino] } }
                hg.2 (List.nodup_cons.mp hnd).2
                (by intro i hi hv
                    simp only [List.mem_append, List.mem_singleton] at hv
                    rcases hv with h | h
                    · exact hfr i (by simp [hi]) h
                    · subst h; exact (List.nodup_cons.mp hnd).1 hi)
              simp only at ih
              cases hf : foldLim p r1 (checksL p rp (kidsEvents dp dc lvl ns)) with
              | error a => rw [hf] at ih; exact ih
              | ok rs' =>
                rw [hf] at ih
                obtain ⟨w', h1, h2⟩ := ih
                refine ⟨w', h1, fun hnr => ?_⟩
                rw [h2 hnr]
                simp [afterKids, htop, kidsItems, List.append_assoc]
            · simp only [hk, Bool.false_eq_true, if_false]
              have htop : topInos rp lvl (.leaf le z :: ns) = topInos rp lvl ns := by
                simp [topInos, hmax, hk]
              rw [htop] at hnd hfr
              have ih := kidsB_lim p rp dp dc lvl ns { res := r1, walk := st.walk } hg.2 hnd hfr
              simp only at ih
              cases hf : foldLim p r1 (checksL p rp (kidsEvents dp dc lvl ns)) with
              | error a => rw [hf] at ih; exact ih
              | ok rs' =>
                rw [hf] at ih
                obtain ⟨w', h1, h2⟩ := ih
                refine ⟨w', h1, fun hnr => ?_⟩
                rw [h2 hnr]
                simp [afterKids, htop, kidsItems]
        · simp only [hmax, Bool.false_eq_true, if_false]
          have htop : topInos rp lvl (n :: ns) = topInos rp lvl ns := by simp [topInos, hmax]
          have hitems : kidsItems rp dp dc lvl (n :: ns) = kidsItems rp dp dc lvl ns := by
            cases n <;> simp [kidsItems, hmax]
          rw [htop] at hnd hfr
          have ih := kidsB_lim p rp dp dc lvl ns { res := r1, walk := st.walk } hg.2 hnd hfr
          simp only at ih
          cases hf : foldLim p r1 (checksL p rp (kidsEvents dp dc lvl ns)) with
          | error a => rw [hf] at ih; exact ih
          | ok rs' =>
            rw [hf] at ih
            obtain ⟨w', h1, h2⟩ := ih
            refine ⟨w', h1, fun hnr => ?_⟩
            rw [h2 hnr]
            simp [afterKids, htop, hitems]

/-- **the breadth-first walker under any plan**: draining the queue checks the entries of the level
    order until the limit is reached -/
theorem drain_lim (p : Plan) (rp : RootParams) :
    ∀ (fuel : Nat) (st : WSt), QGood st.walk.queue → (qInos st.walk.queue).Nodup →
      (∀ i ∈ qInos st.walk.queue, i ∉ st.walk.visited) →
      match foldLim p st.res (checksL p rp (bfsEvents rp fuel st.walk.queue)) with
      | .error a => drainQueue p rp fuel st = .error a
      | .ok rs' => ∃ w', drainQueue p rp fuel st = .ok { res := rs', walk := w' } ∧
          (limitReached p rs' = false → ∀ i, i ∈ w'.visited → i ∈ st.walk.visited ∨ i ∈ qInos st.walk.queue)
  | 0, st, _, _, _ => by
    simp only [bfsEvents, checksL_nil, foldLim, drainQueue]
    exact ⟨st.walk, rfl, fun _ i h => Or.inl h⟩
  | fuel + 1, st, hg, hnd, hfr => by
    by_cases hl : limitReached p st.res = true
    · rw [foldLim_reached p st.res hl]
      obtain ⟨w', hw'⟩ := drain_reached p rp (fuel + 1) st hl
      exact ⟨w', hw', fun h => by rw [hl] at h; contradiction⟩
    · cases hq : st.walk.queue with
      | nil =>
        simp only [bfsEvents, checksL_nil, foldLim, drainQueue, hq]
        exact ⟨st.walk, rfl, fun _ i h => Or.inl h⟩
      | cons it q =>
        rw [hq] at hg hnd hfr
        simp only [bfsEvents]
        rw [drainQueue]
        simp only [hq]
        unfold visitDirB
        by_cases hlist : it.listable = true
        · simp only [hlist, Bool.not_true, Bool.false_eq_true, if_false, if_true]
          have hgi : goodL it.kids := hg it (by simp)
          have hqi : qInos (it :: q) = inodesL it.kids ++ qInos q := by simp [qInos]
          rw [hqi] at hnd hfr
          obtain ⟨i1, i2, i3, i4⟩ := inv_step rp it.path it.canon (itemDepth rp it) it.kids q st.walk.visited hnd hfr
          have hk := kidsB_lim p rp it.path it.canon (itemDepth rp it) it.kids
            { st with walk := { st.walk with queue := q } } hgi i1 i2
          rw [checksL_append, foldLim_append]
          simp only [itemDepth] at hk ⊢
          cases hf : foldLim p st.res (checksL p rp (kidsEvents it.path it.canon (calcDepth it.canon - rp.base + 1) it.kids)) with
          | error a => rw [hf] at hk; simp only at hk ⊢; rw [hk]
          | ok r1 =>
            rw [hf] at hk
            simp only at hk ⊢
            obtain ⟨w1, hk1, hk2⟩ := hk
            rw [hk1]
            simp only
            by_cases hr1 : limitReached p r1 = true
            · rw [foldLim_reached p r1 hr1]
              obtain ⟨w', hw'⟩ := drain_reached p rp fuel { res := r1, walk := w1 } hr1
              exact ⟨w', hw', fun h => by rw [hr1] at h; contradiction⟩
            · have hr1' : limitReached p r1 = false := by simpa using hr1
              rw [hk2 hr1']
              have hgq : QGood (q ++ kidsItems rp it.path it.canon (calcDepth it.canon - rp.base + 1) it.kids) := by
                intro x hx
                rcases List.mem_append.mp hx with h | h
                · exact hg x (by simp [h])
                · exact items_good rp _ _ _ it.kids hgi x h
              have ih := drain_lim p rp fuel
                { res := r1, walk := afterKids rp it.path it.canon (calcDepth it.canon - rp.base + 1) { st.walk with queue := q } it.kids }
                hgq i3 i4
              simp only [afterKids] at ih ⊢
              cases hf2 : foldLim p r1 (checksL p rp (bfsEvents rp fuel (q ++ kidsItems rp it.path it.canon (calcDepth it.canon - rp.base + 1) it.kids))) with
              | error a => rw [hf2] at ih; exact ih
              | ok rs' =>
                rw [hf2] at ih
                obtain ⟨w', h1, h4⟩ := ih
                refine ⟨w', h1, fun hnr i hi => ?_⟩
                have hsplit := inodes_split it.kids
                rcases h4 hnr i hi with h | h
                · rcases List.mem_append.mp h with h' | h'
                  · exact Or.inl h'
                  · right
                    rw [topInos_eq] at h'
                    split at h'
                    · exact List.mem_append.mpr (Or.inl (hsplit.mem_iff.mpr (List.mem_append.mpr (Or.inl h'))))
                    · simp at h'
                · right
                  have hqa : qInos (q ++ kidsItems rp it.path it.canon (calcDepth it.canon - rp.base + 1) it.kids) =
                      qInos q ++ qInos (kidsItems rp it.path it.canon (calcDepth it.canon - rp.base + 1) it.kids) := by
                    simp [qInos, List.flatMap_append]
                  rw [hqa, qInos_items] at h
                  rcases List.mem_append.mp h with h' | h'
                  · exact List.mem_append.mpr (Or.inr h')
                  · split at h'
                    · exact List.mem_append.mpr (Or.inl (hsplit.mem_iff.mpr (List.mem_append.mpr (Or.inr h'))))
                    · simp at h'
        · have hlf : it.listable = false := by cases h : it.listable <;> simp_all
          simp only [hlf, Bool.not_false, if_true, Bool.false_eq_true, if_false]
          have hgq : QGood q := fun x hx => hg x (by simp [hx])
          have hqi : qInos (it :: q) = inodesL it.kids ++ qInos q := by simp [qInos]
          rw [hqi] at hnd hfr
          have ih := drain_lim p rp fuel
            { st with walk := { st.walk with queue := q, errCount := st.walk.errCount + 1, errPaths := st.walk.errPaths ++ [it.path] } }
            hgq (List.nodup_append.mp hnd).2.1 (fun i hi => hfr i (List.mem_append.mpr (Or.inr hi)))
          simp only at ih
          cases hf : foldLim p st.res (checksL p rp (bfsEvents rp fuel q)) with
          | error a => rw [hf] at ih; simpa using ih
          | ok rs' =>
            rw [hf] at ih
            obtain ⟨w', h1, h4⟩ := ih
            refine ⟨w', h1, fun hnr i hi => ?_⟩
            rcases h4 hnr i hi with h | h
            · exact Or.inl h
            · exact Or.inr (List.mem_append.mpr (Or.inr h))

end WalkLimB
end Fsel
