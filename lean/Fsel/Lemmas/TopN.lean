/-
  Lemmas about the abstract TopN layer (`ins`, `insN`) and its refinement by the echelon layer.
-/
import Fsel.Model.TopN

namespace Fsel
namespace TopNL

variable {K V : Type}

/-- `le` is a total preorder -/
structure TotalPreorder (le : K → K → Bool) : Prop where
  refl : ∀ a, le a a = true
  trans : ∀ a b c, le a b = true → le b c = true → le a c = true
  total : ∀ a b, le a b = true ∨ le b a = true

theorem ins_length (le : K → K → Bool) (x : K × V) (l : List (K × V)) : (ins le x l).length = l.length + 1 := by
  induction l with
  | nil => simp [ins]
  | cons y ys ih => simp only [ins]; split <;> simp [ih]

theorem ins_perm (le : K → K → Bool) (x : K × V) (l : List (K × V)) : (ins le x l).Perm (x :: l) := by
  induction l with
  | nil => simp [ins]
  | cons y ys ih =>
    simp only [ins]; split
    · exact (List.Perm.cons y ih).trans (List.Perm.swap x y ys)
    · exact List.Perm.refl _

theorem ins_ne_nil (le : K → K → Bool) (x : K × V) (l : List (K × V)) : ins le x l ≠ [] := by
  intro h; have := ins_length le x l; rw [h] at this; simp at this

/-- the key lemma: inserting commutes with truncation -/
theorem ins_take (le : K → K → Bool) (x : K × V) (l : List (K × V)) (n : Nat) :
    (ins le x l).take n = (ins le x (l.take n)).take n := by
  induction l generalizing n with
  | nil => simp [ins]
  | cons y ys ih =>
    cases n with
    | zero => simp
    | succ n =>
      simp only [ins, List.take_succ_cons]
      split
      · simp only [List.take_succ_cons]; rw [ih n]
      · simp only [List.take_succ_cons]
        cases n with
        | zero => simp
        | succ m => simp [List.take_succ_cons, List.take_take]

theorem insN_eq (le : K → K → Bool) (n : Nat) (l : List (K × V)) (x : K × V) (hl : l.length ≤ n) :
    insN le n l x = (ins le x l).take n := by
  unfold insN
  have hlen := ins_length le x l
  simp only
  split
  · rename_i h
    have : (ins le x l).length = n + 1 := by omega
    rw [List.dropLast_eq_take, this]; simp
  · rename_i h
    rw [List.take_of_length_le (by omega)]

theorem insN_length_le (le : K → K → Bool) (n : Nat) (l : List (K × V)) (x : K × V) (hl : l.length ≤ n) :
    (insN le n l x).length ≤ n := by
  rw [insN_eq le n l x hl]; simp [List.length_take]; omega

/-- bounded insertion of a whole sequence = unbounded insertion, then truncation -/
theorem foldl_insN (le : K → K → Bool) (n : Nat) (xs : List (K × V)) (l : List (K × V)) (hl : l.length ≤ n) :
    xs.foldl (insN le n) l = (xs.foldl (fun a x => ins le x a) l).take n ∧
    (xs.foldl (insN le n) l).length ≤ n := by
  induction xs generalizing l with
  | nil => simp [List.take_of_length_le hl, hl]
  | cons x xs ih =>
    simp only [List.foldl_cons]
    have h1 := insN_length_le le n l x hl
    obtain ⟨e1, e2⟩ := ih (insN le n l x) h1
    refine ⟨?_, e2⟩
    rw [e1, insN_eq le n l x hl]
    -- truncating before further insertions does not change the first n elements
    clear e1 e2 ih h1
    have key : ∀ (ys : List (K × V)) (a b : List (K × V)), a.take n = b.take n →
        (ys.foldl (fun a x => ins le x a) a).take n = (ys.foldl (fun a x => ins le x a) b).take n := by
      intro ys
      induction ys with
      | nil => intro a b h; simpa using h
      | cons y ys ihy =>
        intro a b h
        simp only [List.foldl_cons]
        apply ihy
        rw [ins_take le y a n, ins_take le y b n, h]
    apply key
    simp [List.take_take]

/-- sortedness (non-decreasing keys) -/
def Sorted (le : K → K → Bool) (l : List (K × V)) : Prop := l.Pairwise (fun a b => le a.1 b.1 = true)

theorem ins_sorted (le : K → K → Bool) (hp : TotalPreorder le) (x : K × V) (l : List (K × V))
    (h : Sorted le l) : Sorted le (ins le x l) := by
  induction l with
  | nil => simp [ins, Sorted]
  | cons y ys ih =>
    simp only [ins]
    unfold Sorted at h ⊢
    rw [List.pairwise_cons] at h
    split
    · rename_i hyx
      rw [List.pairwise_cons]
      refine ⟨?_, ih h.2⟩
      intro z hz
      have := (ins_perm le x ys).mem_iff.mp hz
      rcases List.mem_cons.mp this with rfl | hmem
      · exact hyx
      · exact h.1 z hmem
    · rename_i hyx
      have hxy : le x.1 y.1 = true := by
        rcases hp.total x.1 y.1 with h1 | h1
        · exact h1
        · exact absurd h1 hyx
      rw [List.pairwise_cons]
      refine ⟨?_, List.pairwise_cons.mpr h⟩
      intro z hz
      rcases List.mem_cons.mp hz with rfl | hmem
      · exact hxy
      · exact hp.trans _ _ _ hxy (h.1 z hmem)

theorem foldl_ins_sorted (le : K → K → Bool) (hp : TotalPreorder le) (xs l : List (K × V)) (h : Sorted le l) :
    Sorted le (xs.foldl (fun a x => ins le x a) l) := by
  induction xs generalizing l with
  | nil => simpa
  | cons x xs ih => exact ih _ (ins_sorted le hp x l h)

theorem foldl_ins_perm (le : K → K → Bool) (xs l : List (K × V)) :
    (xs.foldl (fun a x => ins le x a) l).Perm (xs.reverse ++ l) := by
  induction xs generalizing l with
  | nil => simp
  | cons x xs ih =>
    simp only [List.foldl_cons, List.reverse_cons, List.append_assoc, List.singleton_append]
    exact (ih _).trans (List.Perm.append_left _ (ins_perm le x l))

/-- stability: among elements with equivalent keys, an element inserted later comes later -/
theorem ins_stable (le : K → K → Bool) (x : K × V) (l : List (K × V)) :
    ∃ pre post, ins le x l = pre ++ x :: post ∧ l = pre ++ post ∧
      (∀ y ∈ pre, le y.1 x.1 = true) := by
  induction l with
  | nil => exact ⟨[], [], by simp [ins], rfl, by simp⟩
  | cons y ys ih =>
    simp only [ins]
    split
    · rename_i hyx
      obtain ⟨pre, post, h1, h2, h3⟩ := ih
      refine ⟨y :: pre, post, by simp [h1], by simp [h2], ?_⟩
      intro z hz
      rcases List.mem_cons.mp hz with rfl | hm
      · exact hyx
      · exact h3 z hm
    · exact ⟨[], y :: ys, by simp, by simp, by simp⟩

-- ------------------------------------------------------------------ refinement: echelons → list

/-- invariant of the echelon layer -/
structure EchOK (le : K → K → Bool) (e : Ech K V) : Prop where
  nonempty : ∀ p ∈ e, p.2 ≠ []
  ghost : ∀ p ∈ e, ∀ q ∈ p.2, le q.1 p.1 = true ∧ le p.1 q.1 = true
  strict : e.Pairwise (fun a b => le a.1 b.1 = true ∧ le b.1 a.1 = false)

theorem echOK_nil (le : K → K → Bool) : EchOK le ([] : Ech K V) :=
  ⟨by simp, by simp, by simp⟩

theorem ins_append_le (le : K → K → Bool) (x : K × V) (a b : List (K × V))
    (h : ∀ y ∈ a, le y.1 x.1 = true) : ins le x (a ++ b) = a ++ ins le x b := by
  induction a with
  | nil => simp
  | cons y ys ih =>
    have hy := h y (by simp)
    simp only [List.cons_append, ins, hy, if_true]
    rw [ih (fun z hz => h z (by simp [hz]))]

theorem ins_head_gt (le : K → K → Bool) (x : K × V) (l : List (K × V))
    (h : ∀ y ∈ l, le y.1 x.1 = false) : ins le x l = x :: l := by
  cases l with
  | nil => simp [ins]
  | cons y ys => simp [ins, h y (by simp)]

/-- pushing into the echelons is stable insertion on the flattened list -/
theorem push_refines (le : K → K → Bool) (hp : TotalPreorder le) (k : K) (v : V) (e : Ech K V)
    (ok : EchOK le e) :
    (Ech.push le k v e).flatten = ins le (k, v) e.flatten ∧ EchOK le (Ech.push le k v e) := by
  induction e with
  | nil =>
    refine ⟨by simp [Ech.push, Ech.flatten, ins], ?_, ?_, ?_⟩
    · intro p hp'; simp [Ech.push] at hp'; subst hp'; simp
    · intro p hp' q hq; simp [Ech.push] at hp'; subst hp'; simp at hq; subst hq; simp [hp.refl]
    · simp [Ech.push]
  | cons p rest ih =>
    obtain ⟨k', vs⟩ := p
    have okrest : EchOK le rest :=
      ⟨fun p hp' => ok.nonempty p (by simp [hp']), fun p hp' => ok.ghost p (by simp [hp']),
       (List.pairwise_cons.mp ok.strict).2⟩
    have hstrict := (List.pairwise_cons.mp ok.strict).1
    have hghost := ok.ghost (k', vs) (by simp)
    -- every element of a later echelon has a key strictly above k'
    have later : ∀ y ∈ Ech.flatten rest, le k' y.1 = true ∧ le y.1 k' = false := by
      intro y hy
      simp only [Ech.flatten, List.mem_flatMap] at hy
      obtain ⟨p2, hp2, hy2⟩ := hy
      have hs := hstrict p2 hp2
      have hg := okrest.ghost p2 hp2 y hy2
      refine ⟨hp.trans _ _ _ hs.1 hg.2, ?_⟩
      cases hc : le y.1 k' with
      | false => rfl
      | true =>
        have : le p2.1 k' = true := hp.trans _ _ _ hg.2 hc
        rw [hs.2] at this; exact absurd this (by simp)
    simp only [Ech.push]
    by_cases heq : (le k k' && le k' k) = true
    · -- same echelon
      simp only [heq, if_true]
      have hkk' : le k k' = true := by simp at heq; exact heq.1
      have hk'k : le k' k = true := by simp at heq; exact heq.2
      constructor
      · simp only [Ech.flatten, List.flatMap_cons, List.append_assoc]
        rw [ins_append_le le (k, v) vs _ (fun y hy => hp.trans _ _ _ (hghost y hy).1 hk'k)]
        congr 1
        have : ∀ y ∈ Ech.flatten rest, le y.1 (k, v).1 = false := by
          intro y hy
          cases hc : le y.1 k with
          | false => rfl
          | true =>
            have := hp.trans _ _ _ hc hkk'
            rw [(later y hy).2] at this; exact absurd this (by simp)
        have := ins_head_gt le (k, v) (Ech.flatten rest) this
        simpa [Ech.flatten] using this.symm
      · refine ⟨?_, ?_, ?_⟩
        · intro p hp'
          rcases List.mem_cons.mp hp' with rfl | hm
          · simp
          · exact okrest.nonempty p hm
        · intro p hp' q hq
          rcases List.mem_cons.mp hp' with rfl | hm
          · rcases List.mem_append.mp hq with hq1 | hq1
            · exact hghost q hq1
            · simp at hq1; subst hq1; exact ⟨hkk', hk'k⟩
          · exact okrest.ghost p hm q hq
        · exact List.pairwise_cons.mpr ⟨hstrict, okrest.strict⟩
    · simp only [heq]
      by_cases hlt : le k k' = true
      · -- new echelon in front
        have hk'k : le k' k = false := by
          cases hc : le k' k with
          | false => rfl
          | true => simp [hlt, hc] at heq
        simp only [hlt, if_true, Bool.false_eq_true, if_false]
        constructor
        · simp only [Ech.flatten, List.flatMap_cons]
          have : ∀ y ∈ vs ++ Ech.flatten rest, le y.1 (k, v).1 = false := by
            intro y hy
            rcases List.mem_append.mp hy with h1 | h1
            · cases hc : le y.1 k with
              | false => rfl
              | true =>
                have := hp.trans _ _ _ (hghost y h1).2 hc
                rw [hk'k] at this; exact absurd this (by simp)
            · cases hc : le y.1 k with
              | false => rfl
              | true =>
                have := hp.trans _ _ _ (later y h1).1 hc
                rw [hk'k] at this; exact absurd this (by simp)
          have := ins_head_gt le (k, v) _ this
          simpa [Ech.flatten] using this.symm
        · refine ⟨?_, ?_, ?_⟩
          · intro p hp'
            rcases List.mem_cons.mp hp' with rfl | hm
            · simp
            · exact ok.nonempty p hm
          · intro p hp' q hq
            rcases List.mem_cons.mp hp' with rfl | hm
            · simp at hq; subst hq; simp [hp.refl]
            · exact ok.ghost p hm q hq
          · refine List.pairwise_cons.mpr ⟨?_, ok.strict⟩
            intro p2 hp2
            rcases List.mem_cons.mp hp2 with rfl | hm
            · exact ⟨hlt, hk'k⟩
            · have hs := hstrict p2 hm
              refine ⟨hp.trans _ _ _ hlt hs.1, ?_⟩
              cases hc : le p2.1 k with
              | false => rfl
              | true =>
                have := hp.trans _ _ _ hc hlt
                rw [hs.2] at this; exact absurd this (by simp)
      · -- goes further right
        have hk'k : le k' k = true := by
          rcases hp.total k k' with h | h
          · exact absurd h hlt
          · exact h
        have hlt' : le k k' = false := by
          cases hc : le k k' with
          | false => rfl
          | true => exact absurd hc hlt
        simp only [hlt', Bool.false_eq_true, if_false]
        obtain ⟨ih1, ih2⟩ := ih okrest
        constructor
        · simp only [Ech.flatten, List.flatMap_cons]
          rw [ins_append_le le (k, v) vs _ (fun y hy => hp.trans _ _ _ (hghost y hy).1 hk'k)]
          congr 1
        · refine ⟨?_, ?_, ?_⟩
          · intro p hp'
            rcases List.mem_cons.mp hp' with rfl | hm
            · exact ok.nonempty _ (by simp)
            · exact ih2.nonempty p hm
          · intro p hp' q hq
            rcases List.mem_cons.mp hp' with rfl | hm
            · exact hghost q hq
            · exact ih2.ghost p hm q hq
          · refine List.pairwise_cons.mpr ⟨?_, ih2.strict⟩
            -- every echelon of the pushed rest is still above k'
            intro p2 hp2
            -- keys of `push` are keys of rest or k
            have keys : ∀ (r : Ech K V) (p2 : K × List (K × V)), p2 ∈ Ech.push le k v r → p2.1 = k ∨ ∃ p3 ∈ r, p3.1 = p2.1 := by
              intro r
              induction r with
              | nil => intro p2 h; simp [Ech.push] at h; left; rw [h]
              | cons a r ihr =>
                intro p2 h
                obtain ⟨ka, va⟩ := a
                simp only [Ech.push] at h
                split at h
                · rcases List.mem_cons.mp h with h0 | hm
                  · right; exact ⟨(ka, va), by simp, by rw [h0]⟩
                  · right; exact ⟨p2, by simp [hm], rfl⟩
                · split at h
                  · rcases List.mem_cons.mp h with h0 | hm
                    · left; rw [h0]
                    · right; exact ⟨p2, hm, rfl⟩
                  · rcases List.mem_cons.mp h with h0 | hm
                    · right; exact ⟨(ka, va), by simp, by rw [h0]⟩
                    · rcases ihr p2 hm with h1 | ⟨p3, h3, h4⟩
                      · left; exact h1
                      · right; exact ⟨p3, by simp [h3], h4⟩
            rcases keys rest p2 hp2 with h1 | ⟨p3, h3, h4⟩
            · rw [h1]; exact ⟨hk'k, hlt'⟩
            · rw [← h4]; exact hstrict p3 h3

theorem flatten_ne_nil_of_ok (le : K → K → Bool) (p : K × List (K × V)) (rest : Ech K V)
    (ok : EchOK le (p :: rest)) : Ech.flatten (p :: rest) ≠ [] := by
  have := ok.nonempty p (by simp)
  simp only [Ech.flatten, List.flatMap_cons]
  intro h
  have := List.append_eq_nil_iff.mp h
  exact (ok.nonempty p (by simp)) this.1

/-- popping the greatest echelon's last value is `dropLast` on the flattened list -/
theorem popLast_refines (le : K → K → Bool) (e : Ech K V) (ok : EchOK le e) :
    (Ech.popLast e).flatten = e.flatten.dropLast ∧ EchOK le (Ech.popLast e) := by
  induction e with
  | nil => exact ⟨by simp [Ech.popLast, Ech.flatten], echOK_nil le⟩
  | cons p rest ih =>
    cases rest with
    | nil =>
      obtain ⟨k, vs⟩ := p
      simp only [Ech.popLast]
      have hne := ok.nonempty (k, vs) (by simp)
      split
      · rename_i h
        have : vs.length = 1 := by
          cases vs with
          | nil => exact absurd rfl hne
          | cons a t => simp at h ⊢; omega
        refine ⟨?_, echOK_nil le⟩
        match vs, this with
        | [a], _ => simp [Ech.flatten]
      · rename_i h
        refine ⟨by simp [Ech.flatten], ?_, ?_, ?_⟩
        · intro p hp'; simp at hp'; subst hp'
          intro hnil
          simp only at hnil
          have : vs.dropLast.length = 0 := by rw [hnil]; rfl
          simp at this; omega
        · intro p hp' q hq; simp at hp'; subst hp'
          exact ok.ghost (k, vs) (by simp) q ((List.dropLast_sublist _).subset hq)
        · simp
    | cons p2 rest2 =>
      have okrest : EchOK le (p2 :: rest2) :=
        ⟨fun p hp' => ok.nonempty p (by simp [hp']), fun p hp' => ok.ghost p (by simp [hp']),
         (List.pairwise_cons.mp ok.strict).2⟩
      obtain ⟨ih1, ih2⟩ := ih okrest
      simp only [Ech.popLast]
      constructor
      · have hne := flatten_ne_nil_of_ok le p2 rest2 okrest
        simp only [Ech.flatten, List.flatMap_cons] at ih1 hne ⊢
        rw [List.dropLast_append_of_ne_nil hne]
        congr 1
      · refine ⟨?_, ?_, ?_⟩
        · intro q hq
          rcases List.mem_cons.mp hq with rfl | hm
          · exact ok.nonempty _ (by simp)
          · exact ih2.nonempty q hm
        · intro q hq r hr
          rcases List.mem_cons.mp hq with rfl | hm
          · exact ok.ghost _ (by simp) r hr
          · exact ih2.ghost q hm r hr
        · refine List.pairwise_cons.mpr ⟨?_, ih2.strict⟩
          intro q hq
          -- echelons of popLast are echelons of the original (same keys)
          have sub : ∀ (r : Ech K V) (q : K × List (K × V)), q ∈ Ech.popLast r → ∃ q' ∈ r, q'.1 = q.1 := by
            intro r
            induction r with
            | nil => intro q h; simp [Ech.popLast] at h
            | cons a r ihr =>
              intro q h
              cases r with
              | nil =>
                obtain ⟨ka, va⟩ := a
                simp only [Ech.popLast] at h
                split at h
                · simp at h
                · simp at h; subst h; exact ⟨(ka, va), by simp, rfl⟩
              | cons b r2 =>
                simp only [Ech.popLast] at h
                rcases List.mem_cons.mp h with h0 | hm
                · exact ⟨a, by simp, by rw [h0]⟩
                · obtain ⟨q', hq', e'⟩ := ihr q hm
                  exact ⟨q', by simp [hq'], e'⟩
          obtain ⟨q', hq', e'⟩ := sub (p2 :: rest2) q hq
          rw [← e']
          exact (List.pairwise_cons.mp ok.strict).1 q' hq'

/-- one `TopN::insert` refines one bounded abstract insertion -/
theorem insert_refines (le : K → K → Bool) (hp : TotalPreorder le) (t : TopNState K V) (k : K) (v : V)
    (ok : EchOK le t.ech) (hc : t.count = t.ech.flatten.length) (n : Nat) (hn : t.limit = some n) (hcn : t.count ≤ n) :
    let t' := t.insert le k v
    t'.ech.flatten = insN le n t.ech.flatten (k, v) ∧ EchOK le t'.ech ∧ t'.count = t'.ech.flatten.length ∧
      t'.limit = some n ∧ t'.count ≤ n := by
  obtain ⟨p1, p2⟩ := push_refines le hp k v t.ech ok
  have hlen : (Ech.push le k v t.ech).flatten.length = t.count + 1 := by rw [p1, ins_length, hc]
  simp only [TopNState.insert, hn]
  split
  · rename_i hlt
    obtain ⟨q1, q2⟩ := popLast_refines le _ p2
    refine ⟨?_, q2, ?_, rfl, by simp; omega⟩
    · simp only [insN]
      rw [q1, p1]
      have : n < (ins le (k, v) t.ech.flatten).length := by rw [ins_length, ← hc]; exact hlt
      simp [this]
    · simp only
      rw [q1, List.length_dropLast, hlen]
  · rename_i hlt
    refine ⟨?_, p2, by simp [hlen], rfl, by simp; omega⟩
    simp only [insN]
    rw [p1]
    have : ¬ n < (ins le (k, v) t.ech.flatten).length := by rw [ins_length, ← hc]; exact hlt
    simp [this]

end TopNL
end Fsel
