/-
  The expression parser implements the usual arithmetic grammar
      E ::= E (+|-) T | T      T ::= T (*|/|%) F | F      F ::= atom | ( E )
  with left-associative operators: for every derivation of that grammar, parsing its token sequence gives
  the tree the derivation denotes and leaves exactly the tokens that follow.
-/
import Fsel.Model.Parser

namespace Fsel
namespace ParseL

/-- an atom: tokens that `parse_paren` (not starting with a bracket) consumes exactly, yielding `x` -/
def AtomOK (bs : Bool) (a : List Lexem) (x : Expr) : Prop :=
  ∀ r, (parseParen bs (a ++ r)).res = .ok x ∧ (parseParen bs (a ++ r)).rest = r

def isMulOp (s : Str) (op : ArithOp) : Prop :=
  ArithOp.ofStr? s = some op ∧ (op = .Multiply ∨ op = .Divide ∨ op = .Modulo)
def isAddOp (s : Str) (op : ArithOp) : Prop :=
  ArithOp.ofStr? s = some op ∧ (op = .Add ∨ op = .Subtract)

/-- what follows a term: not a multiplicative operator -/
def StopMul : List Lexem → Prop
  | .arith s :: _ => ¬ ∃ op, isMulOp s op
  | _ => True
/-- what follows an expression: no arithmetic operator at all -/
def StopAdd : List Lexem → Prop
  | .arith s :: _ => ArithOp.ofStr? s = none
  | _ => True

theorem mulLoop_stop (bs : Bool) (left : Expr) (ts : List Lexem) (h : StopMul ts) :
    (mulLoop bs left ts).res = .ok left ∧ (mulLoop bs left ts).rest = ts := by
  unfold mulLoop
  split
  · rename_i s r
    simp only [StopMul] at h
    split
    · rename_i hop
      exact absurd ⟨_, hop, Or.inl rfl⟩ h
    · rename_i hop
      exact absurd ⟨_, hop, Or.inr (Or.inl rfl)⟩ h
    · rename_i hop
      exact absurd ⟨_, hop, Or.inr (Or.inr rfl)⟩ h
    · exact ⟨rfl, rfl⟩
  · exact ⟨rfl, rfl⟩

theorem addLoop_stop (bs : Bool) (left : Expr) (ts : List Lexem) (h : StopAdd ts) :
    (addLoop bs left ts).res = .ok left ∧ (addLoop bs left ts).rest = ts := by
  unfold addLoop
  split
  · rename_i s r
    simp only [StopAdd] at h
    split
    · rename_i hop; rw [h] at hop; simp at hop
    · rename_i hop; rw [h] at hop; simp at hop
    · exact ⟨rfl, rfl⟩
  · exact ⟨rfl, rfl⟩

-- derivations of the arithmetic grammar
mutual
inductive F where
  | atom (a : List Lexem) (x : Expr)
  | paren (e : E)
  | cparen (e : E)
  | call (s : Str) (fn : Function) (e : E)      -- a one-argument function call `fn(e)`
inductive TTail where
  | nil
  | cons (s : Str) (op : ArithOp) (f : F) (rest : TTail)
inductive T where
  | mk (hd : F) (tl : TTail)
inductive ETail where
  | nil
  | cons (s : Str) (op : ArithOp) (t : T) (rest : ETail)
inductive E where
  | mk (hd : T) (tl : ETail)
end

-- the token sequence of a derivation
mutual
def F.toks : F → List Lexem
  | .atom a _ => a
  | .paren e => .open_ :: (e.toks ++ [.close])
  | .cparen e => .copen :: (e.toks ++ [.cclose])
  | .call s _ e => .raw s :: .open_ :: (e.toks ++ [.close])
def TTail.toks : TTail → List Lexem
  | .nil => []
  | .cons s _ f rest => .arith s :: (f.toks ++ rest.toks)
def T.toks : T → List Lexem
  | .mk hd tl => hd.toks ++ tl.toks
def ETail.toks : ETail → List Lexem
  | .nil => []
  | .cons s _ t rest => .arith s :: (t.toks ++ rest.toks)
def E.toks : E → List Lexem
  | .mk hd tl => hd.toks ++ tl.toks
end

-- the tree a derivation denotes: operators of one level associate to the left
mutual
def F.tree : F → Expr
  | .atom _ x => x
  | .paren e => e.tree
  | .cparen e => e.tree
  | .call _ fn e => .func false fn e.tree []
def TTail.fold : TTail → Expr → Expr
  | .nil, left => left
  | .cons _ op f rest, left => rest.fold (.arith left op f.tree)
def T.tree : T → Expr
  | .mk hd tl => tl.fold hd.tree
def ETail.fold : ETail → Expr → Expr
  | .nil, left => left
  | .cons _ op t rest, left => rest.fold (.arith left op t.tree)
def E.tree : E → Expr
  | .mk hd tl => tl.fold hd.tree
end

-- side conditions: atoms are atoms, operator tokens belong to their level, and a bracketed expression is
-- not one that the WHERE shorthand rewrites
mutual
def F.WF (bs : Bool) : F → Prop
  | .atom a x => AtomOK bs a x
  | .paren e => e.WF bs ∧ boolShorthand bs e.tree = e.tree ∧ e.toks.head? ≠ some .not_
  | .cparen e => e.WF bs ∧ boolShorthand bs e.tree = e.tree ∧ e.toks.head? ≠ some .not_
  | .call s fn e => Field.ofStr? s = none ∧ Function.ofStr? s = some fn ∧
      e.WF bs ∧ boolShorthand bs e.tree = e.tree ∧ e.toks.head? ≠ some .not_
def TTail.WF (bs : Bool) : TTail → Prop
  | .nil => True
  | .cons s op f rest => isMulOp s op ∧ f.WF bs ∧ rest.WF bs
def T.WF (bs : Bool) : T → Prop
  | .mk hd tl => hd.WF bs ∧ tl.WF bs
def ETail.WF (bs : Bool) : ETail → Prop
  | .nil => True
  | .cons s op t rest => isAddOp s op ∧ t.WF bs ∧ rest.WF bs
def E.WF (bs : Bool) : E → Prop
  | .mk hd tl => hd.WF bs ∧ tl.WF bs
end

/-- reading a result structure back through its projections -/
theorem pr_eta {b : Bool} {α : Type} {ts : List Lexem} (p : PR b α ts) :
    p = ⟨p.res, p.rest, p.le, p.progress⟩ := by cases p; rfl

theorem mulOp_not_add {s : Str} {op : ArithOp} (h : isAddOp s op) : ¬ ∃ op', isMulOp s op' := by
  rintro ⟨op', h1, h2⟩
  rw [h.1] at h1
  have : op = op' := by simpa using h1
  subst this
  rcases h.2 with h | h <;> rcases h2 with h' | h' | h' <;> rw [h] at h' <;> cases h'

theorem stopMul_of_stopAdd {r : List Lexem} (h : StopAdd r) : StopMul r := by
  cases r with
  | nil => trivial
  | cons x xs =>
    cases x <;> try trivial
    rename_i s
    simp only [StopAdd] at h
    simp only [StopMul]
    rintro ⟨op, h1, _⟩
    rw [h] at h1; cases h1

theorem stopMul_etail (tl : ETail) (bs : Bool) (h : tl.WF bs) (r : List Lexem) (hr : StopAdd r) : StopMul (tl.toks ++ r) := by
  cases tl with
  | nil => simpa [ETail.toks] using stopMul_of_stopAdd hr
  | cons s op t rest =>
    simp only [ETail.toks, List.cons_append, StopMul]
    simp only [ETail.WF] at h
    exact mulOp_not_add h.1

theorem skipNots_id (ts : List Lexem) (h : ts.head? ≠ some .not_) : skipNots ts = (false, Rest.refl ts) := by
  cases ts with
  | nil => rfl
  | cons x xs =>
    cases x <;> first | rfl | (exfalso; exact h rfl)

/-- a condition that is just an arithmetic expression followed by a closing bracket -/
theorem parseCond_close (bs : Bool) (ts : List Lexem) (x : Expr) (r : List Lexem)
    (h1 : (parseAddSub bs ts).res = .ok x) (h2 : (parseAddSub bs ts).rest = .close :: r)
    (hn : ts.head? ≠ some .not_) :
    (parseCond bs ts).res = .ok (boolShorthand bs x) ∧ (parseCond bs ts).rest = .close :: r := by
  unfold parseCond
  rw [skipNots_id ts hn]
  simp only [Rest.refl]
  cases hp : parseAddSub bs ts with
  | mk res rst le pr =>
    rw [hp] at h1 h2
    simp only at h1 h2
    subst h1; subst h2
    simp [infixNot, Rest.refl]

theorem parseCond_cclose (bs : Bool) (ts : List Lexem) (x : Expr) (r : List Lexem)
    (h1 : (parseAddSub bs ts).res = .ok x) (h2 : (parseAddSub bs ts).rest = .cclose :: r)
    (hn : ts.head? ≠ some .not_) :
    (parseCond bs ts).res = .ok (boolShorthand bs x) ∧ (parseCond bs ts).rest = .cclose :: r := by
  unfold parseCond
  rw [skipNots_id ts hn]
  simp only [Rest.refl]
  cases hp : parseAddSub bs ts with
  | mk res rst le pr =>
    rw [hp] at h1 h2
    simp only at h1 h2
    subst h1; subst h2
    simp [infixNot, Rest.refl]

theorem parseAnd_close (bs : Bool) (ts : List Lexem) (x : Expr) (r : List Lexem)
    (h1 : (parseCond bs ts).res = .ok x) (h2 : (parseCond bs ts).rest = .close :: r) :
    (parseAnd bs ts).res = .ok x ∧ (parseAnd bs ts).rest = .close :: r := by
  unfold parseAnd
  cases hp : parseCond bs ts with
  | mk res rst le pr =>
    rw [hp] at h1 h2
    simp only at h1 h2
    subst h1; subst h2
    simp only
    unfold andLoop
    simp

theorem parseAnd_cclose (bs : Bool) (ts : List Lexem) (x : Expr) (r : List Lexem)
    (h1 : (parseCond bs ts).res = .ok x) (h2 : (parseCond bs ts).rest = .cclose :: r) :
    (parseAnd bs ts).res = .ok x ∧ (parseAnd bs ts).rest = .cclose :: r := by
  unfold parseAnd
  cases hp : parseCond bs ts with
  | mk res rst le pr =>
    rw [hp] at h1 h2
    simp only at h1 h2
    subst h1; subst h2
    simp only
    unfold andLoop
    simp

theorem parseExpr_close (bs : Bool) (ts : List Lexem) (x : Expr) (r : List Lexem)
    (h1 : (parseAnd bs ts).res = .ok x) (h2 : (parseAnd bs ts).rest = .close :: r) :
    (parseExpr bs ts).res = .ok x ∧ (parseExpr bs ts).rest = .close :: r := by
  unfold parseExpr
  cases hp : parseAnd bs ts with
  | mk res rst le pr =>
    rw [hp] at h1 h2
    simp only at h1 h2
    subst h1; subst h2
    simp only
    unfold exprLoop
    simp

theorem parseExpr_cclose (bs : Bool) (ts : List Lexem) (x : Expr) (r : List Lexem)
    (h1 : (parseAnd bs ts).res = .ok x) (h2 : (parseAnd bs ts).rest = .cclose :: r) :
    (parseExpr bs ts).res = .ok x ∧ (parseExpr bs ts).rest = .cclose :: r := by
  unfold parseExpr
  cases hp : parseAnd bs ts with
  | mk res rst le pr =>
    rw [hp] at h1 h2
    simp only at h1 h2
    subst h1; subst h2
    simp only
    unfold exprLoop
    simp

theorem parseParen_open (bs : Bool) (ts : List Lexem) (x : Expr) (r : List Lexem)
    (h1 : (parseExpr bs ts).res = .ok x) (h2 : (parseExpr bs ts).rest = .close :: r) :
    (parseParen bs (.open_ :: ts)).res = .ok x ∧ (parseParen bs (.open_ :: ts)).rest = r := by
  unfold parseParen
  simp only
  generalize parseExpr bs ts = q at h1 h2 ⊢
  obtain ⟨res, rst, le, pr⟩ := q
  simp only at h1 h2
  subst h1; subst h2
  simp

theorem parseParen_copen (bs : Bool) (ts : List Lexem) (x : Expr) (r : List Lexem)
    (h1 : (parseExpr bs ts).res = .ok x) (h2 : (parseExpr bs ts).rest = .cclose :: r) :
    (parseParen bs (.copen :: ts)).res = .ok x ∧ (parseParen bs (.copen :: ts)).rest = r := by
  unfold parseParen
  simp only
  generalize parseExpr bs ts = q at h1 h2 ⊢
  obtain ⟨res, rst, le, pr⟩ := q
  simp only at h1 h2
  subst h1; subst h2
  simp

theorem parseParen_call (bs : Bool) (s : Str) (fn : Function) (ts : List Lexem) (x : Expr) (r : List Lexem)
    (hf : Field.ofStr? s = none) (hfn : Function.ofStr? s = some fn)
    (h1 : (parseExpr bs ts).res = .ok x) (h2 : (parseExpr bs ts).rest = .close :: r) :
    (parseParen bs (.raw s :: .open_ :: ts)).res = .ok (.func false fn x []) ∧
    (parseParen bs (.raw s :: .open_ :: ts)).rest = r := by
  unfold parseParen
  unfold parseFuncScalar
  unfold leafP
  simp only [hf, hfn]
  unfold parseFunction
  simp only [fnHeader]
  generalize parseExpr bs ts = q at h1 h2 ⊢
  obtain ⟨res, rst, le, pr⟩ := q
  simp only at h1 h2
  subst h1; subst h2
  simp only
  unfold argsLoop
  simp [Expr.setMinus]

theorem stopAdd_close (r : List Lexem) : StopAdd (.close :: r) := trivial
theorem stopAdd_cclose (r : List Lexem) : StopAdd (.cclose :: r) := trivial

mutual
/-- a factor -/
theorem parse_F (bs : Bool) : ∀ (f : F), f.WF bs → ∀ (r ts : List Lexem), ts = f.toks ++ r →
    (parseParen bs ts).res = .ok f.tree ∧ (parseParen bs ts).rest = r
  | .atom a x, h, r, ts, hts => by
    subst hts
    exact h r
  | .paren e, h, r, ts, hts => by
    simp only [F.WF] at h
    obtain ⟨he, hbool, hnot⟩ := h
    simp only [F.toks, List.cons_append, List.append_assoc] at hts
    subst hts
    have hE := parse_E bs e he (.close :: r) (e.toks ++ .close :: r) (stopAdd_close r) rfl
    have hhead : (e.toks ++ .close :: r).head? ≠ some .not_ := by
      cases hte : e.toks with
      | nil => simp
      | cons y ys => rw [hte] at hnot; simpa using hnot
    have hC := parseCond_close bs _ _ r hE.1 hE.2 hhead
    rw [hbool] at hC
    have hA := parseAnd_close bs _ _ r hC.1 hC.2
    have hX := parseExpr_close bs _ _ r hA.1 hA.2
    simp only [F.tree]
    exact parseParen_open bs _ _ r hX.1 hX.2
  | .cparen e, h, r, ts, hts => by
    simp only [F.WF] at h
    obtain ⟨he, hbool, hnot⟩ := h
    simp only [F.toks, List.cons_append, List.append_assoc] at hts
    subst hts
    have hE := parse_E bs e he (.cclose :: r) (e.toks ++ .cclose :: r) (stopAdd_cclose r) rfl
    have hhead : (e.toks ++ .cclose :: r).head? ≠ some .not_ := by
      cases hte : e.toks with
      | nil => simp
      | cons y ys => rw [hte] at hnot; simpa using hnot
    have hC := parseCond_cclose bs _ _ r hE.1 hE.2 hhead
    rw [hbool] at hC
    have hA := parseAnd_cclose bs _ _ r hC.1 hC.2
    have hX := parseExpr_cclose bs _ _ r hA.1 hA.2
    simp only [F.tree]
    exact parseParen_copen bs _ _ r hX.1 hX.2
  | .call s fn e, h, r, ts, hts => by
    simp only [F.WF] at h
    obtain ⟨hfld, hfn, he, hbool, hnot⟩ := h
    simp only [F.toks, List.cons_append, List.append_assoc] at hts
    subst hts
    have hE := parse_E bs e he (.close :: r) (e.toks ++ .close :: r) (stopAdd_close r) rfl
    have hhead : (e.toks ++ .close :: r).head? ≠ some .not_ := by
      cases hte : e.toks with
      | nil => simp
      | cons y ys => rw [hte] at hnot; simpa using hnot
    have hC := parseCond_close bs _ _ r hE.1 hE.2 hhead
    rw [hbool] at hC
    have hA := parseAnd_close bs _ _ r hC.1 hC.2
    have hX := parseExpr_close bs _ _ r hA.1 hA.2
    simp only [F.tree]
    exact parseParen_call bs s fn _ _ r hfld hfn hX.1 hX.2

/-- the multiplicative loop over a tail -/
theorem parse_TTail (bs : Bool) : ∀ (tl : TTail), tl.WF bs → ∀ (left : Expr) (r ts : List Lexem), StopMul r → ts = tl.toks ++ r →
      (mulLoop bs left ts).res = .ok (tl.fold left) ∧ (mulLoop bs left ts).rest = r
  | .nil, _, left, r, ts, hr, hts => by
    simp only [TTail.toks, List.nil_append] at hts
    subst hts
    simpa [TTail.fold] using mulLoop_stop bs left _ hr
  | .cons s op f rest, h, left, r, ts, hr, hts => by
    simp only [TTail.WF] at h
    obtain ⟨⟨hop, hlev⟩, hf, hrest⟩ := h
    have hp := parse_F bs f hf (rest.toks ++ r) (f.toks ++ (rest.toks ++ r)) rfl
    simp only [TTail.toks, List.cons_append, List.append_assoc] at hts
    subst hts
    simp only [TTail.fold]
    unfold mulLoop
    simp only
    have ih := parse_TTail bs rest hrest (.arith left op f.tree) r (rest.toks ++ r) hr rfl
    rcases hlev with hl | hl | hl <;> subst hl <;> simp only [hop] <;>
      (cases hpp : parseParen bs (f.toks ++ (rest.toks ++ r)) with
       | mk res rst le pr =>
         rw [hpp] at hp
         obtain ⟨h1, h2⟩ := hp
         subst h1; subst h2
         exact ih)

/-- a term: factors joined by `*`, `/`, `%`, associating to the left -/
theorem parse_T (bs : Bool) : ∀ (t : T), t.WF bs → ∀ (r ts : List Lexem), StopMul r → ts = t.toks ++ r →
    (parseMulDiv bs ts).res = .ok t.tree ∧ (parseMulDiv bs ts).rest = r
  | .mk hd tl, h, r, ts, hr, hts => by
    simp only [T.WF] at h
    simp only [T.toks, List.append_assoc] at hts
    subst hts
    have hp := parse_F bs hd h.1 (tl.toks ++ r) _ rfl
    have hl := parse_TTail bs tl h.2 hd.tree r (tl.toks ++ r) hr rfl
    unfold parseMulDiv
    simp only [T.tree]
    cases hpp : parseParen bs (hd.toks ++ (tl.toks ++ r)) with
    | mk res rst le pr =>
      rw [hpp] at hp
      obtain ⟨h1, h2⟩ := hp
      simp only at h1 h2
      subst h1; subst h2
      simp only
      exact hl

/-- the additive loop over a tail -/
theorem parse_ETail (bs : Bool) : ∀ (tl : ETail), tl.WF bs → ∀ (left : Expr) (r ts : List Lexem), StopAdd r → ts = tl.toks ++ r →
      (addLoop bs left ts).res = .ok (tl.fold left) ∧ (addLoop bs left ts).rest = r
  | .nil, _, left, r, ts, hr, hts => by
    simp only [ETail.toks, List.nil_append] at hts
    subst hts
    simpa [ETail.fold] using addLoop_stop bs left _ hr
  | .cons s op t rest, h, left, r, ts, hr, hts => by
    simp only [ETail.WF] at h
    obtain ⟨⟨hop, hlev⟩, ht, hrest⟩ := h
    have hp := parse_T bs t ht (rest.toks ++ r) (t.toks ++ (rest.toks ++ r)) (stopMul_etail rest bs hrest r hr) rfl
    simp only [ETail.toks, List.cons_append, List.append_assoc] at hts
    subst hts
    simp only [ETail.fold]
    unfold addLoop
    simp only
    have ih := parse_ETail bs rest hrest (.arith left op t.tree) r (rest.toks ++ r) hr rfl
    rcases hlev with hl | hl <;> subst hl <;> simp only [hop] <;>
      (cases hpp : parseMulDiv bs (t.toks ++ (rest.toks ++ r)) with
       | mk res rst le pr =>
         rw [hpp] at hp
         obtain ⟨h1, h2⟩ := hp
         subst h1; subst h2
         have e1 : (ArithOp.Add == ArithOp.Add) = true := rfl
         have e2 : (ArithOp.Subtract == ArithOp.Add) = false := rfl
         first | exact ih | (simp only [e1, if_true]; exact ih) | (simp only [e2, Bool.false_eq_true, if_false]; exact ih))

/-- an expression: terms joined by `+`, `-`, associating to the left -/
theorem parse_E (bs : Bool) : ∀ (e : E), e.WF bs → ∀ (r ts : List Lexem), StopAdd r → ts = e.toks ++ r →
    (parseAddSub bs ts).res = .ok e.tree ∧ (parseAddSub bs ts).rest = r
  | .mk hd tl, h, r, ts, hr, hts => by
    simp only [E.WF] at h
    simp only [E.toks, List.append_assoc] at hts
    subst hts
    have hp := parse_T bs hd h.1 (tl.toks ++ r) _ (stopMul_etail tl bs h.2 r hr) rfl
    have hl := parse_ETail bs tl h.2 hd.tree r (tl.toks ++ r) hr rfl
    unfold parseAddSub
    simp only [E.tree]
    cases hpp : parseMulDiv bs (hd.toks ++ (tl.toks ++ r)) with
    | mk res rst le pr =>
      rw [hpp] at hp
      obtain ⟨h1, h2⟩ := hp
      simp only at h1 h2
      subst h1; subst h2
      simp only
      exact hl
end

end ParseL
end Fsel
