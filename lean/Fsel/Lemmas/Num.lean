/-
  `parse::<f64>` on a decimal rendering of a natural number.
-/
import Fsel.Model.Num
import Fsel.Lemmas.Text

namespace Fsel
namespace NumL
open TextL

theorem takeWhile_all {α : Type} (p : α → Bool) (l : List α) (h : l.all p = true) : l.takeWhile p = l := by
  induction l with
  | nil => rfl
  | cons a l ih =>
    simp only [List.all_cons, Bool.and_eq_true] at h
    simp [List.takeWhile, h.1, ih h.2]

theorem dropWhile_all {α : Type} (p : α → Bool) (l : List α) (h : l.all p = true) : l.dropWhile p = [] := by
  induction l with
  | nil => rfl
  | cons a l ih =>
    simp only [List.all_cons, Bool.and_eq_true] at h
    simp [List.dropWhile, h.1, ih h.2]

theorem lowerStr_digits (s : Str) (h : s.all isDigit = true) : lowerStr s = s := by
  induction s with
  | nil => rfl
  | cons c s ih =>
    simp only [List.all_cons, Bool.and_eq_true] at h
    have hc : lowerAscii c = c := by
      unfold lowerAscii
      have : ¬ ('A' ≤ c ∧ c ≤ 'Z') := by
        intro ⟨h1, h2⟩
        have hd := h.1
        simp only [isDigit, Bool.and_eq_true, decide_eq_true_eq] at hd
        have a1 : 'A'.toNat ≤ c.toNat := h1
        have a2 : c.toNat ≤ '9'.toNat := hd.2
        have : 'A'.toNat = 65 := rfl
        have : '9'.toNat = 57 := rfl
        omega
      simp [this]
    simp [lowerStr, hc] at *
    exact ih h.2

/-- a non-empty digit string is none of the special float words -/
theorem digits_not_word (s : Str) (h : s.all isDigit = true) (w : Str) (hw : ∃ c r, w = c :: r ∧ isDigit c = false) :
    (s == w) = false := by
  obtain ⟨c, r, rfl, hc⟩ := hw
  cases s with
  | nil => rfl
  | cons d s =>
    simp only [List.all_cons, Bool.and_eq_true] at h
    have : d ≠ c := by intro e; rw [e] at h; rw [hc] at h; simp at h
    simp [this]

theorem pow10_zero : pow10 0 = 1 := by
  show ((10 ^ 0 : Nat) : Rat) = 1
  simp

theorem splitSign_digits (n : Nat) : splitSign (showNat n) = (false, showNat n) := by
  have hminus := showNat_head_not_minus n
  have hplus := showNat_head_not_plus n
  unfold splitSign
  split
  · rename_i r heq; exact absurd heq (hminus r)
  · rename_i r heq; exact absurd heq (hplus r)
  · rfl

theorem parseUnsignedDecimal_showNat (n : Nat) : parseUnsignedDecimal (showNat n) = some (n, 0, 0) := by
  have hall := showNat_all_digits n
  have hne := showNat_ne_nil n
  have hemp : (showNat n).isEmpty = false := by
    cases h : showNat n with
    | nil => exact absurd h hne
    | cons _ _ => rfl
  unfold parseUnsignedDecimal
  simp only [takeWhile_all isDigit _ hall, dropWhile_all isDigit _ hall, hemp, Bool.false_and,
    Bool.false_eq_true, if_false, parseExponent, fracPart, List.append_nil, digitsVal_showNat, List.length_nil]

/-- `"<digits of n>".parse::<f64>()` is `n` (as a rational; exactness flag aside) -/
theorem parseF64_showNat (n : Nat) (hn : (n : Rat) < ((2 ^ 1024 : Nat) : Rat)) :
    parseF64? (showNat n) = some (Num.mk (n : Rat) true) := by
  have hall := showNat_all_digits n
  unfold parseF64?
  simp only [splitSign_digits]
  have hl := lowerStr_digits (showNat n) hall
  have w1 := digits_not_word (showNat n) hall (ofS "inf") ⟨'i', _, rfl, by decide⟩
  have w2 := digits_not_word (showNat n) hall (ofS "infinity") ⟨'i', _, rfl, by decide⟩
  have w3 := digits_not_word (showNat n) hall (ofS "nan") ⟨'n', _, rfl, by decide⟩
  simp only [hl, w1, w2, w3, Bool.or_self, Bool.false_eq_true, if_false, parseUnsignedDecimal_showNat]
  unfold decimalToNum
  have h400 : ¬ ((0 : Int) > 400) := by omega
  have hm400 : ¬ ((0 : Int) < -400) := by omega
  simp only [h400, hm400, if_false, Bool.false_eq_true]
  have hq : ((n : Nat) : Rat) * pow10 (0 - ((0 : Nat) : Int)) = (n : Rat) := by
    rw [show ((0 : Int) - ((0 : Nat) : Int)) = 0 from by simp, pow10_zero]; simp
  simp only [hq]
  have h1 : ¬ ((n : Rat) ≥ ((2 ^ 1024 : Nat) : Rat)) := Rat.not_le.mpr hn
  have h2 : ¬ ((n : Rat) ≤ -((2 ^ 1024 : Nat) : Rat)) := by
    intro h
    have hpos : (0 : Rat) ≤ (n : Rat) := Rat.natCast_nonneg
    have hbig : -(((2 ^ 1024 : Nat) : Nat) : Rat) < 0 := by
      have : (0 : Rat) < ((2 ^ 1024 : Nat) : Rat) := by
        have := Rat.natCast_lt_natCast.mpr (Nat.two_pow_pos 1024)
        simpa using this
      exact Rat.neg_lt_iff.mp (by simpa using this)
    exact absurd (Rat.le_trans hpos h) (Rat.not_le.mpr hbig)
  simp only [h1, h2, if_false]


/-! ### a number followed by a unit word is no integer and no float literal -/

theorem takeWhile_append_stop {α : Type} (p : α → Bool) (l : List α) (c : α) (r : List α)
    (h : l.all p = true) (hc : p c = false) : (l ++ c :: r).takeWhile p = l ∧ (l ++ c :: r).dropWhile p = c :: r := by
  induction l with
  | nil => simp [List.takeWhile, List.dropWhile, hc]
  | cons x xs ih =>
    simp only [List.all_cons, Bool.and_eq_true] at h
    simp [List.takeWhile, List.dropWhile, h.1, ih h.2]

/-- the first character of a unit word: a letter that is no digit, no `.`, no `e`/`E` -/
def unitHead (c : Char) : Bool := isDigit c == false && c != '.' && c != 'e' && c != 'E' && c != '+' && c != '-'

theorem parseNat_with_unit (n : Nat) (c : Char) (r : Str) (hc : isDigit c = false) :
    parseNat? (showNat n ++ c :: r) = none := by
  have hplus := showNat_head_not_plus n
  have hne := showNat_ne_nil n
  cases hs : showNat n with
  | nil => exact absurd hs hne
  | cons x xs =>
    have hx : x ≠ '+' := by intro hx; subst hx; exact hplus xs hs
    have hall : (x :: (xs ++ c :: r)).all isDigit = false := by
      simp [List.all_append, hc]
    simp only [List.cons_append]
    unfold parseNat?
    split
    · rename_i t heq; simp at heq; exact absurd heq.1 hx
    · simp [hall]

theorem parseI64_with_unit (n : Nat) (c : Char) (r : Str) (hc : isDigit c = false) :
    parseI64? (showNat n ++ c :: r) = none := by
  have hminus := showNat_head_not_minus n
  have hne := showNat_ne_nil n
  unfold parseI64? parseInt?
  cases hs : showNat n with
  | nil => exact absurd hs hne
  | cons x xs =>
    have hx : x ≠ '-' := by intro hx; subst hx; exact hminus xs hs
    simp only [List.cons_append]
    split
    · rename_i t heq; simp at heq; exact absurd heq.1 hx
    · have := parseNat_with_unit n c r hc
      rw [hs] at this
      simp only [List.cons_append] at this
      simp [this]

theorem parseUsize_with_unit (n : Nat) (c : Char) (r : Str) (hc : isDigit c = false) :
    parseUsize? (showNat n ++ c :: r) = none := by
  unfold parseUsize? parseU64?
  simp [parseNat_with_unit n c r hc]

theorem fracPart_letter (c : Char) (r : Str) (hdot : ¬ c = '.') : fracPart (c :: r) = ([], c :: r) := by
  unfold fracPart
  split
  · rename_i t heq; simp at heq; exact absurd heq.1 hdot
  · rfl

theorem parseUnsignedDecimal_stop (ds : Str) (c : Char) (r : Str) (hall : ds.all isDigit = true) (hemp : ds.isEmpty = false)
    (hd : isDigit c = false) (hdot : ¬ c = '.') (he : ¬ c = 'e') (hE : ¬ c = 'E') :
    parseUnsignedDecimal (ds ++ c :: r) = none := by
  obtain ⟨ht, hdr⟩ := takeWhile_append_stop isDigit ds c r hall hd
  have h1 : (c == 'e') = false := by simp [he]
  have h2 : (c == 'E') = false := by simp [hE]
  unfold parseUnsignedDecimal
  simp [ht, hdr, fracPart_letter c r hdot, hemp, parseExponent, h1, h2]

theorem parseF64_with_unit (n : Nat) (c : Char) (r : Str) (hc : unitHead c = true) :
    parseF64? (showNat n ++ c :: r) = none := by
  simp only [unitHead, Bool.and_eq_true, beq_iff_eq, bne_iff_ne, ne_eq] at hc
  obtain ⟨⟨⟨⟨⟨hd, hdot⟩, he⟩, hE⟩, hp⟩, hm⟩ := hc
  have hall := showNat_all_digits n
  have hne := showNat_ne_nil n
  have hminus := showNat_head_not_minus n
  have hplus := showNat_head_not_plus n
  have hsign : splitSign (showNat n ++ c :: r) = (false, showNat n ++ c :: r) := by
    cases hs : showNat n with
    | nil => exact absurd hs hne
    | cons x xs =>
      have h1 : x ≠ '-' := by intro hx; subst hx; exact hminus xs hs
      have h2 : x ≠ '+' := by intro hx; subst hx; exact hplus xs hs
      simp only [List.cons_append]
      unfold splitSign
      split
      · rename_i t heq; simp at heq; exact absurd heq.1 h1
      · rename_i t heq; simp at heq; exact absurd heq.1 h2
      · rfl
  -- the lower-cased text starts with a digit: none of the special words
  have hword : ∀ w : Str, (∃ a t, w = a :: t ∧ isDigit a = false) → (lowerStr (showNat n ++ c :: r) == w) = false := by
    intro w ⟨a, t, hw, ha⟩
    cases hs : showNat n with
    | nil => exact absurd hs hne
    | cons x xs =>
      have hxd : isDigit x = true := by
        have := hall; rw [hs] at this; simp only [List.all_cons, Bool.and_eq_true] at this; exact this.1
      have hlx : lowerAscii x = x := by
        have := lowerStr_digits [x] (by simp [hxd])
        simpa [lowerStr] using this
      subst hw
      simp only [List.cons_append, lowerStr, List.map_cons, hlx]
      have : x ≠ a := by intro h; subst h; rw [hxd] at ha; contradiction
      simp [this]
  unfold parseF64?
  simp only [hsign, hword (ofS "inf") ⟨'i', _, rfl, by decide⟩, hword (ofS "infinity") ⟨'i', _, rfl, by decide⟩,
    hword (ofS "nan") ⟨'n', _, rfl, by decide⟩, Bool.or_self, Bool.false_eq_true, if_false]
  obtain ⟨ht, hdr⟩ := takeWhile_append_stop isDigit (showNat n) c r hall hd
  have hemp : (showNat n).isEmpty = false := by
    cases h : showNat n with
    | nil => exact absurd h hne
    | cons _ _ => rfl
  rw [parseUnsignedDecimal_stop (showNat n) c r hall hemp hd hdot he hE]


/-! ### every integer literal is a float literal -/

theorem parseUnsignedDecimal_digits (ds : Str) (hall : ds.all isDigit = true) (hne : ds ≠ []) :
    ∃ r, parseUnsignedDecimal ds = some r := by
  have hemp : ds.isEmpty = false := by
    cases h : ds with
    | nil => exact absurd h hne
    | cons _ _ => rfl
  unfold parseUnsignedDecimal
  simp only [takeWhile_all isDigit _ hall, dropWhile_all isDigit _ hall, hemp, Bool.false_and,
    Bool.false_eq_true, if_false, parseExponent, fracPart, List.append_nil, List.length_nil]
  exact ⟨_, rfl⟩

theorem digits_first (ds : Str) (hall : ds.all isDigit = true) (hne : ds ≠ []) : ∃ c r, ds = c :: r ∧ isDigit c = true := by
  cases ds with
  | nil => exact absurd rfl hne
  | cons c r =>
    simp only [List.all_cons, Bool.and_eq_true] at hall
    exact ⟨c, r, rfl, hall.1⟩

/-- an unsigned run of digits is a float literal -/
theorem parseF64_unsigned (ds : Str) (hall : ds.all isDigit = true) (hne : ds ≠ []) : ∃ v, parseF64? ds = some v := by
  obtain ⟨c, r, hds, hc⟩ := digits_first ds hall hne
  have hc1 : c ≠ '-' := by intro h; subst h; revert hc; decide
  have hc2 : c ≠ '+' := by intro h; subst h; revert hc; decide
  have hsign : splitSign ds = (false, ds) := by
    subst hds
    unfold splitSign
    split
    · rename_i t heq; simp at heq; exact absurd heq.1 hc1
    · rename_i t heq; simp at heq; exact absurd heq.1 hc2
    · rfl
  have hl := lowerStr_digits ds hall
  have w1 := digits_not_word ds hall (ofS "inf") ⟨'i', _, rfl, by decide⟩
  have w2 := digits_not_word ds hall (ofS "infinity") ⟨'i', _, rfl, by decide⟩
  have w3 := digits_not_word ds hall (ofS "nan") ⟨'n', _, rfl, by decide⟩
  obtain ⟨u, hu⟩ := parseUnsignedDecimal_digits ds hall hne
  unfold parseF64?
  simp only [hsign, hl, w1, w2, w3, Bool.or_self, Bool.false_eq_true, if_false, hu]
  exact ⟨_, rfl⟩

theorem parseF64_signed (sgn : Char) (hs : sgn = '-' ∨ sgn = '+') (ds : Str) (hall : ds.all isDigit = true) (hne : ds ≠ []) :
    ∃ v, parseF64? (sgn :: ds) = some v := by
  have hsign : splitSign (sgn :: ds) = (sgn == '-', ds) := by
    rcases hs with h | h <;> subst h <;> rfl
  have hl := lowerStr_digits ds hall
  have w1 := digits_not_word ds hall (ofS "inf") ⟨'i', _, rfl, by decide⟩
  have w2 := digits_not_word ds hall (ofS "infinity") ⟨'i', _, rfl, by decide⟩
  have w3 := digits_not_word ds hall (ofS "nan") ⟨'n', _, rfl, by decide⟩
  obtain ⟨u, hu⟩ := parseUnsignedDecimal_digits ds hall hne
  unfold parseF64?
  simp only [hsign, hl, w1, w2, w3, Bool.or_self, Bool.false_eq_true, if_false, hu]
  exact ⟨_, rfl⟩

theorem isEmpty_false_ne {α : Type} (l : List α) (h : l.isEmpty = false) : l ≠ [] := by
  intro hl; subst hl; simp at h

theorem parseNat_some (x : Str) (n : Nat) (h : parseNat? x = some n) :
    (∃ r, x = '+' :: r ∧ r.isEmpty = false ∧ r.all isDigit = true) ∨ (x.isEmpty = false ∧ x.all isDigit = true) := by
  unfold parseNat? at h
  split at h
  · rename_i r
    left
    by_cases he : r.isEmpty = true
    · simp [he] at h
    · by_cases hd : r.all isDigit = true
      · exact ⟨r, rfl, by simpa using he, hd⟩
      · simp [he, hd] at h
  · right
    by_cases he : x.isEmpty = true
    · simp [he] at h
    · by_cases hd : x.all isDigit = true
      · exact ⟨by simpa using he, hd⟩
      · simp [he, hd] at h

/-- **whatever parses as an `i64` parses as an `f64`** (so a cell that is no number is no integer either) -/
theorem parseF64_none_parseI64_none (x : Str) (h : parseF64? x = none) : parseI64? x = none := by
  cases hi : parseI64? x with
  | none => rfl
  | some v =>
    exfalso
    have hint : ∃ n, parseInt? x = some n := by
      unfold parseI64? at hi
      cases hp : parseInt? x with
      | none => rw [hp] at hi; simp at hi
      | some n => exact ⟨n, rfl⟩
    obtain ⟨n, hn⟩ := hint
    have hex : ∃ v, parseF64? x = some v := by
      unfold parseInt? at hn
      split at hn
      · rename_i r
        by_cases he : r.isEmpty = true
        · simp [he] at hn
        · by_cases hd : r.all isDigit = true
          · exact parseF64_signed '-' (Or.inl rfl) r hd (isEmpty_false_ne r (by simpa using he))
          · simp [he, hd] at hn
      · cases hp : parseNat? x with
        | none => rw [hp] at hn; simp at hn
        | some m =>
          rcases parseNat_some x m hp with ⟨r, hx, he, hd⟩ | ⟨he, hd⟩
          · subst hx; exact parseF64_signed '+' (Or.inr rfl) r hd (isEmpty_false_ne r he)
          · exact parseF64_unsigned x hd (isEmpty_false_ne x he)
    obtain ⟨w, hw⟩ := hex
    rw [h] at hw; cases hw

end NumL
end Fsel
