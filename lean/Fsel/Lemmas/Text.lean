/-
  Decimal rendering / parsing round trips.
-/
import Fsel.Model.Text

namespace Fsel
namespace TextL

theorem digitChar_isDigit (d : Nat) (h : d < 10) : isDigit (digitChar d) = true := by
  have : d = 0 ∨ d = 1 ∨ d = 2 ∨ d = 3 ∨ d = 4 ∨ d = 5 ∨ d = 6 ∨ d = 7 ∨ d = 8 ∨ d = 9 := by omega
  rcases this with h | h | h | h | h | h | h | h | h | h <;> subst h <;> decide

theorem digitVal_digitChar (d : Nat) (h : d < 10) : digitVal (digitChar d) = d := by
  have : d = 0 ∨ d = 1 ∨ d = 2 ∨ d = 3 ∨ d = 4 ∨ d = 5 ∨ d = 6 ∨ d = 7 ∨ d = 8 ∨ d = 9 := by omega
  rcases this with h | h | h | h | h | h | h | h | h | h <;> subst h <;> decide

theorem digitsVal_append (s : Str) (c : Char) : digitsVal (s ++ [c]) = digitsVal s * 10 + digitVal c := by
  simp [digitsVal, List.foldl_append]

theorem showNat_ne_nil (n : Nat) : showNat n ≠ [] := by
  rw [showNat]; split <;> simp

theorem showNat_all_digits (n : Nat) : (showNat n).all isDigit = true := by
  induction n using Nat.strongRecOn with
  | _ n ih =>
    rw [showNat]
    split
    · rename_i h; simp [digitChar_isDigit n h]
    · rename_i h
      have h1 := ih (n / 10) (by omega)
      have h2 := digitChar_isDigit (n % 10) (by omega)
      simp [List.all_append, h1, h2]

theorem digitsVal_showNat (n : Nat) : digitsVal (showNat n) = n := by
  induction n using Nat.strongRecOn with
  | _ n ih =>
    rw [showNat]
    split
    · rename_i h; simp [digitsVal, digitVal_digitChar n h]
    · rename_i h
      rw [digitsVal_append, ih (n / 10) (by omega), digitVal_digitChar (n % 10) (by omega)]
      omega

theorem showNat_head_not_plus (n : Nat) : ∀ r, showNat n ≠ '+' :: r := by
  intro r h
  have := showNat_all_digits n
  rw [h] at this
  simp [List.all_cons] at this
  have : isDigit '+' = false := by decide
  simp_all

/-- `parse::<uN>()` (before the range check) inverts `{}` on naturals -/
theorem parseNat_showNat (n : Nat) : parseNat? (showNat n) = some n := by
  unfold parseNat?
  have hne := showNat_ne_nil n
  have hall := showNat_all_digits n
  have hplus := showNat_head_not_plus n
  cases hs : showNat n with
  | nil => exact absurd hs hne
  | cons c r =>
    have hc : c ≠ '+' := by
      intro hc; subst hc; exact hplus r hs
    have hbody : (match c :: r with | '+' :: r' => r' | _ => c :: r) = c :: r := by
      split
      · rename_i r' heq; simp at heq; exact absurd heq.1 hc
      · rfl
    simp only [hbody]
    rw [← hs]
    simp [hne, hall, digitsVal_showNat]

theorem parseU64_showNat (n : Nat) (h : n ≤ u64Max) : parseU64? (showNat n) = some n := by
  simp [parseU64?, parseNat_showNat, h]

theorem parseUsize_showNat (n : Nat) (h : n ≤ u64Max) : parseUsize? (showNat n) = some n :=
  parseU64_showNat n h

theorem showNat_head_not_minus (n : Nat) : ∀ r, showNat n ≠ '-' :: r := by
  intro r h
  have := showNat_all_digits n
  rw [h] at this
  simp [List.all_cons] at this
  have : isDigit '-' = false := by decide
  simp_all

theorem parseInt_showNat (n : Nat) : parseInt? (showNat n) = some (Int.ofNat n) := by
  unfold parseInt?
  have hminus := showNat_head_not_minus n
  cases hs : showNat n with
  | nil => exact absurd hs (showNat_ne_nil n)
  | cons c r =>
    have hc : c ≠ '-' := by
      intro hc; subst hc; exact hminus r hs
    split
    · rename_i r' heq; simp at heq; exact absurd heq.1 hc
    · rw [← hs, parseNat_showNat]; rfl

theorem parseI64_showNat (n : Nat) (h : (n : Int) ≤ i64Max) : parseI64? (showNat n) = some (Int.ofNat n) := by
  have h0 : i64Min ≤ (Int.ofNat n) := by
    have : (0 : Int) ≤ Int.ofNat n := Int.ofNat_nonneg n
    have : i64Min ≤ 0 := by decide
    omega
  simp only [parseI64?, parseInt_showNat, Option.bind]
  have : (i64Min ≤ Int.ofNat n ∧ Int.ofNat n ≤ i64Max) := ⟨h0, h⟩
  rw [if_pos this]

end TextL
end Fsel
