/-
  Matching lemmas for the regex shapes that glob / LIKE patterns compile to.
-/
import Fsel.Model.Eval

namespace Fsel
namespace GlobL

/-- one pattern element after conversion: a literal (case-folded), exactly one character, or any run -/
inductive Atom where
  | lit (c : Char)
  | one
  | many
  deriving Repr, BEq

def Atom.re : Atom → Re
  | .lit c => .chr true (.lit c)
  | .one => .chr true (.any true)
  | .many => .star (.chr true (.any true))

/-- textbook matcher: whole string, `many` = any run of characters, `one` = exactly one,
    literals compared modulo case folding -/
def atomsMatch : List Atom → Str → Bool
  | [], s => s.isEmpty
  | .lit c :: as, d :: t => foldChar c == foldChar d && atomsMatch as t
  | .lit _ :: _, [] => false
  | .one :: as, _ :: t => atomsMatch as t
  | .one :: _, [] => false
  | .many :: as, s => atomsMatch as s || (match s with | [] => false | _ :: t => atomsMatch (.many :: as) t)
termination_by as s => as.length + s.length

/-- remainders after matching a sequence of regexes one after the other -/
def matchSeq (n : Nat) : List Re → Str → List Str
  | [], s => [s]
  | r :: rs, s => (r.m n s).flatMap (matchSeq n rs)

/-- the left-nested sequence the regex parser builds -/
def chain (acc : Re) (rs : List Re) : Re := rs.foldl .seq acc

theorem chain_m (n : Nat) (rs : List Re) (acc : Re) (s : Str) :
    (chain acc rs).m n s = (acc.m n s).flatMap (matchSeq n rs) := by
  induction rs generalizing acc with
  | nil => simp [chain, matchSeq]
  | cons r rs ih =>
    simp only [chain, List.foldl_cons] at *
    rw [ih (.seq acc r)]
    simp only [Re.m, matchSeq, List.flatMap_assoc]

/-- a star over "any one character" reaches exactly the suffixes of the subject -/
theorem mStar_any (n : Nat) (s : Str) (f : Nat) (hf : s.length ≤ f) :
    ∀ t, t ∈ mStar ((Re.chr true (.any true)).m n) f s ↔ t <:+ s := by
  induction f generalizing s with
  | zero =>
    intro t
    have : s = [] := List.length_eq_zero_iff.mp (Nat.le_zero.mp hf)
    subst this
    simp [mStar]
  | succ f ih =>
    intro t
    cases s with
    | nil =>
      simp [mStar, Re.m]
    | cons c r =>
      have hstep : ((Re.chr true (.any true)).m n (c :: r)).filter (fun t => t.length < (c :: r).length) = [r] := by
        simp [Re.m, CharSet.test]
      simp only [mStar, hstep, List.flatMap_cons, List.flatMap_nil, List.append_nil, List.mem_cons]
      rw [ih r (by simp at hf; omega)]
      constructor
      · rintro (rfl | h)
        · exact List.suffix_refl _
        · exact h.trans (List.suffix_cons c r)
      · intro h
        rcases List.suffix_cons_iff.mp h with rfl | h
        · exact Or.inl rfl
        · exact Or.inr h

/-- `matchSeq` over compiled atoms reaches the empty remainder iff the textbook matcher accepts -/
theorem matchSeq_atoms (n : Nat) (as : List Atom) (s : Str) :
    (matchSeq n (as.map Atom.re) s).any List.isEmpty = atomsMatch as s := by
  induction as generalizing s with
  | nil => simp [matchSeq, atomsMatch]
  | cons a as ih =>
    cases a with
    | lit c =>
      cases s with
      | nil => simp [matchSeq, Atom.re, Re.m, atomsMatch]
      | cons d t =>
        simp only [List.map_cons, matchSeq, Atom.re, Re.m, CharSet.test, atomsMatch]
        by_cases h : (foldChar c == foldChar d) = true
        · simp [h, ih]
        · simp [h]
    | one =>
      cases s with
      | nil => simp [matchSeq, Atom.re, Re.m, atomsMatch]
      | cons d t => simp [matchSeq, Atom.re, Re.m, CharSet.test, atomsMatch, ih]
    | many =>
      -- reachable remainders of the star are the suffixes of s
      have lhs : (matchSeq n ((Atom.many :: as).map Atom.re) s).any List.isEmpty = true ↔
          ∃ t, t <:+ s ∧ atomsMatch as t = true := by
        simp only [List.map_cons, matchSeq, Atom.re, Re.m]
        simp only [List.any_eq_true, List.mem_flatMap]
        constructor
        · rintro ⟨x, ⟨t, ht, hx⟩, hxe⟩
          refine ⟨t, (mStar_any n s s.length (Nat.le_refl _) t).mp ht, ?_⟩
          rw [← ih t]
          exact List.any_eq_true.mpr ⟨x, hx, hxe⟩
        · rintro ⟨t, hts, hm⟩
          rw [← ih t] at hm
          obtain ⟨x, hx, hxe⟩ := List.any_eq_true.mp hm
          exact ⟨x, ⟨t, (mStar_any n s s.length (Nat.le_refl _) t).mpr hts, hx⟩, hxe⟩
      -- and the textbook matcher for `many` is the same existential
      have rhs : ∀ s : Str, atomsMatch (.many :: as) s = true ↔ ∃ t, t <:+ s ∧ atomsMatch as t = true := by
        intro s
        induction s with
        | nil =>
          rw [atomsMatch]
          simp only [Bool.or_false]
          constructor
          · intro hm; exact ⟨[], List.suffix_refl _, hm⟩
          · rintro ⟨t, ht, hm⟩
            have : t = [] := List.eq_nil_of_suffix_nil ht
            subst this; exact hm
        | cons c r ihs =>
          rw [atomsMatch]
          simp only [Bool.or_eq_true]
          rw [ihs]
          constructor
          · rintro (hm | ⟨t, ht, hm⟩)
            · exact ⟨c :: r, List.suffix_refl _, hm⟩
            · exact ⟨t, ht.trans (List.suffix_cons c r), hm⟩
          · rintro ⟨t, ht, hm⟩
            rcases List.suffix_cons_iff.mp ht with rfl | h
            · exact Or.inl hm
            · exact Or.inr ⟨t, h, hm⟩
      exact Bool.eq_iff_iff.mpr (lhs.trans (rhs s).symm)

/-- the anchored regex `^ atoms $`: `is_match` is the textbook whole-string match -/
def anchored (as : List Atom) : Re := chain .eps ([Re.bol] ++ as.map Atom.re ++ [Re.eol])

theorem suffixes_head (s : Str) : ∃ rest, suffixes s = s :: rest ∧ ∀ t ∈ rest, t.length < s.length := by
  induction s with
  | nil => exact ⟨[], rfl, by simp⟩
  | cons c r ih =>
    obtain ⟨rest, h1, h2⟩ := ih
    refine ⟨suffixes r, rfl, ?_⟩
    intro t ht
    rw [h1] at ht
    rcases List.mem_cons.mp ht with rfl | hm
    · simp
    · have := h2 t hm; simp; omega

theorem matchSeq_append (n : Nat) (xs ys : List Re) (s : Str) :
    matchSeq n (xs ++ ys) s = (matchSeq n xs s).flatMap (matchSeq n ys) := by
  induction xs generalizing s with
  | nil => simp [matchSeq]
  | cons x xs ih =>
    simp only [List.cons_append, matchSeq, List.flatMap_assoc]
    congr 1
    funext t
    exact ih t

theorem anchored_isMatch (as : List Atom) (subj : Str) :
    (anchored as).isMatch subj = atomsMatch as subj := by
  unfold Re.isMatch anchored
  obtain ⟨rest, hs, hrest⟩ := suffixes_head subj
  rw [hs]
  simp only [List.any_cons]
  have hshape : ([Re.bol] ++ as.map Atom.re ++ [Re.eol]) = Re.bol :: (as.map Atom.re ++ [Re.eol]) := by simp
  rw [hshape]
  -- only the full subject passes `^`
  have hno : ∀ t ∈ rest, (chain Re.eps (Re.bol :: (as.map Atom.re ++ [Re.eol]))).m subj.length t = [] := by
    intro t ht
    rw [chain_m]
    have : t.length ≠ subj.length := by have := hrest t ht; omega
    simp [Re.m, matchSeq, this]
  have hrestF : (rest.any fun s => !((chain Re.eps (Re.bol :: (as.map Atom.re ++ [Re.eol]))).m subj.length s).isEmpty) = false := by
    apply List.any_eq_false.mpr
    intro t ht
    simp [hno t ht]
  rw [hrestF, Bool.or_false, chain_m]
  simp only [Re.m, List.flatMap_cons, List.flatMap_nil, List.append_nil, matchSeq, beq_self_eq_true, if_true]
  rw [matchSeq_append]
  rw [← matchSeq_atoms subj.length as subj]
  -- `$` keeps exactly the empty remainders
  apply Bool.eq_iff_iff.mpr
  simp only [Bool.not_eq_true', List.isEmpty_eq_false_iff, List.any_eq_true]
  constructor
  · intro h
    obtain ⟨x, hx⟩ := List.exists_mem_of_ne_nil _ h
    obtain ⟨t, ht, hxt⟩ := List.mem_flatMap.mp hx
    simp only [matchSeq, Re.m, List.flatMap_cons, List.flatMap_nil, List.append_nil] at hxt
    by_cases he : t.isEmpty = true
    · exact ⟨t, ht, he⟩
    · simp [he] at hxt
  · rintro ⟨t, ht, he⟩
    intro hnil
    have : t ∈ (matchSeq subj.length (as.map Atom.re) subj).flatMap (matchSeq subj.length [Re.eol]) := by
      apply List.mem_flatMap.mpr
      refine ⟨t, ht, ?_⟩
      simp [matchSeq, Re.m, he]
    rw [hnil] at this
    simp at this

end GlobL
end Fsel
