/-
  The regex parser of the model turns the pattern text that `convert_glob_to_pattern` /
  `convert_like_to_pattern` produce into exactly the anchored atom chain of `Lemmas/Glob`:
      rxParse ("^(?is)" ++ text(atoms) ++ "$") = ok (anchored atoms)
  for every pattern (any length).
-/
import Fsel.Lemmas.Glob

namespace Fsel
namespace GlobP
open GlobL

/-- the pattern text of one atom -/
def atomText : Atom → Str
  | .lit c => regexEscape c
  | .one => ['.']
  | .many => ['.', '*']

def atomsText (as : List Atom) : Str := as.flatMap atomText

def flags : RxFlags := { ci := true, dotAll := true }

/-- the next character is not a postfix operator -/
def noPostfix (s : Str) : Bool :=
  match s with
  | c :: _ => c != '*' && c != '+' && c != '?' && c != '{'
  | [] => true

theorem parsePostfix_none (a : Re) (f : Nat) (s : Str) (h : noPostfix s = true) : parsePostfix a f s = some (a, s) := by
  cases f with
  | zero => rfl
  | succ f =>
    unfold parsePostfix
    cases s with
    | nil => rfl
    | cons c r =>
      simp only [noPostfix, Bool.and_eq_true, bne_iff_ne, ne_eq] at h
      obtain ⟨⟨⟨h1, h2⟩, h3⟩, h4⟩ := h
      simp only
      split
      · rename_i heq; exact absurd (List.cons.inj heq).1 h1
      · rename_i heq; exact absurd (List.cons.inj heq).1 h2
      · rename_i heq; exact absurd (List.cons.inj heq).1 h3
      · rename_i heq; exact absurd (List.cons.inj heq).1 h4
      · rfl

theorem meta_facts : ∀ c ∈ regexMeta, classEscape c = none ∧
    (c == 'D' || c == 'W' || c == 'S' || c == 'b' || c == 'B' || c == 'A' || c == 'z' || c == 'p' || c == 'P'
       || c == 'x' || c == 'u' || c == 'U' || isDigit c) = false ∧
    (c == 'n') = false ∧ (c == 't') = false ∧ (c == 'r') = false ∧ isAsciiAlpha c = false := by decide

/-- the text of any atom list, followed by `$`, never starts with a postfix operator -/
theorem noPostfix_text (as : List Atom) : noPostfix (atomsText as ++ ['$']) = true := by
  cases as with
  | nil => rfl
  | cons a as =>
    cases a with
    | lit c =>
      simp only [atomsText, List.flatMap_cons, atomText, regexEscape]
      by_cases hm : regexMeta.contains c = true
      · simp only [hm, if_true, List.cons_append, noPostfix]; decide
      · simp only [hm, Bool.false_eq_true, if_false, List.cons_append, List.nil_append, noPostfix]
        have : c ≠ '*' ∧ c ≠ '+' ∧ c ≠ '?' ∧ c ≠ '{' := by
          refine ⟨?_, ?_, ?_, ?_⟩ <;> (intro h; subst h; exact hm (by decide))
        simp [this]
    | one => rfl
    | many => rfl

theorem chain_cons (acc : Re) (r : Re) (rs : List Re) : chain acc (r :: rs) = chain (.seq acc r) rs := rfl

/-- the sequence level of the parser reads the atoms one by one -/
theorem parseSeq_atoms : ∀ (as : List Atom) (acc : Re) (f : Nat), as.length + 2 ≤ f →
    parseSeq flags f (atomsText as ++ ['$']) acc = some (chain acc (as.map Atom.re ++ [Re.eol]), [])
  | [], acc, f, hf => by
    obtain ⟨f1, rfl⟩ : ∃ f1, f = f1 + 1 := ⟨f - 1, by omega⟩
    obtain ⟨f2, rfl⟩ : ∃ f2, f1 = f2 + 1 := ⟨f1 - 1, by simp at hf; omega⟩
    simp [atomsText, parseSeq, chain]
  | .one :: as, acc, f, hf => by
    obtain ⟨f1, rfl⟩ : ∃ f1, f = f1 + 1 := ⟨f - 1, by omega⟩
    have hf1 : as.length + 2 ≤ f1 := by simp at hf; omega
    have ih := parseSeq_atoms as (.seq acc (Atom.re .one)) f1 hf1
    simp only [atomsText, List.flatMap_cons, atomText, List.cons_append, List.nil_append, List.map_cons, chain_cons]
    rw [parseSeq]
    simp only [flags]
    have hnp := noPostfix_text as
    simp only [atomsText] at hnp ih
    rw [parsePostfix_none _ _ _ hnp]
    exact ih
  | .many :: as, acc, f, hf => by
    obtain ⟨f1, rfl⟩ : ∃ f1, f = f1 + 1 := ⟨f - 1, by omega⟩
    have hf1 : as.length + 2 ≤ f1 := by simp at hf; omega
    obtain ⟨f2, rfl⟩ : ∃ f2, f1 = f2 + 1 := ⟨f1 - 1, by omega⟩
    have ih := parseSeq_atoms as (.seq acc (Atom.re .many)) (f2 + 1) hf1
    simp only [atomsText, List.flatMap_cons, atomText, List.cons_append, List.nil_append, List.map_cons, chain_cons]
    rw [parseSeq]
    simp only [flags]
    rw [parsePostfix]
    have hnq : ∀ t, (List.flatMap atomText as ++ ['$']) ≠ '?' :: t := by
      intro t h
      have := noPostfix_text as
      simp only [atomsText] at this
      rw [h] at this
      simp [noPostfix] at this
    have hlazy : (match (List.flatMap atomText as ++ ['$']) with | '?' :: t => t | t => t) = List.flatMap atomText as ++ ['$'] := by
      split
      · rename_i t heq; exact absurd heq (hnq t)
      · rfl
    simp only [hlazy]
    have hnp := noPostfix_text as
    simp only [atomsText] at hnp ih
    rw [parsePostfix_none _ _ _ hnp]
    exact ih
  | .lit c :: as, acc, f, hf => by
    obtain ⟨f1, rfl⟩ : ∃ f1, f = f1 + 1 := ⟨f - 1, by omega⟩
    have hf1 : as.length + 2 ≤ f1 := by simp at hf; omega
    have ih := parseSeq_atoms as (.seq acc (Atom.re (.lit c))) f1 hf1
    simp only [atomsText, List.flatMap_cons, atomText, regexEscape, List.map_cons, chain_cons]
    by_cases hm : regexMeta.contains c = true
    · have hmem : c ∈ regexMeta := List.contains_iff_mem.mp hm
      obtain ⟨m1, m2, m3, m4, m5, m6⟩ := meta_facts c hmem
      simp only [hm, if_true, List.cons_append, List.nil_append]
      rw [parseSeq]
      simp only [m1, m2, m3, m4, m5, m6, Bool.false_eq_true, if_false, flags]
      have hnp := noPostfix_text as
      simp only [atomsText] at hnp ih
      rw [parsePostfix_none _ _ _ hnp, chain_cons]
      exact ih
    · simp only [hm, Bool.false_eq_true, if_false, List.cons_append, List.nil_append]
      have hne : ∀ d ∈ regexMeta, c ≠ d := by
        intro d hd h; subst h; exact hm (List.contains_iff_mem.mpr hd)
      unfold parseSeq
      simp only
      split
      all_goals first
        | (rename_i heq; simp only [List.cons.injEq] at heq; exact absurd heq.1 (hne _ (by decide)))
        | (rename_i heq _; simp only [List.cons.injEq] at heq; exact absurd heq.1 (hne _ (by decide)))
        | (rename_i heq _ _; simp only [List.cons.injEq] at heq; exact absurd heq.1 (hne _ (by decide)))
        | skip
      · rename_i heq; cases heq
      · rename_i heq
        obtain ⟨h1, h2⟩ := List.cons.inj heq
        subst h1; subst h2
        have hnp := noPostfix_text as
        simp only [atomsText] at hnp ih
        rw [parsePostfix_none _ _ _ hnp, chain_cons]
        exact ih

/-- **the regex parser reads the escaped pattern text back as the anchored atom chain** -/
theorem rxParse_anchored (as : List Atom) :
    rxParse (ofS "^(?is)" ++ atomsText as ++ ['$']) = .ok (anchored as) := by
  have hlen : as.length + 5 ≤ 4 * (ofS "^(?is)" ++ atomsText as ++ ['$']).length + 8 := by
    have : as.length ≤ (atomsText as).length := by
      induction as with
      | nil => simp
      | cons a t ih =>
        simp only [atomsText, List.flatMap_cons, List.length_append, List.length_cons] at ih ⊢
        have : 1 ≤ (atomText a).length := by
          cases a <;> simp [atomText, regexEscape] <;> split <;> simp
        omega
    have h6 : (ofS "^(?is)").length = 6 := by decide
    simp only [List.length_append, h6, List.length_cons, List.length_nil]
    omega
  unfold rxParse
  simp only
  generalize hfu : 4 * (ofS "^(?is)" ++ atomsText as ++ ['$']).length + 8 = fuel at hlen
  obtain ⟨f1, rfl⟩ : ∃ f1, fuel = f1 + 1 := ⟨fuel - 1, by omega⟩
  obtain ⟨f2, rfl⟩ : ∃ f2, f1 = f2 + 1 := ⟨f1 - 1, by omega⟩
  obtain ⟨f3, rfl⟩ : ∃ f3, f2 = f3 + 1 := ⟨f2 - 1, by omega⟩
  have hseq := parseSeq_atoms as (.seq .eps .bol) f3 (by omega)
  have : parseAlt {} (f3 + 1 + 1 + 1) (ofS "^(?is)" ++ atomsText as ++ ['$']) = some (anchored as, []) := by
    rw [parseAlt]
    have e : ofS "^(?is)" ++ atomsText as ++ ['$'] = '^' :: '(' :: '?' :: 'i' :: 's' :: ')' :: (atomsText as ++ ['$']) := by
      simp [ofS]
    have hseq' : parseSeq { ci := true, dotAll := true } f3 (atomsText as ++ ['$']) (Re.eps.seq Re.bol) =
        some (chain (Re.eps.seq Re.bol) (as.map Atom.re ++ [Re.eol]), []) := hseq
    rw [e, parseSeq, parseSeq]
    · simp [List.takeWhile, List.dropWhile, hseq', anchored, chain]
    · intro r2 h; cases h
  rw [this]

end GlobP
end Fsel
