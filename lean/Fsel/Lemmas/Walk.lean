/-
  The depth-first walker visits exactly the pruned pre-order of the tree.
-/
import Fsel.Model.Walk

namespace Fsel
namespace WalkL

-- inode numbers the walker may record: directories and symlinks
mutual
def inodesN : Node → List Nat
  | .leaf e _ => if e.kind == 'l' then [e.ino] else []
  | .dir e _ kids => e.ino :: inodesL kids
def inodesL : List Node → List Nat
  | [] => []
  | n :: ns => inodesN n ++ inodesL ns
end

-- every name in the forest is a single path component and directory records are directories
mutual
def goodN : Node → Prop
  | .leaf e _ => ¬ e.name.contains '/'
  | .dir e _ kids => ¬ e.name.contains '/' ∧ e.kind = 'd' ∧ goodL kids
def goodL : List Node → Prop
  | [] => True
  | n :: ns => goodN n ∧ goodL ns
end

-- the entries the walker reports, in order: pre-order, pruned below `maxdepth`
mutual
def eventsN (rp : RootParams) (dirPath dirCanon : Str) (lvl : Nat) : Node → List (Node × Entry × Nat)
  | .leaf le z => [(.leaf le z, fillEntry le dirPath dirCanon le.absPath, lvl)]
  | .dir de l kids =>
    (.dir de l kids, fillEntry de dirPath dirCanon de.absPath, lvl) ::
      (if (rp.maxDepth == 0 || lvl < rp.maxDepth) && l then
        eventsL rp (fillEntry de dirPath dirCanon de.absPath).path (childCanon dirCanon de.name) (lvl + 1) kids
       else [])
def eventsL (rp : RootParams) (dirPath dirCanon : Str) (lvl : Nat) : List Node → List (Node × Entry × Nat)
  | [] => []
  | n :: ns => eventsN rp dirPath dirCanon lvl n ++ eventsL rp dirPath dirCanon lvl ns
end

-- the directories whose listing fails, in the order the walker meets them (paths as spelled)
mutual
def faultsN (rp : RootParams) (dirPath dirCanon : Str) (lvl : Nat) : Node → List Str
  | .leaf _ _ => []
  | .dir de l kids =>
    if rp.maxDepth == 0 || lvl < rp.maxDepth then
      (if l then faultsL rp (fillEntry de dirPath dirCanon de.absPath).path (childCanon dirCanon de.name) (lvl + 1) kids
       else [(fillEntry de dirPath dirCanon de.absPath).path])
    else []
def faultsL (rp : RootParams) (dirPath dirCanon : Str) (lvl : Nat) : List Node → List Str
  | [] => []
  | n :: ns => faultsN rp dirPath dirCanon lvl n ++ faultsL rp dirPath dirCanon lvl ns
end

/-- `check_file` (and the archive member loop) applied to a list of events -/
def foldReport (p : Plan) (rp : RootParams) : ResSt → List (Node × Entry × Nat) → Except Abort ResSt
  | rs, [] => .ok rs
  | rs, (n, e, lvl) :: evs =>
    match reportEntry p rp lvl n e rs with
    | .error a => .error a
    | .ok rs' => foldReport p rp rs' evs

theorem foldReport_append (p : Plan) (rp : RootParams) (rs : ResSt) (a b : List (Node × Entry × Nat)) :
    foldReport p rp rs (a ++ b) =
      match foldReport p rp rs a with
      | .error x => .error x
      | .ok rs' => foldReport p rp rs' b := by
  induction a generalizing rs with
  | nil => rfl
  | cons ev a ih =>
    obtain ⟨n, e, lvl⟩ := ev
    simp only [List.cons_append, foldReport]
    cases reportEntry p rp lvl n e rs with
    | error x => rfl
    | ok rs' => exact ih rs'

theorem count_append (c : Char) (a b : Str) : count c (a ++ b) = count c a + count c b := by
  simp [count, List.filter_append]

theorem count_zero_of_not_contains (c : Char) (s : Str) (h : ¬ s.contains c) : count c s = 0 := by
  simp only [count, List.length_eq_zero_iff, List.filter_eq_nil_iff]
  intro d hd hdc
  apply h
  have : d = c := by simpa using hdc
  subst this
  exact List.contains_iff_mem.mpr hd

theorem calcDepth_long (s : Str) (h : 1 < s.length) : calcDepth s = count '/' s + 1 := by
  unfold calcDepth
  have hne : (s == ['/']) = false := by
    cases h' : s == ['/'] with
    | false => rfl
    | true =>
      have : s = ['/'] := by simpa using h'
      rw [this] at h; simp at h
  simp [hne]

theorem childCanon_long (canon name : Str) (hc : 1 < canon.length) : 1 < (childCanon canon name).length := by
  unfold childCanon
  split <;> simp <;> omega

theorem count_childCanon (canon name : Str) (hn : ¬ name.contains '/') (hc : 1 < canon.length) :
    count '/' (childCanon canon name) = count '/' canon + 1 := by
  unfold childCanon
  have hne : (canon == ['/']) = false := by
    cases h : canon == ['/'] with
    | false => rfl
    | true =>
      have : canon = ['/'] := by simpa using h
      rw [this] at hc; simp at hc
  simp only [hne, Bool.false_eq_true, if_false]
  rw [count_append, count_append, count_zero_of_not_contains '/' name hn]
  have : count '/' ['/'] = 1 := by decide
  omega

/-- the walker's depth arithmetic: a child directory is one level deeper -/
theorem depth_child (canon name : Str) (base : Nat) (hn : ¬ name.contains '/') (hc : 1 < canon.length)
    (hb : base ≤ calcDepth canon) :
    calcDepth (childCanon canon name) - base + 1 = (calcDepth canon - base + 1) + 1 := by
  rw [calcDepth_long _ (childCanon_long canon name hc), count_childCanon canon name hn hc]
  rw [calcDepth_long _ hc] at hb ⊢
  omega

/-- ... and the same directly below the root directory `/` (D58 fix: `/` is one level above `/usr`) -/
theorem depth_child_of_root (name : Str) (hn : ¬ name.contains '/') (hne : name ≠ []) :
    calcDepth (childCanon ['/'] name) - calcDepth ['/'] + 1 = 2 := by
  have h1 : calcDepth ['/'] = 1 := by decide
  have h2 : childCanon ['/'] name = '/' :: name := by simp [childCanon]
  have hl : 1 < ('/' :: name).length := by
    cases name with
    | nil => exact absurd rfl hne
    | cons a t => simp
  rw [h1, h2, calcDepth_long _ hl]
  have : count '/' ('/' :: name) = 1 := by
    have := count_append '/' ['/'] name
    simp only [List.singleton_append] at this
    rw [this, count_zero_of_not_contains '/' name hn]
    decide
  omega

theorem base_le_child (canon name : Str) (base : Nat) (hn : ¬ name.contains '/') (hc : 1 < canon.length)
    (hb : base ≤ calcDepth canon) :
    base ≤ calcDepth (childCanon canon name) := by
  rw [calcDepth_long _ (childCanon_long canon name hc), count_childCanon canon name hn hc]
  rw [calcDepth_long _ hc] at hb
  omega

/-- no streamed LIMIT is active -/
def NoLimit (p : Plan) : Prop := p.q.isBuffered = true ∨ p.q.limit = 0

theorem noLimit_false (p : Plan) (h : NoLimit p) (rs : ResSt) : limitReached p rs = false := by
  unfold limitReached
  rcases h with h | h <;> simp [h]

/-- what the traversal part of the state looks like afterwards: more inodes recorded, nothing else -/
structure WalkAfter (w w' : WalkSt) (ins : List Nat) (faults : List Str) : Prop where
  sub : ∀ i, i ∈ w'.visited → i ∈ w.visited ∨ i ∈ ins
  sup : ∀ i, i ∈ w.visited → i ∈ w'.visited
  errs : w'.errCount = w.errCount + faults.length ∧ w'.errPaths = w.errPaths ++ faults
  queue : w'.queue = w.queue

theorem walkAfter_refl (w : WalkSt) : WalkAfter w w [] [] :=
  ⟨fun i h => Or.inl h, fun i h => h, ⟨by simp, by simp⟩, rfl⟩

theorem errs_same (w : WalkSt) : w.errCount = w.errCount + ([] : List Str).length ∧ w.errPaths = w.errPaths ++ [] := by
  simp

theorem okToVisit_fresh (w : WalkSt) (e : Entry) (h : e.ino ∉ w.visited) :
    okToVisit w e = (e.kind != 'l', { w with visited := w.visited ++ [e.ino] }) := by
  unfold okToVisit
  have : w.visited.contains e.ino = false := by
    cases hc : w.visited.contains e.ino with
    | false => rfl
    | true => exact absurd (List.contains_iff_mem.mp hc) h
  simp only [this, Bool.false_eq_true, if_false]

mutual
/-- **DFS exactness (one node)**: reporting a node and descending into it = `foldReport` over its events -/
theorem dfs_node (p : Plan) (rp : RootParams) (hl : NoLimit p) (dirPath dirCanon : Str) (lvl : Nat)
    (hc : 1 < dirCanon.length) (hb : rp.base ≤ calcDepth dirCanon) (hlvl : calcDepth dirCanon - rp.base + 1 = lvl) :
    ∀ (n : Node) (rest : List Node) (st : WSt),
      goodN n → (inodesN n).Nodup → (∀ i ∈ inodesN n, i ∉ st.walk.visited) →
      (∀ st2 : WSt, ∃ k, visitKidsD p rp dirPath dirCanon lvl st2 rest = k) →
      (match foldReport p rp st.res (eventsN rp dirPath dirCanon lvl n) with
       | .error a => visitKidsD p rp dirPath dirCanon lvl st (n :: rest) = .error a
       | .ok rs' => ∃ w', WalkAfter st.walk w' (inodesN n) (faultsN rp dirPath dirCanon lvl n) ∧
           visitKidsD p rp dirPath dirCanon lvl st (n :: rest) =
             visitKidsD p rp dirPath dirCanon lvl { res := rs', walk := w' } rest)
  | .leaf le z, rest, st, hg, _hnd, _hfresh, _ => by
    simp only [eventsN, foldReport, faultsN]
    rw [visitKidsD]
    simp only [noLimit_false p hl st.res, Bool.false_eq_true, if_false, Node.entry]
    cases hr : reportEntry p rp lvl (.leaf le z) (fillEntry le dirPath dirCanon le.absPath) st.res with
    | error a => rfl
    | ok r1 =>
      simp only
      by_cases hmax : (rp.maxDepth == 0 || decide (lvl < rp.maxDepth)) = true
      · simp only [hmax, if_true]
        by_cases hk : (le.kind == 'l') = true
        · simp only [hk, if_true]
          refine ⟨(okToVisit st.walk le).2, ?_, rfl⟩
          unfold okToVisit
          split
          · exact ⟨fun i h => Or.inl h, fun i h => h, errs_same _, rfl⟩
          · refine ⟨?_, ?_, errs_same _, rfl⟩
            · intro i hi
              simp only [List.mem_append, List.mem_singleton] at hi
              rcases hi with h | h
              · exact Or.inl h
              · right; simp [inodesN, hk, h]
            · intro i hi; simp [hi]
        · simp only [hk]
          exact ⟨st.walk, ⟨fun i h => Or.inl h, fun i h => h, errs_same _, rfl⟩, rfl⟩
      · simp only [hmax]
        exact ⟨st.walk, ⟨fun i h => Or.inl h, fun i h => h, errs_same _, rfl⟩, rfl⟩
  | .dir de listable kids, rest, st, hg, hnd, hfresh, hk => by
    simp only [goodN] at hg
    obtain ⟨hname, hkd, hgk⟩ := hg
    simp only [eventsN, foldReport, faultsN]
    rw [visitKidsD]
    simp only [noLimit_false p hl st.res, Bool.false_eq_true, if_false, Node.entry]
    cases hr : reportEntry p rp lvl (.dir de listable kids) (fillEntry de dirPath dirCanon de.absPath) st.res with
    | error a => rfl
    | ok r1 =>
      simp only
      by_cases hmax : (rp.maxDepth == 0 || decide (lvl < rp.maxDepth)) = true
      · simp only [hmax, if_true, Bool.true_and]
        have hfr : de.ino ∉ st.walk.visited := hfresh de.ino (by simp [inodesN])
        rw [okToVisit_fresh st.walk de hfr]
        simp only
        have hkind : (de.kind != 'l') = true := by rw [hkd]; decide
        simp only [hkind, if_true]
        rw [visitDirD]
        cases listable with
        | false =>
          -- the listing fails: one error, nothing below is reported, the walk goes on with the siblings
          simp only [Bool.not_false, if_true, Bool.false_eq_true, if_false, foldReport]
          refine ⟨_, ?_, rfl⟩
          refine ⟨?_, ?_, ⟨by simp, by simp⟩, rfl⟩
          · intro i hi
            simp only [List.mem_append, List.mem_singleton] at hi
            rcases hi with h | h
            · exact Or.inl h
            · right; simp [inodesN, h]
          · intro i hi; simp [hi]
        | true =>
          simp only [Bool.not_true, Bool.false_eq_true, if_false, if_true]
          -- descend
          have hnd' : (inodesL kids).Nodup := (List.nodup_cons.mp (by simpa [inodesN] using hnd)).2
          have hnotin : de.ino ∉ inodesL kids := (List.nodup_cons.mp (by simpa [inodesN] using hnd)).1
          have hfresh' : ∀ i ∈ inodesL kids, i ∉ ({ st.walk with visited := st.walk.visited ++ [de.ino] } : WalkSt).visited := by
            intro i hi hv
            simp only [List.mem_append, List.mem_singleton] at hv
            rcases hv with h | h
            · exact hfresh i (by simp [inodesN, hi]) h
            · subst h; exact hnotin hi
          have hd := depth_child dirCanon de.name rp.base hname hc hb
          rw [hd, hlvl]
          have ih := dfs_list p rp hl (fillEntry de dirPath dirCanon de.absPath).path (childCanon dirCanon de.name) (lvl + 1)
            (childCanon_long dirCanon de.name hc) (base_le_child dirCanon de.name rp.base hname hc hb) (by rw [hd, hlvl])
            kids { res := r1, walk := { st.walk with visited := st.walk.visited ++ [de.ino] } } hgk hnd' hfresh'
          simp only at ih
          cases hf : foldReport p rp r1 (eventsL rp (fillEntry de dirPath dirCanon de.absPath).path (childCanon dirCanon de.name) (lvl + 1) kids) with
          | error a =>
            rw [hf] at ih
            simp only [ih]
          | ok rs' =>
            rw [hf] at ih
            obtain ⟨w', hw, heq⟩ := ih
            simp only [heq]
            refine ⟨w', ?_, rfl⟩
            refine ⟨?_, ?_, hw.errs, hw.queue⟩
            · intro i hi
              rcases hw.sub i hi with h | h
              · simp only [List.mem_append, List.mem_singleton] at h
                rcases h with h | h
                · exact Or.inl h
                · right; simp [inodesN, h]
              · right; simp [inodesN, h]
            · intro i hi
              exact hw.sup i (by simp [hi])
      · simp only [hmax, Bool.false_and, Bool.false_eq_true, if_false, foldReport]
        exact ⟨st.walk, ⟨fun i h => Or.inl h, fun i h => h, errs_same _, rfl⟩, rfl⟩

/-- **DFS exactness (forest)** -/
theorem dfs_list (p : Plan) (rp : RootParams) (hl : NoLimit p) (dirPath dirCanon : Str) (lvl : Nat)
    (hc : 1 < dirCanon.length) (hb : rp.base ≤ calcDepth dirCanon) (hlvl : calcDepth dirCanon - rp.base + 1 = lvl) :
    ∀ (ns : List Node) (st : WSt),
      goodL ns → (inodesL ns).Nodup → (∀ i ∈ inodesL ns, i ∉ st.walk.visited) →
      (match foldReport p rp st.res (eventsL rp dirPath dirCanon lvl ns) with
       | .error a => visitKidsD p rp dirPath dirCanon lvl st ns = .error a
       | .ok rs' => ∃ w', WalkAfter st.walk w' (inodesL ns) (faultsL rp dirPath dirCanon lvl ns) ∧
           visitKidsD p rp dirPath dirCanon lvl st ns = .ok { res := rs', walk := w' })
  | [], st, _, _, _ => by
    simp only [eventsL, foldReport, faultsL]
    exact ⟨st.walk, walkAfter_refl st.walk, by rw [visitKidsD]⟩
  | n :: ns, st, hg, hnd, hfresh => by
    simp only [goodL] at hg
    obtain ⟨hgn, hgs⟩ := hg
    simp only [inodesL] at hnd hfresh
    have hndn : (inodesN n).Nodup := (List.nodup_append.mp hnd).1
    have hnds : (inodesL ns).Nodup := (List.nodup_append.mp hnd).2.1
    have hdisj := (List.nodup_append.mp hnd).2.2
    have hn := dfs_node p rp hl dirPath dirCanon lvl hc hb hlvl n ns st hgn hndn
      (fun i hi => hfresh i (by simp [hi])) (fun st2 => ⟨_, rfl⟩)
    simp only [eventsL, faultsL]
    rw [foldReport_append]
    cases hf : foldReport p rp st.res (eventsN rp dirPath dirCanon lvl n) with
    | error a =>
      rw [hf] at hn
      simpa using hn
    | ok rs1 =>
      rw [hf] at hn
      obtain ⟨w1, hw1, heq1⟩ := hn
      simp only
      have hfresh2 : ∀ i ∈ inodesL ns, i ∉ w1.visited := by
        intro i hi hv
        rcases hw1.sub i hv with h | h
        · exact hfresh i (by simp [hi]) h
        · exact hdisj i h i hi rfl
      have ih := dfs_list p rp hl dirPath dirCanon lvl hc hb hlvl ns { res := rs1, walk := w1 } hgs hnds hfresh2
      simp only at ih
      cases hf2 : foldReport p rp rs1 (eventsL rp dirPath dirCanon lvl ns) with
      | error a =>
        rw [hf2] at ih
        rw [heq1, ih]
      | ok rs2 =>
        rw [hf2] at ih
        obtain ⟨w2, hw2, heq2⟩ := ih
        refine ⟨w2, ?_, by rw [heq1, heq2]⟩
        refine ⟨?_, ?_, ⟨by rw [hw2.errs.1, hw1.errs.1, List.length_append]; omega,
          by rw [hw2.errs.2, hw1.errs.2, List.append_assoc]⟩, hw2.queue.trans hw1.queue⟩
        · intro i hi
          rcases hw2.sub i hi with h | h
          · rcases hw1.sub i h with h' | h'
            · exact Or.inl h'
            · right; exact List.mem_append.mpr (Or.inl h')
          · right; exact List.mem_append.mpr (Or.inr h)
        · intro i hi
          exact hw2.sup i (hw1.sup i hi)
end

end WalkL
end Fsel
