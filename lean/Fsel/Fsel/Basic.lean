def hello := "world"
