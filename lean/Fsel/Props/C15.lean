/-
  C15  Expressions follow arithmetic rules and each column is evaluated on its own.

  Model: `Parser.lean` (`parse_add_sub`/`parse_mul_div`/`parse_paren`/`parse_func_scalar`, well-founded mutual
  recursion), `Eval.lean` (`columnValue` = `get_column_expr_value` with the per-row memo `file_map`,
  `conforms`).
  Theorems:
  * `arith_parse_correct` — for EVERY derivation of the grammar
        E ::= E (+|-) T | T     T ::= T (*|/|%) F | F     F ::= atom | ( E ) | { E } | fn( E )
    (any depth, any length), parsing its token sequence yields the tree the derivation denotes — operators of
    one level nested to the left, `*`,`/`,`%` below `+`,`-`, brackets overriding — and leaves exactly the tokens
    that follow.  Atoms are abstract (`AtomOK`); `atom_literal`, `atom_column`, `atom_quoted`,
    `atom_negated_literal`, `atom_negated_column` show that numbers, columns, quoted text and their negations are
    atoms.  `prec_mul_over_add`, `left_assoc_sub`, `brackets_override`, `call_argument` are instances (and
    witnesses that the hypotheses are satisfiable).
  * `leading_minus_literal`, `leading_minus_column` — a leading minus negates its operand (a column: after the
    D39 fix; `atom_negated_*` are the parser side).
  * `arith_value` — the value of `l op r` is `calc` of the values of `l` and `r` (evaluation is compositional).
  * `literal_is_itself` — a literal never reads the memo (D61 fix).
  * `column_value_local` (from `Lemmas/Memo`) — the value of an expression depends on the memo only through the
    display texts of its own sub-expressions: two memos that agree there give the same value, whatever else
    they contain; `other_columns_do_not_matter` is the select-list reading: evaluating any other expressions
    first, whose keys are disjoint from those of `x`, does not change the value of `x`.
  * `where_on_expression` — a WHERE comparison evaluates both operands with an empty memo and compares the
    values.
  Not theorems: when two select-list columns share a sub-expression the second one is answered from the cache
  with the *text* of the first value; that the text round-trips to the same number is decided by the
  correspondence and by the select-list permutation oracle (it fails for booleans used in arithmetic, which
  the property's quantifier does not include).  D62 (known finding): the display text is not injective —
  `concat('x, y')` and `concat('x', 'y')` share a cache key — see `display_collision_counterexample`.
-/
import Fsel.Lemmas.ParseArith
import Fsel.Lemmas.Memo

namespace Fsel.C15
open Fsel ParseL MemoL

/-- **the expression parser implements the arithmetic grammar** -/
theorem arith_parse_correct (bs : Bool) (e : E) (h : e.WF bs) (rest : List Lexem) (hrest : StopAdd rest) :
    (parseAddSub bs (e.toks ++ rest)).res = .ok e.tree ∧ (parseAddSub bs (e.toks ++ rest)).rest = rest :=
  parse_E bs e h rest _ hrest rfl

/-! ### atoms -/

theorem atom_literal (bs : Bool) (s : Str) (hf : Field.ofStr? s = none) (hfn : Function.ofStr? s = none) :
    AtomOK bs [.raw s] (.val false s) := by
  intro r
  simp only [List.singleton_append]
  unfold parseParen parseFuncScalar leafP
  simp [hf, hfn]

theorem atom_column (bs : Bool) (s : Str) (f : Field) (hf : Field.ofStr? s = some f) :
    AtomOK bs [.raw s] (.field false f) := by
  intro r
  simp only [List.singleton_append]
  unfold parseParen parseFuncScalar leafP
  simp [hf]

theorem atom_quoted (bs : Bool) (s : Str) : AtomOK bs [.str s] (.val false s) := by
  intro r
  simp only [List.singleton_append]
  unfold parseParen parseFuncScalar leafP
  simp

theorem atom_negated_literal (bs : Bool) (s : Str) (hf : Field.ofStr? s = none) (hfn : Function.ofStr? s = none) :
    AtomOK bs [.arith ['-'], .raw s] (.val true s) := by
  intro r
  simp only [List.cons_append, List.nil_append]
  unfold parseParen parseFuncScalar
  simp only [beq_self_eq_true, if_true, PR.lift]
  unfold leafP
  simp [hf, hfn]

theorem atom_negated_column (bs : Bool) (s : Str) (f : Field) (hf : Field.ofStr? s = some f) :
    AtomOK bs [.arith ['-'], .raw s] (.field true f) := by
  intro r
  simp only [List.cons_append, List.nil_append]
  unfold parseParen parseFuncScalar
  simp only [beq_self_eq_true, if_true, PR.lift]
  unfold leafP
  simp [hf]

/-! ### instances: precedence, associativity, brackets -/

theorem res_congr (bs : Bool) {ts ts' : List Lexem} (h : ts = ts') : (parseAddSub bs ts).res = (parseAddSub bs ts').res := by
  subst h; rfl

theorem addOp_plus : isAddOp ['+'] .Add := ⟨by decide, Or.inl rfl⟩
theorem addOp_minus : isAddOp ['-'] .Subtract := ⟨by decide, Or.inr rfl⟩
theorem mulOp_star : isMulOp ['*'] .Multiply := ⟨by decide, Or.inl rfl⟩

/-- `a + b * c` is `a + (b * c)` -/
theorem prec_mul_over_add (bs : Bool) (a b c : List Lexem) (x y z : Expr)
    (ha : AtomOK bs a x) (hb : AtomOK bs b y) (hc : AtomOK bs c z) (rest : List Lexem) (hrest : StopAdd rest) :
    (parseAddSub bs (a ++ .arith ['+'] :: (b ++ .arith ['*'] :: c) ++ rest)).res
      = .ok (.arith x .Add (.arith y .Multiply z)) := by
  have h := arith_parse_correct bs
    (.mk (.mk (.atom a x) .nil) (.cons ['+'] .Add (.mk (.atom b y) (.cons ['*'] .Multiply (.atom c z) .nil)) .nil))
    (by simp only [E.WF, T.WF, F.WF, TTail.WF, ETail.WF]
        exact ⟨⟨ha, trivial⟩, addOp_plus, ⟨hb, mulOp_star, hc, trivial⟩, trivial⟩) rest hrest
  rw [res_congr bs (show (a ++ .arith ['+'] :: (b ++ .arith ['*'] :: c) ++ rest) = E.toks (.mk (.mk (.atom a x) .nil) (.cons ['+'] .Add (.mk (.atom b y) (.cons ['*'] .Multiply (.atom c z) .nil)) .nil)) ++ rest from by
    simp [E.toks, T.toks, F.toks, TTail.toks, ETail.toks])]
  exact h.1

/-- `a - b - c` is `(a - b) - c` -/
theorem left_assoc_sub (bs : Bool) (a b c : List Lexem) (x y z : Expr)
    (ha : AtomOK bs a x) (hb : AtomOK bs b y) (hc : AtomOK bs c z) (rest : List Lexem) (hrest : StopAdd rest) :
    (parseAddSub bs (a ++ .arith ['-'] :: (b ++ .arith ['-'] :: c) ++ rest)).res
      = .ok (.arith (.arith x .Subtract y) .Subtract z) := by
  have h := arith_parse_correct bs
    (.mk (.mk (.atom a x) .nil) (.cons ['-'] .Subtract (.mk (.atom b y) .nil) (.cons ['-'] .Subtract (.mk (.atom c z) .nil) .nil)))
    (by simp only [E.WF, T.WF, F.WF, TTail.WF, ETail.WF]
        exact ⟨⟨ha, trivial⟩, addOp_minus, ⟨hb, trivial⟩, addOp_minus, ⟨hc, trivial⟩, trivial⟩) rest hrest
  rw [res_congr bs (show (a ++ .arith ['-'] :: (b ++ .arith ['-'] :: c) ++ rest) = E.toks (.mk (.mk (.atom a x) .nil) (.cons ['-'] .Subtract (.mk (.atom b y) .nil) (.cons ['-'] .Subtract (.mk (.atom c z) .nil) .nil))) ++ rest from by
    simp [E.toks, T.toks, F.toks, TTail.toks, ETail.toks])]
  exact h.1

/-- `(a + b) * c` keeps the bracketed sum together -/
theorem brackets_override (bs : Bool) (a b c : List Lexem) (x y z : Expr)
    (ha : AtomOK bs a x) (hb : AtomOK bs b y) (hc : AtomOK bs c z) (rest : List Lexem) (hrest : StopAdd rest)
    (hbool : boolShorthand bs (.arith x .Add y) = .arith x .Add y) (hnot : a.head? ≠ some .not_) (hane : a ≠ []) :
    (parseAddSub bs (.open_ :: (a ++ .arith ['+'] :: b ++ [.close]) ++ .arith ['*'] :: c ++ rest)).res
      = .ok (.arith (.arith x .Add y) .Multiply z) := by
  have h := arith_parse_correct bs
    (.mk (.mk (.paren (.mk (.mk (.atom a x) .nil) (.cons ['+'] .Add (.mk (.atom b y) .nil) .nil)))
              (.cons ['*'] .Multiply (.atom c z) .nil)) .nil)
    (by simp only [E.WF, T.WF, F.WF, TTail.WF, ETail.WF, E.tree, T.tree, F.tree, TTail.fold, ETail.fold,
                   E.toks, T.toks, F.toks, TTail.toks, ETail.toks]
        refine ⟨⟨⟨⟨⟨ha, trivial⟩, addOp_plus, ⟨hb, trivial⟩, trivial⟩, hbool, ?_⟩, mulOp_star, hc, trivial⟩, trivial⟩
        cases a with
        | nil => exact absurd rfl hane
        | cons t ts => simpa using hnot) rest hrest
  rw [res_congr bs (show (.open_ :: (a ++ .arith ['+'] :: b ++ [.close]) ++ .arith ['*'] :: c ++ rest) = E.toks (.mk (.mk (.paren (.mk (.mk (.atom a x) .nil) (.cons ['+'] .Add (.mk (.atom b y) .nil) .nil)))
              (.cons ['*'] .Multiply (.atom c z) .nil)) .nil) ++ rest from by
    simp [E.toks, T.toks, F.toks, TTail.toks, ETail.toks])]
  exact h.1

/-- `fn(a) * c`: a call is a factor and its argument is parsed as an expression of its own -/
theorem call_argument (bs : Bool) (s : Str) (fn : Function) (a c : List Lexem) (x z : Expr)
    (ha : AtomOK bs a x) (hc : AtomOK bs c z) (hfld : Field.ofStr? s = none) (hfn : Function.ofStr? s = some fn)
    (hbool : boolShorthand bs x = x) (hnot : a.head? ≠ some .not_) (rest : List Lexem) (hrest : StopAdd rest) :
    (parseAddSub bs (.raw s :: .open_ :: (a ++ [.close]) ++ .arith ['*'] :: c ++ rest)).res
      = .ok (.arith (.func false fn x []) .Multiply z) := by
  have h := arith_parse_correct bs
    (.mk (.mk (.call s fn (.mk (.mk (.atom a x) .nil) .nil)) (.cons ['*'] .Multiply (.atom c z) .nil)) .nil)
    (by simp only [E.WF, T.WF, F.WF, TTail.WF, ETail.WF, E.tree, T.tree, F.tree, TTail.fold, ETail.fold,
                   E.toks, T.toks, F.toks, TTail.toks, ETail.toks]
        refine ⟨⟨⟨hfld, hfn, ⟨⟨ha, trivial⟩, trivial⟩, hbool, ?_⟩, mulOp_star, hc, trivial⟩, trivial⟩
        simpa using hnot) rest hrest
  rw [res_congr bs (show (.raw s :: .open_ :: (a ++ [.close]) ++ .arith ['*'] :: c ++ rest) =
      E.toks (.mk (.mk (.call s fn (.mk (.mk (.atom a x) .nil) .nil)) (.cons ['*'] .Multiply (.atom c z) .nil)) .nil) ++ rest from by
    simp [E.toks, T.toks, F.toks, TTail.toks, ETail.toks])]
  exact h.1

/-- a concrete check on real tokens: `1 + 2 * 3` -/
example : (parseAddSub false [.raw ['1'], .arith ['+'], .raw ['2'], .arith ['*'], .raw ['3']]).res
    = .ok (.arith (.val false ['1']) .Add (.arith (.val false ['2']) .Multiply (.val false ['3']))) := by
  have h := prec_mul_over_add false [.raw ['1']] [.raw ['2']] [.raw ['3']] _ _ _
    (atom_literal false ['1'] (by decide) (by decide)) (atom_literal false ['2'] (by decide) (by decide))
    (atom_literal false ['3'] (by decide) (by decide)) [] trivial
  simpa using h

/-! ### unary minus -/

theorem leading_minus_literal (cx : EvalCtx) (e? : Option Entry) (m : Memo) (v : Str) :
    columnValue cx e? m (.val true v) = .ok (.ofSignedString v true, m) ∧ (Variant.ofSignedString v true).text = '-' :: v := by
  constructor
  · unfold columnValue; rfl
  · rfl

/-- `-column` is `0 - column` (D39 fix) -/
theorem leading_minus_column (cx : EvalCtx) (e : Entry) (f : Field) (v : Variant)
    (hv : fieldValue cx.cfg e f = .ok v) :
    ∃ m', columnValue cx (some e) [] (.field true f) = .ok (negateIf true v, m') ∧
      (negateIf true v).toFloat = (ArithOp.Subtract.calc (.ofInt 0) v).toFloat := by
  have h : columnValue cx (some e) [] (.field true f) =
      .ok (negateIf true v, Memo.insert [] (Expr.field true f).display (negateIf true v).text) := by
    unfold columnValue
    simp only [withMemo, Memo.get?, lookup, hv]
  exact ⟨_, h, by simp [negateIf, Variant.toFloat]⟩

/-! ### evaluation -/

/-- the value of `l op r` is `calc` applied to the values of `l` and `r` -/
theorem arith_value (cx : EvalCtx) (e? : Option Entry) (l r : Expr) (op : ArithOp) (lv rv : Variant) (m1 m2 : Memo)
    (hl : columnValue cx e? [] l = .ok (lv, m1)) (hr : columnValue cx e? m1 r = .ok (rv, m2)) :
    ∃ v m', columnValue cx e? [] (.arith l op r) = .ok (v, m') ∧ v.text = (op.calc lv rv).text ∧
      v.toFloat = (op.calc lv rv).toFloat := by
  have h : columnValue cx e? [] (.arith l op r) =
      .ok ({ op.calc lv rv with exact := (op.calc lv rv).exact && lv.exact && rv.exact },
           m2.insert (Expr.arith l op r).display (op.calc lv rv).text) := by
    unfold columnValue
    simp only [withMemo, Memo.get?, lookup, hl, hr]
  exact ⟨_, _, h, rfl, rfl⟩

theorem literal_is_itself (cx : EvalCtx) (e? : Option Entry) (m : Memo) (v : Str) :
    columnValue cx e? m (.val false v) = .ok (.ofSignedString v false, m) := by
  unfold columnValue; rfl

/-- **locality**: the value of `x` depends on the memo only through the keys of `x` itself -/
theorem column_value_local (cx : EvalCtx) (e? : Option Entry) (x : Expr) (m m' : Memo)
    (h : ∀ k ∈ keysOf x, m.get? k = m'.get? k) :
    (columnValue cx e? m x).map (·.1) = (columnValue cx e? m' x).map (·.1) := by
  have := columnValue_local (fun k => k ∈ keysOf x) cx e? x m m' (fun k hk => hk) (fun k hk => h k hk)
  cases h1 : columnValue cx e? m x with
  | error a =>
    cases h2 : columnValue cx e? m' x with
    | error b => rw [h1, h2] at this; simp only [Rel] at this; simp [Except.map, this]
    | ok q => rw [h1, h2] at this; simp [Rel] at this
  | ok p =>
    cases h2 : columnValue cx e? m' x with
    | error b => rw [h1, h2] at this; simp [Rel] at this
    | ok q =>
      rw [h1, h2] at this
      obtain ⟨v, mm⟩ := p
      obtain ⟨v', mm'⟩ := q
      simp only [Rel] at this
      simp [Except.map, this.1]

/-- **other columns do not matter**: evaluating any expression `y` first whose keys are disjoint from those of
    `x` does not change the value of `x` -/
theorem other_columns_do_not_matter (cx : EvalCtx) (e? : Option Entry) (x y : Expr) (m : Memo) (v : Variant) (m1 : Memo)
    (hy : columnValue cx e? m y = .ok (v, m1)) (hdisj : ∀ k ∈ keysOf x, k ∉ keysOf y) :
    (columnValue cx e? m1 x).map (·.1) = (columnValue cx e? m x).map (·.1) := by
  apply column_value_local
  intro k hk
  exact columnValue_frame (fun k => k ∈ keysOf y) cx e? y m (fun k hk' => hk') v m1 hy k (hdisj k hk)

/-- a WHERE comparison evaluates both operands (fresh memo each) and compares the values -/
theorem where_on_expression (cx : EvalCtx) (e : Entry) (cache : RxCache) (l r : Expr) (op : Op) (lv rv : Variant) (m1 m2 : Memo)
    (hl : columnValue cx (some e) [] l = .ok (lv, m1)) (hr : columnValue cx (some e) [] r = .ok (rv, m2)) :
    conforms cx e cache (.cmp l op r) = compareAtom cx.cfg.today cache lv op rv := by
  simp only [conforms, hl, hr]

/-- D62 (known finding): two different calls with the same display text, hence one cache key -/
theorem display_collision_counterexample :
    (Expr.func false .Concat (.val false (ofS "x, y")) []).display =
    (Expr.func false .Concat (.val false (ofS "x")) [.val false (ofS "y")]).display ∧
    (Expr.func false .Concat (.val false (ofS "x, y")) []) ≠ (Expr.func false .Concat (.val false (ofS "x")) [.val false (ofS "y")]) := by
  constructor
  · decide
  · intro h; cases h

end Fsel.C15
