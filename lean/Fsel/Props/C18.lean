/-
  C18  Following symlinks finds what is behind them, once, and always terminates.

  Model: `Follow.lean` (`visit_dir` with `current_follow_symlinks`, after the fixes of D27, D43, D44/D45, D46).
  The follow-mode walker is defined WITHOUT FUEL: every recursive descent (dfs) and every queue push (bfs)
  removes one inode number from the finite list `fresh` (the complement of `visited_inodes`), each function
  returns — in its type — the facts that the measure `fresh.length + queue.length` did not grow, that
  `visited_dirs` was only extended and that it stays duplicate-free, and Lean's termination checker accepts
  the (mutually recursive) definitions on that measure.  So "the search terminates on every tree, including
  links to ancestors, mutual links and self-links" holds of the model by construction, for every tree.
  Theorems (read off those types, or one-step unfoldings):
  * `dfs_measure`, `bfs_measure`, `drain_total`: the measure facts; `root_search_total`: a whole root;
  * `each_directory_once_dfs`, `each_directory_once_bfs`, `each_directory_once_root`: `visited_dirs` (canonical
    paths) never holds a directory twice, and `visited_directory_is_skipped`: a directory already in it is
    not read again, whatever path led to it — every distinct real directory is traversed at most once;
  * `directory_entered_is_marked`: entering a directory records its canonical path first;
  * `link_target_spelling`: a relative link target is joined to the link's own directory, an absolute one is
    taken as is (D43 fix); `link_to_non_directory_not_entered`: a link that does not resolve to a directory
    (file, dangling, loop) contributes its own row only (D44 fix);
  * `without_option_links_not_entered` (C01): without `symlinks` no row comes from behind a link.
  Not theorems: that the rows found are *all* entries behind the links (completeness relative to an
  os.walk(followlinks=True) reference with realpath de-duplication) and the exit status are decided by the
  correspondence and that oracle; depth windows combined with links follow the canonical-path depth of the
  code and are compared with the model only.
-/
import Fsel.Model.Follow
import Fsel.Props.C01

namespace Fsel.C18
open Fsel

/-- every step of the depth-first walk returns a state whose measure did not grow -/
theorem dfs_measure (cx : FCtx) (p : Plan) (rp : RootParams) (path canon : Str) (l : Bool) (kids : List Node) (st : WSt)
    (w : Within st.walk) (_h : fVisitD cx p rp path canon l kids st = .ok w) : w.s.walk.meas ≤ st.walk.meas := w.le

theorem bfs_measure (cx : FCtx) (p : Plan) (rp : RootParams) (it : QItem) (st : WSt)
    (w : Within st.walk) (_h : fVisitB cx p rp it st = .ok w) : w.s.walk.meas ≤ st.walk.meas := w.le

/-- the queue loop is a total function: it returns for every state (no fuel, no divergence) -/
theorem drain_total (cx : FCtx) (p : Plan) (rp : RootParams) (st : WSt) :
    (∃ d, fDrain cx p rp st = .ok d) ∨ (∃ a, fDrain cx p rp st = .error a) := by
  cases h : fDrain cx p rp st with
  | ok d => exact Or.inl ⟨d, rfl⟩
  | error a => exact Or.inr ⟨a, rfl⟩

theorem root_search_total (cx : FCtx) (p : Plan) (root : Root) (res : RootRes) (st : WSt) :
    (∃ s, searchRootFollow cx p root res st = .ok s) ∨ (∃ a, searchRootFollow cx p root res st = .error a) := by
  cases h : searchRootFollow cx p root res st with
  | ok s => exact Or.inl ⟨s, rfl⟩
  | error a => exact Or.inr ⟨a, rfl⟩

/-- **each real directory at most once (dfs)** -/
theorem each_directory_once_dfs (cx : FCtx) (p : Plan) (rp : RootParams) (path canon : Str) (l : Bool) (kids : List Node)
    (st : WSt) (w : Within st.walk) (_h : fVisitD cx p rp path canon l kids st = .ok w)
    (hn : st.walk.visitedDirs.Nodup) : w.s.walk.visitedDirs.Nodup ∧ st.walk.visitedDirs <+: w.s.walk.visitedDirs :=
  ⟨w.nodup hn, w.pre⟩

theorem each_directory_once_bfs (cx : FCtx) (p : Plan) (rp : RootParams) (st : WSt) (d : Drained st.walk)
    (_h : fDrain cx p rp st = .ok d) (hn : st.walk.visitedDirs.Nodup) :
    d.s.walk.visitedDirs.Nodup ∧ st.walk.visitedDirs <+: d.s.walk.visitedDirs :=
  ⟨d.nodup hn, d.pre⟩

/-- a whole root, either traversal mode -/
theorem each_directory_once_root (cx : FCtx) (p : Plan) (root : Root) (res : RootRes) (st s' : WSt)
    (h : searchRootFollow cx p root res st = .ok s') (hn : st.walk.visitedDirs.Nodup) : s'.walk.visitedDirs.Nodup := by
  unfold searchRootFollow at h
  cases res with
  | missing => simp only at h; cases h; exact hn
  | notDir e c => simp only at h; cases h; exact hn
  | dir e l kids canon =>
    simp only at h
    split at h
    · cases hv : fVisitB cx p (rootParams root canon) ⟨kids, l, root.path, canon⟩
          { st with walk := { st.walk with queue := [] } } with
      | error a => rw [hv] at h; cases h
      | ok w =>
        rw [hv] at h
        simp only at h
        cases hd : fDrain cx p (rootParams root canon) w.s with
        | error a => rw [hd] at h; cases h
        | ok d =>
          rw [hd] at h
          cases h
          exact d.nodup (w.nodup hn)
    · cases hv : fVisitD cx p (rootParams root canon) root.path canon l kids
          { st with walk := { st.walk with queue := [] } } with
      | error a => rw [hv] at h; cases h
      | ok w =>
        rw [hv] at h
        cases h
        exact w.nodup hn

/-- a directory whose canonical path is already in `visited_dirs` is not read again -/
theorem visited_directory_is_skipped (cx : FCtx) (p : Plan) (rp : RootParams) (path canon : Str) (l : Bool) (kids : List Node)
    (st : WSt) (h : st.walk.visitedDirs.contains canon = true) :
    ∃ w, fVisitD cx p rp path canon l kids st = .ok w ∧ w.s = st := by
  unfold fVisitD
  simp only [h, dite_true]
  exact ⟨_, rfl, rfl⟩

theorem visited_directory_is_skipped_bfs (cx : FCtx) (p : Plan) (rp : RootParams) (it : QItem) (st : WSt)
    (h : st.walk.visitedDirs.contains it.canon = true) :
    ∃ w, fVisitB cx p rp it st = .ok w ∧ w.s = st := by
  unfold fVisitB
  simp only [h, dite_true]
  exact ⟨_, rfl, rfl⟩

/-- entering a directory records its canonical path before anything in it is looked at -/
theorem directory_entered_is_marked (cx : FCtx) (p : Plan) (rp : RootParams) (path canon : Str) (kids : List Node)
    (st : WSt) (h : st.walk.visitedDirs.contains canon = false) (w : Within st.walk)
    (hr : fVisitD cx p rp path canon true kids st = .ok w) : canon ∈ w.s.walk.visitedDirs := by
  have hpre : (st.walk.visitedDirs ++ [canon]) <+: w.s.walk.visitedDirs := by
    unfold fVisitD at hr
    have hv : ¬ st.walk.visitedDirs.contains canon = true := fun hc => by rw [h] at hc; cases hc
    simp only [hv, dite_false, Bool.not_true, Bool.false_eq_true, if_false] at hr
    cases hk : fKidsD cx p rp path canon (calcDepth canon - rp.base + 1) (markDir st canon (by simpa using hv)).s kids with
    | error a => rw [hk] at hr; cases hr
    | ok w2 =>
      rw [hk] at hr
      cases hr
      exact w2.pre
  exact hpre.subset (by simp)

/-- how the path of a followed link is spelled (D43 fix) -/
theorem link_target_spelling (cx : FCtx) (dirPath : Str) (le : Entry) (t real : Str) (l : Bool) (kids : List Node) (e : Entry)
    (ht : le.linkTarget = some t) (hr : le.absPath = some real) (hn : cx.nodeAt real = some (.dir e l kids)) :
    linkTargetDir cx dirPath le = some (if startsWith t ['/'] then t else joinPath dirPath t, real, l, kids) := by
  simp [linkTargetDir, ht, hr, hn]

/-- a link that does not resolve to a directory is not entered: its own row only (D44 fix) -/
theorem link_to_non_directory_not_entered (cx : FCtx) (p : Plan) (rp : RootParams) (dirPath dirCanon : Str) (depth : Nat)
    (st : WSt) (le : Entry) (z : Option (List ArcInfo)) (rest : List Node)
    (hk : le.kind = 'l') (hnd : linkTargetDir cx dirPath le = none) (hlim : limitReached p st.res = false)
    (r1 : ResSt) (hrep : reportEntry p rp depth (.leaf le z) (fillEntry le dirPath dirCanon le.absPath) st.res = .ok r1) :
    fKidsD cx p rp dirPath dirCanon depth st (.leaf le z :: rest) =
      match fKidsD cx p rp dirPath dirCanon depth (withRes st r1).s rest with
      | .error a => .error a
      | .ok w2 => .ok ((withRes st r1).trans w2) := by
  rw [fKidsD]
  simp only [hlim, Bool.false_eq_true, if_false, Node.entry, hrep]
  have hd : descentTarget cx dirPath dirCanon (.leaf le z) (fillEntry le dirPath dirCanon le.absPath) = none := by
    simp [descentTarget, hk, hnd]
  split
  · simp only [hd]
    cases fKidsD cx p rp dirPath dirCanon depth (withRes st r1).s rest <;> rfl
  · cases fKidsD cx p rp dirPath dirCanon depth (withRes st r1).s rest <;> rfl

/-- without the option: a link contributes its own row and nothing from behind it (C01) -/
theorem without_option_links_not_entered (rp : RootParams) (dp dc : Str) (lvl : Nat) (le : Entry) (z : Option (List ArcInfo)) :
    WalkL.eventsN rp dp dc lvl (.leaf le z) = [(.leaf le z, fillEntry le dp dc le.absPath, lvl)] :=
  C01.links_not_entered rp dp dc lvl le z

end Fsel.C18
