/-
  C08  GROUP BY partitions the matching entries; per-group aggregates are exact.

  Model: `partitionRows` (= `partition_output_buffer`) folds the buffered rows into groups keyed by the
  values of the grouping columns.  Theorems, for every list of rows and every key list:
  * `partition_fiber` — each group holds exactly the rows whose key equals the group's key, in arrival
    order, and is non-empty; `partition_keys_nodup` — one group per distinct key;
    `partition_covers` — every row's key has a group;
  * hence `counts_add_up` (Σ group sizes = number of rows) and `sums_add_up` (Σ group SUMs = SUM);
  * `group_equals_restricted` — the aggregate a group gets is the aggregate of the ungrouped rows
    restricted to `key = value` (by `partition_fiber`, since aggregates only read the rows).
  The order of group rows under ORDER BY and the rendering are decided by the correspondence.
-/
import Fsel.Lemmas.Num
import Fsel.Lemmas.CellOrder
import Fsel.Model.Agg

namespace Fsel.C08
open Fsel

/-- invariant of the fold: `acc` is the partition of `rs` -/
structure PartOK (keys : List Str) (acc : List (List Str × List Memo)) (rs : List Memo) : Prop where
  fiber : ∀ g ∈ acc, g.2 = rs.filter (fun r => keyOf keys r == g.1) ∧ g.2 ≠ []
  nodup : (acc.map (·.1)).Nodup
  covers : ∀ r ∈ rs, ∃ g ∈ acc, g.1 = keyOf keys r

theorem partOK_nil (keys : List Str) : PartOK keys [] [] :=
  ⟨by simp, by simp, by simp⟩

theorem addRow_ok (keys : List Str) (acc : List (List Str × List Memo)) (rs : List Memo) (r : Memo)
    (h : PartOK keys acc rs) : PartOK keys (addRow keys acc r) (rs ++ [r]) := by
  unfold addRow
  by_cases hex : acc.any (fun g => g.1 == keyOf keys r) = true
  · simp only [hex, if_true]
    refine ⟨?_, ?_, ?_⟩
    · intro g hg
      simp only [List.mem_map] at hg
      obtain ⟨g0, hg0, rfl⟩ := hg
      obtain ⟨f1, f2⟩ := h.fiber g0 hg0
      by_cases hk : (g0.1 == keyOf keys r) = true
      · simp only [hk, if_true]
        have hk' : g0.1 = keyOf keys r := by simpa using hk
        constructor
        · simp only [List.filter_append, List.filter_cons, List.filter_nil]
          rw [f1]
          have : (keyOf keys r == g0.1) = true := by rw [hk']; simp
          simp [this]
        · simp
      · simp only [hk]
        constructor
        · simp only [Bool.false_eq_true, if_false, List.filter_append, List.filter_cons, List.filter_nil]
          have : (keyOf keys r == g0.1) = false := by
            cases hc : (keyOf keys r == g0.1) with
            | false => rfl
            | true =>
              have : keyOf keys r = g0.1 := by simpa using hc
              rw [this] at hk; simp at hk
          simp [this, f1]
        · simpa using f2
    · have : (acc.map (fun g => if (g.1 == keyOf keys r) = true then (g.1, g.2 ++ [r]) else g)).map (·.1) = acc.map (·.1) := by
        rw [List.map_map]
        apply List.map_congr_left
        intro g _
        simp only [Function.comp]
        split <;> rfl
      rw [this]; exact h.nodup
    · intro r' hr'
      rcases List.mem_append.mp hr' with hm | hm
      · obtain ⟨g, hg, e⟩ := h.covers r' hm
        refine ⟨if (g.1 == keyOf keys r) = true then (g.1, g.2 ++ [r]) else g, ?_, ?_⟩
        · exact List.mem_map.mpr ⟨g, hg, rfl⟩
        · split <;> exact e
      · simp at hm; subst hm
        obtain ⟨g, hg, hk⟩ := List.any_eq_true.mp hex
        refine ⟨if (g.1 == keyOf keys r') = true then (g.1, g.2 ++ [r']) else g, List.mem_map.mpr ⟨g, hg, rfl⟩, ?_⟩
        simp only [hk, if_true]
        simpa using hk
  · have hex' : acc.any (fun g => g.1 == keyOf keys r) = false := by
      cases hc : acc.any (fun g => g.1 == keyOf keys r) with
      | false => rfl
      | true => exact absurd hc hex
    simp only [hex', Bool.false_eq_true, if_false]
    have hnone : ∀ g ∈ acc, g.1 ≠ keyOf keys r := by
      intro g hg he
      have : acc.any (fun g => g.1 == keyOf keys r) = true := List.any_eq_true.mpr ⟨g, hg, by simp [he]⟩
      rw [hex'] at this; exact absurd this (by simp)
    refine ⟨?_, ?_, ?_⟩
    · intro g hg
      rcases List.mem_append.mp hg with hm | hm
      · obtain ⟨f1, f2⟩ := h.fiber g hm
        refine ⟨?_, f2⟩
        simp only [List.filter_append, List.filter_cons, List.filter_nil]
        have : (keyOf keys r == g.1) = false := by
          cases hc : (keyOf keys r == g.1) with
          | false => rfl
          | true =>
            have : keyOf keys r = g.1 := by simpa using hc
            exact absurd this.symm (hnone g hm)
        simp [this, f1]
      · simp at hm; subst hm
        refine ⟨?_, by simp⟩
        simp only [List.filter_append, List.filter_cons, List.filter_nil]
        have e1 : rs.filter (fun r' => keyOf keys r' == keyOf keys r) = [] := by
          apply List.filter_eq_nil_iff.mpr
          intro r' hr' hk
          obtain ⟨g, hg, e⟩ := h.covers r' hr'
          have : keyOf keys r' = keyOf keys r := by simpa using hk
          exact hnone g hg (e.trans this)
        simp [e1]
    · rw [List.map_append, List.nodup_append]
      refine ⟨h.nodup, by simp, ?_⟩
      intro a ha b hb
      simp at hb; subst hb
      obtain ⟨g, hg, rfl⟩ := List.mem_map.mp ha
      exact hnone g hg
    · intro r' hr'
      rcases List.mem_append.mp hr' with hm | hm
      · obtain ⟨g, hg, e⟩ := h.covers r' hm
        exact ⟨g, List.mem_append.mpr (Or.inl hg), e⟩
      · simp at hm; subst hm
        exact ⟨(keyOf keys r', [r']), by simp, rfl⟩

theorem foldl_ok (keys : List Str) (rows : List Memo) (acc : List (List Str × List Memo)) (rs : List Memo)
    (h : PartOK keys acc rs) : PartOK keys (rows.foldl (addRow keys) acc) (rs ++ rows) := by
  induction rows generalizing acc rs with
  | nil => simpa using h
  | cons r rows ih =>
    simp only [List.foldl_cons]
    have := ih (addRow keys acc r) (rs ++ [r]) (addRow_ok keys acc rs r h)
    simpa using this

theorem partition_ok (keys : List Str) (rows : List Memo) : PartOK keys (partitionRows keys rows) rows := by
  have := foldl_ok keys rows [] [] (partOK_nil keys)
  simpa [partitionRows] using this

/-- each group is exactly the fibre of its key, in arrival order, and non-empty -/
theorem partition_fiber (keys : List Str) (rows : List Memo) :
    ∀ g ∈ partitionRows keys rows, g.2 = rows.filter (fun r => keyOf keys r == g.1) ∧ g.2 ≠ [] :=
  (partition_ok keys rows).fiber

/-- one group per distinct key value -/
theorem partition_keys_nodup (keys : List Str) (rows : List Memo) :
    ((partitionRows keys rows).map (·.1)).Nodup := (partition_ok keys rows).nodup

/-- every matching entry contributes to a group (the one of its key) -/
theorem partition_covers (keys : List Str) (rows : List Memo) :
    ∀ r ∈ rows, ∃ g ∈ partitionRows keys rows, g.1 = keyOf keys r := (partition_ok keys rows).covers

/-- a group's aggregate is the aggregate of the ungrouped rows restricted to `key = value` -/
theorem group_equals_restricted (keys : List Str) (rows : List Memo) (f : Function) (col : Str) :
    ∀ g ∈ partitionRows keys rows,
      aggregate f g.2 col = aggregate f (rows.filter (fun r => keyOf keys r == g.1)) col := by
  intro g hg
  rw [(partition_fiber keys rows g hg).1]

theorem sum_map_zero {β : Type} (l : List β) : (l.map fun _ => 0).sum = 0 := by
  induction l with
  | nil => rfl
  | cons a l ih => simp [ih]

/-- adding one row changes the fibre sums at exactly its own key -/
theorem fibre_step (w : Memo → Nat) (keys : List Str) (r : Memo) (rows : List Memo) :
    ∀ (ks : List (List Str)), ks.Nodup →
      (ks.map fun k => (((r :: rows).filter (fun r => keyOf keys r == k)).map w).sum).sum =
      (ks.map fun k => ((rows.filter (fun r => keyOf keys r == k)).map w).sum).sum +
        (if keyOf keys r ∈ ks then w r else 0) := by
  intro ks
  induction ks with
  | nil => intro _; simp
  | cons k ks ihk =>
    intro hnd'
    have hnd2 := (List.nodup_cons.mp hnd').2
    have hnotin := (List.nodup_cons.mp hnd').1
    have hhead : (((r :: rows).filter (fun r => keyOf keys r == k)).map w).sum =
        (if (keyOf keys r == k) = true then w r else 0) + ((rows.filter (fun r => keyOf keys r == k)).map w).sum := by
      simp only [List.filter_cons]
      split <;> simp
    simp only [List.map_cons, List.sum_cons]
    rw [ihk hnd2, hhead]
    by_cases e : (keyOf keys r == k) = true
    · have e' : keyOf keys r = k := by simpa using e
      have hn : keyOf keys r ∉ ks := by rw [e']; exact hnotin
      have h1 : (if (keyOf keys r == k) = true then w r else 0) = w r := by rw [if_pos e]
      have h2 : (if keyOf keys r ∈ ks then w r else 0) = 0 := by rw [if_neg hn]
      have h3 : (if keyOf keys r ∈ k :: ks then w r else 0) = w r := by
        rw [if_pos]; rw [e']; simp
      rw [h1, h2, h3]; omega
    · have e' : keyOf keys r ≠ k := by
        intro h; rw [h] at e; simp at e
      have h1 : (if (keyOf keys r == k) = true then w r else 0) = 0 := by rw [if_neg e]
      have h3 : (if keyOf keys r ∈ k :: ks then w r else 0) = (if keyOf keys r ∈ ks then w r else 0) := by
        by_cases hm : keyOf keys r ∈ ks
        · rw [if_pos hm, if_pos (List.mem_cons_of_mem _ hm)]
        · rw [if_neg hm, if_neg]
          intro hc; rcases List.mem_cons.mp hc with h | h
          · exact e' h
          · exact hm h
      rw [h1, h3]; omega

/-- counting over the fibres of pairwise different keys that cover all rows -/
theorem sum_fibres (w : Memo → Nat) (keys : List Str) (ks : List (List Str)) (hnd : ks.Nodup) (rows : List Memo)
    (hc : ∀ r ∈ rows, keyOf keys r ∈ ks) :
    (ks.map fun k => ((rows.filter (fun r => keyOf keys r == k)).map w).sum).sum = (rows.map w).sum := by
  induction rows with
  | nil => simpa using sum_map_zero ks
  | cons r rows ih =>
    have ih' := ih (fun r' hr' => hc r' (by simp [hr']))
    have hk := hc r (by simp)
    rw [fibre_step w keys r rows ks hnd, ih']
    simp only [hk, if_true, List.map_cons, List.sum_cons]
    omega

/-- Σ over groups of a per-row weight = Σ over all rows -/
theorem groups_add_up (w : Memo → Nat) (keys : List Str) (rows : List Memo) :
    ((partitionRows keys rows).map fun g => (g.2.map w).sum).sum = (rows.map w).sum := by
  have hok := partition_ok keys rows
  have e : ((partitionRows keys rows).map fun g => (g.2.map w).sum) =
      ((partitionRows keys rows).map (·.1)).map fun k => ((rows.filter (fun r => keyOf keys r == k)).map w).sum := by
    rw [List.map_map]
    apply List.map_congr_left
    intro g hg
    simp only [Function.comp]
    rw [(hok.fiber g hg).1]
  rw [e, sum_fibres w keys _ hok.nodup rows]
  intro r hr
  obtain ⟨g, hg, e⟩ := hok.covers r hr
  exact List.mem_map.mpr ⟨g, hg, e⟩

theorem sum_ones {β : Type} (l : List β) : (l.map fun _ => 1).sum = l.length := by
  induction l with
  | nil => rfl
  | cons a l ih => simp [ih]; omega

/-- the group COUNTs add up to the ungrouped COUNT -/
theorem counts_add_up (keys : List Str) (rows : List Memo) :
    ((partitionRows keys rows).map (·.2.length)).sum = rows.length := by
  have := groups_add_up (fun _ => 1) keys rows
  simp only [sum_ones] at this
  exact this

/-- the group SUMs add up to the ungrouped SUM (per-row contribution = the parsed value, 0 if absent) -/
theorem sums_add_up (keys : List Str) (rows : List Memo) (col : Str) :
    ((partitionRows keys rows).map fun g => (g.2.map fun r => ((r.get? col).bind parseUsize?).getD 0).sum).sum =
      (rows.map fun r => ((r.get? col).bind parseUsize?).getD 0).sum :=
  groups_add_up _ keys rows

/-- `bufferSum` (what SUM prints) is that per-row sum -/
theorem bufferSum_eq (rows : List Memo) (col : Str) :
    bufferSum rows col = (rows.map fun r => ((r.get? col).bind parseUsize?).getD 0).sum := by
  induction rows with
  | nil => rfl
  | cons r rows ih =>
    simp only [bufferSum, colValues, List.filterMap_cons, List.map_cons, List.sum_cons] at *
    cases h1 : r.get? col with
    | none => simp [ih]
    | some v =>
      cases h2 : parseUsize? v with
      | none => simp [h2, ih]
      | some n => simp [h2, ih]

/-! ### ORDER BY over the group rows: the comparison -/

open CellL in
/-- **the comparison of group rows is mirror-symmetric** (D80 fix): for every key list, every direction list and
    every two rows — whatever mix of numbers and text their cells hold — comparing them the other way round gives
    the opposite answer.  So the comparison is total, never answers "less" in both directions, and two rows are tied
    in one direction exactly when they are tied in the other (what `sort_by` needs besides transitivity, which the
    sortedness oracle and the correspondence check on mixed columns) -/
theorem grouped_cmp_mirror (idxs : List Nat) (asc : List Bool) (a b : List (Str × Str)) :
    groupedCmp idxs asc b a = oswap (groupedCmp idxs asc a b) := by
  induction idxs generalizing asc with
  | nil => simp [groupedCmp, oswap]
  | cons i is ih =>
    cases asc with
    | nil => simp [groupedCmp, oswap]
    | cons d ds =>
      simp only [groupedCmp]
      rw [cellCmp_swap ((a[i]?.map (·.2)).getD []) ((b[i]?.map (·.2)).getD [])]
      cases hc : cellCmp ((a[i]?.map (·.2)).getD []) ((b[i]?.map (·.2)).getD []) <;> cases d <;>
        simp [oswap, ordRev, ih ds]

open CellL in
/-- **the cells of group rows are compared by a total order** (D80): `cellCmp` is mirror-symmetric and transitive
    in all four `<` / `=` combinations for every three cells, numbers, text or a mix — it is the lexicographic
    order of (number before text, numeric value under `f64::total_cmp`, integer spelling, text), proved from
    the orders of ℚ, ℤ and code points; in particular `9 < 10 < 7z` can never come with `7z < 9` again -/
theorem cell_order_is_total : IsOrd cellCmp := cellCmp_isOrd

open CellL in
theorem cell_le_transitive (x y z : Str) (h1 : cellCmp x y ≠ .gt) (h2 : cellCmp y z ≠ .gt) : cellCmp x z ≠ .gt :=
  cellCmp_le_trans x y z h1 h2

open CellL in
/-- **ORDER BY over group rows compares the rows by a total order**: for every list of key positions and every list
    of directions the row comparison is mirror-symmetric and transitive (lexicographic combination of the cell order
    on each key, reversed for `desc`) — so a stable sort by it yields a sorted, well-defined result for every table -/
theorem group_row_order_is_total (idxs : List Nat) (asc : List Bool) : IsOrd (groupedCmp idxs asc) :=
  isOrd_groupedCmp idxs asc

/-- numbers sort before everything that is no number, whatever their spellings: a cell that reads as a number
    is below a cell that does not, and the other way round above (`9 < 7z`, `10 < 7z`, never `7z < 9`) -/
theorem number_before_text (x y : Str) (u : Num) (hx : parseF64? x = some u) (hy : parseF64? y = none) :
    cellCmp x y = .lt ∧ cellCmp y x = .gt := by
  constructor <;> (unfold cellCmp; simp only [hx, hy])

/-- the premises are met by `9` / `10` against `7z`: the second is no number -/
example : parseF64? (ofS "7z") = none ∧ parseF64? (ofS "txt") = none := by decide

end Fsel.C08
