/-
  C05  ORDER BY output is sorted by the requested keys and loses or invents no row.

  Model: buffered rows are inserted into `TopN<Criteria, String>` (echelon layer = BTreeMap of
  vectors) in arrival order; the ordered result is `values()`.  Theorems, for every insertion history
  (any number of rows, any keys, any key list / direction vector):
  * the order `Criteria::cmp` is a total preorder (`criteria_total_preorder`) — so the BTreeMap model
    is meaningful;
  * without a limit the ordered result is a permutation of the inserted rows (`ordered_perm`),
    its keys are non-decreasing (`ordered_sorted`), and rows with equivalent keys keep their arrival
    order (`ordered_stable`);
  * all three are stated on `orderedPieces`, the very function `finish` prints;
  * `order_by_parse_correct` — `parse_order_by` reads the key list as written: every key (an expression of the
    proved grammar, or a position in the select list), in order, each with its own direction (`desc` after it or
    not), commas optional — no key is dropped, merged or given another key's direction;
  * `repeated_key_irrelevant` — listing a key a second time, in whatever direction, never changes the
    comparison: the first mention decides.
  What is *not* a theorem here: that the buffered rows of an ORDER BY query are the rows of the same
  query without ORDER BY (walker-level simulation; covered by the CLI correspondence and the oracle
  "permutation of the unordered run"), and that a key need not be selected (evaluated per row like a column;
  checked by correspondence).
-/
import Fsel.Lemmas.Criteria
import Fsel.Lemmas.ParseOrder
import Fsel.Model.Walk

namespace Fsel.C05
open Fsel TopNL CriteriaL

/-- the comparison used to order result rows is a total preorder for every key list and directions -/
theorem criteria_total_preorder (today : Int) (kinds : List KeyKind) (asc : List Bool) :
    TotalPreorder (criteriaLe today kinds asc) :=
  CriteriaL.criteria_total_preorder today kinds asc

variable {K V : Type}

/-- state reached by the echelon layer after the history `xs` (no limit) is the stable insertion sort -/
theorem limitless_flatten (le : K → K → Bool) (hp : TotalPreorder le) (xs : List (K × V)) :
    (insertAll le 0 xs).ech.flatten = xs.foldl (fun a x => ins le x a) [] ∧
    EchOK le (insertAll le 0 xs).ech ∧ (insertAll le 0 xs).limit = none := by
  unfold insertAll
  suffices h : ∀ (t : TopNState K V) (l : List (K × V)), t.limit = none → EchOK le t.ech → t.ech.flatten = l →
      (xs.foldl (fun t x => t.insert le x.1 x.2) t).ech.flatten = xs.foldl (fun a x => ins le x a) l ∧
      EchOK le (xs.foldl (fun t x => t.insert le x.1 x.2) t).ech ∧
      (xs.foldl (fun t x => t.insert le x.1 x.2) t).limit = none by
    exact h (TopNState.new 0) [] (by simp [TopNState.new]) (echOK_nil le) (by simp [TopNState.new, Ech.flatten])
  induction xs with
  | nil => intro t l h1 h2 h3; exact ⟨h3, h2, h1⟩
  | cons x xs ih =>
    intro t l h1 h2 h3
    simp only [List.foldl_cons]
    obtain ⟨p1, p2⟩ := push_refines le hp x.1 x.2 t.ech h2
    apply ih
    · simp [TopNState.insert, h1]
    · simp only [TopNState.insert, h1]; exact p2
    · simp only [TopNState.insert, h1]; rw [p1, h3]

/-- ORDER BY loses or invents no row: the ordered pieces are a permutation of the buffered rows -/
theorem ordered_perm (le : K → K → Bool) (hp : TotalPreorder le) (xs : List (K × V)) :
    (insertAll le 0 xs).values.Perm (xs.map (·.2)) := by
  unfold TopNState.values
  rw [(limitless_flatten le hp xs).1]
  have := foldl_ins_perm le xs []
  simp only [List.append_nil] at this
  exact (this.map _).trans ((List.reverse_perm xs).map _)

/-- … and they come out with non-decreasing keys -/
theorem ordered_sorted (le : K → K → Bool) (hp : TotalPreorder le) (xs : List (K × V)) :
    Sorted le (insertAll le 0 xs).ech.flatten := by
  rw [(limitless_flatten le hp xs).1]
  exact foldl_ins_sorted le hp xs [] (by simp [Sorted])

/-- stability of one insertion: a new row is placed after every row whose key is ≤ its own, in
    particular after all earlier rows with an equivalent key (ties keep their arrival order) -/
theorem ordered_stable (le : K → K → Bool) (x : K × V) (l : List (K × V)) :
    ∃ pre post, ins le x l = pre ++ x :: post ∧ l = pre ++ post ∧ (∀ y ∈ pre, le y.1 x.1 = true) :=
  ins_stable le x l

/-- the same three facts for the function the model's `finish` actually prints, with the real order -/
theorem orderedPieces_perm (p : Plan) (hp : p.le = criteriaLe p.cfg.today p.kinds p.q.orderingAsc)
    (st : ResSt) (hl : p.q.limit = 0) :
    (orderedPieces p st).Perm (st.buffer.map (·.2)) := by
  unfold orderedPieces
  rw [hl]
  exact ordered_perm p.le (hp ▸ criteria_total_preorder _ _ _) st.buffer

theorem orderedPieces_sorted (p : Plan) (hp : p.le = criteriaLe p.cfg.today p.kinds p.q.orderingAsc)
    (st : ResSt) (hl : p.q.limit = 0) :
    Sorted p.le (insertAll p.le 0 st.buffer).ech.flatten :=
  ordered_sorted p.le (hp ▸ criteria_total_preorder _ _ _) st.buffer

/-- `Plan.of` builds exactly that order (the hypothesis of the two theorems above is satisfiable) -/
example (q : Query) (cfg : Config) :
    (Plan.of q cfg).le = criteriaLe (Plan.of q cfg).cfg.today (Plan.of q cfg).kinds (Plan.of q cfg).q.orderingAsc := rfl

/-! ### a key listed twice -/

/-- the two values are tied under key kind `k` -/
def tied (today : Int) (k : KeyKind) (x y : Str) : Bool := keyLe today k x y && keyLe today k y x

/-- one comparison step, written with `tied` -/
theorem criteriaLeL_cons (today : Int) (k : KeyKind) (d : Bool) (ks : List KeyKind) (ds : List Bool) (x y : Str) (as bs : List Str) :
    criteriaLeL today (k :: ks) (d :: ds) (x :: as) (y :: bs) =
      if tied today k x y then criteriaLeL today ks ds as bs
      else (if d then keyLe today k x y else keyLe today k y x) := by
  simp only [criteriaLeL, List.headD_cons, List.tail_cons, tied]
  cases d <;> simp only [Bool.false_eq_true, if_false, if_true] <;>
    cases h1 : keyLe today k x y <;> cases h2 : keyLe today k y x <;> simp

/-- a tied key in the middle of the key list can be dropped -/
theorem tied_key_dropped (today : Int) (k : KeyKind) (x y : Str) (d : Bool) (ht : tied today k x y = true)
    (K3 : List KeyKind) (D3 : List Bool) (A3 B3 : List Str) :
    ∀ (K2 : List KeyKind) (D2 : List Bool) (A2 B2 : List Str), K2.length = D2.length → K2.length = A2.length → K2.length = B2.length →
      criteriaLeL today (K2 ++ k :: K3) (D2 ++ d :: D3) (A2 ++ x :: A3) (B2 ++ y :: B3) =
      criteriaLeL today (K2 ++ K3) (D2 ++ D3) (A2 ++ A3) (B2 ++ B3)
  | [], [], [], [], _, _, _ => by
    simp only [List.nil_append]
    rw [criteriaLeL_cons, ht]; simp
  | k2 :: K2, d2 :: D2, a2 :: A2, b2 :: B2, h1, h2, h3 => by
    simp only [List.cons_append]
    rw [criteriaLeL_cons, criteriaLeL_cons]
    rw [tied_key_dropped today k x y d ht K3 D3 A3 B3 K2 D2 A2 B2 (by simpa using h1) (by simpa using h2) (by simpa using h3)]
  | [], _ :: _, _, _, h1, _, _ => by simp at h1
  | _ :: _, [], _, _, h1, _, _ => by simp at h1
  | [], [], _ :: _, _, _, h2, _ => by simp at h2
  | _ :: _, _ :: _, [], _, _, h2, _ => by simp at h2
  | [], [], [], _ :: _, _, _, h3 => by simp at h3
  | _ :: _, _ :: _, _ :: _, [], _, _, h3 => by simp at h3

/-- **a repeated key never changes the order**: if the same column (same kind, same values `x`, `y` in the two
    rows) is listed again later in the key list, in whatever direction `d'`, the comparison is the one without
    the repeat — the first mention decides -/
theorem repeated_key_irrelevant (today : Int) (k : KeyKind) (x y : Str) (d d' : Bool)
    (K1 K2 K3 : List KeyKind) (D1 D2 D3 : List Bool) (A1 A2 A3 B1 B2 B3 : List Str)
    (h1 : K1.length = D1.length) (h1a : K1.length = A1.length) (h1b : K1.length = B1.length)
    (h2 : K2.length = D2.length) (h2a : K2.length = A2.length) (h2b : K2.length = B2.length) :
    criteriaLeL today (K1 ++ k :: (K2 ++ k :: K3)) (D1 ++ d :: (D2 ++ d' :: D3)) (A1 ++ x :: (A2 ++ x :: A3)) (B1 ++ y :: (B2 ++ y :: B3)) =
    criteriaLeL today (K1 ++ k :: (K2 ++ K3)) (D1 ++ d :: (D2 ++ D3)) (A1 ++ x :: (A2 ++ A3)) (B1 ++ y :: (B2 ++ B3)) := by
  induction K1 generalizing D1 A1 B1 with
  | nil =>
    cases D1 with
    | cons _ _ => simp at h1
    | nil =>
    cases A1 with
    | cons _ _ => simp at h1a
    | nil =>
    cases B1 with
    | cons _ _ => simp at h1b
    | nil =>
      simp only [List.nil_append]
      rw [criteriaLeL_cons, criteriaLeL_cons]
      cases ht : tied today k x y with
      | false => simp
      | true =>
        simp only [if_true]
        exact tied_key_dropped today k x y d' ht K3 D3 A3 B3 K2 D2 A2 B2 h2 h2a h2b
  | cons k1 K1 ih =>
    cases D1 with
    | nil => simp at h1
    | cons d1 D1 =>
    cases A1 with
    | nil => simp at h1a
    | cons a1 A1 =>
    cases B1 with
    | nil => simp at h1b
    | cons b1 B1 =>
      simp only [List.cons_append]
      rw [criteriaLeL_cons, criteriaLeL_cons]
      rw [ih D1 A1 B1 (by simpa using h1) (by simpa using h1a) (by simpa using h1b)]

/-! ### the ORDER BY clause is read as written -/

open ParseO ParseC ParseL in
/-- **`parse_order_by` reads the key list as written** -/
theorem order_by_parse_correct (fields : List Expr) (items : List OItem) (rest : List Lexem)
    (hwf : ∀ it ∈ items, it.key.WF fields) (hsr : StopOr rest) (hos : OrderStop rest)
    (hsep : ∀ (a b : OItem) (l1 l2 : List OItem), items = l1 ++ a :: b :: l2 → (∃ s tl x, a.key = .expr s tl x) → a.desc = false → b.comma = true) :
    (parseOrderBy fields (.order :: .by_ :: (items.flatMap OItem.toks ++ rest))).1 =
      .ok (items.map (·.key.tree), items.map (fun it => !it.desc)) ∧
    (parseOrderBy fields (.order :: .by_ :: (items.flatMap OItem.toks ++ rest))).2.1 = rest := by
  have h := order_items fields items [] [] rest hwf hsr hos hsep
  simp only [List.nil_append] at h
  simp only [parseOrderBy]
  cases hi : iterate (orderStep fields) ([], []) (items.flatMap OItem.toks ++ rest) with
  | mk x r' =>
    rw [hi] at h
    exact ⟨h.1, by simpa [Rest.lift] using h.2⟩

open ParseO in
/-- `order by 2, 1 desc, 2 desc` with the select list `path, size`: three keys (size asc, path desc, size desc) —
    the repeat is kept as its own key with its own direction (and `repeated_key_irrelevant` says it cannot matter) -/
example :
    (parseOrderBy [.field false .Path, .field false .Size]
      [.order, .by_, .raw ['2'], .comma, .raw ['1'], .desc, .comma, .raw ['2'], .desc, .limit, .raw ['3']]).1 =
      .ok ([.field false .Size, .field false .Path, .field false .Size], [true, false, false]) := by
  have h := order_by_parse_correct [.field false .Path, .field false .Size]
    [⟨false, .pos ['2'] 2 (.field false .Size), false⟩, ⟨true, .pos ['1'] 1 (.field false .Path), true⟩, ⟨true, .pos ['2'] 2 (.field false .Size), true⟩]
    [.limit, .raw ['3']]
    (by intro it hit
        simp only [List.mem_cons, List.mem_nil_iff, or_false] at hit
        rcases hit with rfl | rfl | rfl <;> simp only [OKey.WF] <;> exact ⟨by decide, by decide, rfl⟩)
    (by simp [ParseC.StopOr, ParseC.StopCond]) (by simp [OrderStop])
    (by intro a b l1 l2 h1 ⟨s, tl, x, hx⟩ _
        have : a ∈ [(⟨false, .pos ['2'] 2 (.field false .Size), false⟩ : OItem), ⟨true, .pos ['1'] 1 (.field false .Path), true⟩, ⟨true, .pos ['2'] 2 (.field false .Size), true⟩] := by
          rw [h1]; simp
        simp only [List.mem_cons, List.mem_nil_iff, or_false] at this
        rcases this with rfl | rfl | rfl <;> cases hx)
  exact h.1

/-! ### which keys compare numerically -/

/-- every arithmetic expression is a numeric key, whichever side its column is on (D76 fix) -/
theorem arith_key_is_numeric (l r : Expr) (op : ArithOp) : keyKind (.arith l op r) = .numeric := rfl

/-- a call of a numeric function is a numeric key whatever its argument — in particular DAY, MONTH, YEAR and
    DAYOFWEEK of a date column are numbers, not dates (re-decided over the generated classification set on
    every run; DAYOFWEEK was missing: D75 fix) -/
theorem date_part_keys_are_numeric (m : Bool) (a : Expr) (rest : List Expr) :
    keyKind (.func m .Day a rest) = .numeric ∧ keyKind (.func m .Month a rest) = .numeric ∧
    keyKind (.func m .Year a rest) = .numeric ∧ keyKind (.func m .DayOfWeek a rest) = .numeric := by
  have h1 : Function.isNumeric .Day = true := by decide
  have h2 : Function.isNumeric .Month = true := by decide
  have h3 : Function.isNumeric .Year = true := by decide
  have h4 : Function.isNumeric .DayOfWeek = true := by decide
  simp [keyKind, Expr.containsNumeric, h1, h2, h3, h4]

/-- a numeric column is a numeric key, a date column a date key -/
example : keyKind (.field false .Size) = .numeric ∧ keyKind (.field false .Modified) = .datetime ∧
    keyKind (.field false .Name) = .text := by decide

end Fsel.C05
