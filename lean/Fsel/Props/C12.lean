/-
  C12  Glob, LIKE, exact and regex matching agree with their textbook definitions.

  Model: `globToPattern` / `likeToPattern` (pattern text, after the D32/D33 fix every non-wildcard
  character is escaped), the regex fragment (`Rx.lean`), `compareValues` on text with the shared cache.
  Theorems:
  * `glob_textbook`, `like_textbook` — for every pattern and subject, matching the anchored,
    case-folding regex built from the pattern's atoms is the textbook whole-string match in which
    `*`/`%` stand for any run of characters (newlines included), `?`/`_` for exactly one, and every other
    character for itself (`GlobL.anchored_isMatch`, proved by induction on pattern and subject);
  * `negatives_complement` — `!=`, `notlike`, `!=~`, `!==` are the exact complements of `=`, `like`, `=~`,
    `===` on text, per atom, whatever the cache holds;
  * `eeq_literal` — `===`/`!==` compare the literal text, wildcard characters included;
  * `cache_transparent` — under the invariant `CacheOK` (every cached entry is the pattern of its key; keys
    carry the operator family since the D34 fix) a comparison gives the verdict it gives with an empty
    cache and preserves the invariant; `cacheOK_nil`.
  * `glob_pattern_parses`, `like_pattern_parses` (Lemmas/GlobParse, induction over the pattern with a fuel
    bound) — the model's regex parser turns the pattern text produced by `convert_glob_to_pattern` /
    `convert_like_to_pattern` into exactly that anchored atom chain, for every pattern; hence
    `glob_end_to_end`, `like_end_to_end`: compiling the pattern text and matching is the textbook match.
  The regex crate itself is external: the composed behaviour is validated against it in-process on every run;
  user regexes (`=~`) are compared on the modelled fragment only.
-/
import Fsel.Lemmas.Glob
import Fsel.Lemmas.GlobParse

namespace Fsel.C12
open Fsel GlobL

def globAtoms (p : Str) : List Atom := p.map fun c => if c == '*' then .many else if c == '?' then .one else .lit c
def likeAtoms (p : Str) : List Atom := p.map fun c => if c == '%' then .many else if c == '_' then .one else .lit c

/-- glob matching is the textbook definition -/
theorem glob_textbook (p s : Str) : (anchored (globAtoms p)).isMatch s = atomsMatch (globAtoms p) s :=
  anchored_isMatch _ _

/-- LIKE matching is the textbook definition -/
theorem like_textbook (p s : Str) : (anchored (likeAtoms p)).isMatch s = atomsMatch (likeAtoms p) s :=
  anchored_isMatch _ _

theorem glob_body : ∀ p : Str,
    p.flatMap (fun c => if c == '*' then ['.', '*'] else if c == '?' then ['.'] else regexEscape c) = GlobP.atomsText (globAtoms p)
  | [] => rfl
  | c :: r => by
    have ih := glob_body r
    simp only [List.flatMap_cons, GlobP.atomsText, globAtoms, List.map_cons] at ih ⊢
    rw [ih]
    congr 1
    by_cases h1 : c = '*'
    · subst h1; rfl
    · by_cases h2 : c = '?'
      · subst h2; rfl
      · simp [h1, h2, GlobP.atomText]

theorem glob_text (p : Str) : globToPattern p = ofS "^(?is)" ++ GlobP.atomsText (globAtoms p) ++ ['$'] := by
  simp only [globToPattern, glob_body]

theorem like_body : ∀ p : Str,
    p.flatMap (fun c => if c == '%' then ['.', '*'] else if c == '_' then ['.'] else regexEscape c) = GlobP.atomsText (likeAtoms p)
  | [] => rfl
  | c :: r => by
    have ih := like_body r
    simp only [List.flatMap_cons, GlobP.atomsText, likeAtoms, List.map_cons] at ih ⊢
    rw [ih]
    congr 1
    by_cases h1 : c = '%'
    · subst h1; rfl
    · by_cases h2 : c = '_'
      · subst h2; rfl
      · simp [h1, h2, GlobP.atomText]

theorem like_text (p : Str) : likeToPattern p = ofS "^(?is)" ++ GlobP.atomsText (likeAtoms p) ++ ['$'] := by
  simp only [likeToPattern, like_body]

/-- the pattern text of a glob parses to the anchored atom chain — for every pattern -/
theorem glob_pattern_parses (p : Str) : rxParse (globToPattern p) = .ok (anchored (globAtoms p)) := by
  rw [glob_text]; exact GlobP.rxParse_anchored _

theorem like_pattern_parses (p : Str) : rxParse (likeToPattern p) = .ok (anchored (likeAtoms p)) := by
  rw [like_text]; exact GlobP.rxParse_anchored _

/-- end to end: compile the glob's pattern text, match: the textbook whole-string match -/
theorem glob_end_to_end (p s : Str) :
    (match rxParse (globToPattern p) with | .ok re => some (re.isMatch s) | _ => none) = some (atomsMatch (globAtoms p) s) := by
  rw [glob_pattern_parses]; simp [glob_textbook]

theorem like_end_to_end (p s : Str) :
    (match rxParse (likeToPattern p) with | .ok re => some (re.isMatch s) | _ => none) = some (atomsMatch (likeAtoms p) s) := by
  rw [like_pattern_parses]; simp [like_textbook]

/-- sanity of the textbook matcher on the D32 witness: `a+b.*` matches `a+b.txt`, not `aab.txt` -/
example : atomsMatch (globAtoms (ofS "a+b.*")) (ofS "a+b.txt") = true ∧
          atomsMatch (globAtoms (ofS "a+b.*")) (ofS "aab.txt") = false := by
  constructor <;> simp [globAtoms, ofS, atomsMatch, foldChar]

/-- `?` is exactly one character (D33: LIKE treated it as optional) and `_` too -/
example : atomsMatch (likeAtoms (ofS "a_")) (ofS "ab") = true ∧ atomsMatch (likeAtoms (ofS "a_")) (ofS "a") = false := by
  constructor <;> simp [likeAtoms, ofS, atomsMatch, foldChar]

/-- `===` / `!==` compare literal text, wildcard characters included -/
theorem eeq_literal (today : Int) (c : RxCache) (subj lit : Str) :
    compareValues today c (.ofString subj) .Eeq (.ofString lit) = .ok (.val (lit == subj), c) ∧
    compareValues today c (.ofString subj) .Ene (.ofString lit) = .ok (.val (lit != subj), c) := by
  unfold compareValues
  simp [Variant.ofString]

def cnot : CmpRes → CmpRes
  | .val b => .val (!b)
  | .uncertain => .uncertain

/-- each negative text operator is the exact complement of its positive counterpart, for every
    subject, pattern and cache content -/
theorem negatives_complement (today : Int) (c : RxCache) (subj lit : Str) :
    let fv := Variant.ofString subj
    let v := Variant.ofString lit
    (compareValues today c fv .Ne v = (compareValues today c fv .Eq v).map fun r => (cnot r.1, r.2)) ∧
    (compareValues today c fv .NotLike v = (compareValues today c fv .Like v).map fun r => (cnot r.1, r.2)) ∧
    (compareValues today c fv .NotRx v = (compareValues today c fv .Rx v).map fun r => (cnot r.1, r.2)) ∧
    (compareValues today c fv .Ene v = (compareValues today c fv .Eeq v).map fun r => (cnot r.1, r.2)) := by
  simp only [compareValues, Variant.ofString]
  refine ⟨?_, ?_, ?_, ?_⟩
  · by_cases hg : isGlob lit = true
    · simp only [hg, if_true]
      cases rxTest c (ofS "glob:" ++ lit) (globToPattern lit) subj (.ok (lit == subj)) with
      | error e => rfl
      | ok r => obtain ⟨b, c1⟩ := r; cases b <;> rfl
    · simp only [hg]; simp [Except.map, cnot, bne]
  · cases rxTest c (ofS "like:" ++ lit) (likeToPattern lit) subj (.error (.exit2 "Incorrect LIKE expression")) with
    | error e => rfl
    | ok r => obtain ⟨b, c1⟩ := r; cases b <;> rfl
  · cases rxTest c (ofS "rx:" ++ lit) lit subj (.error (.exit2 "Incorrect regex expression")) with
    | error e => rfl
    | ok r => obtain ⟨b, c1⟩ := r; cases b <;> rfl
  · simp [Except.map, cnot, bne]

-- ------------------------------------------------------------------ cache transparency

/-- the pattern a cache key stands for (keys carry the operator family since the D34 fix) -/
def keyPattern (k : Str) : Str :=
  if startsWith k (ofS "glob:") then globToPattern (k.drop 5)
  else if startsWith k (ofS "like:") then likeToPattern (k.drop 5)
  else if startsWith k (ofS "rx:") then k.drop 3
  else k

def CacheOK (c : RxCache) : Prop := ∀ k p, lookup k c = some p → p = keyPattern k

theorem cacheOK_nil : CacheOK [] := by
  intro k p h; simp [lookup] at h

theorem lookup_append_single (k k' p' : Str) (c : RxCache) (hnone : lookup k' c = none) :
    lookup k (c ++ [(k', p')]) = if k' == k then (match lookup k c with | some p => some p | none => some p') else lookup k c := by
  induction c with
  | nil => simp [lookup]
  | cons a c ih =>
    obtain ⟨a1, a2⟩ := a
    simp only [List.cons_append, lookup] at hnone ⊢
    by_cases h : (a1 == k) = true
    · simp only [h, if_true]
      split <;> rfl
    · simp only [h]
      by_cases h' : (a1 == k') = true
      · simp [h'] at hnone
      · simp only [h'] at hnone
        exact ih hnone

/-- a pattern test under a consistent cache: same verdict as with an empty cache; consistency is kept -/
theorem rxTest_transparent (c : RxCache) (key pat subj : Str) (oi : EM Bool) (hok : CacheOK c) (hk : keyPattern key = pat) :
    (rxTest c key pat subj oi).map (·.1) = (rxTest [] key pat subj oi).map (·.1) ∧
    ∀ b c', rxTest c key pat subj oi = .ok (b, c') → CacheOK c' := by
  have huse : (lookup key c).getD pat = pat := by
    cases h : lookup key c with
    | none => rfl
    | some p => simp [hok key p h, hk]
  have huse0 : (lookup key ([] : RxCache)).getD pat = pat := rfl
  simp only [rxTest, huse, huse0]
  constructor
  · cases rxParse pat with
    | ok re => rfl
    | invalid => cases oi <;> rfl
    | unsupported => rfl
  · intro b c' h
    cases hp : rxParse pat with
    | ok re =>
      simp only [hp] at h
      cases hl : lookup key c with
      | some p =>
        simp [hl] at h
        rw [← h.2]; exact hok
      | none =>
        simp [hl] at h
        rw [← h.2]
        intro k p hkp
        rw [lookup_append_single k key pat c hl] at hkp
        by_cases e : (key == k) = true
        · simp only [e, if_true] at hkp
          have ek : key = k := by simpa using e
          cases hlk : lookup k c with
          | some q => simp [hlk] at hkp; rw [← hkp]; exact hok k q hlk
          | none => simp [hlk] at hkp; rw [← hkp, ← ek, hk]
        · simp only [e] at hkp
          exact hok k p hkp
    | invalid =>
      simp only [hp] at h
      cases oi with
      | ok v => simp at h; rw [← h.2]; exact hok
      | error e => simp at h
    | unsupported => simp [hp] at h

theorem keyPattern_glob (v : Str) : keyPattern (ofS "glob:" ++ v) = globToPattern v := by
  simp [keyPattern, startsWith, ofS, List.isPrefixOf]

theorem keyPattern_like (v : Str) : keyPattern (ofS "like:" ++ v) = likeToPattern v := by
  simp [keyPattern, startsWith, ofS, List.isPrefixOf]

theorem keyPattern_rx (v : Str) : keyPattern (ofS "rx:" ++ v) = v := by
  simp [keyPattern, startsWith, ofS, List.isPrefixOf]

def wrapRx (neg : Bool) (x : EM (Bool × RxCache)) : EM (CmpRes × RxCache) :=
  match x with
  | .ok (b, c1) => .ok (.val (b != neg), c1)
  | .error e => .error e

theorem wrap_map (neg : Bool) (x y : EM (Bool × RxCache))
    (h : x.map (fun r => r.1) = y.map (fun r => r.1)) :
    (wrapRx neg x).map (fun r => r.1) = (wrapRx neg y).map (fun r => r.1) := by
  cases x with
  | error e =>
    cases y with
    | error e' => simp [Except.map] at h; subst h; rfl
    | ok r' => simp [Except.map] at h
  | ok r =>
    cases y with
    | error e' => simp [Except.map] at h
    | ok r' =>
      obtain ⟨b, c1⟩ := r
      obtain ⟨b', c2⟩ := r'
      simp [Except.map] at h
      subst h; rfl

theorem wrap_ok (neg : Bool) (x : EM (Bool × RxCache)) (r : CmpRes) (c' : RxCache)
    (h : wrapRx neg x = .ok (r, c')) : ∃ b, x = .ok (b, c') := by
  cases x with
  | error e => simp [wrapRx] at h
  | ok p =>
    obtain ⟨b, c1⟩ := p
    simp [wrapRx] at h
    exact ⟨b, by rw [h.2]⟩

/-- the regex cache is semantically transparent: under `CacheOK` a text comparison gives the verdict it
    gives with an empty cache, and leaves a cache that is `CacheOK` again -/
theorem cache_transparent (today : Int) (c : RxCache) (subj lit : Str) (op : Op) (hok : CacheOK c) :
    (compareValues today c (.ofString subj) op (.ofString lit)).map (fun r => r.1) =
      (compareValues today [] (.ofString subj) op (.ofString lit)).map (fun r => r.1) ∧
    ∀ r c', compareValues today c (.ofString subj) op (.ofString lit) = .ok (r, c') → CacheOK c' := by
  have G := rxTest_transparent c (ofS "glob:" ++ lit) (globToPattern lit) subj (.ok (lit == subj)) hok (keyPattern_glob lit)
  have L := rxTest_transparent c (ofS "like:" ++ lit) (likeToPattern lit) subj (.error (.exit2 "Incorrect LIKE expression")) hok (keyPattern_like lit)
  have R := rxTest_transparent c (ofS "rx:" ++ lit) lit subj (.error (.exit2 "Incorrect regex expression")) hok (keyPattern_rx lit)
  have plain : ∀ (b : Bool) (cc : RxCache),
      ((.ok (CmpRes.val b, c) : EM (CmpRes × RxCache)).map (fun r => r.1) = (.ok (CmpRes.val b, ([] : RxCache)) : EM (CmpRes × RxCache)).map (fun r => r.1)) := by
    intro b cc; rfl
  -- every pattern operator is `wrapRx neg (rxTest …)`
  have viaWrap : ∀ (key pat : Str) (oi : EM Bool) (neg : Bool),
      ((rxTest c key pat subj oi).map (fun r => r.1) = (rxTest [] key pat subj oi).map (fun r => r.1) ∧
        ∀ b c', rxTest c key pat subj oi = .ok (b, c') → CacheOK c') →
      ((wrapRx neg (rxTest c key pat subj oi)).map (fun r => r.1) = (wrapRx neg (rxTest [] key pat subj oi)).map (fun r => r.1)) ∧
      ∀ r c', wrapRx neg (rxTest c key pat subj oi) = .ok (r, c') → CacheOK c' := by
    intro key pat oi neg ⟨h1, h2⟩
    refine ⟨wrap_map neg _ _ h1, ?_⟩
    intro r c' h
    obtain ⟨b, hb⟩ := wrap_ok neg _ r c' h
    exact h2 b c' hb
  have unfoldRx : ∀ (cc : RxCache) (key pat : Str) (oi : EM Bool) (neg : Bool),
      (match rxTest cc key pat subj oi with
        | .ok (b, c1) => (.ok (CmpRes.val (b != neg), c1) : EM (CmpRes × RxCache))
        | .error e => .error e) = wrapRx neg (rxTest cc key pat subj oi) := by
    intro cc key pat oi neg; rfl
  simp only [compareValues, Variant.ofString, unfoldRx]
  cases op <;> first
    | (by_cases hg : isGlob lit = true
       · simp only [hg, if_true]; exact viaWrap _ _ _ _ G
       · simp only [hg]; exact ⟨rfl, fun r c' h => by simp at h; exact h.2 ▸ hok⟩)
    | exact viaWrap _ _ _ _ L
    | exact viaWrap _ _ _ _ R
    | exact ⟨rfl, fun r c' h => by simp at h; exact h.2 ▸ hok⟩

end Fsel.C12
