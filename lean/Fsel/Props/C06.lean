/-
  C06  LIMIT N returns min(N, matches) rows, and with ORDER BY the true top N.

  Theorems (every insertion history, every N ≥ 1, every total preorder):
  * `limit_is_take` — the limited ordered result is exactly the first N rows of the unlimited ordered
    result of the same history (stronger than the property asks: ties at the cut are resolved as in the
    unlimited run);
  * `limit_length` — it has min(N, M) rows;
  * `limit_zero_unlimited` — `limit 0`/absent limit builds the limitless buffer.
  Streamed path (a query that is neither ordered nor aggregated; `limitReached` in the walker), for
  every tree, every filter and every N ≥ 1, depth-first mode:
  * `dfs_streamed_any_plan` — the depth-first walker's result under ANY plan (limited or not) is
    `check_file` folded over the entries and archive members in pre-order, stopping at the limit;
  * `dfs_streamed_limit` — whenever the unlimited search of a root succeeds with M rows, the search
    with `limit N` succeeds, reports exactly min(N, M) rows, and they are the first min(N, M) chunks
    the unlimited search wrote, in the same order (so the bytes on stdout are a prefix of the
    unlimited output and the rows a sub-multiset of the unlimited rows);
  * `streamed_limit_stops` — once N rows are out nothing more is examined (no further `check_file`).
  * `bfs_streamed_any_plan`, `bfs_streamed_limit` — the same two statements for the breadth-first
    walker (the default mode): `visit_dir(root)` plus the queue loop under any plan is `check_file`
    folded over the level order (`levelOrder`, defined without fuel; the model's fuel is proved
    sufficient) stopping at the limit; the limited search reports the first min(N, M) rows of the
    unlimited breadth-first search.  After the limit the queue is still drained, but nothing is
    examined or written (`drain_reached`).
  Several roots and the footer are decided by the correspondence and by the oracle "sub-multiset of the
  unlimited run with min(N, M) rows".
-/
import Fsel.Props.C05
import Fsel.Props.C01
import Fsel.Lemmas.WalkLim
import Fsel.Lemmas.WalkLimB

namespace Fsel.C06
open Fsel TopNL CriteriaL

variable {K V : Type}

/-- echelon layer with limit `n ≥ 1` after history `xs` = bounded abstract insertion -/
theorem limited_flatten (le : K → K → Bool) (hp : TotalPreorder le) (n : Nat) (hn : 0 < n) (xs : List (K × V)) :
    (insertAll le n xs).ech.flatten = xs.foldl (insN le n) [] := by
  unfold insertAll
  suffices h : ∀ (t : TopNState K V), EchOK le t.ech → t.count = t.ech.flatten.length → t.limit = some n → t.count ≤ n →
      (xs.foldl (fun t x => t.insert le x.1 x.2) t).ech.flatten = xs.foldl (insN le n) t.ech.flatten by
    have hne : (n == 0) = false := by cases n with | zero => omega | succ m => rfl
    have := h (TopNState.new n) (echOK_nil le) (by simp [TopNState.new, Ech.flatten])
      (by simp [TopNState.new, hne]) (by simp [TopNState.new])
    simpa [TopNState.new, Ech.flatten] using this
  induction xs with
  | nil => intro t _ _ _ _; rfl
  | cons x xs ih =>
    intro t h1 h2 h3 h4
    simp only [List.foldl_cons]
    obtain ⟨r1, r2, r3, r4, r5⟩ := insert_refines le hp t x.1 x.2 h1 h2 n h3 h4
    rw [ih _ r2 r3 r4 r5, r1]

/-- LIMIT N under ORDER BY: the first N rows of the fully sorted result -/
theorem limit_is_take (le : K → K → Bool) (hp : TotalPreorder le) (n : Nat) (hn : 0 < n) (xs : List (K × V)) :
    (insertAll le n xs).values = (insertAll le 0 xs).values.take n := by
  unfold TopNState.values
  rw [limited_flatten le hp n hn xs, (C05.limitless_flatten le hp xs).1]
  rw [(foldl_insN le n xs [] (by simp)).1, List.map_take]

/-- … hence min(N, M) rows -/
theorem limit_length (le : K → K → Bool) (hp : TotalPreorder le) (n : Nat) (hn : 0 < n) (xs : List (K × V)) :
    (insertAll le n xs).values.length = min n xs.length := by
  rw [limit_is_take le hp n hn xs, List.length_take]
  have := (C05.ordered_perm le hp xs).length_eq
  simp at this
  omega

/-- `limit 0` (or no limit) is the unlimited buffer -/
theorem limit_zero_unlimited : (TopNState.new 0 : TopNState K V).limit = none := rfl

/-- non-vacuity: a concrete history with a tie straddling the cut -/
example : (insertAll (fun (a b : Nat) => decide (a ≤ b)) 2 [(3, "c"), (1, "a"), (1, "b"), (0, "z")]).values = ["z", "a"] := by
  decide

/-! ### streamed LIMIT (no ORDER BY, no aggregate) in the depth-first walker -/

open WalkL WalkLim

/-- the root call of `visit_dir` (depth-first) under any plan: `check_file` over the entries and
    archive members in pre-order, stopping when the streamed limit is reached -/
theorem dfs_streamed_any_plan (p : Plan) (rp : RootParams) (path canon : Str) (kids : List Node) (st : WSt)
    (hroot : 1 < canon.length) (hbase : rp.base = calcDepth canon)
    (hg : goodL kids) (hnd : (inodesL kids).Nodup) (hfresh : ∀ i ∈ inodesL kids, i ∉ st.walk.visited) :
    match foldLim p st.res (checksL p rp (eventsL rp path canon 1 kids)) with
    | .error a => visitDirD p rp path canon true kids st = .error a
    | .ok rs' => ∃ w', visitDirD p rp path canon true kids st = .ok { res := rs', walk := w' } := by
  have hd : calcDepth canon - rp.base + 1 = 1 := by omega
  have h := dfs_list_lim p rp path canon 1 hroot (by omega) hd kids st hg hnd hfresh
  rw [visitDirD]
  simp only [Bool.not_true, Bool.false_eq_true, if_false, hd]
  cases hf : foldLim p st.res (checksL p rp (eventsL rp path canon 1 kids)) with
  | error a => rw [hf] at h; exact h
  | ok rs' => rw [hf] at h; obtain ⟨w', _, h2⟩ := h; exact ⟨w', h2⟩

/-- **LIMIT N without ORDER BY returns the first min(N, M) rows of the unlimited search.**
    `sU` is the state after searching the root with the limit removed (M = rows found); then the
    limited search succeeds with a state `sL` such that the unlimited run wrote exactly `sL`'s chunks
    first, in the same order, followed by the chunks `cs` the limit cut off. -/
theorem dfs_streamed_limit (p : Plan) (rp : RootParams) (hb : p.q.isBuffered = false) (hn : 0 < p.q.limit)
    (path canon : Str) (kids : List Node) (st sU : WSt)
    (hroot : 1 < canon.length) (hbase : rp.base = calcDepth canon)
    (hg : goodL kids) (hnd : (inodesL kids).Nodup) (hfresh : ∀ i ∈ inodesL kids, i ∉ st.walk.visited)
    (h0 : st.res.found ≤ p.q.limit)
    (hU : visitDirD (unlimited p) rp path canon true kids st = .ok sU) :
    ∃ sL cs, visitDirD p rp path canon true kids st = .ok sL ∧
      sU.res.outRev = cs ++ sL.res.outRev ∧
      sU.res.found = sL.res.found + cs.length ∧
      sL.res.found = min p.q.limit sU.res.found := by
  have hu := dfs_streamed_any_plan (unlimited p) rp path canon kids st hroot hbase hg hnd hfresh
  have hlm := dfs_streamed_any_plan p rp path canon kids st hroot hbase hg hnd hfresh
  rw [checksL_unlimited] at hu
  cases hf : foldLim (unlimited p) st.res (checksL p rp (eventsL rp path canon 1 kids)) with
  | error a => rw [hf] at hu; rw [hu] at hU; contradiction
  | ok rsU =>
    rw [hf] at hu
    obtain ⟨wU, hwU⟩ := hu
    rw [hwU] at hU
    injection hU with hU
    subst hU
    obtain ⟨rsL, cs, h1, h2, h3, h4⟩ := lim_is_prefix p hb hn _ st.res rsU h0 hf
    rw [h1] at hlm
    obtain ⟨wL, hwL⟩ := hlm
    exact ⟨{ res := rsL, walk := wL }, cs, hwL, h2, h3, h4⟩

/-- … in bytes: the limited stdout is a prefix of the unlimited stdout -/
theorem dfs_streamed_limit_bytes (p : Plan) (rp : RootParams) (hb : p.q.isBuffered = false) (hn : 0 < p.q.limit)
    (path canon : Str) (kids : List Node) (st sU : WSt)
    (hroot : 1 < canon.length) (hbase : rp.base = calcDepth canon)
    (hg : goodL kids) (hnd : (inodesL kids).Nodup) (hfresh : ∀ i ∈ inodesL kids, i ∉ st.walk.visited)
    (h0 : st.res.found ≤ p.q.limit)
    (hU : visitDirD (unlimited p) rp path canon true kids st = .ok sU) :
    ∃ sL rest, visitDirD p rp path canon true kids st = .ok sL ∧ sU.res.out = sL.res.out ++ rest := by
  obtain ⟨sL, cs, h1, h2, _, _⟩ := dfs_streamed_limit p rp hb hn path canon kids st sU hroot hbase hg hnd hfresh h0 hU
  exact ⟨sL, cs.reverse.flatten, h1, by simp [ResSt.out, h2]⟩

/-! ### … and in the breadth-first walker -/

open WalkB WalkLimB C01 in
/-- `visit_dir(root)` and the queue loop under any plan: `check_file` over the level order, stopping at the limit -/
theorem bfs_streamed_any_plan (p : Plan) (rp : RootParams) (path canon : Str) (kids : List Node) (st : WSt)
    (hq : st.walk.queue = [])
    (hg : goodL kids) (hnd : (inodesL kids).Nodup) (hfresh : ∀ i ∈ inodesL kids, i ∉ st.walk.visited) :
    match foldLim p st.res (checksL p rp (levelOrder rp [rootItem path canon kids])) with
    | .error a => bfsRoot p rp path canon kids st = .error a
    | .ok rs' => ∃ w', bfsRoot p rp path canon kids st = .ok { res := rs', walk := w' } := by
  rw [bfsRoot_eq_drain p rp path canon kids st hq]
  have hsz : qSize [rootItem path canon kids] ≤ Node.countDirsList kids + 1 + 1 := by
    rw [qSize_cons, qSize_nil]; simp only [rootItem]; omega
  obtain ⟨he, _⟩ := bfsEvents_enough rp _ _ hsz
  have hqi : qInos [rootItem path canon kids] = inodesL kids := by simp [qInos, rootItem]
  have h := drain_lim p rp (Node.countDirsList kids + 1 + 1)
    { st with walk := { st.walk with queue := [rootItem path canon kids] } }
    (by intro it hit; simp only [List.mem_singleton] at hit; subst hit; exact hg)
    (by simpa [hqi] using hnd)
    (by simpa [hqi] using hfresh)
  simp only [he] at h
  exact h

open WalkB WalkLimB C01 in
/-- **LIMIT N without ORDER BY in breadth-first mode**: the first min(N, M) rows of the unlimited
    breadth-first search, in the same order -/
theorem bfs_streamed_limit (p : Plan) (rp : RootParams) (hb : p.q.isBuffered = false) (hn : 0 < p.q.limit)
    (path canon : Str) (kids : List Node) (st sU : WSt) (hq : st.walk.queue = [])
    (hg : goodL kids) (hnd : (inodesL kids).Nodup) (hfresh : ∀ i ∈ inodesL kids, i ∉ st.walk.visited)
    (h0 : st.res.found ≤ p.q.limit)
    (hU : bfsRoot (unlimited p) rp path canon kids st = .ok sU) :
    ∃ sL cs, bfsRoot p rp path canon kids st = .ok sL ∧
      sU.res.outRev = cs ++ sL.res.outRev ∧
      sU.res.found = sL.res.found + cs.length ∧
      sL.res.found = min p.q.limit sU.res.found := by
  have hu := bfs_streamed_any_plan (unlimited p) rp path canon kids st hq hg hnd hfresh
  have hlm := bfs_streamed_any_plan p rp path canon kids st hq hg hnd hfresh
  rw [checksL_unlimited] at hu
  cases hf : foldLim (unlimited p) st.res (checksL p rp (levelOrder rp [rootItem path canon kids])) with
  | error a => rw [hf] at hu; rw [hu] at hU; contradiction
  | ok rsU =>
    rw [hf] at hu
    obtain ⟨wU, hwU⟩ := hu
    rw [hwU] at hU
    injection hU with hU
    subst hU
    obtain ⟨rsL, cs, h1, h2, h3, h4⟩ := lim_is_prefix p hb hn _ st.res rsU h0 hf
    rw [h1] at hlm
    obtain ⟨wL, hwL⟩ := hlm
    exact ⟨{ res := rsL, walk := wL }, cs, hwL, h2, h3, h4⟩

/-- non-vacuity: a plan with a streamed limit (`select name from . limit 2`) -/
example : ∃ q : Query, q.isBuffered = false ∧ 0 < q.limit :=
  ⟨{ fields := [.field false .Name], roots := [], expr := none, grouping := [], ordering := [], orderingAsc := [],
     limit := 2, format := .Tabs }, by decide, by decide⟩

/-- once the limit is reached nothing more is examined -/
theorem streamed_limit_stops (p : Plan) (rs : ResSt) (h : limitReached p rs = true) (es : List Entry) :
    foldLim p rs es = .ok rs := foldLim_reached p rs h es

/-- `limit 0` / no limit / a buffered query: the streamed cut-off never fires -/
theorem no_streamed_limit (p : Plan) (h : p.q.isBuffered = true ∨ p.q.limit = 0) (rs : ResSt) :
    limitReached p rs = false := noLimit_false p h rs

end Fsel.C06
