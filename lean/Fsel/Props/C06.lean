/-
  C06  LIMIT N returns min(N, matches) rows, and with ORDER BY the true top N.

  Theorems (every insertion history, every N ≥ 1, every total preorder):
  * `limit_is_take` — the limited ordered result is exactly the first N rows of the unlimited ordered
    result of the same history (stronger than the property asks: ties at the cut are resolved as in the
    unlimited run);
  * `limit_length` — it has min(N, M) rows;
  * `limit_zero_unlimited` — `limit 0`/absent limit builds the limitless buffer.
  Streamed path (a query that is neither ordered nor aggregated; `limitReached` in the walker), for
  every tree, every filter and every N ≥ 1, depth-first mode:
  * `dfs_streamed_any_plan` — the depth-first walker's result under ANY plan (limited or not) is
    `check_file` folded over the entries and archive members in pre-order, stopping at the limit;
  * `dfs_streamed_limit` — whenever the unlimited search of a root succeeds with M rows, the search
    with `limit N` succeeds, reports exactly min(N, M) rows, and they are the first min(N, M) chunks
    the unlimited search wrote, in the same order (so the bytes on stdout are a prefix of the
    unlimited output and the rows a sub-multiset of the unlimited rows);
  * `streamed_limit_stops` — once N rows are out nothing more is examined (no further `check_file`).
  * `bfs_streamed_any_plan`, `bfs_streamed_limit` — the same two statements for the breadth-first
    walker (the default mode): `visit_dir(root)` plus the queue loop under any plan is `check_file`
    folded over the level order (`levelOrder`, defined without fuel; the model's fuel is proved
    sufficient) stopping at the limit; the limited search reports the first min(N, M) rows of the
    unlimited breadth-first search.  After the limit the queue is still drained, but nothing is
    examined or written (`drain_reached`).
  * `roots_streamed_any_plan`, `roots_streamed_limit` — several disjoint plain roots (each bfs or dfs, own
    depth window): searched one after the other until the limit is reached, after which no root is examined
    (`roots_reached`); the limited search of all the roots reports the first min(N, M) rows of the
    unlimited search.
  Roots with options (symlinks, ignore files), overlapping roots and the footer are decided by the
  correspondence and by the oracle "sub-multiset of the unlimited run with min(N, M) rows".
-/
import Fsel.Props.C05
import Fsel.Props.C01
import Fsel.Lemmas.WalkLim
import Fsel.Lemmas.WalkLimB

namespace Fsel.C06
open Fsel TopNL CriteriaL

variable {K V : Type}

/-- echelon layer with limit `n ≥ 1` after history `xs` = bounded abstract insertion -/
theorem limited_flatten (le : K → K → Bool) (hp : TotalPreorder le) (n : Nat) (hn : 0 < n) (xs : List (K × V)) :
    (insertAll le n xs).ech.flatten = xs.foldl (insN le n) [] := by
  unfold insertAll
  suffices h : ∀ (t : TopNState K V), EchOK le t.ech → t.count = t.ech.flatten.length → t.limit = some n → t.count ≤ n →
      (xs.foldl (fun t x => t.insert le x.1 x.2) t).ech.flatten = xs.foldl (insN le n) t.ech.flatten by
    have hne : (n == 0) = false := by cases n with | zero => omega | succ m => rfl
    have := h (TopNState.new n) (echOK_nil le) (by simp [TopNState.new, Ech.flatten])
      (by simp [TopNState.new, hne]) (by simp [TopNState.new])
    simpa [TopNState.new, Ech.flatten] using this
  induction xs with
  | nil => intro t _ _ _ _; rfl
  | cons x xs ih =>
    intro t h1 h2 h3 h4
    simp only [List.foldl_cons]
    obtain ⟨r1, r2, r3, r4, r5⟩ := insert_refines le hp t x.1 x.2 h1 h2 n h3 h4
    rw [ih _ r2 r3 r4 r5, r1]

/-- LIMIT N under ORDER BY: the first N rows of the fully sorted result -/
theorem limit_is_take (le : K → K → Bool) (hp : TotalPreorder le) (n : Nat) (hn : 0 < n) (xs : List (K × V)) :
    (insertAll le n xs).values = (insertAll le 0 xs).values.take n := by
  unfold TopNState.values
  rw [limited_flatten le hp n hn xs, (C05.limitless_flatten le hp xs).1]
  rw [(foldl_insN le n xs [] (by simp)).1, List.map_take]

/-- … hence min(N, M) rows -/
theorem limit_length (le : K → K → Bool) (hp : TotalPreorder le) (n : Nat) (hn : 0 < n) (xs : List (K × V)) :
    (insertAll le n xs).values.length = min n xs.length := by
  rw [limit_is_take le hp n hn xs, List.length_take]
  have := (C05.ordered_perm le hp xs).length_eq
  simp at this
  omega

/-- `limit 0` (or no limit) is the unlimited buffer -/
theorem limit_zero_unlimited : (TopNState.new 0 : TopNState K V).limit = none := rfl

/-- non-vacuity: a concrete history with a tie straddling the cut -/
example : (insertAll (fun (a b : Nat) => decide (a ≤ b)) 2 [(3, "c"), (1, "a"), (1, "b"), (0, "z")]).values = ["z", "a"] := by
  decide

/-! ### streamed LIMIT (no ORDER BY, no aggregate) in the depth-first walker -/

open WalkL WalkLim

/-- the root call of `visit_dir` (depth-first) under any plan: `check_file` over the entries and
    archive members in pre-order, stopping when the streamed limit is reached -/
theorem dfs_streamed_any_plan (p : Plan) (rp : RootParams) (path canon : Str) (kids : List Node) (st : WSt)
    (hroot : 1 < canon.length) (hbase : rp.base = calcDepth canon)
    (hg : goodL kids) (hnd : (inodesL kids).Nodup) (hfresh : ∀ i ∈ inodesL kids, i ∉ st.walk.visited) :
    match foldLim p st.res (checksL p rp (eventsL rp path canon 1 kids)) with
    | .error a => visitDirD p rp path canon true kids st = .error a
    | .ok rs' => ∃ w', visitDirD p rp path canon true kids st = .ok { res := rs', walk := w' } := by
  have hd : calcDepth canon - rp.base + 1 = 1 := by omega
  have h := dfs_list_lim p rp path canon 1 hroot (by omega) hd kids st hg hnd hfresh
  rw [visitDirD]
  simp only [Bool.not_true, Bool.false_eq_true, if_false, hd]
  cases hf : foldLim p st.res (checksL p rp (eventsL rp path canon 1 kids)) with
  | error a => rw [hf] at h; exact h
  | ok rs' => rw [hf] at h; obtain ⟨w', _, h2⟩ := h; exact ⟨w', h2⟩

/-- **LIMIT N without ORDER BY returns the first min(N, M) rows of the unlimited search.**
    `sU` is the state after searching the root with the limit removed (M = rows found); then the
    limited search succeeds with a state `sL` such that the unlimited run wrote exactly `sL`'s chunks
    first, in the same order, followed by the chunks `cs` the limit cut off. -/
theorem dfs_streamed_limit (p : Plan) (rp : RootParams) (hb : p.q.isBuffered = false) (hn : 0 < p.q.limit)
    (path canon : Str) (kids : List Node) (st sU : WSt)
    (hroot : 1 < canon.length) (hbase : rp.base = calcDepth canon)
    (hg : goodL kids) (hnd : (inodesL kids).Nodup) (hfresh : ∀ i ∈ inodesL kids, i ∉ st.walk.visited)
    (h0 : st.res.found ≤ p.q.limit)
    (hU : visitDirD (unlimited p) rp path canon true kids st = .ok sU) :
    ∃ sL cs, visitDirD p rp path canon true kids st = .ok sL ∧
      sU.res.outRev = cs ++ sL.res.outRev ∧
      sU.res.found = sL.res.found + cs.length ∧
      sL.res.found = min p.q.limit sU.res.found := by
  have hu := dfs_streamed_any_plan (unlimited p) rp path canon kids st hroot hbase hg hnd hfresh
  have hlm := dfs_streamed_any_plan p rp path canon kids st hroot hbase hg hnd hfresh
  rw [checksL_unlimited] at hu
  cases hf : foldLim (unlimited p) st.res (checksL p rp (eventsL rp path canon 1 kids)) with
  | error a => rw [hf] at hu; rw [hu] at hU; contradiction
  | ok rsU =>
    rw [hf] at hu
    obtain ⟨wU, hwU⟩ := hu
    rw [hwU] at hU
    injection hU with hU
    subst hU
    obtain ⟨rsL, cs, h1, h2, h3, h4⟩ := lim_is_prefix p hb hn _ st.res rsU h0 hf
    rw [h1] at hlm
    obtain ⟨wL, hwL⟩ := hlm
    exact ⟨{ res := rsL, walk := wL }, cs, hwL, h2, h3, h4⟩

/-- … in bytes: the limited stdout is a prefix of the unlimited stdout -/
theorem dfs_streamed_limit_bytes (p : Plan) (rp : RootParams) (hb : p.q.isBuffered = false) (hn : 0 < p.q.limit)
    (path canon : Str) (kids : List Node) (st sU : WSt)
    (hroot : 1 < canon.length) (hbase : rp.base = calcDepth canon)
    (hg : goodL kids) (hnd : (inodesL kids).Nodup) (hfresh : ∀ i ∈ inodesL kids, i ∉ st.walk.visited)
    (h0 : st.res.found ≤ p.q.limit)
    (hU : visitDirD (unlimited p) rp path canon true kids st = .ok sU) :
    ∃ sL rest, visitDirD p rp path canon true kids st = .ok sL ∧ sU.res.out = sL.res.out ++ rest := by
  obtain ⟨sL, cs, h1, h2, _, _⟩ := dfs_streamed_limit p rp hb hn path canon kids st sU hroot hbase hg hnd hfresh h0 hU
  exact ⟨sL, cs.reverse.flatten, h1, by simp [ResSt.out, h2]⟩

/-! ### … and in the breadth-first walker -/

open WalkB WalkLimB C01 in
/-- `visit_dir(root)` and the queue loop under any plan: `check_file` over the level order, stopping at the limit -/
theorem bfs_streamed_any_plan (p : Plan) (rp : RootParams) (path canon : Str) (kids : List Node) (st : WSt)
    (hq : st.walk.queue = [])
    (hg : goodL kids) (hnd : (inodesL kids).Nodup) (hfresh : ∀ i ∈ inodesL kids, i ∉ st.walk.visited) :
    match foldLim p st.res (checksL p rp (levelOrder rp [rootItem path canon kids])) with
    | .error a => bfsRoot p rp path canon kids st = .error a
    | .ok rs' => ∃ w', bfsRoot p rp path canon kids st = .ok { res := rs', walk := w' } ∧
        (limitReached p rs' = false → ∀ i, i ∈ w'.visited → i ∈ st.walk.visited ∨ i ∈ inodesL kids) := by
  rw [bfsRoot_eq_drain p rp path canon kids st hq]
  have hsz : qSize [rootItem path canon kids] ≤ Node.countDirsList kids + 1 + 1 := by
    rw [qSize_cons, qSize_nil]; simp only [rootItem]; omega
  obtain ⟨he, _⟩ := bfsEvents_enough rp _ _ hsz
  have hqi : qInos [rootItem path canon kids] = inodesL kids := by simp [qInos, rootItem]
  have h := drain_lim p rp (Node.countDirsList kids + 1 + 1)
    { st with walk := { st.walk with queue := [rootItem path canon kids] } }
    (by intro it hit; simp only [List.mem_singleton] at hit; subst hit; exact hg)
    (by simpa [hqi] using hnd)
    (by simpa [hqi] using hfresh)
  simp only [he, hqi] at h
  exact h

open WalkB WalkLimB C01 in
/-- **LIMIT N without ORDER BY in breadth-first mode**: the first min(N, M) rows of the unlimited
    breadth-first search, in the same order -/
theorem bfs_streamed_limit (p : Plan) (rp : RootParams) (hb : p.q.isBuffered = false) (hn : 0 < p.q.limit)
    (path canon : Str) (kids : List Node) (st sU : WSt) (hq : st.walk.queue = [])
    (hg : goodL kids) (hnd : (inodesL kids).Nodup) (hfresh : ∀ i ∈ inodesL kids, i ∉ st.walk.visited)
    (h0 : st.res.found ≤ p.q.limit)
    (hU : bfsRoot (unlimited p) rp path canon kids st = .ok sU) :
    ∃ sL cs, bfsRoot p rp path canon kids st = .ok sL ∧
      sU.res.outRev = cs ++ sL.res.outRev ∧
      sU.res.found = sL.res.found + cs.length ∧
      sL.res.found = min p.q.limit sU.res.found := by
  have hu := bfs_streamed_any_plan (unlimited p) rp path canon kids st hq hg hnd hfresh
  have hlm := bfs_streamed_any_plan p rp path canon kids st hq hg hnd hfresh
  rw [checksL_unlimited] at hu
  cases hf : foldLim (unlimited p) st.res (checksL p rp (levelOrder rp [rootItem path canon kids])) with
  | error a => rw [hf] at hu; rw [hu] at hU; contradiction
  | ok rsU =>
    rw [hf] at hu
    obtain ⟨wU, hwU, _⟩ := hu
    rw [hwU] at hU
    injection hU with hU
    subst hU
    obtain ⟨rsL, cs, h1, h2, h3, h4⟩ := lim_is_prefix p hb hn _ st.res rsU h0 hf
    rw [h1] at hlm
    obtain ⟨wL, hwL, _⟩ := hlm
    exact ⟨{ res := rsL, walk := wL }, cs, hwL, h2, h3, h4⟩

/-! ### several roots under a streamed LIMIT -/

open WalkB WalkLimB C01 in
/-- one plain root under any plan, either traversal: the result is `check_file` over the root's events,
    stopping at the limit; while the limit is not reached the traversal state only gains inode numbers of
    that root -/
theorem one_root_lim (p : Plan) (r : RootRec) (st : WSt)
    (hnd : r.inos.Nodup) (hfresh : ∀ i ∈ r.inos, i ∉ st.walk.visited) (hg : goodL r.kids) (hc : 1 < r.canon.length) :
    match foldLim p st.res (checksL p r.rp r.events) with
    | .error a => searchRoot p r.root (.dir r.e true r.kids r.canon) st = .error a
    | .ok rs' => ∃ w', searchRoot p r.root (.dir r.e true r.kids r.canon) st = .ok { res := rs', walk := w' } ∧
        (limitReached p rs' = false → ∀ i, i ∈ w'.visited → i ∈ st.walk.visited ∨ i ∈ r.inos) := by
  have hroot : r.e.ino ∉ st.walk.visited := hfresh _ (by simp [RootRec.inos])
  have hnd' := List.nodup_cons.mp hnd
  have hmv := markVisited_fresh { st.walk with queue := [] } r.e.ino hroot
  have hfr2 : ∀ i ∈ inodesL r.kids, i ∉ (st.walk.visited ++ [r.e.ino]) := by
    intro i hi hv
    simp only [List.mem_append, List.mem_singleton] at hv
    rcases hv with h | h
    · exact hfresh i (by simp [RootRec.inos, hi]) h
    · subst h; exact hnd'.1 hi
  by_cases hb : r.rp.bfs = true
  · rw [searchRoot_bfs p r.root r.e r.kids r.canon st hb]
    simp only [RootRec.events, hb, if_true]
    rw [hmv]
    have h := bfs_streamed_any_plan p r.rp r.root.path r.canon r.kids
      { st with walk := { st.walk with queue := [], visited := st.walk.visited ++ [r.e.ino] } } rfl hg hnd'.2 hfr2
    simp only at h
    cases hf : foldLim p st.res (checksL p r.rp (levelOrder r.rp [rootItem r.root.path r.canon r.kids])) with
    | error a => rw [hf] at h; exact h
    | ok rs' =>
      rw [hf] at h
      obtain ⟨w', h1, h4⟩ := h
      refine ⟨w', h1, fun hnr i hi => ?_⟩
      rcases h4 hnr i hi with h | h
      · simp only [List.mem_append, List.mem_singleton] at h
        rcases h with h | h
        · exact Or.inl h
        · right; subst h; simp [RootRec.inos]
      · right; simp [RootRec.inos, h]
  · have hbf : r.rp.bfs = false := by cases h : r.rp.bfs <;> simp_all
    simp only [RootRec.events, hbf, Bool.false_eq_true, if_false]
    have hsr : searchRoot p r.root (.dir r.e true r.kids r.canon) st =
        visitDirD p r.rp r.root.path r.canon true r.kids
          { st with walk := { st.walk with queue := [], visited := st.walk.visited ++ [r.e.ino] } } := by
      simp only [searchRoot, RootRec.rp] at hbf ⊢
      simp only [hbf, Bool.false_eq_true, if_false, hmv]
    rw [hsr]
    have hd : calcDepth r.canon - r.rp.base + 1 = 1 := by simp [RootRec.rp, rootParams]
    have h := dfs_list_lim p r.rp r.root.path r.canon 1 hc (by simp [RootRec.rp, rootParams]) hd r.kids
      { st with walk := { st.walk with queue := [], visited := st.walk.visited ++ [r.e.ino] } } hg hnd'.2 hfr2
    rw [visitDirD]
    simp only [Bool.not_true, Bool.false_eq_true, if_false, hd]
    cases hf : foldLim p st.res (checksL p r.rp (eventsL r.rp r.root.path r.canon 1 r.kids)) with
    | error a => rw [hf] at h; exact h
    | ok rs' =>
      rw [hf] at h
      obtain ⟨w', hsub, h1⟩ := h
      refine ⟨w', h1, fun _ i hi => ?_⟩
      rcases hsub i hi with h | h
      · simp only [List.mem_append, List.mem_singleton] at h
        rcases h with h | h
        · exact Or.inl h
        · right; subst h; simp [RootRec.inos]
      · right; simp [RootRec.inos, h]

open WalkB WalkLimB C01 in
/-- once the limit is reached a further root changes nothing in the result (whatever its inode numbers) -/
theorem one_root_reached (p : Plan) (r : RootRec) (st : WSt) (h : limitReached p st.res = true) :
    ∃ w', searchRoot p r.root (.dir r.e true r.kids r.canon) st = .ok { res := st.res, walk := w' } := by
  simp only [searchRoot]
  by_cases hb : (rootParams r.root r.canon).bfs = true
  · simp only [hb, if_true, visitDirB, Bool.not_true, Bool.false_eq_true, if_false]
    rw [visitKidsB_reached p _ _ _ _ _ (by simpa using h)]
    exact drain_reached p _ _ _ (by simpa using h)
  · simp only [hb, Bool.false_eq_true, if_false]
    rw [visitDirD]
    simp only [Bool.not_true, Bool.false_eq_true, if_false]
    rw [visitKidsD_reached p _ _ _ _ _ (by simpa using h)]
    exact ⟨_, rfl⟩

/-- the roots one after the other under any plan: each reports its own events until the limit is reached -/
def foldRootsLim (p : Plan) : ResSt → List C01.RootRec → Except Abort ResSt
  | rs, [] => .ok rs
  | rs, r :: t =>
    match foldLim p rs (checksL p r.rp r.events) with
    | .error a => .error a
    | .ok rs' => foldRootsLim p rs' t

open C01 in
theorem roots_reached (p : Plan) (fs : FSnap) (multi : Bool) :
    ∀ (recs : List RootRec) (st : WSt), (∀ r ∈ recs, PlainRoot p fs r) → limitReached p st.res = true →
      ∃ w', searchRoots p fs multi (recs.map (·.root)) st = .ok { res := st.res, walk := w' }
  | [], st, _, _ => ⟨st.walk, by simp [searchRoots]⟩
  | r :: t, st, hp, h => by
    obtain ⟨h1, h2, h3, h4, h5, h6, _, _⟩ := hp r (by simp)
    obtain ⟨w1, hw1⟩ := one_root_reached p r st h
    simp only [List.map_cons, searchRoots, h1, h2, h3, h4, h5, h6, Bool.false_eq_true, if_false, Bool.or_self, hw1]
    exact roots_reached p fs multi t { res := st.res, walk := w1 } (fun x hx => hp x (by simp [hx])) h

open C01 in
/-- **several disjoint roots under any plan** (limited or not): the roots are searched one after the other,
    each checking its own entries, until the streamed limit is reached; after that no root is examined any
    more -/
theorem roots_streamed_any_plan (p : Plan) (fs : FSnap) (multi : Bool) :
    ∀ (recs : List RootRec) (st : WSt), (∀ r ∈ recs, PlainRoot p fs r) →
      (recs.flatMap RootRec.inos).Nodup → (∀ i ∈ recs.flatMap RootRec.inos, i ∉ st.walk.visited) →
      match foldRootsLim p st.res recs with
      | .error a => searchRoots p fs multi (recs.map (·.root)) st = .error a
      | .ok rs' => ∃ w', searchRoots p fs multi (recs.map (·.root)) st = .ok { res := rs', walk := w' }
  | [], st, _, _, _ => by
    simp only [foldRootsLim, List.map_nil, searchRoots]
    exact ⟨st.walk, rfl⟩
  | r :: t, st, hp, hnd, hfr => by
    obtain ⟨h1, h2, h3, h4, h5, h6, h7, h8⟩ := hp r (by simp)
    simp only [List.flatMap_cons] at hnd hfr
    obtain ⟨hndr, hndt, hdisj⟩ := List.nodup_append.mp hnd
    have hone := one_root_lim p r st hndr (fun i hi => hfr i (List.mem_append.mpr (Or.inl hi))) h7 h8
    simp only [foldRootsLim, List.map_cons, searchRoots, h1, h2, h3, h4, h5, h6, Bool.false_eq_true, if_false, Bool.or_self]
    cases hf : foldLim p st.res (checksL p r.rp r.events) with
    | error a => rw [hf] at hone; simp only at hone ⊢; rw [hone]
    | ok rs1 =>
      rw [hf] at hone
      obtain ⟨w1, hs1, hv1⟩ := hone
      simp only [hs1]
      by_cases hr : limitReached p rs1 = true
      · -- the limit was reached inside this root: the remaining roots change nothing
        have hrest : foldRootsLim p rs1 t = .ok rs1 := by
          clear hs1 hv1 hf hp hnd hfr hndt hdisj
          induction t with
          | nil => rfl
          | cons x xs ih => simp only [foldRootsLim, foldLim_reached p rs1 hr]; exact ih
        rw [hrest]
        exact roots_reached p fs multi t { res := rs1, walk := w1 } (fun x hx => hp x (by simp [hx])) hr
      · have hr' : limitReached p rs1 = false := by simpa using hr
        exact roots_streamed_any_plan p fs multi t { res := rs1, walk := w1 } (fun x hx => hp x (by simp [hx])) hndt
          (by intro i hi hv
              rcases hv1 hr' i hv with h | h
              · exact hfr i (List.mem_append.mpr (Or.inr hi)) h
              · exact hdisj i h i hi rfl)

/-- the checks of several roots form one list: the fold over the roots is the fold over their concatenation -/
theorem foldRootsLim_flat (p : Plan) (recs : List C01.RootRec) (rs : ResSt) :
    foldRootsLim p rs recs = foldLim p rs (recs.flatMap fun r => checksL p r.rp r.events) := by
  induction recs generalizing rs with
  | nil => rfl
  | cons r t ih =>
    simp only [foldRootsLim, List.flatMap_cons, foldLim_append]
    cases foldLim p rs (checksL p r.rp r.events) with
    | error a => rfl
    | ok rs' => exact ih rs'

open C01 in
/-- **LIMIT N without ORDER BY over several roots**: whenever the unlimited search of all the roots succeeds
    with M rows, the limited search succeeds with exactly min(N, M) rows — the first chunks the unlimited
    search wrote, in the same order (roots in the order given, each in its own traversal mode) -/
theorem roots_streamed_limit (p : Plan) (fs : FSnap) (multi : Bool) (hb : p.q.isBuffered = false) (hn : 0 < p.q.limit)
    (recs : List RootRec) (st sU : WSt) (hp : ∀ r ∈ recs, PlainRoot p fs r)
    (hnd : (recs.flatMap RootRec.inos).Nodup) (hfr : ∀ i ∈ recs.flatMap RootRec.inos, i ∉ st.walk.visited)
    (h0 : st.res.found ≤ p.q.limit)
    (hU : searchRoots (unlimited p) fs multi (recs.map (·.root)) st = .ok sU) :
    ∃ sL cs, searchRoots p fs multi (recs.map (·.root)) st = .ok sL ∧
      sU.res.outRev = cs ++ sL.res.outRev ∧
      sU.res.found = sL.res.found + cs.length ∧
      sL.res.found = min p.q.limit sU.res.found := by
  have hpU : ∀ r ∈ recs, PlainRoot (unlimited p) fs r := hp
  have hu := roots_streamed_any_plan (unlimited p) fs multi recs st hpU hnd hfr
  have hlm := roots_streamed_any_plan p fs multi recs st hp hnd hfr
  rw [foldRootsLim_flat] at hu hlm
  have hsame : (recs.flatMap fun r => checksL (unlimited p) r.rp r.events) = (recs.flatMap fun r => checksL p r.rp r.events) := rfl
  rw [hsame] at hu
  cases hf : foldLim (unlimited p) st.res (recs.flatMap fun r => checksL p r.rp r.events) with
  | error a => rw [hf] at hu; rw [hu] at hU; contradiction
  | ok rsU =>
    rw [hf] at hu
    obtain ⟨wU, hwU⟩ := hu
    rw [hwU] at hU
    injection hU with hU
    subst hU
    obtain ⟨rsL, cs, h1, h2, h3, h4⟩ := lim_is_prefix p hb hn _ st.res rsU h0 hf
    rw [h1] at hlm
    obtain ⟨wL, hwL⟩ := hlm
    exact ⟨{ res := rsL, walk := wL }, cs, hwL, h2, h3, h4⟩

/-- non-vacuity: a plan with a streamed limit (`select name from . limit 2`) -/
example : ∃ q : Query, q.isBuffered = false ∧ 0 < q.limit :=
  ⟨{ fields := [.field false .Name], roots := [], expr := none, grouping := [], ordering := [], orderingAsc := [],
     limit := 2, format := .Tabs }, by decide, by decide⟩

/-- once the limit is reached nothing more is examined -/
theorem streamed_limit_stops (p : Plan) (rs : ResSt) (h : limitReached p rs = true) (es : List Entry) :
    foldLim p rs es = .ok rs := foldLim_reached p rs h es

/-- `limit 0` / no limit / a buffered query: the streamed cut-off never fires -/
theorem no_streamed_limit (p : Plan) (h : p.q.isBuffered = true ∨ p.q.limit = 0) (rs : ResSt) :
    limitReached p rs = false := noLimit_false p h rs

/-! ### LIMIT over grouped rows (D85 fix)

`finish` sorts the group rows, splits them into runs of ties and hands the run lengths to `cutRuns`; the rows
printed are `rows.take (kept runs).sum`, of which the implementation shows all but part of the last run. -/

/-- the runs that are kept are the first runs of the sorted result, in order -/
theorem grouped_limit_keeps_prefix (lim : Nat) (runs : List Nat) : (cutRuns lim runs).1 <+: runs := by
  induction runs generalizing lim with
  | nil => simp [cutRuns]
  | cons r rs ih =>
    unfold cutRuns
    split
    · exact ⟨rs, by simp⟩
    · split
      · exact ⟨rs, by simp⟩
      · obtain ⟨t, ht⟩ := ih (lim - r)
        exact ⟨t, by simp [ht]⟩

/-- **the cut falls on a run boundary** (`cut = 0`): what is kept has at most `lim` rows, and exactly `lim` unless
    everything is kept — `min(lim, rows)` rows are shown, and they are the first ones -/
theorem grouped_limit_on_boundary (lim : Nat) (runs : List Nat) (hl : 0 < lim) (h : (cutRuns lim runs).2 = 0) :
    (cutRuns lim runs).1.sum ≤ lim ∧ ((cutRuns lim runs).1.sum = lim ∨ (cutRuns lim runs).1 = runs) := by
  induction runs generalizing lim with
  | nil => simp [cutRuns]
  | cons r rs ih =>
    by_cases h1 : lim < r
    · simp [cutRuns, h1] at h; omega
    · by_cases h2 : lim = r
      · subst h2
        simp [cutRuns]
      · have hpos : 0 < lim - r := by omega
        have e : cutRuns lim (r :: rs) = (r :: (cutRuns (lim - r) rs).1, (cutRuns (lim - r) rs).2) := by
          simp [cutRuns, h1, h2]
        rw [e] at h ⊢
        have := ih (lim - r) hpos h
        simp only [List.sum_cons]
        refine ⟨by omega, ?_⟩
        rcases this.2 with h3 | h3
        · left; omega
        · right; rw [h3]

/-- **the cut falls inside a run of ties** (`cut = c > 0`): the kept runs are whole runs holding fewer than `lim` rows,
    followed by the run that straddles the cut, of which `c` rows are shown — `lim` rows in all; which rows of that run
    is not determined (the property allows any resolution of a tie at the cut) -/
theorem grouped_limit_inside_run (lim : Nat) (runs : List Nat) (h : (cutRuns lim runs).2 ≠ 0) :
    ∃ pre r, (cutRuns lim runs).1 = pre ++ [r] ∧ pre.sum + (cutRuns lim runs).2 = lim ∧ (cutRuns lim runs).2 < r := by
  induction runs generalizing lim with
  | nil => simp [cutRuns] at h
  | cons r rs ih =>
    by_cases h1 : lim < r
    · exact ⟨[], r, by simp [cutRuns, h1], by simp [cutRuns, h1], by simp [cutRuns, h1]⟩
    · by_cases h2 : lim = r
      · subst h2
        simp [cutRuns] at h
      · have e : cutRuns lim (r :: rs) = (r :: (cutRuns (lim - r) rs).1, (cutRuns (lim - r) rs).2) := by
          simp [cutRuns, h1, h2]
        rw [e] at h ⊢
        obtain ⟨pre, r', e1, e2, e3⟩ := ih (lim - r) h
        refine ⟨r :: pre, r', by simp [e1], ?_, e3⟩
        simp only [List.sum_cons]
        omega

example : cutRuns 3 [2, 2, 1] = ([2, 2], 1) ∧ cutRuns 4 [2, 2, 1] = ([2, 2], 0) ∧ cutRuns 9 [2, 2, 1] = ([2, 2, 1], 0) := by decide

end Fsel.C06
