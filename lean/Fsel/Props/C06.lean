/-
  C06  LIMIT N returns min(N, matches) rows, and with ORDER BY the true top N.

  Theorems (every insertion history, every N ≥ 1, every total preorder):
  * `limit_is_take` — the limited ordered result is exactly the first N rows of the unlimited ordered
    result of the same history (stronger than the property asks: ties at the cut are resolved as in the
    unlimited run);
  * `limit_length` — it has min(N, M) rows;
  * `limit_zero_unlimited` — `limit 0`/absent limit builds the limitless buffer.
  The unbuffered path (`limitReached` in the walker) is covered by correspondence and by the oracle
  "sub-multiset of the unlimited run with min(N, M) rows".
-/
import Fsel.Props.C05

namespace Fsel.C06
open Fsel TopNL CriteriaL

variable {K V : Type}

/-- echelon layer with limit `n ≥ 1` after history `xs` = bounded abstract insertion -/
theorem limited_flatten (le : K → K → Bool) (hp : TotalPreorder le) (n : Nat) (hn : 0 < n) (xs : List (K × V)) :
    (insertAll le n xs).ech.flatten = xs.foldl (insN le n) [] := by
  unfold insertAll
  suffices h : ∀ (t : TopNState K V), EchOK le t.ech → t.count = t.ech.flatten.length → t.limit = some n → t.count ≤ n →
      (xs.foldl (fun t x => t.insert le x.1 x.2) t).ech.flatten = xs.foldl (insN le n) t.ech.flatten by
    have hne : (n == 0) = false := by cases n with | zero => omega | succ m => rfl
    have := h (TopNState.new n) (echOK_nil le) (by simp [TopNState.new, Ech.flatten])
      (by simp [TopNState.new, hne]) (by simp [TopNState.new])
    simpa [TopNState.new, Ech.flatten] using this
  induction xs with
  | nil => intro t _ _ _ _; rfl
  | cons x xs ih =>
    intro t h1 h2 h3 h4
    simp only [List.foldl_cons]
    obtain ⟨r1, r2, r3, r4, r5⟩ := insert_refines le hp t x.1 x.2 h1 h2 n h3 h4
    rw [ih _ r2 r3 r4 r5, r1]

/-- LIMIT N under ORDER BY: the first N rows of the fully sorted result -/
theorem limit_is_take (le : K → K → Bool) (hp : TotalPreorder le) (n : Nat) (hn : 0 < n) (xs : List (K × V)) :
    (insertAll le n xs).values = (insertAll le 0 xs).values.take n := by
  unfold TopNState.values
  rw [limited_flatten le hp n hn xs, (C05.limitless_flatten le hp xs).1]
  rw [(foldl_insN le n xs [] (by simp)).1, List.map_take]

/-- … hence min(N, M) rows -/
theorem limit_length (le : K → K → Bool) (hp : TotalPreorder le) (n : Nat) (hn : 0 < n) (xs : List (K × V)) :
    (insertAll le n xs).values.length = min n xs.length := by
  rw [limit_is_take le hp n hn xs, List.length_take]
  have := (C05.ordered_perm le hp xs).length_eq
  simp at this
  omega

/-- `limit 0` (or no limit) is the unlimited buffer -/
theorem limit_zero_unlimited : (TopNState.new 0 : TopNState K V).limit = none := rfl

/-- non-vacuity: a concrete history with a tie straddling the cut -/
example : (insertAll (fun (a b : Nat) => decide (a ≤ b)) 2 [(3, "c"), (1, "a"), (1, "b"), (0, "z")]).values = ["z", "a"] := by
  decide

end Fsel.C06
