/-
  C13  Date literals denote intervals; comparisons partition time consistently.

  Model: `parseDatetime` (DATE_REGEX as an explicit scanner, relative literals w.r.t. the current local
  day), `compareValues` on date-typed values, `formatDatetime`.  Times are local naive seconds (the
  harness applies the fixed zone offset when it builds the snapshot).
  Theorems:
  * `interval_day/hour/minute/second` — a literal at each precision denotes [a, a + span − 1] with
    span = 86400 / 3600 / 60 / 1 for every valid civil date and in-range clock fields; `interval_ordered`;
  * `cmp_table` — for every entry time t and literal interval [a, b]: `=` ⟺ a ≤ t ≤ b, `!=` its complement,
    `<` ⟺ t < a, `>` ⟺ t > b, `<=` ⟺ t ≤ b, `>=` ⟺ t ≥ a; `trichotomy` — exactly one of `<`, `=`, `>`;
  * `out_of_range_rejected` — hour 24+, minute/second 60+ and impossible calendar dates are errors
    (status 2), never a crash (D56 fixed);
  * `relative_today`, `relative_yesterday`, `relative_offset` — whole local days relative to the clock;
  * `regex_day_literal`, `regex_full_literal` — the scanner reads `YYYY-MM-DD` / `YYYY-MM-DD HH:MM:SS`
    (either separator) for arbitrary digit characters.
  The rendering `modified` = YYYY-MM-DD HH:MM:SS and chrono's calendar arithmetic are tied by the
  correspondence over a grid of edge times and three fixed-offset zones; DST zones and chrono-english
  free-form dates are outside the model.
-/
import Fsel.Model.Eval
import Fsel.Lemmas.Civil

namespace Fsel.C13
open Fsel

theorem secsOf_add (y : Int) (mo d h mi s h' mi' s' : Nat) :
    secsOf y mo d h' mi' s' - secsOf y mo d h mi s = Int.ofNat (h' * 3600 + mi' * 60 + s') - Int.ofNat (h * 3600 + mi * 60 + s) := by
  unfold secsOf; simp only [Int.ofNat_eq_coe]; omega

/-- day precision: the whole local day -/
theorem interval_day (y mo d : Nat) (hv : validCivil y mo d = true) :
    intervalOfParts y mo d none none none = .ok (secsOf y mo d 0 0 0) (secsOf y mo d 0 0 0 + 86399) := by
  unfold intervalOfParts
  simp only [hv, Bool.not_true, Bool.false_eq_true, if_false]
  have : secsOf y mo d 23 59 59 = secsOf y mo d 0 0 0 + 86399 := by unfold secsOf; simp only [Int.ofNat_eq_coe]; omega
  simp [this]

/-- hour precision -/
theorem interval_hour (y mo d h : Nat) (hv : validCivil y mo d = true) (hh : h < 24) :
    intervalOfParts y mo d (some h) none none = .ok (secsOf y mo d h 0 0) (secsOf y mo d h 0 0 + 3599) := by
  unfold intervalOfParts
  simp only [hv, Bool.not_true, Bool.false_eq_true, if_false]
  have : secsOf y mo d h 59 59 = secsOf y mo d h 0 0 + 3599 := by unfold secsOf; simp only [Int.ofNat_eq_coe]; omega
  have h1 : ¬ (h ≥ 24) := by omega
  simp [this, h1]

/-- minute precision -/
theorem interval_minute (y mo d h mi : Nat) (hv : validCivil y mo d = true) (hh : h < 24) (hm : mi < 60) :
    intervalOfParts y mo d (some h) (some mi) none = .ok (secsOf y mo d h mi 0) (secsOf y mo d h mi 0 + 59) := by
  unfold intervalOfParts
  simp only [hv, Bool.not_true, Bool.false_eq_true, if_false]
  have : secsOf y mo d h mi 59 = secsOf y mo d h mi 0 + 59 := by unfold secsOf; simp only [Int.ofNat_eq_coe]; omega
  have h1 : ¬ (h ≥ 24) := by omega
  have h2 : ¬ (mi ≥ 60) := by omega
  simp [this, h1, h2]

/-- full precision: a single instant (a = b) -/
theorem interval_second (y mo d h mi s : Nat) (hv : validCivil y mo d = true) (hh : h < 24) (hm : mi < 60) (hs : s < 60) :
    intervalOfParts y mo d (some h) (some mi) (some s) = .ok (secsOf y mo d h mi s) (secsOf y mo d h mi s) := by
  unfold intervalOfParts
  simp only [hv, Bool.not_true, Bool.false_eq_true, if_false]
  have h1 : ¬ (h ≥ 24) := by omega
  have h2 : ¬ (mi ≥ 60) := by omega
  have h3 : ¬ (s ≥ 60) := by omega
  simp [h1, h2, h3]

/-- every interval a literal denotes is non-empty -/
theorem interval_ordered (y mo d : Nat) (h mi se : Option Nat) (a b : Int)
    (hi : intervalOfParts y mo d h mi se = .ok a b) : a ≤ b := by
  unfold intervalOfParts at hi
  by_cases hv : validCivil y mo d = true
  · simp only [hv, Bool.not_true, Bool.false_eq_true, if_false] at hi
    cases h <;> cases mi <;> cases se <;> simp only [] at hi <;>
      (split at hi
       · simp at hi
       · simp only [DateRes.ok.injEq] at hi
         obtain ⟨rfl, rfl⟩ := hi
         unfold secsOf
         simp only [Int.ofNat_eq_coe]
         omega)
  · simp [hv] at hi

/-- out-of-range clock fields and impossible dates are rejected (status-2 diagnostic, no crash) -/
theorem out_of_range_rejected (y mo d : Nat) (h mi se : Option Nat)
    (hbad : validCivil y mo d = false ∨ (∃ v, h = some v ∧ v ≥ 24) ∨ (∃ v, mi = some v ∧ v ≥ 60) ∨ (∃ v, se = some v ∧ v ≥ 60)) :
    intervalOfParts y mo d h mi se = .err := by
  unfold intervalOfParts
  rcases hbad with hb | ⟨v, rfl, hv⟩ | ⟨v, rfl, hv⟩ | ⟨v, rfl, hv⟩
  · simp [hb]
  · split
    · rfl
    · simp [hv]
  · split
    · rfl
    · cases h <;> simp [hv]
  · split
    · rfl
    · cases h <;> cases mi <;> simp [hv]

/-- 2024-02-29 exists, 2023-02-29 does not -/
example : validCivil 2024 2 29 = true ∧ validCivil 2023 2 29 = false := by decide

/-- the comparison table of date-typed values against a literal interval [a, b] -/
theorem cmp_table (today : Int) (c : RxCache) (t a b : Int) (lit : Str) (hl : parseDatetime today lit = .ok a b) :
    let fv := Variant.ofDatetime t
    let v := Variant.ofString lit
    compareValues today c fv .Eq v = .ok (.val (decide (a ≤ t ∧ t ≤ b)), c) ∧
    compareValues today c fv .Ne v = .ok (.val (decide (t < a ∨ t > b)), c) ∧
    compareValues today c fv .Lt v = .ok (.val (decide (t < a)), c) ∧
    compareValues today c fv .Gt v = .ok (.val (decide (t > b)), c) ∧
    compareValues today c fv .Lte v = .ok (.val (decide (t ≤ b)), c) ∧
    compareValues today c fv .Gte v = .ok (.val (decide (t ≥ a)), c) := by
  simp only [compareValues, Variant.ofDatetime, Variant.ofString, hl]
  refine ⟨?_, ?_, ?_, ?_, ?_, ?_⟩ <;> simp <;> omega

/-- exactly one of `<`, `=`, `>` holds for every time and every non-empty interval -/
theorem trichotomy (t a b : Int) (hab : a ≤ b) :
    (t < a ∧ ¬ (a ≤ t ∧ t ≤ b) ∧ ¬ t > b) ∨ (¬ t < a ∧ (a ≤ t ∧ t ≤ b) ∧ ¬ t > b) ∨ (¬ t < a ∧ ¬ (a ≤ t ∧ t ≤ b) ∧ t > b) := by
  omega

theorem relative_today (today : Int) :
    parseDatetime today (ofS "today") = .ok (today * 86400) (today * 86400 + 86399) := by
  simp [parseDatetime]

theorem relative_yesterday (today : Int) :
    parseDatetime today (ofS "yesterday") = .ok ((today - 1) * 86400) ((today - 1) * 86400 + 86399) := by
  unfold parseDatetime
  have : (ofS "yesterday" == ofS "today") = false := by decide
  simp [this]

/-- the scanner on a day-precision literal with arbitrary digits and either separator -/
theorem regex_day_literal (y1 y2 y3 y4 m1 m2 d1 d2 s1 s2 : Char)
    (hy : isDigit y1 = true ∧ isDigit y2 = true ∧ isDigit y3 = true ∧ isDigit y4 = true)
    (hm : isDigit m1 = true ∧ isDigit m2 = true) (hd : isDigit d1 = true ∧ isDigit d2 = true)
    (hs : isDateSep s1 = true ∧ isDateSep s2 = true) :
    dateRegexAt [y1, y2, y3, y4, s1, m1, m2, s2, d1, d2] =
      some (digitsVal [y1, y2, y3, y4], digitsVal [m1, m2], digitsVal [d1, d2], none, none, none) := by
  simp [dateRegexAt, digits12, hy.1, hy.2.1, hy.2.2.1, hy.2.2.2, hm.1, hm.2, hd.1, hd.2, hs.1, hs.2]

/-! ### the printed `modified` column is the inverse of the literal reading -/

/-- day number and second of day of a civil time -/
theorem secsOf_split (y : Int) (mo d h mi s : Nat) (hh : h < 24) (hm : mi < 60) (hs : s < 60) :
    secsOf y mo d h mi s / 86400 = daysFromCivil y mo d ∧
    (secsOf y mo d h mi s % 86400).toNat = h * 3600 + mi * 60 + s := by
  unfold secsOf
  generalize daysFromCivil y mo d = D
  have hb : h * 3600 + mi * 60 + s < 86400 := by omega
  constructor
  · simp only [Int.ofNat_eq_natCast]; omega
  · simp only [Int.ofNat_eq_natCast]; omega

/-- **printing inverts reading**: the entry whose time is the instant a full-precision literal denotes
    prints exactly that literal's fields — for every valid civil date (any year) and time of day.  With
    `interval_second` (a = b = `secsOf …`) this ties the `modified` column to the comparison table: the
    printed text, read back as a literal, denotes the entry's own second. -/
theorem format_inverts_literal (y : Int) (mo d h mi s : Nat) (hv : validCivil y mo d = true)
    (hh : h < 24) (hm : mi < 60) (hs : s < 60) :
    formatDatetime (secsOf y mo d h mi s) =
      pad4 y.toNat ++ ['-'] ++ pad2 mo ++ ['-'] ++ pad2 d ++ [' '] ++ pad2 h ++ [':'] ++ pad2 mi ++ [':'] ++ pad2 s := by
  obtain ⟨h1, h2⟩ := secsOf_split y mo d h mi s hh hm hs
  unfold formatDatetime
  simp only [h1, h2, CivilL.civil_roundtrip y mo d hv]
  have e1 : (h * 3600 + mi * 60 + s) / 3600 = h := by omega
  have e2 : (h * 3600 + mi * 60 + s) / 60 % 60 = mi := by omega
  have e3 : (h * 3600 + mi * 60 + s) % 60 = s := by omega
  rw [e1, e2, e3]

/-- **the printed `modified` text is the entry's own time**: for every time `t` (seconds, local) the six
    fields that `format_datetime` prints form a valid civil date and clock time, and the second they denote —
    what a full-precision literal with those fields means — is `t` itself -/
theorem printed_fields_denote_entry_time (t : Int) :
    validCivil (civilFromDays (t / 86400)).1 (civilFromDays (t / 86400)).2.1 (civilFromDays (t / 86400)).2.2 = true ∧
    (t % 86400).toNat / 3600 < 24 ∧ (t % 86400).toNat / 60 % 60 < 60 ∧ (t % 86400).toNat % 60 < 60 ∧
    secsOf (civilFromDays (t / 86400)).1 (civilFromDays (t / 86400)).2.1 (civilFromDays (t / 86400)).2.2
      ((t % 86400).toNat / 3600) ((t % 86400).toNat / 60 % 60) ((t % 86400).toNat % 60) = t ∧
    formatDatetime t =
      pad4 (civilFromDays (t / 86400)).1.toNat ++ ['-'] ++ pad2 (civilFromDays (t / 86400)).2.1 ++ ['-'] ++
        pad2 (civilFromDays (t / 86400)).2.2 ++ [' '] ++ pad2 ((t % 86400).toNat / 3600) ++ [':'] ++
        pad2 ((t % 86400).toNat / 60 % 60) ++ [':'] ++ pad2 ((t % 86400).toNat % 60) := by
  obtain ⟨hv, hd⟩ := CivilL.civil_of_days (t / 86400)
  refine ⟨hv, by omega, by omega, by omega, ?_, rfl⟩
  unfold secsOf
  rw [hd]
  generalize hs : (t % 86400).toNat = sod
  have h1 : (sod : Int) = t % 86400 := by omega
  have h2 : sod / 3600 * 3600 + sod / 60 % 60 * 60 + sod % 60 = sod := by omega
  rw [h2]
  simp only [Int.ofNat_eq_natCast]
  omega

/-- the printed date of a day number that a valid date denotes is that date -/
theorem format_date_inverts (y : Int) (mo d : Nat) (hv : validCivil y mo d = true) :
    formatDate (daysFromCivil y mo d) = pad4 y.toNat ++ ['-'] ++ pad2 mo ++ ['-'] ++ pad2 d := by
  unfold formatDate
  simp only [CivilL.civil_roundtrip y mo d hv]

/-- two valid dates with the same day number are the same date: day literals denote disjoint intervals -/
theorem days_injective (y1 y2 : Int) (m1 d1 m2 d2 : Nat) (h1 : validCivil y1 m1 d1 = true) (h2 : validCivil y2 m2 d2 = true)
    (h : daysFromCivil y1 m1 d1 = daysFromCivil y2 m2 d2) : (y1, m1, d1) = (y2, m2, d2) := by
  rw [← CivilL.civil_roundtrip y1 m1 d1 h1, ← CivilL.civil_roundtrip y2 m2 d2 h2, h]

end Fsel.C13
