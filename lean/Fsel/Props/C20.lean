/-
  C20  Ignore-file options remove exactly the ignored entries.

  Model: `Ignore.lean`.  An entry that the rules ignore is skipped whole by `visit_dir` (no row, no descent, no
  inode recorded), so walking with ignore rules IS walking the pruned tree; `Main.searchRoots` is defined that
  way and every theorem about the walker (C01, C17) applies to the pruned tree.
  Theorems (every tree, every rule set, every depth window):
  * `pruned_events_are_the_visible_events`: the entries reported for the pruned tree are the entries reported
    for the whole tree minus exactly those that are ignored themselves or lie below an ignored directory
    (`markI … hidden`) — "every other entry is returned exactly as without the option";
  * `no_rules_no_change`: with no rule set in force nothing is removed;
  * `docker_last_match_wins` (D53 fix): the verdict of a `.dockerignore` is that of the last pattern that
    matches (excluded unless that pattern is an exception), `false` when none matches;
    `hg_any_pattern`: an `.hgignore` ignores what any of its patterns matches;
  * `option_table`: option on → rules apply, `no…` → they do not, neither → the configuration default (absent:
    off);
  * `verdict_from_own_location`, `link_judged_by_its_own_name`: the verdict depends on the entry only through the canonical path of its directory plus its name (and git's
    own verdict), hence not on how the root was spelled.
  Not theorems: that the compiled patterns mean what the tools mean (glob → regex conversion against
  Mercurial's and Docker's matchers, libgit2 against git): decided on every run by the oracles (`git
  check-ignore`; reference matchers for the generated pattern subset), together with the search for the
  ignore file in the ancestors of the root.
-/
import Fsel.Model.Ignore
import Fsel.Props.C17

namespace Fsel.C20
open Fsel WalkL

abbrev Key := C17.Key

-- pre-order (pruned below maxdepth) of the whole tree; the flag says "ignored, or below an ignored directory"
mutual
def markIN (ig : IgnoreSet) (rp : RootParams) (dp dc : Str) (lvl : Nat) (hidden : Bool) : Node → List (Key × Bool)
  | .leaf le z => [((z, fillEntry le dp dc le.absPath, lvl), hidden || ig.ignored (fillEntry le dp dc le.absPath))]
  | .dir de l kids =>
    ((none, fillEntry de dp dc de.absPath, lvl), hidden || ig.ignored (fillEntry de dp dc de.absPath)) ::
      (if (rp.maxDepth == 0 || lvl < rp.maxDepth) && l then
        markIL ig rp (joinPath dp de.name) (childCanon dc de.name) (lvl + 1)
          (hidden || ig.ignored (fillEntry de dp dc de.absPath)) kids
       else [])
def markIL (ig : IgnoreSet) (rp : RootParams) (dp dc : Str) (lvl : Nat) (hidden : Bool) : List Node → List (Key × Bool)
  | [] => []
  | n :: ns => markIN ig rp dp dc lvl hidden n ++ markIL ig rp dp dc lvl hidden ns
end

theorem fill_path (e : Entry) (dp dc : Str) (a : Option Str) : (fillEntry e dp dc a).path = joinPath dp e.name := rfl

mutual
theorem markI_all_N (ig : IgnoreSet) (rp : RootParams) (dp dc : Str) (lvl : Nat) (h : Bool) :
    ∀ n : Node, (markIN ig rp dp dc lvl h n).map (·.1) = (eventsN rp dp dc lvl n).map C17.key
  | .leaf le z => by simp [markIN, eventsN, C17.key, C17.zipOf]
  | .dir de l kids => by
    simp only [markIN, eventsN, List.map_cons, C17.key, C17.zipOf, fill_path]
    congr 1
    split
    · exact markI_all_L ig rp _ _ (lvl + 1) _ kids
    · rfl
theorem markI_all_L (ig : IgnoreSet) (rp : RootParams) (dp dc : Str) (lvl : Nat) (h : Bool) :
    ∀ ns : List Node, (markIL ig rp dp dc lvl h ns).map (·.1) = (eventsL rp dp dc lvl ns).map C17.key
  | [] => by simp [markIL, eventsL]
  | n :: ns => by
    simp only [markIL, eventsL, List.map_append]
    rw [markI_all_N ig rp dp dc lvl h n, markI_all_L ig rp dp dc lvl h ns]
end

mutual
theorem markI_hidden_N (ig : IgnoreSet) (rp : RootParams) (dp dc : Str) (lvl : Nat) :
    ∀ n : Node, (markIN ig rp dp dc lvl true n).filter (fun x => !x.2) = []
  | .leaf le z => by simp [markIN]
  | .dir de l kids => by
    simp only [markIN, List.filter_cons, Bool.true_or, Bool.not_true, Bool.false_eq_true, if_false]
    split
    · exact markI_hidden_L ig rp _ _ (lvl + 1) kids
    · rfl
theorem markI_hidden_L (ig : IgnoreSet) (rp : RootParams) (dp dc : Str) (lvl : Nat) :
    ∀ ns : List Node, (markIL ig rp dp dc lvl true ns).filter (fun x => !x.2) = []
  | [] => by simp [markIL]
  | n :: ns => by
    simp only [markIL, List.filter_append]
    rw [markI_hidden_N ig rp dp dc lvl n, markI_hidden_L ig rp dp dc lvl ns]; rfl
end

mutual
theorem markI_visible_L (ig : IgnoreSet) (rp : RootParams) (dp dc : Str) (lvl : Nat) :
    ∀ ns : List Node, ((markIL ig rp dp dc lvl false ns).filter (fun x => !x.2)).map (·.1) =
      (eventsL rp dp dc lvl (pruneL ig dp dc ns)).map C17.key
  | [] => by simp [markIL, pruneL, eventsL]
  | n :: ns => by
    have ih := markI_visible_L ig rp dp dc lvl ns
    cases n with
    | leaf le z =>
      simp only [markIL, markIN, pruneL, pruneN, Bool.false_or, List.cons_append, List.nil_append, List.filter_cons]
      cases hi : ig.ignored (fillEntry le dp dc le.absPath)
      · simp only [Bool.not_false, if_true, Bool.false_eq_true, if_false, List.map_cons, eventsL, eventsN, List.map_append,
          C17.key, C17.zipOf, List.map_nil, List.cons_append, List.nil_append]
        rw [ih]
      · simp only [Bool.not_true, Bool.false_eq_true, if_false, if_true]
        exact ih
    | dir de l kids =>
      simp only [markIL, markIN, pruneL, pruneN, Bool.false_or, List.cons_append, List.filter_cons, List.filter_append]
      cases hi : ig.ignored (fillEntry de dp dc de.absPath)
      · simp only [Bool.not_false, if_true, Bool.false_eq_true, if_false, List.map_cons, eventsL, eventsN, List.map_append,
          C17.key, C17.zipOf, List.cons_append, fill_path]
        congr 1
        rw [ih]
        congr 1
        split
        · exact markI_visible_L ig rp _ _ (lvl + 1) kids
        · rfl
      · simp only [Bool.not_true, Bool.false_eq_true, if_false, if_true]
        have : (if ((rp.maxDepth == 0 || decide (lvl < rp.maxDepth)) && l) = true then
              markIL ig rp (joinPath dp de.name) (childCanon dc de.name) (lvl + 1) true kids else []).filter (fun x => !x.2) = [] := by
          split
          · exact markI_hidden_L ig rp _ _ (lvl + 1) kids
          · rfl
        rw [this, List.nil_append]
        exact ih
end

/-- **the ignore rules remove exactly the ignored entries and what lies below ignored directories** -/
theorem pruned_events_are_the_visible_events (ig : IgnoreSet) (rp : RootParams) (path canon : Str) (kids : List Node) :
    (eventsL rp path canon 1 (pruneL ig path canon kids)).map C17.key =
      ((markIL ig rp path canon 1 false kids).filter (fun x => !x.2)).map (·.1) ∧
    (eventsL rp path canon 1 kids).map C17.key = (markIL ig rp path canon 1 false kids).map (·.1) :=
  ⟨(markI_visible_L ig rp path canon 1 kids).symm, (markI_all_L ig rp path canon 1 false kids).symm⟩

mutual
theorem prune_none_N (dp dc : Str) : ∀ n : Node, pruneN {} dp dc n = some n
  | .leaf le z => by simp [pruneN, IgnoreSet.ignored]
  | .dir de l kids => by
    simp only [pruneN, IgnoreSet.ignored, Bool.false_and, Bool.or_self, Bool.false_eq_true, if_false]
    rw [prune_none_L _ _ kids]
theorem prune_none_L (dp dc : Str) : ∀ ns : List Node, pruneL {} dp dc ns = ns
  | [] => rfl
  | n :: ns => by
    simp only [pruneL]
    rw [prune_none_N dp dc n, prune_none_L dp dc ns]
end

/-- with no rule set in force nothing is removed -/
theorem no_rules_no_change (path canon : Str) (kids : List Node) : pruneL {} path canon kids = kids :=
  prune_none_L path canon kids

/-! ### verdicts -/

theorem hg_any_pattern (fs : List Re) (p : Str) : hgVerdict fs p = fs.any (fun r => r.isMatch p) := rfl

theorem foldl_last (m : Re × Bool → Bool) : ∀ (fs : List (Re × Bool)) (acc : Bool),
    fs.foldl (fun a f => if m f then !f.2 else a) acc =
      match (fs.filter m).getLast? with
      | some f => !f.2
      | none => acc
  | [], acc => rfl
  | f :: fs, acc => by
    rw [List.foldl_cons, foldl_last m fs]
    by_cases hm : m f = true
    · simp only [hm, if_true, List.filter_cons]
      cases hl : (fs.filter m) with
      | nil => simp
      | cons g gs =>
        have : (g :: gs).getLast? = some ((g :: gs).getLast (by simp)) := List.getLast?_eq_some_getLast (by simp)
        simp [this]
    · simp only [hm, Bool.false_eq_true, if_false, List.filter_cons]

/-- the last pattern that matches decides; no match: not ignored (D53 fix) -/
theorem docker_last_match_wins (fs : List (Re × Bool)) (path : Str) :
    let p := replaceAll (path.map fun c => if c == '\\' then '/' else c) ['/', '/'] ['/']
    dockerVerdict fs path =
      match (fs.filter fun f => f.1.isMatch p).getLast? with
      | some f => !f.2
      | none => false := by
  simp only [dockerVerdict]
  exact foldl_last (fun f => f.1.isMatch _) fs false

/-- option, configuration default, `no…` override -/
theorem option_table (c : Option Bool) (b : Bool) :
    ignoreApplies (some true) c = true ∧ ignoreApplies (some false) c = false ∧
    ignoreApplies none (some b) = b ∧ ignoreApplies none none = false := by
  simp [ignoreApplies]

/-- the verdict depends on the entry only through its own location — the canonical path of its directory
    and its name — and git's own verdict: not on the spelling of the root, and (D78 fix) not on what a
    symbolic link points to -/
theorem verdict_from_own_location (ig : IgnoreSet) (e e' : Entry) (d : Str)
    (h1 : e.absDir = some d) (h2 : e'.absDir = some d) (hn : e.name = e'.name) (hg : e.gitIgnored = e'.gitIgnored) :
    ig.ignored e = ig.ignored e' := by
  simp [IgnoreSet.ignored, h1, h2, hn, hg]

/-- a symbolic link is judged like any other entry of that name in that directory: the target (the link's
    canonical path `absPath`, its kind, its link text) plays no part -/
theorem link_judged_by_its_own_name (ig : IgnoreSet) (dirPath dirCanon : Str) (e : Entry) (t : Option Str) (k : Char) (lt : Option Str) :
    ig.ignored (fillEntry { e with absPath := t, kind := k, linkTarget := lt } dirPath dirCanon t) =
    ig.ignored (fillEntry e dirPath dirCanon e.absPath) := by
  simp [IgnoreSet.ignored, fillEntry]

/-- non-vacuity: a rule set that ignores something and keeps something -/
example :
    let f : Entry := { name := ofS "f", path := [], absPath := none, absDir := none, kind := 'f', size := 1, mode := 0,
                        uid := 0, gid := 0, nlink := 1, ino := 11, dev := 0, blocks := 0, mtime := 0 }
    let ig : IgnoreSet := { git := true }
    pruneL ig ['.'] ['/', 'r'] [Node.leaf { f with gitIgnored := true } none, Node.leaf f none] = [Node.leaf f none] := by
  simp [pruneL, pruneN, IgnoreSet.ignored, fillEntry]

end Fsel.C20
