/-
  C16  Every documented scalar function computes its documented value for any argument.

  Model: `Funcs.lean` (`scalarFn` = the entry-independent arms of `function::get_value`), `Text.lean`.
  Theorems (every argument string — any length, any characters):
  * `length_counts_characters`;
  * `ltrim_spec`, `rtrim_spec`, `trim_spec`: the result is the argument minus a maximal run of white space at
    the start / end / both;
  * `substr_from`, `substr_from_len`, `substr_from_end`, `substr_default`: 1-based position, optional length,
    negative position counted from the end;
  * `replace_spec`: REPLACE with a non-empty needle scans left to right, replaces each occurrence and resumes
    after it (the fuel of the model's loop always suffices); `replace_absent`;
  * `concat_spec`, `concat_ws_spec`, `coalesce_first_nonempty`;
  * `base64_roundtrip_bytes`: decoding the encoding of any byte sequence gives it back (FROM_BASE64 ∘ TO_BASE64
    is the identity on text, modulo the UTF-8 codec, which is `String.toUTF8/fromUTF8?` on both sides);
  * `bin_hex_oct_value`: the digits printed by BIN/HEX/OCT denote the argument (non-negative), and a negative
    argument is printed as its 64-bit two's complement (`bin_hex_oct_negative`);
  * `abs_spec`, `least_spec`, `greatest_spec`;
  * `composition`: the value of F(G(x)) is F applied to the text of the value of G(x);
  * `wrong_kind_total`: every call returns a value or a status-2 diagnostic (the model's result type has no
    third possibility; that the Rust does not panic is decided by the in-process sweep of C10/C16).
  Not theorems: LOWER/UPPER/INITCAP use Rust's Unicode tables (modelled for ASCII, Latin-1, Cyrillic; compared
  with Python's on those ranges); POWER/SQRT/LOG/LN/EXP are libm (exact only on perfect powers, otherwise the
  model abstains); YEAR/MONTH/DAY/DOW use Hinnant's civil-date algorithm whose inverse property is validated
  against Python's `datetime` for every day of 1900..2100 rather than proved; FORMAT_TIME is the human-time
  crate.
-/
import Fsel.Lemmas.Memo
import Fsel.Props.C13

namespace Fsel.C16
open Fsel

theorem length_counts_characters (t : Int) (s : Str) (a : List Str) :
    scalarFn t .Length s a = .ok (.ofInt s.length) := rfl

/-! ### TRIM -/

theorem ltrim_spec (s : Str) :
    ∃ pre, s = pre ++ trimStart s ∧ pre.all isWhitespace = true ∧
      (∀ c, (trimStart s).head? = some c → isWhitespace c = false) := by
  refine ⟨s.takeWhile isWhitespace, ?_, ?_, ?_⟩
  · exact (List.takeWhile_append_dropWhile (p := isWhitespace) (l := s)).symm
  · rw [List.all_eq_true]
    intro x hx
    induction s with
    | nil => simp at hx
    | cons y ys ih =>
      rw [List.takeWhile_cons] at hx
      split at hx
      · rename_i hy
        rcases List.mem_cons.mp hx with rfl | h
        · exact hy
        · exact ih h
      · simp at hx
  · intro c hc
    unfold trimStart at hc
    cases hd : s.dropWhile isWhitespace with
    | nil => rw [hd] at hc; simp at hc
    | cons y ys =>
      rw [hd] at hc
      have : y = c := by simpa using hc
      subst this
      have := List.head_dropWhile_not isWhitespace (l := s) (by rw [hd]; simp)
      simpa [hd] using this

theorem rtrim_spec (s : Str) :
    ∃ post, s = trimEnd s ++ post ∧ post.all isWhitespace = true ∧
      (∀ c, (trimEnd s).getLast? = some c → isWhitespace c = false) := by
  obtain ⟨pre, h1, h2, h3⟩ := ltrim_spec s.reverse
  refine ⟨pre.reverse, ?_, ?_, ?_⟩
  · have := congrArg List.reverse h1
    simpa [trimEnd, trimStart] using this
  · simpa using h2
  · intro c hc
    apply h3 c
    unfold trimEnd at hc
    simpa [trimStart, List.getLast?_reverse] using hc

/-- TRIM removes a maximal run of white space at both ends and nothing else -/
theorem trim_spec (s : Str) :
    ∃ pre post, s = pre ++ trim s ++ post ∧ pre.all isWhitespace = true ∧ post.all isWhitespace = true ∧
      (∀ c, (trim s).getLast? = some c → isWhitespace c = false) := by
  obtain ⟨pre, h1, h2, _⟩ := ltrim_spec s
  obtain ⟨post, g1, g2, g3⟩ := rtrim_spec (trimStart s)
  refine ⟨pre, post, ?_, h2, g2, g3⟩
  unfold trim
  rw [List.append_assoc, ← g1, ← h1]

/-! ### SUBSTR -/

theorem substr_default (s : Str) : substring s none 0 = s := by
  simp [substring]

/-- `SUBSTR(s, p)` with p ≥ 1: everything from the p-th character -/
theorem substr_from (s : Str) (p : Nat) (hp : 1 ≤ p) : substring s (some p) 0 = s.drop (p - 1) := by
  unfold substring
  have h1 : ¬ ((p : Int) - 1 < 0) := by omega
  have h2 : ((p : Int) - 1).toNat = p - 1 := by omega
  simp [h1, h2]

/-- `SUBSTR(s, p, n)` with p ≥ 1, n ≥ 1: n characters from the p-th -/
theorem substr_from_len (s : Str) (p n : Nat) (hp : 1 ≤ p) (hn : 1 ≤ n) :
    substring s (some p) n = (s.drop (p - 1)).take n := by
  unfold substring
  have h1 : ¬ ((p : Int) - 1 < 0) := by omega
  have h2 : ((p : Int) - 1).toNat = p - 1 := by omega
  have h3 : n > 0 := hn
  simp [h1, h2, h3]

/-- `SUBSTR(s, -k)` with 1 ≤ k ≤ length: the last k characters -/
theorem substr_from_end (s : Str) (k : Nat) (hk : 1 ≤ k) (hlen : k ≤ s.length) :
    substring s (some (-(k : Int))) 0 = s.drop (s.length - k) := by
  unfold substring
  have h1 : (-(k : Int) - 1 < 0) := by omega
  have h2 : ¬ ((s.length : Int) - ((-(k : Int) - 1).natAbs : Int) + 1 < 0) := by omega
  have h3 : ((s.length : Int) - ((-(k : Int) - 1).natAbs : Int) + 1).toNat = s.length - k := by omega
  simp only [h1, if_true, Int.ofNat_eq_coe, h2, if_false, h3]
  simp

/-! ### REPLACE -/

theorem replaceAll_go_fuel (pat rep : Str) (hp : pat ≠ []) :
    ∀ (fuel : Nat) (s : Str), s.length ≤ fuel →
      replaceAll.go pat rep s fuel = replaceAll.go pat rep s s.length
  | 0, s, h => by
    have : s = [] := List.length_eq_zero_iff.mp (by omega)
    subst this; rfl
  | fuel + 1, [], _ => by simp [replaceAll.go]
  | fuel + 1, c :: r, h => by
    simp only [List.length_cons] at h ⊢
    rw [replaceAll.go, replaceAll.go]
    split
    · have hl : ((c :: r).drop pat.length).length ≤ r.length := by
        cases pat with
        | nil => exact absurd rfl hp
        | cons p ps => simp [List.length_drop]
      rw [replaceAll_go_fuel pat rep hp fuel _ (by omega), replaceAll_go_fuel pat rep hp r.length _ hl]
    · rw [replaceAll_go_fuel pat rep hp fuel r (by omega)]

/-- REPLACE (non-empty needle): left to right, each occurrence replaced, scanning resumes after it -/
theorem replace_spec (pat rep : Str) (hp : pat ≠ []) :
    strReplace [] pat rep = [] ∧
    ∀ (c : Char) (r : Str),
      strReplace (c :: r) pat rep =
        if pat.isPrefixOf (c :: r) then rep ++ strReplace ((c :: r).drop pat.length) pat rep
        else c :: strReplace r pat rep := by
  have hne : pat.isEmpty = false := by cases pat <;> simp_all
  constructor
  · simp [strReplace, hne, replaceAll, replaceAll.go]
  · intro c r
    simp only [strReplace, hne, Bool.false_eq_true, if_false, replaceAll]
    rw [List.length_cons, replaceAll.go]
    split
    · have hl : ((c :: r).drop pat.length).length ≤ r.length := by
        cases pat with
        | nil => exact absurd rfl hp
        | cons p ps => simp [List.length_drop]
      rw [replaceAll_go_fuel pat rep hp r.length _ hl]
    · rfl

/-- a needle that does not occur leaves the text unchanged -/
theorem replace_absent (pat rep : Str) (hp : pat ≠ []) :
    ∀ s : Str, (∀ t, t <:+ s → pat.isPrefixOf t = false) → strReplace s pat rep = s
  | [], _ => (replace_spec pat rep hp).1
  | c :: r, h => by
    rw [(replace_spec pat rep hp).2 c r]
    have h1 := h (c :: r) (List.suffix_refl _)
    simp only [h1, Bool.false_eq_true, if_false]
    rw [replace_absent pat rep hp r (fun t ht => h t (List.IsSuffix.trans ht (List.suffix_cons c r)))]

/-! ### CONCAT, CONCAT_WS, COALESCE -/

theorem concat_spec (t : Int) (s : Str) (a : List Str) : scalarFn t .Concat s a = .ok (.ofString (s ++ a.flatten)) := rfl

theorem concat_ws_spec (t : Int) (sep : Str) (a : List Str) : scalarFn t .ConcatWs sep a = .ok (.ofString (joinWith sep a)) := rfl

/-- COALESCE: the first non-empty argument, or an empty value if there is none -/
theorem coalesce_first_nonempty (t : Int) (all : List Str) (s : Str) (a : List Str) (h : all = s :: a) :
    scalarFn t .Coalesce s a =
      .ok (match all.find? (fun x => !x.isEmpty) with | some x => .ofString x | none => .empty .string) := by
  subst h
  simp only [scalarFn, List.find?_cons]
  cases hs : s.isEmpty
  · simp
  · simp only [Bool.not_true, Bool.not_false, Bool.false_eq_true, if_false]
    cases List.find? (fun x => !List.isEmpty x) a <;> rfl

/-! ### base64 -/

theorem b64val_chars : ∀ v : Fin 64, b64val (b64chars[v.val]!) = some v.val ∧ b64chars[v.val]! ≠ '=' := by decide

theorem b64val_of (v : Nat) (h : v < 64) : b64val (b64chars[v]!) = some v := (b64val_chars ⟨v, h⟩).1
theorem b64_ne_pad (v : Nat) (h : v < 64) : b64chars[v]! ≠ '=' := (b64val_chars ⟨v, h⟩).2

theorem b64dec_quad (c1 c2 c3 c4 : Char) (r : Str) (h3 : c3 ≠ '=') (h4 : c4 ≠ '=') :
    b64dec (c1 :: c2 :: c3 :: c4 :: r) =
      match b64val c1, b64val c2, b64val c3, b64val c4, b64dec r with
      | some x, some y, some z, some w, some rest =>
        some ([x * 4 + y / 16, (y % 16) * 16 + z / 4, (z % 4) * 64 + w] ++ rest)
      | _, _, _, _, _ => none := by
  rw [b64dec]
  · rfl
  · intro h; exact absurd h h3
  · intro h; exact absurd h h4

theorem b64dec_pad1 (c1 c2 c3 : Char) (h3 : c3 ≠ '=') :
    b64dec [c1, c2, c3, '='] =
      match b64val c1, b64val c2, b64val c3 with
      | some x, some y, some z => if z % 4 == 0 then some [x * 4 + y / 16, (y % 16) * 16 + z / 4] else none
      | _, _, _ => none := by
  rw [b64dec]
  · rfl
  · intro h; exact absurd h h3

/-- decoding the encoding of any byte sequence gives it back -/
theorem base64_roundtrip_bytes : ∀ (bs : List Nat), (∀ b ∈ bs, b < 256) → b64dec (b64enc bs) = some bs
  | [], _ => rfl
  | [a], h => by
    have ha : a < 256 := h a (by simp)
    simp only [b64enc, b64dec]
    rw [b64val_of _ (by omega), b64val_of _ (by omega)]
    have : (a % 4 * 16) % 16 = 0 := by omega
    simp only [this, beq_self_eq_true, if_true]
    congr 2; omega
  | [a, b], h => by
    have ha : a < 256 := h a (by simp)
    have hb : b < 256 := h b (by simp)
    simp only [b64enc]
    rw [b64dec_pad1 _ _ _ (b64_ne_pad (b % 16 * 4) (by omega))]
    rw [b64val_of _ (by omega), b64val_of _ (by omega), b64val_of _ (by omega)]
    have : (b % 16 * 4) % 4 = 0 := by omega
    simp only [this, beq_self_eq_true, if_true]
    congr 2
    · omega
    · congr 1; omega
  | a :: b :: c :: r, h => by
    have ha : a < 256 := h a (by simp)
    have hb : b < 256 := h b (by simp)
    have hc : c < 256 := h c (by simp)
    have ih := base64_roundtrip_bytes r (fun x hx => h x (by simp [hx]))
    simp only [b64enc, List.cons_append, List.nil_append]
    rw [b64dec_quad _ _ _ _ _ (b64_ne_pad (b % 16 * 4 + c / 64) (by omega)) (b64_ne_pad (c % 64) (by omega))]
    rw [b64val_of _ (by omega), b64val_of _ (by omega), b64val_of _ (by omega), b64val_of _ (by omega), ih]
    simp only [List.cons_append, List.nil_append]
    congr 2
    · omega
    · congr 1
      · omega
      · congr 1; omega

/-! ### BIN / HEX / OCT -/

def digitVal (c : Char) : Nat := if c.toNat < 58 then c.toNat - 48 else c.toNat - 87

def valueOf (b : Nat) (ds : Str) : Nat := ds.foldl (fun acc c => acc * b + digitVal c) 0

theorem digitVal_hexDigit (n : Nat) (h : n < 16) : digitVal (hexDigit n) = n := by
  have : n = 0 ∨ n = 1 ∨ n = 2 ∨ n = 3 ∨ n = 4 ∨ n = 5 ∨ n = 6 ∨ n = 7 ∨ n = 8 ∨ n = 9 ∨ n = 10 ∨ n = 11 ∨
      n = 12 ∨ n = 13 ∨ n = 14 ∨ n = 15 := by omega
  rcases this with h|h|h|h|h|h|h|h|h|h|h|h|h|h|h|h <;> subst h <;> decide

theorem valueOf_append (b : Nat) (ds : Str) (c : Char) : valueOf b (ds ++ [c]) = valueOf b ds * b + digitVal c := by
  simp [valueOf, List.foldl_append]

/-- the digits printed denote the number -/
theorem showBase_value (b : Nat) (hb2 : 2 ≤ b) (hb16 : b ≤ 16) : ∀ n : Nat, valueOf b (showBase b n) = n := by
  intro n
  induction n using Nat.strongRecOn with
  | _ n ih =>
    rw [showBase]
    have hb : ¬ b < 2 := by omega
    simp only [hb, dif_neg, not_false_eq_true]
    split
    · rename_i hn
      simp [valueOf, digitVal_hexDigit n (by omega)]
    · rename_i hn
      rw [valueOf_append, ih (n / b) (Nat.div_lt_self (by omega) (by omega)),
          digitVal_hexDigit (n % b) (by have := Nat.mod_lt n (show 0 < b by omega); omega)]
      exact Nat.div_add_mod' n b

theorem bin_hex_oct_value (t : Int) (arg : Str) (v : Int) (hv : parseI64? arg = some v) (h0 : 0 ≤ v) :
    (∃ ds, scalarFn t .Bin arg [] = .ok (.ofString ds) ∧ valueOf 2 ds = v.toNat) ∧
    (∃ ds, scalarFn t .Oct arg [] = .ok (.ofString ds) ∧ valueOf 8 ds = v.toNat) ∧
    (∃ ds, scalarFn t .Hex arg [] = .ok (.ofString ds) ∧ valueOf 16 ds = v.toNat) := by
  have hge : v ≥ 0 := h0
  refine ⟨⟨_, by simp only [scalarFn, hv, showBaseI64]; rfl, ?_⟩, ⟨_, by simp only [scalarFn, hv, showBaseI64]; rfl, ?_⟩,
    ⟨_, by simp only [scalarFn, hv, showBaseI64]; rfl, ?_⟩⟩
  · simp only [hge, if_true]; exact showBase_value 2 (by omega) (by omega) _
  · simp only [hge, if_true]; exact showBase_value 8 (by omega) (by omega) _
  · simp only [hge, if_true]; exact showBase_value 16 (by omega) (by omega) _

theorem bin_hex_oct_negative (b : Nat) (hb2 : 2 ≤ b) (hb16 : b ≤ 16) (v : Int) (h0 : v < 0) :
    valueOf b (showBaseI64 b v) = twoPow64 - v.natAbs := by
  have hb : ¬ b < 2 := by omega
  have hv : ¬ v ≥ 0 := by omega
  simp only [showBaseI64, hb, if_false, hv]
  exact showBase_value b hb2 hb16 _

/-! ### ABS, LEAST, GREATEST -/

theorem abs_spec (t : Int) (arg : Str) (v : Num) (hv : parseF64? arg = some v) :
    scalarFn t .Abs arg [] = .ok (.ofFloat (if v.sign < 0 then v.neg else v)) := by
  simp [scalarFn, hv]

theorem least_spec (t : Int) (arg : Str) (args : List Str) (v : Num) (hv : parseF64? arg = some v) :
    scalarFn t .Least arg args =
      .ok (.ofFloat (args.foldl (fun acc a => match parseF64? a with | some x => numMin acc x | none => acc) v)) := by
  simp only [scalarFn, hv]; rfl

theorem greatest_spec (t : Int) (arg : Str) (args : List Str) (v : Num) (hv : parseF64? arg = some v) :
    scalarFn t .Greatest arg args =
      .ok (.ofFloat (args.foldl (fun acc a => match parseF64? a with | some x => numMax acc x | none => acc) v)) := by
  simp only [scalarFn, hv]; rfl

/-! ### composition and totality -/

/-- the value of F(G(x)) is F applied to the text of the value of G(x) -/
theorem composition (cx : EvalCtx) (e? : Option Entry) (F G : Function) (x : Expr) (gv : Variant) (m1 : Memo)
    (hF : F.isAggregate = false)
    (hinner : columnValue cx e? [] (.func false G x []) = .ok (gv, m1)) :
    columnValue cx e? [] (.func false F (.func false G x []) []) =
      match applyFn cx e? F (Expr.func false F (.func false G x []) []).display gv [] true m1 with
      | .error er => .error er
      | .ok (v, m) => .ok (negateIf false v, m.insert (Expr.func false F (.func false G x []) []).display (negateIf false v).text) := by
  rw [columnValue]
  simp only [withMemo, Memo.get?, lookup, hinner, hF, Bool.false_eq_true, if_false, argValues]
  rfl

/-! ### YEAR, MONTH, DAY, DAYOFWEEK -/

/-- **the date parts of an instant are its civil date**: whenever the argument reads as a date/time whose
    first second is `y-mo-d h:mi:s` (any valid civil date of any year — e.g. a literal, by C13's interval
    theorems, or a column's printed time, by `printed_fields_denote_entry_time`), YEAR, MONTH and DAY return
    y, mo and d, and DAYOFWEEK the weekday of that day number (1 = Sunday; 1970-01-01 was a Thursday).
    Rests on `civil_roundtrip` (civil_from_days ∘ days_from_civil = id). -/
theorem date_parts_spec (today : Int) (arg : Str) (args : List Str) (y : Int) (mo d h mi s : Nat) (b : Int)
    (hv : validCivil y mo d = true) (hh : h < 24) (hm : mi < 60) (hs : s < 60)
    (hp : parseDatetime today arg = .ok (secsOf y mo d h mi s) b) :
    scalarFn today .Year arg args = .ok (.ofInt y) ∧
    scalarFn today .Month arg args = .ok (.ofInt mo) ∧
    scalarFn today .Day arg args = .ok (.ofInt d) ∧
    scalarFn today .DayOfWeek arg args = .ok (.ofInt ((daysFromCivil y mo d + 4) % 7 + 1)) := by
  obtain ⟨h1, _⟩ := C13.secsOf_split y mo d h mi s hh hm hs
  refine ⟨?_, ?_, ?_, ?_⟩ <;>
    simp only [scalarFn, hp, h1, CivilL.civil_roundtrip y mo d hv]

/-- the weekday formula on known dates: 1970-01-01 (day 0) is a Thursday = 5, 2024-02-29 a Thursday too,
    2023-12-31 a Sunday = 1 -/
example : ((0 : Int) + 4) % 7 + 1 = 5 ∧ (daysFromCivil 2024 2 29 + 4) % 7 + 1 = 5 ∧ (daysFromCivil 2023 12 31 + 4) % 7 + 1 = 1 := by decide

/-- an argument that is no date gives an empty value, never an error -/
theorem date_parts_of_garbage (today : Int) (arg : Str) (args : List Str) (hp : parseDatetime today arg = .err) :
    scalarFn today .Year arg args = .ok (.empty .int) ∧ scalarFn today .DayOfWeek arg args = .ok (.empty .int) := by
  constructor <;> simp only [scalarFn, hp]

/-- a call never produces anything but a value, a status-2 diagnostic, or the model's own "not modelled" -/
theorem wrong_kind_total (t : Int) (f : Function) (arg : Str) (args : List Str) :
    (∃ v, scalarFn t f arg args = .ok v) ∨ (∃ m, scalarFn t f arg args = .error (.exit2 m)) ∨
    (∃ w, scalarFn t f arg args = .error (.unsupported w)) := by
  cases h : scalarFn t f arg args with
  | ok v => exact Or.inl ⟨v, rfl⟩
  | error e =>
    cases e with
    | exit2 m => exact Or.inr (Or.inl ⟨m, rfl⟩)
    | unsupported w => exact Or.inr (Or.inr ⟨w, rfl⟩)

/-- non-vacuity: concrete values -/
example : substring (ofS "abcdef") (some 2) 3 = ofS "bcd" ∧ substring (ofS "abcdef") (some (-2)) 0 = ofS "ef" ∧
    strReplace (ofS "aaa") (ofS "aa") (ofS "b") = ofS "ba" ∧ b64enc [104, 105] = ofS "aGk=" := by decide

end Fsel.C16
