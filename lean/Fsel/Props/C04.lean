/-
  C04  Column values equal what the operating system and the file content say.

  Model: `Eval.lean` (`fieldValue` = `get_field_value`, `formatMode` = `mode::format_mode`), the generated
  `mode_*` predicates and `S_I*` constants (Gen/Tables.lean, regenerated from mode.rs on every run).
  Theorems (every mode value — all of ℕ, so in particular all 4096 permission values × all type nibbles):
  * `formatMode_is_ls`: the mode string is the `ls -l` string defined independently by arithmetic on the
    mode (`lsMode`: type character from bits 12..15, three rwx triples with s/S, s/S, t/T);
  * `formatMode_length`: ten characters;
  * `permission_booleans_agree`: the twelve permission/suid/sgid/sticky predicates are read off the string
    (`r`/`w` at their positions, `x|s` resp. `s|S` at the execute positions); `*_all` = conjunction;
  * `type_booleans_one_hot`: for an entry whose kind character is the one its mode's type nibble denotes,
    the seven type columns are [c='-', c='d', c='l', c='p', c='c', c='b', c='s'] for the string's first
    character c — exactly one is true; `type_columns` ties the seven columns to those predicates;
  * `name_of_path`, `dir_of_path`, `extension_spec`, `no_dot_no_extension`: name/dir/path/ext are consistent
    decompositions; `hidden_spec`, `empty_spec`;
  * `extension_class_spec`: an extension-class column is true exactly when the lower-cased name ends with an
    entry of the corresponding list of the active configuration.
  Not theorems (external code; snapshot input compared with independent implementations by the
  correspondence): the digests (sha1/sha2/sha3 crates vs hashlib), `line_count`/`is_shebang`/CONTAINS readers
  (buffer boundaries), owner names (uzers vs pwd/grp), xattrs and capabilities (xattr crate; the capability
  decoder is covered by the harness against a Python decoder), lstat itself.
-/
import Fsel.Lemmas.Mode
import Fsel.Model.Walk

namespace Fsel.C04
open Fsel ModeL

/-! ### the `ls -l` specification, by arithmetic -/

def bitAt (m k : Nat) : Bool := decide (m / 2 ^ k % 2 = 1)

def lsType (m : Nat) : Char :=
  match m / 4096 % 16 with
  | 1 => 'p' | 2 => 'c' | 4 => 'd' | 6 => 'b' | 10 => 'l' | 12 => 's' | _ => '-'

def lsTriple (r w x s : Bool) (lo up : Char) : Str :=
  [if r then 'r' else '-', if w then 'w' else '-',
   if x && s then lo else if x then 'x' else if s then up else '-']

def lsMode (m : Nat) : Str :=
  lsType m :: (lsTriple (bitAt m 8) (bitAt m 7) (bitAt m 6) (bitAt m 11) 's' 'S' ++
               lsTriple (bitAt m 5) (bitAt m 4) (bitAt m 3) (bitAt m 10) 's' 'S' ++
               lsTriple (bitAt m 2) (bitAt m 1) (bitAt m 0) (bitAt m 9) 't' 'T')

theorem testBit_is_bitAt (m k : Nat) : m.testBit k = bitAt m k := Nat.testBit_eq_decide_div_mod_eq

theorem type_char (m : Nat) :
    (if mode_is_link m then 'l' else if mode_is_block_device m then 'b' else if mode_is_char_device m then 'c'
     else if mode_is_socket m then 's' else if mode_is_pipe m then 'p' else if mode_is_directory m then 'd' else '-')
    = lsType m := by
  rw [is_link_nibble, is_block_nibble, is_char_nibble, is_socket_nibble, is_pipe_nibble, is_dir_nibble]
  unfold lsType
  have h := nibble_lt m
  unfold nibble at *
  generalize m / 4096 % 16 = t at *
  have : t = 0 ∨ t = 1 ∨ t = 2 ∨ t = 3 ∨ t = 4 ∨ t = 5 ∨ t = 6 ∨ t = 7 ∨ t = 8 ∨ t = 9 ∨ t = 10 ∨ t = 11 ∨
      t = 12 ∨ t = 13 ∨ t = 14 ∨ t = 15 := by omega
  rcases this with h|h|h|h|h|h|h|h|h|h|h|h|h|h|h|h <;> subst h <;> rfl

theorem triple (r w x s : Bool) (lo up : Char) :
    [if r then 'r' else '-', if w then 'w' else '-'] ++ [if x then (if s then lo else 'x') else (if s then up else '-')]
      = lsTriple r w x s lo up := by
  cases r <;> cases w <;> cases x <;> cases s <;> rfl

/-- **the mode string is the `ls -l` string**, for every mode -/
theorem formatMode_is_ls (m : Nat) : formatMode m = lsMode m := by
  unfold formatMode lsMode
  simp only [type_char]
  rw [user_read_bit, user_write_bit, user_exec_bit, group_read_bit, group_write_bit, group_exec_bit,
      other_read_bit, other_write_bit, other_exec_bit, suid_bit, sgid_bit, sticky_bit]
  simp only [testBit_is_bitAt]
  simp only [List.singleton_append, List.cons_append, List.nil_append, List.append_assoc]
  rw [← triple (bitAt m 8), ← triple (bitAt m 5), ← triple (bitAt m 2)]
  simp only [List.singleton_append, List.cons_append, List.nil_append]

theorem formatMode_length (m : Nat) : (formatMode m).length = 10 := by
  rw [formatMode_is_ls]; simp [lsMode, lsTriple]

/-- character `i` of the mode string -/
def ch (m i : Nat) : Char := (formatMode m).getD i ' '

/-- **permission booleans agree with the mode string** (all modes, hence all 4096 permission values) -/
theorem permission_booleans_agree (m : Nat) :
    mode_user_read m = (ch m 1 == 'r') ∧ mode_user_write m = (ch m 2 == 'w') ∧
    mode_user_exec m = (ch m 3 == 'x' || ch m 3 == 's') ∧ mode_suid m = (ch m 3 == 's' || ch m 3 == 'S') ∧
    mode_group_read m = (ch m 4 == 'r') ∧ mode_group_write m = (ch m 5 == 'w') ∧
    mode_group_exec m = (ch m 6 == 'x' || ch m 6 == 's') ∧ mode_sgid m = (ch m 6 == 's' || ch m 6 == 'S') ∧
    mode_other_read m = (ch m 7 == 'r') ∧ mode_other_write m = (ch m 8 == 'w') ∧
    mode_other_exec m = (ch m 9 == 'x' || ch m 9 == 't') ∧ mode_sticky m = (ch m 9 == 't' || ch m 9 == 'T') := by
  unfold ch
  rw [formatMode_is_ls]
  rw [user_read_bit, user_write_bit, user_exec_bit, group_read_bit, group_write_bit, group_exec_bit,
      other_read_bit, other_write_bit, other_exec_bit, suid_bit, sgid_bit, sticky_bit]
  simp only [testBit_is_bitAt, lsMode, lsTriple]
  generalize bitAt m 8 = a8; generalize bitAt m 7 = a7; generalize bitAt m 6 = a6; generalize bitAt m 11 = a11
  generalize bitAt m 5 = a5; generalize bitAt m 4 = a4; generalize bitAt m 3 = a3; generalize bitAt m 10 = a10
  generalize bitAt m 2 = a2; generalize bitAt m 1 = a1; generalize bitAt m 0 = a0; generalize bitAt m 9 = a9
  refine ⟨?_, ?_, ?_, ?_, ?_, ?_, ?_, ?_, ?_, ?_, ?_, ?_⟩
  · cases a8 <;> rfl
  · cases a7 <;> rfl
  · cases a6 <;> cases a11 <;> rfl
  · cases a6 <;> cases a11 <;> rfl
  · cases a5 <;> rfl
  · cases a4 <;> rfl
  · cases a3 <;> cases a10 <;> rfl
  · cases a3 <;> cases a10 <;> rfl
  · cases a2 <;> rfl
  · cases a1 <;> rfl
  · cases a0 <;> cases a9 <;> rfl
  · cases a0 <;> cases a9 <;> rfl

theorem all_booleans (m : Nat) :
    mode_user_all m = (mode_user_read m && mode_user_write m && mode_user_exec m) ∧
    mode_group_all m = (mode_group_read m && mode_group_write m && mode_group_exec m) ∧
    mode_other_all m = (mode_other_read m && mode_other_write m && mode_other_exec m) := ⟨rfl, rfl, rfl⟩

/-! ### file-type booleans -/

/-- the kind character lstat reports for a type nibble -/
def kindOfNibble : Nat → Option Char
  | 8 => some 'f' | 4 => some 'd' | 10 => some 'l' | 1 => some 'p' | 2 => some 'c' | 6 => some 'b' | 12 => some 's'
  | _ => none

/-- the seven file-type columns of an on-disk entry -/
def typeFlags (e : Entry) : List Bool :=
  [e.kind == 'f', e.kind == 'd', e.kind == 'l', mode_is_pipe e.mode, mode_is_char_device e.mode,
   mode_is_block_device e.mode, mode_is_socket e.mode]

/-- **exactly one file-type boolean is true, the one the mode string's first character names** -/
theorem type_booleans_one_hot (e : Entry) (hk : kindOfNibble (nibble e.mode) = some e.kind) :
    let c := ch e.mode 0
    typeFlags e = [c == '-', c == 'd', c == 'l', c == 'p', c == 'c', c == 'b', c == 's'] ∧
    (typeFlags e).count true = 1 := by
  have hc : ch e.mode 0 = lsType e.mode := by
    unfold ch; rw [formatMode_is_ls]; simp [lsMode]
  simp only [hc]
  unfold typeFlags
  rw [is_pipe_nibble, is_char_nibble, is_block_nibble, is_socket_nibble]
  unfold lsType
  have h := nibble_lt e.mode
  unfold nibble at *
  generalize e.mode / 4096 % 16 = t at *
  have : t = 0 ∨ t = 1 ∨ t = 2 ∨ t = 3 ∨ t = 4 ∨ t = 5 ∨ t = 6 ∨ t = 7 ∨ t = 8 ∨ t = 9 ∨ t = 10 ∨ t = 11 ∨
      t = 12 ∨ t = 13 ∨ t = 14 ∨ t = 15 := by omega
  rcases this with h|h|h|h|h|h|h|h|h|h|h|h|h|h|h|h <;> subst h <;> simp [kindOfNibble] at hk <;>
    (rw [← hk]; decide)

/-- the seven columns are those predicates -/
theorem type_columns (cfg : Config) (e : Entry) (h : e.arc = none) :
    fieldValue cfg e .IsFile = .ok (.ofBool (e.kind == 'f')) ∧ fieldValue cfg e .IsDir = .ok (.ofBool (e.kind == 'd')) ∧
    fieldValue cfg e .IsSymlink = .ok (.ofBool (e.kind == 'l')) ∧
    fieldValue cfg e .IsPipe = .ok (.ofBool (mode_is_pipe e.mode)) ∧
    fieldValue cfg e .IsCharacterDevice = .ok (.ofBool (mode_is_char_device e.mode)) ∧
    fieldValue cfg e .IsBlockDevice = .ok (.ofBool (mode_is_block_device e.mode)) ∧
    fieldValue cfg e .IsSocket = .ok (.ofBool (mode_is_socket e.mode)) ∧
    fieldValue cfg e .Mode = .ok (.ofString (formatMode e.mode)) := by
  simp [fieldValue, h, modeBoolField]

/-- members of archives: the same predicates on the member's stored mode -/
theorem member_mode_columns (cfg : Config) (e : Entry) (a : ArcInfo) (m : Nat) (h : e.arc = some a) (hm : a.mode = some m) :
    fieldValue cfg e .Mode = .ok (.ofString (formatMode m)) ∧
    fieldValue cfg e .UserRead = .ok (.ofBool (mode_user_read m)) ∧
    fieldValue cfg e .Suid = .ok (.ofBool (mode_suid m)) ∧
    fieldValue cfg e .IsPipe = .ok (.ofBool (mode_is_pipe m)) := by
  have a1 : Field.availableInArchive .Mode = true := by decide
  have a2 : Field.availableInArchive .UserRead = true := by decide
  have a3 : Field.availableInArchive .Suid = true := by decide
  have a4 : Field.availableInArchive .IsPipe = true := by decide
  simp [fieldValue, h, hm, modeBoolField, a1, a2, a3, a4]

/-! ### name / dir / path / ext -/

theorem mem_takeWhile_pos {α} (p : α → Bool) : ∀ (l : List α) (a : α), a ∈ l.takeWhile p → p a = true
  | [], a, h => by simp at h
  | x :: l, a, h => by
    rw [List.takeWhile_cons] at h
    split at h
    · rename_i hx
      rcases List.mem_cons.mp h with rfl | h'
      · exact hx
      · exact mem_takeWhile_pos p l a h'
    · simp at h

theorem dropWhile_all {α} (p : α → Bool) : ∀ (l : List α), (∀ a ∈ l, p a = true) → l.dropWhile p = []
  | [], _ => rfl
  | x :: l, h => by
    rw [List.dropWhile_cons, if_pos (h x (by simp))]
    exact dropWhile_all p l (fun a ha => h a (by simp [ha]))

theorem all_ne_of_not_contains (c : Char) (s : Str) (h : ¬ s.contains c) : ∀ x ∈ s, (x != c) = true := by
  intro x hx
  cases hxc : x != c with
  | true => rfl
  | false =>
    exfalso; apply h
    have : x = c := by simpa using hxc
    subst this
    exact List.contains_iff_mem.mpr hx

/-- the last component of `dir/name` is `name` -/
theorem name_of_path (d n : Str) (hn : ¬ n.contains '/') (hne : n ≠ []) : pathFileName (joinPath d n) = n := by
  have hall := all_ne_of_not_contains '/' n hn
  have hlast : ∃ x, n.reverse.head? = some x ∧ (x == '/') = false := by
    cases hr : n.reverse with
    | nil => exact absurd (List.reverse_eq_nil_iff.mp hr) hne
    | cons x r =>
      refine ⟨x, rfl, ?_⟩
      have : x ∈ n := by
        have : x ∈ n.reverse := by rw [hr]; simp
        simpa using this
      have := hall x this
      simpa using this
  have key : ∀ pre : Str, pathFileName (pre ++ ['/'] ++ n) = n := by
    intro pre
    unfold pathFileName
    obtain ⟨x, hx, hxs⟩ := hlast
    have hrev : (pre ++ ['/'] ++ n).reverse = n.reverse ++ ('/' :: pre.reverse) := by simp
    have hdrop : (pre ++ ['/'] ++ n).reverse.dropWhile (· == '/') = (pre ++ ['/'] ++ n).reverse := by
      rw [hrev]
      cases hr : n.reverse with
      | nil => rw [hr] at hx; simp at hx
      | cons y r =>
        rw [hr] at hx; simp at hx; subst hx
        simp [List.dropWhile_cons, hxs]
    simp only [hdrop, List.reverse_reverse]
    rw [hrev]
    rw [List.takeWhile_append_of_pos (by intro a ha; exact hall a (by simpa using ha))]
    simp
  unfold joinPath
  split
  · rename_i hs
    -- d ends with '/': d = pre ++ "/"
    have : ∃ pre, d = pre ++ ['/'] := by
      have := hs
      unfold endsWith at this
      have hsuf : ['/'] <:+ d := by
        simpa [List.isSuffixOf_iff_suffix] using this
      obtain ⟨pre, hp⟩ := hsuf
      exact ⟨pre, hp.symm⟩
    obtain ⟨pre, rfl⟩ := this
    exact key pre
  · exact key d

theorem dropWhile_append_all {α} (p : α → Bool) (a b : List α) (h : ∀ x ∈ a, p x = true) :
    (a ++ b).dropWhile p = b.dropWhile p := by
  induction a with
  | nil => rfl
  | cons x a ih =>
    rw [List.cons_append, List.dropWhile_cons, if_pos (h x (by simp))]
    exact ih (fun y hy => h y (by simp [hy]))

/-- the parent of `dir/name` is `dir` (for a directory path spelled without a trailing slash) -/
theorem dir_of_path (d n : Str) (hn : ¬ n.contains '/') (hne : n ≠ []) (hd : d ≠ [])
    (hds : d.getLast? ≠ some '/') : parentOf (d ++ ['/'] ++ n) = some d := by
  have hall := all_ne_of_not_contains '/' n hn
  have hrev : (d ++ ['/'] ++ n).reverse = n.reverse ++ ('/' :: d.reverse) := by simp
  -- the last character of n is not a slash, so nothing is stripped
  have hstrip : (d ++ ['/'] ++ n).reverse.dropWhile (· == '/') = (d ++ ['/'] ++ n).reverse := by
    rw [hrev]
    cases hr : n.reverse with
    | nil => exact absurd (List.reverse_eq_nil_iff.mp hr) hne
    | cons x r =>
      have hx : x ∈ n := by
        have : x ∈ n.reverse := by rw [hr]; simp
        simpa using this
      have : (x == '/') = false := by simpa using hall x hx
      simp [this]
  have hdl : d.reverse.dropWhile (· == '/') = d.reverse := by
    cases hr : d.reverse with
    | nil => exact absurd (List.reverse_eq_nil_iff.mp hr) hd
    | cons x r =>
      have : d.getLast? = some x := by
        rw [← List.head?_reverse, hr]; rfl
      have hx : x ≠ '/' := by
        intro h; subst h; exact hds this
      have : (x == '/') = false := by simpa using hx
      simp [this]
  unfold parentOf
  simp only [hstrip, List.reverse_reverse]
  have hnonempty : (d ++ ['/'] ++ n).isEmpty = false := by simp
  simp only [hnonempty, Bool.false_eq_true, if_false]
  rw [hrev, dropWhile_append_all _ _ _ (fun x hx => hall x (by simpa using hx))]
  simp only [List.dropWhile_cons]
  simp only [bne_self_eq_false, Bool.false_eq_true, if_false, List.reverse_cons, List.reverse_reverse]
  have h2 : (d ++ ['/']).isEmpty = false := by simp
  simp only [h2, Bool.false_eq_true, if_false, List.reverse_append, List.reverse_cons, List.reverse_nil, List.nil_append,
    List.singleton_append, List.dropWhile_cons, beq_self_eq_true, if_true, hdl, List.reverse_reverse]
  cases d with
  | nil => exact absurd rfl hd
  | cons a t => simp

/-- the extension is what follows the last dot of a name that has a non-empty stem -/
theorem extension_spec (n x : Str) (h : getExtension n = x) (hx : x ≠ []) :
    ∃ stem, stem ≠ [] ∧ n = stem ++ '.' :: x ∧ ¬ x.contains '.' := by
  unfold getExtension at h
  split at h
  · exact absurd h.symm hx
  · simp only at h
    have hsplit := List.takeWhile_append_dropWhile (p := (· != '.')) (l := n.reverse)
    cases hd : n.reverse.dropWhile (· != '.') with
    | nil => rw [hd] at h; exact absurd h.symm hx
    | cons c before =>
      rw [hd] at h
      simp only at h
      split at h
      · exact absurd h.symm hx
      · rename_i hbe
        have hc : c = '.' := by
          have := List.head_dropWhile_not (· != '.') (l := n.reverse) (by rw [hd]; simp)
          simp only [hd, List.head_cons] at this
          simpa using this
        subst hc
        refine ⟨before.reverse, ?_, ?_, ?_⟩
        · intro hb; apply hbe; simp [List.reverse_eq_nil_iff.mp hb]
        · have : n = (n.reverse.takeWhile (· != '.') ++ n.reverse.dropWhile (· != '.')).reverse := by
            rw [hsplit]; simp
          rw [this, hd, ← h]; simp
        · rw [← h]
          intro hcon
          have hmem : '.' ∈ (n.reverse.takeWhile (· != '.')).reverse := List.contains_iff_mem.mp hcon
          have hmem' : '.' ∈ n.reverse.takeWhile (· != '.') := by simpa using hmem
          have := mem_takeWhile_pos _ _ _ hmem'
          simp at this

theorem no_dot_no_extension (n : Str) (h : ¬ n.contains '.') : getExtension n = [] := by
  unfold getExtension
  split
  · rfl
  · have hall := all_ne_of_not_contains '.' n h
    have : n.reverse.dropWhile (· != '.') = [] :=
      dropWhile_all _ _ (fun a ha => hall a (by simpa using ha))
    simp only [this]

theorem hidden_spec (cfg : Config) (e : Entry) (h : e.arc = none) :
    fieldValue cfg e .IsHidden = .ok (.ofBool (startsWith e.name ['.'])) := by
  simp [fieldValue, h]

theorem empty_spec (cfg : Config) (e : Entry) (h : e.arc = none) (hk : e.kind ≠ 'd') :
    fieldValue cfg e .IsEmpty = .ok (.ofBool (e.size == 0)) := by
  have : (e.kind == 'd') = false := by simpa using hk
  simp [fieldValue, h, this]

theorem location_columns (cfg : Config) (e : Entry) (h : e.arc = none) :
    fieldValue cfg e .Name = .ok (.ofString e.name) ∧ fieldValue cfg e .Path = .ok (.ofString e.path) ∧
    fieldValue cfg e .Extension = .ok (.ofString (getExtension e.name)) ∧
    fieldValue cfg e .Size = .ok (.ofInt e.size) ∧ fieldValue cfg e .Uid = .ok (.ofInt e.uid) ∧
    fieldValue cfg e .Gid = .ok (.ofInt e.gid) ∧ fieldValue cfg e .Inode = .ok (.ofInt e.ino) ∧
    fieldValue cfg e .Hardlinks = .ok (.ofInt e.nlink) ∧ fieldValue cfg e .Blocks = .ok (.ofInt e.blocks) ∧
    fieldValue cfg e .Modified = .ok (.ofDatetime e.mtime) := by
  simp [fieldValue, h]

/-- **extension classes**: true exactly when the lower-cased name ends with an extension of the active
    configuration's list for that class -/
theorem extension_class_spec (cfg : Config) (e : Entry) (f : Field) (exts : List Str) (h : e.arc = none)
    (hf : extClass cfg f = some exts) :
    fieldValue cfg e f = .ok (.ofBool (exts.any fun x => endsWith (lowerStr e.name) x)) := by
  cases f <;> simp [extClass] at hf <;> subst hf <;> simp [fieldValue, h, modeBoolField, extClass, hasExtension]

theorem extension_class_lists (cfg : Config) :
    extClass cfg .IsArchive = some cfg.archive ∧ extClass cfg .IsAudio = some cfg.audio ∧
    extClass cfg .IsBook = some cfg.book ∧ extClass cfg .IsDoc = some cfg.doc ∧ extClass cfg .IsFont = some cfg.font ∧
    extClass cfg .IsImage = some cfg.image ∧ extClass cfg .IsSource = some cfg.source ∧
    extClass cfg .IsVideo = some cfg.video := ⟨rfl, rfl, rfl, rfl, rfl, rfl, rfl, rfl⟩

/-- premises are satisfiable: a set-uid regular file 04755 -/
example : formatMode 0o104755 = ofS "-rwsr-xr-x" ∧ kindOfNibble (nibble 0o104755) = some 'f' := by decide

example : formatMode 0o041777 = ofS "drwxrwxrwt" ∧ formatMode 0o120777 = ofS "lrwxrwxrwx" ∧
    formatMode 0o102644 = ofS "-rw-r-Sr--" := by decide

end Fsel.C04
