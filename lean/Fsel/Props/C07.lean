/-
  C07  Aggregate functions return the mathematical aggregate of the matching entries.

  Model: `aggregate` (= `get_aggregate_value`) over the buffered rows, each row a map from column text
  to value text.  Theorems, for every list `xs` of naturals rendered in decimal under the column
  (any length, values up to the machine range): COUNT = number of rows, SUM = Σxs, MIN/MAX = min/max,
  AVG = Σxs / n as a real number (ℚ) — not truncated (D14 fixed) —, VAR_POP/VAR_SAMP = Σ(μ−x)²/n resp.
  /(n−1).  The textual rendering of the real-valued results is exact when the value is a small
  dyadic rational and is otherwise compared numerically by the harness (f64 rounding is outside the
  proof).  STDDEV = √VAR is checked numerically only.  "WHERE before aggregation" and "aggregate of a
  scalar expression" are pipeline facts decided by the correspondence and the oracle.
-/
import Fsel.Model.Agg
import Fsel.Lemmas.Text
import Fsel.Lemmas.Num

namespace Fsel.C07
open Fsel TextL

/-- buffered rows holding the decimal renderings of `xs` under column `key` -/
def rowsOf (key : Str) (xs : List Nat) : List Memo := xs.map fun x => [(key, showNat x)]

theorem get_rowsOf (key : Str) (x : Nat) : Memo.get? [(key, showNat x)] key = some (showNat x) := by
  simp [Memo.get?, lookup]

theorem colValues_rowsOf (key : Str) (xs : List Nat) : colValues (rowsOf key xs) key = xs.map showNat := by
  induction xs with
  | nil => rfl
  | cons x xs ih =>
    simp only [rowsOf, List.map_cons, colValues, List.filterMap_cons, get_rowsOf] at *
    rw [ih]

/-- COUNT(*) is the number of buffered rows, whatever they contain -/
theorem count_spec (rows : List Memo) (key : Str) : aggregate .Count rows key = (showNat rows.length, true) := rfl

theorem filterMap_parseUsize (xs : List Nat) (h : ∀ x ∈ xs, x ≤ u64Max) :
    (xs.map showNat).filterMap parseUsize? = xs := by
  induction xs with
  | nil => rfl
  | cons x xs ih =>
    simp only [List.map_cons, List.filterMap_cons, parseUsize_showNat x (h x (by simp))]
    rw [ih (fun y hy => h y (by simp [hy]))]

/-- SUM is the exact sum -/
theorem sum_spec (key : Str) (xs : List Nat) (h : ∀ x ∈ xs, x ≤ u64Max) :
    aggregate .Sum (rowsOf key xs) key = (showNat xs.sum, true) := by
  simp only [aggregate, bufferSum, colValues_rowsOf, filterMap_parseUsize xs h]

theorem filterMap_parseI64 (xs : List Nat) (h : ∀ x ∈ xs, (x : Int) ≤ i64Max) :
    (xs.map showNat).filterMap parseI64? = xs.map Int.ofNat := by
  induction xs with
  | nil => rfl
  | cons x xs ih =>
    simp only [List.map_cons, List.filterMap_cons, parseI64_showNat x (h x (by simp))]
    rw [ih (fun y hy => h y (by simp [hy]))]

theorem foldl_min_le (l : List Int) (a : Int) : ∀ y ∈ a :: l, l.foldl (fun a b => if b < a then b else a) a ≤ y := by
  induction l generalizing a with
  | nil => intro y hy; simp at hy; subst hy; simp
  | cons b l ih =>
    intro y hy
    simp only [List.foldl_cons]
    by_cases hb : b < a
    · simp only [hb, if_true]
      rcases List.mem_cons.mp hy with rfl | hm
      · have := ih b b (by simp); omega
      · exact ih b y (by simpa using hm)
    · simp only [hb, if_false]
      rcases List.mem_cons.mp hy with rfl | hm
      · exact ih y y (by simp)
      · rcases List.mem_cons.mp hm with rfl | hm2
        · have := ih a a (by simp); omega
        · exact ih a y (by simp [hm2])

theorem foldl_min_mem (l : List Int) (a : Int) : l.foldl (fun a b => if b < a then b else a) a ∈ a :: l := by
  induction l generalizing a with
  | nil => simp
  | cons b l ih =>
    simp only [List.foldl_cons]
    by_cases hb : b < a
    · simp only [hb, if_true]
      have := ih b
      rcases List.mem_cons.mp this with h | h
      · rw [h]; simp
      · simp [h]
    · simp only [hb, if_false]
      have := ih a
      rcases List.mem_cons.mp this with h | h
      · rw [h]; simp
      · simp [h]

/-- MIN is a lower bound that is attained -/
theorem min_spec (key : Str) (x : Nat) (xs : List Nat) (h : ∀ y ∈ x :: xs, (y : Int) ≤ i64Max) :
    ∃ m : Int, aggregate .Min (rowsOf key (x :: xs)) key = (showInt m, true) ∧
      m ∈ (x :: xs).map Int.ofNat ∧ ∀ y ∈ (x :: xs).map Int.ofNat, m ≤ y := by
  have e : (colValues (rowsOf key (x :: xs)) key).filterMap parseI64? = Int.ofNat x :: xs.map Int.ofNat := by
    rw [colValues_rowsOf, filterMap_parseI64 (x :: xs) h]; rfl
  simp only [aggregate, e, listMin, Option.getD, List.map_cons]
  exact ⟨_, rfl, foldl_min_mem _ _, foldl_min_le _ _⟩

/-- AVG is SUM / COUNT as a real number (no truncation) -/
theorem avg_spec (key : Str) (xs : List Nat) (h : ∀ x ∈ xs, x ≤ u64Max) :
    meanQ (rowsOf key xs) key = (xs.sum : Rat) / (xs.length : Rat) := by
  have hl : (rowsOf key xs).length = xs.length := by simp [rowsOf]
  simp only [meanQ, bufferSum, colValues_rowsOf, filterMap_parseUsize xs h, hl]

/-- the hypotheses are satisfiable: the D14 witness sizes 1 and 2 (mean 3/2; integer division gave 1) -/
example : ∀ x ∈ [1, 2], x ≤ u64Max := by decide

theorem showNat_zero : showNat 0 = ['0'] := by
  rw [showNat]; simp; rfl

/-- aggregates of an empty result: COUNT 0, SUM/MIN/MAX/AVG 0, variances empty -/
theorem empty_spec (key : Str) :
    aggregate .Count [] key = (['0'], true) ∧ aggregate .Sum [] key = (['0'], true) ∧
    aggregate .Min [] key = (['0'], true) ∧ aggregate .Max [] key = (['0'], true) ∧
    aggregate .Avg [] key = (['0'], true) ∧ aggregate .VarPop [] key = ([], true) ∧
    aggregate .VarSamp [] key = ([], true) := by
  refine ⟨?_, ?_, ?_, ?_, ?_, ?_, ?_⟩ <;>
    simp [aggregate, bufferSum, colValues, listMin, listMax, showInt, showNat_zero]

/-! ### variance: the textbook two-pass formula, exactly, in ℚ -/

theorem u64_lt_pow (x : Nat) (h : x ≤ u64Max) : (x : Rat) < ((2 ^ 1024 : Nat) : Rat) := by
  have h1 : x < 2 ^ 1024 := by
    have h64 : u64Max < 2 ^ 64 := by decide
    have hle : 2 ^ 64 ≤ 2 ^ 1024 := Nat.pow_le_pow_right (by omega) (by omega)
    omega
  exact_mod_cast h1

theorem filterMap_parseF64 (xs : List Nat) (h : ∀ x ∈ xs, x ≤ u64Max) :
    (xs.map showNat).filterMap parseF64? = xs.map fun (x : Nat) => Num.mk (x : Rat) true := by
  induction xs with
  | nil => rfl
  | cons x xs ih =>
    have hx := NumL.parseF64_showNat x (u64_lt_pow x (h x (by simp)))
    simp only [List.map_cons, List.filterMap_cons, hx]
    rw [ih (fun y hy => h y (by simp [hy]))]

/-- the accumulation loop of `varianceQ` over finite values is the sum of the squared deviations over `n` -/
theorem variance_fold (avg : Rat) (n : Nat) (e : Nat → Bool) (xs : List Nat) (a : Rat) (b : Bool) :
    ((xs.map fun (x : Nat) => Num.fin (x : Rat) (e x)).foldl (fun (acc : Rat × Bool) v =>
      match v with
      | .fin q ex => (acc.1 + (avg - q) * (avg - q) / (n : Rat), acc.2 && ex)
      | _ => (acc.1, false)) (a, b)).1 = a + (xs.map fun (x : Nat) => (avg - (x : Rat)) * (avg - (x : Rat)) / (n : Rat)).sum := by
  induction xs generalizing a b with
  | nil => simp [Rat.add_zero]
  | cons x xs ih =>
    simp only [List.map_cons, List.foldl_cons, List.sum_cons]
    rw [ih, Rat.add_assoc]

/-- **VAR_POP / VAR_SAMP are the textbook formulas**: for a column of naturals the model's value is
    exactly Σ (μ − x)² / n with μ = Σx / count — n = count for the population variance, count − 1 for the
    sample variance (the f64 computation agrees up to rounding: decided by the correspondence with a
    tolerance and by Python's `statistics`) -/
theorem variance_spec (key : Str) (xs : List Nat) (h : ∀ x ∈ xs, x ≤ u64Max) (n : Nat) :
    (varianceQ (rowsOf key xs) key n).1 =
      (xs.map fun (x : Nat) => ((xs.sum : Rat) / (xs.length : Rat) - (x : Rat)) * ((xs.sum : Rat) / (xs.length : Rat) - (x : Rat)) / (n : Rat)).sum := by
  unfold varianceQ
  simp only [avg_spec key xs h, colValues_rowsOf, filterMap_parseF64 xs h]
  have hm : (xs.map fun (x : Nat) => Num.mk (x : Rat) true) = xs.map fun (x : Nat) => Num.fin (x : Rat) (true && dyadicSmall (x : Rat)) := rfl
  rw [hm]
  have hv := variance_fold ((xs.sum : Rat) / (xs.length : Rat)) n (fun x => true && dyadicSmall (x : Rat)) xs 0 true
  rw [Rat.zero_add] at hv
  exact hv

/-- the divisor: population = number of rows, sample = number of rows − 1 (1 for a single row) -/
theorem variance_divisors (rows : List Memo) (key : Str) (hne : rows.isEmpty = false) :
    (aggregate .VarPop rows key).1 = (showNumQ (varianceQ rows key rows.length).1 (varianceQ rows key rows.length).2).1 ∧
    (aggregate .VarSamp rows key).1 =
      (showNumQ (varianceQ rows key (if rows.length == 1 then 1 else rows.length - 1)).1
                (varianceQ rows key (if rows.length == 1 then 1 else rows.length - 1)).2).1 := by
  constructor <;> simp [aggregate, hne]

/-- the hypothesis is satisfiable (sizes 2, 4, 4, 4, 5, 5, 7, 9: mean 5, population variance 4) -/
example : ∀ x ∈ [2, 4, 4, 4, 5, 5, 7, 9], x ≤ u64Max := by decide

/-! ### a column that is empty for some entries (e.g. `line_count` of a directory) -/

/-- buffered rows in which some entries have no value for `key` (an empty cell) -/
def rowsOfOpt (key : Str) (xs : List (Option Nat)) : List Memo :=
  xs.map fun x => [(key, match x with | some n => showNat n | none => [])]

theorem colValues_rowsOfOpt (key : Str) (xs : List (Option Nat)) :
    colValues (rowsOfOpt key xs) key = xs.map fun x => match x with | some n => showNat n | none => [] := by
  induction xs with
  | nil => rfl
  | cons x xs ih =>
    simp only [rowsOfOpt, List.map_cons, colValues, List.filterMap_cons] at *
    have : Memo.get? [(key, match x with | some n => showNat n | none => [])] key =
        some (match x with | some n => showNat n | none => []) := by simp [Memo.get?, lookup]
    rw [this, ih]

theorem parseUsize_empty : parseUsize? [] = none := by decide

theorem filterMap_parseUsize_opt (xs : List (Option Nat)) (h : ∀ x ∈ xs, ∀ n, x = some n → n ≤ u64Max) :
    (xs.map fun x => match x with | some n => showNat n | none => []).filterMap parseUsize? = xs.filterMap id := by
  induction xs with
  | nil => rfl
  | cons x xs ih =>
    have ih' := ih (fun y hy => h y (by simp [hy]))
    cases x with
    | none => simp only [List.map_cons, List.filterMap_cons, parseUsize_empty, id]; exact ih'
    | some n =>
      simp only [List.map_cons, List.filterMap_cons, parseUsize_showNat n (h (some n) (by simp) n rfl), id]
      rw [ih']

/-- SUM skips the entries without a value -/
theorem sum_spec_partial (key : Str) (xs : List (Option Nat)) (h : ∀ x ∈ xs, ∀ n, x = some n → n ≤ u64Max) :
    aggregate .Sum (rowsOfOpt key xs) key = (showNat (xs.filterMap id).sum, true) := by
  simp only [aggregate, bufferSum, colValues_rowsOfOpt, filterMap_parseUsize_opt xs h]

/-- **AVG = SUM / COUNT, also when some entries have no value**: every matching entry counts in the
    denominator (COUNT is the number of rows, `count_spec`), only the values that exist are summed -/
theorem avg_spec_partial (key : Str) (xs : List (Option Nat)) (h : ∀ x ∈ xs, ∀ n, x = some n → n ≤ u64Max) :
    meanQ (rowsOfOpt key xs) key = ((xs.filterMap id).sum : Rat) / (xs.length : Rat) := by
  have hl : (rowsOfOpt key xs).length = xs.length := by simp [rowsOfOpt]
  simp only [meanQ, bufferSum, colValues_rowsOfOpt, filterMap_parseUsize_opt xs h, hl]

/-- two files with 2 and 4 lines and a directory: COUNT 3, SUM 6, AVG 2 (not 3) -/
example : meanQ (rowsOfOpt (ofS "line_count") [some 2, some 4, none]) (ofS "line_count") = 2 := by
  rw [avg_spec_partial _ _ (by decide)]
  show ((6 : Nat) : Rat) / ((3 : Nat) : Rat) = 2
  decide +kernel

end Fsel.C07
