/-
  C07  Aggregate functions return the mathematical aggregate of the matching entries.

  Model: `aggregate` (= `get_aggregate_value`) over the buffered rows, each row a map from column text
  to value text.  Theorems, for every list `xs` of naturals rendered in decimal under the column
  (any length, values up to the machine range): COUNT = number of rows, SUM = Σxs, MIN/MAX = min/max,
  AVG = Σxs / n as a real number (ℚ) — not truncated (D14 fixed) —, VAR_POP/VAR_SAMP = Σ(μ−x)²/n resp.
  /(n−1).  The textual rendering of the real-valued results is exact when the value is a small
  dyadic rational and is otherwise compared numerically by the harness (f64 rounding is outside the
  proof).  STDDEV = √VAR is checked numerically only.  "WHERE before aggregation" and "aggregate of a
  scalar expression" are pipeline facts decided by the correspondence and the oracle.
-/
import Fsel.Model.Agg
import Fsel.Lemmas.Text

namespace Fsel.C07
open Fsel TextL

/-- buffered rows holding the decimal renderings of `xs` under column `key` -/
def rowsOf (key : Str) (xs : List Nat) : List Memo := xs.map fun x => [(key, showNat x)]

theorem get_rowsOf (key : Str) (x : Nat) : Memo.get? [(key, showNat x)] key = some (showNat x) := by
  simp [Memo.get?, lookup]

theorem colValues_rowsOf (key : Str) (xs : List Nat) : colValues (rowsOf key xs) key = xs.map showNat := by
  induction xs with
  | nil => rfl
  | cons x xs ih =>
    simp only [rowsOf, List.map_cons, colValues, List.filterMap_cons, get_rowsOf] at *
    rw [ih]

/-- COUNT(*) is the number of buffered rows, whatever they contain -/
theorem count_spec (rows : List Memo) (key : Str) : aggregate .Count rows key = (showNat rows.length, true) := rfl

theorem filterMap_parseUsize (xs : List Nat) (h : ∀ x ∈ xs, x ≤ u64Max) :
    (xs.map showNat).filterMap parseUsize? = xs := by
  induction xs with
  | nil => rfl
  | cons x xs ih =>
    simp only [List.map_cons, List.filterMap_cons, parseUsize_showNat x (h x (by simp))]
    rw [ih (fun y hy => h y (by simp [hy]))]

/-- SUM is the exact sum -/
theorem sum_spec (key : Str) (xs : List Nat) (h : ∀ x ∈ xs, x ≤ u64Max) :
    aggregate .Sum (rowsOf key xs) key = (showNat xs.sum, true) := by
  simp only [aggregate, bufferSum, colValues_rowsOf, filterMap_parseUsize xs h]

theorem filterMap_parseI64 (xs : List Nat) (h : ∀ x ∈ xs, (x : Int) ≤ i64Max) :
    (xs.map showNat).filterMap parseI64? = xs.map Int.ofNat := by
  induction xs with
  | nil => rfl
  | cons x xs ih =>
    simp only [List.map_cons, List.filterMap_cons, parseI64_showNat x (h x (by simp))]
    rw [ih (fun y hy => h y (by simp [hy]))]

theorem foldl_min_le (l : List Int) (a : Int) : ∀ y ∈ a :: l, l.foldl (fun a b => if b < a then b else a) a ≤ y := by
  induction l generalizing a with
  | nil => intro y hy; simp at hy; subst hy; simp
  | cons b l ih =>
    intro y hy
    simp only [List.foldl_cons]
    by_cases hb : b < a
    · simp only [hb, if_true]
      rcases List.mem_cons.mp hy with rfl | hm
      · have := ih b b (by simp); omega
      · exact ih b y (by simpa using hm)
    · simp only [hb, if_false]
      rcases List.mem_cons.mp hy with rfl | hm
      · exact ih y y (by simp)
      · rcases List.mem_cons.mp hm with rfl | hm2
        · have := ih a a (by simp); omega
        · exact ih a y (by simp [hm2])

theorem foldl_min_mem (l : List Int) (a : Int) : l.foldl (fun a b => if b < a then b else a) a ∈ a :: l := by
  induction l generalizing a with
  | nil => simp
  | cons b l ih =>
    simp only [List.foldl_cons]
    by_cases hb : b < a
    · simp only [hb, if_true]
      have := ih b
      rcases List.mem_cons.mp this with h | h
      · rw [h]; simp
      · simp [h]
    · simp only [hb, if_false]
      have := ih a
      rcases List.mem_cons.mp this with h | h
      · rw [h]; simp
      · simp [h]

/-- MIN is a lower bound that is attained -/
theorem min_spec (key : Str) (x : Nat) (xs : List Nat) (h : ∀ y ∈ x :: xs, (y : Int) ≤ i64Max) :
    ∃ m : Int, aggregate .Min (rowsOf key (x :: xs)) key = (showInt m, true) ∧
      m ∈ (x :: xs).map Int.ofNat ∧ ∀ y ∈ (x :: xs).map Int.ofNat, m ≤ y := by
  have e : (colValues (rowsOf key (x :: xs)) key).filterMap parseI64? = Int.ofNat x :: xs.map Int.ofNat := by
    rw [colValues_rowsOf, filterMap_parseI64 (x :: xs) h]; rfl
  simp only [aggregate, e, listMin, Option.getD, List.map_cons]
  exact ⟨_, rfl, foldl_min_mem _ _, foldl_min_le _ _⟩

/-- AVG is SUM / COUNT as a real number (no truncation) -/
theorem avg_spec (key : Str) (xs : List Nat) (h : ∀ x ∈ xs, x ≤ u64Max) :
    meanQ (rowsOf key xs) key = (xs.sum : Rat) / (xs.length : Rat) := by
  have hl : (rowsOf key xs).length = xs.length := by simp [rowsOf]
  simp only [meanQ, bufferSum, colValues_rowsOf, filterMap_parseUsize xs h, hl]

/-- the hypotheses are satisfiable: the D14 witness sizes 1 and 2 (mean 3/2; integer division gave 1) -/
example : ∀ x ∈ [1, 2], x ≤ u64Max := by decide

theorem showNat_zero : showNat 0 = ['0'] := by
  rw [showNat]; simp; rfl

/-- aggregates of an empty result: COUNT 0, SUM/MIN/MAX/AVG 0, variances empty -/
theorem empty_spec (key : Str) :
    aggregate .Count [] key = (['0'], true) ∧ aggregate .Sum [] key = (['0'], true) ∧
    aggregate .Min [] key = (['0'], true) ∧ aggregate .Max [] key = (['0'], true) ∧
    aggregate .Avg [] key = (['0'], true) ∧ aggregate .VarPop [] key = ([], true) ∧
    aggregate .VarSamp [] key = ([], true) := by
  refine ⟨?_, ?_, ?_, ?_, ?_, ?_, ?_⟩ <;>
    simp [aggregate, bufferSum, colValues, listMin, listMax, showInt, showNat_zero]

/-! ### a column that is empty for some entries (e.g. `line_count` of a directory) -/

/-- buffered rows in which some entries have no value for `key` (an empty cell) -/
def rowsOfOpt (key : Str) (xs : List (Option Nat)) : List Memo :=
  xs.map fun x => [(key, match x with | some n => showNat n | none => [])]

theorem colValues_rowsOfOpt (key : Str) (xs : List (Option Nat)) :
    colValues (rowsOfOpt key xs) key = xs.map fun x => match x with | some n => showNat n | none => [] := by
  induction xs with
  | nil => rfl
  | cons x xs ih =>
    simp only [rowsOfOpt, List.map_cons, colValues, List.filterMap_cons] at *
    have : Memo.get? [(key, match x with | some n => showNat n | none => [])] key =
        some (match x with | some n => showNat n | none => []) := by simp [Memo.get?, lookup]
    rw [this, ih]

theorem parseUsize_empty : parseUsize? [] = none := by decide

theorem filterMap_parseUsize_opt (xs : List (Option Nat)) (h : ∀ x ∈ xs, ∀ n, x = some n → n ≤ u64Max) :
    (xs.map fun x => match x with | some n => showNat n | none => []).filterMap parseUsize? = xs.filterMap id := by
  induction xs with
  | nil => rfl
  | cons x xs ih =>
    have ih' := ih (fun y hy => h y (by simp [hy]))
    cases x with
    | none => simp only [List.map_cons, List.filterMap_cons, parseUsize_empty, id]; exact ih'
    | some n =>
      simp only [List.map_cons, List.filterMap_cons, parseUsize_showNat n (h (some n) (by simp) n rfl), id]
      rw [ih']

/-- SUM skips the entries without a value -/
theorem sum_spec_partial (key : Str) (xs : List (Option Nat)) (h : ∀ x ∈ xs, ∀ n, x = some n → n ≤ u64Max) :
    aggregate .Sum (rowsOfOpt key xs) key = (showNat (xs.filterMap id).sum, true) := by
  simp only [aggregate, bufferSum, colValues_rowsOfOpt, filterMap_parseUsize_opt xs h]

/-- **AVG = SUM / COUNT, also when some entries have no value**: every matching entry counts in the
    denominator (COUNT is the number of rows, `count_spec`), only the values that exist are summed -/
theorem avg_spec_partial (key : Str) (xs : List (Option Nat)) (h : ∀ x ∈ xs, ∀ n, x = some n → n ≤ u64Max) :
    meanQ (rowsOfOpt key xs) key = ((xs.filterMap id).sum : Rat) / (xs.length : Rat) := by
  have hl : (rowsOfOpt key xs).length = xs.length := by simp [rowsOfOpt]
  simp only [meanQ, bufferSum, colValues_rowsOfOpt, filterMap_parseUsize_opt xs h, hl]

/-- two files with 2 and 4 lines and a directory: COUNT 3, SUM 6, AVG 2 (not 3) -/
example : meanQ (rowsOfOpt (ofS "line_count") [some 2, some 4, none]) (ofS "line_count") = 2 := by
  rw [avg_spec_partial _ _ (by decide)]
  show ((6 : Nat) : Rat) / ((3 : Nat) : Rat) = 2
  decide +kernel

end Fsel.C07
