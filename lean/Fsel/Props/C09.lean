/-
  C09  Every output format is well-formed and carries exactly the result table.

  Model: `Output.lean` (emitters).  Reference readers are defined here (used only in theorems).
  Theorems, for every value (any characters, any length):
  * `json_string_roundtrip` — serde-style escaping is inverted by the JSON string grammar's reader, which
    *rejects* a raw `"` or control character: so the emitted body is clean and a JSON parser finds
    exactly the value;
  * `csv_field_roundtrip` — RFC 4180 quoting is inverted by the field reader (quoted: doubled quotes;
    unquoted: up to the next delimiter), whatever follows the field;
  * `html_roundtrip` — unescaping the cell text gives the value; `html_cell_clean` — the cell text
    contains no `<` and no `>` (D18 fixed);
  * `flat_roundtrip` — `tabs`/`lines`/`list` rows split back into the values when no value contains
    the separator (the hypothesis the property states).
  Not claimed: two select-list columns with the same text share one JSON key (known finding D19).
  Whole-document decoding over the four result paths is decided by the correspondence (bytes equal to the
  model) and by Python's json/csv/html parsers against the `into list` run.
-/
import Fsel.Model.Output

namespace Fsel.C09
open Fsel

theorem char_ofNat_toNat (c : Char) : Char.ofNat c.toNat = c := Char.ofNat_toNat c

-- ------------------------------------------------------------------ JSON strings

def jsonEscChar (c : Char) : Str :=
  if c == '"' then ['\\', '"']
  else if c == '\\' then ['\\', '\\']
  else if c == '\n' then ['\\', 'n']
  else if c == '\r' then ['\\', 'r']
  else if c == '\t' then ['\\', 't']
  else if c.toNat == 8 then ['\\', 'b']
  else if c.toNat == 12 then ['\\', 'f']
  else if c.toNat < 0x20 then ['\\', 'u', '0', '0', hexDigit (c.toNat / 16), hexDigit (c.toNat % 16)]
  else [c]

theorem jsonEscape_eq (s : Str) : jsonEscape s = ['"'] ++ s.flatMap jsonEscChar ++ ['"'] := rfl

def hexv (c : Char) : Nat :=
  if '0' ≤ c ∧ c ≤ '9' then c.toNat - 48 else if 'a' ≤ c ∧ c ≤ 'f' then c.toNat - 87 else c.toNat - 55

/-- one character of a JSON string body (RFC 8259): an escape, or any character except `"`, `\` and
    the control characters — those are rejected -/
def readJsonChar : Str → Option (Char × Str)
  | [] => none
  | c :: r =>
    if c == '\\' then
      match r with
      | [] => none
      | e :: r2 =>
        if e == '"' then some ('"', r2)
        else if e == '\\' then some ('\\', r2)
        else if e == '/' then some ('/', r2)
        else if e == 'n' then some ('\n', r2)
        else if e == 'r' then some ('\r', r2)
        else if e == 't' then some ('\t', r2)
        else if e == 'b' then some (Char.ofNat 8, r2)
        else if e == 'f' then some (Char.ofNat 12, r2)
        else if e == 'u' then
          match r2 with
          | a :: b :: x :: y :: r3 =>
            if a == '0' && b == '0' then some (Char.ofNat (hexv x * 16 + hexv y), r3) else none
          | _ => none
        else none
    else if c == '"' then none
    else if c.toNat < 0x20 then none
    else some (c, r)

/-- reader of a whole string body -/
def readJsonBody : Nat → Str → Option Str
  | 0, _ => none
  | _ + 1, [] => some []
  | f + 1, s =>
    match readJsonChar s with
    | none => none
    | some (c, r) => (readJsonBody f r).map (c :: ·)

theorem ctrl_hex (n : Nat) (h : n < 32) :
    Char.ofNat (hexv (hexDigit (n / 16)) * 16 + hexv (hexDigit (n % 16))) = Char.ofNat n := by
  have : n = 0 ∨ n = 1 ∨ n = 2 ∨ n = 3 ∨ n = 4 ∨ n = 5 ∨ n = 6 ∨ n = 7 ∨ n = 8 ∨ n = 9 ∨ n = 10 ∨ n = 11 ∨ n = 12 ∨
      n = 13 ∨ n = 14 ∨ n = 15 ∨ n = 16 ∨ n = 17 ∨ n = 18 ∨ n = 19 ∨ n = 20 ∨ n = 21 ∨ n = 22 ∨ n = 23 ∨ n = 24 ∨
      n = 25 ∨ n = 26 ∨ n = 27 ∨ n = 28 ∨ n = 29 ∨ n = 30 ∨ n = 31 := by omega
  rcases this with h | h | h | h | h | h | h | h | h | h | h | h | h | h | h | h | h | h | h | h | h | h | h | h | h | h | h | h | h | h | h | h <;>
    subst h <;> decide

/-- one escaped character is read back as that character -/
theorem read_escaped (c : Char) (r : Str) : readJsonChar (jsonEscChar c ++ r) = some (c, r) := by
  unfold jsonEscChar
  by_cases h1 : c = '"'
  · subst h1; rfl
  by_cases h2 : c = '\\'
  · subst h2; rfl
  by_cases h3 : c = '\n'
  · subst h3; rfl
  by_cases h4 : c = '\r'
  · subst h4; rfl
  by_cases h5 : c = '\t'
  · subst h5; rfl
  by_cases h6 : c.toNat = 8
  · have : c = Char.ofNat 8 := by rw [← h6, char_ofNat_toNat]
    subst this; rfl
  by_cases h7 : c.toNat = 12
  · have : c = Char.ofNat 12 := by rw [← h7, char_ofNat_toNat]
    subst this; rfl
  by_cases h8 : c.toNat < 0x20
  · simp only [beq_iff_eq, h1, h2, h3, h4, h5, h6, h7, h8, if_false, if_true]
    have : readJsonChar (['\\', 'u', '0', '0', hexDigit (c.toNat / 16), hexDigit (c.toNat % 16)] ++ r) =
        some (Char.ofNat (hexv (hexDigit (c.toNat / 16)) * 16 + hexv (hexDigit (c.toNat % 16))), r) := rfl
    rw [this, ctrl_hex c.toNat h8, char_ofNat_toNat]
  · simp only [beq_iff_eq, h1, h2, h3, h4, h5, h6, h7, h8, if_false]
    simp only [List.cons_append, List.nil_append, readJsonChar, beq_iff_eq, h1, h2, h8, if_false]

/-- escaping followed by the JSON string reader is the identity, for every value -/
theorem json_string_roundtrip (s : Str) (f : Nat) (hf : s.length < f) :
    readJsonBody f (s.flatMap jsonEscChar) = some s := by
  induction s generalizing f with
  | nil => cases f with
    | zero => simp at hf
    | succ f => rfl
  | cons c s ih =>
    cases f with
    | zero => simp at hf
    | succ f =>
      simp only [List.flatMap_cons]
      have hne : jsonEscChar c ++ s.flatMap jsonEscChar ≠ [] := by
        have : jsonEscChar c ≠ [] := by unfold jsonEscChar; repeat' split
                                        all_goals simp
        intro h; exact this (List.append_eq_nil_iff.mp h).1
      have hstep := read_escaped c (s.flatMap jsonEscChar)
      cases hb : jsonEscChar c ++ s.flatMap jsonEscChar with
      | nil => exact absurd hb hne
      | cons x xs =>
        rw [hb] at hstep
        simp only [readJsonBody, hstep]
        rw [ih f (by simp at hf; omega)]
        rfl

-- ------------------------------------------------------------------ HTML cells

def htmlEscChar (c : Char) : Str :=
  if c == '&' then ofS "&amp;" else if c == '<' then ofS "&lt;" else if c == '>' then ofS "&gt;"
  else if c == '"' then ofS "&quot;" else if c == '\'' then ofS "&#39;" else [c]

theorem htmlEscape_eq (s : Str) : htmlEscape s = s.flatMap htmlEscChar := rfl

/-- reference reader of character data: the five entities, everything else literally -/
def readHtmlChar (s : Str) : Option (Char × Str) :=
  match s with
  | [] => none
  | c :: r =>
    if c == '&' then
      if (ofS "amp;").isPrefixOf r then some ('&', r.drop 4)
      else if (ofS "lt;").isPrefixOf r then some ('<', r.drop 3)
      else if (ofS "gt;").isPrefixOf r then some ('>', r.drop 3)
      else if (ofS "quot;").isPrefixOf r then some ('"', r.drop 5)
      else if (ofS "#39;").isPrefixOf r then some ('\'', r.drop 4)
      else none
    else if c == '<' || c == '>' then none
    else some (c, r)

def readHtmlText : Nat → Str → Option Str
  | 0, _ => none
  | _ + 1, [] => some []
  | f + 1, s =>
    match readHtmlChar s with
    | none => none
    | some (c, r) => (readHtmlText f r).map (c :: ·)

theorem read_html_escaped (c : Char) (r : Str) : readHtmlChar (htmlEscChar c ++ r) = some (c, r) := by
  unfold htmlEscChar
  by_cases h1 : c = '&'
  · subst h1; simp [readHtmlChar, ofS, List.isPrefixOf]
  by_cases h2 : c = '<'
  · subst h2; simp [readHtmlChar, ofS, List.isPrefixOf]
  by_cases h3 : c = '>'
  · subst h3; simp [readHtmlChar, ofS, List.isPrefixOf]
  by_cases h4 : c = '"'
  · subst h4; simp [readHtmlChar, ofS, List.isPrefixOf]
  by_cases h5 : c = '\''
  · subst h5; simp [readHtmlChar, ofS, List.isPrefixOf]
  simp [readHtmlChar, h1, h2, h3, h4, h5]

/-- unescaping the emitted cell text gives the value, for every value -/
theorem html_roundtrip (s : Str) (f : Nat) (hf : s.length < f) :
    readHtmlText f (htmlEscape s) = some s := by
  rw [htmlEscape_eq]
  induction s generalizing f with
  | nil => cases f with
    | zero => simp at hf
    | succ f => rfl
  | cons c s ih =>
    cases f with
    | zero => simp at hf
    | succ f =>
      simp only [List.flatMap_cons]
      have hne : htmlEscChar c ++ s.flatMap htmlEscChar ≠ [] := by
        have : htmlEscChar c ≠ [] := by unfold htmlEscChar; repeat' split
                                        all_goals simp [ofS]
        intro h; exact this (List.append_eq_nil_iff.mp h).1
      have hstep := read_html_escaped c (s.flatMap htmlEscChar)
      cases hb : htmlEscChar c ++ s.flatMap htmlEscChar with
      | nil => exact absurd hb hne
      | cons x xs =>
        rw [hb] at hstep
        simp only [readHtmlText, hstep]
        rw [ih f (by simp at hf; omega)]
        rfl

/-- the emitted cell text contains no markup delimiter -/
theorem html_cell_clean (s : Str) : ∀ c ∈ htmlEscape s, c ≠ '<' ∧ c ≠ '>' := by
  intro c hc
  rw [htmlEscape_eq, List.mem_flatMap] at hc
  obtain ⟨d, _, hd⟩ := hc
  unfold htmlEscChar at hd
  by_cases h1 : d = '&'
  · subst h1; simp [ofS] at hd; rcases hd with rfl | rfl | rfl | rfl | rfl <;> decide
  by_cases h2 : d = '<'
  · subst h2; simp [ofS] at hd; rcases hd with rfl | rfl | rfl | rfl <;> decide
  by_cases h3 : d = '>'
  · subst h3; simp [ofS] at hd; rcases hd with rfl | rfl | rfl | rfl <;> decide
  by_cases h4 : d = '"'
  · subst h4; simp [ofS] at hd; rcases hd with rfl | rfl | rfl | rfl | rfl | rfl <;> decide
  by_cases h5 : d = '\''
  · subst h5; simp [ofS] at hd; rcases hd with rfl | rfl | rfl | rfl | rfl <;> decide
  simp [h1, h2, h3, h4, h5] at hd
  subst hd
  exact ⟨h2, h3⟩

-- ------------------------------------------------------------------ CSV fields

def csvDq (c : Char) : Str := if c == '"' then ['"', '"'] else [c]

def csvSpecial (c : Char) : Bool := c == '"' || c == ',' || c == '\n' || c == '\r'

theorem csvField_eq (single : Bool) (s : Str) :
    csvField single s = if s.any csvSpecial || (single && s.isEmpty) then ['"'] ++ s.flatMap csvDq ++ ['"'] else s := rfl

/-- RFC 4180 reader, inside a quoted field (after the opening quote): returns the value and what
    follows the closing quote -/
def readQuoted : Nat → Str → Option (Str × Str)
  | 0, _ => none
  | _ + 1, [] => none
  | f + 1, c :: r =>
    if c == '"' then
      match r with
      | [] => some ([], [])
      | d :: r2 => if d == '"' then (readQuoted f r2).map (fun p => ('"' :: p.1, p.2)) else some ([], d :: r2)
    else (readQuoted f r).map (fun p => (c :: p.1, p.2))

/-- RFC 4180 reader of an unquoted field: up to the next delimiter or line break -/
def readPlain : Str → Str × Str
  | [] => ([], [])
  | c :: r => if c == ',' || c == '\n' || c == '\r' then ([], c :: r) else ((readPlain r).1.cons c, (readPlain r).2)

def readCsvField (f : Nat) : Str → Option (Str × Str)
  | '"' :: r => readQuoted f r
  | s => some (readPlain s)

theorem readQuoted_roundtrip (s rest : Str) (hrest : ∀ r, rest ≠ '"' :: r) (f : Nat) (hf : s.length < f) :
    readQuoted f (s.flatMap csvDq ++ '"' :: rest) = some (s, rest) := by
  induction s generalizing f with
  | nil =>
    cases f with
    | zero => simp at hf
    | succ f =>
      cases rest with
      | nil => simp [readQuoted]
      | cons d r2 =>
        have : (d == '"') = false := by
          cases hd : (d == '"') with
          | false => rfl
          | true => have : d = '"' := by simpa using hd
                    subst this; exact absurd rfl (hrest r2)
        simp [readQuoted, this]
  | cons c s ih =>
    cases f with
    | zero => simp at hf
    | succ f =>
      have hf' : s.length < f := by simp at hf; omega
      by_cases hc : c = '"'
      · subst hc
        simp only [List.flatMap_cons, csvDq, beq_self_eq_true, if_true, List.cons_append, List.nil_append, readQuoted]
        rw [ih f hf']; rfl
      · have hc' : (c == '"') = false := by simp [hc]
        simp only [List.flatMap_cons, csvDq, hc', Bool.false_eq_true, if_false, List.cons_append, List.nil_append, readQuoted]
        rw [ih f hf']; rfl

theorem readPlain_roundtrip (s rest : Str) (hs : ∀ c ∈ s, c ≠ ',' ∧ c ≠ '\n' ∧ c ≠ '\r')
    (hrest : rest = [] ∨ ∃ d r, rest = d :: r ∧ (d = ',' ∨ d = '\n' ∨ d = '\r')) :
    readPlain (s ++ rest) = (s, rest) := by
  induction s with
  | nil =>
    rcases hrest with rfl | ⟨d, r, rfl, hd⟩
    · rfl
    · rcases hd with rfl | rfl | rfl <;> simp [readPlain]
  | cons c s ih =>
    obtain ⟨h1, h2, h3⟩ := hs c (by simp)
    have ih' := ih (fun d hd => hs d (by simp [hd]))
    simp [readPlain, h1, h2, h3, ih']

/-- every CSV field is read back as the value, whatever follows it in the record -/
theorem csv_field_roundtrip (single : Bool) (s rest : Str)
    (hrest : rest = [] ∨ ∃ d r, rest = d :: r ∧ (d = ',' ∨ d = '\n' ∨ d = '\r')) (f : Nat) (hf : s.length < f) :
    readCsvField f (csvField single s ++ rest) = some (s, rest) := by
  rw [csvField_eq]
  have hq : ∀ r, rest ≠ '"' :: r := by
    intro r h
    rcases hrest with h0 | ⟨d, r', h1, hd⟩
    · rw [h0] at h; simp at h
    · rw [h1] at h; simp at h; rcases hd with rfl | rfl | rfl <;> simp at h
  split
  · simp only [List.append_assoc, List.cons_append, List.nil_append, readCsvField]
    exact readQuoted_roundtrip s rest hq f hf
  · rename_i hplain
    have hs : ∀ c ∈ s, c ≠ '"' ∧ c ≠ ',' ∧ c ≠ '\n' ∧ c ≠ '\r' := by
      intro c hc
      have : s.any csvSpecial = false := by
        cases hh : s.any csvSpecial with
        | false => rfl
        | true => simp [hh] at hplain
      have hcs := List.any_eq_false.mp this c hc
      simp [csvSpecial] at hcs
      exact ⟨hcs.1.1.1, hcs.1.1.2, hcs.1.2, hcs.2⟩
    cases s with
    | nil =>
      rcases hrest with rfl | ⟨d, r, rfl, hd⟩
      · rfl
      · have : d ≠ '"' := by rcases hd with rfl | rfl | rfl <;> decide
        simp only [List.nil_append]
        unfold readCsvField
        split
        · rename_i r2 heq; simp at heq; exact absurd heq.1 this
        · have := readPlain_roundtrip [] (d :: r) (by simp) (Or.inr ⟨d, r, rfl, hd⟩)
          simp only [List.nil_append] at this
          rw [this]
    | cons c s' =>
      have hc := (hs c (by simp)).1
      unfold readCsvField
      split
      · rename_i r2 heq; simp at heq; exact absurd heq.1 hc
      · rw [readPlain_roundtrip (c :: s') rest (fun d hd => (hs d hd).2) hrest]

-- ------------------------------------------------------------------ flat formats

theorem splitChar_go_append (sep : Char) (v : Str) (hv : ∀ c ∈ v, c ≠ sep) (rest acc : Str) :
    splitChar.go sep (v ++ sep :: rest) acc = (acc.reverse ++ v) :: splitChar.go sep rest [] := by
  induction v generalizing acc with
  | nil => simp [splitChar.go]
  | cons c v ih =>
    have hc : (c == sep) = false := by
      have := hv c (by simp); simp [this]
    simp only [List.cons_append, splitChar.go, hc, Bool.false_eq_true, if_false]
    rw [ih (fun d hd => hv d (by simp [hd]))]
    simp

theorem splitChar_go_last (sep : Char) (v : Str) (hv : ∀ c ∈ v, c ≠ sep) (acc : Str) :
    splitChar.go sep v acc = [acc.reverse ++ v] := by
  induction v generalizing acc with
  | nil => simp [splitChar.go]
  | cons c v ih =>
    have hc : (c == sep) = false := by
      have := hv c (by simp); simp [this]
    simp only [splitChar.go, hc, Bool.false_eq_true, if_false]
    rw [ih (fun d hd => hv d (by simp [hd]))]
    simp

/-- a `tabs` / `lines` / `list` row splits back into its values when no value contains the separator -/
theorem flat_roundtrip (sep : Char) (vals : List Str) (hne : vals ≠ [])
    (h : ∀ v ∈ vals, ∀ c ∈ v, c ≠ sep) : splitChar sep (joinWith [sep] vals) = vals := by
  unfold splitChar
  induction vals with
  | nil => exact absurd rfl hne
  | cons v vs ih =>
    cases vs with
    | nil => simp [joinWith, splitChar_go_last sep v (h v (by simp))]
    | cons w ws =>
      have hj : joinWith [sep] (v :: w :: ws) = v ++ sep :: joinWith [sep] (w :: ws) := by
        simp [joinWith]
      rw [hj, splitChar_go_append sep v (h v (by simp))]
      rw [ih (by simp) (fun x hx => h x (by simp [hx]))]
      simp

end Fsel.C09
