/-
  C09  Every output format is well-formed and carries exactly the result table.

  Model: `Output.lean` (emitters).  Reference readers are defined here (used only in theorems).
  Theorems, for every value (any characters, any length):
  * `json_string_roundtrip` — serde-style escaping is inverted by the JSON string grammar's reader, which
    *rejects* a raw `"` or control character: so the emitted body is clean and a JSON parser finds
    exactly the value;
  * `csv_field_roundtrip` — RFC 4180 quoting is inverted by the field reader (quoted: doubled quotes;
    unquoted: up to the next delimiter), whatever follows the field;
  * `html_roundtrip` — unescaping the cell text gives the value; `html_cell_clean` — the cell text
    contains no `<` and no `>` (D18 fixed);
  * `flat_roundtrip` — `tabs`/`lines`/`list` rows split back into the values when no value contains
    the separator (the hypothesis the property states).
  Whole rows and documents, for every table (any number of rows and columns, any values):
  * `csv_record_roundtrip`, `csv_document_roundtrip` — the CSV output read by an RFC 4180 record reader is
    exactly the list of rows (one record per row, also for the lone empty field);
  * `json_literal_roundtrip` (a string literal in context), `json_object_roundtrip`,
    `json_document_roundtrip` — header `[`, rows joined by `,`, footer `]` is read back as one array with
    one object per row, each object being the key/value map the row was written from.
  Not claimed: two select-list columns with the same text share one JSON key (known finding D19; the
  theorems speak about `rowMap`, which keeps the last value of a repeated key).
  * `list_document_roundtrip` — the `into list` output split at NUL is all the cells of all the rows, in order;
  * `html_text_in_context`, `html_row_roundtrip`, `html_document_roundtrip` — header, one `<tr>` per row with
    one `<td>` per value, footer is read back as the list of rows, each cell unescaped to its value.
  That the four result paths emit header/rows/separators/footer in this shape is
  decided by the correspondence (bytes equal to the model) and by Python's json/csv/html parsers against
  the `into list` run.
-/
import Fsel.Model.Output

namespace Fsel.C09
open Fsel

theorem char_ofNat_toNat (c : Char) : Char.ofNat c.toNat = c := Char.ofNat_toNat c

-- ------------------------------------------------------------------ JSON strings

def jsonEscChar (c : Char) : Str :=
  if c == '"' then ['\\', '"']
  else if c == '\\' then ['\\', '\\']
  else if c == '\n' then ['\\', 'n']
  else if c == '\r' then ['\\', 'r']
  else if c == '\t' then ['\\', 't']
  else if c.toNat == 8 then ['\\', 'b']
  else if c.toNat == 12 then ['\\', 'f']
  else if c.toNat < 0x20 then ['\\', 'u', '0', '0', hexDigit (c.toNat / 16), hexDigit (c.toNat % 16)]
  else [c]

theorem jsonEscape_eq (s : Str) : jsonEscape s = ['"'] ++ s.flatMap jsonEscChar ++ ['"'] := rfl

def hexv (c : Char) : Nat :=
  if '0' ≤ c ∧ c ≤ '9' then c.toNat - 48 else if 'a' ≤ c ∧ c ≤ 'f' then c.toNat - 87 else c.toNat - 55

/-- one character of a JSON string body (RFC 8259): an escape, or any character except `"`, `\` and
    the control characters — those are rejected -/
def readJsonChar : Str → Option (Char × Str)
  | [] => none
  | c :: r =>
    if c == '\\' then
      match r with
      | [] => none
      | e :: r2 =>
        if e == '"' then some ('"', r2)
        else if e == '\\' then some ('\\', r2)
        else if e == '/' then some ('/', r2)
        else if e == 'n' then some ('\n', r2)
        else if e == 'r' then some ('\r', r2)
        else if e == 't' then some ('\t', r2)
        else if e == 'b' then some (Char.ofNat 8, r2)
        else if e == 'f' then some (Char.ofNat 12, r2)
        else if e == 'u' then
          match r2 with
          | a :: b :: x :: y :: r3 =>
            if a == '0' && b == '0' then some (Char.ofNat (hexv x * 16 + hexv y), r3) else none
          | _ => none
        else none
    else if c == '"' then none
    else if c.toNat < 0x20 then none
    else some (c, r)

/-- reader of a whole string body -/
def readJsonBody : Nat → Str → Option Str
  | 0, _ => none
  | _ + 1, [] => some []
  | f + 1, s =>
    match readJsonChar s with
    | none => none
    | some (c, r) => (readJsonBody f r).map (c :: ·)

theorem ctrl_hex (n : Nat) (h : n < 32) :
    Char.ofNat (hexv (hexDigit (n / 16)) * 16 + hexv (hexDigit (n % 16))) = Char.ofNat n := by
  have : n = 0 ∨ n = 1 ∨ n = 2 ∨ n = 3 ∨ n = 4 ∨ n = 5 ∨ n = 6 ∨ n = 7 ∨ n = 8 ∨ n = 9 ∨ n = 10 ∨ n = 11 ∨ n = 12 ∨
      n = 13 ∨ n = 14 ∨ n = 15 ∨ n = 16 ∨ n = 17 ∨ n = 18 ∨ n = 19 ∨ n = 20 ∨ n = 21 ∨ n = 22 ∨ n = 23 ∨ n = 24 ∨
      n = 25 ∨ n = 26 ∨ n = 27 ∨ n = 28 ∨ n = 29 ∨ n = 30 ∨ n = 31 := by omega
  rcases this with h | h | h | h | h | h | h | h | h | h | h | h | h | h | h | h | h | h | h | h | h | h | h | h | h | h | h | h | h | h | h | h <;>
    subst h <;> decide

/-- one escaped character is read back as that character -/
theorem read_escaped (c : Char) (r : Str) : readJsonChar (jsonEscChar c ++ r) = some (c, r) := by
  unfold jsonEscChar
  by_cases h1 : c = '"'
  · subst h1; rfl
  by_cases h2 : c = '\\'
  · subst h2; rfl
  by_cases h3 : c = '\n'
  · subst h3; rfl
  by_cases h4 : c = '\r'
  · subst h4; rfl
  by_cases h5 : c = '\t'
  · subst h5; rfl
  by_cases h6 : c.toNat = 8
  · have : c = Char.ofNat 8 := by rw [← h6, char_ofNat_toNat]
    subst this; rfl
  by_cases h7 : c.toNat = 12
  · have : c = Char.ofNat 12 := by rw [← h7, char_ofNat_toNat]
    subst this; rfl
  by_cases h8 : c.toNat < 0x20
  · simp only [beq_iff_eq, h1, h2, h3, h4, h5, h6, h7, h8, if_false, if_true]
    have : readJsonChar (['\\', 'u', '0', '0', hexDigit (c.toNat / 16), hexDigit (c.toNat % 16)] ++ r) =
        some (Char.ofNat (hexv (hexDigit (c.toNat / 16)) * 16 + hexv (hexDigit (c.toNat % 16))), r) := rfl
    rw [this, ctrl_hex c.toNat h8, char_ofNat_toNat]
  · simp only [beq_iff_eq, h1, h2, h3, h4, h5, h6, h7, h8, if_false]
    simp only [List.cons_append, List.nil_append, readJsonChar, beq_iff_eq, h1, h2, h8, if_false]

/-- escaping followed by the JSON string reader is the identity, for every value -/
theorem json_string_roundtrip (s : Str) (f : Nat) (hf : s.length < f) :
    readJsonBody f (s.flatMap jsonEscChar) = some s := by
  induction s generalizing f with
  | nil => cases f with
    | zero => simp at hf
    | succ f => rfl
  | cons c s ih =>
    cases f with
    | zero => simp at hf
    | succ f =>
      simp only [List.flatMap_cons]
      have hne : jsonEscChar c ++ s.flatMap jsonEscChar ≠ [] := by
        have : jsonEscChar c ≠ [] := by unfold jsonEscChar; repeat' split
                                        all_goals simp
        intro h; exact this (List.append_eq_nil_iff.mp h).1
      have hstep := read_escaped c (s.flatMap jsonEscChar)
      cases hb : jsonEscChar c ++ s.flatMap jsonEscChar with
      | nil => exact absurd hb hne
      | cons x xs =>
        rw [hb] at hstep
        simp only [readJsonBody, hstep]
        rw [ih f (by simp at hf; omega)]
        rfl

-- ------------------------------------------------------------------ HTML cells

def htmlEscChar (c : Char) : Str :=
  if c == '&' then ofS "&amp;" else if c == '<' then ofS "&lt;" else if c == '>' then ofS "&gt;"
  else if c == '"' then ofS "&quot;" else if c == '\'' then ofS "&#39;" else [c]

theorem htmlEscape_eq (s : Str) : htmlEscape s = s.flatMap htmlEscChar := rfl

/-- reference reader of character data: the five entities, everything else literally -/
def readHtmlChar (s : Str) : Option (Char × Str) :=
  match s with
  | [] => none
  | c :: r =>
    if c == '&' then
      if (ofS "amp;").isPrefixOf r then some ('&', r.drop 4)
      else if (ofS "lt;").isPrefixOf r then some ('<', r.drop 3)
      else if (ofS "gt;").isPrefixOf r then some ('>', r.drop 3)
      else if (ofS "quot;").isPrefixOf r then some ('"', r.drop 5)
      else if (ofS "#39;").isPrefixOf r then some ('\'', r.drop 4)
      else none
    else if c == '<' || c == '>' then none
    else some (c, r)

def readHtmlText : Nat → Str → Option Str
  | 0, _ => none
  | _ + 1, [] => some []
  | f + 1, s =>
    match readHtmlChar s with
    | none => none
    | some (c, r) => (readHtmlText f r).map (c :: ·)

theorem read_html_escaped (c : Char) (r : Str) : readHtmlChar (htmlEscChar c ++ r) = some (c, r) := by
  unfold htmlEscChar
  by_cases h1 : c = '&'
  · subst h1; simp [readHtmlChar, ofS, List.isPrefixOf]
  by_cases h2 : c = '<'
  · subst h2; simp [readHtmlChar, ofS, List.isPrefixOf]
  by_cases h3 : c = '>'
  · subst h3; simp [readHtmlChar, ofS, List.isPrefixOf]
  by_cases h4 : c = '"'
  · subst h4; simp [readHtmlChar, ofS, List.isPrefixOf]
  by_cases h5 : c = '\''
  · subst h5; simp [readHtmlChar, ofS, List.isPrefixOf]
  simp [readHtmlChar, h1, h2, h3, h4, h5]

/-- unescaping the emitted cell text gives the value, for every value -/
theorem html_roundtrip (s : Str) (f : Nat) (hf : s.length < f) :
    readHtmlText f (htmlEscape s) = some s := by
  rw [htmlEscape_eq]
  induction s generalizing f with
  | nil => cases f with
    | zero => simp at hf
    | succ f => rfl
  | cons c s ih =>
    cases f with
    | zero => simp at hf
    | succ f =>
      simp only [List.flatMap_cons]
      have hne : htmlEscChar c ++ s.flatMap htmlEscChar ≠ [] := by
        have : htmlEscChar c ≠ [] := by unfold htmlEscChar; repeat' split
                                        all_goals simp [ofS]
        intro h; exact this (List.append_eq_nil_iff.mp h).1
      have hstep := read_html_escaped c (s.flatMap htmlEscChar)
      cases hb : htmlEscChar c ++ s.flatMap htmlEscChar with
      | nil => exact absurd hb hne
      | cons x xs =>
        rw [hb] at hstep
        simp only [readHtmlText, hstep]
        rw [ih f (by simp at hf; omega)]
        rfl

/-- the emitted cell text contains no markup delimiter -/
theorem html_cell_clean (s : Str) : ∀ c ∈ htmlEscape s, c ≠ '<' ∧ c ≠ '>' := by
  intro c hc
  rw [htmlEscape_eq, List.mem_flatMap] at hc
  obtain ⟨d, _, hd⟩ := hc
  unfold htmlEscChar at hd
  by_cases h1 : d = '&'
  · subst h1; simp [ofS] at hd; rcases hd with rfl | rfl | rfl | rfl | rfl <;> decide
  by_cases h2 : d = '<'
  · subst h2; simp [ofS] at hd; rcases hd with rfl | rfl | rfl | rfl <;> decide
  by_cases h3 : d = '>'
  · subst h3; simp [ofS] at hd; rcases hd with rfl | rfl | rfl | rfl <;> decide
  by_cases h4 : d = '"'
  · subst h4; simp [ofS] at hd; rcases hd with rfl | rfl | rfl | rfl | rfl | rfl <;> decide
  by_cases h5 : d = '\''
  · subst h5; simp [ofS] at hd; rcases hd with rfl | rfl | rfl | rfl | rfl <;> decide
  simp [h1, h2, h3, h4, h5] at hd
  subst hd
  exact ⟨h2, h3⟩

-- ------------------------------------------------------------------ CSV fields

def csvDq (c : Char) : Str := if c == '"' then ['"', '"'] else [c]

def csvSpecial (c : Char) : Bool := c == '"' || c == ',' || c == '\n' || c == '\r'

theorem csvField_eq (single : Bool) (s : Str) :
    csvField single s = if s.any csvSpecial || (single && s.isEmpty) then ['"'] ++ s.flatMap csvDq ++ ['"'] else s := rfl

/-- RFC 4180 reader, inside a quoted field (after the opening quote): returns the value and what
    follows the closing quote -/
def readQuoted : Nat → Str → Option (Str × Str)
  | 0, _ => none
  | _ + 1, [] => none
  | f + 1, c :: r =>
    if c == '"' then
      match r with
      | [] => some ([], [])
      | d :: r2 => if d == '"' then (readQuoted f r2).map (fun p => ('"' :: p.1, p.2)) else some ([], d :: r2)
    else (readQuoted f r).map (fun p => (c :: p.1, p.2))

/-- RFC 4180 reader of an unquoted field: up to the next delimiter or line break -/
def readPlain : Str → Str × Str
  | [] => ([], [])
  | c :: r => if c == ',' || c == '\n' || c == '\r' then ([], c :: r) else ((readPlain r).1.cons c, (readPlain r).2)

def readCsvField (f : Nat) : Str → Option (Str × Str)
  | '"' :: r => readQuoted f r
  | s => some (readPlain s)

theorem readQuoted_roundtrip (s rest : Str) (hrest : ∀ r, rest ≠ '"' :: r) (f : Nat) (hf : s.length < f) :
    readQuoted f (s.flatMap csvDq ++ '"' :: rest) = some (s, rest) := by
  induction s generalizing f with
  | nil =>
    cases f with
    | zero => simp at hf
    | succ f =>
      cases rest with
      | nil => simp [readQuoted]
      | cons d r2 =>
        have : (d == '"') = false := by
          cases hd : (d == '"') with
          | false => rfl
          | true => have : d = '"' := by simpa using hd
                    subst this; exact absurd rfl (hrest r2)
        simp [readQuoted, this]
  | cons c s ih =>
    cases f with
    | zero => simp at hf
    | succ f =>
      have hf' : s.length < f := by simp at hf; omega
      by_cases hc : c = '"'
      · subst hc
        simp only [List.flatMap_cons, csvDq, beq_self_eq_true, if_true, List.cons_append, List.nil_append, readQuoted]
        rw [ih f hf']; rfl
      · have hc' : (c == '"') = false := by simp [hc]
        simp only [List.flatMap_cons, csvDq, hc', Bool.false_eq_true, if_false, List.cons_append, List.nil_append, readQuoted]
        rw [ih f hf']; rfl

theorem readPlain_roundtrip (s rest : Str) (hs : ∀ c ∈ s, c ≠ ',' ∧ c ≠ '\n' ∧ c ≠ '\r')
    (hrest : rest = [] ∨ ∃ d r, rest = d :: r ∧ (d = ',' ∨ d = '\n' ∨ d = '\r')) :
    readPlain (s ++ rest) = (s, rest) := by
  induction s with
  | nil =>
    rcases hrest with rfl | ⟨d, r, rfl, hd⟩
    · rfl
    · rcases hd with rfl | rfl | rfl <;> simp [readPlain]
  | cons c s ih =>
    obtain ⟨h1, h2, h3⟩ := hs c (by simp)
    have ih' := ih (fun d hd => hs d (by simp [hd]))
    simp [readPlain, h1, h2, h3, ih']

/-- every CSV field is read back as the value, whatever follows it in the record -/
theorem csv_field_roundtrip (single : Bool) (s rest : Str)
    (hrest : rest = [] ∨ ∃ d r, rest = d :: r ∧ (d = ',' ∨ d = '\n' ∨ d = '\r')) (f : Nat) (hf : s.length < f) :
    readCsvField f (csvField single s ++ rest) = some (s, rest) := by
  rw [csvField_eq]
  have hq : ∀ r, rest ≠ '"' :: r := by
    intro r h
    rcases hrest with h0 | ⟨d, r', h1, hd⟩
    · rw [h0] at h; simp at h
    · rw [h1] at h; simp at h; rcases hd with rfl | rfl | rfl <;> simp at h
  split
  · simp only [List.append_assoc, List.cons_append, List.nil_append, readCsvField]
    exact readQuoted_roundtrip s rest hq f hf
  · rename_i hplain
    have hs : ∀ c ∈ s, c ≠ '"' ∧ c ≠ ',' ∧ c ≠ '\n' ∧ c ≠ '\r' := by
      intro c hc
      have : s.any csvSpecial = false := by
        cases hh : s.any csvSpecial with
        | false => rfl
        | true => simp [hh] at hplain
      have hcs := List.any_eq_false.mp this c hc
      simp [csvSpecial] at hcs
      exact ⟨hcs.1.1.1, hcs.1.1.2, hcs.1.2, hcs.2⟩
    cases s with
    | nil =>
      rcases hrest with rfl | ⟨d, r, rfl, hd⟩
      · rfl
      · have : d ≠ '"' := by rcases hd with rfl | rfl | rfl <;> decide
        simp only [List.nil_append]
        unfold readCsvField
        split
        · rename_i r2 heq; simp at heq; exact absurd heq.1 this
        · have := readPlain_roundtrip [] (d :: r) (by simp) (Or.inr ⟨d, r, rfl, hd⟩)
          simp only [List.nil_append] at this
          rw [this]
    | cons c s' =>
      have hc := (hs c (by simp)).1
      unfold readCsvField
      split
      · rename_i r2 heq; simp at heq; exact absurd heq.1 hc
      · rw [readPlain_roundtrip (c :: s') rest (fun d hd => (hs d hd).2) hrest]

-- ------------------------------------------------------------------ whole HTML rows and documents

def stripPrefix (p s : Str) : Option Str := if p.isPrefixOf s then some (s.drop p.length) else none

theorem stripPrefix_append (p r : Str) : stripPrefix p (p ++ r) = some r := by
  unfold stripPrefix
  have h : p.isPrefixOf (p ++ r) = true := List.isPrefixOf_iff_prefix.mpr (List.prefix_append p r)
  simp [h]

/-- character data up to the next tag -/
def readHtmlUntilTag : Nat → Str → Option (Str × Str)
  | 0, _ => none
  | _ + 1, [] => none
  | f + 1, c :: r =>
    if c == '<' then some ([], c :: r)
    else match readHtmlChar (c :: r) with
      | none => none
      | some (d, r2) => (readHtmlUntilTag f r2).map (fun p => (d :: p.1, p.2))

theorem htmlEscChar_head (c : Char) : ∃ x xs, htmlEscChar c = x :: xs ∧ (x == '<') = false := by
  unfold htmlEscChar
  by_cases h1 : c = '&'
  · subst h1; exact ⟨'&', _, rfl, by decide⟩
  by_cases h2 : c = '<'
  · subst h2; exact ⟨'&', _, rfl, by decide⟩
  by_cases h3 : c = '>'
  · subst h3; exact ⟨'&', _, rfl, by decide⟩
  by_cases h4 : c = '"'
  · subst h4; exact ⟨'&', _, rfl, by decide⟩
  by_cases h5 : c = '\''
  · subst h5; exact ⟨'&', _, rfl, by decide⟩
  exact ⟨c, [], by simp [h1, h2, h3, h4, h5], by simp [h2]⟩

/-- **the text of a cell, read up to the closing tag, is the value** — whatever follows the tag -/
theorem html_text_in_context (s rest : Str) (f : Nat) (hf : s.length < f) :
    readHtmlUntilTag f (htmlEscape s ++ '<' :: rest) = some (s, '<' :: rest) := by
  rw [htmlEscape_eq]
  induction s generalizing f with
  | nil => cases f with
    | zero => simp at hf
    | succ f => simp [readHtmlUntilTag]
  | cons c s ih =>
    cases f with
    | zero => simp at hf
    | succ f =>
      simp only [List.flatMap_cons, List.append_assoc]
      obtain ⟨x, xs, hx, hq⟩ := htmlEscChar_head c
      have hstep := read_html_escaped c (s.flatMap htmlEscChar ++ '<' :: rest)
      rw [hx] at hstep ⊢
      simp only [List.cons_append] at hstep ⊢
      simp only [readHtmlUntilTag, hq, Bool.false_eq_true, if_false, hstep]
      rw [ih f (by simp at hf; omega)]
      rfl

def htmlCell (v : Str) : Str := ofS "<td>" ++ htmlEscape v ++ ofS "</td>"
def htmlRow (vals : List Str) : Str := ofS "<tr>" ++ vals.flatMap htmlCell ++ ofS "</tr>"

theorem fmtRow_html (items : List (Str × Str)) : fmtRow .Html items = htmlRow (items.map (·.2)) := rfl

def readHtmlCell (f : Nat) (s : Str) : Option (Str × Str) :=
  match stripPrefix (ofS "<td>") s with
  | none => none
  | some r =>
    match readHtmlUntilTag f r with
    | none => none
    | some (v, r2) => (stripPrefix (ofS "</td>") r2).map (fun r3 => (v, r3))

theorem html_cell_roundtrip (v rest : Str) (f : Nat) (hf : v.length < f) :
    readHtmlCell f (htmlCell v ++ rest) = some (v, rest) := by
  unfold readHtmlCell htmlCell
  rw [List.append_assoc, List.append_assoc, stripPrefix_append]
  simp only
  have h : htmlEscape v ++ (ofS "</td>" ++ rest) = htmlEscape v ++ '<' :: (ofS "/td>" ++ rest) := rfl
  rw [h, html_text_in_context v _ f hf]
  simp only
  have h2 : ('<' :: (ofS "/td>" ++ rest)) = ofS "</td>" ++ rest := rfl
  rw [h2, stripPrefix_append]
  rfl

/-- the cells of a row, up to `</tr>` -/
def readHtmlCells (f : Nat) : Nat → Str → Option (List Str × Str)
  | 0, _ => none
  | n + 1, s =>
    match stripPrefix (ofS "</tr>") s with
    | some r => some ([], r)
    | none =>
      match readHtmlCell f s with
      | none => none
      | some (v, r) => (readHtmlCells f n r).map (fun p => (v :: p.1, p.2))

theorem cell_not_row_end (v rest : Str) : stripPrefix (ofS "</tr>") (htmlCell v ++ rest) = none := by
  simp [stripPrefix, htmlCell, ofS, List.isPrefixOf]

theorem html_cells_roundtrip (f : Nat) (vals : List Str) (rest : Str) (hf : ∀ v ∈ vals, v.length < f)
    (n : Nat) (hn : vals.length < n) :
    readHtmlCells f n (vals.flatMap htmlCell ++ ofS "</tr>" ++ rest) = some (vals, rest) := by
  induction vals generalizing n with
  | nil =>
    cases n with
    | zero => simp at hn
    | succ n =>
      simp only [List.flatMap_nil, List.nil_append, readHtmlCells, stripPrefix_append]
  | cons v vs ih =>
    cases n with
    | zero => simp at hn
    | succ n =>
      simp only [List.flatMap_cons, List.append_assoc, readHtmlCells]
      rw [cell_not_row_end, html_cell_roundtrip v _ f (hf v (by simp))]
      simp only
      have := ih (fun x hx => hf x (by simp [hx])) n (by simp at hn ⊢; omega)
      simp only [List.append_assoc] at this
      rw [this]
      rfl

def readHtmlRow (f n : Nat) (s : Str) : Option (List Str × Str) :=
  match stripPrefix (ofS "<tr>") s with
  | none => none
  | some r => readHtmlCells f n r

/-- **one table row carries exactly the row**: cells in order, each decoding to its value -/
theorem html_row_roundtrip (f : Nat) (vals : List Str) (rest : Str) (hf : ∀ v ∈ vals, v.length < f) (n : Nat) (hn : vals.length < n) :
    readHtmlRow f n (htmlRow vals ++ rest) = some (vals, rest) := by
  unfold readHtmlRow htmlRow
  rw [List.append_assoc, List.append_assoc, stripPrefix_append]
  simp only
  have := html_cells_roundtrip f vals rest hf n hn
  simp only [List.append_assoc] at this
  exact this

/-- the rows of a table, up to the footer -/
def readHtmlRows (f w : Nat) : Nat → Str → Option (List (List Str))
  | 0, _ => none
  | n + 1, s =>
    if s == fmtFooter .Html then some []
    else match readHtmlRow f w s with
      | none => none
      | some (row, r) => (readHtmlRows f w n r).map (row :: ·)

theorem row_not_footer (vals : List Str) (rest : Str) : (htmlRow vals ++ rest == fmtFooter .Html) = false := by
  have : (htmlRow vals ++ rest) = '<' :: 't' :: (ofS "r>" ++ vals.flatMap htmlCell ++ ofS "</tr>" ++ rest) := by
    simp [htmlRow, ofS]
  rw [this]
  simp [fmtFooter, ofS]

theorem html_rows_roundtrip (f w : Nat) (rows : List (List Str)) (hf : ∀ r ∈ rows, ∀ v ∈ r, v.length < f)
    (hw : ∀ r ∈ rows, r.length < w) (n : Nat) (hn : rows.length < n) :
    readHtmlRows f w n (rows.flatMap htmlRow ++ fmtFooter .Html) = some rows := by
  induction rows generalizing n with
  | nil =>
    cases n with
    | zero => simp at hn
    | succ n => simp [readHtmlRows]
  | cons r rs ih =>
    cases n with
    | zero => simp at hn
    | succ n =>
      simp only [List.flatMap_cons, List.append_assoc, readHtmlRows, row_not_footer, Bool.false_eq_true, if_false]
      rw [html_row_roundtrip f r _ (hf r (by simp)) w (hw r (by simp))]
      simp only
      rw [ih (fun q hq => hf q (by simp [hq])) (fun q hq => hw q (by simp [hq])) n (by simp at hn ⊢; omega)]
      rfl

def readHtmlDoc (f w n : Nat) (s : Str) : Option (List (List Str)) :=
  match stripPrefix (fmtHeader .Html) s with
  | none => none
  | some r => readHtmlRows f w n r

/-- **the HTML output carries exactly the result table**: header, one `<tr>` per row with one `<td>` per
    value, footer — read back as the list of rows, every cell unescaped to its value (for every table of
    arbitrary values; the row separator of this format is empty) -/
theorem html_document_roundtrip (f w : Nat) (rows : List (List (Str × Str)))
    (hf : ∀ r ∈ rows, ∀ kv ∈ r, kv.2.length < f) (hw : ∀ r ∈ rows, r.length < w) :
    readHtmlDoc f w (rows.length + 1)
      (fmtHeader .Html ++ (rows.map (fmtRow .Html)).flatten ++ fmtFooter .Html) = some (rows.map fun r => r.map (·.2)) := by
  unfold readHtmlDoc
  rw [List.append_assoc, stripPrefix_append]
  simp only
  have hfl : (rows.map (fmtRow .Html)).flatten = (rows.map fun r => r.map (·.2)).flatMap htmlRow := by
    induction rows with
    | nil => rfl
    | cons r rs ih =>
      simp only [List.map_cons, List.flatten_cons, List.flatMap_cons, fmtRow_html]
      rw [ih (fun q hq => hf q (by simp [hq])) (fun q hq => hw q (by simp [hq]))]
  rw [hfl]
  exact html_rows_roundtrip f w _ (by
      intro r hr v hv
      simp only [List.mem_map] at hr
      obtain ⟨r0, hr0, rfl⟩ := hr
      simp only [List.mem_map] at hv
      obtain ⟨kv, hkv, rfl⟩ := hv
      exact hf r0 hr0 kv hkv)
    (by
      intro r hr
      simp only [List.mem_map] at hr
      obtain ⟨r0, hr0, rfl⟩ := hr
      simpa using hw r0 hr0) (rows.length + 1) (by simp)

/-- the row separator of the HTML (and of every format but JSON) is empty: joined rows are the concatenation -/
example : fmtSeparator .Html = [] ∧ fmtSeparator .Csv = [] ∧ fmtSeparator .Tabs = [] := ⟨rfl, rfl, rfl⟩


-- ------------------------------------------------------------------ flat formats

theorem splitChar_go_append (sep : Char) (v : Str) (hv : ∀ c ∈ v, c ≠ sep) (rest acc : Str) :
    splitChar.go sep (v ++ sep :: rest) acc = (acc.reverse ++ v) :: splitChar.go sep rest [] := by
  induction v generalizing acc with
  | nil => simp [splitChar.go]
  | cons c v ih =>
    have hc : (c == sep) = false := by
      have := hv c (by simp); simp [this]
    simp only [List.cons_append, splitChar.go, hc, Bool.false_eq_true, if_false]
    rw [ih (fun d hd => hv d (by simp [hd]))]
    simp

theorem splitChar_go_last (sep : Char) (v : Str) (hv : ∀ c ∈ v, c ≠ sep) (acc : Str) :
    splitChar.go sep v acc = [acc.reverse ++ v] := by
  induction v generalizing acc with
  | nil => simp [splitChar.go]
  | cons c v ih =>
    have hc : (c == sep) = false := by
      have := hv c (by simp); simp [this]
    simp only [splitChar.go, hc, Bool.false_eq_true, if_false]
    rw [ih (fun d hd => hv d (by simp [hd]))]
    simp

/-- a `tabs` / `lines` / `list` row splits back into its values when no value contains the separator -/
theorem flat_roundtrip (sep : Char) (vals : List Str) (hne : vals ≠ [])
    (h : ∀ v ∈ vals, ∀ c ∈ v, c ≠ sep) : splitChar sep (joinWith [sep] vals) = vals := by
  unfold splitChar
  induction vals with
  | nil => exact absurd rfl hne
  | cons v vs ih =>
    cases vs with
    | nil => simp [joinWith, splitChar_go_last sep v (h v (by simp))]
    | cons w ws =>
      have hj : joinWith [sep] (v :: w :: ws) = v ++ sep :: joinWith [sep] (w :: ws) := by
        simp [joinWith]
      rw [hj, splitChar_go_append sep v (h v (by simp))]
      rw [ih (by simp) (fun x hx => h x (by simp [hx]))]
      simp

-- ------------------------------------------------------------------ whole CSV records and documents

/-- RFC 4180 record reader: fields separated by commas, closed by a line feed; `ff` is the fuel of the
    field reader, the first `Nat` bounds the number of fields -/
def readCsvRecord (ff : Nat) : Nat → Str → Option (List Str × Str)
  | 0, _ => none
  | n + 1, s =>
    match readCsvField ff s with
    | none => none
    | some (v, ',' :: r) => (readCsvRecord ff n r).map (fun p => (v :: p.1, p.2))
    | some (v, '\n' :: r) => some ([v], r)
    | some _ => none

theorem joinWith_cons2 (sep : Str) (x y : Str) (ys : List Str) :
    joinWith sep (x :: y :: ys) = x ++ sep ++ joinWith sep (y :: ys) := rfl

/-- a record of quoted/unquoted fields is read back as its values, whatever `single` is -/
theorem csv_fields_roundtrip (single : Bool) (ff : Nat) (vals : List Str) (hne : vals ≠ []) (rest : Str)
    (hf : ∀ v ∈ vals, v.length < ff) (n : Nat) (hn : vals.length ≤ n) :
    readCsvRecord ff n (joinWith [','] (vals.map (csvField single)) ++ '\n' :: rest) = some (vals, rest) := by
  induction vals generalizing n with
  | nil => exact absurd rfl hne
  | cons v vs ih =>
    cases n with
    | zero => simp at hn
    | succ n =>
      cases vs with
      | nil =>
        simp only [List.map_cons, List.map_nil, joinWith, readCsvRecord]
        rw [csv_field_roundtrip single v ('\n' :: rest) (Or.inr ⟨'\n', rest, rfl, Or.inr (Or.inl rfl)⟩) ff (hf v (by simp))]
        rfl
      | cons w ws =>
        simp only [List.map_cons, joinWith_cons2, List.append_assoc, List.cons_append, List.nil_append, readCsvRecord]
        rw [csv_field_roundtrip single v _ (Or.inr ⟨',', _, rfl, Or.inl rfl⟩) ff (hf v (by simp))]
        simp only
        have := ih (by simp) (fun x hx => hf x (by simp [hx])) n (by simp at hn ⊢; omega)
        simp only [List.map_cons] at this
        rw [this]
        rfl

/-- **one CSV record carries exactly the row**: `csvRow` (the `csv` crate's writer) followed by the
    RFC 4180 record reader is the identity on every non-empty row of arbitrary values -/
theorem csv_record_roundtrip (vals : List Str) (hne : vals ≠ []) (rest : Str) (ff : Nat)
    (hf : ∀ v ∈ vals, v.length < ff) :
    readCsvRecord ff vals.length (csvRow vals ++ rest) = some (vals, rest) := by
  unfold csvRow
  rw [List.append_assoc]
  exact csv_fields_roundtrip _ ff vals hne rest hf vals.length (Nat.le_refl _)

/-- reader of a whole CSV document: records until the input ends (`w` = fields per record at most) -/
def readCsvDoc (ff w : Nat) : Nat → Str → Option (List (List Str))
  | _, [] => some []
  | 0, _ :: _ => none
  | n + 1, s =>
    match readCsvRecord ff w s with
    | none => none
    | some (row, r) => (readCsvDoc ff w n r).map (row :: ·)

theorem csvRow_ne_nil (vals : List Str) : csvRow vals ≠ [] := by
  unfold csvRow; simp

theorem readCsvRecord_mono (ff : Nat) (vals : List Str) (hne : vals ≠ []) (rest : Str)
    (hf : ∀ v ∈ vals, v.length < ff) (w : Nat) (hw : vals.length ≤ w) :
    readCsvRecord ff w (csvRow vals ++ rest) = some (vals, rest) := by
  unfold csvRow
  rw [List.append_assoc]
  exact csv_fields_roundtrip _ ff vals hne rest hf w hw

/-- **the CSV output carries exactly the result table**: one record per row, each decoding to the
    row's values — for every table (any number of rows, every row non-empty, any values) -/
theorem csv_document_roundtrip (rows : List (List Str)) (hne : ∀ r ∈ rows, r ≠ []) (ff w : Nat)
    (hf : ∀ r ∈ rows, ∀ v ∈ r, v.length < ff) (hw : ∀ r ∈ rows, r.length ≤ w) :
    readCsvDoc ff w rows.length (rows.flatMap csvRow) = some rows := by
  induction rows with
  | nil => rfl
  | cons r rs ih =>
    simp only [List.flatMap_cons, List.length_cons]
    have hr := readCsvRecord_mono ff r (hne r (by simp)) (rs.flatMap csvRow) (hf r (by simp)) w (hw r (by simp))
    cases hc : csvRow r ++ rs.flatMap csvRow with
    | nil => exact absurd (List.append_eq_nil_iff.mp hc).1 (csvRow_ne_nil r)
    | cons x xs =>
      rw [hc] at hr
      simp only [readCsvDoc, hr]
      rw [ih (fun q hq => hne q (by simp [hq])) (fun q hq => hf q (by simp [hq])) (fun q hq => hw q (by simp [hq]))]
      rfl

/-- non-vacuity, with every special character: quotes, commas, CR, LF, the lone empty field -/
example : readCsvDoc 20 3 3 ([[ofS "a\"b", ofS "c,d", ofS "e\r\nf"], [[]], [ofS "x", []]].flatMap csvRow) =
    some [[ofS "a\"b", ofS "c,d", ofS "e\r\nf"], [[]], [ofS "x", []]] := by decide

-- ------------------------------------------------------------------ whole JSON objects and arrays

/-- JSON string reader in context: after the opening quote, up to the closing quote -/
def readJsonStrTail : Nat → Str → Option (Str × Str)
  | 0, _ => none
  | _ + 1, [] => none
  | f + 1, c :: r =>
    if c == '"' then some ([], r)
    else match readJsonChar (c :: r) with
      | none => none
      | some (d, r2) => (readJsonStrTail f r2).map (fun p => (d :: p.1, p.2))

def readJsonString (f : Nat) : Str → Option (Str × Str)
  | '"' :: r => readJsonStrTail f r
  | _ => none

theorem jsonEscChar_head (c : Char) : ∃ x xs, jsonEscChar c = x :: xs ∧ (x == '"') = false := by
  unfold jsonEscChar
  by_cases h1 : c = '"'
  · subst h1; exact ⟨'\\', ['"'], rfl, by decide⟩
  · simp only [beq_iff_eq, h1, if_false]
    repeat' split
    all_goals first
      | exact ⟨'\\', _, rfl, by decide⟩
      | exact ⟨c, [], rfl, by simp [h1]⟩

theorem json_string_in_context (s rest : Str) (f : Nat) (hf : s.length < f) :
    readJsonStrTail f (s.flatMap jsonEscChar ++ '"' :: rest) = some (s, rest) := by
  induction s generalizing f with
  | nil => cases f with
    | zero => simp at hf
    | succ f => simp [readJsonStrTail]
  | cons c s ih =>
    cases f with
    | zero => simp at hf
    | succ f =>
      simp only [List.flatMap_cons, List.append_assoc]
      obtain ⟨x, xs, hx, hq⟩ := jsonEscChar_head c
      have hstep := read_escaped c (s.flatMap jsonEscChar ++ '"' :: rest)
      rw [hx] at hstep ⊢
      simp only [List.cons_append] at hstep ⊢
      simp only [readJsonStrTail, hq, Bool.false_eq_true, if_false, hstep]
      rw [ih f (by simp at hf; omega)]
      rfl

/-- **a JSON string literal is read back as the value, whatever follows it** -/
theorem json_literal_roundtrip (s rest : Str) (f : Nat) (hf : s.length < f) :
    readJsonString f (jsonEscape s ++ rest) = some (s, rest) := by
  rw [jsonEscape_eq]
  simp only [List.append_assoc, List.cons_append, List.nil_append, readJsonString]
  exact json_string_in_context s rest f hf

/-- reader of the members of an object after `{`: `"k":"v"` separated by commas, closed by `}` -/
def readJsonMembers (f : Nat) : Nat → Str → Option (List (Str × Str) × Str)
  | 0, _ => none
  | n + 1, s =>
    match readJsonString f s with
    | some (k, ':' :: r) =>
      (match readJsonString f r with
       | some (v, ',' :: r2) => (readJsonMembers f n r2).map (fun p => ((k, v) :: p.1, p.2))
       | some (v, '}' :: r2) => some ([(k, v)], r2)
       | _ => none)
    | _ => none

def readJsonObject (f n : Nat) : Str → Option (List (Str × Str) × Str)
  | '{' :: '}' :: r => some ([], r)
  | '{' :: r => readJsonMembers f n r
  | _ => none

def jsonMember (kv : Str × Str) : Str := jsonEscape kv.1 ++ [':'] ++ jsonEscape kv.2

theorem json_members_roundtrip (f : Nat) (m : List (Str × Str)) (hne : m ≠ []) (rest : Str)
    (hf : ∀ kv ∈ m, kv.1.length < f ∧ kv.2.length < f) (n : Nat) (hn : m.length ≤ n) :
    readJsonMembers f n (joinWith [','] (m.map jsonMember) ++ '}' :: rest) = some (m, rest) := by
  induction m generalizing n with
  | nil => exact absurd rfl hne
  | cons kv ms ih =>
    obtain ⟨k, v⟩ := kv
    cases n with
    | zero => simp at hn
    | succ n =>
      have hk := (hf (k, v) (by simp)).1
      have hv := (hf (k, v) (by simp)).2
      cases ms with
      | nil =>
        simp only [List.map_cons, List.map_nil, joinWith, jsonMember, List.append_assoc, List.cons_append, List.nil_append,
          readJsonMembers]
        rw [json_literal_roundtrip k _ f hk]
        simp only
        rw [json_literal_roundtrip v _ f hv]
        rfl
      | cons kv2 ms2 =>
        simp only [List.map_cons, joinWith_cons2, jsonMember, List.append_assoc, List.cons_append, List.nil_append,
          readJsonMembers]
        rw [json_literal_roundtrip k _ f hk]
        simp only
        rw [json_literal_roundtrip v _ f hv]
        simp only
        have := ih (by simp) (fun x hx => hf x (by simp [hx])) n (by simp at hn ⊢; omega)
        simp only [List.map_cons, jsonMember, List.append_assoc, List.cons_append, List.nil_append] at this
        rw [this]
        rfl

theorem joinWith_head (sep : Str) (c : Char) (t : Str) (xs : List Str) :
    ∃ t', joinWith sep ((c :: t) :: xs) = c :: t' := by
  cases xs with
  | nil => exact ⟨t, rfl⟩
  | cons y ys => exact ⟨t ++ sep ++ joinWith sep (y :: ys), rfl⟩

theorem jsonMember_head (k v : Str) : jsonMember (k, v) = '"' :: (k.flatMap jsonEscChar ++ ['"'] ++ [':'] ++ jsonEscape v) := by
  simp [jsonMember, jsonEscape_eq]

/-- the map a row is written from: `BTreeMap` insertion of the (column, value) pairs -/
def rowMap (items : List (Str × Str)) : List (Str × Str) := items.foldl (fun acc (k, v) => btreeInsert acc k v) []

theorem jsonRow_eq (items : List (Str × Str)) :
    jsonRow items = ['{'] ++ joinWith [','] ((rowMap items).map jsonMember) ++ ['}'] := rfl

/-- **one JSON object carries exactly the row's map**: for every row, the emitted object is read back as
    the key/value map the row was written from (keys sorted, a repeated key keeps its last value — D19) -/
theorem json_object_roundtrip (items : List (Str × Str)) (rest : Str) (f : Nat)
    (hf : ∀ kv ∈ rowMap items, kv.1.length < f ∧ kv.2.length < f) :
    readJsonObject f (rowMap items).length (jsonRow items ++ rest) = some (rowMap items, rest) := by
  rw [jsonRow_eq]
  cases hm : rowMap items with
  | nil => simp [joinWith, readJsonObject]
  | cons kv ms =>
    rw [hm] at hf
    have h := json_members_roundtrip f (kv :: ms) (by simp) rest hf (kv :: ms).length (Nat.le_refl _)
    simp only [List.append_assoc, List.cons_append, List.nil_append]
    -- the first member starts with a quote, so the `{}` case of the reader does not apply
    obtain ⟨k, v⟩ := kv
    have hq : ∃ t, joinWith [','] (((k, v) :: ms).map jsonMember) ++ '}' :: rest = '"' :: t := by
      rw [List.map_cons, jsonMember_head]
      obtain ⟨t', ht'⟩ := joinWith_head [','] '"' (k.flatMap jsonEscChar ++ ['"'] ++ [':'] ++ jsonEscape v) (ms.map jsonMember)
      exact ⟨t' ++ '}' :: rest, by rw [ht']; rfl⟩
    obtain ⟨t, ht⟩ := hq
    rw [ht] at h ⊢
    simp only [readJsonObject]
    exact h

/-- reader of a JSON array of objects: `[` obj (`,` obj)* `]` -/
def readJsonRows (f w : Nat) : Nat → Str → Option (List (List (Str × Str)) × Str)
  | 0, _ => none
  | n + 1, s =>
    match readJsonObject f w s with
    | some (o, ',' :: r) => (readJsonRows f w n r).map (fun p => (o :: p.1, p.2))
    | some (o, ']' :: r) => some ([o], r)
    | _ => none

def readJsonArray (f w n : Nat) : Str → Option (List (List (Str × Str)))
  | '[' :: ']' :: [] => some []
  | '[' :: r => match readJsonRows f w n r with
    | some (rows, []) => some rows
    | _ => none
  | _ => none

theorem readJsonObject_mono (items : List (Str × Str)) (rest : Str) (f w : Nat)
    (hf : ∀ kv ∈ rowMap items, kv.1.length < f ∧ kv.2.length < f) (hw : (rowMap items).length ≤ w) :
    readJsonObject f w (jsonRow items ++ rest) = some (rowMap items, rest) := by
  rw [jsonRow_eq]
  cases hm : rowMap items with
  | nil => simp [joinWith, readJsonObject]
  | cons kv ms =>
    rw [hm] at hf hw
    have h := json_members_roundtrip f (kv :: ms) (by simp) rest hf w hw
    simp only [List.append_assoc, List.cons_append, List.nil_append]
    obtain ⟨k, v⟩ := kv
    have hq : ∃ t, joinWith [','] (((k, v) :: ms).map jsonMember) ++ '}' :: rest = '"' :: t := by
      rw [List.map_cons, jsonMember_head]
      obtain ⟨t', ht'⟩ := joinWith_head [','] '"' (k.flatMap jsonEscChar ++ ['"'] ++ [':'] ++ jsonEscape v) (ms.map jsonMember)
      exact ⟨t' ++ '}' :: rest, by rw [ht']; rfl⟩
    obtain ⟨t, ht⟩ := hq
    rw [ht] at h ⊢
    simp only [readJsonObject]
    exact h

theorem json_rows_roundtrip (f w : Nat) (rows : List (List (Str × Str))) (hne : rows ≠ [])
    (hf : ∀ r ∈ rows, ∀ kv ∈ rowMap r, kv.1.length < f ∧ kv.2.length < f) (hw : ∀ r ∈ rows, (rowMap r).length ≤ w)
    (n : Nat) (hn : rows.length ≤ n) :
    readJsonRows f w n (joinWith [','] (rows.map jsonRow) ++ [']']) = some (rows.map rowMap, []) := by
  induction rows generalizing n with
  | nil => exact absurd rfl hne
  | cons r rs ih =>
    cases n with
    | zero => simp at hn
    | succ n =>
      cases rs with
      | nil =>
        simp only [List.map_cons, List.map_nil, joinWith, readJsonRows]
        rw [readJsonObject_mono r [']'] f w (hf r (by simp)) (hw r (by simp))]
        rfl
      | cons r2 rs2 =>
        simp only [List.map_cons, joinWith_cons2, List.append_assoc, List.cons_append, List.nil_append, readJsonRows]
        rw [readJsonObject_mono r _ f w (hf r (by simp)) (hw r (by simp))]
        simp only
        have := ih (by simp) (fun x hx => hf x (by simp [hx])) (fun x hx => hw x (by simp [hx])) n (by simp at hn ⊢; omega)
        simp only [List.map_cons] at this
        rw [this]
        rfl

/-- **the JSON output is one array with one object per row, carrying exactly the table**: header `[`,
    rows joined by the separator `,`, footer `]` — read back as the list of the rows' maps, for every
    table of arbitrary values -/
theorem json_document_roundtrip (f w : Nat) (rows : List (List (Str × Str)))
    (hf : ∀ r ∈ rows, ∀ kv ∈ rowMap r, kv.1.length < f ∧ kv.2.length < f) (hw : ∀ r ∈ rows, (rowMap r).length ≤ w) :
    readJsonArray f w rows.length
      (fmtHeader .Json ++ joinWith (fmtSeparator .Json) (rows.map (fmtRow .Json)) ++ fmtFooter .Json) = some (rows.map rowMap) := by
  have hfr : fmtRow OutputFormat.Json = jsonRow := by funext x; rfl
  simp only [fmtHeader, fmtSeparator, fmtFooter, hfr]
  cases rows with
  | nil => rfl
  | cons r rs =>
    have h := json_rows_roundtrip f w (r :: rs) (by simp) hf hw (r :: rs).length (Nat.le_refl _)
    simp only [List.append_assoc, List.cons_append, List.nil_append]
    -- the first row starts with `{`, so the `[]` case does not apply
    have hq : ∃ t, joinWith [','] ((r :: rs).map jsonRow) ++ [']'] = '{' :: t := by
      have hr : jsonRow r = '{' :: (joinWith [','] ((rowMap r).map jsonMember) ++ ['}']) := by rw [jsonRow_eq]; rfl
      rw [List.map_cons, hr]
      obtain ⟨t', ht'⟩ := joinWith_head [','] '{' (joinWith [','] ((rowMap r).map jsonMember) ++ ['}']) (rs.map jsonRow)
      exact ⟨t' ++ [']'], by rw [ht']; rfl⟩
    obtain ⟨t, ht⟩ := hq
    rw [ht] at h ⊢
    rw [show readJsonArray f w (r :: rs).length ('[' :: '{' :: t) =
        (match readJsonRows f w (r :: rs).length ('{' :: t) with
         | some (rows, []) => some rows
         | _ => none) from rfl, h]

/-- a row with distinct, sorted column names is its own map (so the object lists exactly the row) -/
example : rowMap [(ofS "name", ofS "a\"b"), (ofS "size", ofS "1")] = [(ofS "name", ofS "a\"b"), (ofS "size", ofS "1")] := by decide

/-- the cells of a `list` / `tabs`-like document whose every cell is closed by the separator: splitting at the
    separator returns all the cells in order, followed by one empty piece -/
theorem split_terminated (sep : Char) (cells : List Str) (h : ∀ v ∈ cells, ∀ c ∈ v, c ≠ sep) :
    splitChar.go sep (cells.flatMap fun v => v ++ [sep]) [] = cells ++ [[]] := by
  induction cells with
  | nil => rfl
  | cons v vs ih =>
    simp only [List.flatMap_cons, List.append_assoc, List.singleton_append]
    rw [splitChar_go_append sep v (h v (by simp)) _ []]
    rw [ih (fun x hx => h x (by simp [hx]))]
    simp

theorem flatRow_list (vals : List Str) (hne : vals ≠ []) :
    flatRow (Char.ofNat 0) (Char.ofNat 0) vals = vals.flatMap fun v => v ++ [Char.ofNat 0] := by
  unfold flatRow
  induction vals with
  | nil => exact absurd rfl hne
  | cons v vs ih =>
    cases vs with
    | nil => simp [joinWith]
    | cons w ws =>
      have := ih (by simp)
      simp only [joinWith_cons2, List.flatMap_cons, List.append_assoc] at this ⊢
      rw [this]

/-- **the `into list` output carries exactly the result table**: every value closed by a NUL, row after row —
    splitting the output at NUL returns all the cells of all the rows in order (then one empty piece), for every
    table whose values contain no NUL (file names and rendered values never do) -/
theorem list_document_roundtrip (rows : List (List Str)) (hne : ∀ r ∈ rows, r ≠ [])
    (h : ∀ r ∈ rows, ∀ v ∈ r, ∀ c ∈ v, c ≠ Char.ofNat 0) :
    splitChar (Char.ofNat 0) (rows.flatMap (flatRow (Char.ofNat 0) (Char.ofNat 0))) = rows.flatten ++ [[]] := by
  have hdoc : rows.flatMap (flatRow (Char.ofNat 0) (Char.ofNat 0)) = rows.flatten.flatMap fun v => v ++ [Char.ofNat 0] := by
    induction rows with
    | nil => rfl
    | cons r rs ih =>
      simp only [List.flatMap_cons, List.flatten_cons, List.flatMap_append]
      rw [flatRow_list r (hne r (by simp)), ih (fun q hq => hne q (by simp [hq])) (fun q hq => h q (by simp [hq]))]
  unfold splitChar
  rw [hdoc]
  apply split_terminated
  intro v hv
  simp only [List.mem_flatten] at hv
  obtain ⟨r, hr, hvr⟩ := hv
  exact h r hr v hvr

end Fsel.C09
