/-
  C11  Documented alternative spellings of a query denote the same query.

  Inputs regenerated on every run: the alias tables of the code (`Gen/Tables.lean`, from field.rs,
  function.rs, operators.rs, query.rs, lexer.rs) and the alias groups of the documentation
  (`Gen/DocTables.lean`, from docs/usage.md).
  Theorems:
  * `doc_*_aliases`: within every alias group of the documentation (columns, functions, operators, arithmetic
    words, root options, output formats) all spellings are recognised and denote the same constructor —
    decided over the whole tables; `doc_*_distinct`: different groups denote different things;
  * `*_case_insensitive`: recognition of a column, function, operator, arithmetic word, output format, root
    option or lexer keyword depends only on the ASCII-lower-cased word, so every case variant of a word is
    the same token — for all words;
  * `optional_select`, `optional_comma`, `star_expands`: the select-list loop skips `select` and commas;
  * `round_or_curly`: both bracket kinds around an expression give the same tree;
  * `nullary_without_brackets`: an argument-less function with and without `()` is the same expression
    (D31 fix);
  * `explicit_asc_is_skipped`: `asc` is a lexer keyword that produces no token.
  Not theorems: invariance under splitting the query into shell words at white space. It is FALSE for some
  split points (D01, known finding: the word after FROM extends to the end of its shell word — pinned by the
  repository's own `path_with_spaces` test) and is decided for the other renderings by the metamorphic check
  (parsed query and rows identical between renderings) and the in-process lexer/parser correspondence.
-/
import Fsel.Lemmas.Lexer
import Fsel.Gen.DocTables
import Fsel.Lemmas.ParseArith
import Fsel.Model.ParserTop

namespace Fsel.C11
open Fsel ParseL

/-- all spellings of a group are recognised and denote the same thing -/
def groupOK {α : Type} [BEq α] (res : Str → Option α) : List Str → Bool
  | [] => false
  | a :: r => (res a).isSome && r.all (fun b => res b == res a)

theorem doc_field_aliases : docFieldGroups.all (groupOK Field.ofStr?) = true := by decide
theorem doc_function_aliases : docFunctionGroups.all (groupOK Function.ofStr?) = true := by decide
theorem doc_op_aliases : docOpGroups.all (groupOK Op.ofStr?) = true := by decide
theorem doc_arith_aliases : docArithGroups.all (groupOK ArithOp.ofStr?) = true := by decide
/-- a root option word: either a keyword of `parse_root_options` or (regexp/rx) the operator token it accepts -/
def rootOptionOf (s : Str) : Option (Option RootOptKw) :=
  if isRegexpRootWord s then some none else (rootOptKw s).map some

theorem doc_root_option_aliases : docRootOptionGroups.all (groupOK rootOptionOf) = true := by decide
theorem doc_format_aliases : docFormatGroups.all (groupOK OutputFormat.ofStr?) = true := by decide

-- different documented groups denote different things
set_option maxRecDepth 20000 in
theorem doc_fields_distinct : (docFieldGroups.map fun g => Field.ofStr? (g.headD [])).Nodup := by decide
set_option maxRecDepth 20000 in
theorem doc_functions_distinct : (docFunctionGroups.map fun g => Function.ofStr? (g.headD [])).Nodup := by decide
theorem doc_ops_distinct : (docOpGroups.map fun g => Op.ofStr? (g.headD [])).Nodup := by decide
theorem doc_arith_distinct : (docArithGroups.map fun g => ArithOp.ofStr? (g.headD [])).Nodup := by decide

/-! ### letter case -/

theorem lowerAscii_idem (c : Char) : lowerAscii (lowerAscii c) = lowerAscii c := by
  by_cases h : 'A' ≤ c ∧ c ≤ 'Z'
  · have h1 : 65 ≤ c.toNat := h.1
    have h2 : c.toNat ≤ 90 := h.2
    have hc : c = Char.ofNat c.toNat := (Char.ofNat_toNat c).symm
    generalize c.toNat = n at h1 h2 hc
    subst hc
    have : n = 65 ∨ n = 66 ∨ n = 67 ∨ n = 68 ∨ n = 69 ∨ n = 70 ∨ n = 71 ∨ n = 72 ∨ n = 73 ∨ n = 74 ∨ n = 75 ∨ n = 76 ∨
        n = 77 ∨ n = 78 ∨ n = 79 ∨ n = 80 ∨ n = 81 ∨ n = 82 ∨ n = 83 ∨ n = 84 ∨ n = 85 ∨ n = 86 ∨ n = 87 ∨ n = 88 ∨
        n = 89 ∨ n = 90 := by omega
    rcases this with h|h|h|h|h|h|h|h|h|h|h|h|h|h|h|h|h|h|h|h|h|h|h|h|h|h <;> subst h <;> decide
  · unfold lowerAscii
    simp [h]

theorem lower_idem (s : Str) : lowerStr (lowerStr s) = lowerStr s := by
  simp [lowerStr, List.map_map, Function.comp_def, lowerAscii_idem]

theorem field_case_insensitive (s t : Str) (h : lowerStr s = lowerStr t) : Field.ofStr? s = Field.ofStr? t := by
  simp [Field.ofStr?, h]
theorem function_case_insensitive (s t : Str) (h : lowerStr s = lowerStr t) : Function.ofStr? s = Function.ofStr? t := by
  simp [Function.ofStr?, h]
theorem op_case_insensitive (s t : Str) (h : lowerStr s = lowerStr t) : Op.ofStr? s = Op.ofStr? t := by
  simp [Op.ofStr?, h]
theorem arith_case_insensitive (s t : Str) (h : lowerStr s = lowerStr t) : ArithOp.ofStr? s = ArithOp.ofStr? t := by
  simp [ArithOp.ofStr?, h]
theorem format_case_insensitive (s t : Str) (h : lowerStr s = lowerStr t) : OutputFormat.ofStr? s = OutputFormat.ofStr? t := by
  simp [OutputFormat.ofStr?, h]
theorem keyword_case_insensitive (s t : Str) (h : lowerStr s = lowerStr t) : keywordOf s = keywordOf t := by
  simp [keywordOf, h]
theorem root_option_case_insensitive (s t : Str) (h : lowerStr s = lowerStr t) : rootOptionOf s = rootOptionOf t := by
  simp [rootOptionOf, isRegexpRootWord, rootOptKw, h]

/-- in particular a word and its lower-cased / any-cased spelling are the same token -/
theorem field_lowercased (s : Str) : Field.ofStr? (lowerStr s) = Field.ofStr? s :=
  field_case_insensitive _ _ (lower_idem s)

theorem explicit_asc_is_skipped : keywordOf (ofS "ASC") = some .kwskip ∧ keywordOf (ofS "asc") = some .kwskip := by decide

/-! ### optional tokens of the select list -/

theorem optional_comma (acc : List Expr) (r : List Lexem) :
    (iterate fieldsStep acc (.comma :: r)).1 = (iterate fieldsStep acc r).1 ∧
    (iterate fieldsStep acc (.comma :: r)).2.1 = (iterate fieldsStep acc r).2.1 := by
  rw [iterate]
  simp only [fieldsStep]
  cases iterate fieldsStep acc r with
  | mk x r' => simp [Rest.lift]

theorem optional_select (acc : List Expr) (s : Str) (r : List Lexem) (hs : lowerStr s = ofS "select") :
    (iterate fieldsStep acc (.raw s :: r)).1 = (iterate fieldsStep acc r).1 ∧
    (iterate fieldsStep acc (.raw s :: r)).2.1 = (iterate fieldsStep acc r).2.1 := by
  rw [iterate]
  simp only [fieldsStep, fieldsWord, hs, beq_self_eq_true, if_true]
  cases iterate fieldsStep acc r with
  | mk x r' => simp [Rest.lift]

theorem star_expands (acc : List Expr) (r : List Lexem) :
    (iterate fieldsStep acc (.raw ['*'] :: r)).1 = (iterate fieldsStep (acc ++ starFields) r).1 := by
  rw [iterate]
  have : (lowerStr ['*'] == ofS "select") = false := by decide
  simp only [fieldsStep, fieldsWord, this, Bool.false_eq_true, if_false, beq_self_eq_true, if_true]


/-! ### brackets -/

theorem parseParen_curly (bs : Bool) (ts : List Lexem) (x : Expr) (r : List Lexem)
    (h1 : (parseExpr bs ts).res = .ok x) (h2 : (parseExpr bs ts).rest = .cclose :: r) :
    (parseParen bs (.copen :: ts)).res = .ok x ∧ (parseParen bs (.copen :: ts)).rest = r := by
  unfold parseParen
  simp only
  generalize parseExpr bs ts = q at h1 h2 ⊢
  obtain ⟨res, rst, le, pr⟩ := q
  simp only at h1 h2
  subst h1; subst h2
  simp

/-- an expression in round brackets and the same expression in curly brackets are the same factor -/
theorem round_or_curly (bs : Bool) (ts ts' : List Lexem) (x : Expr) (r : List Lexem)
    (h1 : (parseExpr bs ts).res = .ok x) (h2 : (parseExpr bs ts).rest = .close :: r)
    (h1' : (parseExpr bs ts').res = .ok x) (h2' : (parseExpr bs ts').rest = .cclose :: r) :
    (parseParen bs (.open_ :: ts)).res = (parseParen bs (.copen :: ts')).res ∧
    (parseParen bs (.open_ :: ts)).rest = (parseParen bs (.copen :: ts')).rest := by
  have a := parseParen_open bs ts x r h1 h2
  have b := parseParen_curly bs ts' x r h1' h2'
  exact ⟨a.1.trans b.1.symm, a.2.trans b.2.symm⟩

/-! ### `()` after an argument-less function -/

theorem nullary_without_brackets (bs : Bool) (s : Str) (fn : Function) (t : Lexem) (r : List Lexem)
    (hf : Field.ofStr? s = none) (hfn : Function.ofStr? s = some fn) (hn : fn.takesNoArguments = true)
    (hb : fn.isBoolean = false) (ht : t ≠ .open_ ∧ t ≠ .copen) :
    (parseParen bs (.raw s :: t :: r)).res = .ok (.func0 false fn) ∧ (parseParen bs (.raw s :: t :: r)).rest = t :: r := by
  unfold parseParen
  have h1 : ∀ r', (Lexem.raw s :: t :: r) ≠ .open_ :: r' := by intro r' h; cases h
  unfold parseFuncScalar leafP
  simp only [hf, hfn]
  unfold parseFunction
  cases t <;> simp_all [fnHeader, Expr.setMinus]

/-- the same for a boolean function (`has_caps`, `is_...`-style tests): written without brackets it is the call without
    arguments and the token after it is left for whatever follows (D84 fix: it used to be swallowed) -/
theorem boolean_without_brackets (bs : Bool) (s : Str) (fn : Function) (t : Lexem) (r : List Lexem)
    (hf : Field.ofStr? s = none) (hfn : Function.ofStr? s = some fn)
    (hb : fn.isBoolean = true) (ht : t ≠ .open_ ∧ t ≠ .copen) :
    (parseParen bs (.raw s :: t :: r)).res = .ok (.func0 false fn) ∧ (parseParen bs (.raw s :: t :: r)).rest = t :: r := by
  unfold parseParen
  have h1 : ∀ r', (Lexem.raw s :: t :: r) ≠ .open_ :: r' := by intro r' h; cases h
  unfold parseFuncScalar leafP
  simp only [hf, hfn]
  unfold parseFunction
  cases t <;> simp_all [fnHeader, Expr.setMinus]

example : Field.ofStr? (ofS "has_caps") = none ∧ Function.ofStr? (ofS "has_caps") = some .HasCapabilities ∧
    Function.isBoolean .HasCapabilities = true := by decide

/-- **a column name keeps meaning the column when an arithmetic sign follows it without a blank, in any letter
    case**: the lexer's `looks_like_expression` test on the pending token gives the same answer for `SIZE*2`,
    `Size+1` and `size*2` — every maximal run of name characters (letters, digits, `_`) is looked up case-insensitively (column, function) or
    read as an integer, which has no letter case -/
theorem expression_test_case_insensitive (s t : Str) (h : lowerStr s = lowerStr t) :
    looksLikeExpression s = looksLikeExpression t := by
  rw [← LexL.looksLikeExpression_lower s, ← LexL.looksLikeExpression_lower t, h]

/-- **every documented column and function name, in every documented spelling, passes the lexer's expression test**, so a
    sign that follows it without a blank ends the name whichever alias is written (`bitrate+1` and `mp3_bitrate+1`,
    `is_dir-1`, `line_count*2`): decided over the tables regenerated from docs/usage.md on every run (D82 fix: names
    with an underscore used to be tested piecewise and failed) -/
theorem documented_names_pass_expression_test :
    docFieldGroups.all (fun g => g.all looksLikeExpression) = true ∧
    docFunctionGroups.all (fun g => g.all looksLikeExpression) = true := by
  constructor <;> decide +kernel

/-- **a comma announces a search root only inside the root list**: when `next_lexem` returns a comma and leaves the
    `possible_search_root` flag set — the flag that, in a query passed as several shell words, makes the next word a path up
    to the end of its shell word (D01) — the lexer is after FROM and has seen neither WHERE nor a BY: the commas of the
    select list, of a condition, of GROUP BY and of ORDER BY never set it (D81 fix: without a WHERE clause the commas of
    GROUP BY / ORDER BY did, and the split form of `order by is_dir, length(name)` ordered by a constant).  By functional
    induction over the lexer's `nextLexem`, every token class and keyword. -/
theorem comma_announces_root_only_in_root_list (st st' : LexSt)
    (h : nextLexem st = (some .comma, st')) (hp : st'.psr = true) :
    st'.beforeFrom = false ∧ st'.afterWhere = false ∧ st'.afterBy = false := by
  fun_induction nextLexem st
  all_goals (try (simp_all; done))
  all_goals (try (simp +zetaDelta at h; done))
  all_goals (try (split at h <;> simp +zetaDelta at h; done))
  simp +zetaDelta at h
  subst h
  have h1 : (Lexem.comma == Lexem.from_) = false := by decide
  simp [h1] at hp
  exact ⟨hp.1.1.2, hp.1.2, hp.2⟩

/-! ### quoted literals at the lexer -/

/-- **a quoted literal is one `String` token, whatever it contains** — blanks, commas, brackets, operators,
    keywords (`from`, `where`, `order by` …), column and function names, the other kind of quote: the lexer's
    scanning loop (the model is the well-founded `scan`, proved here by induction over the text) takes
    every character up to the closing quote literally, in every lexer context (before/after FROM, after
    WHERE, after an operator, possible-search-root …), and goes on right after the closing quote -/
theorem quoted_literal_is_one_token (s r : Str) (ps : List Str) (st : LexSt) (hp : st.synth = false) :
    ((∀ c ∈ s, c ≠ '\'') → st.parts = ('\'' :: (s ++ '\'' :: r)) :: ps →
      nextLexem st = (some (.str s), { st with parts := r :: ps, afterOpen := false, psr := false, afterOperator := false })) ∧
    ((∀ c ∈ s, c ≠ '"') → st.parts = ('"' :: (s ++ '"' :: r)) :: ps →
      nextLexem st = (some (.str s), { st with parts := r :: ps, afterOpen := false, psr := false, afterOperator := false })) :=
  ⟨fun hq h => LexL.next_lexem_single_quoted s r ps st hq h hp, fun hq h => LexL.next_lexem_double_quoted s r ps st hq h hp⟩

/-- the premises are satisfiable: `'order by, (size) = "x"'` at the start of a word -/
example : (∀ c ∈ ofS "order by, (size) = \"x\"", c ≠ '\'') ∧
    (LexSt.init [ofS "'order by, (size) = \"x\"' rest"]).parts = ('\'' :: (ofS "order by, (size) = \"x\"" ++ '\'' :: ofS " rest")) :: [] := by
  constructor
  · decide
  · rfl

end Fsel.C11
