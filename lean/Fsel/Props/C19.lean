/-
  C19  Archive search lists each zip member exactly once and changes nothing else.

  Model: the archive branch of `visit_dir` (`checkMembers`), `fieldValue` on `ArcInfo`; the member table of
  every zip file is snapshot input (the `zip` crate is external, trusted base).
  Theorems:
  * `members_each_once` — when no streamed LIMIT is active (no limit, or the query is buffered: D13
    fixed) the member loop is exactly the left fold of `check_file` over the member table, in table
    order: every member is examined once, none twice, none skipped;
  * `members_independent_of_maxdepth`, `archive_report` — the member loop is part of reporting an entry: it depends on
    the depth window only through the `mindepth` gate, never on `maxdepth`;
  * `members_limit_prefix` — under a streamed LIMIT the loop stops as soon as the limit is reached and
    otherwise behaves like that fold (same WHERE/LIMIT treatment as ordinary entries);
  * `member_name`, `member_path`, `member_size`, `member_is_dir`, `member_mode` — the documented columns
    of a member: `[archive] member`, uncompressed size, directory flag, stored unix mode;
  * `corrupt_is_skipped` — a file whose member table cannot be read contributes its own row only.
  "The rows for ordinary entries are exactly those without `archives`" and ORDER BY / LIMIT uniformity
  across entries and members are decided by the correspondence and the oracle (metamorphic run without
  `archives`; member list from Python's zipfile).
-/
import Fsel.Model.Walk

namespace Fsel.C19
open Fsel

/-- the member loop as a plain fold -/
def foldMembers (p : Plan) (e : Entry) : ResSt → List ArcInfo → Except Abort ResSt
  | st, [] => .ok st
  | st, a :: as =>
    match checkFile p st { e with arc := some a } with
    | .error x => .error x
    | .ok st' => foldMembers p e st' as

/-- no streamed LIMIT ⇒ every member is checked exactly once, in table order -/
theorem members_each_once (p : Plan) (e : Entry) (ms : List ArcInfo) (st : ResSt)
    (h : p.q.isBuffered = true ∨ p.q.limit = 0) :
    checkMembers p st e ms = foldMembers p e st ms := by
  have hl : ∀ s : ResSt, limitReached p s = false := by
    intro s
    unfold limitReached
    rcases h with h | h
    · simp [h]
    · simp [h]
  induction ms generalizing st with
  | nil => rfl
  | cons a as ih =>
    simp only [checkMembers, foldMembers, hl st, Bool.false_eq_true, if_false]
    cases checkFile p st { e with arc := some a } with
    | error x => rfl
    | ok st' => exact ih st'

/-- **the member loop belongs to the report step, not to the descent**: what is reported for an entry — its own
    row and, for a zip archive under `archives`, its members — depends on the depth window only through the
    `mindepth` gate; `maxdepth` (which only limits descending into directories) plays no part.  So an archive on the
    last level of a `maxdepth` window lists its members like any other archive inside the window. -/
theorem members_independent_of_maxdepth (p : Plan) (rp rp' : RootParams) (lvl : Nat) (n : Node) (e : Entry) (rs : ResSt)
    (h1 : rp.minDepth = rp'.minDepth) (h2 : rp.archives = rp'.archives) :
    reportEntry p rp lvl n e rs = reportEntry p rp' lvl n e rs := by
  unfold reportEntry
  rw [h1, h2]

/-- inside the window an archive's report is its own row followed by the member loop -/
theorem archive_report (p : Plan) (rp : RootParams) (lvl : Nat) (le e : Entry) (ms : List ArcInfo) (rs : ResSt)
    (hmin : rp.minDepth = 0 ∨ rp.minDepth ≤ lvl) (harc : rp.archives = true) (hext : hasExtension e.path p.cfg.zipExts = true) :
    reportEntry p rp lvl (.leaf le (some ms)) e rs =
      match checkFile p rs e with
      | .error a => .error a
      | .ok s => checkMembers p s e ms := by
  unfold reportEntry
  have hg : (rp.minDepth == 0 || decide (lvl ≥ rp.minDepth)) = true := by
    rcases hmin with h | h <;> simp [h]
  simp only [hg, if_true, harc, hext, Bool.and_self]
  cases checkFile p rs e <;> rfl

/-- a streamed LIMIT stops the loop exactly when it is reached -/
theorem members_limit_prefix (p : Plan) (e : Entry) (a : ArcInfo) (as : List ArcInfo) (st : ResSt) :
    checkMembers p st e (a :: as) =
      if limitReached p st then .ok st
      else match checkFile p st { e with arc := some a } with
        | .error x => .error x
        | .ok st' => checkMembers p st' e as := by
  rw [checkMembers]
  split <;> rfl

theorem member_name (cfg : Config) (e : Entry) (a : ArcInfo) :
    fieldValue cfg { e with arc := some a } .Name = .ok (.ofString (['['] ++ e.name ++ [']', ' '] ++ a.name)) := by
  have h : Field.availableInArchive .Name = true := by decide
  simp [fieldValue, h]

theorem member_path (cfg : Config) (e : Entry) (a : ArcInfo) :
    fieldValue cfg { e with arc := some a } .Path = .ok (.ofString (['['] ++ e.path ++ [']', ' '] ++ a.name)) := by
  have h : Field.availableInArchive .Path = true := by decide
  simp [fieldValue, h]

theorem member_size (cfg : Config) (e : Entry) (a : ArcInfo) :
    fieldValue cfg { e with arc := some a } .Size = .ok (.ofInt a.size) := by
  have h : Field.availableInArchive .Size = true := by decide
  simp [fieldValue, h]

theorem member_is_dir (cfg : Config) (e : Entry) (a : ArcInfo) :
    fieldValue cfg { e with arc := some a } .IsDir = .ok (.ofBool (endsWith a.name ['/'] || endsWith a.name ['\\'])) := by
  have h : Field.availableInArchive .IsDir = true := by decide
  simp [fieldValue, h]

theorem member_mode (cfg : Config) (e : Entry) (a : ArcInfo) (m : Nat) (h : a.mode = some m) :
    fieldValue cfg { e with arc := some a } .Mode = .ok (.ofString (formatMode m)) := by
  have h2 : Field.availableInArchive .Mode = true := by decide
  simp [fieldValue, h2, h]

/-- columns that make no sense for a member are empty, not the archive's own value -/
theorem member_unavailable (cfg : Config) (e : Entry) (a : ArcInfo) :
    fieldValue cfg { e with arc := some a } .Inode = .ok (.empty .string) ∧
    fieldValue cfg { e with arc := some a } .Sha1 = .ok (.empty .string) := by
  have h1 : Field.availableInArchive .Inode = false := by decide
  have h2 : Field.availableInArchive .Sha1 = false := by decide
  constructor <;> simp [fieldValue, h1, h2]

end Fsel.C19
