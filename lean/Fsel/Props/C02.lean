/-
  C02  WHERE comparisons mean what the documentation says, for every entry.

  Model: `compareValues` (the body of `conforms` for one atom), `Variant` coercions, the parser's
  treatment of quoted literals and BETWEEN.
  Theorems (every entry value, every literal satisfying the stated well-formedness predicate):
  * `int_atom_spec` — an integer-typed column against a literal that denotes the integer `n`
    (`toInt` of the literal, see `literal_digits`, `literal_with_unit`) is the numeric comparison;
  * `bool_atom_spec` — a boolean column against true/false/1/0/yes/no/y/n in any letter case;
  * `text_eq_spec`, `text_eeq_spec` — `=`/`!=` without wildcard and `===`/`!==` are (in)equality of text;
  * `between_is_atom` / `between_inclusive` — `x between lo and hi` (x, lo, hi any arithmetic expressions) parses
    to `x >= lo and x <= hi`, and that is true exactly when lo ≤ x ≤ hi: inclusive at both ends;
    `not between` is the complement (`not_between_complement`);
  * `comparison_of_expressions` — `e1 op e2` for any two arithmetic expressions (columns, literals, function
    calls, sums …) and any operator spelling parses to one comparison node whose operands are evaluated on the
    same entry (`column_vs_column`); an infix `not` negates the operator;
  * `quoted_is_text` — a quoted literal is parsed as text even when it spells a column or function
    name (D02 fixed);
  * `bool_literal_rejected` — an unparsable boolean literal is a status-2 error, not a crash (D03 fixed).
  Date atoms are C13's `cmp_table`; pattern atoms C12's `glob_spec`/`like_spec`; unit literals C14's `unit_table`.
  The tie between the *columns* and the OS attributes is the snapshot correspondence plus the Python
  oracle that evaluates the documented meaning from `lstat`.
-/
import Fsel.Props.C14
import Fsel.Lemmas.Num
import Fsel.Model.Eval
import Fsel.Lemmas.Text
import Fsel.Lemmas.ParseCond
import Fsel.Props.C15

namespace Fsel.C02
open Fsel TextL

/-- documented meaning of the six ordering operators on numbers -/
def numSem (op : Op) (a n : Int) : Option Bool :=
  match op with
  | .Eq | .Eeq => some (a == n)
  | .Ne | .Ene => some (a != n)
  | .Gt => some (decide (a > n))
  | .Gte => some (decide (a ≥ n))
  | .Lt => some (decide (a < n))
  | .Lte => some (decide (a ≤ n))
  | _ => none

theorem numCmp_intOrd (op : Op) (a n : Int) (b : Bool) (h : numSem op a n = some b) :
    numCmp op (some (intOrd a n)) = some b := by
  unfold intOrd
  cases op <;> simp [numSem] at h <;> subst h <;>
    (by_cases h1 : a < n
     · simp [h1, numCmp] <;> omega
     · by_cases h2 : a = n
       · subst h2; simp [numCmp]
       · have : (a == n) = false := by simp [h2]
         simp [h1, this, numCmp] <;> omega)

/-- an integer column against an integral literal: the numeric comparison the documentation promises -/
theorem int_atom_spec (today : Int) (c : RxCache) (fv v : Variant) (op : Op) (a n : Int) (b : Bool)
    (hty : fv.ty = .int) (ha : fv.toInt = a) (hfx : fv.exact = true)
    (hv : v.exact = true) (hint : v.toFloat.fractNonZero = false) (hn : v.toInt = n)
    (hsem : numSem op a n = some b) :
    compareValues today c fv op v = .ok (.val b, c) := by
  unfold compareValues
  simp only [hty, hint, Bool.false_eq_true, if_false, hv, hfx, Bool.not_true, Bool.or_self, ha, hn,
    numCmp_intOrd op a n b hsem]

/-- what a literal made of digits denotes -/
theorem literal_digits (n : Nat) (h : (n : Int) ≤ i64Max) :
    (Variant.ofSignedString (showNat n) false).toInt = n := by
  simp [Variant.ofSignedString, Variant.toInt, parseI64_showNat n h]

/-- **what a literal with a unit denotes** (`size > 10k`, `size <= 3mb` …): a run of digits followed by a
    documented unit word is no integer and no float, so `to_int` / `to_float` reach `parse_filesize`, which is
    number × multiplier by C14's `unit_table` (over the generated ladder).  Hence the atom is the numeric
    comparison with that byte count (next theorem). -/
theorem literal_with_unit (n : Nat) (u : Str) (m : Nat) (hum : (u, m) ∈ C14.docUnits) (hfit : ((n * m : Nat) : Int) ≤ i64Max) :
    (Variant.ofSignedString (showNat n ++ u) false).toInt = (n * m : Nat) ∧
    (Variant.ofSignedString (showNat n ++ u) false).toFloat = Num.mk ((n * m : Nat) : Rat) true := by
  have hfit64 : n * m ≤ u64Max := by
    have : (i64Max : Int) = 9223372036854775807 := rfl
    have : u64Max = 18446744073709551615 := rfl
    omega
  have hpf := C14.unit_table n u m hum hfit64
  -- every unit word starts with a letter that is no digit, `.`, `e`, `E` or sign
  have hhead : ∃ c r, u = c :: r ∧ NumL.unitHead c = true := by
    simp only [C14.docUnits, List.map_cons, List.map_nil, List.mem_cons, Prod.mk.injEq, List.mem_nil_iff, or_false] at hum
    rcases hum with ⟨rfl, _⟩ | ⟨rfl, _⟩ | ⟨rfl, _⟩ | ⟨rfl, _⟩ | ⟨rfl, _⟩ | ⟨rfl, _⟩ | ⟨rfl, _⟩ | ⟨rfl, _⟩ |
      ⟨rfl, _⟩ | ⟨rfl, _⟩ | ⟨rfl, _⟩ | ⟨rfl, _⟩ | ⟨rfl, _⟩ <;> exact ⟨_, _, rfl, by decide⟩
  obtain ⟨c, r, rfl, hc⟩ := hhead
  have hd : isDigit c = false := by
    simp only [NumL.unitHead, Bool.and_eq_true, beq_iff_eq] at hc
    exact hc.1.1.1.1.1
  have h1 := NumL.parseI64_with_unit n c r hd
  have h2 := NumL.parseUsize_with_unit n c r hd
  have h3 := NumL.parseF64_with_unit n c r hc
  have hbig : ¬ (n * m > 9223372036854775807) := by
    have : (i64Max : Int) = 9223372036854775807 := rfl
    omega
  constructor
  · simp [Variant.ofSignedString, Variant.toInt, h1, h2, hpf, hbig]
  · simp [Variant.ofSignedString, Variant.toFloat, h3, hpf]

/-- `size OP <digits><unit>` is the numeric comparison with number × multiplier bytes, for every ordering /
    equality operator, every documented unit and every number that fits -/
theorem int_atom_with_unit (today : Int) (c : RxCache) (fv : Variant) (op : Op) (a : Int) (b : Bool)
    (n : Nat) (u : Str) (m : Nat) (hum : (u, m) ∈ C14.docUnits) (hfit : ((n * m : Nat) : Int) ≤ i64Max)
    (hty : fv.ty = .int) (ha : fv.toInt = a) (hfx : fv.exact = true)
    (hsem : numSem op a ((n * m : Nat) : Int) = some b) :
    compareValues today c fv op (Variant.ofSignedString (showNat n ++ u) false) = .ok (.val b, c) := by
  obtain ⟨hi, hf⟩ := literal_with_unit n u m hum hfit
  refine int_atom_spec today c fv _ op a _ b hty ha hfx rfl ?_ hi hsem
  rw [hf]
  have hden : (((n * m : Nat) : Rat)).den = 1 := Rat.den_natCast (n * m)
  simp only [Num.mk, Num.fractNonZero, hden, bne_self_eq_false]

/-- `size > 2k` means more than 2048 bytes; `size <= 3mb` at most 3 000 000 -/
example : (("k".toList, 1024) ∈ C14.docUnits) ∧ (("mb".toList, 1000 ^ 2) ∈ C14.docUnits) := by decide

/-- a boolean column against a documented boolean word -/
theorem bool_atom_spec (today : Int) (c : RxCache) (fb : Bool) (lit : Str) (lb : Bool) (hl : strToBool lit = some lb)
    (hne : lit ≠ []) :
    compareValues today c (.ofBool fb) .Eq (.ofString lit) = .ok (.val (fb == lb), c) ∧
    compareValues today c (.ofBool fb) .Ne (.ofString lit) = .ok (.val (fb != lb), c) := by
  have hemp : lit.isEmpty = false := by cases lit with | nil => exact absurd rfl hne | cons _ _ => rfl
  unfold compareValues
  simp only [Variant.ofBool, Variant.ofString, Variant.toBool?, hemp, hl]
  cases fb <;> cases lb <;> simp [intOrd, numCmp]

/-- the documented boolean words, in any letter case (over the generated table) -/
theorem bool_words : ∀ w ∈ ["true", "1", "yes", "y", "TRUE", "Yes", "Y"], strToBool w.toList = some true := by
  decide

theorem bool_words_false : ∀ w ∈ ["false", "0", "no", "n", "FALSE", "No", "N"], strToBool w.toList = some false := by
  decide

/-- an unparsable boolean literal ends the run with status 2 (no crash) -/
theorem bool_literal_rejected (today : Int) (c : RxCache) (fb : Bool) (op : Op) (lit : Str)
    (hl : strToBool lit = none) (hne : lit ≠ []) :
    compareValues today c (.ofBool fb) op (.ofString lit) = .error (.exit2 "Can't parse boolean value") := by
  have hemp : lit.isEmpty = false := by cases lit with | nil => exact absurd rfl hne | cons _ _ => rfl
  unfold compareValues
  simp [Variant.ofBool, Variant.ofString, Variant.toBool?, hemp, hl]

/-- text columns: `=` / `!=` with a literal that contains no wildcard is (in)equality of the text -/
theorem text_eq_spec (today : Int) (c : RxCache) (subj lit : Str) (hg : isGlob lit = false) :
    compareValues today c (.ofString subj) .Eq (.ofString lit) = .ok (.val (lit == subj), c) ∧
    compareValues today c (.ofString subj) .Ne (.ofString lit) = .ok (.val (lit != subj), c) := by
  unfold compareValues
  simp [Variant.ofString, hg]

/-- `===` / `!==` compare the literal text, wildcard characters included -/
theorem text_eeq_spec (today : Int) (c : RxCache) (subj lit : Str) :
    compareValues today c (.ofString subj) .Eeq (.ofString lit) = .ok (.val (lit == subj), c) ∧
    compareValues today c (.ofString subj) .Ene (.ofString lit) = .ok (.val (lit != subj), c) := by
  unfold compareValues
  simp [Variant.ofString]

/-- a quoted literal is text, whatever it spells (`ext = 'bin'`, `name = 'size'`) -/
theorem quoted_is_text (bs minus : Bool) (s : Str) (r : List Lexem) :
    (leafP bs minus (.str s :: r)).res = .ok (.val minus s) ∧ (leafP bs minus (.str s :: r)).rest = r := by
  rw [leafP]
  exact ⟨rfl, rfl⟩

/-- the hypothesis is not vacuous: `'size'` and `'bin'` do spell a column and a function -/
example : (Field.ofStr? (ofS "size")).isSome = true ∧ (Function.ofStr? (ofS "bin")).isSome = true := by decide

/-! ### the shape of a comparison: BETWEEN, infix NOT, expression operands -/

section shape
open ParseL ParseC

/-- the optional infix NOT (`x not like p`, `x not between a and b`) -/
def infixNotToks (inf : Bool) : List Lexem := if inf then [.not_] else []

theorem head_append_ne {a b : List Lexem} (h : a.head? ≠ some .not_) (hne : a ≠ []) : (a ++ b).head? ≠ some .not_ := by
  cases a with
  | nil => exact absurd rfl hne
  | cons x xs => simpa using h

theorem boolShorthand_cmp (bs : Bool) (l : Expr) (op : Op) (r : Expr) : boolShorthand bs (.cmp l op r) = .cmp l op r := by
  cases bs <;> rfl

theorem boolShorthand_logic (bs : Bool) (l : Expr) (op : LogicalOp) (r : Expr) : boolShorthand bs (.logic l op r) = .logic l op r := by
  cases bs <;> rfl

theorem infixNot_toks (inf : Bool) (r : List Lexem) (h : r.head? ≠ some .not_) :
    (infixNot (infixNotToks inf ++ r)).1 = inf ∧ (infixNot (infixNotToks inf ++ r)).2.1 = r := by
  cases inf with
  | true => simp [infixNotToks, infixNot]
  | false =>
    simp only [infixNotToks, Bool.false_eq_true, if_false, List.nil_append]
    cases r with
    | nil => simp [infixNot, Rest.refl]
    | cons t rs =>
      cases t <;> first | (exact absurd rfl h) | exact ⟨rfl, rfl⟩

/-- **`e1 [not] op e2`** for arbitrary arithmetic expressions is one comparison node -/
theorem comparison_of_expressions (bs : Bool) (e1 e2 : E) (h1 : e1.WF bs) (h2 : e2.WF bs)
    (hne : e1.toks ≠ []) (hn : e1.toks.head? ≠ some .not_)
    (o : Str) (op : Op) (ho : Op.ofStr? o = some op) (hnb : (lowerStr o == ofS "between") = false) (inf : Bool) :
    AtomCond bs (e1.toks ++ (infixNotToks inf ++ .op o :: e2.toks))
      (.cmp e1.tree (if inf then op.negate else op) e2.tree) := by
  intro k r hr
  have hL := C15.arith_parse_correct bs e1 h1 (infixNotToks inf ++ .op o :: (e2.toks ++ r))
    (by cases inf <;> simp [infixNotToks, StopAdd])
  have hR := C15.arith_parse_correct bs e2 h2 r (stopCond_not_arith hr)
  unfold parseCond
  have hs := skipNots_nots k ((e1.toks ++ (infixNotToks inf ++ .op o :: e2.toks)) ++ r) (head_append_ne (head_append_ne hn hne) (by simp [hne]))
  cases hsk : skipNots (nots k ++ ((e1.toks ++ (infixNotToks inf ++ .op o :: e2.toks)) ++ r)) with
  | mk b t1 =>
    rw [hsk] at hs
    obtain ⟨t1v, t1p⟩ := t1
    simp only at hs
    obtain ⟨hb, ht⟩ := hs
    subst hb; subst ht
    simp only
    have hassoc : (e1.toks ++ (infixNotToks inf ++ .op o :: e2.toks)) ++ r = e1.toks ++ (infixNotToks inf ++ .op o :: (e2.toks ++ r)) := by
      simp [List.append_assoc]
    generalize hgen : parseAddSub bs ((e1.toks ++ (infixNotToks inf ++ .op o :: e2.toks)) ++ r) = q
    have hq : q.res = .ok e1.tree ∧ q.rest = infixNotToks inf ++ .op o :: (e2.toks ++ r) := by
      rw [← hgen]
      have := hL
      rw [← hassoc] at this
      exact this
    obtain ⟨res, rst, le, pr⟩ := q
    obtain ⟨g1, g2⟩ := hq
    simp only at g1 g2
    subst g1; subst g2
    simp only
    have hin := infixNot_toks inf (.op o :: (e2.toks ++ r)) (by simp)
    generalize hgi : infixNot (infixNotToks inf ++ .op o :: (e2.toks ++ r)) = qi
    rw [hgi] at hin
    obtain ⟨nb, t3v, t3p⟩ := qi
    simp only at hin
    obtain ⟨i1, i2⟩ := hin
    subst i1; subst i2
    simp only [hnb, Bool.false_eq_true, if_false]
    generalize hg2 : parseAddSub bs (e2.toks ++ r) = q2
    rw [hg2] at hR
    obtain ⟨res2, rst2, le2, pr2⟩ := q2
    obtain ⟨g1, g2⟩ := hR
    simp only at g1 g2
    subst g1; subst g2
    simp only [Op.fromWithNot, ho, boolShorthand_cmp]
    cases nb <;> cases hpar : parity k <;> simp [Expr.negate]

/-- the tree of `x between lo and hi` -/
def betweenTree (x lo hi : Expr) : Expr := .logic (.cmp x .Gte lo) .And (.cmp x .Lte hi)
/-- the tree of `x not between lo and hi` -/
def notBetweenTree (x lo hi : Expr) : Expr := .logic (.cmp x .Lt lo) .Or (.cmp x .Gt hi)

theorem not_between_complement (x lo hi : Expr) : (betweenTree x lo hi).negate = notBetweenTree x lo hi := by
  simp [betweenTree, notBetweenTree, Expr.negate, LogicalOp.dual, Op.negate]

/-- **`x [not] between lo and hi`** parses to `x >= lo and x <= hi` (resp. `x < lo or x > hi`) -/
theorem between_is_atom (bs : Bool) (x lo hi : E) (hx : x.WF bs) (hlo : lo.WF bs) (hhi : hi.WF bs)
    (hne : x.toks ≠ []) (hn : x.toks.head? ≠ some .not_) (o : Str) (hb : (lowerStr o == ofS "between") = true) (inf : Bool) :
    AtomCond bs (x.toks ++ (infixNotToks inf ++ .op o :: (lo.toks ++ .and_ :: hi.toks)))
      (if inf then notBetweenTree x.tree lo.tree hi.tree else betweenTree x.tree lo.tree hi.tree) := by
  intro k r hr
  have hL := C15.arith_parse_correct bs x hx (infixNotToks inf ++ .op o :: (lo.toks ++ .and_ :: (hi.toks ++ r)))
    (by cases inf <;> simp [infixNotToks, StopAdd])
  have hM := C15.arith_parse_correct bs lo hlo (.and_ :: (hi.toks ++ r)) (by simp [StopAdd])
  have hR := C15.arith_parse_correct bs hi hhi r (stopCond_not_arith hr)
  unfold parseCond
  have hs := skipNots_nots k ((x.toks ++ (infixNotToks inf ++ .op o :: (lo.toks ++ .and_ :: hi.toks))) ++ r)
    (head_append_ne (head_append_ne hn hne) (by simp [hne]))
  cases hsk : skipNots (nots k ++ ((x.toks ++ (infixNotToks inf ++ .op o :: (lo.toks ++ .and_ :: hi.toks))) ++ r)) with
  | mk b t1 =>
    rw [hsk] at hs
    obtain ⟨t1v, t1p⟩ := t1
    simp only at hs
    obtain ⟨hb', ht⟩ := hs
    subst hb'; subst ht
    simp only
    have hassoc : (x.toks ++ (infixNotToks inf ++ .op o :: (lo.toks ++ .and_ :: hi.toks))) ++ r =
        x.toks ++ (infixNotToks inf ++ .op o :: (lo.toks ++ .and_ :: (hi.toks ++ r))) := by
      simp [List.append_assoc]
    generalize hgen : parseAddSub bs ((x.toks ++ (infixNotToks inf ++ .op o :: (lo.toks ++ .and_ :: hi.toks))) ++ r) = q
    have hq : q.res = .ok x.tree ∧ q.rest = infixNotToks inf ++ .op o :: (lo.toks ++ .and_ :: (hi.toks ++ r)) := by
      rw [← hgen]
      have := hL
      rw [← hassoc] at this
      exact this
    obtain ⟨res, rst, le, pr⟩ := q
    obtain ⟨g1, g2⟩ := hq
    simp only at g1 g2
    subst g1; subst g2
    simp only
    have hin := infixNot_toks inf (.op o :: (lo.toks ++ .and_ :: (hi.toks ++ r))) (by simp)
    generalize hgi : infixNot (infixNotToks inf ++ .op o :: (lo.toks ++ .and_ :: (hi.toks ++ r))) = qi
    rw [hgi] at hin
    obtain ⟨nb, t3v, t3p⟩ := qi
    simp only at hin
    obtain ⟨i1, i2⟩ := hin
    subst i1; subst i2
    simp only [hb, if_true]
    generalize hg2 : parseAddSub bs (lo.toks ++ .and_ :: (hi.toks ++ r)) = q2
    rw [hg2] at hM
    obtain ⟨res2, rst2, le2, pr2⟩ := q2
    obtain ⟨g1, g2⟩ := hM
    simp only at g1 g2
    subst g1; subst g2
    simp only
    generalize hg3 : parseAddSub bs (hi.toks ++ r) = q3
    rw [hg3] at hR
    obtain ⟨res3, rst3, le3, pr3⟩ := q3
    obtain ⟨g1, g2⟩ := hR
    simp only at g1 g2
    subst g1; subst g2
    simp only [boolShorthand_logic]
    cases nb <;> cases hpar : parity k <;>
      simp [betweenTree, notBetweenTree, Expr.negate, LogicalOp.dual, Op.negate]

end shape

theorem and_beq_and : (LogicalOp.And == LogicalOp.And) = true := rfl

/-- **BETWEEN is inclusive at both ends**: for an integer-valued left side `a` and integral bounds `n`, `m`,
    `x between lo and hi` holds of the entry exactly when n ≤ a ≤ m -/
theorem between_inclusive (cx : EvalCtx) (e : Entry) (cache : RxCache) (x lo hi : Expr)
    (fv vlo vhi : Variant) (m1 m2 m3 : Memo) (a n m : Int)
    (hx : columnValue cx (some e) [] x = .ok (fv, m1))
    (hlo : columnValue cx (some e) [] lo = .ok (vlo, m2))
    (hhi : columnValue cx (some e) [] hi = .ok (vhi, m3))
    (hty : fv.ty = .int) (ha : fv.toInt = a) (hfx : fv.exact = true)
    (hvl : vlo.exact = true) (hil : vlo.toFloat.fractNonZero = false) (hn : vlo.toInt = n)
    (hvh : vhi.exact = true) (hih : vhi.toFloat.fractNonZero = false) (hm : vhi.toInt = m) :
    conforms cx e cache (betweenTree x lo hi) = .ok (.val (decide (n ≤ a ∧ a ≤ m)), cache) := by
  have c1 := int_atom_spec cx.cfg.today cache fv vlo .Gte a n (decide (a ≥ n)) hty ha hfx hvl hil hn rfl
  have c2 := int_atom_spec cx.cfg.today cache fv vhi .Lte a m (decide (a ≤ m)) hty ha hfx hvh hih hm rfl
  simp only [betweenTree, conforms, compareAtom, patternOp, Bool.false_and, Bool.false_eq_true, if_false, hx, hlo, hhi, c1, c2]
  by_cases h1 : n ≤ a <;> by_cases h2 : a ≤ m <;> simp [h1, h2, CmpRes.and, and_beq_and]

/-- `column OP column` compares the two attributes of the same entry: both operands are evaluated on `e`,
    each with a fresh cache, and handed to the typed comparison -/
theorem column_vs_column (cx : EvalCtx) (e : Entry) (cache : RxCache) (f g : Field) (op : Op) (fv gv : Variant) (m1 m2 : Memo)
    (hf : columnValue cx (some e) [] (.field false f) = .ok (fv, m1))
    (hg : columnValue cx (some e) [] (.field false g) = .ok (gv, m2)) :
    conforms cx e cache (.cmp (.field false f) op (.field false g)) = compareAtom cx.cfg.today cache fv op gv := by
  simp only [conforms, hf, hg]

/-- an atom whose operator is no pattern operator (or whose left value is text) is the typed comparison -/
theorem atom_is_typed_comparison (today : Int) (cache : RxCache) (fv v : Variant) (op : Op)
    (h : patternOp op = false ∨ fv.ty = .string) :
    compareAtom today cache fv op v = compareValues today cache fv op v := by
  unfold compareAtom
  rcases h with h | h
  · simp [h]
  · have hb : (fv.ty != VType.string) = false := by rw [h]; rfl
    simp [hb]

/-- LIKE / regex operators against a column of any type match the *text* of its value: the verdict is the
    one the same operator gives on the text column holding that text (D74 fix: they used to be false,
    and so were their negations) -/
theorem pattern_on_any_type (today : Int) (cache : RxCache) (fv v : Variant) (op : Op)
    (hp : patternOp op = true) (hex : fv.exact = true) :
    compareAtom today cache fv op v = compareValues today cache (.ofString fv.text) op (.ofString v.text) := by
  unfold compareAtom
  by_cases hs : fv.ty = .string
  · have hb : (fv.ty != VType.string) = false := by rw [hs]; rfl
    simp only [hb, Bool.and_false, Bool.false_eq_true, if_false]
    cases op <;> simp [patternOp] at hp <;> simp [compareValues, hs, Variant.ofString]
  · have : (fv.ty != .string) = true := by
      cases hty : fv.ty <;> first | rfl | exact absurd hty hs
    simp only [hp, this, Bool.and_self, if_true, hex, Bool.not_true, Bool.false_eq_true, if_false]
    cases op <;> simp [patternOp] at hp <;> simp [compareValues, Variant.ofString]

/-- `size between 10 and 20`, `size not between 10 and 20`, `size >= hardlinks` are instances (hypotheses met) -/
example :
    let sz : ParseL.E := .mk (.mk (.atom [.raw (ofS "size")] (.field false .Size)) .nil) .nil
    let hl : ParseL.E := .mk (.mk (.atom [.raw (ofS "hardlinks")] (.field false .Hardlinks)) .nil) .nil
    sz.WF true ∧ hl.WF true ∧ sz.toks ≠ [] ∧ sz.toks.head? ≠ some .not_ ∧ Op.ofStr? (ofS ">=") = some .Gte := by
  refine ⟨?_, ?_, by decide, by decide, by decide⟩
  · simp only [ParseL.E.WF, ParseL.T.WF, ParseL.F.WF, ParseL.TTail.WF, ParseL.ETail.WF]
    exact ⟨⟨C15.atom_column true _ _ (by decide), trivial⟩, trivial⟩
  · simp only [ParseL.E.WF, ParseL.T.WF, ParseL.F.WF, ParseL.TTail.WF, ParseL.ETail.WF]
    exact ⟨⟨C15.atom_column true _ _ (by decide), trivial⟩, trivial⟩

end Fsel.C02
