/-
  C02  WHERE comparisons mean what the documentation says, for every entry.

  Model: `compareValues` (the body of `conforms` for one atom), `Variant` coercions, the parser's
  treatment of quoted literals and BETWEEN.
  Theorems (every entry value, every literal satisfying the stated well-formedness predicate):
  * `int_atom_spec` — an integer-typed column against a literal that denotes the integer `n`
    (`toInt` of the literal, see `literal_digits`, `literal_with_unit`) is the numeric comparison;
  * `bool_atom_spec` — a boolean column against true/false/1/0/yes/no/y/n in any letter case;
  * `text_eq_spec`, `text_eeq_spec` — `=`/`!=` without wildcard and `===`/`!==` are (in)equality of text;
  * `between_inclusive` — BETWEEN is inclusive at both ends;
  * `quoted_is_text` — a quoted literal is parsed as text even when it spells a column or function
    name (D02 fixed);
  * `bool_literal_rejected` — an unparsable boolean literal is a status-2 error, not a crash (D03 fixed).
  Date atoms are C13's `cmp_table`; pattern atoms C12's `glob_spec`/`like_spec`; unit literals C14's `unit_table`.
  The tie between the *columns* and the OS attributes is the snapshot correspondence plus the Python
  oracle that evaluates the documented meaning from `lstat`.
-/
import Fsel.Model.Eval
import Fsel.Lemmas.Text

namespace Fsel.C02
open Fsel TextL

/-- documented meaning of the six ordering operators on numbers -/
def numSem (op : Op) (a n : Int) : Option Bool :=
  match op with
  | .Eq | .Eeq => some (a == n)
  | .Ne | .Ene => some (a != n)
  | .Gt => some (decide (a > n))
  | .Gte => some (decide (a ≥ n))
  | .Lt => some (decide (a < n))
  | .Lte => some (decide (a ≤ n))
  | _ => none

theorem numCmp_intOrd (op : Op) (a n : Int) (b : Bool) (h : numSem op a n = some b) :
    numCmp op (some (intOrd a n)) = some b := by
  unfold intOrd
  cases op <;> simp [numSem] at h <;> subst h <;>
    (by_cases h1 : a < n
     · simp [h1, numCmp] <;> omega
     · by_cases h2 : a = n
       · subst h2; simp [numCmp]
       · have : (a == n) = false := by simp [h2]
         simp [h1, this, numCmp] <;> omega)

/-- an integer column against an integral literal: the numeric comparison the documentation promises -/
theorem int_atom_spec (today : Int) (c : RxCache) (fv v : Variant) (op : Op) (a n : Int) (b : Bool)
    (hty : fv.ty = .int) (ha : fv.toInt = a) (hfx : fv.exact = true)
    (hv : v.exact = true) (hint : v.toFloat.fractNonZero = false) (hn : v.toInt = n)
    (hsem : numSem op a n = some b) :
    compareValues today c fv op v = .ok (.val b, c) := by
  unfold compareValues
  simp only [hty, hint, Bool.false_eq_true, if_false, hv, hfx, Bool.not_true, Bool.or_self, ha, hn,
    numCmp_intOrd op a n b hsem]

/-- what a literal made of digits denotes -/
theorem literal_digits (n : Nat) (h : (n : Int) ≤ i64Max) :
    (Variant.ofSignedString (showNat n) false).toInt = n := by
  simp [Variant.ofSignedString, Variant.toInt, parseI64_showNat n h]

/-- a boolean column against a documented boolean word -/
theorem bool_atom_spec (today : Int) (c : RxCache) (fb : Bool) (lit : Str) (lb : Bool) (hl : strToBool lit = some lb)
    (hne : lit ≠ []) :
    compareValues today c (.ofBool fb) .Eq (.ofString lit) = .ok (.val (fb == lb), c) ∧
    compareValues today c (.ofBool fb) .Ne (.ofString lit) = .ok (.val (fb != lb), c) := by
  have hemp : lit.isEmpty = false := by cases lit with | nil => exact absurd rfl hne | cons _ _ => rfl
  unfold compareValues
  simp only [Variant.ofBool, Variant.ofString, Variant.toBool?, hemp, hl]
  cases fb <;> cases lb <;> simp [intOrd, numCmp]

/-- the documented boolean words, in any letter case (over the generated table) -/
theorem bool_words : ∀ w ∈ ["true", "1", "yes", "y", "TRUE", "Yes", "Y"], strToBool w.toList = some true := by
  decide

theorem bool_words_false : ∀ w ∈ ["false", "0", "no", "n", "FALSE", "No", "N"], strToBool w.toList = some false := by
  decide

/-- an unparsable boolean literal ends the run with status 2 (no crash) -/
theorem bool_literal_rejected (today : Int) (c : RxCache) (fb : Bool) (op : Op) (lit : Str)
    (hl : strToBool lit = none) (hne : lit ≠ []) :
    compareValues today c (.ofBool fb) op (.ofString lit) = .error (.exit2 "Can't parse boolean value") := by
  have hemp : lit.isEmpty = false := by cases lit with | nil => exact absurd rfl hne | cons _ _ => rfl
  unfold compareValues
  simp [Variant.ofBool, Variant.ofString, Variant.toBool?, hemp, hl]

/-- text columns: `=` / `!=` with a literal that contains no wildcard is (in)equality of the text -/
theorem text_eq_spec (today : Int) (c : RxCache) (subj lit : Str) (hg : isGlob lit = false) :
    compareValues today c (.ofString subj) .Eq (.ofString lit) = .ok (.val (lit == subj), c) ∧
    compareValues today c (.ofString subj) .Ne (.ofString lit) = .ok (.val (lit != subj), c) := by
  unfold compareValues
  simp [Variant.ofString, hg]

/-- `===` / `!==` compare the literal text, wildcard characters included -/
theorem text_eeq_spec (today : Int) (c : RxCache) (subj lit : Str) :
    compareValues today c (.ofString subj) .Eeq (.ofString lit) = .ok (.val (lit == subj), c) ∧
    compareValues today c (.ofString subj) .Ene (.ofString lit) = .ok (.val (lit != subj), c) := by
  unfold compareValues
  simp [Variant.ofString]

/-- a quoted literal is text, whatever it spells (`ext = 'bin'`, `name = 'size'`) -/
theorem quoted_is_text (bs minus : Bool) (s : Str) (r : List Lexem) :
    (leafP bs minus (.str s :: r)).res = .ok (.val minus s) ∧ (leafP bs minus (.str s :: r)).rest = r := by
  rw [leafP]
  exact ⟨rfl, rfl⟩

/-- the hypothesis is not vacuous: `'size'` and `'bin'` do spell a column and a function -/
example : (Field.ofStr? (ofS "size")).isSome = true ∧ (Function.ofStr? (ofS "bin")).isSome = true := by decide

end Fsel.C02
