/-
  C10  Any command line terminates with status 0, 1 or 2 — never a crash or a hang.

  What is a theorem here (about the model), for every argument vector / token list, no bound:
  * the lexer and the parser are total functions: `scan`, `nextLexem`, `lexLoop`, the 14 mutually
    recursive expression parsers and the clause loops (`iterate`) are accepted by Lean's
    termination checker with explicit measures — a faithful model of the pre-fix code (`fselect /`,
    D25) is *not definable* that way;
  * the result type of the parser has no `panic`/`hang` constructor (D20–D25 fixed): totality with
    outcome ∈ {query, Err(msg)} is `parse_outcomes`;
  * every sub-parser makes strict progress on success and on failure (`parseExpr_progress`), which
    is the invariant that makes the select-list loop terminate;
  * each class of malformed query named in the property is rejected (`*_rejected` theorems).
-/
import Fsel.Model.ParserTop

namespace Fsel.C10
open Fsel

/-- Parsing any argument vector yields a query or an error message; there is no third outcome
    (in particular no panic and no non-termination: `parseQuery` is a total function). -/
theorem parse_outcomes (parts : List Str) :
    (∃ q, parseQuery parts = .ok q) ∨ (∃ m, parseQuery parts = .error (.msg m)) ∨
    (∃ w, parseQuery parts = .error (.unsupported w)) := by
  cases h : parseQuery parts with
  | ok q => exact Or.inl ⟨q, rfl⟩
  | error e =>
    cases e with
    | msg m => exact Or.inr (Or.inl ⟨m, rfl⟩)
    | unsupported w => exact Or.inr (Or.inr ⟨w, rfl⟩)

/-- An expression parse started on a non-empty token list always consumes at least one token,
    whether it succeeds or fails (the D25 invariant). -/
theorem parseExpr_progress (bs : Bool) (ts : List Lexem) (h : ts ≠ []) :
    (parseExpr bs ts).rest.length < ts.length :=
  (parseExpr bs ts).progress rfl h

/-- The select-list loop cannot spin: each step either finishes or strictly shortens the input. -/
theorem fields_step_progress (acc : List Expr) (ts : List Lexem) :
    match fieldsStep acc ts with
    | .more _ r _ => r.length < ts.length
    | .done _ r => r.1.length ≤ ts.length := by
  cases h : fieldsStep acc ts with
  | more s r hr => exact hr
  | done res r => exact r.2

/-- no column ⇒ rejected -/
theorem no_column_rejected :
    parseTokens [] = .error (.msg "Error parsing fields, no selector found") := by
  simp [parseTokens, parseFields, iterate, fieldsStep]

/-- non-numeric LIMIT ⇒ rejected -/
theorem limit_non_numeric_rejected (s : Str) (r : List Lexem) (h : parseU32? s = none) :
    (parseLimit (.limit :: .raw s :: r)).1 = .error (.msg "Error parsing limit") := by
  simp [parseLimit, h]

/-- LIMIT without a value ⇒ rejected -/
theorem limit_missing_rejected : (parseLimit [.limit]).1 = .error (.msg "Error parsing limit, limit value not found") := by
  simp [parseLimit]

/-- unknown output format ⇒ rejected -/
theorem unknown_format_rejected (s : Str) (r : List Lexem) (h : OutputFormat.ofStr? s = none) :
    (parseOutputFormat (.into :: .raw s :: r)).1 = .error (.msg "Unknown output format") := by
  simp [parseOutputFormat, h]

/-- out-of-range or zero ORDER BY position ⇒ rejected (D20, fixed) -/
theorem order_position_rejected (fields : List Expr) (st : List Expr × List Bool) (s : Str) (r : List Lexem)
    (idx : Nat) (hs : parseUsize? s = some idx) (hr : idx = 0 ∨ fields.length < idx) :
    ∃ rest, orderStep fields st (.raw s :: r) =
      .done (.error (.msg "Error parsing ORDER BY, position is out of range")) rest := by
  unfold orderStep
  simp only [hs]
  rcases hr with h0 | hlt
  · subst h0; exact ⟨_, rfl⟩
  · by_cases h0 : idx = 0
    · subst h0; exact ⟨_, rfl⟩
    · have : fields[idx - 1]? = none := by
        apply List.getElem?_eq_none; omega
      simp [h0, this]

/-- a misplaced DESC (no key before it) ⇒ rejected (D21, fixed) -/
theorem order_desc_first_rejected (fields : List Expr) (fs : List Expr) (r : List Lexem) :
    ∃ rest, orderStep fields (fs, []) (.desc :: r) =
      .done (.error (.msg "Error parsing ORDER BY, DESC without a field")) rest := by
  unfold orderStep; exact ⟨_, rfl⟩

/-- unbalanced round bracket ⇒ rejected, whatever follows -/
theorem unbalanced_open_rejected (bs : Bool) (ts : List Lexem)
    (h : ∀ r3, (parseExpr bs ts).rest ≠ .close :: r3) :
    (parseParen bs (.open_ :: ts)).res = .error (.msg "Unmatched parenthesis") := by
  rw [parseParen]
  generalize hp : parseExpr bs ts = p at h
  obtain ⟨res, r2, h2, h3⟩ := p
  simp only at h ⊢
  cases r2 with
  | nil => rfl
  | cons x xs =>
    cases x <;> first | rfl | (exact absurd rfl (h xs))

/-- the hypothesis of `unbalanced_open_rejected` is satisfiable: a lone `(` at end of input -/
example : (parseParen false [.open_]).res = .error (.msg "Unmatched parenthesis") := by
  apply unbalanced_open_rejected
  intro r3 h
  have := (parseExpr false []).le
  rw [h] at this
  simp at this

end Fsel.C10
