/-
  C14  Size literals and size formatting follow the documented unit tables.

  Model: `parseFilesize` driven by the *generated* ladder `sizeLadder` (suffix, length bound, cut, float?,
  multiplier — extracted from `parse_filesize` on every run), `formatFilesize` with the generated unit
  table.
  Theorems:
  * `ladder_wf` — every rung of the generated ladder has a non-empty, digit-free suffix and cuts
    exactly its suffix (`decide` over the whole table);
  * `doc_units_first_match` — for every documented unit the first rung whose suffix ends the unit is the
    unit itself, with the documented multiplier (`decide` over documentation table × generated ladder);
  * `unit_table` — for every natural `n` and every documented unit `u`, in lower case:
    `parse_filesize("<n><u>") = n × multiplier(u)` (while the product fits in u64) — lifted from the two
    table facts by `sizeRung_digits`, a lemma about *any* well-formed ladder;
  * `unit_case_insensitive` — letter case of the unit does not matter; `no_unit` — a bare number is bytes.
  Fractional numbers, the specifier grammar of FORMAT_SIZE/fsize, monotonicity and round-trip of the
  rendering are decided by the correspondence (exact on dyadic values) and the oracle.
-/
import Fsel.Model.Size
import Fsel.Lemmas.Num

namespace Fsel.C14
open Fsel TextL NumL

/-- the documentation's unit table (docs/usage.md): unit ↦ multiplier -/
def docUnits : List (Str × Nat) :=
  [ ("k", 1024), ("kib", 1024), ("kb", 1000), ("m", 1024 ^ 2), ("mib", 1024 ^ 2), ("mb", 1000 ^ 2),
    ("g", 1024 ^ 3), ("gib", 1024 ^ 3), ("gb", 1000 ^ 3), ("t", 1024 ^ 4), ("tib", 1024 ^ 4), ("tb", 1000 ^ 4),
    ("b", 1) ].map fun (u, m) => (u.toList, m)

/-- the characters of a plain decimal number -/
def numCh (c : Char) : Bool := isDigit c || c == '.'

def rungWF (r : Str × Nat × Nat × Bool × Nat) : Bool :=
  !r.1.isEmpty && r.1.all (fun c => !numCh c && c.toNat < 128) && r.2.1 == r.1.length && r.2.2.1 == r.1.length

/-- every rung of the generated ladder is well-formed -/
theorem ladder_wf : sizeLadder.all rungWF = true := by decide

/-- rung selected for a unit: the first whose suffix ends the unit -/
def firstRung (ladder : List (Str × Nat × Nat × Bool × Nat)) (u : Str) : Option (Str × Nat × Nat × Bool × Nat) :=
  ladder.find? fun r => decide (r.1.length ≤ u.length) && endsWith u r.1

/-- for each documented unit the selected rung is that unit with the documented multiplier -/
theorem doc_units_first_match :
    docUnits.all (fun (u, m) => match firstRung sizeLadder u with
      | some r => r.1 == u && r.2.2.2.2 == m
      | none => false) = true := by decide

/-- every documented unit but `b` accepts a fractional number (its rung parses an `f64`) -/
theorem doc_units_fractional :
    docUnits.all (fun (u, _) => match firstRung sizeLadder u with
      | some r => r.2.2.2.1 || u == ['b']
      | none => false) = true := by decide

theorem utf8Len_ascii (s : Str) (h : s.all (fun c => c.toNat < 128) = true) : utf8Len s = s.length := by
  induction s with
  | nil => rfl
  | cons c s ih =>
    simp only [List.all_cons, Bool.and_eq_true, decide_eq_true_eq] at h
    have : c.utf8Size = 1 := by
      unfold Char.utf8Size
      have h1 : c.val ≤ 127 := by
        have : c.val.toNat < 128 := h.1
        exact (UInt32.le_iff_toNat_le).mpr (by simp; omega)
      simp [h1]
    simp only [utf8Len, List.map_cons, List.sum_cons, this, List.length_cons] at *
    rw [ih (by simpa using h.2)]; omega

theorem digit_ascii (c : Char) (h : isDigit c = true) : c.toNat < 128 := by
  simp only [isDigit, Bool.and_eq_true, decide_eq_true_eq] at h
  have : c.toNat ≤ '9'.toNat := h.2
  have : '9'.toNat = 57 := rfl
  omega

theorem numCh_ascii (c : Char) (h : numCh c = true) : c.toNat < 128 := by
  simp only [numCh, Bool.or_eq_true, beq_iff_eq] at h
  rcases h with h | h
  · exact digit_ascii c h
  · subst h; decide

theorem digits_numCh (ds : Str) (h : ds.all isDigit = true) : ds.all numCh = true :=
  List.all_eq_true.mpr fun c hc => by simp [numCh, List.all_eq_true.mp h c hc]

/-- a suffix free of number characters ends `number ++ unit` exactly when it ends the unit -/
theorem endsWith_digits (ds u sfx : Str) (hd : ds.all numCh = true)
    (hs : sfx.all (fun c => !numCh c) = true) (hne : sfx ≠ []) :
    endsWith (ds ++ u) sfx = (decide (sfx.length ≤ u.length) && endsWith u sfx) := by
  unfold endsWith
  by_cases hl : sfx.length ≤ u.length
  · simp only [hl, decide_true, Bool.true_and]
    apply Bool.eq_iff_iff.mpr
    rw [List.isSuffixOf_iff_suffix, List.isSuffixOf_iff_suffix]
    constructor
    · intro h
      exact List.suffix_of_suffix_length_le h (List.suffix_append ds u) hl
    · intro h
      exact h.trans (List.suffix_append ds u)
  · simp only [hl, decide_false, Bool.false_and]
    cases hsfx : sfx.isSuffixOf (ds ++ u) with
    | false => rfl
    | true =>
      exfalso
      have h1 : sfx <:+ ds ++ u := List.isSuffixOf_iff_suffix.mp hsfx
      have h2 : u <:+ sfx := List.suffix_of_suffix_length_le (List.suffix_append ds u) h1 (by omega)
      obtain ⟨t, ht⟩ := h2
      obtain ⟨s, hs'⟩ := h1
      -- ds ++ u = s ++ t ++ u, so ds = s ++ t
      have : ds = s ++ t := by
        have e : s ++ (t ++ u) = ds ++ u := by rw [ht]; exact hs'
        rw [← List.append_assoc] at e
        exact (List.append_cancel_right e).symm
      have htne : t ≠ [] := by
        intro e; subst e
        simp at ht; subst ht; omega
      cases t with
      | nil => exact htne rfl
      | cons c t' =>
        have hc1 : numCh c = true := by
          have : c ∈ ds := by rw [this]; simp
          exact List.all_eq_true.mp hd c this
        have hc2 : (!numCh c) = true := by
          have : c ∈ sfx := by rw [← ht]; simp
          exact List.all_eq_true.mp hs c this
        simp [hc1] at hc2

/-- on `number ++ unit` a well-formed ladder selects `firstRung unit` and applies it to the number text -/
theorem sizeRung_digits (ladder : List (Str × Nat × Nat × Bool × Nat)) (hwf : ladder.all rungWF = true)
    (ds u : Str) (hd : ds.all numCh = true) (hdne : ds ≠ []) (hu : u.all (fun c => c.toNat < 128) = true)
    (r : Str × Nat × Nat × Bool × Nat) (hr : firstRung ladder u = some r) (hru : r.1 = u) :
    sizeRung (ds ++ u) ladder =
      some (if r.2.2.2.1 then (parseF64? ds).map (fun v => (scaleSize ds v r.2.2.2.2).1)
            else (parseU64? ds).map (· * r.2.2.2.2)) := by
  have hlen : utf8Len (ds ++ u) = ds.length + u.length := by
    rw [utf8Len_ascii]
    · simp
    · rw [List.all_append, Bool.and_eq_true]
      refine ⟨?_, hu⟩
      exact List.all_eq_true.mpr fun c hc => by
        simpa using numCh_ascii c (List.all_eq_true.mp hd c hc)
  have hdl : 0 < ds.length := by cases ds with | nil => exact absurd rfl hdne | cons _ _ => simp
  induction ladder with
  | nil => simp [firstRung] at hr
  | cons q qs ih =>
    obtain ⟨sfx, minLen, cut, isFloat, mult⟩ := q
    simp only [List.all_cons, Bool.and_eq_true] at hwf
    obtain ⟨hq, hqs⟩ := hwf
    simp only [rungWF, Bool.and_eq_true, Bool.not_eq_true', beq_iff_eq] at hq
    obtain ⟨⟨⟨hq1, hq2⟩, hq3⟩, hq4⟩ := hq
    have hsne : sfx ≠ [] := by intro e; subst e; simp at hq1
    have hsnd : sfx.all (fun c => !numCh c) = true :=
      List.all_eq_true.mpr fun c hc => by
        have := List.all_eq_true.mp hq2 c hc
        simp only [Bool.and_eq_true, Bool.not_eq_true'] at this
        simp [this.1]
    have hew := endsWith_digits ds u sfx hd hsnd hsne
    simp only [sizeRung]
    simp only [firstRung, List.find?_cons] at hr
    by_cases hm : (decide (sfx.length ≤ u.length) && endsWith u sfx) = true
    · -- this rung is selected
      simp only [hm] at hr
      have hre : r = (sfx, minLen, cut, isFloat, mult) := by simpa using hr.symm
      subst hre
      simp only at hru
      subst hru
      have hcond : (decide (utf8Len (ds ++ sfx) > minLen) && endsWith (ds ++ sfx) sfx) = true := by
        rw [hew, hm, hlen, hq3]
        simp; omega
      simp only [hcond, if_true]
      have hbody : (ds ++ sfx).take ((ds ++ sfx).length - cut) = ds := by
        rw [hq4]; simp
      rw [hbody]
      cases isFloat with
      | true =>
        simp only [if_true]
        cases parseF64? ds <;> rfl
      | false =>
        simp only [Bool.false_eq_true, if_false]
        cases parseU64? ds <;> rfl
    · have hm' : (decide (sfx.length ≤ u.length) && endsWith u sfx) = false := by
        cases h : (decide (sfx.length ≤ u.length) && endsWith u sfx) with
        | false => rfl
        | true => exact absurd h hm
      simp only [hm'] at hr
      have hcond : (decide (utf8Len (ds ++ u) > minLen) && endsWith (ds ++ u) sfx) = false := by
        rw [hew, hm']; simp
      simp only [hcond, Bool.false_eq_true, if_false]
      exact ih hqs hr

theorem ratTrunc_natCast (k : Nat) : ratTrunc (k : Rat) = (k : Int) := by
  simp [ratTrunc, Rat.num_natCast, Rat.den_natCast]

/-! ### plain decimal numbers -/

theorem foldl_digits (b : Str) : ∀ acc : Nat,
    b.foldl (fun acc c => acc * 10 + digitVal c) acc = acc * 10 ^ b.length + b.foldl (fun acc c => acc * 10 + digitVal c) 0 := by
  induction b with
  | nil => intro acc; simp
  | cons c b ih =>
    intro acc
    simp only [List.foldl_cons, List.length_cons]
    rw [ih (acc * 10 + digitVal c), ih (0 * 10 + digitVal c)]
    rw [Nat.pow_succ, Nat.add_mul, Nat.zero_mul, Nat.zero_add]
    have : acc * 10 * 10 ^ b.length = acc * (10 ^ b.length * 10) := by
      rw [Nat.mul_assoc, Nat.mul_comm 10]
    omega

/-- the digits of `a` followed by the digits of `b` read as one number -/
theorem digitsVal_app (a b : Str) : digitsVal (a ++ b) = digitsVal a * 10 ^ b.length + digitsVal b := by
  unfold digitsVal
  rw [List.foldl_append, foldl_digits]

theorem takeWhile_stop {α : Type} (p : α → Bool) (l : List α) (x : α) (r : List α) (h : l.all p = true) (hx : p x = false) :
    (l ++ x :: r).takeWhile p = l ∧ (l ++ x :: r).dropWhile p = x :: r := by
  induction l with
  | nil => simp [List.takeWhile, List.dropWhile, hx]
  | cons a l ih =>
    simp only [List.all_cons, Bool.and_eq_true] at h
    simp [List.takeWhile, List.dropWhile, h.1, ih h.2]

theorem digit_ne (c d : Char) (hc : isDigit c = true) (hd : isDigit d = false) : c ≠ d := by
  intro e; rw [e] at hc; rw [hc] at hd; exact absurd hd (by decide)

theorem strip_plus_digits : (ds : Str) → ds.all isDigit = true → stripPlus ds = ds
  | [], _ => rfl
  | c :: t, hd => by
    simp only [List.all_cons, Bool.and_eq_true] at hd
    have hc : c ≠ '+' := digit_ne c '+' hd.1 (by decide)
    unfold stripPlus
    split
    · rename_i t' heq
      simp only [List.cons.injEq] at heq
      exact absurd heq.1 hc
    · rfl

theorem ne_dot_of_digit (ds : Str) (hd : ds.all isDigit = true) : ds.all (fun c => c != '.') = true :=
  List.all_eq_true.mpr fun c hc => by
    have := digit_ne c '.' (List.all_eq_true.mp hd c hc) (by decide)
    simpa using this

/-- `scale_size`'s reading of `<digits>` -/
theorem plainDecimal_int (ds : Str) (hd : ds.all isDigit = true) (hne : ds ≠ []) :
    plainDecimal? ds = some (digitsVal ds, 0) := by
  unfold plainDecimal?
  have h1 := ne_dot_of_digit ds hd
  simp only [takeWhile_all _ ds h1, dropWhile_all _ ds h1, List.drop_nil, strip_plus_digits ds hd, List.append_nil]
  have he : ds.isEmpty = false := by cases ds with | nil => exact absurd rfl hne | cons _ _ => rfl
  simp [he, hd]

/-- `scale_size`'s reading of `<digits>.<digits>` -/
theorem plainDecimal_frac (ds fs : Str) (hd : ds.all isDigit = true) (hne : ds ≠ []) (hfs : fs.all isDigit = true) :
    plainDecimal? (ds ++ '.' :: fs) = some (digitsVal (ds ++ fs), fs.length) := by
  unfold plainDecimal?
  have h1 := ne_dot_of_digit ds hd
  obtain ⟨t1, t2⟩ := takeWhile_stop (fun c => c != '.') ds '.' fs h1 (by decide)
  simp only [t1, t2, List.drop_succ_cons, List.drop_zero, strip_plus_digits ds hd]
  have he : ds.isEmpty = false := by cases ds with | nil => exact absurd rfl hne | cons _ _ => rfl
  have hall : (ds ++ fs).all isDigit = true := by rw [List.all_append, hd, hfs]; rfl
  simp [he, hall]

/-- `"<digits>.<digits>".parse::<f64>()` succeeds -/
theorem parseF64_plain (ds fs : Str) (hd : ds.all isDigit = true) (hne : ds ≠ []) (hfs : fs.all isDigit = true) :
    ∃ v, parseF64? (ds ++ '.' :: fs) = some v := by
  cases ds with
  | nil => exact absurd rfl hne
  | cons c t =>
    simp only [List.all_cons, Bool.and_eq_true] at hd
    have hsplit : splitSign (c :: t ++ '.' :: fs) = (false, c :: t ++ '.' :: fs) := by
      unfold splitSign
      split
      · rename_i r heq
        simp only [List.cons_append, List.cons.injEq] at heq
        exact absurd heq.1 (digit_ne c '-' hd.1 (by decide))
      · rename_i r heq
        simp only [List.cons_append, List.cons.injEq] at heq
        exact absurd heq.1 (digit_ne c '+' hd.1 (by decide))
      · rfl
    have hlc : lowerAscii c = c := by
      have := lowerStr_digits [c] (by simp [hd.1])
      simpa [lowerStr] using this
    have hword : ∀ (d : Char) (w : Str), isDigit d = false → (lowerStr (c :: t ++ '.' :: fs) == d :: w) = false := by
      intro d w hdg
      have : c ≠ d := digit_ne c d hd.1 hdg
      simp [lowerStr, hlc, this]
    have w1 : (lowerStr (c :: t ++ '.' :: fs) == ofS "inf") = false := hword 'i' ['n', 'f'] (by decide)
    have w2 : (lowerStr (c :: t ++ '.' :: fs) == ofS "infinity") = false := hword 'i' ['n', 'f', 'i', 'n', 'i', 't', 'y'] (by decide)
    have w3 : (lowerStr (c :: t ++ '.' :: fs) == ofS "nan") = false := hword 'n' ['a', 'n'] (by decide)
    unfold parseF64?
    simp only [hsplit, w1, w2, w3, Bool.or_self, Bool.false_eq_true, if_false]
    have hall : (c :: t).all isDigit = true := by simp [hd.1, hd.2]
    obtain ⟨t1, t2⟩ := takeWhile_stop isDigit (c :: t) '.' fs hall (by decide)
    unfold parseUnsignedDecimal
    simp only [t1, t2, fracPart, takeWhile_all isDigit fs hfs, dropWhile_all isDigit fs hfs, List.isEmpty_cons, Bool.false_and,
      Bool.false_eq_true, if_false, parseExponent]
    exact ⟨_, rfl⟩

theorem norm_literal (b u : Str) (hb : b.all numCh = true) (hl1 : lowerStr u = u) (hl3 : u.filter (· != ' ') = u) :
    (lowerStr (b ++ u)).filter (· != ' ') = b ++ u := by
  have hlb : lowerStr b = b := by
    induction b with
    | nil => rfl
    | cons c b ih =>
      simp only [List.all_cons, Bool.and_eq_true] at hb
      have hc : lowerAscii c = c := by
        have hh := hb.1
        simp only [numCh, Bool.or_eq_true, beq_iff_eq] at hh
        rcases hh with h | h
        · have := lowerStr_digits [c] (by simp [h])
          simpa [lowerStr] using this
        · subst h; decide
      simp only [lowerStr, List.map_cons, hc] at *
      rw [ih hb.2]
  have h1 : lowerStr (b ++ u) = b ++ u := by
    simp only [lowerStr, List.map_append] at *
    rw [hlb, hl1]
  rw [h1, List.filter_append, hl3]
  congr 1
  apply List.filter_eq_self.mpr
  intro c hc
  have hh := List.all_eq_true.mp hb c hc
  have : c ≠ ' ' := by
    intro e; subst e; exact absurd hh (by decide)
  simpa using this

/-- whole numbers: `scale_size` (either way it is computed) yields the product -/
theorem scaleSize_nat (n m : Nat) (hm : 0 < m) (hfit : n * m ≤ u64Max) :
    (scaleSize (showNat n) (Num.mk (n : Rat) true) m).1 = n * m := by
  have hfloat : ((Num.mk (n : Rat) true).mul (Num.ofNat m)).toU64 = n * m := by
    simp only [Num.mk, Num.ofNat, Num.mul, Num.toU64]
    have hq : (n : Rat) * (m : Rat) = ((n * m : Nat) : Rat) := by simp [Rat.natCast_mul]
    rw [hq]
    rw [ratTrunc_natCast]
    have h0 : ¬ (((n * m : Nat) : Int) < 0) := by omega
    simp only [h0, if_false, Int.toNat_natCast]
    have : ¬ (n * m > u64Max) := by omega
    simp [this]
  unfold scaleSize
  cases hs : sizeScaledInIntegers with
  | false => simp only [Bool.false_eq_true, if_false]; exact hfloat
  | true =>
    simp only [if_true, plainDecimal_int (showNat n) (showNat_all_digits n) (showNat_ne_nil n), digitsVal_showNat]
    have h64 : u64Max ≤ u128Max := by decide
    have hn : n ≤ u64Max := Nat.le_trans (Nat.le_mul_of_pos_right n hm) hfit
    have c1 : (decide (n ≤ u128Max) && decide (0 ≤ 38) && decide (n * m ≤ u128Max)) = true := by
      simp; omega
    simp only [c1, if_true, Nat.pow_zero, Nat.div_one]
    exact Nat.min_eq_left hfit

/-- **unit table**: `<n><unit>` denotes n × the documented multiplier, for every n and documented unit -/
theorem unit_table (n : Nat) (u : Str) (m : Nat) (hum : (u, m) ∈ docUnits) (hfit : n * m ≤ u64Max) :
    parseFilesize (showNat n ++ u) = some (n * m) := by
  -- facts about this unit from the tables
  have hall := List.all_eq_true.mp doc_units_first_match (u, m) hum
  simp only at hall
  have hlow : lowerStr u = u ∧ u.all (fun c => c.toNat < 128) = true ∧ (u.filter (· != ' ')) = u ∧ 0 < m := by
    simp only [docUnits, List.map_cons, List.map_nil, List.mem_cons, Prod.mk.injEq, List.mem_nil_iff, or_false] at hum
    rcases hum with ⟨rfl, rfl⟩ | ⟨rfl, rfl⟩ | ⟨rfl, rfl⟩ | ⟨rfl, rfl⟩ | ⟨rfl, rfl⟩ | ⟨rfl, rfl⟩ | ⟨rfl, rfl⟩ | ⟨rfl, rfl⟩ |
      ⟨rfl, rfl⟩ | ⟨rfl, rfl⟩ | ⟨rfl, rfl⟩ | ⟨rfl, rfl⟩ | ⟨rfl, rfl⟩ <;> decide
  obtain ⟨hl1, hl2, hl3, hmpos⟩ := hlow
  have hdig := showNat_all_digits n
  have hnn : n ≤ u64Max := Nat.le_trans (Nat.le_mul_of_pos_right n hmpos) hfit
  -- normalisation of the literal
  have hnorm : (lowerStr (showNat n ++ u)).filter (· != ' ') = showNat n ++ u := by
    have h1 : lowerStr (showNat n ++ u) = showNat n ++ u := by
      simp only [lowerStr, List.map_append] at *
      rw [show (showNat n).map lowerAscii = showNat n from lowerStr_digits _ hdig, hl1]
    rw [h1, List.filter_append, hl3]
    congr 1
    apply List.filter_eq_self.mpr
    intro c hc
    have := List.all_eq_true.mp hdig c hc
    have : c ≠ ' ' := by intro e; subst e; simp [isDigit] at this
    simpa using this
  unfold parseFilesize
  simp only [hnorm]
  cases hfr : firstRung sizeLadder u with
  | none => simp [hfr] at hall
  | some r =>
    simp only [hfr, Bool.and_eq_true, beq_iff_eq] at hall
    obtain ⟨hr1, hr2⟩ := hall
    rw [sizeRung_digits sizeLadder ladder_wf (showNat n) u (digits_numCh _ hdig) (showNat_ne_nil n) hl2 r hfr hr1]
    simp only [hr2]
    have hbig : ((n : Nat) : Rat) < ((2 ^ 1024 : Nat) : Rat) := by
      apply Rat.natCast_lt_natCast.mpr
      have h64 : u64Max < 2 ^ 64 := by decide
      have hpow : 2 ^ 64 ≤ 2 ^ 1024 := Nat.pow_le_pow_right (by decide) (by decide)
      omega
    cases r.2.2.2.1 with
    | false =>
      simp [parseU64_showNat n hnn]
    | true =>
      simp only [if_true, parseF64_showNat n hbig, Option.map_some, scaleSize_nat n m hmpos hfit]

/-- **fractional numbers**: `<digits>.<digits><unit>` denotes the decimal number × the documented
    multiplier, rounded down — exactly, for every number of at most 38 fraction digits whose scaled digits fit
    `u128` (saturating at `u64::MAX`), for every documented unit except `b` (which takes whole numbers only).
    Holds when the float rungs go through `scale_size` (`sizeScaledInIntegers`, read from the source on every
    run; D67 made it so). -/
theorem fraction_table (ds fs u : Str) (m : Nat) (hum : (u, m) ∈ docUnits) (hub : u ≠ ['b'])
    (hd : ds.all isDigit = true) (hne : ds ≠ []) (hfs : fs.all isDigit = true)
    (hsc : sizeScaledInIntegers = true) (hk : fs.length ≤ 38) (hfit : digitsVal (ds ++ fs) * m ≤ u128Max) :
    parseFilesize (ds ++ '.' :: fs ++ u) = some (min (digitsVal (ds ++ fs) * m / 10 ^ fs.length) u64Max) := by
  have hall := List.all_eq_true.mp doc_units_first_match (u, m) hum
  have hfl := List.all_eq_true.mp doc_units_fractional (u, m) hum
  simp only at hall hfl
  have hlow : lowerStr u = u ∧ u.all (fun c => c.toNat < 128) = true ∧ (u.filter (· != ' ')) = u ∧ 0 < m := by
    simp only [docUnits, List.map_cons, List.map_nil, List.mem_cons, Prod.mk.injEq, List.mem_nil_iff, or_false] at hum
    rcases hum with ⟨rfl, rfl⟩ | ⟨rfl, rfl⟩ | ⟨rfl, rfl⟩ | ⟨rfl, rfl⟩ | ⟨rfl, rfl⟩ | ⟨rfl, rfl⟩ | ⟨rfl, rfl⟩ | ⟨rfl, rfl⟩ |
      ⟨rfl, rfl⟩ | ⟨rfl, rfl⟩ | ⟨rfl, rfl⟩ | ⟨rfl, rfl⟩ | ⟨rfl, rfl⟩ <;> decide
  obtain ⟨hl1, hl2, hl3, hmpos⟩ := hlow
  have hbody : (ds ++ '.' :: fs).all numCh = true := by
    rw [List.all_append, List.all_cons, digits_numCh ds hd, digits_numCh fs hfs]; decide
  have hbne : ds ++ '.' :: fs ≠ [] := by simp
  have hnorm := norm_literal (ds ++ '.' :: fs) u hbody hl1 hl3
  unfold parseFilesize
  rw [show ds ++ '.' :: fs ++ u = (ds ++ '.' :: fs) ++ u from by simp] 
  simp only [hnorm]
  cases hfr : firstRung sizeLadder u with
  | none => simp [hfr] at hall
  | some r =>
    simp only [hfr, Bool.and_eq_true, beq_iff_eq] at hall
    simp only [hfr, Bool.or_eq_true, beq_iff_eq] at hfl
    obtain ⟨hr1, hr2⟩ := hall
    have hisf : r.2.2.2.1 = true := by
      rcases hfl with h | h
      · exact h
      · exact absurd h hub
    rw [sizeRung_digits sizeLadder ladder_wf (ds ++ '.' :: fs) u hbody hbne hl2 r hfr hr1]
    obtain ⟨v, hv⟩ := parseF64_plain ds fs hd hne hfs
    simp only [hisf, if_true, hv, Option.map_some, hr2]
    unfold scaleSize
    simp only [hsc, if_true, plainDecimal_frac ds fs hd hne hfs]
    have hdv : digitsVal (ds ++ fs) ≤ u128Max := Nat.le_trans (Nat.le_mul_of_pos_right _ hmpos) hfit
    have c1 : (decide (digitsVal (ds ++ fs) ≤ u128Max) && decide (fs.length ≤ 38) && decide (digitsVal (ds ++ fs) * m ≤ u128Max)) = true := by
      simp [hdv, hk, hfit]
    simp only [c1, if_true]

/-- the number a plain decimal denotes: its digits read as one integer, over 10^(fraction digits) -/
theorem decimal_value (ds fs : Str) : digitsVal (ds ++ fs) = digitsVal ds * 10 ^ fs.length + digitsVal fs :=
  digitsVal_app ds fs

/-- D67's witnesses: `1.001kb` is 1001 bytes and `4.1mb` is 4 100 000 bytes (the float products are
    1000.9999999999999 and, in one multiplication, 4099999.9999999995) -/
example (h : sizeScaledInIntegers = true) :
    parseFilesize (ofS "1.001kb") = some 1001 ∧ parseFilesize (ofS "4.1mb") = some 4100000 := by
  have hk : (ofS "kb", 1000) ∈ docUnits := by decide
  have hm : (ofS "mb", 1000 ^ 2) ∈ docUnits := by decide
  have f1 : digitsVal (ofS "1" ++ ofS "001") * 1000 ≤ u128Max := by decide
  have f2 : digitsVal (ofS "4" ++ ofS "1") * 1000 ^ 2 ≤ u128Max := by decide
  have a := fraction_table (ofS "1") (ofS "001") (ofS "kb") 1000 hk (by decide) (by decide) (by decide) (by decide) h (by decide) f1
  have b := fraction_table (ofS "4") (ofS "1") (ofS "mb") (1000 ^ 2) hm (by decide) (by decide) (by decide) (by decide) h (by decide) f2
  have e1 : ofS "1.001kb" = ofS "1" ++ '.' :: ofS "001" ++ ofS "kb" := by decide
  have e2 : ofS "4.1mb" = ofS "4" ++ '.' :: ofS "1" ++ ofS "mb" := by decide
  have v1 : min (digitsVal (ofS "1" ++ ofS "001") * 1000 / 10 ^ (ofS "001").length) u64Max = 1001 := by decide
  have v2 : min (digitsVal (ofS "4" ++ ofS "1") * 1000 ^ 2 / 10 ^ (ofS "1").length) u64Max = 4100000 := by decide
  rw [e1, e2, a, b, v1, v2]
  exact ⟨rfl, rfl⟩

/-! ### formatting: which unit is chosen when none is fixed -/

/-- `q` divided `j` times by the divider -/
def divIter (d : Rat) : Nat → Rat → Rat
  | 0, q => q
  | j + 1, q => divIter d j (q / d)

/-- **the auto-scaling loop** (no fixed unit): it returns the size divided `j` times by the base (1000 for decimal
    units, 1024 otherwise) where `j` is the number of the chosen unit; every division happened because the value
    was still at least the base, and — unless all twelve steps were used — the loop stopped because the value
    shown is below the base.  So the unit is the largest one not exceeding the size, in the specifier's base. -/
theorem autoScale_spec (d : Rat) : ∀ (f : Nat) (q : Rat) (i : Nat),
    ∃ j, j ≤ f ∧ autoScale d f q i = (divIter d j q, i + j) ∧
      (∀ k, k < j → ratAbs (divIter d k q) ≥ d) ∧ (j < f → ¬ ratAbs (divIter d j q) ≥ d)
  | 0, q, i => ⟨0, Nat.le_refl _, rfl, fun k hk => absurd hk (Nat.not_lt_zero k), fun h => absurd h (Nat.lt_irrefl 0)⟩
  | f + 1, q, i => by
    by_cases hge : ratAbs q ≥ d
    · obtain ⟨j, hj, heq, hall, hstop⟩ := autoScale_spec d f (q / d) (i + 1)
      refine ⟨j + 1, Nat.succ_le_succ hj, ?_, ?_, ?_⟩
      · simp only [autoScale, hge, if_true, divIter]
        rw [heq]
        have : i + 1 + j = i + (j + 1) := by omega
        rw [this]
      · intro k hk
        cases k with
        | zero => exact hge
        | succ k => exact hall k (by omega)
      · intro hlt
        exact hstop (by omega)
    · refine ⟨0, Nat.zero_le _, ?_, fun k hk => absurd hk (Nat.not_lt_zero k), fun _ => hge⟩
      simp only [autoScale, hge, if_false, divIter, Nat.add_zero]

/-- bytes: a size below the base is shown in bytes (unit number 0), undivided -/
theorem autoScale_small (d : Rat) (f : Nat) (q : Rat) (h : ¬ ratAbs q ≥ d) : autoScale d (f + 1) q 0 = (q, 0) := by
  simp [autoScale, h]

/-- letter case of a literal never matters: `parse_filesize` lower-cases first -/
theorem unit_case_insensitive (s t : Str) (h : lowerStr s = lowerStr t) : parseFilesize s = parseFilesize t := by
  unfold parseFilesize
  rw [h]

/-- e.g. `10KB`, `10Kb`, `10kB` all denote what `10kb` denotes -/
example : lowerStr (ofS "10KB") = lowerStr (ofS "10kb") ∧ lowerStr (ofS "3GiB") = lowerStr (ofS "3gib") := by decide

/-- the documentation table is not vacuous: e.g. `10kb` is 10 000 bytes, `3gib` is 3 × 1024³ -/
example : (ofS "kb", 1000) ∈ docUnits ∧ (ofS "gib", 1024 ^ 3) ∈ docUnits := by decide

end Fsel.C14
