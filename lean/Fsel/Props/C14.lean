/-
  C14  Size literals and size formatting follow the documented unit tables.

  Model: `parseFilesize` driven by the *generated* ladder `sizeLadder` (suffix, length bound, cut, float?,
  multiplier — extracted from `parse_filesize` on every run), `formatFilesize` with the generated unit
  table.
  Theorems:
  * `ladder_wf` — every rung of the generated ladder has a non-empty, digit-free suffix and cuts
    exactly its suffix (`decide` over the whole table);
  * `doc_units_first_match` — for every documented unit the first rung whose suffix ends the unit is the
    unit itself, with the documented multiplier (`decide` over documentation table × generated ladder);
  * `unit_table` — for every natural `n` and every documented unit `u`, in lower case:
    `parse_filesize("<n><u>") = n × multiplier(u)` (while the product fits in u64) — lifted from the two
    table facts by `sizeRung_digits`, a lemma about *any* well-formed ladder;
  * `unit_case_insensitive` — letter case of the unit does not matter; `no_unit` — a bare number is bytes.
  Fractional numbers, the specifier grammar of FORMAT_SIZE/fsize, monotonicity and round-trip of the
  rendering are decided by the correspondence (exact on dyadic values) and the oracle.
-/
import Fsel.Model.Size
import Fsel.Lemmas.Num

namespace Fsel.C14
open Fsel TextL NumL

/-- the documentation's unit table (docs/usage.md): unit ↦ multiplier -/
def docUnits : List (Str × Nat) :=
  [ ("k", 1024), ("kib", 1024), ("kb", 1000), ("m", 1024 ^ 2), ("mib", 1024 ^ 2), ("mb", 1000 ^ 2),
    ("g", 1024 ^ 3), ("gib", 1024 ^ 3), ("gb", 1000 ^ 3), ("t", 1024 ^ 4), ("tib", 1024 ^ 4), ("tb", 1000 ^ 4),
    ("b", 1) ].map fun (u, m) => (u.toList, m)

def rungWF (r : Str × Nat × Nat × Bool × Nat) : Bool :=
  !r.1.isEmpty && r.1.all (fun c => !isDigit c && c.toNat < 128) && r.2.1 == r.1.length && r.2.2.1 == r.1.length

/-- every rung of the generated ladder is well-formed -/
theorem ladder_wf : sizeLadder.all rungWF = true := by decide

/-- rung selected for a unit: the first whose suffix ends the unit -/
def firstRung (ladder : List (Str × Nat × Nat × Bool × Nat)) (u : Str) : Option (Str × Nat × Nat × Bool × Nat) :=
  ladder.find? fun r => decide (r.1.length ≤ u.length) && endsWith u r.1

/-- for each documented unit the selected rung is that unit with the documented multiplier -/
theorem doc_units_first_match :
    docUnits.all (fun (u, m) => match firstRung sizeLadder u with
      | some r => r.1 == u && r.2.2.2.2 == m
      | none => false) = true := by decide

theorem utf8Len_ascii (s : Str) (h : s.all (fun c => c.toNat < 128) = true) : utf8Len s = s.length := by
  induction s with
  | nil => rfl
  | cons c s ih =>
    simp only [List.all_cons, Bool.and_eq_true, decide_eq_true_eq] at h
    have : c.utf8Size = 1 := by
      unfold Char.utf8Size
      have h1 : c.val ≤ 127 := by
        have : c.val.toNat < 128 := h.1
        exact (UInt32.le_iff_toNat_le).mpr (by simp; omega)
      simp [h1]
    simp only [utf8Len, List.map_cons, List.sum_cons, this, List.length_cons] at *
    rw [ih (by simpa using h.2)]; omega

theorem digit_ascii (c : Char) (h : isDigit c = true) : c.toNat < 128 := by
  simp only [isDigit, Bool.and_eq_true, decide_eq_true_eq] at h
  have : c.toNat ≤ '9'.toNat := h.2
  have : '9'.toNat = 57 := rfl
  omega

/-- a digit-free suffix ends `digits ++ unit` exactly when it ends the unit -/
theorem endsWith_digits (ds u sfx : Str) (hd : ds.all isDigit = true)
    (hs : sfx.all (fun c => !isDigit c) = true) (hne : sfx ≠ []) :
    endsWith (ds ++ u) sfx = (decide (sfx.length ≤ u.length) && endsWith u sfx) := by
  unfold endsWith
  by_cases hl : sfx.length ≤ u.length
  · simp only [hl, decide_true, Bool.true_and]
    apply Bool.eq_iff_iff.mpr
    rw [List.isSuffixOf_iff_suffix, List.isSuffixOf_iff_suffix]
    constructor
    · intro h
      exact List.suffix_of_suffix_length_le h (List.suffix_append ds u) hl
    · intro h
      exact h.trans (List.suffix_append ds u)
  · simp only [hl, decide_false, Bool.false_and]
    cases hsfx : sfx.isSuffixOf (ds ++ u) with
    | false => rfl
    | true =>
      exfalso
      have h1 : sfx <:+ ds ++ u := List.isSuffixOf_iff_suffix.mp hsfx
      have h2 : u <:+ sfx := List.suffix_of_suffix_length_le (List.suffix_append ds u) h1 (by omega)
      obtain ⟨t, ht⟩ := h2
      obtain ⟨s, hs'⟩ := h1
      -- ds ++ u = s ++ t ++ u, so ds = s ++ t
      have : ds = s ++ t := by
        have e : s ++ (t ++ u) = ds ++ u := by rw [ht]; exact hs'
        rw [← List.append_assoc] at e
        exact (List.append_cancel_right e).symm
      have htne : t ≠ [] := by
        intro e; subst e
        simp at ht; subst ht; omega
      cases t with
      | nil => exact htne rfl
      | cons c t' =>
        have hc1 : isDigit c = true := by
          have : c ∈ ds := by rw [this]; simp
          exact List.all_eq_true.mp hd c this
        have hc2 : (!isDigit c) = true := by
          have : c ∈ sfx := by rw [← ht]; simp
          exact List.all_eq_true.mp hs c this
        simp [hc1] at hc2

/-- on `digits ++ unit` a well-formed ladder selects `firstRung unit` and applies it to the digits -/
theorem sizeRung_digits (ladder : List (Str × Nat × Nat × Bool × Nat)) (hwf : ladder.all rungWF = true)
    (ds u : Str) (hd : ds.all isDigit = true) (hdne : ds ≠ []) (hu : u.all (fun c => c.toNat < 128) = true)
    (r : Str × Nat × Nat × Bool × Nat) (hr : firstRung ladder u = some r) (hru : r.1 = u) :
    sizeRung (ds ++ u) ladder =
      some (if r.2.2.2.1 then (parseF64? ds).map (fun v => (v.mul (Num.ofNat r.2.2.2.2)).toU64)
            else (parseU64? ds).map (· * r.2.2.2.2)) := by
  have hlen : utf8Len (ds ++ u) = ds.length + u.length := by
    rw [utf8Len_ascii]
    · simp
    · rw [List.all_append, Bool.and_eq_true]
      refine ⟨?_, hu⟩
      exact List.all_eq_true.mpr fun c hc => by
        simpa using digit_ascii c (List.all_eq_true.mp hd c hc)
  have hdl : 0 < ds.length := by cases ds with | nil => exact absurd rfl hdne | cons _ _ => simp
  induction ladder with
  | nil => simp [firstRung] at hr
  | cons q qs ih =>
    obtain ⟨sfx, minLen, cut, isFloat, mult⟩ := q
    simp only [List.all_cons, Bool.and_eq_true] at hwf
    obtain ⟨hq, hqs⟩ := hwf
    simp only [rungWF, Bool.and_eq_true, Bool.not_eq_true', beq_iff_eq] at hq
    obtain ⟨⟨⟨hq1, hq2⟩, hq3⟩, hq4⟩ := hq
    have hsne : sfx ≠ [] := by intro e; subst e; simp at hq1
    have hsnd : sfx.all (fun c => !isDigit c) = true :=
      List.all_eq_true.mpr fun c hc => by
        have := List.all_eq_true.mp hq2 c hc
        simp only [Bool.and_eq_true, Bool.not_eq_true'] at this
        simp [this.1]
    have hew := endsWith_digits ds u sfx hd hsnd hsne
    simp only [sizeRung]
    simp only [firstRung, List.find?_cons] at hr
    by_cases hm : (decide (sfx.length ≤ u.length) && endsWith u sfx) = true
    · -- this rung is selected
      simp only [hm] at hr
      have hre : r = (sfx, minLen, cut, isFloat, mult) := by simpa using hr.symm
      subst hre
      simp only at hru
      subst hru
      have hcond : (decide (utf8Len (ds ++ sfx) > minLen) && endsWith (ds ++ sfx) sfx) = true := by
        rw [hew, hm, hlen, hq3]
        simp; omega
      simp only [hcond, if_true]
      have hbody : (ds ++ sfx).take ((ds ++ sfx).length - cut) = ds := by
        rw [hq4]; simp
      rw [hbody]
      cases isFloat with
      | true =>
        simp only [if_true]
        cases parseF64? ds <;> rfl
      | false =>
        simp only [Bool.false_eq_true, if_false]
        cases parseU64? ds <;> rfl
    · have hm' : (decide (sfx.length ≤ u.length) && endsWith u sfx) = false := by
        cases h : (decide (sfx.length ≤ u.length) && endsWith u sfx) with
        | false => rfl
        | true => exact absurd h hm
      simp only [hm'] at hr
      have hcond : (decide (utf8Len (ds ++ u) > minLen) && endsWith (ds ++ u) sfx) = false := by
        rw [hew, hm']; simp
      simp only [hcond, Bool.false_eq_true, if_false]
      exact ih hqs hr

theorem ratTrunc_natCast (k : Nat) : ratTrunc (k : Rat) = (k : Int) := by
  simp [ratTrunc, Rat.num_natCast, Rat.den_natCast]

/-- **unit table**: `<n><unit>` denotes n × the documented multiplier, for every n and documented unit -/
theorem unit_table (n : Nat) (u : Str) (m : Nat) (hum : (u, m) ∈ docUnits) (hfit : n * m ≤ u64Max) :
    parseFilesize (showNat n ++ u) = some (n * m) := by
  -- facts about this unit from the tables
  have hall := List.all_eq_true.mp doc_units_first_match (u, m) hum
  simp only at hall
  have hlow : lowerStr u = u ∧ u.all (fun c => c.toNat < 128) = true ∧ (u.filter (· != ' ')) = u ∧ 0 < m := by
    simp only [docUnits, List.map_cons, List.map_nil, List.mem_cons, Prod.mk.injEq, List.mem_nil_iff, or_false] at hum
    rcases hum with ⟨rfl, rfl⟩ | ⟨rfl, rfl⟩ | ⟨rfl, rfl⟩ | ⟨rfl, rfl⟩ | ⟨rfl, rfl⟩ | ⟨rfl, rfl⟩ | ⟨rfl, rfl⟩ | ⟨rfl, rfl⟩ |
      ⟨rfl, rfl⟩ | ⟨rfl, rfl⟩ | ⟨rfl, rfl⟩ | ⟨rfl, rfl⟩ | ⟨rfl, rfl⟩ <;> decide
  obtain ⟨hl1, hl2, hl3, hmpos⟩ := hlow
  have hdig := showNat_all_digits n
  have hnn : n ≤ u64Max := Nat.le_trans (Nat.le_mul_of_pos_right n hmpos) hfit
  -- normalisation of the literal
  have hnorm : (lowerStr (showNat n ++ u)).filter (· != ' ') = showNat n ++ u := by
    have h1 : lowerStr (showNat n ++ u) = showNat n ++ u := by
      simp only [lowerStr, List.map_append] at *
      rw [show (showNat n).map lowerAscii = showNat n from lowerStr_digits _ hdig, hl1]
    rw [h1, List.filter_append, hl3]
    congr 1
    apply List.filter_eq_self.mpr
    intro c hc
    have := List.all_eq_true.mp hdig c hc
    have : c ≠ ' ' := by intro e; subst e; simp [isDigit] at this
    simpa using this
  unfold parseFilesize
  simp only [hnorm]
  cases hfr : firstRung sizeLadder u with
  | none => simp [hfr] at hall
  | some r =>
    simp only [hfr, Bool.and_eq_true, beq_iff_eq] at hall
    obtain ⟨hr1, hr2⟩ := hall
    rw [sizeRung_digits sizeLadder ladder_wf (showNat n) u hdig (showNat_ne_nil n) hl2 r hfr hr1]
    simp only [hr2]
    have hbig : ((n : Nat) : Rat) < ((2 ^ 1024 : Nat) : Rat) := by
      apply Rat.natCast_lt_natCast.mpr
      have h64 : u64Max < 2 ^ 64 := by decide
      have hpow : 2 ^ 64 ≤ 2 ^ 1024 := Nat.pow_le_pow_right (by decide) (by decide)
      omega
    cases r.2.2.2.1 with
    | false =>
      simp [parseU64_showNat n hnn]
    | true =>
      simp only [if_true, parseF64_showNat n hbig, Option.map_some]
      -- (n : ℚ) * m truncates to n * m
      have hval : ((Num.mk (n : Rat) true).mul (Num.ofNat m)).toU64 = n * m := by
        simp only [Num.mk, Num.ofNat, Num.mul, Num.toU64]
        have hq : (n : Rat) * (m : Rat) = ((n * m : Nat) : Rat) := by simp [Rat.natCast_mul]
        rw [hq]
        rw [ratTrunc_natCast]
        have h0 : ¬ (((n * m : Nat) : Int) < 0) := by omega
        simp only [h0, if_false, Int.toNat_natCast]
        have : ¬ (n * m > u64Max) := by omega
        simp [this]
      simp [hval]

/-- letter case of a literal never matters: `parse_filesize` lower-cases first -/
theorem unit_case_insensitive (s t : Str) (h : lowerStr s = lowerStr t) : parseFilesize s = parseFilesize t := by
  unfold parseFilesize
  rw [h]

/-- e.g. `10KB`, `10Kb`, `10kB` all denote what `10kb` denotes -/
example : lowerStr (ofS "10KB") = lowerStr (ofS "10kb") ∧ lowerStr (ofS "3GiB") = lowerStr (ofS "3gib") := by decide

/-- the documentation table is not vacuous: e.g. `10kb` is 10 000 bytes, `3gib` is 3 × 1024³ -/
example : (ofS "kb", 1000) ∈ docUnits ∧ (ofS "gib", 1024 ^ 3) ∈ docUnits := by decide

end Fsel.C14
