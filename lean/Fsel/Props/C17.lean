/-
  C17  One failing directory, file or reader never spoils the rest of the search.

  Model: `Walk.lean` (`visit_dir` records a failing `read_dir` in `errCount`/`errPaths` and goes on),
  `Eval.lean` (content readers yield empty values), `Main.lean` (status from `errCount`).
  Theorems (every finite tree, any number and position of unlistable directories, every depth window):
  * `dfs_root_exact_with_faults` (= C01.dfs_root_exact, whose hypotheses no longer ask for listable
    directories): the searcher's result is `check_file` folded over `events` of the faulty tree, and the
    error state gains exactly `faults`: one entry per failing directory, in the order met;
  * `faults_hide_only_their_subtrees`: `events` of the faulty tree are the events of the same tree with every
    directory listable (`heal`), minus exactly the entries that have an unlistable proper ancestor
    (`mark … hidden`); the rows are a function of those events only (`foldReport_congr`), so every entry
    outside a failing directory is reported exactly as in the fault-free run — the failing directory's own
    row included;
  * `unlistable_dir_is_named`, `healed_has_no_faults`, `status_of_faults`: the failing path is recorded, a
    fault-free tree records nothing, and the exit status is 1 iff something was recorded;
  * `content_fault_local`: an entry whose content cannot be read differs from the readable entry only in the
    content-derived columns (line_count, sha*, is_shebang, has_xattrs, capabilities: all need the file opened), which are empty (`blind_*`).
  * breadth-first mode (the default): `bfs_root_exact_with_faults` — the queue loop reports `levelOrder` of
    the faulty tree and records exactly `levelFaults`; `bfs_faults_same_as_dfs`, `bfs_rows_same_as_dfs` — the
    failing directories recorded and the entries reported are those of the depth-first run (as multisets), so
    `faults_hide_only_their_subtrees` carries over.
  Not theorems: the ordered/aggregated result paths on faulty trees (decided by the
  correspondence, run as uid 65534), and everything about a closed standard output — that is the behaviour of
  the OS pipe and of Rust's `LineWriter`, which the model cannot exhibit; it is decided by fault injection
  (closing the pipe at every offset) with the oracle "no panic, status 0 or 1".
-/
import Fsel.Lemmas.Walk
import Fsel.Model.Main
import Fsel.Props.C01

namespace Fsel.C17
open Fsel WalkL WalkB

/-- what `check_file` and the archive loop can see of an event -/
abbrev Key := Option (List ArcInfo) × Entry × Nat

def zipOf : Node → Option (List ArcInfo)
  | .leaf _ z => z
  | .dir _ _ _ => none

def key (ev : Node × Entry × Nat) : Key := (zipOf ev.1, ev.2.1, ev.2.2)

theorem reportEntry_zip (p : Plan) (rp : RootParams) (lvl : Nat) (n n' : Node) (e : Entry) (rs : ResSt)
    (h : zipOf n = zipOf n') : reportEntry p rp lvl n e rs = reportEntry p rp lvl n' e rs := by
  unfold reportEntry
  cases n with
  | leaf a z =>
    cases n' with
    | leaf a' z' => simp only [zipOf] at h; subst h; cases z <;> rfl
    | dir a' l' k' => simp only [zipOf] at h; subst h; rfl
  | dir a l k =>
    cases n' with
    | leaf a' z' => simp only [zipOf] at h; subst h; rfl
    | dir a' l' k' => rfl

/-- the rows are a function of the keys of the events only -/
theorem foldReport_congr (p : Plan) (rp : RootParams) :
    ∀ (a b : List (Node × Entry × Nat)) (rs : ResSt), a.map key = b.map key →
      foldReport p rp rs a = foldReport p rp rs b
  | [], [], _, _ => rfl
  | [], _ :: _, _, h => by simp at h
  | _ :: _, [], _, h => by simp at h
  | (n, e, l) :: a, (n', e', l') :: b, rs, h => by
    simp only [List.map_cons, List.cons.injEq, key, Prod.mk.injEq] at h
    obtain ⟨⟨hz, he, hl⟩, hrest⟩ := h
    subst he; subst hl
    simp only [foldReport]
    rw [reportEntry_zip p rp l n n' e rs hz]
    cases reportEntry p rp l n' e rs with
    | error x => rfl
    | ok rs' => exact foldReport_congr p rp a b rs' hrest

-- the same tree with every directory listable
mutual
def healN : Node → Node
  | .leaf e z => .leaf e z
  | .dir e _ kids => .dir e true (healL kids)
def healL : List Node → List Node
  | [] => []
  | n :: ns => healN n :: healL ns
end

-- pre-order (pruned below maxdepth) of the healed tree; the flag says "has an unlistable proper ancestor"
mutual
def markN (rp : RootParams) (dp dc : Str) (lvl : Nat) (hidden : Bool) : Node → List (Key × Bool)
  | .leaf le z => [((z, fillEntry le dp dc le.absPath, lvl), hidden)]
  | .dir de l kids =>
    ((none, fillEntry de dp dc de.absPath, lvl), hidden) ::
      (if rp.maxDepth == 0 || lvl < rp.maxDepth then
        markL rp (fillEntry de dp dc de.absPath).path (childCanon dc de.name) (lvl + 1) (hidden || !l) kids
       else [])
def markL (rp : RootParams) (dp dc : Str) (lvl : Nat) (hidden : Bool) : List Node → List (Key × Bool)
  | [] => []
  | n :: ns => markN rp dp dc lvl hidden n ++ markL rp dp dc lvl hidden ns
end

mutual
theorem mark_all_N (rp : RootParams) (dp dc : Str) (lvl : Nat) (h : Bool) :
    ∀ n : Node, (markN rp dp dc lvl h n).map (·.1) = (eventsN rp dp dc lvl (healN n)).map key
  | .leaf le z => by simp [markN, healN, eventsN, key, zipOf]
  | .dir de l kids => by
    simp only [markN, healN, eventsN, List.map_cons, key, zipOf, Bool.and_true]
    congr 1
    split
    · exact mark_all_L rp _ _ (lvl + 1) (h || !l) kids
    · rfl
theorem mark_all_L (rp : RootParams) (dp dc : Str) (lvl : Nat) (h : Bool) :
    ∀ ns : List Node, (markL rp dp dc lvl h ns).map (·.1) = (eventsL rp dp dc lvl (healL ns)).map key
  | [] => by simp [markL, healL, eventsL]
  | n :: ns => by
    simp only [markL, healL, eventsL, List.map_append]
    rw [mark_all_N rp dp dc lvl h n, mark_all_L rp dp dc lvl h ns]
end

mutual
theorem mark_hidden_N (rp : RootParams) (dp dc : Str) (lvl : Nat) :
    ∀ n : Node, (markN rp dp dc lvl true n).filter (fun x => !x.2) = []
  | .leaf le z => by simp [markN]
  | .dir de l kids => by
    simp only [markN, List.filter_cons, Bool.not_true, Bool.false_eq_true, if_false, Bool.true_or]
    split
    · exact mark_hidden_L rp _ _ (lvl + 1) kids
    · rfl
theorem mark_hidden_L (rp : RootParams) (dp dc : Str) (lvl : Nat) :
    ∀ ns : List Node, (markL rp dp dc lvl true ns).filter (fun x => !x.2) = []
  | [] => by simp [markL]
  | n :: ns => by
    simp only [markL, List.filter_append]
    rw [mark_hidden_N rp dp dc lvl n, mark_hidden_L rp dp dc lvl ns]; rfl
end

mutual
theorem mark_visible_N (rp : RootParams) (dp dc : Str) (lvl : Nat) :
    ∀ n : Node, ((markN rp dp dc lvl false n).filter (fun x => !x.2)).map (·.1) = (eventsN rp dp dc lvl n).map key
  | .leaf le z => by simp [markN, eventsN, key, zipOf]
  | .dir de l kids => by
    simp only [markN, eventsN, List.filter_cons, Bool.not_false, if_true, List.map_cons, key, zipOf, Bool.false_or]
    congr 1
    cases l with
    | true =>
      simp only [Bool.not_true, Bool.and_true]
      split
      · exact mark_visible_L rp _ _ (lvl + 1) kids
      · rfl
    | false =>
      simp only [Bool.not_false, Bool.and_false, Bool.false_eq_true, if_false, List.map_nil]
      split
      · rw [mark_hidden_L]; rfl
      · rfl
theorem mark_visible_L (rp : RootParams) (dp dc : Str) (lvl : Nat) :
    ∀ ns : List Node, ((markL rp dp dc lvl false ns).filter (fun x => !x.2)).map (·.1) = (eventsL rp dp dc lvl ns).map key
  | [] => by simp [markL, eventsL]
  | n :: ns => by
    simp only [markL, eventsL, List.filter_append, List.map_append]
    rw [mark_visible_N rp dp dc lvl n, mark_visible_L rp dp dc lvl ns]
end

/-- **isolation of directory faults**: the faulty tree's events are the healed tree's events minus exactly
    those below an unlistable directory -/
theorem faults_hide_only_their_subtrees (rp : RootParams) (path canon : Str) (kids : List Node) :
    (eventsL rp path canon 1 kids).map key = ((markL rp path canon 1 false kids).filter (fun x => !x.2)).map (·.1) ∧
    (eventsL rp path canon 1 (healL kids)).map key = (markL rp path canon 1 false kids).map (·.1) :=
  ⟨(mark_visible_L rp path canon 1 kids).symm, (mark_all_L rp path canon 1 false kids).symm⟩

/-- the walker on the faulty tree (the statement of C01 without any listability hypothesis) -/
theorem dfs_root_exact_with_faults (p : Plan) (rp : RootParams) (hl : NoLimit p) (path canon : Str) (kids : List Node) (st : WSt)
    (hroot : 1 < canon.length) (hbase : rp.base = calcDepth canon)
    (hg : goodL kids) (hnd : (inodesL kids).Nodup) (hfresh : ∀ i ∈ inodesL kids, i ∉ st.walk.visited) :
    match foldReport p rp st.res (eventsL rp path canon 1 kids) with
    | .error a => visitDirD p rp path canon true kids st = .error a
    | .ok rs' => ∃ w', w'.errCount = st.walk.errCount + (faultsL rp path canon 1 kids).length ∧
        w'.errPaths = st.walk.errPaths ++ faultsL rp path canon 1 kids ∧
        visitDirD p rp path canon true kids st = .ok { res := rs', walk := w' } := by
  have h := C01.dfs_root_exact p rp hl path canon kids st hroot hbase hg hnd hfresh
  cases hf : foldReport p rp st.res (eventsL rp path canon 1 kids) with
  | error a => rw [hf] at h; exact h
  | ok rs' =>
    rw [hf] at h
    obtain ⟨w', hw, heq⟩ := h
    exact ⟨w', hw.errs.1, hw.errs.2, heq⟩

/-- a failing directory inside the descent window is named (by the path it was reached under) -/
theorem unlistable_dir_is_named (rp : RootParams) (dp dc : Str) (lvl : Nat) (de : Entry) (kids : List Node)
    (hwin : rp.maxDepth = 0 ∨ lvl < rp.maxDepth) :
    faultsN rp dp dc lvl (.dir de false kids) = [(fillEntry de dp dc de.absPath).path] := by
  have : (rp.maxDepth == 0 || decide (lvl < rp.maxDepth)) = true := by rcases hwin with h | h <;> simp [h]
  simp [faultsN, this]

/-- … while its own row is still reported and nothing below it is -/
theorem unlistable_dir_row_only (rp : RootParams) (dp dc : Str) (lvl : Nat) (de : Entry) (kids : List Node) :
    eventsN rp dp dc lvl (.dir de false kids) = [(.dir de false kids, fillEntry de dp dc de.absPath, lvl)] := by
  simp [eventsN]

mutual
theorem healed_no_faults_N (rp : RootParams) (dp dc : Str) (lvl : Nat) : ∀ n : Node, faultsN rp dp dc lvl (healN n) = []
  | .leaf le z => by simp [healN, faultsN]
  | .dir de l kids => by
    simp only [healN, faultsN, if_true]
    split
    · exact healed_no_faults_L rp _ _ (lvl + 1) kids
    · rfl
theorem healed_no_faults_L (rp : RootParams) (dp dc : Str) (lvl : Nat) : ∀ ns : List Node, faultsL rp dp dc lvl (healL ns) = []
  | [] => by simp [healL, faultsL]
  | n :: ns => by
    simp only [healL, faultsL]
    rw [healed_no_faults_N rp dp dc lvl n, healed_no_faults_L rp dp dc lvl ns]; rfl
end

/-- a run in which nothing fails records nothing -/
theorem healed_has_no_faults (rp : RootParams) (path canon : Str) (kids : List Node) :
    faultsL rp path canon 1 (healL kids) = [] := healed_no_faults_L rp path canon 1 kids

/-- the status mapping of `exec_search`: 1 iff an error was recorded (and then it is 1, never more) -/
def statusOf (errCount : Nat) : Nat := if errCount > 0 then 1 else 0

theorem status_of_faults (n : Nat) (faults : List Str) :
    statusOf (n + faults.length) = 0 ↔ (n = 0 ∧ faults = []) := by
  unfold statusOf
  cases faults with
  | nil => simp
  | cons a t => simp

theorem status_zero_or_one (n : Nat) : statusOf n = 0 ∨ statusOf n = 1 := by
  unfold statusOf; split <;> simp

/-- the entry as seen when its content cannot be opened -/
def blind (e : Entry) : Entry :=
  { e with lineCount := none, shebang := false, sha1 := [], sha256 := [], sha512 := [], sha3 := [],
           text := none, hasXattrs := none, xattrs := [], caps := [], hasCapsXattr := none, unreadable := true }

def contentFields : List Field := [.LineCount, .Sha1, .Sha256, .Sha512, .Sha3, .IsShebang, .HasXattrs, .Capabilities]

/-- **content faults are local**: every other column of the entry is what it would be if the content
    could be read -/
theorem content_fault_local (cfg : Config) (e : Entry) (f : Field) (h : f ∉ contentFields) :
    fieldValue cfg (blind e) f = fieldValue cfg e f := by
  cases f <;> first | rfl | (exfalso; simp [contentFields] at h)

theorem blind_line_count (cfg : Config) (e : Entry) (h : e.arc = none) :
    fieldValue cfg (blind e) .LineCount = .ok (.empty .string) := by
  simp [fieldValue, blind, h]

theorem blind_hashes (cfg : Config) (e : Entry) (h : e.arc = none) :
    fieldValue cfg (blind e) .Sha1 = .ok (.ofString []) ∧ fieldValue cfg (blind e) .Sha256 = .ok (.ofString []) ∧
    fieldValue cfg (blind e) .Sha512 = .ok (.ofString []) ∧ fieldValue cfg (blind e) .Sha3 = .ok (.ofString []) := by
  simp [fieldValue, blind, h]

theorem blind_contains (e : Entry) (arg : Str) (h : e.arc = none) :
    fileFn (some (blind e)) .Contains arg = some (.ok (.empty .bool)) := by
  simp [fileFn, blind, h]

/-- the hypotheses are satisfiable: a tree with an unlistable directory between two files -/
example :
    let f : Entry := { name := ofS "f", path := [], absPath := none, absDir := none, kind := 'f', size := 1, mode := 0,
                        uid := 0, gid := 0, nlink := 1, ino := 11, dev := 0, blocks := 0, mtime := 0 }
    let d : Entry := { f with name := ofS "d", kind := 'd', ino := 12 }
    let kids := [Node.leaf f none, Node.dir d false [Node.leaf { f with name := ofS "g", ino := 13 } none],
                 Node.leaf { f with name := ofS "h" } none]
    let rp : RootParams := { minDepth := 0, maxDepth := 0, archives := false, bfs := false, base := 1 }
    goodL kids ∧ (inodesL kids).Nodup ∧ (faultsL rp [] ['/', 'r'] 1 kids).length = 1 ∧
      (eventsL rp [] ['/', 'r'] 1 kids).length = 3 ∧ (eventsL rp [] ['/', 'r'] 1 (healL kids)).length = 4 := by
  refine ⟨?_, ?_, ?_, ?_, ?_⟩
  · simp [goodL, goodN, ofS]
  · simp [inodesL, inodesN]
  · simp [faultsL, faultsN]
  · simp [eventsL, eventsN]
  · simp [eventsL, eventsN, healL, healN]

/-! ### breadth-first mode on faulty trees -/

/-- the root call and the queue loop on a tree with unlistable directories (= `C01.bfs_root_exact`, which
    asks nothing about listability): rows from `levelOrder`, errors exactly `levelFaults` -/
theorem bfs_root_exact_with_faults (p : Plan) (rp : RootParams) (hl : NoLimit p) (path canon : Str) (kids : List Node) (st : WSt)
    (hq : st.walk.queue = []) (hg : goodL kids) (hnd : (inodesL kids).Nodup) (hfresh : ∀ i ∈ inodesL kids, i ∉ st.walk.visited) :
    match foldReport p rp st.res (levelOrder rp [C01.rootItem path canon kids]) with
    | .error a => C01.bfsRoot p rp path canon kids st = .error a
    | .ok rs' => ∃ w', C01.bfsRoot p rp path canon kids st = .ok { res := rs', walk := w' } ∧
        w'.errPaths = st.walk.errPaths ++ levelFaults rp [C01.rootItem path canon kids] ∧
        w'.errCount = st.walk.errCount + (levelFaults rp [C01.rootItem path canon kids]).length := by
  have h := C01.bfs_root_exact p rp hl path canon kids st hq hg hnd hfresh
  cases hf : foldReport p rp st.res (levelOrder rp [C01.rootItem path canon kids]) with
  | error a => rw [hf] at h; exact h
  | ok rs' =>
    rw [hf] at h
    obtain ⟨w', h1, h2, h3, _⟩ := h
    exact ⟨w', h1, h2, h3⟩

/-- bfs records the same failing directories as dfs -/
theorem bfs_faults_same_as_dfs (rp : RootParams) (path canon : Str) (kids : List Node)
    (hroot : 1 < canon.length) (hbase : rp.base = calcDepth canon) (hg : goodL kids) :
    (levelFaults rp [C01.rootItem path canon kids]).Perm (faultsL rp path canon 1 kids) := by
  have hw : QWf rp [C01.rootItem path canon kids] := by
    intro it hit; simp only [List.mem_singleton] at hit; subst hit
    exact ⟨hg, hroot, by simp [C01.rootItem, hbase]⟩
  have h := levelFaults_perm rp _ hw
  have hd : itemDepth rp (C01.rootItem path canon kids) = 1 := by simp [itemDepth, C01.rootItem, hbase]
  simp only [List.flatMap_cons, List.flatMap_nil, List.append_nil, subFaults] at h
  rw [hd] at h
  simpa [C01.rootItem] using h

/-- bfs reports the same entries as dfs on a faulty tree (entries below a failing directory are hidden in both) -/
theorem bfs_rows_same_as_dfs (rp : RootParams) (path canon : Str) (kids : List Node)
    (hroot : 1 < canon.length) (hbase : rp.base = calcDepth canon) (hg : goodL kids) :
    (levelOrder rp [C01.rootItem path canon kids]).Perm (eventsL rp path canon 1 kids) :=
  C01.bfs_same_entries_as_dfs rp path canon kids hroot hbase hg

end Fsel.C17
