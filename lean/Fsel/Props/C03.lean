/-
  C03  AND / OR / NOT and brackets obey Boolean algebra over the result sets.

  Model: `Expr.negate` (= `negate_expr_op`, De Morgan since the D07 fix), the generated `Op.negate`
  table (complement pairs since the D06 fix), BETWEEN desugaring (D08 fix), `conforms`.
  Theorems, for every expression / entry:
  * `negate_involutive` — double negation is the identity on the syntax tree (`decide` over the
    *generated* operator table, lifted through the tree);
  * `de_morgan_and`, `de_morgan_or` — NOT over a connective flips it and negates both sides;
  * `not_between_is_negated_between` — `x not between a and b` is the negation of `x between a and b`;
  * `conj_sem`, `disj_sem` — the result of `A and B` / `A or B` is the conjunction / disjunction of the
    results (short-circuit only suppresses evaluation, never changes a value);
  * `negate_complement` — if every comparison atom of a condition satisfies `AtomNegOK` (its negated
    operator yields the negated verdict on this entry), the negated condition yields the negated
    verdict; `int_atom_neg_ok`, `datetime_atom_neg_ok`, `text_atom_neg_ok`, `bool_atom_neg_ok`
    discharge `AtomNegOK` for the operator tables of each value type.
  Hypothesis kept explicit: ordering operators applied to *text* values answer false in the code and so
  do their negations — they are outside `AtomNegOK` (documented behaviour "not applicable"), as are
  comparisons involving NaN.
  * `condition_parse_correct` (Lemmas/ParseCond, mutual induction over derivations against the well-founded
    recursive-descent model) — for EVERY derivation of
        X ::= Y (or Y)*     Y ::= Z (and Z)*     Z ::= not* ( atom | "(" X ")" | "{" X "}" )
    parsing its token sequence yields the tree the derivation denotes and leaves exactly the tokens that
    follow: AND binds tighter than OR, brackets override, a run of prefix NOTs negates by parity (pushed
    through the bracket by De Morgan).  `comparison_is_atom` shows that `column op literal` is an atom;
    `and_binds_tighter`, `brackets_override_precedence`, `not_bracket_is_de_morgan` are instances on
    comparisons (and witnesses that the hypotheses can be met).
    The infix forms are atoms too (`infix_not_is_atom`, `between_forms_are_atoms`, from C02's
    `comparison_of_expressions` / `between_is_atom`): `e1 not like e2`, `e1 not between lo and hi`, with any
    number of prefix NOTs in front, anywhere in a formula — an infix NOT negates the operator (resp. turns the
    BETWEEN conjunction into its De Morgan dual), prefix NOTs then negate by parity.
    Curly brackets are part of the grammar (`Z.cparen`, and `F.cparen` in arithmetic operands): `curly_is_round`,
    `curly_brackets_override_precedence`.
-/
import Fsel.Model.Eval
import Fsel.Lemmas.ParseCond
import Fsel.Lemmas.Criteria
import Fsel.Props.C15
import Fsel.Props.C02
import Fsel.Props.C12

namespace Fsel.C03
open Fsel

theorem op_negate_involutive : ∀ o : Op, o.negate.negate = o := by
  intro o; cases o <;> rfl

theorem dual_involutive : ∀ o : LogicalOp, o.dual.dual = o := by
  intro o; cases o <;> rfl

theorem beq_and_and : (LogicalOp.And == LogicalOp.And) = true := rfl
theorem beq_or_and : (LogicalOp.Or == LogicalOp.And) = false := rfl

/-- double negation is the identity -/
theorem negate_involutive (x : Expr) : x.negate.negate = x := by
  fun_induction Expr.negate x with
  | case1 l op r ihl ihr => simp [Expr.negate, ihl, ihr, dual_involutive]
  | case2 l op r => simp [Expr.negate, op_negate_involutive]
  | case3 e h1 h2 =>
    cases e <;> simp_all [Expr.negate]

theorem de_morgan_and (a b : Expr) : (Expr.logic a .And b).negate = .logic a.negate .Or b.negate := rfl
theorem de_morgan_or (a b : Expr) : (Expr.logic a .Or b).negate = .logic a.negate .And b.negate := rfl

/-- the two desugarings of BETWEEN produced by the parser (`parse_cond`) -/
def between (x a b : Expr) : Expr := .logic (.cmp x .Gte a) .And (.cmp x .Lte b)
def notBetween (x a b : Expr) : Expr := .logic (.cmp x .Lt a) .Or (.cmp x .Gt b)

theorem not_between_is_negated_between (x a b : Expr) : (between x a b).negate = notBetween x a b := by
  simp [between, notBetween, Expr.negate, LogicalOp.dual, Op.negate]

-- ------------------------------------------------------------------ semantics of the connectives

def CmpRes.not : CmpRes → CmpRes
  | .val b => .val (!b)
  | .uncertain => .uncertain

/-- `A and B`: false as soon as A is false, otherwise the verdict of B — i.e. the conjunction -/
theorem conj_sem (cx : EvalCtx) (e : Entry) (c : RxCache) (a b : Expr) (va vb : Bool) (c1 c2 : RxCache)
    (ha : conforms cx e c a = .ok (.val va, c1)) (hb : conforms cx e c1 b = .ok (.val vb, c2)) :
    ∃ c', conforms cx e c (.logic a .And b) = .ok (.val (va && vb), c') := by
  simp only [conforms, ha]
  cases va with
  | false => exact ⟨c1, rfl⟩
  | true => simp only [hb]; exact ⟨c2, by simp [CmpRes.and, beq_and_and]⟩

/-- `A or B` is the disjunction -/
theorem disj_sem (cx : EvalCtx) (e : Entry) (c : RxCache) (a b : Expr) (va vb : Bool) (c1 c2 : RxCache)
    (ha : conforms cx e c a = .ok (.val va, c1)) (hb : conforms cx e c1 b = .ok (.val vb, c2)) :
    ∃ c', conforms cx e c (.logic a .Or b) = .ok (.val (va || vb), c') := by
  simp only [conforms, ha]
  cases va with
  | true => exact ⟨c1, rfl⟩
  | false => simp only [hb]; exact ⟨c2, by simp [CmpRes.or, beq_or_and]⟩

-- ------------------------------------------------------------------ negation is complement

/-- cache-free verdict of a condition (the regex cache is transparent, see C12.cache_transparent) -/
def verdict (cx : EvalCtx) (e : Entry) : Expr → EM CmpRes
  | .logic l op r =>
    match verdict cx e l with
    | .error er => .error er
    | .ok lv =>
      match op, lv with
      | .And, .val false => .ok (.val false)
      | .Or, .val true => .ok (.val true)
      | _, _ =>
        match verdict cx e r with
        | .error er => .error er
        | .ok rv => .ok (if op == .And then lv.and rv else lv.or rv)
  | .cmp l op r =>
    match columnValue cx (some e) [] l with
    | .error er => .error er
    | .ok (fv, _) =>
      match columnValue cx (some e) [] r with
      | .error er => .error er
      | .ok (v, _) => (compareAtom cx.cfg.today [] fv op v).map (·.1)
  | _ => .ok (.val false)

/-- a comparison atom whose negated operator yields the negated verdict on this entry -/
def AtomNegOK (cx : EvalCtx) (e : Entry) (l : Expr) (op : Op) (r : Expr) : Prop :=
  verdict cx e (.cmp l op.negate r) = (verdict cx e (.cmp l op r)).map CmpRes.not

/-- all comparison atoms of a condition are well-behaved under negation, and the condition consists of
    connectives and comparisons only -/
def AtomsNegOK (cx : EvalCtx) (e : Entry) : Expr → Prop
  | .logic l _ r => AtomsNegOK cx e l ∧ AtomsNegOK cx e r
  | .cmp l op r => AtomNegOK cx e l op r
  | _ => False

theorem not_and (a b : CmpRes) : CmpRes.not (a.and b) = (CmpRes.not a).or (CmpRes.not b) := by
  cases a with
  | val x => cases x <;> cases b with
    | val y => cases y <;> rfl
    | uncertain => rfl
  | uncertain => cases b with
    | val y => cases y <;> rfl
    | uncertain => rfl

theorem not_or (a b : CmpRes) : CmpRes.not (a.or b) = (CmpRes.not a).and (CmpRes.not b) := by
  cases a with
  | val x => cases x <;> cases b with
    | val y => cases y <;> rfl
    | uncertain => rfl
  | uncertain => cases b with
    | val y => cases y <;> rfl
    | uncertain => rfl

/-- the connective case of `verdict` as a function of the two sub-verdicts -/
def combine (op : LogicalOp) (vl vr : EM CmpRes) : EM CmpRes :=
  match vl with
  | .error er => .error er
  | .ok lv =>
    match op, lv with
    | .And, .val false => .ok (.val false)
    | .Or, .val true => .ok (.val true)
    | _, _ =>
      match vr with
      | .error er => .error er
      | .ok rv => .ok (if op == .And then lv.and rv else lv.or rv)

theorem verdict_logic (cx : EvalCtx) (e : Entry) (l r : Expr) (op : LogicalOp) :
    verdict cx e (.logic l op r) = combine op (verdict cx e l) (verdict cx e r) := by
  simp only [verdict, combine]

/-- De Morgan at the level of verdicts, including which side is (not) evaluated -/
theorem combine_not (op : LogicalOp) (vl vr : EM CmpRes) :
    combine op.dual (vl.map CmpRes.not) (vr.map CmpRes.not) = (combine op vl vr).map CmpRes.not := by
  cases vl with
  | error er => rfl
  | ok lv =>
    cases vr with
    | error er =>
      cases op <;> cases lv with
      | val b => cases b <;> rfl
      | uncertain => rfl
    | ok rv =>
      cases op <;> cases lv with
      | val b =>
        cases b <;> cases rv with
        | val y => cases y <;> rfl
        | uncertain => rfl
      | uncertain =>
        cases rv with
        | val y => cases y <;> rfl
        | uncertain => rfl

/-- NOT returns exactly what the condition rejects: the verdict of the negated condition is the negated
    verdict (including which side effects — errors — occur, because De Morgan preserves short-circuiting) -/
theorem negate_complement (cx : EvalCtx) (e : Entry) (x : Expr) (h : AtomsNegOK cx e x) :
    verdict cx e x.negate = (verdict cx e x).map CmpRes.not := by
  fun_induction Expr.negate x with
  | case1 l op r ihl ihr =>
    obtain ⟨hl, hr⟩ := h
    rw [verdict_logic, verdict_logic, ihl hl, ihr hr, combine_not]
  | case2 l op r => exact h
  | case3 x h1 h2 =>
    cases x <;> simp_all [AtomsNegOK]

-- ------------------------------------------------------------------ discharging AtomNegOK per value type

/-- operators of the numeric / boolean / date comparison tables -/
def orderingOp (op : Op) : Bool :=
  match op with
  | .Eq | .Ne | .Eeq | .Ene | .Gt | .Gte | .Lt | .Lte => true
  | _ => false

/-- operators of the text comparison table -/
def textOp (op : Op) : Bool :=
  match op with
  | .Eq | .Ne | .Eeq | .Ene | .Rx | .NotRx | .Like | .NotLike => true
  | _ => false

theorem numCmp_negate (op : Op) (h : orderingOp op = true) (o : Ordering) :
    numCmp op.negate (some o) = (numCmp op (some o)).map (!·) := by
  cases op <;> simp [orderingOp] at h <;> cases o <;> rfl

theorem numCmp_some (op : Op) (h : orderingOp op = true) (o : Ordering) : ∃ b, numCmp op (some o) = some b := by
  cases op <;> simp [orderingOp] at h <;> cases o <;> exact ⟨_, rfl⟩

theorem orderingOp_negate (op : Op) (h : orderingOp op = true) : orderingOp op.negate = true := by
  cases op <;> simp [orderingOp] at h <;> rfl

/-- integer-typed left operand (size, uid, hardlinks, LENGTH(..), …): every ordering operator and its
    negation are complementary, unless the literal is NaN (then both answer false) -/
theorem int_compare_neg (today : Int) (fv v : Variant) (op : Op) (hty : fv.ty = .int) (h : orderingOp op = true)
    (hnan : ∃ o, (Num.ofInt fv.toInt).cmp? v.toFloat = some o) :
    (compareValues today [] fv op.negate v).map (·.1) = ((compareValues today [] fv op v).map (·.1)).map CmpRes.not := by
  unfold compareValues
  simp only [hty]
  obtain ⟨o, ho⟩ := hnan
  split
  · split
    · rfl
    · rw [ho, numCmp_negate op h o]
      obtain ⟨b, hb⟩ := numCmp_some op h o
      simp [hb, Except.map, CmpRes.not]
  · split
    · rfl
    · rw [numCmp_negate op h]
      obtain ⟨b, hb⟩ := numCmp_some op h (intOrd fv.toInt v.toInt)
      simp [hb, Except.map, CmpRes.not]

/-- the NaN hypothesis cannot be dropped: `> NaN` and its negation `<= NaN` are both false -/
theorem nan_counterexample : numCmp .Gt none = some false ∧ numCmp Op.Gt.negate none = some false := by
  constructor <;> rfl

/-- date-typed left operand (modified): the interval semantics of each operator and of its negation
    are complementary for every time and every literal interval -/
theorem datetime_compare_neg (today : Int) (fv v : Variant) (op : Op) (hty : fv.ty = .datetime) (h : orderingOp op = true)
    (t : Int) (ht : fv.dt? = some t) :
    (compareValues today [] fv op.negate v).map (·.1) = ((compareValues today [] fv op v).map (·.1)).map CmpRes.not := by
  unfold compareValues
  simp only [hty, ht]
  split
  · rfl
  · rename_i lit x start finish dt hlit hdt
    have : dt = t := by simp at hdt; exact hdt.symm
    subst this
    cases op <;> simp [orderingOp] at h <;>
      simp only [Op.negate, Except.map, CmpRes.not] <;>
      congr 2 <;> apply Bool.eq_iff_iff.mpr <;> simp <;> omega
  · rename_i hnone; simp at hnone

/-- text-typed left operand with the plain (non-pattern) operators: `=`/`!=` without wildcard and
    `===`/`!==` are complementary -/
theorem text_compare_neg_plain (today : Int) (fv v : Variant) (hty : fv.ty = .string) (hg : isGlob v.text = false) :
    (compareValues today [] fv Op.Eq.negate v).map (·.1) = ((compareValues today [] fv .Eq v).map (·.1)).map CmpRes.not ∧
    (compareValues today [] fv Op.Eeq.negate v).map (·.1) = ((compareValues today [] fv .Eeq v).map (·.1)).map CmpRes.not := by
  unfold compareValues
  simp [hty, hg, Op.negate, Except.map, CmpRes.not, bne]

/-- ordering operators on text (lexicographic order, D73 fix): `>`/`<=` and `>=`/`<` are complementary
    for every pair of texts — ordering atoms over text columns satisfy `AtomNegOK` too -/
theorem text_ordering_neg (today : Int) (fv v : Variant) (hty : fv.ty = .string) (op : Op)
    (h : op = .Gt ∨ op = .Gte ∨ op = .Lt ∨ op = .Lte) :
    (compareValues today [] fv op.negate v).map (·.1) = ((compareValues today [] fv op v).map (·.1)).map CmpRes.not := by
  unfold compareValues
  rcases h with h | h | h | h <;> subst h <;>
    simp only [hty, Op.negate, Except.map, CmpRes.not] <;>
    simp [CriteriaL.strLe_eq_not_strLt]

/-- the order is the code-point order: a text is below another exactly when it is a proper prefix or
    smaller at the first difference -/
example : strLt (ofS "a10") (ofS "a9") = true ∧ strLe (ofS "b") (ofS "b") = true ∧ strLt (ofS "b") (ofS "b") = false := by decide

/-- pattern operators on a column of ANY type (D74 fix: they match the text of the value): `like` /
    `not like` and `=~` / `!=~` are complementary whatever the left value's type, so such atoms satisfy
    `AtomNegOK` as well -/
theorem pattern_neg_any_type (today : Int) (fv v : Variant) (op : Op) (hp : op = .Like ∨ op = .Rx)
    (hex : fv.exact = true) :
    (compareAtom today [] fv op.negate v).map (·.1) = ((compareAtom today [] fv op v).map (·.1)).map CmpRes.not := by
  have hneg : patternOp op.negate = true := by rcases hp with h | h <;> subst h <;> rfl
  have hpos : patternOp op = true := by rcases hp with h | h <;> subst h <;> rfl
  rw [C02.pattern_on_any_type today [] fv v op.negate hneg hex, C02.pattern_on_any_type today [] fv v op hpos hex]
  have N := C12.negatives_complement today [] fv.text v.text
  simp only at N
  rcases hp with h | h <;> subst h
  · have : Op.Like.negate = .NotLike := rfl
    rw [this, N.2.1]
    cases compareValues today [] (Variant.ofString fv.text) Op.Like (Variant.ofString v.text) with
    | error e => rfl
    | ok r => obtain ⟨b, c⟩ := r; cases b <;> rfl
  · have : Op.Rx.negate = .NotRx := rfl
    rw [this, N.2.2.1]
    cases compareValues today [] (Variant.ofString fv.text) Op.Rx (Variant.ofString v.text) with
    | error e => rfl
    | ok r => obtain ⟨b, c⟩ := r; cases b <;> rfl

/-- the per-type complement lemmas above speak about the typed comparison; an atom with an ordering /
    equality operator *is* the typed comparison (only pattern operators are re-typed), so they carry
    over to atoms as evaluated by `conforms` -/
theorem ordering_atom_lifts (today : Int) (fv v : Variant) (op : Op) (h : orderingOp op = true)
    (H : (compareValues today [] fv op.negate v).map (·.1) = ((compareValues today [] fv op v).map (·.1)).map CmpRes.not) :
    (compareAtom today [] fv op.negate v).map (·.1) = ((compareAtom today [] fv op v).map (·.1)).map CmpRes.not := by
  have h1 : patternOp op = false := by cases op <;> simp [orderingOp] at h <;> rfl
  have h2 : patternOp op.negate = false := by cases op <;> simp [orderingOp] at h <;> rfl
  rw [C02.atom_is_typed_comparison today [] fv v op.negate (Or.inl h2), C02.atom_is_typed_comparison today [] fv v op (Or.inl h1)]
  exact H

/-! ### the condition parser -/

open ParseL ParseC in
/-- **the condition parser implements the Boolean grammar** -/
theorem condition_parse_correct (bs : Bool) (x : X) (h : x.WF bs) (rest : List Lexem) (hrest : StopOr rest) :
    (parseExpr bs (x.toks ++ rest)).res = .ok x.tree ∧ (parseExpr bs (x.toks ++ rest)).rest = rest :=
  parse_X bs x h rest _ hrest rfl

open ParseL ParseC in
/-- `column op literal` is an atomic condition (any number of NOTs in front negate the operator by parity) -/
theorem comparison_is_atom (c o l : Str) (f : Field) (op : Op)
    (hf : Field.ofStr? c = some f) (hfb : f.isBoolean = false) (ho : Op.ofStr? o = some op) (hnb : (lowerStr o == ofS "between") = false)
    (hl1 : Field.ofStr? l = none) (hl2 : Function.ofStr? l = none) :
    AtomCond true [.raw c, .op o, .raw l] (.cmp (.field false f) op (.val false l)) := by
  intro k r hr
  -- operands: the column and the literal are arithmetic-level atoms
  have hL := C15.arith_parse_correct true (.mk (.mk (.atom [.raw c] (.field false f)) .nil) .nil)
    (by simp only [E.WF, T.WF, F.WF, TTail.WF, ETail.WF]; exact ⟨⟨C15.atom_column true c f hf, trivial⟩, trivial⟩)
    (.op o :: .raw l :: r) trivial
  have hR := C15.arith_parse_correct true (.mk (.mk (.atom [.raw l] (.val false l)) .nil) .nil)
    (by simp only [E.WF, T.WF, F.WF, TTail.WF, ETail.WF]; exact ⟨⟨C15.atom_literal true l hl1 hl2, trivial⟩, trivial⟩)
    r (stopCond_not_arith hr)
  simp only [E.toks, T.toks, F.toks, TTail.toks, ETail.toks, E.tree, T.tree, F.tree, TTail.fold, ETail.fold,
    List.append_nil, List.singleton_append] at hL hR
  unfold parseCond
  have hs := skipNots_nots k ([Lexem.raw c, .op o, .raw l] ++ r) (by simp)
  cases hsk : skipNots (nots k ++ ([Lexem.raw c, .op o, .raw l] ++ r)) with
  | mk b t1 =>
    rw [hsk] at hs
    obtain ⟨t1v, t1p⟩ := t1
    simp only at hs
    obtain ⟨hb, ht⟩ := hs
    subst hb; subst ht
    simp only [List.cons_append, List.nil_append]
    cases hp : parseAddSub true (.raw c :: .op o :: .raw l :: r) with
    | mk res rst le pr =>
      rw [hp] at hL
      obtain ⟨h1, h2⟩ := hL
      simp only at h1 h2
      subst h1; subst h2
      simp only [infixNot, Rest.refl, hnb, Bool.false_eq_true, if_false]
      cases hq : parseAddSub true (.raw l :: r) with
      | mk res2 rst2 le2 pr2 =>
        rw [hq] at hR
        obtain ⟨g1, g2⟩ := hR
        simp only at g1 g2
        subst g1; subst g2
        have hbs : boolShorthand true (.cmp (.field false f) op (.val false l)) = .cmp (.field false f) op (.val false l) := rfl
        cases hpar : parity k <;> simp [Op.fromWithNot, ho, boolShorthand, Expr.negate]

theorem parseExpr_res_congr (bs : Bool) {ts ts' : List Lexem} (h : ts = ts') : (parseExpr bs ts).res = (parseExpr bs ts').res := by
  subst h; rfl

section instances
open ParseL ParseC
variable (bs : Bool) (a b c : List Lexem) (x y z : Expr)

/-- `a or b and c` -/
def orAnd : X := .mk (.mk (.atom 0 a x) .nil) (.cons (.mk (.atom 0 b y) (.cons (.atom 0 c z) .nil)) .nil)
/-- `( a or b ) and c` -/
def bracketOrAnd : X := .mk (.mk (.paren 0 (.mk (.mk (.atom 0 a x) .nil) (.cons (.mk (.atom 0 b y) .nil) .nil))) (.cons (.atom 0 c z) .nil)) .nil
/-- `not ( a and b )` -/
def notBracketAnd : X := .mk (.mk (.paren 1 (.mk (.mk (.atom 0 a x) (.cons (.atom 0 b y) .nil)) .nil)) .nil) .nil

theorem orAnd_toks : (orAnd a b c x y z).toks = a ++ .or_ :: (b ++ .and_ :: c) := by
  simp [orAnd, X.toks, Y.toks, Z.toks, XTail.toks, YTail.toks, nots]
theorem bracketOrAnd_toks : (bracketOrAnd a b c x y z).toks = .open_ :: (a ++ .or_ :: b ++ [.close]) ++ .and_ :: c := by
  simp [bracketOrAnd, X.toks, Y.toks, Z.toks, XTail.toks, YTail.toks, nots]
theorem notBracketAnd_toks : (notBracketAnd a b x y).toks = .not_ :: .open_ :: (a ++ .and_ :: b ++ [.close]) := by
  simp [notBracketAnd, X.toks, Y.toks, Z.toks, XTail.toks, YTail.toks, nots]

/-- AND binds tighter than OR: `a or b and c` is `a or (b and c)` -/
theorem and_binds_tighter (ha : AtomCond bs a x) (hb : AtomCond bs b y) (hc : AtomCond bs c z)
    (rest : List Lexem) (hrest : StopOr rest) :
    (parseExpr bs ((orAnd a b c x y z).toks ++ rest)).res = .ok (.logic x .Or (.logic y .And z)) := by
  have h := condition_parse_correct bs (orAnd a b c x y z)
    (by simp only [orAnd, X.WF, Y.WF, Z.WF, XTail.WF, YTail.WF]; exact ⟨⟨ha, trivial⟩, ⟨hb, hc, trivial⟩, trivial⟩) rest hrest
  simpa [orAnd, X.tree, Y.tree, Z.tree, XTail.accum, YTail.accum, parity] using h.1

/-- brackets override: `( a or b ) and c` keeps the disjunction together -/
theorem brackets_override_precedence (ha : AtomCond bs a x) (hb : AtomCond bs b y) (hc : AtomCond bs c z)
    (hbool : boolShorthand bs (.logic x .Or y) = .logic x .Or y) (rest : List Lexem) (hrest : StopOr rest) :
    (parseExpr bs ((bracketOrAnd a b c x y z).toks ++ rest)).res = .ok (.logic (.logic x .Or y) .And z) := by
  have h := condition_parse_correct bs (bracketOrAnd a b c x y z)
    (by simp only [bracketOrAnd, X.WF, Y.WF, Z.WF, XTail.WF, YTail.WF, X.tree, Y.tree, Z.tree, XTail.accum, YTail.accum, parity]
        exact ⟨⟨⟨⟨⟨ha, trivial⟩, ⟨hb, trivial⟩, trivial⟩, by simpa using hbool⟩, hc, trivial⟩, trivial⟩) rest hrest
  simpa [bracketOrAnd, X.tree, Y.tree, Z.tree, XTail.accum, YTail.accum, parity] using h.1

/-- `{ a or b } and c`: curly brackets group exactly like round ones -/
def curlyOrAnd : X := .mk (.mk (.cparen 0 (.mk (.mk (.atom 0 a x) .nil) (.cons (.mk (.atom 0 b y) .nil) .nil))) (.cons (.atom 0 c z) .nil)) .nil

theorem curlyOrAnd_toks : (curlyOrAnd a b c x y z).toks = .copen :: (a ++ .or_ :: b ++ [.cclose]) ++ .and_ :: c := by
  simp [curlyOrAnd, X.toks, Y.toks, Z.toks, XTail.toks, YTail.toks, nots]

/-- **round = curly** for conditions: the grammar has both bracket kinds (`Z.paren`, `Z.cparen`), they denote
    the same tree, and `condition_parse_correct` covers derivations that use either, nested in any way -/
theorem curly_is_round (k : Nat) (f : X) : (Z.cparen k f).tree = (Z.paren k f).tree := rfl

theorem curly_brackets_override_precedence (ha : AtomCond bs a x) (hb : AtomCond bs b y) (hc : AtomCond bs c z)
    (hbool : boolShorthand bs (.logic x .Or y) = .logic x .Or y) (rest : List Lexem) (hrest : StopOr rest) :
    (parseExpr bs ((curlyOrAnd a b c x y z).toks ++ rest)).res = .ok (.logic (.logic x .Or y) .And z) := by
  have h := condition_parse_correct bs (curlyOrAnd a b c x y z)
    (by simp only [curlyOrAnd, X.WF, Y.WF, Z.WF, XTail.WF, YTail.WF, X.tree, Y.tree, Z.tree, XTail.accum, YTail.accum, parity]
        exact ⟨⟨⟨⟨⟨ha, trivial⟩, ⟨hb, trivial⟩, trivial⟩, by simpa using hbool⟩, hc, trivial⟩, trivial⟩) rest hrest
  simpa [curlyOrAnd, X.tree, Y.tree, Z.tree, XTail.accum, YTail.accum, parity] using h.1

/-- NOT in front of a bracket is pushed through it by De Morgan: `not ( a and b )` is `(not a) or (not b)` -/
theorem not_bracket_is_de_morgan (ha : AtomCond bs a x) (hb : AtomCond bs b y)
    (hbool : boolShorthand bs (.logic x .And y) = .logic x .And y) (rest : List Lexem) (hrest : StopOr rest) :
    (parseExpr bs ((notBracketAnd a b x y).toks ++ rest)).res = .ok (.logic x.negate .Or y.negate) := by
  have h := condition_parse_correct bs (notBracketAnd a b x y)
    (by simp only [notBracketAnd, X.WF, Y.WF, Z.WF, XTail.WF, YTail.WF, X.tree, Y.tree, Z.tree, XTail.accum, YTail.accum, parity]
        exact ⟨⟨⟨⟨⟨ha, hb, trivial⟩, trivial⟩, by simpa using hbool⟩, trivial⟩, trivial⟩) rest hrest
  simpa [notBracketAnd, X.tree, Y.tree, Z.tree, XTail.accum, YTail.accum, parity, Expr.negate, LogicalOp.dual] using h.1

end instances

/-- a concrete formula on real tokens: `size > 1 or size < 5 and name = x` -/
example : (parseExpr true [.raw (ofS "size"), .op ['>'], .raw ['1'], .or_, .raw (ofS "size"), .op ['<'], .raw ['5'], .and_,
      .raw (ofS "name"), .op ['='], .raw ['x']]).res =
    .ok (.logic (.cmp (.field false .Size) .Gt (.val false ['1'])) .Or
          (.logic (.cmp (.field false .Size) .Lt (.val false ['5'])) .And (.cmp (.field false .Name) .Eq (.val false ['x'])))) := by
  have h := and_binds_tighter true _ _ _ _ _ _
    (comparison_is_atom (ofS "size") ['>'] ['1'] .Size .Gt (by decide) (by decide) (by decide) (by decide) (by decide) (by decide))
    (comparison_is_atom (ofS "size") ['<'] ['5'] .Size .Lt (by decide) (by decide) (by decide) (by decide) (by decide) (by decide))
    (comparison_is_atom (ofS "name") ['='] ['x'] .Name .Eq (by decide) (by decide) (by decide) (by decide) (by decide) (by decide))
    [] trivial
  rw [parseExpr_res_congr true (ts' := (orAnd [Lexem.raw (ofS "size"), .op ['>'], .raw ['1']] [Lexem.raw (ofS "size"), .op ['<'], .raw ['5']]
      [Lexem.raw (ofS "name"), .op ['='], .raw ['x']] (.cmp (.field false .Size) .Gt (.val false ['1']))
      (.cmp (.field false .Size) .Lt (.val false ['5'])) (.cmp (.field false .Name) .Eq (.val false ['x']))).toks ++ []) (by simp [orAnd_toks])]
  exact h

open ParseL ParseC in
/-- `e1 not OP e2` (e.g. `name not like '%.rs'`) is an atomic condition denoting the negated operator; with
    `k` prefix NOTs in front the result is negated again by parity (`AtomCond` quantifies over `k`) -/
theorem infix_not_is_atom (bs : Bool) (e1 e2 : E) (h1 : e1.WF bs) (h2 : e2.WF bs)
    (hne : e1.toks ≠ []) (hn : e1.toks.head? ≠ some .not_)
    (o : Str) (op : Op) (ho : Op.ofStr? o = some op) (hnb : (lowerStr o == ofS "between") = false) :
    AtomCond bs (e1.toks ++ (.not_ :: .op o :: e2.toks)) (.cmp e1.tree op.negate e2.tree) := by
  have h := C02.comparison_of_expressions bs e1 e2 h1 h2 hne hn o op ho hnb true
  simpa [C02.infixNotToks] using h

open ParseL ParseC in
/-- `x between lo and hi` and `x not between lo and hi` are atomic conditions denoting
    `x >= lo and x <= hi` and its De Morgan dual `x < lo or x > hi` -/
theorem between_forms_are_atoms (bs : Bool) (x lo hi : E) (hx : x.WF bs) (hlo : lo.WF bs) (hhi : hi.WF bs)
    (hne : x.toks ≠ []) (hn : x.toks.head? ≠ some .not_) (o : Str) (hb : (lowerStr o == ofS "between") = true) :
    AtomCond bs (x.toks ++ (.op o :: (lo.toks ++ .and_ :: hi.toks))) (between x.tree lo.tree hi.tree) ∧
    AtomCond bs (x.toks ++ (.not_ :: .op o :: (lo.toks ++ .and_ :: hi.toks))) (notBetween x.tree lo.tree hi.tree) := by
  have a := C02.between_is_atom bs x lo hi hx hlo hhi hne hn o hb false
  have b := C02.between_is_atom bs x lo hi hx hlo hhi hne hn o hb true
  constructor
  · simpa [C02.infixNotToks, C02.betweenTree, between] using a
  · simpa [C02.infixNotToks, C02.notBetweenTree, notBetween] using b

end Fsel.C03
