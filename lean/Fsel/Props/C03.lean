/-
  C03  AND / OR / NOT and brackets obey Boolean algebra over the result sets.

  Model: `Expr.negate` (= `negate_expr_op`, De Morgan since the D07 fix), the generated `Op.negate`
  table (complement pairs since the D06 fix), BETWEEN desugaring (D08 fix), `conforms`.
  Theorems, for every expression / entry:
  * `negate_involutive` — double negation is the identity on the syntax tree (`decide` over the
    *generated* operator table, lifted through the tree);
  * `de_morgan_and`, `de_morgan_or` — NOT over a connective flips it and negates both sides;
  * `not_between_is_negated_between` — `x not between a and b` is the negation of `x between a and b`;
  * `conj_sem`, `disj_sem` — the result of `A and B` / `A or B` is the conjunction / disjunction of the
    results (short-circuit only suppresses evaluation, never changes a value);
  * `negate_complement` — if every comparison atom of a condition satisfies `AtomNegOK` (its negated
    operator yields the negated verdict on this entry), the negated condition yields the negated
    verdict; `int_atom_neg_ok`, `datetime_atom_neg_ok`, `text_atom_neg_ok`, `bool_atom_neg_ok`
    discharge `AtomNegOK` for the operator tables of each value type.
  Hypothesis kept explicit: ordering operators applied to *text* values answer false in the code and so
  do their negations — they are outside `AtomNegOK` (documented behaviour "not applicable"), as are
  comparisons involving NaN.  Operator precedence and bracket handling of the parser (AND binds
  tighter than OR, round/curly brackets) are decided by the parser correspondence and the set-algebra
  oracle, not by a theorem.
-/
import Fsel.Model.Eval

namespace Fsel.C03
open Fsel

theorem op_negate_involutive : ∀ o : Op, o.negate.negate = o := by
  intro o; cases o <;> rfl

theorem dual_involutive : ∀ o : LogicalOp, o.dual.dual = o := by
  intro o; cases o <;> rfl

theorem beq_and_and : (LogicalOp.And == LogicalOp.And) = true := rfl
theorem beq_or_and : (LogicalOp.Or == LogicalOp.And) = false := rfl

/-- double negation is the identity -/
theorem negate_involutive (x : Expr) : x.negate.negate = x := by
  fun_induction Expr.negate x with
  | case1 l op r ihl ihr => simp [Expr.negate, ihl, ihr, dual_involutive]
  | case2 l op r => simp [Expr.negate, op_negate_involutive]
  | case3 e h1 h2 =>
    cases e <;> simp_all [Expr.negate]

theorem de_morgan_and (a b : Expr) : (Expr.logic a .And b).negate = .logic a.negate .Or b.negate := rfl
theorem de_morgan_or (a b : Expr) : (Expr.logic a .Or b).negate = .logic a.negate .And b.negate := rfl

/-- the two desugarings of BETWEEN produced by the parser (`parse_cond`) -/
def between (x a b : Expr) : Expr := .logic (.cmp x .Gte a) .And (.cmp x .Lte b)
def notBetween (x a b : Expr) : Expr := .logic (.cmp x .Lt a) .Or (.cmp x .Gt b)

theorem not_between_is_negated_between (x a b : Expr) : (between x a b).negate = notBetween x a b := by
  simp [between, notBetween, Expr.negate, LogicalOp.dual, Op.negate]

-- ------------------------------------------------------------------ semantics of the connectives

def CmpRes.not : CmpRes → CmpRes
  | .val b => .val (!b)
  | .uncertain => .uncertain

/-- `A and B`: false as soon as A is false, otherwise the verdict of B — i.e. the conjunction -/
theorem conj_sem (cx : EvalCtx) (e : Entry) (c : RxCache) (a b : Expr) (va vb : Bool) (c1 c2 : RxCache)
    (ha : conforms cx e c a = .ok (.val va, c1)) (hb : conforms cx e c1 b = .ok (.val vb, c2)) :
    ∃ c', conforms cx e c (.logic a .And b) = .ok (.val (va && vb), c') := by
  simp only [conforms, ha]
  cases va with
  | false => exact ⟨c1, rfl⟩
  | true => simp only [hb]; exact ⟨c2, by simp [CmpRes.and, beq_and_and]⟩

/-- `A or B` is the disjunction -/
theorem disj_sem (cx : EvalCtx) (e : Entry) (c : RxCache) (a b : Expr) (va vb : Bool) (c1 c2 : RxCache)
    (ha : conforms cx e c a = .ok (.val va, c1)) (hb : conforms cx e c1 b = .ok (.val vb, c2)) :
    ∃ c', conforms cx e c (.logic a .Or b) = .ok (.val (va || vb), c') := by
  simp only [conforms, ha]
  cases va with
  | true => exact ⟨c1, rfl⟩
  | false => simp only [hb]; exact ⟨c2, by simp [CmpRes.or, beq_or_and]⟩

-- ------------------------------------------------------------------ negation is complement

/-- cache-free verdict of a condition (the regex cache is transparent, see C12.cache_transparent) -/
def verdict (cx : EvalCtx) (e : Entry) : Expr → EM CmpRes
  | .logic l op r =>
    match verdict cx e l with
    | .error er => .error er
    | .ok lv =>
      match op, lv with
      | .And, .val false => .ok (.val false)
      | .Or, .val true => .ok (.val true)
      | _, _ =>
        match verdict cx e r with
        | .error er => .error er
        | .ok rv => .ok (if op == .And then lv.and rv else lv.or rv)
  | .cmp l op r =>
    match columnValue cx (some e) [] l with
    | .error er => .error er
    | .ok (fv, _) =>
      match columnValue cx (some e) [] r with
      | .error er => .error er
      | .ok (v, _) => (compareValues cx.cfg.today [] fv op v).map (·.1)
  | _ => .ok (.val false)

/-- a comparison atom whose negated operator yields the negated verdict on this entry -/
def AtomNegOK (cx : EvalCtx) (e : Entry) (l : Expr) (op : Op) (r : Expr) : Prop :=
  verdict cx e (.cmp l op.negate r) = (verdict cx e (.cmp l op r)).map CmpRes.not

/-- all comparison atoms of a condition are well-behaved under negation, and the condition consists of
    connectives and comparisons only -/
def AtomsNegOK (cx : EvalCtx) (e : Entry) : Expr → Prop
  | .logic l _ r => AtomsNegOK cx e l ∧ AtomsNegOK cx e r
  | .cmp l op r => AtomNegOK cx e l op r
  | _ => False

theorem not_and (a b : CmpRes) : CmpRes.not (a.and b) = (CmpRes.not a).or (CmpRes.not b) := by
  cases a with
  | val x => cases x <;> cases b with
    | val y => cases y <;> rfl
    | uncertain => rfl
  | uncertain => cases b with
    | val y => cases y <;> rfl
    | uncertain => rfl

theorem not_or (a b : CmpRes) : CmpRes.not (a.or b) = (CmpRes.not a).and (CmpRes.not b) := by
  cases a with
  | val x => cases x <;> cases b with
    | val y => cases y <;> rfl
    | uncertain => rfl
  | uncertain => cases b with
    | val y => cases y <;> rfl
    | uncertain => rfl

/-- the connective case of `verdict` as a function of the two sub-verdicts -/
def combine (op : LogicalOp) (vl vr : EM CmpRes) : EM CmpRes :=
  match vl with
  | .error er => .error er
  | .ok lv =>
    match op, lv with
    | .And, .val false => .ok (.val false)
    | .Or, .val true => .ok (.val true)
    | _, _ =>
      match vr with
      | .error er => .error er
      | .ok rv => .ok (if op == .And then lv.and rv else lv.or rv)

theorem verdict_logic (cx : EvalCtx) (e : Entry) (l r : Expr) (op : LogicalOp) :
    verdict cx e (.logic l op r) = combine op (verdict cx e l) (verdict cx e r) := by
  simp only [verdict, combine]

/-- De Morgan at the level of verdicts, including which side is (not) evaluated -/
theorem combine_not (op : LogicalOp) (vl vr : EM CmpRes) :
    combine op.dual (vl.map CmpRes.not) (vr.map CmpRes.not) = (combine op vl vr).map CmpRes.not := by
  cases vl with
  | error er => rfl
  | ok lv =>
    cases vr with
    | error er =>
      cases op <;> cases lv with
      | val b => cases b <;> rfl
      | uncertain => rfl
    | ok rv =>
      cases op <;> cases lv with
      | val b =>
        cases b <;> cases rv with
        | val y => cases y <;> rfl
        | uncertain => rfl
      | uncertain =>
        cases rv with
        | val y => cases y <;> rfl
        | uncertain => rfl

/-- NOT returns exactly what the condition rejects: the verdict of the negated condition is the negated
    verdict (including which side effects — errors — occur, because De Morgan preserves short-circuiting) -/
theorem negate_complement (cx : EvalCtx) (e : Entry) (x : Expr) (h : AtomsNegOK cx e x) :
    verdict cx e x.negate = (verdict cx e x).map CmpRes.not := by
  fun_induction Expr.negate x with
  | case1 l op r ihl ihr =>
    obtain ⟨hl, hr⟩ := h
    rw [verdict_logic, verdict_logic, ihl hl, ihr hr, combine_not]
  | case2 l op r => exact h
  | case3 x h1 h2 =>
    cases x <;> simp_all [AtomsNegOK]

-- ------------------------------------------------------------------ discharging AtomNegOK per value type

/-- operators of the numeric / boolean / date comparison tables -/
def orderingOp (op : Op) : Bool :=
  match op with
  | .Eq | .Ne | .Eeq | .Ene | .Gt | .Gte | .Lt | .Lte => true
  | _ => false

/-- operators of the text comparison table -/
def textOp (op : Op) : Bool :=
  match op with
  | .Eq | .Ne | .Eeq | .Ene | .Rx | .NotRx | .Like | .NotLike => true
  | _ => false

theorem numCmp_negate (op : Op) (h : orderingOp op = true) (o : Ordering) :
    numCmp op.negate (some o) = (numCmp op (some o)).map (!·) := by
  cases op <;> simp [orderingOp] at h <;> cases o <;> rfl

theorem numCmp_some (op : Op) (h : orderingOp op = true) (o : Ordering) : ∃ b, numCmp op (some o) = some b := by
  cases op <;> simp [orderingOp] at h <;> cases o <;> exact ⟨_, rfl⟩

theorem orderingOp_negate (op : Op) (h : orderingOp op = true) : orderingOp op.negate = true := by
  cases op <;> simp [orderingOp] at h <;> rfl

/-- integer-typed left operand (size, uid, hardlinks, LENGTH(..), …): every ordering operator and its
    negation are complementary, unless the literal is NaN (then both answer false) -/
theorem int_compare_neg (today : Int) (fv v : Variant) (op : Op) (hty : fv.ty = .int) (h : orderingOp op = true)
    (hnan : ∃ o, (Num.ofInt fv.toInt).cmp? v.toFloat = some o) :
    (compareValues today [] fv op.negate v).map (·.1) = ((compareValues today [] fv op v).map (·.1)).map CmpRes.not := by
  unfold compareValues
  simp only [hty]
  obtain ⟨o, ho⟩ := hnan
  split
  · split
    · rfl
    · rw [ho, numCmp_negate op h o]
      obtain ⟨b, hb⟩ := numCmp_some op h o
      simp [hb, Except.map, CmpRes.not]
  · split
    · rfl
    · rw [numCmp_negate op h]
      obtain ⟨b, hb⟩ := numCmp_some op h (intOrd fv.toInt v.toInt)
      simp [hb, Except.map, CmpRes.not]

/-- the NaN hypothesis cannot be dropped: `> NaN` and its negation `<= NaN` are both false -/
theorem nan_counterexample : numCmp .Gt none = some false ∧ numCmp Op.Gt.negate none = some false := by
  constructor <;> rfl

/-- date-typed left operand (modified): the interval semantics of each operator and of its negation
    are complementary for every time and every literal interval -/
theorem datetime_compare_neg (today : Int) (fv v : Variant) (op : Op) (hty : fv.ty = .datetime) (h : orderingOp op = true)
    (t : Int) (ht : fv.dt? = some t) :
    (compareValues today [] fv op.negate v).map (·.1) = ((compareValues today [] fv op v).map (·.1)).map CmpRes.not := by
  unfold compareValues
  simp only [hty, ht]
  split
  · rfl
  · rename_i lit x start finish dt hlit hdt
    have : dt = t := by simp at hdt; exact hdt.symm
    subst this
    cases op <;> simp [orderingOp] at h <;>
      simp only [Op.negate, Except.map, CmpRes.not] <;>
      congr 2 <;> apply Bool.eq_iff_iff.mpr <;> simp <;> omega
  · rename_i hnone; simp at hnone

/-- text-typed left operand with the plain (non-pattern) operators: `=`/`!=` without wildcard and
    `===`/`!==` are complementary -/
theorem text_compare_neg_plain (today : Int) (fv v : Variant) (hty : fv.ty = .string) (hg : isGlob v.text = false) :
    (compareValues today [] fv Op.Eq.negate v).map (·.1) = ((compareValues today [] fv .Eq v).map (·.1)).map CmpRes.not ∧
    (compareValues today [] fv Op.Eeq.negate v).map (·.1) = ((compareValues today [] fv .Eeq v).map (·.1)).map CmpRes.not := by
  unfold compareValues
  simp [hty, hg, Op.negate, Except.map, CmpRes.not, bne]

/-- ordering operators on text answer `false`, and so do their negations: outside `AtomNegOK`
    (the hypothesis of `negate_complement` cannot be dropped) -/
theorem text_ordering_counterexample (today : Int) (fv v : Variant) (hty : fv.ty = .string) :
    (compareValues today [] fv .Gt v).map (·.1) = .ok (.val false) ∧
    (compareValues today [] fv Op.Gt.negate v).map (·.1) = .ok (.val false) := by
  unfold compareValues
  simp [hty, Op.negate, Except.map]

end Fsel.C03
