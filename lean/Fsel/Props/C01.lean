/-
  C01  Traversal is exact: every entry in the depth window, once, nothing else.

  Model: `Walk.lean` (`visit_dir`/`check_file`, roots searched without `symlinks`).
  Theorems (every finite tree of any shape, depth, names and entry kinds; every mindepth/maxdepth):
  * `dfs_root_exact` — for a root searched depth-first with no streamed LIMIT, the searcher's result
    state is exactly `check_file` (plus the archive member loop) folded over `events`: the entries of the
    tree in pre-order, pruned below `maxdepth`; the traversal part of the state only gains inode numbers of
    the tree; exactly the directories whose listing fails are recorded as errors (`faultsL`, see C17).
    Hypotheses (all explicit, with a satisfying example): names are
    single path components, directory/symlink inode numbers pairwise distinct and
    not seen before, and the root's canonical path is longer than "/" (see `root_slash_counterexample`);
  * `events_are_window` — `events` is the full pre-order filtered by `level ≤ maxdepth`
    (`maxdepth = 0` = unbounded), and `below_mindepth_not_reported` — entries above the window are not
    reported: together "exactly the entries whose nesting level satisfies the window";
  * `dfs_subtree_contiguous` — in dfs mode a directory is immediately followed by its whole (pruned) subtree;
  * `events_count` — each entry of the tree occurs exactly once (unbounded depth: as many events as nodes);
  * `links_not_entered` — a symbolic link contributes its own row only.
  Breadth-first mode (`Lemmas/WalkB.lean`):
  * `bfs_root_exact` — for a root searched breadth-first (the default) with no streamed LIMIT, the result
    state is exactly `check_file` folded over `levelOrder`: list a directory, then whatever was queued before
    its sub-directories, then them; exactly the unlistable directories are recorded (`levelFaults`); the fuel
    the model gives the queue loop (one per directory of the tree, plus one) is proved sufficient
    (`bfsEvents_enough`; `levelOrder` itself is defined without fuel, by well-founded recursion);
  * `bfs_same_entries_as_dfs` — the breadth-first report is a permutation of the depth-first report:
    the same rows, each as often (so `events_are_window`, `events_count`, `links_not_entered` carry over);
  * `bfs_levels_nondecreasing` — in bfs mode no entry precedes an entry of smaller depth.
  Several roots are decided by the correspondence (byte-exact against the model, which takes the `readdir`
  order from the snapshot) and by the os.walk oracle; they are not theorems here.
-/
import Fsel.Lemmas.Walk
import Fsel.Lemmas.WalkB
import Fsel.Model.Main

namespace Fsel.C01
open Fsel WalkL WalkB

/-- the root call of `visit_dir` (depth-first) -/
theorem dfs_root_exact (p : Plan) (rp : RootParams) (hl : NoLimit p) (path canon : Str) (kids : List Node) (st : WSt)
    (hroot : 1 < canon.length) (hbase : rp.base = calcDepth canon)
    (hg : goodL kids) (hnd : (inodesL kids).Nodup) (hfresh : ∀ i ∈ inodesL kids, i ∉ st.walk.visited) :
    match foldReport p rp st.res (eventsL rp path canon 1 kids) with
    | .error a => visitDirD p rp path canon true kids st = .error a
    | .ok rs' => ∃ w', WalkAfter st.walk w' (inodesL kids) (faultsL rp path canon 1 kids) ∧
        visitDirD p rp path canon true kids st = .ok { res := rs', walk := w' } := by
  have hd : calcDepth canon - rp.base + 1 = 1 := by omega
  have h := dfs_list p rp hl path canon 1 hroot (by omega) hd kids st hg hnd hfresh
  rw [visitDirD]
  simp only [Bool.not_true, Bool.false_eq_true, if_false, hd]
  exact h

-- full pre-order with nesting levels (no pruning); the contents of a directory that cannot be listed are
-- not part of what can be seen (C17 states what happens there)
mutual
def allN (dirPath dirCanon : Str) (lvl : Nat) : Node → List (Node × Entry × Nat)
  | .leaf le z => [(.leaf le z, fillEntry le dirPath dirCanon le.absPath, lvl)]
  | .dir de l kids =>
    (.dir de l kids, fillEntry de dirPath dirCanon de.absPath, lvl) ::
      (if l then allL (fillEntry de dirPath dirCanon de.absPath).path (childCanon dirCanon de.name) (lvl + 1) kids else [])
def allL (dirPath dirCanon : Str) (lvl : Nat) : List Node → List (Node × Entry × Nat)
  | [] => []
  | n :: ns => allN dirPath dirCanon lvl n ++ allL dirPath dirCanon lvl ns
end

def inMax (rp : RootParams) (ev : Node × Entry × Nat) : Bool := rp.maxDepth == 0 || decide (ev.2.2 ≤ rp.maxDepth)

mutual
theorem all_levels_ge_N (dp dc : Str) (lvl : Nat) : ∀ (n : Node), ∀ ev ∈ allN dp dc lvl n, lvl ≤ ev.2.2
  | .leaf le z => by intro ev h; simp [allN] at h; subst h; simp
  | .dir de l kids => by
    intro ev h
    simp only [allN, List.mem_cons] at h
    rcases h with rfl | h
    · simp
    · cases l with
      | false => simp at h
      | true => have := all_levels_ge_L _ _ (lvl + 1) kids ev (by simpa using h); omega
theorem all_levels_ge_L (dp dc : Str) (lvl : Nat) : ∀ (ns : List Node), ∀ ev ∈ allL dp dc lvl ns, lvl ≤ ev.2.2
  | [] => by intro ev h; simp [allL] at h
  | n :: ns => by
    intro ev h
    simp only [allL, List.mem_append] at h
    rcases h with h | h
    · exact all_levels_ge_N dp dc lvl n ev h
    · exact all_levels_ge_L dp dc lvl ns ev h
end

mutual
/-- the reported entries are the full pre-order filtered by `level ≤ maxdepth` -/
theorem events_are_window_N (rp : RootParams) (dp dc : Str) (lvl : Nat) (hl : rp.maxDepth = 0 ∨ lvl ≤ rp.maxDepth) :
    ∀ n : Node, eventsN rp dp dc lvl n = (allN dp dc lvl n).filter (inMax rp)
  | .leaf le z => by
    simp only [eventsN, allN, List.filter_cons, List.filter_nil, inMax]
    rcases hl with h | h <;> simp [h]
  | .dir de l kids => by
    simp only [eventsN, allN, List.filter_cons, inMax]
    have hself : (rp.maxDepth == 0 || decide (lvl ≤ rp.maxDepth)) = true := by rcases hl with h | h <;> simp [h]
    simp only [hself, if_true]
    congr 1
    cases l with
    | false => simp
    | true =>
    simp only [Bool.and_true, if_true]
    by_cases hgo : (rp.maxDepth == 0 || decide (lvl < rp.maxDepth)) = true
    · simp only [hgo, if_true]
      have hl' : rp.maxDepth = 0 ∨ lvl + 1 ≤ rp.maxDepth := by
        simp only [Bool.or_eq_true, beq_iff_eq, decide_eq_true_eq] at hgo
        rcases hgo with h | h
        · exact Or.inl h
        · exact Or.inr (by omega)
      have := events_are_window_L rp (fillEntry de dp dc de.absPath).path (childCanon dc de.name) (lvl + 1) hl' kids
      simpa [inMax] using this
    · simp only [hgo]
      -- everything below is deeper than maxdepth
      have hmax : rp.maxDepth ≠ 0 ∧ ¬ lvl < rp.maxDepth := by
        simp only [Bool.or_eq_true, beq_iff_eq, decide_eq_true_eq, not_or] at hgo
        exact hgo
      symm
      apply List.filter_eq_nil_iff.mpr
      intro ev hev
      have := all_levels_ge_L _ _ (lvl + 1) kids ev hev
      simp only [inMax, Bool.or_eq_true, beq_iff_eq, decide_eq_true_eq, not_or]
      exact ⟨hmax.1, by omega⟩
theorem events_are_window_L (rp : RootParams) (dp dc : Str) (lvl : Nat) (hl : rp.maxDepth = 0 ∨ lvl ≤ rp.maxDepth) :
    ∀ ns : List Node, eventsL rp dp dc lvl ns = (allL dp dc lvl ns).filter (inMax rp)
  | [] => by simp [eventsL, allL]
  | n :: ns => by
    simp only [eventsL, allL, List.filter_append]
    rw [events_are_window_N rp dp dc lvl hl n, events_are_window_L rp dp dc lvl hl ns]
end

/-- the root call: level 1 is always within `maxdepth` (a `maxdepth` of 0 means unbounded) — note that
    fselect treats `depth 0` as unbounded, so level 1 ≤ maxdepth whenever maxdepth ≠ 0 -/
theorem events_are_window (rp : RootParams) (path canon : Str) (kids : List Node) :
    eventsL rp path canon 1 kids = (allL path canon 1 kids).filter (inMax rp) := by
  apply events_are_window_L
  by_cases h : rp.maxDepth = 0
  · exact Or.inl h
  · exact Or.inr (by omega)

/-- entries above the window (level < mindepth) are visited but not reported -/
theorem below_mindepth_not_reported (p : Plan) (rp : RootParams) (lvl : Nat) (n : Node) (e : Entry) (rs : ResSt)
    (hmin : rp.minDepth ≠ 0) (hlt : lvl < rp.minDepth) : reportEntry p rp lvl n e rs = .ok rs := by
  unfold reportEntry
  have : (rp.minDepth == 0 || decide (lvl ≥ rp.minDepth)) = false := by
    simp only [Bool.or_eq_false_iff, beq_eq_false_iff_ne, ne_eq, decide_eq_false_iff_not]
    exact ⟨hmin, by omega⟩
  simp [this]

/-- … and entries inside it are reported by `check_file` (then the archive member loop) -/
theorem in_window_reported (p : Plan) (rp : RootParams) (lvl : Nat) (le e : Entry) (rs : ResSt)
    (hmin : rp.minDepth = 0 ∨ rp.minDepth ≤ lvl) : reportEntry p rp lvl (.leaf le none) e rs = checkFile p rs e := by
  unfold reportEntry
  have : (rp.minDepth == 0 || decide (lvl ≥ rp.minDepth)) = true := by
    rcases hmin with h | h <;> simp [h]
  simp only [this, if_true]
  cases checkFile p rs e <;> rfl

/-- dfs: a directory is immediately followed by its whole (pruned) subtree -/
theorem dfs_subtree_contiguous (rp : RootParams) (dp dc : Str) (lvl : Nat) (de : Entry) (l : Bool) (kids rest : List Node) :
    ∃ sub, eventsL rp dp dc lvl (.dir de l kids :: rest) =
      (.dir de l kids, fillEntry de dp dc de.absPath, lvl) :: sub ++ eventsL rp dp dc lvl rest ∧
      (∀ ev ∈ sub, lvl < ev.2.2) := by
  refine ⟨if (rp.maxDepth == 0 || lvl < rp.maxDepth) && l then
      eventsL rp (fillEntry de dp dc de.absPath).path (childCanon dc de.name) (lvl + 1) kids else [], ?_, ?_⟩
  · simp [eventsL, eventsN]
  · intro ev hev
    split at hev
    · rename_i hgo
      have hl' : rp.maxDepth = 0 ∨ lvl + 1 ≤ rp.maxDepth := by
        simp only [Bool.and_eq_true, Bool.or_eq_true, beq_iff_eq, decide_eq_true_eq] at hgo
        rcases hgo.1 with h | h
        · exact Or.inl h
        · exact Or.inr (by omega)
      rw [events_are_window_L rp _ _ (lvl + 1) hl' kids] at hev
      have := all_levels_ge_L _ _ (lvl + 1) kids ev (List.mem_filter.mp hev).1
      omega
    · simp at hev

/-- a symbolic link (or any non-directory) contributes its own event only: links are not entered -/
theorem links_not_entered (rp : RootParams) (dp dc : Str) (lvl : Nat) (le : Entry) (z : Option (List ArcInfo)) :
    eventsN rp dp dc lvl (.leaf le z) = [(.leaf le z, fillEntry le dp dc le.absPath, lvl)] := rfl

mutual
def sizeN : Node → Nat
  | .leaf _ _ => 1
  | .dir _ l kids => 1 + (if l then sizeL kids else 0)
def sizeL : List Node → Nat
  | [] => 0
  | n :: ns => sizeN n + sizeL ns
end

mutual
theorem all_count_N (dp dc : Str) (lvl : Nat) : ∀ n : Node, (allN dp dc lvl n).length = sizeN n
  | .leaf le z => by simp [allN, sizeN]
  | .dir de l kids => by
    simp only [allN, sizeN, List.length_cons]
    cases l with
    | false => simp
    | true => simp only [if_true]; rw [all_count_L _ _ (lvl + 1) kids]; omega
theorem all_count_L (dp dc : Str) (lvl : Nat) : ∀ ns : List Node, (allL dp dc lvl ns).length = sizeL ns
  | [] => by simp [allL, sizeL]
  | n :: ns => by
    simp only [allL, sizeL, List.length_append]
    rw [all_count_N dp dc lvl n, all_count_L dp dc lvl ns]
end

/-- with unbounded depth there are exactly as many reported entries as the tree has entries -/
theorem events_count (rp : RootParams) (path canon : Str) (kids : List Node) (h0 : rp.maxDepth = 0) :
    (eventsL rp path canon 1 kids).length = sizeL kids := by
  rw [events_are_window rp path canon kids]
  have : (allL path canon 1 kids).filter (inMax rp) = allL path canon 1 kids := by
    apply List.filter_eq_self.mpr
    intro ev _
    simp [inMax, h0]
  rw [this, all_count_L]

/-- the hypotheses of `dfs_root_exact` are satisfiable: a directory with a file and a sub-directory -/
example :
    let f : Entry := { name := ofS "f", path := [], absPath := none, absDir := none, kind := 'f', size := 1, mode := 0,
                        uid := 0, gid := 0, nlink := 1, ino := 11, dev := 0, blocks := 0, mtime := 0 }
    let d : Entry := { f with name := ofS "d", kind := 'd', ino := 12 }
    let kids := [Node.leaf f none, Node.dir d true [Node.leaf { f with name := ofS "g", ino := 13 } none]]
    goodL kids ∧ (inodesL kids).Nodup ∧ (∀ i ∈ inodesL kids, i ∉ ([] : List Nat)) := by
  refine ⟨?_, ?_, ?_⟩
  · simp [goodL, goodN, ofS]
  · simp [inodesL, inodesN]
  · simp

/-! ### breadth-first mode -/

/-- the root directory as the first queue item -/
def rootItem (path canon : Str) (kids : List Node) : QItem := ⟨kids, true, path, canon⟩

/-- `visit_dir(root)` followed by the queue loop, as `searchRoot` runs them -/
def bfsRoot (p : Plan) (rp : RootParams) (path canon : Str) (kids : List Node) (st : WSt) : Except Abort WSt :=
  match visitDirB p rp (rootItem path canon kids) st with
  | .error a => .error a
  | .ok st' => drainQueue p rp (Node.countDirsList kids + 1) st'

theorem bfsRoot_eq_drain (p : Plan) (rp : RootParams) (path canon : Str) (kids : List Node) (st : WSt)
    (hq : st.walk.queue = []) :
    bfsRoot p rp path canon kids st =
      drainQueue p rp (Node.countDirsList kids + 1 + 1)
        { st with walk := { st.walk with queue := [rootItem path canon kids] } } := by
  obtain ⟨res, walk⟩ := st
  obtain ⟨visited, errPaths, errCount, queue, fresh, visitedDirs⟩ := walk
  simp only at hq
  subst hq
  rw [drainQueue]
  rfl

/-- the root call of `visit_dir` in breadth-first mode and the queue loop after it -/
theorem bfs_root_exact (p : Plan) (rp : RootParams) (hl : NoLimit p) (path canon : Str) (kids : List Node) (st : WSt)
    (hq : st.walk.queue = [])
    (hg : goodL kids) (hnd : (inodesL kids).Nodup) (hfresh : ∀ i ∈ inodesL kids, i ∉ st.walk.visited) :
    match foldReport p rp st.res (levelOrder rp [rootItem path canon kids]) with
    | .error a => bfsRoot p rp path canon kids st = .error a
    | .ok rs' => ∃ w', bfsRoot p rp path canon kids st = .ok { res := rs', walk := w' } ∧
        w'.errPaths = st.walk.errPaths ++ levelFaults rp [rootItem path canon kids] ∧
        w'.errCount = st.walk.errCount + (levelFaults rp [rootItem path canon kids]).length ∧
        (∀ i, i ∈ w'.visited → i ∈ st.walk.visited ∨ i ∈ inodesL kids) := by
  rw [bfsRoot_eq_drain p rp path canon kids st hq]
  have hsz : qSize [rootItem path canon kids] ≤ Node.countDirsList kids + 1 + 1 := by
    rw [qSize_cons, qSize_nil]; simp only [rootItem]; omega
  obtain ⟨he, hf⟩ := bfsEvents_enough rp _ _ hsz
  have hqi : qInos [rootItem path canon kids] = inodesL kids := by simp [qInos, rootItem]
  have h := drain_exact p rp hl (Node.countDirsList kids + 1 + 1)
    { st with walk := { st.walk with queue := [rootItem path canon kids] } }
    (by intro it hit; simp only [List.mem_singleton] at hit; subst hit; exact hg)
    (by simpa [hqi] using hnd)
    (by simpa [hqi] using hfresh)
  simp only [he, hf, hqi] at h
  exact h

/-- **bfs and dfs return the same set**: the level order of the root is a permutation of the pre-order -/
theorem bfs_same_entries_as_dfs (rp : RootParams) (path canon : Str) (kids : List Node)
    (hroot : 1 < canon.length) (hbase : rp.base = calcDepth canon) (hg : goodL kids) :
    (levelOrder rp [rootItem path canon kids]).Perm (eventsL rp path canon 1 kids) := by
  have hw : QWf rp [rootItem path canon kids] := by
    intro it hit; simp only [List.mem_singleton] at hit; subst hit
    exact ⟨hg, hroot, by simp [rootItem, hbase]⟩
  have h := levelOrder_perm rp _ hw
  have hd : itemDepth rp (rootItem path canon kids) = 1 := by simp [itemDepth, rootItem, hbase]
  simp only [List.flatMap_cons, List.flatMap_nil, List.append_nil, subtree] at h
  rw [hd] at h
  simpa [rootItem] using h

/-- **bfs order**: no entry precedes an entry of smaller depth -/
theorem bfs_levels_nondecreasing (rp : RootParams) (path canon : Str) (kids : List Node)
    (hroot : 1 < canon.length) (hbase : rp.base = calcDepth canon) (hg : goodL kids) :
    (levelOrder rp [rootItem path canon kids]).Pairwise (fun a b => a.2.2 ≤ b.2.2) := by
  have hw : QWf rp [rootItem path canon kids] := by
    intro it hit; simp only [List.mem_singleton] at hit; subst hit
    exact ⟨hg, hroot, by simp [rootItem, hbase]⟩
  refine levelOrder_sorted rp _ hw ⟨List.pairwise_singleton _ _, ?_⟩
  intro x hx y hy
  simp only [List.mem_singleton] at hx hy
  subst hx; subst hy; omega

/-- `searchRoot` in bfs mode is `bfsRoot` on the root item (the model's own call, unfolded) -/
theorem searchRoot_bfs (p : Plan) (root : Root) (e : Entry) (kids : List Node) (canon : Str) (st : WSt)
    (hb : (rootParams root canon).bfs = true) :
    searchRoot p root (.dir e true kids canon) st =
      bfsRoot p (rootParams root canon) root.path canon kids
        { st with walk := markVisited { st.walk with queue := [] } e.ino } := by
  simp only [searchRoot, hb, if_true, bfsRoot, rootItem]
  rfl

/-! ### several roots -/

/-- a search root that resolves to a listable directory -/
structure RootRec where
  root : Root
  e : Entry
  kids : List Node
  canon : Str

def RootRec.rp (r : RootRec) : RootParams := rootParams r.root r.canon

/-- what one root reports: level order (bfs, the default) or pre-order (dfs) -/
def RootRec.events (r : RootRec) : List (Node × Entry × Nat) :=
  if r.rp.bfs then levelOrder r.rp [rootItem r.root.path r.canon r.kids]
  else eventsL r.rp r.root.path r.canon 1 r.kids

/-- the inode numbers a root can record: the root directory itself, its sub-directories and links -/
def RootRec.inos (r : RootRec) : List Nat := r.e.ino :: inodesL r.kids

/-- a plain root: no `regexp`, `symlinks` or ignore option in force, resolving to a listable directory -/
def PlainRoot (p : Plan) (fs : FSnap) (r : RootRec) : Prop :=
  r.root.options.regexp = false ∧ r.root.options.symlinks = false ∧
  ignoreApplies r.root.options.gitignore p.cfg.gitignore = false ∧
  ignoreApplies r.root.options.hgignore p.cfg.hgignore = false ∧
  ignoreApplies r.root.options.dockerignore p.cfg.dockerignore = false ∧
  resolveRoot fs r.root.path = .ok (.dir r.e true r.kids r.canon) ∧
  goodL r.kids ∧ 1 < r.canon.length

/-- the roots one after the other, each reporting its own events with its own depth window -/
def foldRoots (p : Plan) : ResSt → List RootRec → Except Abort ResSt
  | rs, [] => .ok rs
  | rs, r :: t =>
    match foldReport p r.rp rs r.events with
    | .error a => .error a
    | .ok rs' => foldRoots p rs' t

theorem markVisited_fresh (w : WalkSt) (i : Nat) (h : i ∉ w.visited) :
    markVisited w i = { w with visited := w.visited ++ [i] } := by
  unfold markVisited
  have : w.visited.contains i = false := by
    cases hc : w.visited.contains i with
    | false => rfl
    | true => exact absurd (List.contains_iff_mem.mp hc) h
  simp only [this, Bool.false_eq_true, if_false]

/-- one plain root, either traversal: the result is `check_file` folded over the root's events, and the
    traversal state only gains inode numbers of that root -/
theorem one_root_exact (p : Plan) (hl : NoLimit p) (r : RootRec) (st : WSt)
    (hnd : r.inos.Nodup) (hfresh : ∀ i ∈ r.inos, i ∉ st.walk.visited) (hg : goodL r.kids) (hc : 1 < r.canon.length) :
    match foldReport p r.rp st.res r.events with
    | .error a => searchRoot p r.root (.dir r.e true r.kids r.canon) st = .error a
    | .ok rs' => ∃ w', searchRoot p r.root (.dir r.e true r.kids r.canon) st = .ok { res := rs', walk := w' } ∧
        (∀ i, i ∈ w'.visited → i ∈ st.walk.visited ∨ i ∈ r.inos) := by
  have hroot : r.e.ino ∉ st.walk.visited := hfresh _ (by simp [RootRec.inos])
  have hnd' := List.nodup_cons.mp hnd
  have hmv := markVisited_fresh { st.walk with queue := [] } r.e.ino hroot
  by_cases hb : r.rp.bfs = true
  · -- breadth-first
    rw [searchRoot_bfs p r.root r.e r.kids r.canon st hb]
    simp only [RootRec.events, hb, if_true]
    rw [hmv]
    have h := bfs_root_exact p r.rp hl r.root.path r.canon r.kids
      { st with walk := { st.walk with queue := [], visited := st.walk.visited ++ [r.e.ino] } } rfl hg hnd'.2
      (by intro i hi hv
          simp only [List.mem_append, List.mem_singleton] at hv
          rcases hv with h | h
          · exact hfresh i (by simp [RootRec.inos, hi]) h
          · subst h; exact hnd'.1 hi)
    simp only at h
    cases hf : foldReport p r.rp st.res (levelOrder r.rp [rootItem r.root.path r.canon r.kids]) with
    | error a => rw [hf] at h; exact h
    | ok rs' =>
      rw [hf] at h
      obtain ⟨w', h1, _, _, h4⟩ := h
      refine ⟨w', h1, ?_⟩
      intro i hi
      rcases h4 i hi with h | h
      · simp only [List.mem_append, List.mem_singleton] at h
        rcases h with h | h
        · exact Or.inl h
        · right; subst h; simp [RootRec.inos]
      · right; simp [RootRec.inos, h]
  · -- depth-first
    have hbf : r.rp.bfs = false := by cases h : r.rp.bfs <;> simp_all
    simp only [RootRec.events, hbf, Bool.false_eq_true, if_false]
    have hsr : searchRoot p r.root (.dir r.e true r.kids r.canon) st =
        visitDirD p r.rp r.root.path r.canon true r.kids
          { st with walk := { st.walk with queue := [], visited := st.walk.visited ++ [r.e.ino] } } := by
      simp only [searchRoot, RootRec.rp] at hbf ⊢
      simp only [hbf, Bool.false_eq_true, if_false, hmv]
    rw [hsr]
    have h := dfs_root_exact p r.rp hl r.root.path r.canon r.kids
      { st with walk := { st.walk with queue := [], visited := st.walk.visited ++ [r.e.ino] } } hc
      (by simp [RootRec.rp, rootParams]) hg hnd'.2
      (by intro i hi hv
          simp only [List.mem_append, List.mem_singleton] at hv
          rcases hv with h | h
          · exact hfresh i (by simp [RootRec.inos, hi]) h
          · subst h; exact hnd'.1 hi)
    cases hf : foldReport p r.rp st.res (eventsL r.rp r.root.path r.canon 1 r.kids) with
    | error a => rw [hf] at h; exact h
    | ok rs' =>
      rw [hf] at h
      obtain ⟨w', hwa, h1⟩ := h
      refine ⟨w', h1, ?_⟩
      intro i hi
      rcases hwa.sub i hi with h | h
      · simp only [List.mem_append, List.mem_singleton] at h
        rcases h with h | h
        · exact Or.inl h
        · right; subst h; simp [RootRec.inos]
      · right; simp [RootRec.inos, h]

/-- **several disjoint roots**: the roots are searched one after the other; each reports exactly its own
    events (its own depth window and traversal mode); nothing of one root is lost or repeated because of
    another.  Disjointness = the directory/link inode numbers of the roots are pairwise distinct. -/
theorem roots_exact (p : Plan) (fs : FSnap) (multi : Bool) (hl : NoLimit p) :
    ∀ (recs : List RootRec) (st : WSt), (∀ r ∈ recs, PlainRoot p fs r) →
      (recs.flatMap RootRec.inos).Nodup → (∀ i ∈ recs.flatMap RootRec.inos, i ∉ st.walk.visited) →
      match foldRoots p st.res recs with
      | .error a => searchRoots p fs multi (recs.map (·.root)) st = .error a
      | .ok rs' => ∃ w', searchRoots p fs multi (recs.map (·.root)) st = .ok { res := rs', walk := w' }
  | [], st, _, _, _ => by
    simp only [foldRoots, List.map_nil, searchRoots]
    exact ⟨st.walk, rfl⟩
  | r :: t, st, hp, hnd, hfr => by
    obtain ⟨h1, h2, h3, h4, h5, h6, h7, h8⟩ := hp r (by simp)
    simp only [List.flatMap_cons] at hnd hfr
    obtain ⟨hndr, hndt, hdisj⟩ := List.nodup_append.mp hnd
    have hone := one_root_exact p hl r st hndr (fun i hi => hfr i (List.mem_append.mpr (Or.inl hi))) h7 h8
    simp only [foldRoots, List.map_cons, searchRoots, h1, h2, h3, h4, h5, h6, Bool.false_eq_true, if_false, Bool.or_self]
    cases hf : foldReport p r.rp st.res r.events with
    | error a => rw [hf] at hone; simp only at hone ⊢; rw [hone]
    | ok rs1 =>
      rw [hf] at hone
      obtain ⟨w1, hs1, hv1⟩ := hone
      simp only [hs1]
      have ih := roots_exact p fs multi hl t { res := rs1, walk := w1 } (fun x hx => hp x (by simp [hx])) hndt
        (by intro i hi hv
            rcases hv1 i hv with h | h
            · exact hfr i (List.mem_append.mpr (Or.inr hi)) h
            · exact hdisj i h i hi rfl)
      exact ih

/-- **the root directory `/`**: an entry directly inside it is on level 1 like under any other root (D58 fix: `calc_depth`
    counted slashes, `/` and `/usr` both have one, and everything below the root `/` was one level off; the walker's
    other theorems speak of canonical directories longer than one character, this is the remaining case) -/
theorem root_slash_child_level (name : Str) (hn : ¬ name.contains '/') (hne : name ≠ []) :
    calcDepth (childCanon ['/'] name) - calcDepth ['/'] + 1 = 2 :=
  depth_child_of_root name hn hne

example : calcDepth (childCanon ['/'] (ofS "usr")) = calcDepth ['/'] + 1 := by decide

end Fsel.C01
