/-
  fsmodel: line-protocol driver of the executable model.
  One request per line, TAB-separated; payload fields are hex-encoded UTF-8.  One response line per
  request.  Unknown requests answer `bad-op` (never a default).
-/
import Fsel.Model.Dispatch

open Fsel

partial def loop (h : IO.FS.Stream) (out : IO.FS.Stream) (st : DriverState) : IO Unit := do
  let line ← h.getLine
  if line.isEmpty then
    out.flush
    return ()
  let line := if line.endsWith "\n" then (line.dropEnd 1).toString else line
  let (st', resp) := handleLine st line
  out.putStrLn resp
  out.flush
  loop h out st'

def main : IO Unit := do
  let stdin ← IO.getStdin
  let stdout ← IO.getStdout
  loop stdin stdout DriverState.init
