import Fsel.Model.Dispatch
