//! Auxiliary in-process harness: compiles the working tree's sources of /repo through #[path]
//! includes (no hook needed) and exposes the pure functions over a line protocol
//! (TAB-separated, hex-encoded UTF-8 fields; one response line per request).
#![allow(dead_code, unused_imports, unused_macros)]

#[macro_use]
extern crate serde_derive;
extern crate uzers;
extern crate xattr;

#[path = "/repo/src/config.rs"]
mod config;
#[path = "/repo/src/expr.rs"]
mod expr;
#[path = "/repo/src/field.rs"]
mod field;
#[path = "/repo/src/fileinfo.rs"]
mod fileinfo;
#[path = "/repo/src/function.rs"]
mod function;
#[path = "/repo/src/ignore/mod.rs"]
mod ignore;
#[path = "/repo/src/lexer.rs"]
mod lexer;
#[path = "/repo/src/mode.rs"]
mod mode;
#[path = "/repo/src/operators.rs"]
mod operators;
#[path = "/repo/src/output/mod.rs"]
mod output;
#[path = "/repo/src/parser.rs"]
mod parser;
#[path = "/repo/src/query.rs"]
mod query;
#[path = "/repo/src/searcher.rs"]
mod searcher;
#[path = "/repo/src/util/mod.rs"]
mod util;

use std::io::{BufRead, Write};
use std::panic::{catch_unwind, AssertUnwindSafe};

fn unhex(s: &str) -> Option<String> {
    if s == "-" {
        return Some(String::new());
    }
    if s.len() % 2 != 0 {
        return None;
    }
    let mut bytes = Vec::with_capacity(s.len() / 2);
    let b = s.as_bytes();
    for i in (0..b.len()).step_by(2) {
        let h = (b[i] as char).to_digit(16)?;
        let l = (b[i + 1] as char).to_digit(16)?;
        bytes.push((h * 16 + l) as u8);
    }
    String::from_utf8(bytes).ok()
}

fn hex(s: &str) -> String {
    if s.is_empty() {
        return "-".to_string();
    }
    s.bytes().map(|b| format!("{:02x}", b)).collect()
}

fn jstr(s: &str) -> String {
    serde_json::to_string(s).unwrap()
}

fn lexem_text(l: &lexer::Lexem) -> String {
    use lexer::Lexem::*;
    match l {
        RawString(s) => format!("RawString:{}", jstr(s)),
        Operator(s) => format!("Operator:{}", jstr(s)),
        String(s) => format!("String:{}", jstr(s)),
        ArithmeticOperator(s) => format!("ArithmeticOperator:{}", jstr(s)),
        other => format!("{:?}", other),
    }
}

fn root_json(r: &query::Root) -> String {
    let ob = |o: Option<bool>| match o {
        None => "null".to_string(),
        Some(b) => b.to_string(),
    };
    format!(
        "{{\"path\":{},\"min_depth\":{},\"max_depth\":{},\"archives\":{},\"symlinks\":{},\"gitignore\":{},\"hgignore\":{},\"dockerignore\":{},\"traversal\":\"{:?}\",\"regexp\":{}}}",
        jstr(&r.path),
        r.options.min_depth,
        r.options.max_depth,
        r.options.archives,
        r.options.symlinks,
        ob(r.options.gitignore),
        ob(r.options.hgignore),
        ob(r.options.dockerignore),
        r.options.traversal,
        r.options.regexp
    )
}

fn query_json(q: &query::Query) -> String {
    let exprs = |v: &Vec<expr::Expr>| {
        format!(
            "[{}]",
            v.iter()
                .map(|e| serde_json::to_string(e).unwrap())
                .collect::<Vec<_>>()
                .join(",")
        )
    };
    format!(
        "{{\"fields\":{},\"roots\":[{}],\"expr\":{},\"grouping_fields\":{},\"ordering_fields\":{},\"ordering_asc\":{},\"limit\":{},\"output_format\":\"{:?}\"}}",
        exprs(&q.fields),
        q.roots.iter().map(root_json).collect::<Vec<_>>().join(","),
        match &q.expr {
            Some(e) => serde_json::to_string(e).unwrap(),
            None => "null".to_string(),
        },
        exprs(&q.grouping_fields),
        exprs(&q.ordering_fields),
        serde_json::to_string(&*q.ordering_asc).unwrap(),
        q.limit,
        q.output_format
    )
}

fn handle(line: &str) -> String {
    let mut it = line.split('\t');
    let cmd = it.next().unwrap_or("");
    #[cfg(target_os = "linux")]
    if cmd == "caps" {
        // the argument is the hex of the raw xattr bytes (not text)
        let raw = line.split('\t').nth(1).unwrap_or("");
        let mut bytes = vec![];
        let b = raw.as_bytes();
        let mut i = 0;
        while i + 1 < b.len() {
            let h = (b[i] as char).to_digit(16).unwrap_or(0);
            let l = (b[i + 1] as char).to_digit(16).unwrap_or(0);
            bytes.push((h * 16 + l) as u8);
            i += 2;
        }
        return hex(&util::capabilities::parse_capabilities(bytes));
    }
    let args: Option<Vec<String>> = it.map(unhex).collect();
    let args = match args {
        Some(a) => a,
        None => return "bad-op".to_string(),
    };
    match cmd {
        "lex" => {
            let mut lx = lexer::Lexer::new(args);
            let mut out = vec![];
            let mut guard = 0;
            while let Some(l) = lx.next_lexem() {
                out.push(lexem_text(&l));
                guard += 1;
                if guard > 100000 {
                    return "hang".to_string();
                }
            }
            out.join(" ")
        }
        "parse" => {
            let mut p = parser::Parser::new();
            match p.parse(args, false) {
                Ok(q) => format!("ok {}", query_json(&q)),
                Err(e) => format!("err msg:{}", e),
            }
        }
        "parse_filesize" => match util::parse_filesize(&args[0]) {
            Some(n) => format!("some {}", n),
            None => "none".to_string(),
        },
        "format_filesize" => match args[0].parse::<u64>() {
            Ok(n) => hex(&util::format_filesize(n, &args[1])),
            Err(_) => "bad-op".to_string(),
        },
        "str_to_bool" => format!("{:?}", util::str_to_bool(&args[0])),
        "glob" => hex(&util::convert_glob_to_pattern(&args[0])),
        "like" => hex(&util::convert_like_to_pattern(&args[0])),
        "is_glob" => format!("{}", util::is_glob(&args[0])),
        "rxmatch" => match regex::Regex::new(&args[0]) {
            Ok(rx) => format!("{}", rx.is_match(&args[1])),
            Err(_) => "rxerr".to_string(),
        },
        "format_mode" => match args[0].parse::<u32>() {
            Ok(m) => {
                let preds: Vec<bool> = vec![
                    mode::mode_user_read(m),
                    mode::mode_user_write(m),
                    mode::mode_user_exec(m),
                    mode::mode_user_all(m),
                    mode::mode_group_read(m),
                    mode::mode_group_write(m),
                    mode::mode_group_exec(m),
                    mode::mode_group_all(m),
                    mode::mode_other_read(m),
                    mode::mode_other_write(m),
                    mode::mode_other_exec(m),
                    mode::mode_other_all(m),
                    mode::mode_suid(m),
                    mode::mode_sgid(m),
                    mode::mode_is_pipe(m),
                    mode::mode_is_char_device(m),
                    mode::mode_is_block_device(m),
                    mode::mode_is_socket(m),
                ];
                format!(
                    "{} {}",
                    mode::format_mode(m),
                    preds.iter().map(|b| if *b { '1' } else { '0' }).collect::<String>()
                )
            }
            Err(_) => "bad-op".to_string(),
        },
        "parse_datetime" => match util::parse_datetime(&args[0]) {
            Ok((a, b)) => format!("ok {} {}", util::format_datetime(&a), util::format_datetime(&b)),
            Err(_) => "err".to_string(),
        },
        "get_value" => {
            // args: function name, first arg, rest args
            use std::str::FromStr;
            match function::Function::from_str(&args[0]) {
                Ok(f) => {
                    let v = function::get_value(&Some(f), args[1].clone(), args[2..].to_vec(), None, &None);
                    format!("{:?} {}", v.get_type(), hex(&v.to_string()))
                }
                Err(_) => "bad-op".to_string(),
            }
        }
        "aggregate" => {
            // args: function name, then values of the single key "k"
            use std::str::FromStr;
            match function::Function::from_str(&args[0]) {
                Ok(f) => {
                    let buf: Vec<std::collections::HashMap<String, String>> = args[1..]
                        .iter()
                        .map(|v| {
                            let mut m = std::collections::HashMap::new();
                            m.insert("k".to_string(), v.clone());
                            m
                        })
                        .collect();
                    hex(&function::get_aggregate_value(&Some(f), &buf, "k".to_string(), &None))
                }
                Err(_) => "bad-op".to_string(),
            }
        }
        "topn" => {
            // args: limit (0 = limitless), then keys (decimal u64) inserted in order with value = index
            let limit: u32 = args[0].parse().unwrap_or(0);
            let mut t: util::TopN<u64, usize> = if limit == 0 {
                util::TopN::limitless()
            } else {
                util::TopN::new(limit)
            };
            for (i, k) in args[1..].iter().enumerate() {
                match k.parse::<u64>() {
                    Ok(k) => {
                        t.insert(k, i);
                    }
                    Err(_) => return "bad-op".to_string(),
                }
            }
            t.values().iter().map(|v| v.to_string()).collect::<Vec<_>>().join(",")
        }
        _ => "bad-op".to_string(),
    }
}

fn main() {
    std::panic::set_hook(Box::new(|_| {}));
    let stdin = std::io::stdin();
    let stdout = std::io::stdout();
    let mut out = stdout.lock();
    for line in stdin.lock().lines() {
        let line = match line {
            Ok(l) => l,
            Err(_) => break,
        };
        let resp = match catch_unwind(AssertUnwindSafe(|| handle(&line))) {
            Ok(r) => r,
            Err(_) => "panic".to_string(),
        };
        let _ = writeln!(out, "{}", resp);
    }
    let _ = out.flush();
}
