"""C20: ignore-file options remove exactly the ignored entries."""
import os
import re
import subprocess

import common
import corr
import fstree
import gen

RULE = ("generated trees inside a repository directory (whose name may contain regex metacharacters) with ignore files "
        "built from the entries' own names: literal names, `*.ext`, `dir/`, `dir/*.ext`, `**/name`, `?` patterns, "
        "symbolic links (name matching while the target does not and vice versa, dangling, loops), comments, blank lines, `!exceptions` (git, docker), `syntax: glob|regexp` sections with `\\.ext$`, `^dir/`, plain "
        "words (hg); root = the repository or a sub-directory of it, spelled `.`, relative, absolute, through `..` or through a symbolic link outside the repository; rules enabled "
        "by option, by the configuration default, and switched off by `no…` against a default; bfs/dfs; two roots in one query, each a repository with its own hg/docker ignore file, in either order. (a) CLI "
        "correspondence with the Lean model (git's verdict per entry is snapshot input taken from `git check-ignore`); "
        "(b) oracle: rows with the rules = rows without them minus the entries the tool ignores — `git check-ignore` "
        "for git, reference matchers of Mercurial's and Docker's pattern semantics for the generated subset — an "
        "entry below an ignored directory counts as ignored. distinct = (tree, rules, argv); nontrivial = at least "
        "one entry is ignored and one is kept")


def tree(r):
    ents = fstree.gen_tree(r, max_entries=r.choice([6, 12, 20]), kinds="fd", max_depth=4)
    names = ["a.o", "b.o", "keep.o", "x.c", "xy.c", "notes.bak", "build", "z.txt", "lib.tmp", "a.obj"]
    dirs = [""] + [e["path"] for e in ents if e["kind"] == "d"]
    for nm in r.sample(names, r.range(3, 8)):
        d = r.choice(dirs)
        p = (d + "/" if d else "") + nm
        if any(e["path"] == p for e in ents):
            continue
        if nm == "build":
            ents.append({"path": p, "kind": "d", "mode": 0o755, "mtime": 1700000000})
            ents.append({"path": p + "/out.bin", "kind": "f", "size": 3, "mode": 0o644, "mtime": 1700000001})
        else:
            ents.append({"path": p, "kind": "f", "size": 2, "mode": 0o644, "mtime": 1700000002})
    # symbolic links: an entry is judged by its own name and place, whatever it points to — links whose name matches
    # a pattern while the target's does not (and the other way round), a dangling link, a link loop
    if r.chance(2, 3):
        files = [e["path"] for e in ents if e["kind"] == "f"]
        have = {e["path"] for e in ents}
        for nm, tgt in [("lnk.o", r.choice(files) if files else "nowhere"), ("plainlink", "a.o"), ("dangling.tmp", "no-such-target"), ("loop", "loop"),
                        ("keep.bak", "z.txt")]:
            if r.chance(1, 2):
                d = r.choice(dirs)
                p = (d + "/" if d else "") + nm
                if p not in have:
                    have.add(p)
                    # (relative targets are resolved from the link's directory; most of these dangle, which is the point)
                    ents.append({"path": p, "kind": "l", "target": tgt if nm != "lnk.o" else os.path.relpath(tgt, d or "."), "mtime": 1700000003})
    return ents


def gen_patterns(r, ents, tool):
    """list of (kind, text) lines; kind in glob|regexp|comment|blank|syntax"""
    files = [e["path"] for e in ents if e["kind"] == "f"]
    dirs = [e["path"] for e in ents if e["kind"] == "d"]
    lines = []
    n = r.range(1, 6)
    excluded_ext = []
    for _ in range(n):
        k = r.below(10)
        if k == 0:
            lines.append(("comment", "# " + r.choice(["generated", "*.o", "!x"])))
        elif k == 1:
            # (a line of spaces only is avoided for git: `git check-ignore` and `git status` disagree about it)
            lines.append(("blank", r.choice(["", "   "]) if tool != "git" else ""))
        elif k == 2 and files:
            lines.append(("glob", os.path.basename(r.choice(files))))
        elif k == 3 and files:
            ext = os.path.splitext(r.choice(files))[1]
            if ext:
                lines.append(("glob", "*" + ext))
                excluded_ext.append(ext)
        elif k == 4 and dirs:
            d = r.choice(dirs)
            lines.append(("glob", (os.path.basename(d) if tool != "docker" else d) + "/"))
        elif k == 5 and files:
            f = r.choice(files)
            d, b = os.path.split(f)
            ext = os.path.splitext(b)[1]
            if d and ext:
                lines.append(("glob", (os.path.basename(d) if tool == "hg" else d) + "/*" + ext))
        elif k == 6 and files:
            lines.append(("glob", "**/" + os.path.basename(r.choice(files))))
        elif k == 7 and files:
            b = os.path.basename(r.choice(files))
            if len(b) > 2 and b[1] not in ".*?[":
                lines.append(("glob", b[0] + "?" + b[2:]))
        elif k == 8 and tool in ("git", "docker") and files and excluded_ext:
            cand = [f for f in files if os.path.splitext(f)[1] in excluded_ext]
            if cand:
                f = r.choice(cand)
                lines.append(("glob", "!" + (os.path.basename(f) if tool == "git" else f)))
        elif k == 9 and tool == "hg":
            lines.append(("syntax", "syntax: regexp"))
            c = r.below(3)
            if c == 0 and files:
                ext = os.path.splitext(r.choice(files))[1]
                if ext:
                    lines.append(("regexp", "\\" + ext + "$"))
            elif c == 1 and dirs:
                lines.append(("regexp", "^" + r.choice(dirs).split("/")[0] + "/"))
            elif files:
                lines.append(("regexp", re.escape(os.path.basename(r.choice(files)))))
            lines.append(("syntax", "syntax: glob"))
    # exception followed by a pattern that excludes the same entry again, and the other way round: the last one decides
    if tool in ("git", "docker") and files and r.chance(1, 2):
        cand = [f for f in files if os.path.splitext(f)[1] and "/" not in f] if tool == "docker" else [f for f in files if os.path.splitext(f)[1]]
        if cand:
            f = r.choice(cand)
            ext = os.path.splitext(f)[1]
            nm = f if tool == "docker" else os.path.basename(f)
            # (the same pattern text may occur twice: a repeat after an exception excludes again, a repeated exception
            # re-includes again — every line counts, in order)
            seq = r.choice([["!" + nm, "*" + ext], ["*" + ext, "!" + nm, nm], ["*" + ext, "!" + nm],
                            ["*" + ext, "!" + nm, "*" + ext], ["!" + nm, "*" + ext, "!" + nm]])
            for x in seq:
                lines.append(("glob", x))
    if not any(k in ("glob", "regexp") for k, _ in lines):
        lines.append(("glob", "*.o"))
    if tool == "hg":
        lines.insert(0, ("syntax", "syntax: glob"))
    return lines


def glob_re(p):
    out = ""
    i = 0
    while i < len(p):
        if p.startswith("**/", i):
            out += "(?:.*/)?"
            i += 3
        elif p.startswith("**", i):
            out += ".*"
            i += 2
        elif p[i] == "*":
            out += "[^/]*"
            i += 1
        elif p[i] == "?":
            out += "[^/]"
            i += 1
        else:
            out += re.escape(p[i])
            i += 1
    return out


def hg_reference(lines):
    pats = []
    syn = "regexp"
    for k, t in lines:
        if k == "syntax":
            syn = t.split(":")[1].strip()
        elif k in ("glob", "regexp"):
            if syn == "glob":
                pats.append(re.compile("(?:|.*/)" + glob_re(t) + "(?:/|$)"))
            else:
                pats.append(re.compile(t if t.startswith("^") else ".*" + t))

    def ignored(rel):
        return any(p.match(rel) for p in pats)
    return ignored


def docker_reference(lines):
    pats = []
    for k, t in lines:
        if k != "glob":
            continue
        neg = t.startswith("!")
        p = t.replace("!", "") if neg else t
        p = p.lstrip("/").rstrip("/")
        pats.append((re.compile("^" + glob_re(p) + "(?:/|$)"), neg))

    def ignored(rel):
        v = False
        for rx, neg in pats:
            if rx.match(rel):
                v = not neg
        return v
    return ignored


def with_ancestors(ignored, rel):
    parts = rel.split("/")
    for i in range(1, len(parts) + 1):
        if ignored("/".join(parts[:i])):
            return True
    return False


def part_two_repos(ctx, scratch, quick):
    """several roots, each governed by its own ignore file (hg / docker; same or different tools): every root is
    filtered by the rules that apply to *it*, whatever was loaded for the roots before it"""
    for t in range(10 if quick else 300):
        r = ctx.rng.fork()
        top = os.path.join(scratch, "two%d" % t)
        repos = []
        for name in ("ra", "rb"):
            tool = r.choice(["hg", "docker"])
            repo = os.path.join(top, name)
            os.makedirs(repo)
            ents = tree(r)
            fstree.materialise(repo, ents)
            lines = gen_patterns(r, ents, tool)
            if not any(k in ("glob", "regexp") for k, _ in lines):
                files = [e["path"] for e in ents if e["kind"] == "f"]
                if files:
                    lines.append(("glob", os.path.basename(r.choice(files))))
            text = "".join(tx + "\n" for _, tx in lines)
            if tool == "hg":
                os.makedirs(os.path.join(repo, ".hg"))
                open(os.path.join(repo, ".hgignore"), "w").write(text)
            else:
                open(os.path.join(repo, ".dockerignore"), "w").write(text)
            repos.append((name, repo, tool, lines, text, hg_reference(lines) if tool == "hg" else docker_reference(lines)))
        order = repos if r.chance(1, 2) else repos[::-1]
        byopt = r.chance(2, 3)
        cfgpath = None
        if not byopt:
            cfgpath = os.path.join(scratch, "cfgtwo%d.toml" % t)
            open(cfgpath, "w").write("".join("%s = true\n" % k for k in sorted(set({"hg": "hgignore", "docker": "dockerignore"}[x[2]] for x in repos))))
        spell = (lambda x: x[0]) if r.chance(1, 2) else (lambda x: gen.quote_path(x[1]))
        trav = r.choice(["", " dfs"])
        opt = {"hg": "hgignore", "docker": "dockerignore"}
        q = "select path from %s into list" % ", ".join("%s%s%s" % (spell(x), (" " + opt[x[2]]) if byopt else "", trav) for x in order)
        qplain = "select path from %s into list" % ", ".join("%s%s" % (spell(x), trav) for x in order)
        ctx.case(("two", t, q))
        case = {"argv": [q], "cwd": "two%d" % t, "config": open(cfgpath).read() if cfgpath else None,
                "ignore_files": {x[0]: {"tool": x[2], "text": x[4]} for x in repos}}
        impl = common.run_cli([q], cwd=top, scratch=scratch, config=cfgpath)
        plain = common.run_cli([qplain], cwd=top, scratch=scratch)
        if common.panicked(impl) or impl["status"] != 0:
            ctx.oracle_fail("search of two roots with ignore rules failed", case, detail={"status": impl["status"], "err": impl["err"][:300].decode("utf-8", "replace")})
            common.rm_tree(top)
            continue
        prow = [x.decode("utf-8", "surrogateescape") for x in plain["out"].split(b"\0")[:-1]]
        rows = [x.decode("utf-8", "surrogateescape") for x in impl["out"].split(b"\0")[:-1]]
        want, unsure = [], set()
        for pth in prow:
            full = os.path.normpath(pth if os.path.isabs(pth) else os.path.join(top, pth))
            x = [y for y in repos if full == y[1] or full.startswith(y[1] + "/")][0]
            rel = os.path.relpath(full, x[1])
            # with a configuration default both keys are on: a root is filtered by every kind of ignore file it has
            ign = with_ancestors(x[5], rel)
            if ign and x[2] == "docker" and not x[5](rel):
                unsure.add(pth)
            if not ign:
                want.append(pth)
        if sorted(p for p in rows if p not in unsure) != sorted(p for p in want if p not in unsure):
            ctx.oracle_fail("several roots: a root is not filtered by exactly its own ignore file", case,
                            detail={"wrongly_omitted": sorted(set(want) - set(rows) - unsure)[:5], "wrongly_listed": sorted(set(rows) - set(want) - unsure)[:5]})
        if 0 < len(want) < len(prow):
            ctx.distinct.add(("two", t, "nt"))
        ctx.count("two_repository_cases")
        common.rm_tree(top)


def run(ctx):
    quick = ctx.tier == "quick"
    ntrees = 40 if quick else 2000
    scratch = common.new_scratch()
    genv = {"HOME": os.path.join(scratch, "home"), "PATH": "/usr/bin:/bin", "GIT_CONFIG_NOSYSTEM": "1"}
    try:
        part_two_repos(ctx, scratch, quick)
        for t in range(ntrees):
            r = ctx.rng.fork()
            tool = r.choice(["git", "hg", "docker"])
            top = os.path.join(scratch, "t%d" % t)
            repo_name = r.choice(["repo", "r.x", "a+b", "my repo", "proj(1)"])
            repo = os.path.join(top, repo_name)
            os.makedirs(repo)
            ents = tree(r)
            corpus = t == 0
            if corpus:
                # witness of D68 (fixed) first: a root inside an ignored directory, an exception naming one of its entries
                tool = "git"
                ents = [{"path": "c.zip", "kind": "d", "mode": 0o755, "mtime": 1700000000},
                        {"path": "c.zip/src.zip", "kind": "f", "size": 2, "mode": 0o644, "mtime": 1700000002},
                        {"path": "c.zip/a.txt", "kind": "f", "size": 2, "mode": 0o644, "mtime": 1700000002},
                        {"path": "top.txt", "kind": "f", "size": 2, "mode": 0o644, "mtime": 1700000002}]
            corpus2 = t == 1
            if corpus2:
                # witness of D71 (fixed): a root below a directory that an end-anchored hg regexp ignores
                tool = "hg"
                ents = [{"path": "x", "kind": "d", "mode": 0o755, "mtime": 1700000000},
                        {"path": "x/e.c", "kind": "d", "mode": 0o755, "mtime": 1700000000},
                        {"path": "x/e.c/b.o", "kind": "f", "size": 2, "mode": 0o644, "mtime": 1700000002},
                        {"path": "x/e.c/sub", "kind": "d", "mode": 0o755, "mtime": 1700000000},
                        {"path": "x/e.c/sub/z", "kind": "f", "size": 2, "mode": 0o644, "mtime": 1700000002},
                        {"path": "y", "kind": "d", "mode": 0o755, "mtime": 1700000000},
                        {"path": "y/k.c", "kind": "f", "size": 2, "mode": 0o644, "mtime": 1700000002},
                        {"path": "y/m", "kind": "f", "size": 2, "mode": 0o644, "mtime": 1700000002}]
            corpus3 = t == 2
            if corpus3:
                # witness of D72 (fixed): a docker pattern with a leading dot must not match other first characters
                tool = "docker"
                ents = [{"path": "a11", "kind": "f", "size": 2, "mode": 0o644, "mtime": 1700000002},
                        {"path": ".b1", "kind": "f", "size": 2, "mode": 0o644, "mtime": 1700000002},
                        {"path": "aenv", "kind": "f", "size": 2, "mode": 0o644, "mtime": 1700000002},
                        {"path": ".env", "kind": "f", "size": 2, "mode": 0o644, "mtime": 1700000002},
                        {"path": "x.tmp", "kind": "f", "size": 2, "mode": 0o644, "mtime": 1700000002}]
            corpus4 = t == 3
            if corpus4:
                # every line of a .dockerignore counts, in order — also a line whose text occurred before
                tool = "docker"
                ents = [{"path": nm, "kind": "f", "size": 2, "mode": 0o644, "mtime": 1700000002}
                        for nm in ("a.log", "keep.log", "README.md", "notes.md", "x.c")]
            fstree.materialise(repo, ents)
            if corpus4:
                lines_fixed = [("glob", "*.log"), ("glob", "!keep.log"), ("glob", "*.log"), ("glob", "!README.md"), ("glob", "*.md"), ("glob", "!README.md")]
            lines = (lines_fixed if corpus4 else gen_patterns(r, ents, tool)) if not (corpus or corpus2 or corpus3) else \
                ([("glob", "*.zip"), ("glob", "!src.zip")] if corpus else
                 [("syntax", "syntax: regexp"), ("regexp", "\\.c$")] if corpus2 else [("glob", ".?1"), ("glob", "/.env")])
            text = "".join(tx + "\n" for _, tx in lines)
            if tool == "git":
                subprocess.run(["git", "init", "-q", repo], env=genv, stdout=subprocess.DEVNULL, stderr=subprocess.DEVNULL)
                open(os.path.join(repo, ".gitignore"), "w").write(text)
            elif tool == "hg":
                os.makedirs(os.path.join(repo, ".hg"))
                open(os.path.join(repo, ".hgignore"), "w").write(text)
            else:
                open(os.path.join(repo, ".dockerignore"), "w").write(text)
            # sub-directory roots, also inside an ignored directory (everything below is then ignored)
            sub = [e["path"] for e in ents if e["kind"] == "d" and e["path"].count("/") <= 1]
            nested_checkout = None
            if tool == "docker":
                # a checkout nested in the build context (a `.git` directory in a sub-directory that has no .dockerignore of
                # its own): the context's .dockerignore still applies to a search started there
                cand = [x for x in sub if "/" not in x and all(ch.isalnum() or ch in "._" for ch in x)]
                if cand and r.chance(2, 3):
                    nested_checkout = cand[0]
                    os.makedirs(os.path.join(repo, nested_checkout, ".git", "refs"), exist_ok=True)
                    open(os.path.join(repo, nested_checkout, ".git", "HEAD"), "w").write("ref: refs/heads/main\n")
                    ctx.count("docker_nested_checkout")
            # (for the root spellings that are not canonical: a directory next to the repository, links to it and into it)
            os.makedirs(os.path.join(top, "elsewhere"), exist_ok=True)
            os.symlink(repo_name, os.path.join(top, "lnk-repo"))
            plain_sub = [x for x in sub if "/" not in x and all(ch.isalnum() or ch in "._" for ch in x)]
            if plain_sub:
                os.symlink(os.path.join(repo_name, plain_sub[0]), os.path.join(top, "lnk-sub"))
            snap = corr.Snap(scratch, None, root=top)
            roots = [(".", repo, ""), (gen.quote_path(repo), top, ""), (gen.quote_path(repo_name), top, "")]
            # spellings that are not canonical: through `..`, and through a symbolic link that lives outside the repository
            roots.append((gen.quote_path("../" + repo_name), os.path.join(top, "elsewhere"), ""))
            roots.append(("lnk-repo", top, ""))
            if sub:
                sd = r.choice(sub)
                if plain_sub and (r.chance(1, 2) or nested_checkout):
                    sd = plain_sub[0]
                roots.append((".", os.path.join(repo, sd), sd))
                if "/" not in sd and all(ch.isalnum() or ch in "._" for ch in sd):
                    roots.append(("%s/../%s" % (sd, sd), repo, sd))
                    if os.path.realpath(os.path.join(top, "lnk-sub")) == os.path.realpath(os.path.join(repo, sd)):
                        roots.append(("lnk-sub", top, sd))
                if any(e["path"] == "build" for e in ents) and r.chance(1, 2):
                    roots.append((r.choice([".", gen.quote_path(os.path.join(repo, "build"))]), os.path.join(repo, "build"), "build"))
            opt = {"git": ["gitignore", "git"], "hg": ["hgignore", "hg"], "docker": ["dockerignore", "dock"]}[tool]
            key = {"git": "gitignore", "hg": "hgignore", "docker": "dockerignore"}[tool]
            # reference verdict per entry (relative to the repository)
            if tool == "git":
                gi = {n["rel"][len(repo_name) + 1:]: bool(n["facts"].get("gitign")) for n in snap.nodes if n["rel"].startswith(repo_name + "/")}
                ref = lambda rel: gi.get(rel, False)  # noqa: E731
            elif tool == "hg":
                ref = hg_reference(lines)
            else:
                ref = docker_reference(lines)
            chosen = r.sample(roots, min(len(roots), 2 if quick else 4))
            if corpus:
                chosen = [(".", os.path.join(repo, "c.zip"), "c.zip"), (".", repo, "")]
            if corpus3 or corpus4:
                chosen = [(".", repo, "")]
            if corpus2:
                chosen = [(".", os.path.join(repo, "x", "e.c"), "x/e.c"), (".", os.path.join(repo, "x", "e.c", "sub"), "x/e.c/sub"), (".", repo, "")]
            for spelled, cwd, subrel in chosen:
                trav = r.choice(["", " dfs", " bfs"])
                mode = r.below(3)
                cfg = None
                cfgpath = None
                if mode == 0:
                    q = "select path from %s %s%s into list" % (spelled, r.choice(opt), trav)
                    active = True
                elif mode == 1:
                    cfg = {key: True}
                    q = "select path from %s%s into list" % (spelled, trav)
                    active = True
                else:
                    cfg = {key: True}
                    q = "select path from %s no%s%s into list" % (spelled, opt[1] if r.chance(1, 2) else opt[0], trav)
                    active = False
                if cfg is not None:
                    cfgpath = os.path.join(scratch, "cfg%d.toml" % t)
                    open(cfgpath, "w").write("%s = true\n" % key)
                if ctx.model_ok:
                    snap.send(ctx.model, cwd, cfg=cfg)
                ctx.case((t, tool, q, text))
                ctx.hist("tool", tool)
                ctx.hist("mode", ["option", "config-default", "no-override"][mode])
                case = {"argv": [q], "cwd": os.path.relpath(cwd, top), "tool": tool, "ignore_file": text, "config": cfg,
                        "tree": [e["path"] for e in ents][:40]}
                m, impl = corr.run_case(ctx, snap, [q], fmt="list", ncols=1, cwd=cwd, config=cfgpath, extra={"ignore_file": text, "tool": tool})
                if common.panicked(impl) or impl["status"] != 0:
                    ctx.oracle_fail("search with ignore rules failed", case, detail={"status": impl["status"], "err": impl["err"][:300].decode("utf-8", "replace")})
                    continue
                plain = common.run_cli(["select path from %s%s into list" % (spelled, trav)], cwd=cwd, scratch=scratch)
                prow = [x.decode("utf-8", "surrogateescape") for x in plain["out"].split(b"\0")[:-1]]
                rows = [x.decode("utf-8", "surrogateescape") for x in impl["out"].split(b"\0")[:-1]]

                def rel_of(p):
                    # the entry's own location: the real directory it sits in, plus its name
                    full = p if os.path.isabs(p) else os.path.join(cwd, p)
                    full = os.path.join(os.path.realpath(os.path.dirname(full)), os.path.basename(full))
                    return os.path.relpath(full, os.path.realpath(repo))
                if active:
                    want = [p for p in prow if not with_ancestors(ref, rel_of(p))]
                    # libgit2 treats the repository's own .git directory as ignored
                    if tool == "git":
                        want = [p for p in want if not (rel_of(p) == ".git" or rel_of(p).startswith(".git/"))]
                    if 0 < len(want) < len(prow):
                        ctx.distinct.add((t, tool, q, text, "nt"))
                else:
                    want = prow
                # Docker: an exception pattern naming an entry below an excluded directory.  The statement gives two
                # readings (an ignored ancestor omits it / a later negated pattern re-includes it) and Docker itself
                # re-includes; such rows are not judged either way (counted, see DESIGN.md 0.6)
                unsure = set()
                if active and tool == "docker":
                    unsure = {p for p in prow if with_ancestors(ref, rel_of(p)) and not ref(rel_of(p))}
                    if unsure:
                        ctx.count("docker_exception_below_excluded_directory_rows", len(unsure))
                if sorted(x for x in rows if x not in unsure) != sorted(x for x in want if x not in unsure):
                    miss = sorted(set(want) - set(rows) - unsure)[:5]
                    extra = sorted(set(rows) - set(want) - unsure)[:5]
                    ctx.oracle_fail("rows are not the plain rows minus exactly the entries the %s rules ignore" % tool, case,
                                    detail={"wrongly_omitted": miss, "wrongly_listed": extra})
                ctx.sample({"argv": [q], "tool": tool, "ignore_file": text, "rows": len(rows), "plain_rows": len(prow)}, every=7)
            common.rm_tree(top)
    finally:
        common.rm_tree(scratch)
