"""C15: expressions follow arithmetic rules and each column is evaluated on its own."""
import math
import os

import common
import corr
import fstree

RULE = ("arithmetic expressions of depth <= 4 over integer literals, size, hardlinks, length(name), abs/least/greatest "
        "calls, with + - * / % and unary minus, rendered with minimal or redundant brackets and varying spacing; "
        "select lists of 1..5 expressions including pairs that differ only in one operator, in bracket placement or "
        "in a later function argument; on generated trees. (a) CLI correspondence with the Lean model (parser + "
        "evaluator, byte-exact up to float rendering); (b) oracle: every cell equals the IEEE-754 value of the "
        "expression computed independently in Python from lstat (usual precedence, left associativity); (c) each "
        "column's cells equal those of the query selecting that column alone, and of the same list reversed; (d) "
        "`where E op n` returns exactly the entries whose independently computed value satisfies the comparison. "
        "distinct = (tree, argv); nontrivial = the list has >= 2 columns sharing a sub-expression or differing in one "
        "token")

OPS = ["+", "-", "*", "/", "%"]
PREC = {"+": 1, "-": 1, "*": 2, "/": 2, "%": 2}


class Node:
    pass


def gen_expr(r, depth):
    """AST: ('lit', n) | ('col', name) | ('len',) | ('neg', atom) | ('bin', op, l, r) | ('call', fn, [args])"""
    if depth <= 0 or r.chance(1, 4):
        k = r.below(10)
        if k < 4:
            return ("lit", r.choice([0, 1, 2, 3, 5, 7, 10, 12, 100, 255, 1024, 4096, 99999]))
        if k < 6:
            return ("col", "size")
        if k < 7:
            return ("col", "hardlinks")
        if k < 8:
            return ("len",)
        if k < 9:
            return ("neg", r.choice([("lit", r.choice([1, 2, 3, 10])), ("col", "size"), ("len",)]))
        return ("lit", r.choice([4, 6, 8]))
    if r.chance(1, 7):
        fn = r.choice(["abs", "least", "greatest"])
        n = 1 if fn == "abs" else r.range(2, 3)
        return ("call", fn, [gen_expr(r, depth - 1) for _ in range(n)])
    return ("bin", r.choice(OPS), gen_expr(r, depth - 1), gen_expr(r, depth - 1))


def render(r, e, parent_prec=0, right_side=False, extra=True):
    k = e[0]
    if k == "lit":
        return str(e[1])
    if k == "col":
        return e[1]
    if k == "len":
        return "length(name)"
    if k == "neg":
        return "-" + render(r, e[1], 3)
    if k == "call":
        return "%s(%s)" % (e[1], ", ".join(render(r, a, 0) for a in e[2]))
    op, l, rr = e[1], e[2], e[3]
    p = PREC[op]
    sp = r.choice([" ", " ", ""]) if op != "-" else " "
    # a leading-minus operand directly after an operator needs the space to stay unambiguous: always spaced
    txt = render(r, l, p, False) + " " + op + " " + render(r, rr, p, True)
    need = p < parent_prec or (p == parent_prec and right_side)
    if need or (extra and r.chance(1, 6)):
        # inside brackets an operation on two plain operands may be written without blanks: `(size*2)`, `(2*size)`
        if extra and op in ("*", "/", "%", "+") and l[0] in ("col", "lit", "len") and rr[0] in ("col", "lit") and r.chance(1, 2) \
                and not (l[0] == "lit" and (str(l[1]).startswith("-") or "." in str(l[1]))) and not (rr[0] == "lit" and (str(rr[1]).startswith("-") or "." in str(rr[1]))):
            return "(" + render(r, l, p, False) + op + render(r, rr, p, True) + ")"
        return "(" + txt + ")"
    return txt


def fmod(a, b):
    if math.isnan(a) or math.isnan(b) or math.isinf(a) or b == 0:
        return float("nan")
    if math.isinf(b):
        return a
    return math.fmod(a, b)


def evaluate(e, st, name):
    k = e[0]
    if k == "lit":
        return float(e[1])
    if k == "col":
        return float(st.st_size if e[1] == "size" else st.st_nlink)
    if k == "len":
        return float(len(name))
    if k == "neg":
        v = evaluate(e[1], st, name)
        if e[1][0] == "lit":
            return -v           # "-3" is the literal text parsed as a number
        return 0.0 - v
    if k == "call":
        vs = [evaluate(a, st, name) for a in e[2]]
        if e[1] == "abs":
            return abs(vs[0])
        # Rust f64::min / max ignore NaN operands
        acc = vs[0]
        for v in vs[1:]:
            if math.isnan(v):
                continue
            if math.isnan(acc):
                acc = v
            else:
                acc = min(acc, v) if e[1] == "least" else max(acc, v)
        return acc
    op = e[1]
    a, b = evaluate(e[2], st, name), evaluate(e[3], st, name)
    try:
        if op == "+":
            return a + b
        if op == "-":
            return a - b
        if op == "*":
            return a * b
        if op == "/":
            if b == 0:
                if a == 0 or math.isnan(a):
                    return float("nan")
                return math.copysign(float("inf"), a) * (math.copysign(1.0, b))
            return a / b
        return fmod(a, b)
    except OverflowError:
        return float("inf")


def exact(e, st, name):
    """the value in ℚ (no rounding), or None where ℚ has no value (division by zero, NaN operands)"""
    from fractions import Fraction
    k = e[0]
    if k == "lit":
        return Fraction(str(e[1]))
    if k == "col":
        return Fraction(st.st_size if e[1] == "size" else st.st_nlink)
    if k == "len":
        return Fraction(len(name))
    if k == "neg":
        v = exact(e[1], st, name)
        return None if v is None else -v
    if k == "call":
        vs = [exact(a, st, name) for a in e[2]]
        if any(v is None for v in vs):
            return None
        return abs(vs[0]) if e[1] == "abs" else (min(vs) if e[1] == "least" else max(vs))
    a, b = exact(e[2], st, name), exact(e[3], st, name)
    if a is None or b is None:
        return None
    op = e[1]
    if op == "+":
        return a + b
    if op == "-":
        return a - b
    if op == "*":
        return a * b
    if b == 0:
        return None
    if op == "/":
        return a / b
    q = a / b
    t = q.numerator // q.denominator if q >= 0 else -((-q.numerator) // q.denominator)
    return a - t * b


def ill_conditioned(e, st, name):
    """a `%` applied to a non-integral (rounded) operand: the result is discontinuous in the operands, and the
    model, which computes in ℚ and only tracks *that* a value was rounded, cannot predict it; likewise a division
    by negative zero (the independent IEEE evaluation in this file still judges these cells)"""
    k = e[0]
    if k in ("lit", "col", "len"):
        return False
    if k == "neg":
        return ill_conditioned(e[1], st, name)
    if k == "call":
        return any(ill_conditioned(a, st, name) for a in e[2])
    if ill_conditioned(e[2], st, name) or ill_conditioned(e[3], st, name):
        return True
    if e[1] == "/":
        d = evaluate(e[3], st, name)
        if d == 0 and math.copysign(1.0, d) < 0:
            return True         # division by negative zero: ℚ has no signed zero
    if e[1] == "%":
        # any rounding inside an operand makes the result unpredictable for the model (which re-reads cached
        # intermediate values from their printed text), even when the f64 operand comes out integral or exact
        for sub in (e[2], e[3]):
            v = evaluate(sub, st, name)
            if math.isnan(v) or math.isinf(v):
                continue
            if v != int(v) or rounded_inside(sub, st, name):
                return True
    return False


def rounded_inside(e, st, name):
    """does any sub-expression of `e` have an f64 value different from its value in ℚ?"""
    from fractions import Fraction
    v = evaluate(e, st, name)
    if not (math.isnan(v) or math.isinf(v)):
        x = exact(e, st, name)
        if x is None or Fraction(v) != x:
            return True
    k = e[0]
    if k in ("lit", "col", "len"):
        return False
    if k == "neg":
        return rounded_inside(e[1], st, name)
    if k == "call":
        return any(rounded_inside(a, st, name) for a in e[2])
    return rounded_inside(e[2], st, name) or rounded_inside(e[3], st, name)


def cell_value(cell):
    t = cell.decode("utf-8", "replace")
    if t == "NaN":
        return float("nan")
    if t in ("inf", "-inf"):
        return float(t)
    try:
        return float(t)
    except ValueError:
        return None


def same(a, b):
    if a is None or b is None:
        return False
    if math.isnan(a) and math.isnan(b):
        return True
    return a == b


def variant_of(r, e):
    """an expression differing from e in exactly one operator, bracket placement or a later function argument"""
    k = e[0]
    if k == "bin":
        c = r.below(3)
        if c == 0:
            return ("bin", r.choice([o for o in OPS if o != e[1]]), e[2], e[3])
        if c == 1 and e[3][0] == "bin":
            # (a op (b op2 c)) -> ((a op b) op2 c)
            return ("bin", e[3][1], ("bin", e[1], e[2], e[3][2]), e[3][3])
        return ("bin", e[1], variant_of(r, e[2]), e[3])
    if k == "call" and len(e[2]) > 1:
        args = list(e[2])
        args[-1] = ("lit", r.choice([1, 2, 77]))
        return ("call", e[1], args)
    if k == "lit":
        return ("lit", e[1] + 1)
    return ("bin", "+", e, ("lit", 1))


def rows_of(out, w):
    vals = out.split(b"\0")
    if vals and vals[-1] == b"":
        vals = vals[:-1]
    if w == 0 or len(vals) % w:
        return None
    return [vals[i:i + w] for i in range(0, len(vals), w)]


def run(ctx):
    quick = ctx.tier == "quick"
    ntrees = 10 if quick else 200
    per_tree = 25 if quick else 60
    scratch = common.new_scratch()
    try:
        # the known display-text collision (D62) is reproduced first: it must stay a known finding, nothing else
        d62 = os.path.join(scratch, "d62")
        os.makedirs(d62)
        open(os.path.join(d62, "f"), "w").close()
        q = "select concat('x, y'), concat('x', 'y') from . into list"
        r0 = common.run_cli([q], cwd=d62, scratch=scratch)
        ctx.case(("d62", q))
        cells = r0["out"].split(b"\0")[:2]
        if cells != [b"x, y", b"xy"]:
            ctx.oracle_fail("two different calls with the same display text share one cached value", {"argv": [q]}, finding="D62",
                            detail={"got": [c.decode() for c in cells], "want": ["x, y", "xy"]})
        for t in range(ntrees):
            r = ctx.rng.fork()
            ents = fstree.gen_tree(r, max_entries=r.choice([3, 8, 14]), kinds="fd")
            snap = corr.Snap(scratch, ents, subdir="t%d" % t)
            stats = {n["rel"]: os.lstat(os.path.join(snap.root, n["rel"])) for n in snap.nodes}
            for _ in range(per_tree):
                n = r.range(1, 5)
                exprs = [gen_expr(r, r.range(1, 4)) for _ in range(n)]
                nontrivial = False
                if n >= 2 and r.chance(2, 3):
                    j = r.below(n - 1)
                    exprs[j + 1] = variant_of(r, exprs[j])
                    nontrivial = True
                if n >= 3 and r.chance(1, 3):
                    exprs[-1] = ("bin", r.choice(OPS), exprs[0], ("lit", r.choice([1, 2, 3])))     # shares a sub-expression
                    nontrivial = True
                texts = [render(r, e) for e in exprs]
                if len(set(texts)) != len(texts):
                    continue
                q = "select path, %s from . into list" % ", ".join(texts)
                ctx.case((t, q))
                if nontrivial:
                    ctx.distinct.add((t, q, "nt"))
                ctx.hist("columns", n)
                case = {"argv": [q], "tree": [x["rel"] for x in snap.nodes][:30]}
                shaky = any(ill_conditioned(e, st, os.path.basename(rel)) for e in exprs for rel, st in stats.items())
                if shaky:
                    ctx.count("model_abstains_ill_conditioned_modulo")
                    impl = common.run_cli([q], cwd=snap.root, scratch=scratch)
                else:
                    m, impl = corr.run_case(ctx, snap, [q], fmt="list", ncols=n + 1)
                if impl["status"] != 0 or common.panicked(impl):
                    ctx.oracle_fail("arithmetic query rejected or crashed", case, detail={"status": impl["status"], "err": impl["err"][:300].decode("utf-8", "replace")})
                    continue
                rows = rows_of(impl["out"], n + 1)
                if rows is None:
                    continue
                bad = None
                for row in rows:
                    rel = row[0].decode("utf-8", "replace")[2:]
                    st = stats.get(rel)
                    if st is None:
                        continue
                    nm = os.path.basename(rel)
                    for j, e in enumerate(exprs):
                        want = evaluate(e, st, nm)
                        got = cell_value(row[j + 1])
                        if not same(got, want):
                            bad = {"entry": rel, "expression": texts[j], "got": row[j + 1].decode("utf-8", "replace"), "want": repr(want)}
                            break
                    if bad:
                        break
                if bad:
                    ctx.oracle_fail("a cell differs from the arithmetic value of its expression", case, detail=bad)
                    continue
                # (c) each column alone, and the list reversed
                if n >= 2:
                    rq = "select path, %s from . into list" % ", ".join(reversed(texts))
                    rv = common.run_cli([rq], cwd=snap.root, scratch=scratch)
                    rrows = rows_of(rv["out"], n + 1)
                    if rrows is None or [[x[0]] + list(reversed(x[1:])) for x in rrows] != rows:
                        ctx.oracle_fail("values change when the select list is reversed", {"argv": [q], "reversed": [rq]},
                                        detail={"rows": len(rows), "rows_reversed": None if rrows is None else len(rrows)})
                        continue
                    j = r.below(n)
                    sq = "select path, %s from . into list" % texts[j]
                    sv = common.run_cli([sq], cwd=snap.root, scratch=scratch)
                    srows = rows_of(sv["out"], 2)
                    if srows is None or [x[1] for x in srows] != [x[j + 1] for x in rows]:
                        ctx.oracle_fail("a column's values differ from the query that selects it alone", {"argv": [q], "alone": [sq]},
                                        detail={"column": texts[j]})
                        continue
                # (d) WHERE on an expression
                e = exprs[r.below(n)]
                # a bare literal on the left is compared as text (C02/C03 territory), not as an arithmetic value
                if r.chance(1, 2) and e[0] != "lit" and not (e[0] == "neg" and e[1][0] == "lit"):
                    te = render(r, e, extra=False)
                    op = r.choice(["=", "!=", ">", ">=", "<", "<="])
                    lit = r.choice([0, 1, 2, 3, 10, 100, 1000, 4096])
                    wq = "select path from . where %s %s %d into list" % (te, op, lit)
                    ctx.case((t, wq))
                    if any(ill_conditioned(e, st, os.path.basename(rel)) for rel, st in stats.items()):
                        wi = common.run_cli([wq], cwd=snap.root, scratch=scratch)
                    else:
                        mw, wi = corr.run_case(ctx, snap, [wq], fmt="list", ncols=1)
                    if wi["status"] != 0:
                        ctx.oracle_fail("WHERE on an expression rejected", {"argv": [wq]}, detail={"status": wi["status"], "err": wi["err"][:200].decode("utf-8", "replace")})
                        continue
                    got = sorted(x.decode("utf-8", "replace") for x in wi["out"].split(b"\0")[:-1])
                    want = []
                    unsure = False
                    for rel, st in stats.items():
                        v = evaluate(e, st, os.path.basename(rel))
                        if math.isnan(v) or math.isinf(v) or v != int(v):
                            unsure = True       # comparison of non-integral values goes through text/int coercions: left to the model
                            break
                        ok = {"=": v == lit, "!=": v != lit, ">": v > lit, ">=": v >= lit, "<": v < lit, "<=": v <= lit}[op]
                        if ok:
                            want.append("./" + rel)
                    if not unsure and got != sorted(want):
                        ctx.oracle_fail("WHERE on an expression does not select the entries whose value satisfies it", {"argv": [wq]},
                                        detail={"got": got[:10], "want": sorted(want)[:10]})
                ctx.sample({"argv": [q], "rows": len(rows)}, every=17)
            common.rm_tree(snap.root)
    finally:
        common.rm_tree(scratch)
