"""C12: glob, LIKE, exact and regex matching agree with their textbook definitions."""
import re

import common
import corr
import fstree
import oracle

RULE = ("file names over an alphabet with letters of both cases, digits, space and every regex metacharacter that can "
        "occur in a name (. + ( ) [ ] { } | ^ $ - , ' # ~ & \\ *) x patterns formed from such names by replacing "
        "substrings with wildcards, changing case or editing characters x the eight matching operators; thorough: all "
        "(pattern, subject) pairs over a 6-character alphabet up to length 4 in-process. (a) in-process: pattern "
        "conversion text model vs implementation, model matcher vs the real regex crate; model-internal test that "
        "rxParse(converted pattern) is the atom chain of the theorems; CLI rows vs model; (b) oracle: a 3-line Python "
        "reference matcher (and `re` for the regex operators). distinct = (operator, pattern, subject-set); "
        "nontrivial = pattern matches some but not all subjects")

# `*` and `?` are ordinary characters for LIKE, `%` and `_` for glob: all four occur in names and patterns
ALPHA = list("abAB1 .+()[]{}|^$-,'#~&_%*?<>=!:;@`\"") + ["\\", "é", "Ж", "\n"]
WILD = {"eq": "*?", "ne": "*?", "like": "%_", "notlike": "%_"}


def rand_name(r):
    n = r.range(1, 6)
    s = "".join(r.choice(ALPHA) for _ in range(n))
    if s in (".", "..") or "/" in s or "\0" in s:
        return "n"
    return s


def derive_pattern(r, name, wild):
    s = list(name)
    for _ in range(r.range(0, 2)):
        if s:
            i = r.below(len(s))
            k = r.below(5)
            if k == 0:
                s[i] = wild[0]
            elif k == 1:
                s[i] = wild[1]
            elif k == 2:
                j = r.range(i, len(s))
                s[i:j] = [wild[0]]
            elif k == 3:
                s[i] = s[i].swapcase()
            else:
                s[i] = r.choice(ALPHA)
    return "".join(s)


def quote(lit):
    for q in "'\"`":
        if q not in lit:
            return q + lit + q
    return None


def run(ctx):
    quick = ctx.tier == "quick"
    r = ctx.rng
    # (1) in-process: conversion + matching, model vs the real crate; model-internal shape test
    if ctx.harness_ok and ctx.model_ok:
        n = 4000 if quick else 60000
        pairs = []
        if not quick:
            small = list("a*?.+B")
            import itertools
            pats = ["".join(p) for k in range(0, 4) for p in itertools.product(small, repeat=k)]
            subs = ["".join(p) for k in range(0, 4) for p in itertools.product("ab.+B", repeat=k)]
            for p in pats:
                for s in r.sample(subs, 25):
                    pairs.append(("glob", p, s))
        for i in range(n):
            kind = r.choice(["glob", "like"])
            name = rand_name(r)
            pat = derive_pattern(r, name, "*?" if kind == "glob" else "%_")
            subj = name if r.chance(1, 2) else rand_name(r)
            pairs.append((kind, pat, subj))
        for i_pair, (kind, pat, subj) in enumerate(pairs):
            ctx.case((kind, pat, subj))
            a = ctx.model.ask("fn\t" + kind, pat)
            b = ctx.harness.ask(kind, pat)
            same_text = a == b
            if not same_text:
                ctx.disagree("%sToPattern (model) = convert_%s_to_pattern (implementation)" % (kind, kind), {"pattern": pat},
                             common.unhx(a).decode("utf-8", "replace"), common.unhx(b).decode("utf-8", "replace") if not b.startswith("died") else b)
                if b.startswith("died"):
                    continue
            rx = common.unhx(b).decode("utf-8")
            # subjects: the given one, and the pattern's own minimal instances (every `*` empty; every `?` one
            # character, or none — the second must NOT match when the pattern has a `?`)
            w_any, w_one = ("*", "?") if kind == "glob" else ("%", "_")
            subjects = [subj, pat.replace(w_any, "").replace(w_one, "x"), pat.replace(w_any, "").replace(w_one, "")]
            for sj in subjects if (not same_text or i_pair % 5 == 0) else subjects[:1]:
                if "\0" in sj:
                    continue
                mb = ctx.harness.ask("rxmatch", rx, sj)
                if same_text:
                    ma = ctx.model.ask("fn\trxmatch", rx, sj)
                    if ma == "unsupported":
                        ctx.count("rx_unsupported")
                    elif ma != mb:
                        ctx.disagree("Re.isMatch ∘ rxParse (model) = Regex::is_match (regex crate)", {"regex": rx, "subject": sj}, ma, mb)
                want = oracle.glob_match(pat, sj) if kind == "glob" else oracle.like_match(pat, sj)
                if mb in ("true", "false") and (mb == "true") != want:
                    ctx.oracle_fail("%s pattern does not match per the textbook definition" % kind,
                                    {"pattern": pat, "subject": sj, "level": "in-process convert + Regex::is_match"},
                                    detail={"regex": rx, "got": mb, "want": want})
            sh = ctx.model.ask("fn\tglobshape", kind, pat)
            if sh != "same":
                ctx.disagree("model-internal test: rxParse (converted pattern) = anchored atom chain of C12's theorems",
                             {"kind": kind, "pattern": pat}, sh, "same")
        # user regexes on the modelled fragment
        for i in range(600 if quick else 6000):
            name = rand_name(r)
            alnum = "".join(c for c in name if c.isalnum()) or "a"
            rx = r.choice(["^" + re.escape(alnum), re.escape(alnum[:2]) + "$", alnum[:1] + ".*", "[a-b]+", "[^a]", "a|B", "(ab)+", "a{2}", "\\.", "\\d", "^$", "a?b", "(?i)AB"])
            subj = r.choice([name, rand_name(r), alnum])
            ctx.case(("rx", rx, subj))
            ma = ctx.model.ask("fn\trxmatch", rx, subj)
            mb = ctx.harness.ask("rxmatch", rx, subj)
            if ma == "unsupported":
                ctx.count("rx_unsupported")
            elif ma != mb:
                ctx.disagree("Re.isMatch ∘ rxParse (model) = Regex::is_match (regex crate)", {"regex": rx, "subject": subj}, ma, mb)
    # (2) CLI: one directory of subjects per run, eight operators
    scratch = common.new_scratch()
    try:
        rounds = 8 if quick else 60
        for rd in range(rounds):
            rr = ctx.rng.fork()
            names = []
            for _ in range(40):
                nm = rand_name(rr)
                if nm not in names:
                    names.append(nm)
            ents = [{"path": nm, "kind": "f", "size": 1, "mode": 0o644, "mtime": 1700000000} for nm in names]
            snap = corr.Snap(scratch, ents, subdir="t%d" % rd, content_facts=False)
            for _ in range(24 if quick else 60):
                opk = rr.choice(["=", "!=", "like", "notlike", "not like", "===", "!==", "=~", "!=~"])
                kind = oracle.OPK[opk]
                base = rr.choice(names)
                if kind in WILD and rr.chance(1, 4) and len(base) >= 1:
                    # one wildcard whose fixed prefix and suffix overlap in the name: `ab*ab` must not match `ab`
                    i = rr.range(1, len(base))
                    j = rr.range(0, i - 1) if i > 0 else 0
                    lit = base[:i] + WILD[kind][0] + base[j:]
                    if rr.chance(1, 3):
                        lit = lit.swapcase()
                elif kind in WILD:
                    lit = derive_pattern(rr, base, WILD[kind])
                elif kind in ("eeq", "ene"):
                    lit = base if rr.chance(1, 2) else derive_pattern(rr, base, "*?")
                else:
                    alnum = "".join(c for c in base if c.isalnum()) or "a"
                    lit = rr.choice(["^" + re.escape(alnum), re.escape(base) + "$", alnum[:1] + ".", "[a-bA]", "^.$"])
                ql = quote(lit)
                if ql is None:
                    continue
                q = "select name from . where name %s %s into list" % (opk, ql)
                ctx.case(("cli", opk, lit, rd))
                ctx.hist("operator", kind)
                m, impl = corr.run_case(ctx, snap, [q], fmt="list", ncols=1)
                case = {"argv": [q], "names": names[:40]}
                if impl["status"] != 0:
                    if kind in ("rx", "notrx") and impl["status"] == 2:
                        continue
                    ctx.oracle_fail("pattern query failed", case, detail={"status": impl["status"], "err": impl["err"][:200].decode("utf-8", "replace")})
                    continue
                got = set(impl["out"].split(b"\0")[:-1])
                want = set()
                ok = True
                for n in snap.nodes:
                    h = oracle.holds(n, "name", "text", opk, lit)
                    if h is None:
                        ok = False
                        break
                    if h:
                        want.add(n["name"].encode())
                if not ok:
                    continue
                if 0 < len(want) < len(names):
                    ctx.distinct.add(("cli", opk, lit, rd, "nt"))
                if got != want:
                    ctx.oracle_fail("rows differ from the textbook meaning of the matching operator", case,
                                    detail={"operator": opk, "pattern": lit, "extra": sorted(x.decode("utf-8", "replace") for x in got - want)[:5],
                                            "missing": sorted(x.decode("utf-8", "replace") for x in want - got)[:5]})
                ctx.sample({"argv": [q], "rows": len(got)}, every=17)
            # two pattern atoms in one query: same text under different operator families, or differing
            # only in letter case (the compiled-pattern cache must not confuse them)
            for _ in range(10 if quick else 30):
                base = rr.choice(names)
                alnum = "".join(c for c in base if c.isalpha()) or "ab"
                k = rr.below(4)
                if k == 0:
                    p1, p2 = "^" + alnum[:2], "^" + alnum[:2].swapcase()
                    atoms = [("=~", p1), ("=~", p2)]
                elif k == 1:
                    p1 = alnum[:1] + "*"
                    atoms = [("=", p1), ("=~", p1)]
                elif k == 2:
                    p1 = "%" + alnum[:1]
                    atoms = [("like", p1), ("=", p1.replace("%", "*")), ("=~", p1)]
                else:
                    p1 = "[" + alnum[:1] + "]"
                    atoms = [("=~", p1), ("!=~", p1.swapcase()), ("=", p1)]
                conn = rr.choice([" or ", " and "])
                parts = []
                okq = True
                for opk, lit in atoms:
                    ql = quote(lit)
                    if ql is None:
                        okq = False
                    parts.append("name %s %s" % (opk, ql))
                if not okq:
                    continue
                q = "select name from . where " + conn.join(parts) + " into list"
                ctx.case(("cli2", q, rd))
                m, impl = corr.run_case(ctx, snap, [q], fmt="list", ncols=1)
                if impl["status"] != 0:
                    continue
                got = set(impl["out"].split(b"\0")[:-1])
                want = set()
                undec = False
                for n in snap.nodes:
                    vals = [oracle.holds(n, "name", "text", opk, lit) for opk, lit in atoms]
                    if any(v is None for v in vals):
                        undec = True
                        break
                    if (any(vals) if conn == " or " else all(vals)):
                        want.add(n["name"].encode())
                if undec:
                    continue
                ctx.distinct.add(("cli2", q, rd))
                if got != want:
                    ctx.oracle_fail("two pattern atoms in one query interfere (rows differ from combining their separate meanings)",
                                    {"argv": [q], "names": names[:40]},
                                    detail={"extra": sorted(x.decode("utf-8", "replace") for x in got - want)[:5],
                                            "missing": sorted(x.decode("utf-8", "replace") for x in want - got)[:5]})
            common.rm_tree(snap.root)
    finally:
        common.rm_tree(scratch)
