"""C10: any command line terminates with status 0, 1 or 2 — never a crash or a hang."""
import json
import os

import common
import fstree
import gen
from common import Rng

RULE = ("argument vectors: grammar-generated queries, token-level mutations (delete/duplicate/transpose/truncate/"
        "insert), token soups of length 1..16 over keywords/operators/brackets/quotes/numbers/globs/paths, and every "
        "scalar function applied to ill-typed/out-of-range arguments, typed columns compared with literals at and beyond "
        "the edge of what the column type can interpret (overflowing size units, impossible dates, regex/glob "
        "fragments); (a) model-vs-Rust Parser::parse in-process "
        "(structural JSON comparison), (b) the dev binary on a small tree incl. a FIFO: status in {0,1,2}, no panic "
        "marker, no timeout, parse-time rejection prints no row. distinct = distinct argv; nontrivial = all "
        "(every argv reaches the lexer)")

FUNCS = ["lower", "upper", "initcap", "length", "to_base64", "from_base64", "concat", "concat_ws", "substr",
         "replace", "trim", "ltrim", "rtrim", "bin", "hex", "oct", "abs", "power", "sqrt", "log", "ln", "exp", "least",
         "greatest", "format_size", "format_time", "year", "month", "day", "dow", "coalesce", "random", "contains",
         "has_xattr", "xattr", "has_cap", "contains_japanese", "curdate", "min", "max", "avg", "sum", "count",
         "stddev_pop", "var_samp"]
BAD_ARGS = ["x", "''", "-1", "0", "1.5", "99999999999999999999", "-2147483648", "2147483648", "name", "size", "'%'",
            "'%.99999999999'", "'%.3 q'", "'2024-13-45'", "'2024-02-29 25:61:61'", "'-x'", "'+999'", "modified",
            "'٣'", "-9223372036854775808", "9223372036854775807", "'NaN'", "'inf'", "1e400", "''''", "'62:36'", "'691PM'", "'23.68'",
            "'next friday'"]


# literals at and beyond the edges of what a typed column can interpret
EDGE_LITS = ["16777216t", "18446744073709551615k", "18446744073709551616", "18446744073709551615kb", "9223372036854775807m",
             "17179869184g", "18014398509481984kib", "99999999999999999999g", "1e30k", "1e400", "-1k", "1.5.5m", "0x10", "k", "mb",
             "1 k", "٣k", "9999-12-31", "0000-01-01", "2024-02-30", "2024-12-31 24:00:00", "262143-01-01", "+99999999999",
             "-99999999999", "yesterdayy", "tru", "2", "-0", "1e5", "00000000000000000000001", "4294967296", "0o777", "-rwx",
             "rwxrwxrwxrwx", "%", "[", "(", "a{99999}", "\\", "*{", "?{1,2}",
             "62:36", "691PM", "23.68", "1537.5", "25 dec 2024", "next friday", "99/99/9999", "12:60am", "0:0:61", "31 feb", "-11.70", "24:00"]
EDGE_COLS = ["size", "size", "size", "fsize", "modified", "is_dir", "mode", "name", "uid", "hardlinks", "line_count", "path", "ext",
             "user_read", "accessed", "length(name)", "size + 1", "is_symlink", "blocks"]
EDGE_OPS = ["=", "!=", ">", "<", ">=", "<=", "===", "like", "=~", "between", "in", "not like"]


def canon_parse(resp):
    if resp.startswith("ok "):
        return ("ok", json.loads(resp[3:]))
    if resp.startswith("err unsupported"):
        return ("unsupported",)           # the model abstains (e.g. `~` expansion of a root needs the user database)
    if resp.startswith("err msg"):
        return ("err",)
    return (resp.split(" ")[0][:20],)


def gen_argv(r):
    k = r.below(10)
    if k < 3:
        g = gen.QGen(r, roots=[".", "d1", "./d1"])
        q = g.query(want_agg=r.chance(1, 3))
        rd = gen.Render(r, case=r.chance(1, 2), aliases=r.chance(1, 2), curly=r.chance(1, 4))
        text = rd.text(q)
        return ("valid", [text] if r.chance(1, 2) else gen.split_args(r, text))
    if k < 6:
        g = gen.QGen(r, roots=[".", "d1"])
        q = g.query()
        rd = gen.Render(r, case=r.chance(1, 3), aliases=r.chance(1, 2))
        ws = rd.words(q)
        for _ in range(r.range(1, 3)):
            ws = gen.mutate_words(r, ws)
        return ("mutated", [gen.join_words(ws)] if r.chance(1, 2) else ws)
    if k < 8:
        ws = gen.token_soup(r, r.range(1, 16))
        return ("soup", [" ".join(ws)] if r.chance(1, 2) else ws)
    if r.chance(1, 5):
        # roots at the edge: malformed patterns under the regex root option, options without values, odd paths
        root = r.choice(["d[", "(*", "d1*[", "*", "?", "[", "d{2", "d1", ".", "./d1/..", "nowhere", "d1/a.txt", "", "~nobody", "**"])
        opts = " ".join(r.choice(["regex", "regexp", "rx", "depth", "depth x", "mindepth -1", "maxdepth 99999999999", "sym", "arc", "dfs",
                                  "bfs", "git", "nogit", "depth 1"]) for _ in range(r.range(0, 3)))
        q = "name from %s %s" % (("'%s'" % root) if (root == "" or r.chance(1, 2)) else root, opts)
        return ("edge-root", [q] if r.chance(1, 2) else q.split())
    if r.chance(1, 2):
        col, op, lit = r.choice(EDGE_COLS), r.choice(EDGE_OPS), r.choice(EDGE_LITS)
        if " " in lit or lit[0] in "(%[*?\\" or r.chance(1, 3):
            lit = "'%s'" % lit
        if op == "between":
            cond = "%s between %s and %s" % (col, lit, r.choice(EDGE_LITS + ["10"]))
        elif op == "in":
            cond = "%s in (%s, %s)" % (col, lit, r.choice(EDGE_LITS))
        else:
            cond = "%s %s %s" % (col, op, lit)
        return ("edge-literal", ["name from . where %s" % cond])
    f = r.choice(FUNCS)
    n = r.below(4)
    args = [r.choice(BAD_ARGS) for _ in range(n)]
    call = "%s(%s)" % (f, ", ".join(args))
    where = r.chance(1, 3)
    if where:
        return ("func", ["name from . where %s %s %s" % (call, r.choice(["=", ">", "like", "=~"]), r.choice(BAD_ARGS))])
    return ("func", ["%s, name from ." % call])


def make_tree(scratch):
    root = os.path.join(scratch, "t")
    os.makedirs(root)
    entries = [
        {"path": "d1", "kind": "d", "mode": 0o755, "mtime": 1700000000},
        {"path": "d1/a.txt", "kind": "f", "size": 12, "mode": 0o644, "mtime": 1700000100, "lines": 2},
        {"path": "d1/b.rs", "kind": "f", "size": 1025, "mode": 0o755, "mtime": 1700000200, "lines": 3, "shebang": True},
        {"path": "e", "kind": "f", "size": 0, "mode": 0o600, "mtime": 1700000300},
        {"path": "lnk", "kind": "l", "target": "d1/a.txt", "mtime": 1700000400},
        {"path": "dang", "kind": "l", "target": "nowhere", "mtime": 1700000400},
        {"path": "pipe", "kind": "p", "mode": 0o644, "mtime": 1700000500},
        {"path": "2024-01-01 x", "kind": "f", "size": 3, "mode": 0o644, "mtime": 1704067200},
    ]
    fstree.materialise(root, entries)
    return root


def cli_case(ctx, root, scratch, kind, argv, expect_reject):
    r = common.run_cli(argv, cwd=root, scratch=scratch, timeout=5 if ctx.tier == "quick" else 20)
    case = {"argv": argv, "kind": kind}
    ctx.hist("cli_status", "timeout" if r["timed_out"] else r["status"])
    if r["timed_out"]:
        ctx.oracle_fail("did not terminate within the time limit", case, detail={"stdout": r["out"][:200].decode("utf-8", "replace")})
    elif common.panicked(r):
        ctx.oracle_fail("panic", case, detail={"status": r["status"], "stderr": r["err"][-400:].decode("utf-8", "replace")})
    elif r["status"] not in (0, 1, 2):
        ctx.oracle_fail("exit status outside {0,1,2}", case, detail={"status": r["status"]})
    elif expect_reject and (r["status"] != 2 or r["out"] != b"" or r["err"] == b""):
        ctx.oracle_fail("parse-time rejection must print no row, a diagnostic, and exit 2", case,
                        detail={"status": r["status"], "stdout": r["out"][:200].decode("utf-8", "replace"),
                                "stderr": r["err"][:200].decode("utf-8", "replace")})
    return r


def run(ctx):
    quick = ctx.tier == "quick"
    n_parse = 12000 if quick else 150000
    n_cli = 500 if quick else 6000
    # (a) in-process parser correspondence
    if ctx.harness_ok and ctx.model_ok:
        for i in range(n_parse):
            r = ctx.rng.fork()
            kind, argv = gen_argv(r)
            ctx.case(("p",) + tuple(argv))
            ctx.hist("argv_kind", kind)
            ctx.hist("argv_len", min(len(argv), 17))
            a = canon_parse(ctx.model.ask("parse", *argv))
            b = canon_parse(ctx.harness.ask("parse", *argv, timeout=10))
            ctx.hist("parse_outcome", b[0])
            if b[0] in ("panic", "hang", "died:-6", "died:-11") or b[0].startswith("died"):
                ctx.oracle_fail("Parser::parse %s" % b[0], {"argv": argv, "kind": kind, "level": "in-process Parser::parse"})
            elif a == ("unsupported",):
                ctx.count("model_abstains")
            elif a != b:
                ctx.disagree("parseQuery (model) = Parser::parse (implementation)", {"argv": argv}, str(a)[:400], str(b)[:400])
            if i < 3:
                ctx.sample({"argv": argv, "kind": kind, "model": a[0], "impl": b[0]})
    else:
        ctx.notes.append("in-process parser correspondence skipped (harness or model unavailable)")
    # (b) CLI totality oracle
    scratch = common.new_scratch()
    try:
        root = make_tree(scratch)
        # corpus first: witnesses of fixed defects must stay fixed
        for k in common.load_known_findings():
            if "C10" in ([k.get("property")] + k.get("properties", [])) and k.get("status") == "fixed":
                argv = k["witness"]["argv"]
                ctx.case(("c",) + tuple(argv))
                cli_case(ctx, root, scratch, "corpus:" + k["id"], argv, False)
        # every scalar function on every ill-typed / out-of-range argument (one argument, systematically; two and three
        # arguments at random), in the select list and in a condition
        fr = ctx.rng.fork()
        calls = ["%s(%s)" % (f, a) for f in FUNCS for a in BAD_ARGS + ["size - 100", "0 - size", "size * 1.5", "1e30", "'-inf'"]]
        for f in FUNCS:
            for _ in range(4 if quick else 40):
                calls.append("%s(%s)" % (f, ", ".join(fr.choice(BAD_ARGS + ["size", "name", "0 - size"]) for _ in range(fr.range(2, 3)))))
        if quick:
            calls = [c for j, c in enumerate(calls) if (j + ctx.seed) % 2 == 0]
        for call in calls:
            argv = ["%s, name from ." % call] if fr.chance(3, 4) else ["name from . where %s %s 1" % (call, fr.choice(["=", ">", "like"]))]
            ctx.case(("f",) + tuple(argv))
            ctx.hist("argv_kind", "func-sweep")
            cli_case(ctx, root, scratch, "func-sweep", argv, False)
        for i in range(n_cli):
            r = ctx.rng.fork()
            kind, argv = gen_argv(r)
            ctx.case(("c",) + tuple(argv))
            expect_reject = False
            if ctx.model_ok:
                m = canon_parse(ctx.model.ask("parse", *argv))
                first = argv[0].lower() if argv else ""
                special = (not argv or "version" in first or first.startswith("-") or "help" in first
                           or first.startswith("/?") or first.startswith("/h") or "nocolor" in first
                           or "no-color" in first or first.startswith("/i") or first.startswith("/c"))
                expect_reject = (m == ("err",)) and not special
            res = cli_case(ctx, root, scratch, kind, argv, expect_reject)
            if i < 3:
                ctx.sample({"argv": argv, "kind": kind, "status": res["status"]})
        # argument pre-processing of main()
        for argv in [["-c"], ["--config"], ["-i"], ["-c", "/nonexistent/cfg.toml", "name", "from", "."], ["nocolor"],
                     ["--nocolor", "name from . limit 1"], ["-v"], ["--help"], ["/?"], [""], [" "], ["-c", ""]]:
            if argv == ["-i"]:
                continue  # interactive mode reads stdin (outside the property's argv quantifier: needs a tty)
            ctx.case(("m",) + tuple(argv))
            cli_case(ctx, root, scratch, "main-args", argv, False)
    finally:
        common.rm_tree(scratch)
